------------------------------ MODULE Trace_NN ------------------------------
(***************************************************************************)
(* C07 trace validation.  A case is one (point sequence, query, metric);   *)
(* every event is one *session*: an index built through the public API     *)
(* (kind, float type, leaf size, memory layout, calling form) and all the  *)
(* queries of the case answered by it.  A session is explained when        *)
(*   Build   the build succeeded iff it is well-formed (dimension >= 1 and *)
(*           leaf size >= 1), a malformed build is an error (not a panic,  *)
(*           not an answer)                                                *)
(*   Knn     every k in ks (incl. k far beyond n, up to usize::MAX): status *)
(*           ok and NNRel!KnnOk -- min(k,n) distinct                       *)
(*           stored rows with their own coordinates, ascending, no         *)
(*           unreturned point closer than the farthest returned one        *)
(*   Range   every radius: status ok and NNRel!RangeOk -- all points       *)
(*           strictly inside, none strictly outside                        *)
(*   Agree   the returned range set equals the set every earlier session   *)
(*           of the case returned for that radius (interchangeable, also   *)
(*           on the radius); state variable `agree`                        *)
(*   Bad     every malformed query (wrong dimension) is an error for both  *)
(*           query kinds                                                   *)
(* A "tree" event is the structure of a ball tree built by                 *)
(* BallTreeIndex::new (read from its public Debug output); it is explained *)
(* by NNRel!TreeOk: every row in exactly one leaf, leaves within the leaf  *)
(* size, both halves of a branch non-empty, and every point of a subtree   *)
(* within radius of the node's centre.                                     *)
(* and the logged session header is the one the case asked for.            *)
(*                                                                         *)
(* Named deviations (only when listed in Devs; see docs/reports/C07.md):   *)
(*   "kd_inclusive"   the k-d tree returns the CLOSED ball (points on the  *)
(*                    radius included) -- exactly ClosedSet -- and is then *)
(*                    compared with the others without the boundary points *)
(*   "ball_k0_panic"  the ball tree panics for k = 0 on a non-empty index  *)
(***************************************************************************)
EXTENDS NN, TraceIO

CONSTANT Devs

VARIABLES c, e,       \* case and event cursor
          agree,      \* agree[j]: <<>> or <<set>>: the range answer for radius j seen so far
          used        \* deviations that were needed

tvars == <<c, e, agree, used>>

Case == Rec[c]
In   == Case.inp
Ev   == Case.ev[e]
P    == In.pts
NR   == Len(In.r8s)

TraceInit ==
  /\ c \in 1..Len(Rec) /\ e = 1
  /\ agree = [j \in 1..Len(Rec[c].inp.r8s) |-> <<>>]
  /\ used = {}
  \* the design-model variables are not used during trace validation
  /\ pts = <<>> /\ qry = <<>> /\ met = "" /\ dv = <<>> /\ out = <<>> /\ pc = "trace"

HasEv(name) == e <= Len(Case.ev) /\ Ev.ev = name
Adv == e' = e + 1 /\ UNCHANGED <<c, vars>>

RECURSIVE SetAsSeq(_)
SetAsSeq(S) == IF S = {} THEN <<>> ELSE LET x == CHOOSE y \in S : TRUE IN <<x>> \o SetAsSeq(S \ {x})

IsKd(ix)   == ix \in {"kd", "kd_d", "kd_n"}
IsBall(ix) == ix \in {"ball", "ball_d", "ball_n"}

-----------------------------------------------------------------------------
(* clauses; D is the distance vector of the case (computed once per session) *)

HeaderOk ==
  /\ e <= Len(In.sess)
  /\ Ev.ix = In.sess[e].ix /\ Ev.ft = In.sess[e].ft /\ Ev.leaf = In.sess[e].leaf /\ Ev.lay = In.sess[e].lay

\* (LinearSearchIndex::new takes no leaf size)
Valid == IF Ev.ix = "lin_n" THEN In.dim >= 1 ELSE BuildValid(In.dim, Ev.leaf)
BuildOk == Ev.build = (IF Valid THEN "ok" ELSE "err")

ShapeOk ==
  IF Valid THEN Len(Ev.knn) = Len(In.ks) /\ Len(Ev.rng) = NR /\ Len(Ev.bad) = Len(In.badq)
  ELSE Len(Ev.knn) = 0 /\ Len(Ev.rng) = 0 /\ Len(Ev.bad) = 0

\* a negative entry of ks is a code for a k far beyond n (usize::MAX, usize::MAX / 2, 2^32, 10^12: not
\* TLC integers); the answer is then all n points, i.e. the answer for k = n + 1.  Such a query may end
\* in status "panic" or "abort" (allocation failure in an isolated child process): neither is "ok".
KEff(j) == IF In.ks[j] < 0 THEN In.n + 1 ELSE In.ks[j]
KnnStrict(D, j) ==
  /\ Ev.knn[j].k = In.ks[j]
  /\ Ev.knn[j].st = "ok"
  /\ KnnOk(P, D, KEff(j), Ev.knn[j].res)
KnnDevK0(j) ==
  /\ "ball_k0_panic" \in Devs /\ IsBall(Ev.ix)
  /\ In.ks[j] = 0 /\ In.n > 0
  /\ Ev.knn[j].k = 0 /\ Ev.knn[j].st = "panic"
KnnClause(D, j) == KnnStrict(D, j) \/ KnnDevK0(j)

RngStrict(D, j) ==
  /\ Ev.rng[j].r8 = In.r8s[j]
  /\ Ev.rng[j].st = "ok"
  /\ RangeOk(P, D, In.metric, In.r8s[j], Ev.rng[j].res)
\* what this session contributes to the agreement on radius j
Key(D, j) == AgreeKey(In.metric, D, In.r8s[j], Ev.rng[j].res)
AgreeStrict(D, j) == agree[j] = <<>> \/ agree[j][1] = Key(D, j)
\* deviation: the k-d tree answers with exactly the closed ball; boundary points are then ignored
\* when it is compared with the other sessions
KdIncl(D, j) ==
  /\ "kd_inclusive" \in Devs /\ IsKd(Ev.ix)
  /\ PosSet(Ev.rng[j].res) = ClosedSet(In.metric, D, In.r8s[j])
  /\ OnSet(In.metric, D, In.r8s[j]) # {}
AgreeDev(D, j) ==
  /\ KdIncl(D, j)
  /\ agree[j] = <<>> \/ agree[j][1] \ OnSet(In.metric, D, In.r8s[j]) = Key(D, j) \ OnSet(In.metric, D, In.r8s[j])
RngClause(D, j) == RngStrict(D, j) /\ (AgreeStrict(D, j) \/ AgreeDev(D, j))

BadClause(j) ==
  /\ Ev.bad[j].qd = Len(In.badq[j])
  /\ Ev.bad[j].knn = "err"
  /\ Ev.bad[j].rng = "err"

SessOk(D) ==
  /\ HeaderOk /\ BuildOk /\ ShapeOk
  /\ Valid => /\ \A j \in 1..Len(In.ks) : KnnClause(D, j)
              /\ \A j \in 1..NR : RngClause(D, j)
              /\ \A j \in 1..Len(In.badq) : BadClause(j)

\* the k-d tree under "kd_inclusive" does not become the reference for later sessions
NextAgree(D) ==
  IF ~Valid THEN agree
  ELSE [j \in 1..NR |->
          IF agree[j] # <<>> THEN agree[j]
          ELSE IF ~AgreeStrict(D, j) \/ KdIncl(D, j) THEN <<>>
          ELSE <<Key(D, j)>>]
NextUsed(D) ==
  IF ~Valid THEN used
  ELSE used \cup (IF \E j \in 1..Len(In.ks) : ~KnnStrict(D, j) THEN {"ball_k0_panic"} ELSE {})
            \cup (IF \E j \in 1..NR : ~AgreeStrict(D, j) THEN {"kd_inclusive"} ELSE {})

TSess ==
  /\ HasEv("sess")
  /\ LET D == DistVec(In.metric, P, In.q) IN
       /\ SessOk(D) = TRUE      \* "= TRUE": evaluated as a state predicate (TLC would otherwise expand
                               \* the disjunctions inside as alternative actions and evaluate both sides)
       /\ agree' = NextAgree(D)
       /\ used' = NextUsed(D)
  /\ Adv

\* the structure of a ball tree built by BallTreeIndex::new (read from its Debug output)
TreeClause ==
  /\ HeaderOk /\ BuildOk
  /\ Valid => Ev.parsed /\ TreeOk(P, In.metric, Ev.leaf, Ev.nodes)
TTree ==
  /\ HasEv("tree")
  /\ TreeClause = TRUE
  /\ Adv /\ UNCHANGED <<agree, used>>

Accept ==
  /\ e = Len(Case.ev) + 1
  /\ Len(Case.ev) = Len(In.sess)            \* every requested session was recorded
  /\ IF used = {} THEN Ok(Case.id) ELSE OkDev(Case.id, SetAsSeq(used))
  /\ e' = e + 1 /\ UNCHANGED <<c, vars, agree, used>>

\* diagnostics: the first false clause of the stuck session (kept short: TLC wraps long tuples over
\* several lines and the orchestrator reads FAIL lines one by one)
FirstBad(D) ==
  IF ~HeaderOk THEN <<"header">>
  ELSE IF ~BuildOk THEN <<"build", Ev.build>>
  ELSE IF ~ShapeOk THEN <<"shape">>
  ELSE IF \E j \in 1..Len(In.ks) : ~KnnClause(D, j)
    THEN LET j == CHOOSE jj \in 1..Len(In.ks) : ~KnnClause(D, jj) /\ \A i \in 1..(jj - 1) : KnnClause(D, i)
         IN <<"knn", In.ks[j], Ev.knn[j].st>>
  ELSE IF \E j \in 1..NR : ~RngStrict(D, j)
    THEN LET j == CHOOSE jj \in 1..NR : ~RngStrict(D, jj) IN <<"range", In.r8s[j], Ev.rng[j].st>>
  ELSE IF \E j \in 1..NR : ~RngClause(D, j)
    THEN LET j == CHOOSE jj \in 1..NR : ~RngClause(D, jj) IN <<"agree", In.r8s[j]>>
  ELSE <<"badquery">>

\* (TSess is enabled iff the event is a session satisfying SessOk: the guard is written out instead of
\* ~ENABLED TSess)
Stuck ==
  /\ e <= Len(Case.ev)
  /\ IF Ev.ev = "sess"
       THEN LET D == DistVec(In.metric, P, In.q) IN
            /\ SessOk(D) = FALSE
            /\ Fail(Case.id, <<e, Ev.ix, Ev.ft, Ev.leaf, Ev.lay>> \o FirstBad(D))
       ELSE IF Ev.ev = "tree"
       THEN /\ TreeClause = FALSE
            /\ Fail(Case.id, <<e, "tree", Ev.ft, Ev.leaf, Ev.build>>)
       ELSE Fail(Case.id, <<e, Ev.ev>>)
  /\ e' = Len(Case.ev) + 2 /\ UNCHANGED <<c, vars, agree, used>>

TraceNext == TSess \/ TTree \/ Accept \/ Stuck
=============================================================================
