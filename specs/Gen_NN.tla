------------------------------- MODULE Gen_NN -------------------------------
(***************************************************************************)
(* Case generator for C07.  One case = one point sequence on a doubled     *)
(* lattice (points on the coordinates PC, e.g. the even numbers), one      *)
(* query point on QC (all integers, so queries fall on stored points, on   *)
(* cell borders and outside the hull), one metric; with                    *)
(*   ks   = 0 .. n+1, and k far beyond n (usize::MAX, usize::MAX/2, 2^32)  *)
(*   r8s  = radii in eighths: 0, every attained distance that is exactly   *)
(*          representable (points ON the sphere), the smallest eighth      *)
(*          strictly above every attained distance (strictly between       *)
(*          distances), and one beyond the farthest point                  *)
(*   sess = the sessions (index kind x float type x leaf size x memory     *)
(*          layout x calling form) every query is run on: the linear scan, *)
(*          k-d tree and ball tree at every leaf size 1..n, plus a         *)
(*          rotating set of extras (f32/f64 swap, default leaf size, the   *)
(*          algorithm structs themselves and the index types' own          *)
(*          constructors, strided / column-major batches, leaf size 0 =    *)
(*          malformed build, a dump of the ball tree's structure)          *)
(*   badq = malformed queries (dimension 0 and dim+1)                      *)
(* A case also carries a scale sc (1, 4, 16): the harness divides points,  *)
(* query and radii by it, so that leaf spheres have radii below 1.         *)
(* Point sequences: all sequences up to length SeqN, beyond that sorted    *)
(* multisets in a zig-zag order (largest, smallest, 2nd largest, ...).     *)
(* The bounded domain is a list of families (lattice, sizes, metrics) per  *)
(* tier, defined below.  A family with stride s > 1 contributes the cases  *)
(* whose hash = Phase mod s (a seeded 1/s sample of its product; Phase     *)
(* comes from VERIF_SEED); stride 1 = the complete family.                 *)
(***************************************************************************)
EXTENDS NNRel, TLC, Json

CONSTANTS Tier,      \* "quick" | "thorough" | "tiny"
          Phase      \* sample selector

VARIABLE case

M4 == {"l1", "l2", "linf", "lp3"}
\* scs = set of scales (powers of two): the real coordinates are pts / sc, q / sc, the real radii
\* r8 / (8 sc) -- sub-unit data (leaf spheres of radius < 1) that is still exact in binary floating
\* point; the relations keep working on the integer numerators (every comparison is homogeneous)
FamS(dim, pc, qc, minn, maxn, seqn, ms, stride, scs) ==
  [dim |-> dim, pc |-> pc, qc |-> qc, minn |-> minn, maxn |-> maxn, seqn |-> seqn, ms |-> ms, stride |-> stride,
   scs |-> scs]
Fam(dim, pc, qc, minn, maxn, seqn, ms, stride) == FamS(dim, pc, qc, minn, maxn, seqn, ms, stride, {1})
Families ==
  CASE Tier = "tiny" ->
         {Fam(1, {0, 2, 4}, 0..4, 0, 3, 3, M4, 1)}
    [] Tier = "quick" ->
         {Fam(1, {0, 2, 4, 6}, -1..7, 0, 2, 2, M4, 1),               \* complete smallest sub-domain
          Fam(1, {0, 2, 4, 6}, -1..7, 3, 6, 3, M4, 19),
          Fam(2, {0, 2, 4}, 0..4, 0, 4, 2, M4, 151),
          Fam(3, {0, 2}, 0..2, 0, 4, 2, M4, 149),
          Fam(2, {0, 2, 4}, 0..4, 2, 3, 1, {"lp1", "lp2"}, 97),
          \* the same lattices divided by 4 and 16
          FamS(1, {0, 2, 4, 6}, -1..7, 2, 6, 3, M4, 61, {4, 16}),
          FamS(2, {0, 2, 4}, 0..4, 2, 4, 1, M4, 997, {4, 16}),
          FamS(3, {0, 2}, 0..2, 2, 4, 1, M4, 509, {4})}
    [] Tier = "thorough" ->
         {Fam(1, {0, 2, 4, 6}, -1..7, 0, 3, 3, M4, 1),
          Fam(1, {0, 2, 4, 6}, -1..7, 4, 6, 3, M4, 7),
          Fam(1, {0, 2, 4, 6, 8, 10}, 0..10, 5, 7, 3, {"l2", "lp3"}, 29),
          Fam(2, {0, 2, 4}, 0..4, 0, 4, 2, M4, 37),
          Fam(2, {0, 2, 4}, 0..4, 5, 5, 2, M4, 67),
          Fam(3, {0, 2}, 0..2, 0, 4, 2, M4, 31),
          Fam(3, {0, 2}, 0..2, 5, 5, 2, M4, 47),
          Fam(2, {0, 2, 4}, 0..4, 1, 4, 1, {"lp1", "lp2"}, 31),
          FamS(1, {0, 2, 4, 6}, -1..7, 2, 6, 3, M4, 11, {4, 16}),
          FamS(1, {0, 2, 4, 6, 8, 10}, 0..10, 5, 7, 3, {"l2", "lp3"}, 37, {16}),
          FamS(2, {0, 2, 4}, 0..4, 2, 4, 1, M4, 173, {4, 16}),
          FamS(3, {0, 2}, 0..2, 2, 4, 1, M4, 89, {4, 16}),
          FamS(2, {0, 2, 4}, 0..4, 2, 4, 1, {"lp1", "lp2"}, 199, {4})}
ZeroDim == TRUE

Pow16(j) == CASE j = 0 -> 1 [] j = 1 -> 16 [] j = 2 -> 256 [] j = 3 -> 4096 [] OTHER -> 65536
Code(p) == SumSeq([i \in 1..Len(p) |-> (p[i] + 2) * Pow16(i - 1)])
MIdx(m) == CASE m = "l1" -> 1 [] m = "l2" -> 2 [] m = "linf" -> 3 [] m = "lp3" -> 4 [] m = "lp1" -> 5 [] m = "lp2" -> 6

Sorted(Pts, n) == {s \in [1..n -> Pts] : \A i \in 1..(n - 1) : Code(s[i]) <= Code(s[i + 1])}
ZigZag(s) == LET n == Len(s) IN [i \in 1..n |-> s[IF i % 2 = 1 THEN n + 1 - ((i + 1) \div 2) ELSE i \div 2]]
PointSeqs(f, n) == LET Pts == [1..f.dim -> f.pc] IN
                   IF n <= f.seqn THEN [1..n -> Pts] ELSE {ZigZag(s) : s \in Sorted(Pts, n)}

Hash(P, q, m, sc) == SumSeq([i \in 1..Len(P) |-> Code(P[i]) * (2 * i + 1)]) + 7 * Code(q) + 13 * MIdx(m) + 31 * Len(P)
                      + 17 * sc
Keep(f, P, q, m, sc) == f.stride = 1 \/ Hash(P, q, m, sc) % f.stride = Phase % f.stride

-----------------------------------------------------------------------------
(* radii *)
Icbrt(x) == CHOOSE r \in 0..400 : r * r * r <= x /\ (r + 1) * (r + 1) * (r + 1) > x
RootFloor(m, D) ==        \* largest r8 with Side(m, D, r8) >= 0 ... i.e. floor of 8 * true distance
  CASE m \in {"l1", "lp1", "linf"} -> 8 * D
    [] m \in {"l2", "lp2"}         -> Isqrt(64 * D)
    [] m = "lp3"                   -> Icbrt(512 * D)
OnRadius(m, D) == LET r == RootFloor(m, D) IN IF Side(m, D, r) = 0 THEN {r} ELSE {}
JustAbove(m, D) == RootFloor(m, D) + 1
R8s(m, dv) ==
  LET att == {dv[i] : i \in DOMAIN dv} IN
  SeqOfSet({0} \cup UNION {OnRadius(m, D) : D \in att} \cup {JustAbove(m, D) : D \in att}
           \cup {IF att = {} THEN 8 ELSE JustAbove(m, MaxSet(att)) + 8})

-----------------------------------------------------------------------------
(* sessions *)
S(ix, ft, lf, lay) == [ix |-> ix, ft |-> ft, leaf |-> lf, lay |-> lay]
Leafs(n) == SeqOfSet((1..Max2(1, Min2(n, 4))) \cup {Max2(n, 1)})
Other(ft) == IF ft = "f64" THEN "f32" ELSE "f64"

\* ball tree structure dumps (containment is stated for the metrics with exact integer forms)
TreeSess(m, plan) ==
  IF m \notin {"l1", "l2", "linf", "lp1"} THEN <<>>
  ELSE CASE plan = 0 -> <<S("tree", "f64", 1, "std")>>
         [] plan = 1 -> <<S("tree", "f32", 2, "std")>>
         [] plan = 2 -> <<S("tree", "f32", 1, "std"), S("tree", "f64", 0, "std")>>
         [] plan = 3 -> <<S("tree", "f64", 3, "std")>>

Sessions(n, plan) ==
  LET ft == IF plan % 2 = 0 THEN "f64" ELSE "f32"
      lf == Leafs(n)
  IN <<S("lin", "f64", 1, "std")>>
     \o [j \in 1..Len(lf) |-> S("kd", ft, lf[j], "std")]
     \o [j \in 1..Len(lf) |-> S("ball", ft, lf[j], "std")]
     \o CASE plan = 0 -> <<S("lin", "f32", 1, "std"), S("kd", "f32", -1, "std"), S("ball", "f32", -1, "rows2"),
                           S("ball_n", "f64", 2, "fort")>>
          [] plan = 1 -> <<S("lin_d", "f64", 2, "cols2"), S("kd_d", "f64", 1, "rows2"), S("ball_d", "f64", 1, "fort"),
                           S("lin_n", "f32", 1, "rows2"), S("kd_n", "f32", 2, "std")>>
          [] plan = 2 -> <<S("lin", "f64", 0, "std"), S("kd", "f64", 0, "std"), S("ball", "f64", 0, "std"),
                           S("ball", "f32", 2, "cols2")>>
          [] plan = 3 -> <<S("lin", "f64", -1, "fort"), S("kd", "f64", 2, "rows2"), S("ball", "f64", 1, "cols2"),
                           S("ball_d", "f64", 3, "rows2")>>

MkCase(f, P, q, m, sc) ==
  LET n == Len(P)
      Dim == f.dim
      dv == DistVec(m, P, q)
      plan == (Hash(P, q, m, sc) \div f.stride) % 4
  IN [kind |-> "nn",
      inp |-> [n |-> n, dim |-> Dim, sc |-> sc, pts |-> P, q |-> q, metric |-> m,
               \* 0..n+1, then codes for k far beyond n: -1 = usize::MAX, -2 = usize::MAX / 2 and (a quarter of
               \* the cases: it costs a child process) -3 = 2^32, an amount no allocator can reserve
               ks |-> [j \in 1..(n + 2) |-> j - 1] \o <<-1, -2>> \o (IF plan = 0 THEN <<-3>> ELSE <<>>),
               r8s |-> R8s(m, dv),
               badq |-> << <<>>, [i \in 1..(Dim + 1) |-> 1] >>,
               sess |-> Sessions(n, plan) \o TreeSess(m, plan)]]

\* zero-dimensional batches: every build is malformed
ZeroCase(n, m) ==
  [kind |-> "nn",
   inp |-> [n |-> n, dim |-> 0, sc |-> 1, pts |-> [i \in 1..n |-> <<>>], q |-> <<>>, metric |-> m,
            ks |-> <<0, 1>>, r8s |-> <<8>>, badq |-> << <<1>> >>,
            sess |-> <<S("lin", "f64", 1, "std"), S("kd", "f64", 1, "std"), S("ball", "f64", 1, "std"),
                       S("lin", "f32", -1, "std"), S("kd", "f32", -1, "std"), S("ball", "f32", -1, "std"),
                       S("lin_d", "f64", 0, "std"), S("kd_d", "f64", 0, "std"), S("ball_d", "f64", 0, "std"),
                       S("lin_n", "f64", 1, "std"), S("kd_n", "f64", 1, "std"), S("ball_n", "f64", 1, "std"),
                       S("tree", "f64", 1, "std")>>]]

Init ==
  \/ \E f \in Families : \E n \in f.minn..f.maxn : \E P \in PointSeqs(f, n) :
     \E q \in [1..f.dim -> f.qc] : \E m \in f.ms : \E sc \in f.scs :
       /\ Keep(f, P, q, m, sc) = TRUE       \* (= TRUE: a state predicate, not two alternative branches)
       /\ case = MkCase(f, P, q, m, sc)
  \/ /\ ZeroDim
     /\ \E n \in 0..2 : \E m \in {"l2", "linf"} : case = ZeroCase(n, m)

Next == UNCHANGED case
Emit == PrintT("CASE " \o ToJson(case))
=============================================================================
