---------------------------- MODULE Gen_Scaling ----------------------------
(***************************************************************************************************)
(* Case generator for C16.  Every initial state is one case [kind, inp]:                           *)
(*   lin   : training matrix X (n x p), unseen rows Z, selection sel, one of the six linear scaler *)
(*           variants (min-max with four ranges), float type, dataset form, target shape, weights, *)
(*           constructor (named / generic)                                                         *)
(*            L1  every non-decreasing one-column matrix over -2..3, n = 1..N1                     *)
(*            L2  every two-column matrix over {-1,0,2}, n = 2..N2 (a 1/Thin2 sample for n >= 3)   *)
(*            L3  offset / badly scaled / constant / zero columns side by side (n = 3)             *)
(*   norm  : batches of six rows covering every row over -2..3 with p = 1..PN (zero rows included) *)
(*   wh    : full-rank matrices: one column (n = 2..3), two columns over {-1,0,2} (n = 3..NW, a    *)
(*           1/ThinW sample), badly scaled two-column data, three columns over {-1,2} (n = 4..5,     *)
(*           1/Thin3 sample, thorough tier); three whitening methods                               *)
(*   small units (L4, L5, NormSmall, WS1..WS3): the same integer matrices with columns divided by 2^14..2^20   *)
(*           (exact in binary floating point; the unit sh[j] is carried by the case): uniformly small data and one  *)
(*           small-unit column next to a unit column                                                             *)
(*   layouts: every case hands its record matrices to the code in one of six memory layouts (row-major, column-major,  *)
(*           transposed, reversed rows, reversed columns, strided) chosen by the content hash; NormLay / LinLay /   *)
(*           WhLay enumerate all five non-standard layouts explicitly                                             *)
(*   ranges  (LR): min-max with every range lo..lo+w, lo in {-1,-1/2,0,1,10}, w in {0,1/2,1,2,5}                     *)
(*   offsets (LO, WO): columns carrying an exactly representable offset 2^30..2^46 (f64) / 2^14, 2^17 (f32); the case  *)
(*           keeps the un-shifted integers                                                                        *)
(*   empty : fitting each of the nine estimators on 0 x p data, p = 0..2                           *)
(* Dimensions that do not change the expected answer (float type, form, targets, weights,          *)
(* constructor, whether the selection is empty) are derived from a hash of the case content.       *)
(***************************************************************************************************)
EXTENDS Integers, Sequences, TLC, Json

CONSTANTS N1, N2, Thin2, PN, NW, ThinW, Thin3, ThinS, Shifts

VARIABLE case

LOCAL S == INSTANCE Scaling WITH MaxN <- 0, MaxN2 <- 0, NegV <- 0, PosV <- 0, Sorted <- FALSE, SmallSh <- 0,
                                 meth <- "", rng <- <<>>, X <- <<>>, pc <- "", par <- <<>>, k <- 0, outs <- <<>>

RECURSIVE SumQ(_)
SumQ(s) == IF s = <<>> THEN 0 ELSE Head(s) + SumQ(Tail(s))
\* content hash of a matrix (entries shifted to be positive)
Hash(X) == SumQ([i \in 1..Len(X) |-> SumQ([j \in 1..Len(X[i]) |-> (7 * i + 3 * j + 1) * ((X[i][j] % 1000) + 5)])])

\* <<method, lo, hi, rd>>: the min-max range is lo/rd .. hi/rd (rd = 1 or 2)
LinVariants ==
  {<<m, 0, 1, 1>> : m \in {"std", "nomean", "nostd", "none", "maxabs", "minmax"}}
    \cup {<<"minmax", -1, 1, 1>>, <<"minmax", 5, 10, 1>>, <<"minmax", 2, 2, 1>>}
\* every range with lower bound in {-1, -1/2, 0, 1, 10} and width in {0, 1/2, 1, 2, 5} (in halves)
RangeVariants == {<<"minmax", lo2, lo2 + w2, 2>> : lo2 \in {-2, -1, 0, 2, 20}, w2 \in {0, 1, 2, 4, 10}}
VarIdx(v) == CASE v[1] = "std" -> 1 [] v[1] = "nomean" -> 2 [] v[1] = "nostd" -> 3 [] v[1] = "none" -> 4
               [] v[1] = "maxabs" -> 5 [] OTHER -> 26 + v[2] + v[3] + v[4]

ZFix(p) == << [j \in 1..p |-> IF j % 2 = 1 THEN -3 ELSE 5], [j \in 1..p |-> IF j % 2 = 1 THEN 5 ELSE -4], [j \in 1..p |-> 0] >>
\* unseen row first, then the training rows in reverse order, then the first training row again
SelFor(n, h) == IF h % 7 = 0 THEN <<>> ELSE <<n + 2>> \o [q \in 1..n |-> n + 1 - q] \o <<1>>

Deco(h) == [ft |-> IF h % 4 = 3 THEN "f32" ELSE "f64",
            form |-> IF h % 2 = 0 THEN "owned" ELSE "view",
            tw |-> h % 3,
            wts |-> (h \div 3) % 2 = 0,
            ctor |-> IF h % 5 = 0 THEN "new" ELSE IF h % 5 = 1 THEN "setter" ELSE "named"]

\* f32 only on the small lattice: with offset / badly scaled columns the rounding of f32 itself exceeds the grid
SmallM(X) == \A i \in 1..Len(X) : \A j \in 1..Len(X[i]) : X[i][j] <= 9 /\ X[i][j] >= -9
Ft(d, X) == IF SmallM(X) THEN d.ft ELSE "f64"

\* memory layouts of the record matrices handed to the code (harness/src/bin/c16.rs `records`)
Layouts == <<"c", "f", "t", "revr", "revc", "step">>
LayOf(h) == Layouts[((h \div 11) % 6) + 1]
WithLay(cs, lay) == [cs EXCEPT !.inp.lay = lay]
OtherLays == {"f", "t", "revr", "revc", "step"}

\* sh[j]: column j is expressed in the unit 2^-sh[j] (the harness divides the integers by 2^sh[j], exactly)
NoSh(p) == [j \in 1..p |-> 0]
Uniform(sh) == \A j \in 1..Len(sh) : sh[j] = sh[1]
\* oe[j] > 0: column j carries the offset 2^oe[j] (added by the harness to X and Z, exactly representable; the case
\* and the specification keep the un-shifted integers).  Offsets fix the float type: 2^30..2^46 f64, 2^14 / 2^17 f32.
HasOe(oe) == \E j \in 1..Len(oe) : oe[j] > 0
FtOe(oe, ft) == IF ~HasOe(oe) THEN ft ELSE IF \E j \in 1..Len(oe) : oe[j] > 0 /\ oe[j] < 24 THEN "f32" ELSE "f64"
LinCaseUO(X, p, Z, v, sh, oe) ==
  LET h == Hash(X) + VarIdx(v) + SumQ(sh) + SumQ(oe)
      d == Deco(h)
  IN [kind |-> "lin",
      inp |-> [ft |-> FtOe(oe, Ft(d, X)), form |-> d.form, tw |-> d.tw, wts |-> d.wts, ctor |-> d.ctor, sh |-> sh, oe |-> oe,
               lay |-> LayOf(h), meth |-> v[1], lo |-> v[2], hi |-> v[3], rd |-> v[4], p |-> p, X |-> X, Z |-> Z,
               sel |-> SelFor(Len(X), h)]]
LinCaseU(X, p, Z, v, sh) == LinCaseUO(X, p, Z, v, sh, NoSh(p))
LinCase(X, p, Z, v) == LinCaseU(X, p, Z, v, NoSh(p))

V1 == -2..3
V2 == {-1, 0, 2}
IsSorted(X) == \A i \in 1..(Len(X) - 1) : X[i][1] <= X[i + 1][1]

\* offset, badly scaled, constant and zero columns (n = 3); values stay exactly representable
Cols3A == {<<1000, 1001, 1003>>, <<-20000, 0, 30000>>, <<7, 7, 7>>, <<10001, 10000, 10001>>}
Cols3B == {<<0, 1, 2>>, <<0, 0, 0>>, <<3, 3, -3>>}

L1 == {LinCase(X, 1, ZFix(1), v) : X \in {Y \in UNION {[1..n -> [1..1 -> V1]] : n \in 1..N1} : IsSorted(Y)}, v \in LinVariants}
L2 == {LinCase(X, 2, ZFix(2), v) :
         X \in {Y \in UNION {[1..n -> [1..2 -> V2]] : n \in 2..N2} : Len(Y) = 2 \/ Hash(Y) % Thin2 = 0},
         v \in LinVariants}
L3 == {LinCase([i \in 1..3 |-> <<a[i], b[i]>>], 2, << <<999, 1>>, <<0, 0>> >>, v) : a \in Cols3A, b \in Cols3B, v \in LinVariants}
\* small units: a 1/ThinS sample of the one-column matrices (n = 2..3) in every unit of Shifts, and of the two-column
\* matrices (n = 2) with one small-unit column next to a unit column / two different small units
L4 == {LinCaseU(X, 1, ZFix(1), v, <<e>>) :
         X \in {Y \in UNION {[1..n -> [1..1 -> V1]] : n \in 2..3} : IsSorted(Y) /\ Hash(Y) % ThinS = 0},
         v \in LinVariants, e \in Shifts}
L5 == {LinCaseU(X, 2, ZFix(2), v, sh) :
         X \in {Y \in [1..2 -> [1..2 -> V2]] : Hash(Y) % ThinS = 1},
         v \in LinVariants, sh \in {<<0, 17>>, <<20, 14>>}}

\* norm scaling: row number q (0-based) over -2..3 with p columns = digits of q in base 6, minus 2
Pow6(p) == IF p = 0 THEN 1 ELSE IF p = 1 THEN 6 ELSE IF p = 2 THEN 36 ELSE IF p = 3 THEN 216 ELSE 1296
RowOf(q, p) == [j \in 1..p |-> ((q \div Pow6(j - 1)) % 6) - 2]
NormCaseU(p, b, m, e) ==                        \* e: every column in the unit 2^-e (a row direction needs one common unit)
  LET X == [i \in 1..6 |-> RowOf(6 * b + i - 1, p)]
      h == Hash(X) + (IF m = "l1" THEN 0 ELSE IF m = "l2" THEN 1 ELSE 2) + e
      d == Deco(h)
  IN [kind |-> "norm",
      inp |-> [ft |-> d.ft, form |-> d.form, tw |-> d.tw, wts |-> d.wts, meth |-> m, p |-> p, sh |-> [j \in 1..p |-> e], oe |-> NoSh(p), lay |-> LayOf(h),
               X |-> X, Z |-> <<>>, sel |-> IF h % 7 = 0 THEN <<>> ELSE <<6, 5, 4, 3, 2, 1, 6>>]]
NormCase(p, b, m) == NormCaseU(p, b, m, 0)
NormCases == UNION {{NormCase(p, b, m) : b \in 0..(Pow6(p) \div 6 - 1), m \in {"l1", "l2", "max"}} : p \in 1..PN}
NormSmall == UNION {{NormCaseU(p, b, m, 20) : b \in 0..(Pow6(p) \div 6 - 1), m \in {"l1", "l2", "max"}} : p \in 1..2}

WhMethods == {"pca", "zca", "chol"}
\* f32 only where the conditioning is that of the integer lattice: one common unit (a power of two scales every
\* intermediate result exactly); a small-unit column next to a unit column (condition number 2^28) only in f64
WhCaseUO(X, p, Z, m, sh, oe) ==
  LET h == Hash(X) + (IF m = "pca" THEN 0 ELSE IF m = "zca" THEN 1 ELSE 2) + SumQ(sh) + SumQ(oe)
      d == Deco(h)
  IN [kind |-> "wh",
      inp |-> [ft |-> FtOe(oe, IF Uniform(sh) THEN Ft(d, X) ELSE "f64"), form |-> d.form, tw |-> d.tw, wts |-> d.wts,
               ctor |-> d.ctor, sh |-> sh, oe |-> oe, lay |-> LayOf(h), meth |-> m, p |-> p, X |-> X, Z |-> Z, sel |-> SelFor(Len(X), h)]]
WhCaseU(X, p, Z, m, sh) == WhCaseUO(X, p, Z, m, sh, NoSh(p))
WhCase(X, p, Z, m) == WhCaseU(X, p, Z, m, NoSh(p))
W1 == {WhCase(X, 1, ZFix(1), m) :
         X \in {Y \in UNION {[1..n -> [1..1 -> V1]] : n \in 2..3} : IsSorted(Y) /\ Y[1] # Y[Len(Y)]}, m \in WhMethods}
W2 == {WhCase(X, 2, ZFix(2), m) :
         X \in {Y \in UNION {[1..n -> [1..2 -> V2]] : n \in 3..NW} : Hash(Y) % ThinW = 0 /\ S!FullRank(Y, 2)},
         m \in WhMethods}
\* badly scaled second column (factor 1000), offset first column
W3 == {WhCase([i \in 1..Len(Y) |-> <<Y[i][1] + 100, 1000 * Y[i][2]>>], 2, << <<100, 0>>, <<103, 2500>> >>, m) :
         Y \in {Y \in [1..4 -> [1..2 -> V2]] : Hash(Y) % (8 * ThinW) = 1 /\ S!FullRank(Y, 2)}, m \in WhMethods}

\* small units (variances down to 1e-12: every clamp / guard of the code at 1e-8 is crossed):
\* every one-column matrix of W1 in every unit of Shifts; a sample of the two-column matrices with both columns in
\* the unit 2^-17 / 2^-20, and with one column in the unit 2^-14 next to a unit column
WS1 == {WhCaseU(X, 1, ZFix(1), m, <<e>>) :
          X \in {Y \in UNION {[1..n -> [1..1 -> V1]] : n \in 2..3} : IsSorted(Y) /\ Y[1] # Y[Len(Y)]}, m \in WhMethods, e \in Shifts}
WS2 == {WhCaseU(X, 2, ZFix(2), m, sh) :
          X \in {Y \in UNION {[1..n -> [1..2 -> V2]] : n \in 3..NW} : Hash(Y) % (4 * ThinW) = 3 /\ S!FullRank(Y, 2)},
          m \in WhMethods, sh \in {<<17, 17>>, <<20, 20>>, <<0, 14>>, <<14, 0>>}}
WS3 == IF Thin3 = 0 THEN {}
       ELSE {WhCaseU(X, 3, ZFix(3), m, sh) :
               X \in {Y \in UNION {[1..n -> [1..3 -> {-1, 2}]] : n \in 4..5} : Hash(Y) % (2 * Thin3) = 5 /\ S!FullRank(Y, 3)},
               m \in WhMethods, sh \in {<<17, 17, 17>>, <<0, 14, 0>>}}

\* three columns over {-1,2}, n = 4..5, a 1/Thin3 sample (Thin3 = 0: none)
W4 == IF Thin3 = 0 THEN {}
      ELSE {WhCase(X, 3, ZFix(3), m) :
              X \in {Y \in UNION {[1..n -> [1..3 -> {-1, 2}]] : n \in 4..5} : Hash(Y) % Thin3 = 2 /\ S!FullRank(Y, 3)},
              m \in WhMethods}

\* neighbourhoods of two inputs on which SVD-based whitening of three columns loses accuracy (third column
\* scaled by 10 / 30): every completion of a three-row base by a fourth row
Base5 == {<< <<1, -1, -10>>, <<0, 1, 0>>, <<-1, 1, 20>> >>, << <<1, 0, 0>>, <<1, -1, -30>>, <<0, -2, 0>> >>}
Step5(B) == IF B[1][3] = -10 THEN 10 ELSE 30
W5 == {WhCase(X, 3, << <<0, 0, 0>>, <<2, -2, 15>> >>, m) :
         X \in {Y \in {Append(B, <<a, b, cc * Step5(B)>>) : B \in Base5, a \in -1..1, b \in -2..0, cc \in -2..2} :
                  S!FullRank(Y, 3)},
         m \in WhMethods}

\* every layout explicitly (besides the hash-assigned layout of every other case): norm scaler on all two-column
\* batches and four three-column batches x three norms; linear scalers on nine three-row two-column matrices x nine
\* variants; whiteners on a sample of full-rank two-column matrices x three methods -- each in the five
\* non-standard layouts, for fit and for every transformed batch
NormLay == {WithLay(NormCase(p, b, m), lay) : p \in {2}, b \in 0..5, m \in {"l1", "l2", "max"}, lay \in OtherLays}
             \cup {WithLay(NormCase(3, b, m), lay) : b \in {0, 7, 20, 35}, m \in {"l1", "l2", "max"}, lay \in OtherLays}
NormStd == {WithLay(cs, "c") : cs \in NormCases}        \* every norm batch also in the standard layout
LinLay == {WithLay(LinCase(X, 2, ZFix(2), v), lay) :
             X \in {Y \in [1..3 -> [1..2 -> V2]] : Hash(Y) % 81 = 5}, v \in LinVariants, lay \in OtherLays}
WhLay == {WithLay(WhCase(X, 2, ZFix(2), m), lay) :
            X \in {Y \in UNION {[1..n -> [1..2 -> V2]] : n \in 3..NW} : Hash(Y) % (16 * ThinW) = 7 /\ S!FullRank(Y, 2)},
            m \in WhMethods, lay \in OtherLays}

\* min-max ranges: the full product of lower bounds and widths on a 1/ThinS sample of the one-column matrices
\* (n = 2..3) and on nine 3 x 2 matrices
LR == {LinCase(X, 1, ZFix(1), v) :
         X \in {Y \in UNION {[1..n -> [1..1 -> V1]] : n \in 2..3} : IsSorted(Y) /\ Hash(Y) % ThinS = 2}, v \in RangeVariants}
        \cup {LinCase(X, 2, ZFix(2), v) : X \in {Y \in [1..3 -> [1..2 -> V2]] : Hash(Y) % 81 = 11}, v \in RangeVariants}

\* large offsets.  Linear scalers (the shift-invariant variants: standard, centred only, min-max) with 2^30 (f64): a
\* backward-stable mean / deviation loses 2^(30-52) relative to the offset, far below the grid.  Whiteners with
\* 2^30, 2^40, 2^46 (f64) and 2^14, 2^17 (f32), on one column or on both / one of two columns.
OffVariants == {<<"std", 0, 1, 1>>, <<"nostd", 0, 1, 1>>, <<"minmax", 0, 1, 1>>, <<"minmax", 5, 10, 1>>, <<"minmax", -1, 1, 2>>}
LO == {LinCaseUO(X, 1, ZFix(1), v, <<0>>, <<30>>) :
         X \in {Y \in UNION {[1..n -> [1..1 -> V1]] : n \in 2..3} : IsSorted(Y) /\ Hash(Y) % ThinS = 3}, v \in OffVariants}
        \cup {LinCaseUO(X, 2, ZFix(2), v, <<0, 0>>, oe) :
                X \in {Y \in [1..3 -> [1..2 -> V2]] : Hash(Y) % 81 = 17}, v \in OffVariants, oe \in {<<30, 30>>, <<0, 30>>}}
WO == {WhCaseUO(X, 1, ZFix(1), m, <<0>>, <<e>>) :
         X \in {Y \in UNION {[1..n -> [1..1 -> V1]] : n \in 2..3} : IsSorted(Y) /\ Y[1] # Y[Len(Y)] /\ Hash(Y) % ThinS = 1},
         m \in WhMethods, e \in {30, 40, 46, 14, 17}}
        \cup {WhCaseUO(X, 2, ZFix(2), m, <<0, 0>>, oe) :
                X \in {Y \in UNION {[1..n -> [1..2 -> V2]] : n \in 3..NW} : Hash(Y) % (16 * ThinW) = 9 /\ S!FullRank(Y, 2)},
                m \in WhMethods, oe \in {<<46, 46>>, <<46, 0>>, <<0, 40>>, <<30, 46>>, <<17, 17>>, <<0, 17>>, <<14, 17>>}}

Estimators == {"std", "nomean", "nostd", "none", "minmax", "maxabs"} \cup WhMethods
Empty == {[kind |-> "empty",
           inp |-> [ft |-> ft, form |-> IF p = 1 THEN "view" ELSE "owned", tw |-> 0, wts |-> FALSE, ctor |-> "named",
                    sh |-> [j \in 1..p |-> 0], oe |-> [j \in 1..p |-> 0], lay |-> "c", meth |-> m, lo |-> 0, hi |-> 1,
                    rd |-> 1, p |-> p]] : m \in Estimators, p \in 0..2, ft \in {"f64", "f32"}}

\* (a disjunction, not one union: TLC then enumerates the eight sets without normalising their union)
Init == \/ case \in L1 \/ case \in L2 \/ case \in L3 \/ case \in L4 \/ case \in L5 \/ case \in NormCases \/ case \in NormSmall
        \/ case \in W1 \/ case \in W2 \/ case \in W3 \/ case \in W4 \/ case \in W5
        \/ case \in WS1 \/ case \in WS2 \/ case \in WS3 \/ case \in NormLay \/ case \in NormStd \/ case \in LinLay \/ case \in WhLay
        \/ case \in LR \/ case \in LO \/ case \in WO
        \/ case \in Empty
Next == UNCHANGED case
Emit == PrintT("CASE " \o ToJson(case))
=============================================================================
