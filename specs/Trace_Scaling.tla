--------------------------- MODULE Trace_Scaling ---------------------------
(***************************************************************************************************)
(* C16 trace validation.  A case = one fitted transformer and the batches pushed through it by the *)
(* harness (harness/src/bin/c16.rs):                                                               *)
(*    fit (not for the stateless norm scaler), apply/meta "train" (dataset form), apply "unseen"   *)
(*    (array form), apply/meta "sel" (dataset form: any selection / reordering / repetition of the *)
(*    rows of X o Z, possibly empty), apply "one" (first selected row alone).                      *)
(* Every event is explained by the relations of module Scaling evaluated on the *inputs of the     *)
(* case* (never on other outputs), so a transform that depends on the batch it is applied to, on   *)
(* the row position or on the calling form is rejected:                                            *)
(*    FitOk   published parameters (offsets/scales ; whitening mean) ; empty training data => Err  *)
(*    ApplyOk shape, finiteness, the affine image of every cell, and on the training batch the     *)
(*            normalisation of the statement computed from the logged outputs                      *)
(*    MetaOk  targets, weights, feature and target names are those of the rows fed in              *)
(*    EndOk   all expected events present ; columns whose image the statement leaves open are      *)
(*            still one affine function of the input over all batches                              *)
(* Tolerances: Sl = 1 grid unit of 10^-4 (0.5 quantisation + 0.5e-4 numerical allowance) for cells, *)
(* 2e-6 for scales, covariance entries 4e-4 (f64) / 2e-3 (f32).                                    *)
(***************************************************************************************************)
EXTENDS Scaling, TraceIO

CONSTANT Devs      \* named deviations (known findings):
                   \*   "whiten_svd_inaccurate"  PCA / ZCA whitening of >= 3 columns: the singular value decomposition
                   \*      used by the code (linfa-linalg) loses accuracy on columns of different scale, so the
                   \*      covariance of the whitened training data is the identity only up to SlWLoose (0.25);
                   \*      everything else (published mean, y = (x - mean) W^T for every row of every batch,
                   \*      metadata) is still demanded exactly as without the deviation.

VARIABLES c, e
tvars == <<c, e>>

Case == Rec[c]
In   == Case.inp
Ev   == Case.ev[e]
Kind == Case.kind

XX == In.X
PP == In.p
NN == Len(XX)
All == XX \o In.Z
St == Stats(XX, PP)
\* unit of column j: the real value of an entry is the integer divided by Dn(j) = 2^sh[j] (exact in binary floating
\* point).  Fitted parameters are logged in the unit of the integers, outputs as they are (see Scaling.tla).
Dn(j) == Pow2(In.sh[j])

\* Memory layout of every record matrix handed to the code (In.lay): the logical matrix is the same, the strides the
\* code saw (logged by the harness as st = <<row stride, column stride>>) must be those of the named layout.  An axis
\* of length < 2 has no meaningful stride.
LayStrides(lay, nr, nc) ==
  CASE lay = "c"    -> <<nc, 1>>               \* row-major
    [] lay = "f"    -> <<1, nr>>               \* column-major owned array
    [] lay = "t"    -> <<1, nr>>               \* transpose of a row-major (nc x nr) matrix
    [] lay = "revr" -> <<0 - nc, 1>>           \* rows stored in reverse order, axis inverted
    [] lay = "revc" -> <<nc, -1>>              \* columns stored in reverse order, axis inverted
    [] lay = "step" -> <<4 * nc, 2>>           \* every second row / column of a (2 nr x 2 nc) buffer
StridesOk(st, nr) ==
  /\ Len(st) = 2
  /\ (nr >= 2 /\ PP >= 1) => st[1] = LayStrides(In.lay, nr, PP)[1]
  /\ (PP >= 2 /\ nr >= 1) => st[2] = LayStrides(In.lay, nr, PP)[2]

Sl  == 1                                   \* cells, offsets, means (grid units of 1/S)
SlP == 2                                   \* scales (grid units of 1/SP)
SlW == IF In.ft = "f32" THEN 20 ELSE 4     \* covariance entries (grid units of 1/S)
Wq  == 1                                   \* whitening matrix entries (grid units of 1/SP)
SlWLoose == 2500                           \* deviation whiten_svd_inaccurate: covariance entries within 0.25

SvdLoose == "whiten_svd_inaccurate" \in Devs /\ Kind = "wh" /\ In.meth \in {"pca", "zca"} /\ PP >= 3

TraceInit ==
  /\ c \in 1..Len(Rec) /\ e = 1
  \* the design-model variables are not used during trace validation
  /\ meth = "" /\ rng = <<>> /\ X = <<>> /\ pc = "trace" /\ par = <<>> /\ k = 0 /\ outs = <<>>


Rows(batch) ==
  CASE batch = "train"  -> [i \in 1..NN |-> i]
    [] batch = "unseen" -> [i \in 1..Len(In.Z) |-> NN + i]
    [] batch = "sel"    -> In.sel
    [] batch = "one"    -> <<In.sel[1]>>

RankOk == Kind # "wh" \/ FullRank(XX, PP)

\* the apply event of the training batch (reference for relations between batches)
HasTrain == \E q \in 1..Len(Case.ev) : Case.ev[q].ev = "apply" /\ Case.ev[q].batch = "train"
TrainIdx == CHOOSE q \in 1..Len(Case.ev) : Case.ev[q].ev = "apply" /\ Case.ev[q].batch = "train"
TrainOut == Case.ev[TrainIdx].out

\* Large column offsets (In.oe[b] > 0: the harness adds 2^oe[b] to every entry of column b of X and Z and subtracts
\* it from the logged location parameters; the relations work on the un-shifted integers).  TF = number of fraction
\* bits of the float type; the fitted mean may be off by 2^(oe - TF + 1) (one to two units in the last place of the
\* offset: the sum of the exactly representable entries is exact, the division rounds once).
HasOffset == \E b \in 1..PP : In.oe[b] > 0
TF == IF In.ft = "f32" THEN 23 ELSE 52
MeanSl(b) == IF In.oe[b] = 0 THEN 0 ELSE IF TF - 1 - In.oe[b] >= 30 THEN 1 ELSE S \div Pow2(TF - 1 - In.oe[b]) + 1

-----------------------------------------------------------------------------
(* fit *)
FitLinOk ==
  /\ Ev.ok
  /\ StridesOk(Ev.st, NN)
  /\ Ev.nfo = <<>> /\ Ev.nfs = <<>> /\ Ev.nfs1 = <<>>
  /\ Len(Ev.off) = PP /\ Len(Ev.sc) = PP /\ Len(Ev.sc1) = PP
  /\ LET st == St IN
     \A j \in 1..PP : LinFitOk(In.meth, st[j], Ev.off[j], Ev.sc[j], Ev.sc1[j], Sl, SlP)

FitWhOk ==
  /\ Ev.ok
  /\ StridesOk(Ev.st, NN)
  /\ Ev.nfo = <<>> /\ Ev.nfs = <<>>
  /\ Ev.wr = PP /\ Ev.wc = PP /\ Len(Ev.mean) = PP
  /\ LET st == St IN
     \A b \in 1..PP : RatOk(Ev.mean[b], st[b].sum, NN, Sl + MeanSl(b))

FitOk ==
  CASE Kind = "empty" -> ~Ev.ok                         \* empty training data is rejected with an error
    [] Kind = "lin"   -> FitLinOk
    [] Kind = "wh"    -> FitWhOk
    [] OTHER          -> FALSE

-----------------------------------------------------------------------------
(* apply *)
ShapeOk(rows) ==
  /\ Ev.form = (IF Ev.batch \in {"train", "sel"} THEN "ds" ELSE "arr")        \* the calling form the harness reports
  /\ StridesOk(Ev.st, Len(rows))
  /\ Ev.nr = Len(rows) /\ Ev.nc = PP /\ Len(Ev.out) = Len(rows)
  /\ \A r \in 1..Len(rows) : Len(Ev.out[r]) = PP

FiniteOk == Ev.nf = <<>>

FitEv == Case.ev[1]

CellsOk(rows) ==
  CASE Kind = "lin"  -> LET st == St IN
                        /\ \A r \in 1..Len(rows) : \A j \in 1..PP :
                             LinCellOk(In.meth, In.lo, In.hi, st[j], All[rows[r]][j], Ev.out[r][j], Sl, Dn(j), In.rd)
                        \* variants that leave the values in the unit of the data: the same outputs converted by the
                        \* harness to the unit of the integers (times 2^sh[j], exact), where the grid resolves them
                        /\ In.meth \in {"nostd", "none"} =>
                             /\ Ev.nfu = <<>> /\ Len(Ev.outu) = Len(rows)
                             /\ \A r \in 1..Len(rows) : \A j \in 1..PP :
                                  LinCellOk(In.meth, In.lo, In.hi, st[j], All[rows[r]][j], Ev.outu[r][j], Sl, 1, In.rd)
    [] Kind = "norm" -> \A r \in 1..Len(rows) : NormRowOk(In.meth, All[rows[r]], Ev.out[r], Sl)
    [] Kind = "wh"   -> LET st == St IN
                        /\ FitEv.ev = "fit" /\ FitEv.ok
                        /\ \A r \in 1..Len(rows) : \A a \in 1..PP :
                             WhCellOkX(st, All[rows[r]], FitEv.w[a], Ev.out[r][a], Sl, Wq,
                                       IF HasOffset THEN WhMeanExtra(NN, FitEv.w[a], In.oe, TF) ELSE 0)
                        \* with large offsets every row may be moved by the same small vector (error of the fitted
                        \* mean), but rows relative to each other -- here: to the first training row, in whatever
                        \* batch they are transformed -- are exact
                        /\ HasOffset =>
                             /\ HasTrain /\ Len(TrainOut) = NN /\ \A r \in 1..NN : Len(TrainOut[r]) = PP
                             /\ \A r \in 1..Len(rows) : \A a \in 1..PP :
                                  WhDiffOk(NN, All[rows[r]], XX[1], FitEv.w[a], Ev.out[r][a], TrainOut[1][a], Sl, Wq)

\* the normalisation reached on the training data, from the logged outputs
PostOk ==
  CASE Kind = "lin"  -> LET st == St IN
                        \A j \in 1..PP : LinPostOk(In.meth, In.lo, In.hi, st[j], Col(Ev.out, j), Sl, Dn(j), In.rd)
    [] Kind = "norm" -> TRUE                       \* unit norms are part of NormRowOk (every batch)
    [] Kind = "wh"   -> \/ IF HasOffset THEN WhCovOkShift(Ev.out, PP, SlW) ELSE WhCovOk(Ev.out, PP, SlW)
                        \/ (SvdLoose /\ WhCovOk(Ev.out, PP, SlWLoose))

ApplyOk ==
  LET rows == Rows(Ev.batch) IN
  /\ ShapeOk(rows)
  /\ FiniteOk
  /\ CellsOk(rows)
  /\ Ev.batch = "train" => PostOk


-----------------------------------------------------------------------------
(* metadata of the returned dataset = metadata of the rows fed in *)
TW == IF In.tw = 0 THEN 1 ELSE In.tw
MetaOk ==
  LET rows == Rows(Ev.batch) IN
  /\ Ev.tdim = (IF In.tw = 0 THEN 1 ELSE 2)
  /\ Ev.tgt = [q \in 1..Len(rows) |-> [cc \in 1..TW |-> 1000 + 4 * (rows[q] - 1) + cc - 1]]
  /\ Ev.w2 = (IF In.wts THEN [q \in 1..Len(rows) |-> 2 * (rows[q] - 1) + 1] ELSE <<>>)
  /\ Ev.fnames = [cc \in 1..PP |-> "f" \o ToString(cc - 1)]
  /\ Ev.tnames = [cc \in 1..TW |-> "t" \o ToString(cc - 1)]


-----------------------------------------------------------------------------
(* end of the case *)
Sig(ev) == <<ev.ev, IF ev.ev \in {"apply", "meta"} THEN ev.batch ELSE "">>
Expected ==
  IF Kind = "empty" THEN << <<"fit", "">> >>
  ELSE (IF Kind = "norm" THEN <<>> ELSE << <<"fit", "">> >>)
       \o << <<"apply", "train">>, <<"meta", "train">>, <<"apply", "unseen">>, <<"apply", "sel">>, <<"meta", "sel">> >>
       \o (IF In.sel # <<>> THEN << <<"apply", "one">> >> ELSE <<>>)

\* all observations <<input value, output>> of column j over every apply event of the case
Obs(j) ==
  UNION {{<<All[Rows(Case.ev[q].batch)[r]][j], Case.ev[q].out[r][j]>> : r \in 1..Len(Case.ev[q].out)} :
           q \in {q \in 1..Len(Case.ev) : Case.ev[q].ev = "apply"}}

\* columns whose image the statement leaves open are still one fixed affine map of the input
OpenColsAffine ==
  Kind = "lin" =>
    LET st == St IN
    \A j \in 1..PP : ~Specified(In.meth, st[j]) => AffineCol(Obs(j), Sl)

EndOk ==
  /\ [q \in 1..Len(Case.ev) |-> Sig(Case.ev[q])] = Expected
  /\ OpenColsAffine

\* diagnostics: which clause of the current event is false
Why ==
  IF Ev.ev = "apply" THEN
    LET rows == Rows(Ev.batch) IN
    IF ~ShapeOk(rows) THEN <<e, "apply", Ev.batch, "shape">>
    ELSE IF ~FiniteOk THEN <<e, "apply", Ev.batch, "finite", Len(Ev.nf)>>
    ELSE IF ~CellsOk(rows) THEN <<e, "apply", Ev.batch, "cells">>
    ELSE <<e, "apply", Ev.batch, "post">>
  ELSE IF Ev.ev = "panic" THEN <<e, "panic", Ev.msg>>
  ELSE <<e, Ev.ev>>

EventOk ==
  CASE Ev.ev = "fit"   -> FitOk
    [] Ev.ev = "apply" -> ApplyOk
    [] Ev.ev = "meta"  -> MetaOk
    [] OTHER           -> FALSE                       \* a panic of the code under test is explained by nothing

\* One action per event.  The verdict is computed once, as the value assigned to the cursor (TLC evaluates the
\* right-hand side as an ordinary expression, so the LET-bound statistics are computed once per event).
Step ==
  /\ e <= Len(Case.ev)
  /\ RankOk = TRUE            \* (an equation, so that TLC does not split the disjunction inside RankOk into two actions)
  /\ e' = (IF EventOk THEN e + 1 ELSE IF Fail(Case.id, Why) THEN Len(Case.ev) + 2 ELSE 0)
  /\ UNCHANGED <<c, vars>>

\* the deviations that were needed to explain the case (the strict clause is false on the training batch)
UsedDevs == IF SvdLoose /\ ~(IF HasOffset THEN WhCovOkShift(TrainOut, PP, SlW) ELSE WhCovOk(TrainOut, PP, SlW)) THEN <<"whiten_svd_inaccurate">> ELSE <<>>

Finish ==
  /\ e = Len(Case.ev) + 1
  /\ e' = (IF EndOk THEN (IF (IF UsedDevs = <<>> THEN Ok(Case.id) ELSE OkDev(Case.id, UsedDevs)) THEN e + 1 ELSE 0)
           ELSE IF Fail(Case.id, <<e, "end", [q \in 1..Len(Case.ev) |-> Case.ev[q].ev]>>) THEN e + 1 ELSE 0)
  /\ UNCHANGED <<c, vars>>

\* whitening of rank-deficient data is outside the statement: nothing is demanded
SkipRankDeficient ==
  /\ e = 1 /\ RankOk = FALSE
  /\ e' = (IF Ok(Case.id) THEN Len(Case.ev) + 2 ELSE 0)
  /\ UNCHANGED <<c, vars>>

TraceNext == Step \/ Finish \/ SkipRankDeficient
=============================================================================
