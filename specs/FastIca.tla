------------------------------- MODULE FastIca -------------------------------
(***************************************************************************************************)
(* X04 -- FastICA (linfa-ica, `FastIca::params() ... .fit(X)`, `predict`).                         *)
(*                                                                                                 *)
(* Part 1: the relations of the statement on integer matrices X (n x p, rows = samples), with the  *)
(*   implementation's floats observed as fixed point integers (unmixing matrix W and predictions Y *)
(*   at 10^6, mean at 10^4).  Everything is exact integer arithmetic inside TLC's 32 bits; wide     *)
(*   products are formed in base 1000 limbs.                                                       *)
(*     Invalid     ncomponents > p, logcosh alpha outside [1, 2]: an error before any training      *)
(*     FullRank    the centred data span R^p (exact: a non-zero p x p minor of row differences)    *)
(*     MeanOk      the published mean is the column mean                                           *)
(*     CellOk      one cell of predict:  y = SUM_b (x_b - mean_b) W_ab                              *)
(*     NormsOf     the recovered sources of the training rows are centred, mutually uncorrelated   *)
(*                 and of equal variance: SUM_i y_i y_i^T = d I with d one of the conventional     *)
(*                 scales n, n - 1, 1 (the documentation is silent about the scale of the sources) *)
(*     Corr1000 /  Pearson correlation (1/1000) of a recovered column with a true source column;   *)
(*     Separated   the weak separation clause "each recovered source correlates > 0.9 in absolute  *)
(*                 value with exactly one true source"                                             *)
(*     SepDomain   where separation is demanded: product lattices of two symmetric, clearly        *)
(*                 sub-Gaussian sources (exactly independent on the sample) mixed by a             *)
(*                 well-conditioned integer matrix                                                 *)
(* Part 2: a bounded design model  Validate ; Center ; Unmix ; Predict row by row  of the ideal    *)
(*   algorithm on mixtures whose exact unmixing matrix is rational (sources with rational standard *)
(*   deviation), with ICA's indeterminacy (order and sign of the sources) left to TLC.  The        *)
(*   outputs are the exact values rounded to the grid.  Invariants: invalid parameters never reach *)
(*   training; the relations accept the rounded exact outputs and reject small perturbations       *)
(*   (a cell moved by twice its tolerance, a scale error of 0.1 %, unequal variances, a rotation   *)
(*   of the sources by atan(4/3)) -- so the relations are neither wrong nor vacuous.               *)
(***************************************************************************************************)
EXTENDS Fx, TLC

SW == 1000000      \* scale of W
SY == 1000000      \* scale of predictions (= SW: n*y and SUM cen*w are in the same unit)
SM == 10000        \* scale of the mean

-----------------------------------------------------------------------------
(* parameters *)
\* k = 0: ncomponents not set (all p components); am = alpha of logcosh in 1/1000
Invalid(k, p, g, am) == k > p \/ (g = "logcosh" /\ (am < 1000 \/ am > 2000))
KEff(k, p) == IF k = 0 THEN p ELSE k
\* error variants that report a failure of the training itself (not of the parameter validation)
TrainErrs == {"SvdDecomposition", "LinalgError", "LinalgBlasError", "NotConverged", "NotEnoughSamples"}

-----------------------------------------------------------------------------
(* data *)
AbsSeq(s) == [i \in 1..Len(s) |-> Abs(s[i])]
Col(M, j) == [i \in 1..Len(M) |-> M[i][j]]
Sums(X, p) == [b \in 1..p |-> SumSeq(Col(X, b))]
\* n times the centred row
CenRow(x, sums, n) == [b \in 1..Len(x) |-> n * x[b] - sums[b]]

Det2(u, v) == u[1] * v[2] - u[2] * v[1]
Det3(u, v, w) == u[1] * (v[2] * w[3] - v[3] * w[2]) - u[2] * (v[1] * w[3] - v[3] * w[1])
                 + u[3] * (v[1] * w[2] - v[2] * w[1])
\* covariance of full rank  <=>  the differences to the first row span R^p
FullRank(X, p) ==
  LET n == Len(X)
      D(i) == [b \in 1..p |-> X[i][b] - X[1][b]]
  IN CASE p = 1 -> \E i \in 2..n : D(i)[1] # 0
       [] p = 2 -> \E i \in 2..n : \E j \in (i + 1)..n : Det2(D(i), D(j)) # 0
       [] p = 3 -> \E i \in 2..n : \E j \in (i + 1)..n : \E l \in (j + 1)..n : Det3(D(i), D(j), D(l)) # 0
       [] OTHER -> FALSE

\* | mean_b - sum_b / n | <= 1e-4   (0.5 quantisation, the rest allowance)
MeanOk(X, p, mean) ==
  /\ Len(mean) = p
  /\ LET n == Len(X)  sums == Sums(X, p) IN
     \A b \in 1..p : Abs(mean[b] * n - sums[b] * SM) <= n

Hi(v) == v \div 1000       \* v = 1000 Hi(v) + Lo(v), 0 <= Lo(v) < 1000 (also for negative v)
Lo(v) == v % 1000
YMax == 20000000           \* observed cells beyond +-20 are outside every generated domain

\* one cell of predict.  cen = n (x - mean) exactly (integers), wrow = row a of W, y the observed cell:
\*   | n y - SUM_b cen_b w_b | <= SUM_b |cen_b| + 2 n        (twice the quantisation of w and y)
CellOk(n, cen, wrow, y) ==
  LET p  == Len(cen)
      A  == SumSeq([b \in 1..p |-> cen[b] * Hi(wrow[b])])
      B  == SumSeq([b \in 1..p |-> cen[b] * Lo(wrow[b])])
      T  == n * y
      sl == SumSeq(AbsSeq(cen)) + 2 * n
      dA == A - Hi(T)
  IN /\ Abs(dA) <= 100000
     /\ Abs(1000 * dA + B - Lo(T)) <= sl
CellDomain(n, cen, wrow, y) ==       \* no 32-bit overflow in CellOk
  /\ Abs(y) <= YMax /\ n <= 200 /\ n * ((Abs(y) \div 1000) + 1) <= 2000000
  /\ \A b \in 1..Len(cen) : Abs(wrow[b]) <= YMax /\ Abs(cen[b]) <= 20000

\* SUM_i y_ia y_ib / 10^6 (error < 3 units) in base 1000 limbs
Gram6(Y, a, b) ==
  LET n  == Len(Y)
      A2 == SumSeq([i \in 1..n |-> Hi(Y[i][a]) * Hi(Y[i][b])])
      B2 == SumSeq([i \in 1..n |-> Hi(Y[i][a]) * Lo(Y[i][b]) + Lo(Y[i][a]) * Hi(Y[i][b])])
      C2 == SumSeq([i \in 1..n |-> Lo(Y[i][a]) * Lo(Y[i][b])])
  IN A2 + ((B2 + (C2 \div 1000)) \div 1000)
GramDomain(Y, k) ==                  \* no 32-bit overflow in Gram6
  LET n == Len(Y)
      mx == (MaxSeq([i \in 1..n |-> MaxSeq(AbsSeq(Y[i]))]) \div 1000) + 1
  IN mx <= 10001 /\ n <= 200 /\ mx * mx <= 2000000000 \div n

\* the k recovered sources of the training rows are centred and SUM_i y_ia y_ib = d [a = b] up to 1e-4 d:
\* covariance I with normaliser d
WhiteOkD(Y, k, d) ==
  LET n == Len(Y) IN
  /\ GramDomain(Y, k)
  /\ \A a \in 1..k : Abs(SumSeq(Col(Y, a))) <= n
  /\ \A a \in 1..k : \A b \in a..k :
       Abs(Gram6(Y, a, b) - (IF a = b THEN d * 1000000 ELSE 0)) <= d * 100 + 4
\* The documentation says the data are whitened but is silent about the scale of the recovered sources.  What ICA
\* and the documentation imply is covariance c I (centred, uncorrelated, equal variances); c is pinned to the three
\* conventional scales: SUM_i y_i y_i^T = d I with d = n (population covariance I), d = n - 1 (unbiased covariance I)
\* or d = 1 (orthonormal source columns, covariance I / n: the scale this code and legacy scikit-learn use).
ScaleNorms(n) == {n, n - 1, 1} \ {0}
\* the scales of the list that explain Y (at most one: they differ by more than the tolerance)
NormsOf(Y, k) == {d \in ScaleNorms(Len(Y)) : WhiteOkD(Y, k, d)}

-----------------------------------------------------------------------------
(* separation *)
\* Pearson correlation, in 1/1000, of an observed column (any scale) with an integer column; error < 1 %
Corr1000(ycol, scol) ==
  LET n  == Len(ycol)
      q  == (MaxSeq(AbsSeq(ycol)) \div 300) + 1
      yy == [i \in 1..n |-> RoundDiv(ycol[i], q)]            \* |yy| <= 300
      sy == SumSeq(yy)
      ss == SumSeq(scol)
      Vy == n * Dot(yy, yy) - sy * sy
      Vs == n * Dot(scol, scol) - ss * ss
      C  == n * Dot(yy, scol) - sy * ss
  IN IF Vy <= 0 \/ Vs <= 0 THEN 0
     ELSE Sgn(C) * ((MulDiv(Abs(C), 1000, Isqrt(Vy)) * 100) \div Isqrt(Vs * 10000))
CorrDomain(n, scol) ==               \* no 32-bit overflow in Corr1000
  n <= 100 /\ n * Dot(scol, scol) <= 200000 /\ MaxSeq(AbsSeq(scol)) <= 50

CorrHi == 880     \* "> 0.9" with 0.02 of slack (a near-tie inside the slack is a tie)
CorrLo == 920
\* each recovered source correlates > 0.9 in absolute value with exactly one true source (two sources)
Separated(Y, S) ==
  \E perm \in {<<1, 2>>, <<2, 1>>} :
    \A a \in 1..2 :
      /\ Abs(Corr1000(Col(Y, a), Col(S, perm[a]))) >= CorrHi
      /\ Abs(Corr1000(Col(Y, a), Col(S, perm[3 - a]))) <= CorrLo

\* product lattice of two value lists, in one of three sample orders
Flip(s) == [i \in 1..Len(s) |-> s[Len(s) + 1 - i]]
SrcRows(s1, s2, ord) ==
  LET m1 == Len(s1)  m2 == Len(s2)
      lex == [i \in 1..(m1 * m2) |-> <<s1[((i - 1) \div m2) + 1], s2[((i - 1) % m2) + 1]>>]
      col == [i \in 1..(m1 * m2) |-> <<s1[((i - 1) % m1) + 1], s2[((i - 1) \div m1) + 1]>>]
  IN CASE ord = "lex" -> lex [] ord = "rev" -> Flip(lex) [] OTHER -> col
MixRows(S, A, off) == [i \in 1..Len(S) |-> [b \in 1..2 |-> A[b][1] * S[i][1] + A[b][2] * S[i][2] + off[b]]]

\* symmetric about its centre and clearly sub-Gaussian: m4 / m2^2 <= 2.3  (t = 2 s - (min + max))
SubGauss(s) ==
  LET m  == Len(s)
      lo == MinSeq(s)  hi == MaxSeq(s)
      t  == [i \in 1..m |-> 2 * s[i] - (lo + hi)]
      M2 == SumSeq([i \in 1..m |-> t[i] * t[i]])
      M4 == SumSeq([i \in 1..m |-> t[i] * t[i] * t[i] * t[i]])
  IN /\ m >= 2 /\ m <= 9 /\ hi - lo <= 14 /\ hi > lo
     /\ \A v \in Range(t) : Cardinality({i \in 1..m : t[i] = v}) = Cardinality({i \in 1..m : t[i] = -v})
     /\ 10 * m * M4 <= 23 * M2 * M2
\* Frobenius norm^2 <= 8 |det|: condition number below 8
WellCond(A) ==
  LET det == Det2(A[1], A[2])
      fro == A[1][1] * A[1][1] + A[1][2] * A[1][2] + A[2][1] * A[2][1] + A[2][2] * A[2][2]
  IN det # 0 /\ fro <= 8 * Abs(det) /\ fro <= 200

-----------------------------------------------------------------------------
(* Part 2 -- bounded design model *)
CONSTANTS NCat,        \* the first NCat sources of the catalogue are used
          NMix         \* the first NMix mixing matrices

\* sources with rational standard deviation: m SUM s^2 - (SUM s)^2 is a perfect square
Cat == << <<-1, 1>>, <<0, 2>>, <<-7, -1, 1, 7>>, <<-4, 1, 1, 1, 1>>, <<-2, 0, 0, 0, 0, 0, 0, 2>> >>
Mixes == << <<<<1, 1>>, <<1, 2>>>>, <<<<1, -1>>, <<1, 1>>>>, <<<<3, 1>>, <<1, 2>>>>, <<<<2, 1>>, <<-1, 1>>>> >>
Offs == {<<0, 0>>, <<5, -3>>}
\* (g, k, alpha): five valid and three invalid parameter settings
ParamSets == {<<"cube", 2, 0>>, <<"exp", 0, 0>>, <<"logcosh", 2, 1000>>, <<"logcosh", 0, 2000>>, <<"exp", 1, 0>>,
              <<"cube", 3, 0>>, <<"logcosh", 2, 999>>, <<"logcosh", 0, 2001>>}

Vq(s) == Len(s) * Dot(s, s) - SumSeq(s) * SumSeq(s)     \* m^2 variance
Root(s) == Isqrt(Vq(s))                                  \* m * standard deviation
ASSUME \A q \in 1..Len(Cat) : Root(Cat[q]) * Root(Cat[q]) = Vq(Cat[q])

VARIABLES pc, i1, i2, A, off, perm, sg, par, mean, W, Y, r
vars == <<pc, i1, i2, A, off, perm, sg, par, mean, W, Y, r>>

S1 == Cat[i1]
S2 == Cat[i2]
Src == SrcRows(S1, S2, "lex")
X == MixRows(Src, A, off)
N == Len(Src)
K == KEff(par[2], 2)
SrcOf(j) == IF j = 1 THEN S1 ELSE S2

RoundRat(num, den) == IF den > 0 THEN RoundDiv(num, den) ELSE RoundDiv(-num, -den)
\* row a of the exact unmixing matrix: sign * (1 / std_j) * row j of A^-1, j = perm[a]   (population normalisation)
IdealW(a) ==
  LET j   == perm[a]
      det == Det2(A[1], A[2])
      adj == IF j = 1 THEN <<A[2][2], -A[1][2]>> ELSE <<-A[2][1], A[1][1]>>
      m   == Len(SrcOf(j))
  IN [b \in 1..2 |-> RoundRat(SW * sg[a] * m * adj[b], Root(SrcOf(j)) * det)]
\* recovered source a of sample i: sign * (s_j - mean_j) / std_j
IdealY(i, a) ==
  LET j == perm[a]
      s == SrcOf(j)
  IN RoundRat(SY * sg[a] * (Len(s) * Src[i][j] - SumSeq(s)), Root(s))
IdealMean == [b \in 1..2 |-> RoundRat(SM * Sums(X, 2)[b], N)]

Init ==
  /\ pc = "validate"
  /\ i1 \in 1..NCat /\ i2 \in 1..NCat
  /\ A \in {Mixes[q] : q \in 1..NMix} /\ off \in Offs
  /\ perm \in {<<1, 2>>, <<2, 1>>} /\ sg \in {<<1, 1>>, <<1, -1>>, <<-1, 1>>, <<-1, -1>>}
  /\ par \in ParamSets
  /\ mean = <<>> /\ W = <<>> /\ Y = <<>> /\ r = 0

Validate ==
  /\ pc = "validate"
  /\ pc' = IF Invalid(par[2], 2, par[1], par[3]) THEN "error" ELSE "center"
  /\ UNCHANGED <<i1, i2, A, off, perm, sg, par, mean, W, Y, r>>

Center ==
  /\ pc = "center"
  /\ mean' = IdealMean
  /\ pc' = "unmix"
  /\ UNCHANGED <<i1, i2, A, off, perm, sg, par, W, Y, r>>

\* whitening and rotation: any order and sign of the sources is a solution (chosen in Init)
Unmix ==
  /\ pc = "unmix"
  /\ W' = [a \in 1..K |-> IdealW(a)]
  /\ pc' = "predict"
  /\ UNCHANGED <<i1, i2, A, off, perm, sg, par, mean, Y, r>>

PredictRow ==
  /\ pc = "predict" /\ r < N
  /\ Y' = Append(Y, [a \in 1..K |-> IdealY(r + 1, a)])
  /\ r' = r + 1
  /\ UNCHANGED <<pc, i1, i2, A, off, perm, sg, par, mean, W>>

Done ==
  /\ pc = "predict" /\ r = N
  /\ pc' = "done"
  /\ UNCHANGED <<i1, i2, A, off, perm, sg, par, mean, W, Y, r>>

Next == Validate \/ Center \/ Unmix \/ PredictRow \/ Done
Spec == Init /\ [][Next]_vars

\* invalid parameters never reach training, valid ones never the error state
InvErr ==
  /\ pc \in {"center", "unmix", "predict", "done"} => ~Invalid(par[2], 2, par[1], par[3])
  /\ pc = "error" => Invalid(par[2], 2, par[1], par[3]) /\ mean = <<>> /\ W = <<>> /\ Y = <<>>

InvDomain == FullRank(X, 2) /\ WellCond(A)

InvMean ==
  pc \in {"unmix", "predict", "done"} =>
    /\ MeanOk(X, 2, mean)
    /\ ~MeanOk(X, 2, [mean EXCEPT ![1] = @ + 3])

\* the row predicted last: accepted, and rejected when moved by twice the tolerance (the tolerance is
\* SUM_b |x_b - mean_b| + 2 grid units of 1e-6, i.e. twice the quantisation of W and y) plus 2 grid units
InvCell ==
  (pc \in {"predict", "done"} /\ r > 0) =>
    LET cen  == CenRow(X[r], Sums(X, 2), N)
        bump == 2 * ((SumSeq(AbsSeq(cen)) + 2 * N) \div N) + 2
    IN
    \A a \in 1..K :
      /\ CellDomain(N, cen, W[a], Y[r][a])
      /\ CellOk(N, cen, W[a], Y[r][a])
      /\ ~CellOk(N, cen, W[a], Y[r][a] + bump)
      /\ ~CellOk(N, cen, W[a], Y[r][a] - bump)

Stretch(M) == [i \in 1..Len(M) |-> [a \in 1..Len(M[i]) |-> M[i][a] + (M[i][a] \div 1000)]]
\* the two recovered sources rotated by atan(4/3): still white, no longer separated (correlations 0.6 / 0.8)
Rot345(M) == [i \in 1..Len(M) |-> <<RoundDiv(3 * M[i][1] + 4 * M[i][2], 5), RoundDiv(3 * M[i][2] - 4 * M[i][1], 5)>>]
InvWhite ==
  pc = "done" =>
    /\ WhiteOkD(Y, K, N)                                  \* the ideal outputs have population covariance I
    /\ NormsOf(Y, K) = {N}
    /\ NormsOf(Stretch(Y), K) = {}                       \* a scale error of 0.1 % is rejected
    /\ ~WhiteOkD(Y, K, 1)
    /\ K = 2 => WhiteOkD(Rot345(Y), 2, N)

InvSep ==
  (pc = "done" /\ K = 2) =>
    /\ CorrDomain(N, Col(Src, 1)) /\ CorrDomain(N, Col(Src, 2))
    /\ Separated(Y, Src)
    /\ ~Separated(Rot345(Y), Src)
    /\ \A a \in 1..2 : Abs(Corr1000(Col(Y, a), Col(Src, perm[a]))) >= 990       \* exact value: 1
    /\ \A a \in 1..2 : Abs(Corr1000(Col(Y, a), Col(Src, perm[3 - a]))) <= 10    \* exact value: 0

\* the scale 1 / sqrt(n) of the implementation (SUM_i y y^T = I) is the list entry d = 1 and nothing else:
\* for n a perfect square the ideal outputs divided by sqrt(n) are explained by d = 1 only
InvScale ==
  (pc = "done" /\ Isqrt(N) * Isqrt(N) = N /\ N >= 4) =>
    LET Ys == [i \in 1..N |-> [a \in 1..K |-> RoundDiv(Y[i][a], Isqrt(N))]] IN
    /\ NormsOf(Ys, K) = {1}
    /\ K = 2 => Separated(Ys, Src)                         \* correlation does not depend on the scale
\* sources of unequal variance are rejected whatever the scale: second source stretched by 1 %
Lopsided(M) == [i \in 1..Len(M) |-> <<M[i][1], M[i][2] + (M[i][2] \div 100)>>]
InvEqualVar ==
  (pc = "done" /\ K = 2) => NormsOf(Lopsided(Y), 2) = {}

=============================================================================
