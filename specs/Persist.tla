------------------------------- MODULE Persist -------------------------------
(***************************************************************************)
(* C19 -- serialised models and parameter sets deserialise to              *)
(* behaviourally identical values.                                         *)
(*                                                                         *)
(* Part 1: the property as predicates over a *history of observations*:    *)
(*   an observation is a record [h, key, cls, st, d, root, armed, exempt]: *)
(*   handle h (0 = the original, k = the value after k round trips) was    *)
(*   asked `key` (an accessor, a prediction/transform on fixed queries,    *)
(*   the validation verdict, the re-fit result) and answered digest d with *)
(*   status st.  TwinsAgree: every answer of a restored value equals the   *)
(*   answer of its original under the same key.  The only licences are the *)
(*   ones the statement and the documentation give:                        *)
(*     - a value whose function-pointer tokenizer could not be serialised  *)
(*       (armed = FALSE) may refuse a behaviour key with the documented    *)
(*       guard error until the tokenizer is set again -- it may never      *)
(*       answer something else;                                            *)
(*     - float-valued keys are not compared across a text document that    *)
(*       the format library itself cannot read back exactly (exempt; the   *)
(*       statement is about lossless formats);                             *)
(*     - the memory layout of a matrix parameter (cls = "l") is recorded   *)
(*       but never compared: the statement demands identical values and    *)
(*       bit-identical behaviour, not identical layout (deserialisation    *)
(*       restores row-major order whatever the original order was -- which *)
(*       is exactly why behaviour has to be observed on such values).      *)
(*   Trace_Persist evaluates these predicates, unchanged, on observations  *)
(*   recorded from the real linfa types.                                   *)
(*                                                                         *)
(* Part 2: a design model of the mechanism the property is anchored in --  *)
(*   serde's derived struct and enum codecs as used by the crates: a       *)
(*   struct is a list of fields with attributes (plain / skip / function   *)
(*   pointer behind a guard flag / renamed on one side only), an enum is a *)
(*   list of variants some of which are `skip`ped; "bincode" is positional *)
(*   (fields in declaration order, variants by index), "json" is nominal.  *)
(*   TLC checks on the bounded model that the faithful schemas satisfy     *)
(*   part 1 for every value and every chain of formats, and (negative      *)
(*   runs, see props/c19.py) that a skipped or one-sidedly renamed field,  *)
(*   or a variant declared after a skipped variant, violates it -- i.e.    *)
(*   the predicates can tell exactly the changes the property fears.       *)
(***************************************************************************)
EXTENDS Naturals, Sequences, FiniteSets, TLC

-----------------------------------------------------------------------------
(* Part 1 -- predicates over observation histories *)

\* x: observation of a restored value, y: observation of its original under the same key
ObsOk(x, y) ==
  \/ x.cls = "l"                                   \* memory layout of a matrix: reported, not a clause of the statement
  \/ x.cls = "f" /\ x.exempt                       \* floats behind a document the format cannot read back exactly
  \/ x.cls = "b" /\ ~x.armed /\ x.st = "guard"     \* documented refusal while the tokenizer function is missing
  \/ x.st = y.st /\ x.d = y.d                      \* otherwise: the same answer, bit for bit

PairOk(x, y) == (x.key = y.key /\ x.root = y.h /\ x.h # y.h) => (x.cls = y.cls /\ ObsOk(x, y))

TwinsAgree(o) == \A x \in o, y \in o : PairOk(x, y)

\* incremental form (used by the trace specification, one evaluation per recorded answer):
\*   TwinsAgree(o \cup {x})  <=>  TwinsAgree(o) /\ Extends(o, x)      (checked by TLC as InvIncremental)
Extends(o, x) == PairOk(x, x) /\ \A y \in o : PairOk(x, y) /\ PairOk(y, x)

\* the original always answers (it is never disarmed, never refuses)
RootsOk(o) == \A y \in o : y.h = y.root => (y.st = "ok" /\ y.armed /\ ~y.exempt)

KeysOf(o, h)      == {x.key : x \in {z \in o : z.h = h}}
ArmedKeysOf(o, h) == {x.key : x \in {z \in o : z.h = h /\ z.armed}}
\* every question put to the original was put to the restored value as well
KeysCovered(o, h, rt) == KeysOf(o, rt) \subseteq KeysOf(o, h)

-----------------------------------------------------------------------------
(* Part 2 -- design model of the derived codecs *)

CONSTANTS Vals,        \* value domain of a field (small naturals)
          MaxH,        \* number of handles of a behaviour (original + round trips)
          Scenario     \* which schemas are explored: "faithful" or one of the unfaithful ones below

Fields   == <<"a", "b", "fn">>        \* declaration order
Default  == 0                          \* value a field missing from the document is restored with
Formats  == {"bincode", "json"}
Plain    == [f \in {"a", "b", "fn"} |-> "plain"]
\* attribute assignments [field -> "plain" | "skip" | "fnptr" | "rename"] explored by this run
Schemas ==
  IF Scenario = "skipfield"  THEN {[Plain EXCEPT !["b"] = "skip"]}
  ELSE IF Scenario = "rename" THEN {[Plain EXCEPT !["a"] = "rename"]}
  ELSE IF Scenario = "noguard" THEN {[Plain EXCEPT !["fn"] = "skip"]}      \* function pointer dropped without a guard
  ELSE {Plain, [Plain EXCEPT !["fn"] = "fnptr"]}
Variants == <<"V1", "V2", "V3", "V4">>
\* sets of `skip`ped variants explored by this run
SkipSets ==
  IF Scenario = "skipmiddle" THEN {{"V2"}}                                 \* a variant declared after a skipped one
  ELSE {{}, {"V4"}, {"V3", "V4"}}                                          \* skipped variants declared last

VARIABLES attr,        \* the schema of this behaviour (chosen in Init)
          skipped,     \* the skipped variants of this behaviour
          val,         \* handle (1-based position) -> [fields: field -> value, tag: variant]
          armed, exempt,
          obs,         \* the observation history
          failed       \* a round trip could not be decoded

vars == <<attr, skipped, val, armed, exempt, obs, failed>>

FieldSet == {Fields[i] : i \in 1..Len(Fields)}
VarSet   == {Variants[i] : i \in 1..Len(Variants)}
H == Len(val)                       \* number of live handles; handle k is val[k + 1]

\* --- struct codec ---------------------------------------------------------
Written(a)  == SelectSeq(Fields, LAMBDA f : a[f] \in {"plain", "rename"})   \* fields that reach the document
SerName(a, f) == IF a[f] = "rename" THEN <<f, "renamed">> ELSE <<f>>
DeName(f)     == <<f>>

EncStruct(a, fmt, v) ==
  IF fmt = "bincode" THEN [i \in 1..Len(Written(a)) |-> v[Written(a)[i]]]
  ELSE {<<SerName(a, f), v[f]>> : f \in {Written(a)[i] : i \in 1..Len(Written(a))}}

Pos(s, x) == CHOOSE i \in 1..Len(s) : s[i] = x
DecStructOk(a, fmt, doc) ==
  fmt = "json" => \A f \in {Written(a)[i] : i \in 1..Len(Written(a))} : \E p \in doc : p[1] = DeName(f)
DecStruct(a, fmt, doc) ==
  [f \in FieldSet |->
     IF a[f] \in {"skip", "fnptr"} THEN Default
     ELSE IF fmt = "bincode" THEN doc[Pos(Written(a), f)]
     ELSE (CHOOSE p \in doc : p[1] = DeName(f))[2]]

\* --- enum codec: the serialiser writes the declaration index of the variant, the derived ---
\* --- deserialiser numbers only the variants it knows (the non-skipped ones)              ---
Known(sk)       == SelectSeq(Variants, LAMBDA t : t \notin sk)
EncTag(fmt, t)  == IF fmt = "bincode" THEN Pos(Variants, t) ELSE t
EncTagOk(sk, t) == t \notin sk                               \* a skipped variant refuses to serialise
DecTagOk(sk, fmt, w) == IF fmt = "bincode" THEN w \in 1..Len(Known(sk)) ELSE w \in {Known(sk)[i] : i \in 1..Len(Known(sk))}
DecTag(sk, fmt, w)   == IF fmt = "bincode" THEN Known(sk)[w] ELSE w

\* --- what a value answers -------------------------------------------------
HasFn(a) == \E f \in FieldSet : a[f] = "fnptr"
RECURSIVE SumF(_, _)
SumF(v, i) == IF i = 0 THEN 0 ELSE v[Fields[i]] + SumF(v, i - 1)
Keys == FieldSet \cup {"tag", "validate", "behaviour"}
Cls(a, k) == IF k = "behaviour" /\ HasFn(a) THEN "b" ELSE IF k \in FieldSet /\ a[k] = "fnptr" THEN "b" ELSE "d"
Answer(a, x, ar, k) ==
  IF Cls(a, k) = "b" /\ ~ar THEN <<"guard", 0>>
  ELSE IF k \in FieldSet THEN <<"ok", x.fields[k]>>
  ELSE IF k = "tag" THEN <<"ok", Pos(Variants, x.tag)>>
  ELSE IF k = "validate" THEN <<"ok", IF x.fields[Fields[1]] > 0 THEN 1 ELSE 0>>
  ELSE <<"ok", SumF(x.fields, Len(Fields))>>

Init ==
  /\ attr \in Schemas /\ skipped \in SkipSets
  /\ \E fs \in [FieldSet -> Vals], t \in VarSet : val = << [fields |-> fs, tag |-> t] >>
  /\ armed = <<TRUE>> /\ exempt = <<FALSE>>
  /\ obs = {} /\ failed = FALSE

\* all keys of handle h are observed at once (keeps the state space small; order is immaterial)
Observe(h) ==
  /\ h \in 0..(H - 1)
  /\ obs' = obs \cup { [h |-> h, key |-> k, cls |-> Cls(attr, k),
                        st |-> Answer(attr, val[h + 1], armed[h + 1], k)[1],
                        d |-> Answer(attr, val[h + 1], armed[h + 1], k)[2],
                        root |-> 0, armed |-> armed[h + 1], exempt |-> exempt[h + 1]] : k \in Keys }
  /\ UNCHANGED <<attr, skipped, val, armed, exempt, failed>>

\* the newest value is encoded with fmt and decoded again into a new handle
RoundTrip(fmt) ==
  /\ H < MaxH /\ ~failed
  /\ LET x == val[H] IN
     /\ EncTagOk(skipped, x.tag)
     /\ LET doc == EncStruct(attr, fmt, x.fields)
            w   == EncTag(fmt, x.tag)
        IN IF DecStructOk(attr, fmt, doc) /\ DecTagOk(skipped, fmt, w)
           THEN /\ val' = Append(val, [fields |-> DecStruct(attr, fmt, doc), tag |-> DecTag(skipped, fmt, w)])
                /\ armed' = Append(armed, ~HasFn(attr))
                /\ exempt' = Append(exempt, exempt[H])
                /\ failed' = FALSE
           ELSE /\ failed' = TRUE /\ UNCHANGED <<val, armed, exempt>>
  /\ UNCHANGED <<attr, skipped, obs>>

\* force_tokenizer_function_redefinition / .tokenizer(Tokenizer::Function(..)) on the newest value
Rearm ==
  /\ H > 1 /\ ~armed[H]
  /\ armed' = [armed EXCEPT ![H] = TRUE]
  /\ val' = [val EXCEPT ![H].fields = [f \in FieldSet |-> IF attr[f] = "fnptr" THEN val[1].fields[f] ELSE val[H].fields[f]]]
  /\ UNCHANGED <<attr, skipped, exempt, obs, failed>>

Next == (\E h \in 0..(MaxH - 1) : Observe(h)) \/ (\E fmt \in Formats : RoundTrip(fmt)) \/ Rearm
Spec == Init /\ [][Next]_vars

-----------------------------------------------------------------------------
(* Invariants of the design (hold for the faithful schemas; each is violated by one of the *)
(* unfaithful schemas of the negative runs)                                                *)

InvTwins    == TwinsAgree(obs) /\ RootsOk(obs)
InvDecodes  == ~failed                                             \* every document can be read back
InvSameVal  == \A k \in 1..H : armed[k] => val[k] = val[1]          \* the restored value is the original
InvVerdict  == \A x \in obs, y \in obs : (x.key = "validate" /\ y.key = "validate") => x.d = y.d
InvIncremental == TwinsAgree(obs) <=> (\A x \in obs : Extends(obs \ {x}, x))
InvGuard    == \A x \in obs : (x.st = "guard") => (~x.armed /\ x.cls = "b" /\ x.h > 0)
=============================================================================
