---------------------------- MODULE Gen_Predict ----------------------------
(* Case generator for C03.  A case = predictor type x fitted instance x batch of pool ids, with the  *)
(* whole call program written out: first every distinct row of the batch alone (borrowed one-row     *)
(* Array2), then the batch through every store x calling form x memory layout the type offers, then  *)
(* (where it exists) the type's single-observation API.  Wrapper cases also enumerate member counts, *)
(* member kinds and -- for mock members of the multi-class wrapper -- every probability table over   *)
(* {0, 1/2, 1} (all tie patterns).                                                                    *)
EXTENDS Integers, Sequences, FiniteSets, TLC, Json

CONSTANTS Models,      \* set of base model names to generate
          Insts,       \* set of instance numbers
          P,           \* pool size (ordinary rows followed by NX extreme rows)
          NX,          \* number of extreme rows at the end of every pool
          MaxLen,      \* longest batch
          MaxLen32,    \* longest batch of the f32 variants
          Wrappers,    \* subset of {"mt", "mc", "platt"}
          MockP,       \* pool size of the mock multi-class cases
          Fts,         \* subset of {"f64", "f32"}
          FullTabs     \* BOOLEAN: all mock probability tables for 3 members

VARIABLE case

RECURSIVE SeqsUpTo(_, _)
SeqsUpTo(S, n) == IF n = 0 THEN {<<>>} ELSE LET T == SeqsUpTo(S, n - 1) IN T \cup {Append(t, x) : t \in {u \in T : Len(u) = n - 1}, x \in S}
Range(s) == {s[q] : q \in DOMAIN s}

\* per-type facts --------------------------------------------------------------------------------
NF(m)    == IF m = "isotonic" THEN 1 ELSE IF m \in {"pca", "pls"} THEN 3 ELSE 2       \* features
OT(m)    == IF m \in {"kmeans", "gmm", "logit", "mlogit", "svc", "svo", "tree", "gnb", "mnb"} THEN "lab"
            ELSE IF m \in {"ftrl", "svp"} THEN "pr" ELSE "fx"       \* labels / probabilities / unbounded floats
Width(m, inst) == IF m = "mtenet" THEN 2 + (inst % 2)
                  ELSE IF m \in {"pca", "ica"} THEN 2
                  ELSE IF m = "pls" THEN 2 ELSE 1
HasViews(m) == m # "ica"                    \* FastIca implements PredictInplace for Array2 only
HasRow1(m)  == m \in {"kmeans", "svc", "svr", "svo", "svp"}
HasF32(m)   == m \in {"kmeans", "ols", "enet", "logit", "svc", "tree", "gnb"}   \* f32 SVR fits need ~10 s each (SMO does not converge): left out
KindOf(m)   == IF m = "svp" THEN "platt" ELSE "plain"
NonNeg(m)   == m = "mnb"

\* pool rows in quarter units (value = cell / 4). The last ordinary row repeats row 1 for odd instances (same
\* sample, other id). The pool ends with nx *extreme* rows, 1e2 .. 1e4 times the data scale, of both signs:
\* variant 0 = every coordinate about +300, 1 = about -12000, 2 = alternating +-3000 (the variant rotates
\* with the instance, so every type meets all three). Types with non-negative features get the absolute values.
Cell(inst, i, cc, nonneg) == ((7 * i + 5 * cc + 3 * inst + i * cc) % 17) - (IF nonneg THEN 0 ELSE 4)
XCell(v, cc, nonneg) ==
  LET raw == IF v = 0 THEN 1200 + 4 * cc
             ELSE IF v = 1 THEN 0 - (48000 + 8 * cc)
             ELSE IF cc % 2 = 1 THEN 12000 + 4 * cc ELSE 0 - (12000 + 4 * cc)
  IN IF nonneg /\ raw < 0 THEN 0 - raw ELSE raw
PoolOf(nf, inst, np, nx, nonneg) ==
  LET no == np - nx IN
  [i \in 1..np |-> [cc \in 1..nf |->
     IF i <= no THEN Cell(inst, IF i = no /\ no > 2 /\ inst % 2 = 1 THEN 1 ELSE i, cc, nonneg)
     ELSE XCell((inst + (i - no)) % 3, cc, nonneg)]]

\* programs ----------------------------------------------------------------------------------------
FormSeq   == <<"ref_arr", "own_arr", "ref_ds", "own_ds", "inplace", "dirty">>
LayoutSeq == <<"c", "f", "rs", "rev", "cs">>
Singles(ids, np) == LET s == SelectSeq([i \in 1..np |-> i], LAMBDA i : i \in Range(ids)) IN
                    [q \in 1..Len(s) |-> [st |-> "own", fm |-> "ref_arr", ly |-> "c", ids |-> <<s[q]>>]]
Product(stores, ids) ==
  LET nf == Len(FormSeq)  nl == Len(LayoutSeq) IN
  [q \in 1..(Len(stores) * nf * nl) |->
     [st |-> stores[((q - 1) \div (nf * nl)) + 1], fm |-> FormSeq[(((q - 1) \div nl) % nf) + 1],
      ly |-> LayoutSeq[((q - 1) % nl) + 1], ids |-> ids]]
Row1(ids) == << [st |-> "view", fm |-> "row1", ly |-> "c", ids |-> ids], [st |-> "view", fm |-> "row1", ly |-> "cs", ids |-> ids] >>
\* in-place calls into a target buffer the CALLER allocated (documented shape) in each memory layout, holding
\* default values (pv = -1) or garbage (pv = -2); records alternately owned standard / row-strided view
TargetLayouts == <<"c", "f", "rs", "rev", "cs">>
Caller(ids, views) ==
  [q \in 1..(2 * Len(TargetLayouts)) |->
     LET tl == TargetLayouts[((q - 1) \div 2) + 1]  g == (q % 2 = 0) IN
     [st |-> IF views /\ g THEN "view" ELSE "own", fm |-> "caller", ly |-> IF g THEN "rs" ELSE "c", ids |-> ids,
      tl |-> tl, pv |-> IF g THEN -2 ELSE -1]]
Prog(ids, np, views, row1) ==
  Singles(ids, np) \o Product(IF views THEN <<"own", "view">> ELSE <<"own">>, ids) \o Caller(ids, views)
                   \o (IF row1 THEN Row1(ids) ELSE <<>>)
\* short program for the mock multi-class tables (forms and layouts are covered by the real-member cases)
Lite(ids, np) ==
  Singles(ids, np) \o [q \in 1..Len(FormSeq) |-> [st |-> "own", fm |-> FormSeq[q], ly |-> "c", ids |-> ids]]
                   \o << [st |-> "own", fm |-> "ref_arr", ly |-> "f", ids |-> ids], [st |-> "own", fm |-> "own_ds", ly |-> "rev", ids |-> ids] >>

Batches(np, ml) == SeqsUpTo(1..np, ml)

Base(m, inst, ft, ids) ==
  [kind |-> KindOf(m),
   inp |-> [model |-> m, inst |-> inst, ft |-> ft, ot |-> OT(m), mot |-> "fx", nf |-> NF(m), w |-> Width(m, inst),
            nm |-> IF KindOf(m) = "platt" THEN 1 ELSE 0, mem |-> "self", labels |-> <<>>, tab |-> <<>>,
            pool |-> PoolOf(NF(m), inst, P, NX, NonNeg(m)),
            prog |-> Prog(ids, P, HasViews(m), HasRow1(m))]]

WrapP(kind, mem, inst, m, ot, mot, labs, tab, np, prog) ==
  [kind |-> kind,
   inp |-> [model |-> kind, inst |-> inst, ft |-> "f64", ot |-> ot, mot |-> mot, nf |-> 2,
            w |-> IF kind = "mt" THEN m ELSE 1, nm |-> m, mem |-> mem, labels |-> labs, tab |-> tab,
            pool |-> PoolOf(2, inst, np, IF mem = "mock" /\ kind = "mc" THEN 0 ELSE NX, FALSE),
            prog |-> prog]]
\* tie family -------------------------------------------------------------------------------------
\* Fitted instances with an exact mirror symmetry and pool rows exactly ON the decision boundary (integer /
\* dyadic data; x -> -x is exact in floating point, so the two competing scores are the same float).
\* Which label a tied row gets is not prescribed: the relation only demands the SAME label through every
\* batch, order, calling form, single-observation API and prior content of the caller's output buffer
\* ("prefill": in-place call into a buffer holding each valid label in turn).
TieModels == {"kmeans", "gmm", "logit", "mlogit", "svc", "svo", "tree", "gnb", "mnb"}
TieInsts(m) == IF m \in {"gnb", "mnb"} THEN {4}
               ELSE IF m \in {"kmeans", "svc", "svo"} THEN {5, 6, 7}      \* L2 / L1 / Linf ; C / nu / Gaussian ; nu = .5 / .25 / .75
               ELSE IF m \in {"logit", "tree"} THEN {5, 6} ELSE {5}
TiePool(m) ==
  CASE m = "gnb"    -> << <<12, 4>>, <<4, 4>>, <<20, 4>> >>                       \* (3,1) between the classes at x = 1 and x = 5
    [] m = "mnb"    -> << <<4, 4>>, <<8, 4>>, <<4, 8>> >>
    [] m = "kmeans" -> << <<0, 4>>, <<0, 12>>, <<0, -8>>, <<-4, 4>>, <<4, 0>> >>    \* centroids (-2,1), (2,1), (0,10)
    [] m = "gmm"    -> << <<0, 4>>, <<0, 12>>, <<-120, 4>>, <<120, 4>> >>           \* components at x = -30 and x = 30
    [] m = "mlogit" -> << <<0, 0>>, <<4, 4>>, <<-4, 8>> >>                          \* no intercept: (0,0) scores 0 for every class
    [] m = "svo"    -> << <<4, 12>>, <<4, -8>>, <<8, 0>>, <<0, 0>> >>               \* hyperplane x1 = 1
    [] m = "tree"   -> << <<0, 20>>, <<8, 24>>, <<-4, 20>>, <<4, 20>>, <<12, 24>> >> \* thresholds x1 = 0 and x1 = 2
    [] OTHER        -> << <<0, 4>>, <<0, -12>>, <<-4, 0>>, <<4, 8>> >>              \* logit, svc: hyperplane x1 = 0
TieLabels(m) == CASE m \in {"kmeans", "tree"} -> <<0, 1, 2>> [] m = "logit" -> <<3, 7>> [] m = "mlogit" -> <<10, 11, 12>>
                  [] OTHER -> <<0, 1>>
TieBatches(n) == { [i \in 1..n |-> i], [i \in 1..n |-> n + 1 - i], <<1, 1, 2>>, <<2, 3, 1>>, <<1>> }
Prefills(m, ids) ==
  LET ls == TieLabels(m) IN
  [q \in 1..(2 * Len(ls)) |->
     IF q % 2 = 1 THEN [st |-> "own",  fm |-> "prefill", ly |-> "c",  ids |-> ids, pv |-> ls[(q + 1) \div 2]]
                  ELSE [st |-> "view", fm |-> "prefill", ly |-> "rs", ids |-> ids, pv |-> ls[q \div 2]]] \o
  (IF m = "kmeans" THEN [q \in 1..Len(ls) |-> [st |-> "view", fm |-> "row1p", ly |-> "c", ids |-> ids, pv |-> ls[q]]] ELSE <<>>)
TieBase(m, inst, ids) ==
  [kind |-> "plain",
   inp |-> [model |-> m, inst |-> inst, ft |-> "f64", ot |-> "lab", mot |-> "fx", nf |-> 2, w |-> 1,
            nm |-> 0, mem |-> "self", labels |-> <<>>, tab |-> <<>>, fam |-> "tie",
            pool |-> TiePool(m),
            prog |-> Prog(ids, Len(TiePool(m)), TRUE, HasRow1(m)) \o Prefills(m, ids)]]

Wrap(kind, mem, inst, m, ot, mot, labs, tab, np, ids) == WrapP(kind, mem, inst, m, ot, mot, labs, tab, np, Prog(ids, np, FALSE, FALSE))

Labels3 == <<5, 6, 7>>

\* order family ------------------------------------------------------------------------------------
\* Longer batches that are ORDERINGS of an 8-row pool, to exercise state carried from one row of the loop to
\* the next. The first coordinate of rows 1..7 runs over -1.5, -0.5, 0.5, 1.5, 2.5, 3.25, 4.0: row 1 lies below
\* and row 7 above the training range [-1, 3.5) of the one-dimensional / regression data, rows 2..6 in different
\* interior segments; row 8 is an extreme row. (Non-negative types: the grid shifted by +1.5.)
OrdGrid == <<-6, -2, 2, 6, 10, 13, 16>>
OrdPool(nf, inst, nonneg) ==
  [i \in 1..8 |-> [cc \in 1..nf |->
     IF i = 8 THEN XCell((inst + 1) % 3, cc, nonneg)
     ELSE IF cc = 1 THEN OrdGrid[i] + (IF nonneg THEN 6 ELSE 0)
     ELSE Cell(inst, i, cc, nonneg)]]
Rev(s) == [q \in 1..Len(s) |-> s[Len(s) + 1 - q]]
\* ascending in the first coordinate (the extreme row is negative for variant 1 unless the type is non-negative)
Asc(inst, nonneg) == IF (inst + 1) % 3 = 1 /\ ~nonneg THEN <<8, 1, 2, 3, 4, 5, 6, 7>> ELSE <<1, 2, 3, 4, 5, 6, 7, 8>>
Orderings(inst, nonneg) ==
  { [fam |-> "asc",  ids |-> Asc(inst, nonneg)],
    [fam |-> "desc", ids |-> Rev(Asc(inst, nonneg))],
    [fam |-> "zig1", ids |-> <<5, 1, 3, 7, 4, 8, 2, 6>>],      \* high, below-min, low, above-max, mid, extreme, ...
    [fam |-> "zig2", ids |-> <<6, 8, 2, 7, 1, 4, 3, 5>>],
    [fam |-> "zig4", ids |-> <<5, 1, 3, 4>>],                  \* shortest: high, below-min, low, mid
    [fam |-> "perm", ids |-> [q \in 1..8 |-> ((3 * q + inst) % 8) + 1]] }
OrdCalls(views, row1) ==
  << <<"own", "ref_arr", "c">>, <<"own", "own_ds", "f">>, <<"own", "dirty", "cs">>, <<"own", "caller", "c">> >> \o
  (IF views THEN << <<"view", "ref_arr", "rs">>, <<"view", "inplace", "rev">> >> ELSE <<>>) \o
  (IF row1 THEN << <<"view", "row1", "c">> >> ELSE <<>>)
OrdProg(ids, views, row1) ==
  Singles(ids, 8) \o [q \in 1..Len(OrdCalls(views, row1)) |->
     LET cl == OrdCalls(views, row1)[q] IN [st |-> cl[1], fm |-> cl[2], ly |-> cl[3], ids |-> ids]]
OrdBase(m, inst, o) ==
  [kind |-> KindOf(m),
   inp |-> [model |-> m, inst |-> inst, ft |-> "f64", ot |-> OT(m), mot |-> "fx", nf |-> NF(m), w |-> Width(m, inst),
            nm |-> IF KindOf(m) = "platt" THEN 1 ELSE 0, mem |-> "self", labels |-> <<>>, tab |-> <<>>, fam |-> o.fam,
            pool |-> OrdPool(NF(m), inst, NonNeg(m)),
            prog |-> OrdProg(o.ids, HasViews(m), HasRow1(m))]]
OrdWrap(kind, mem, inst, m, ot, mot, labs, o) ==
  [kind |-> kind,
   inp |-> [model |-> kind, inst |-> inst, ft |-> "f64", ot |-> ot, mot |-> mot, nf |-> 2,
            w |-> IF kind = "mt" THEN m ELSE 1, nm |-> m, mem |-> mem, labels |-> labs, tab |-> <<>>, fam |-> o.fam,
            pool |-> OrdPool(2, inst, FALSE),
            prog |-> OrdProg(o.ids, FALSE, FALSE)]]
\* mock probability tables: member -> pool id -> quarter units in {0, 2, 4}
AllTabs(m, np) == [1..m -> [1..np -> {0, 2, 4}]]
\* reduced set for the quick tier: with 3 members the second row is the first one rotated by one member
Tabs(m, np) == IF FullTabs \/ m < 3 THEN AllTabs(m, np)
               ELSE {t \in AllTabs(m, np) : \A jj \in 1..m : \A i \in 2..np : t[jj][i] = t[(jj % m) + 1][i - 1]}
MockBatches(np) == {<<>>, [i \in 1..np |-> i], [i \in 1..np |-> np + 1 - i]} \cup {<<i, i>> : i \in 1..np}

Init ==
  \/ \E m \in Models, inst \in Insts, ft \in Fts, ids \in Batches(P, MaxLen) :
       /\ ft = "f32" => (HasF32(m) /\ Len(ids) <= MaxLen32)
       /\ case = Base(m, inst, ft, ids)
  \/ \E m \in Models \cap TieModels : \E inst \in TieInsts(m), ids \in TieBatches(Len(TiePool(m))) :
       case = TieBase(m, inst, ids)
  \/ \E m \in Models, inst \in Insts : \E o \in Orderings(inst, NonNeg(m)) :
       case = OrdBase(m, inst, o)
  \/ \E inst \in Insts : \E o \in Orderings(inst, FALSE) :
       \/ /\ "mt" \in Wrappers
          /\ \E mem \in {"mock", "real", "tree"} :
               case = OrdWrap("mt", mem, inst, 2, IF mem = "tree" THEN "lab" ELSE "fx", IF mem = "tree" THEN "lab" ELSE "fx", <<>>, o)
       \/ /\ "mc" \in Wrappers
          /\ case = OrdWrap("mc", "real", inst, 3, "lab", "pr", Labels3, o)
       \/ /\ "platt" \in Wrappers
          /\ \E mem \in {"mock", "ols", "svr", "enet"} :
               case = OrdWrap("platt", mem, inst, 1, "pr", "fx", <<>>, o)
  \/ /\ "mt" \in Wrappers
     /\ \E mem \in {"mock", "real", "tree"}, m \in 1..3, inst \in Insts, ids \in Batches(P, MaxLen) :
          case = Wrap("mt", mem, inst, m, IF mem = "tree" THEN "lab" ELSE "fx", IF mem = "tree" THEN "lab" ELSE "fx",
                      <<>>, <<>>, P, ids)
  \/ /\ "mc" \in Wrappers
     /\ \E m \in 1..3, inst \in Insts, ids \in Batches(P, MaxLen) :
          case = Wrap("mc", "real", inst, m, "lab", "pr", SubSeq(Labels3, 1, m), <<>>, P, ids)
  \/ /\ "mc" \in Wrappers
     /\ \E m \in 1..3 : \E tab \in Tabs(m, MockP), ids \in MockBatches(MockP) :
          case = WrapP("mc", "mock", 2, m, "lab", "pr", SubSeq(Labels3, 1, m),
                       [jj \in 1..m |-> [i \in 1..MockP |-> tab[jj][i]]], MockP, Lite(ids, MockP))
  \/ /\ "platt" \in Wrappers
     /\ \E mem \in {"mock", "ols", "svr", "enet"}, inst \in Insts, ids \in Batches(P, MaxLen) :
          case = Wrap("platt", mem, inst, 1, "pr", "fx", <<>>, <<>>, P, ids)

Next == UNCHANGED case
Emit == PrintT("CASE " \o ToJson(case))
=============================================================================
