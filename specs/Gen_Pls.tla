------------------------------ MODULE Gen_Pls ------------------------------
(***************************************************************************************************)
(* Case generator for X02 (partial least squares).  A case is a call history on one integer data   *)
(* set; TLC enumerates                                                                             *)
(*   fit cases    : shape (n, p, q) x seed -> pseudo-random integer matrices over -2..3 (a fixed    *)
(*                  hash of seed, row and column), put into one of seven forms (plain, constant    *)
(*                  column, duplicated column = rank deficient, offset columns, constant target    *)
(*                  column, orthogonal blocks = zero cross-product, badly scaled column),          *)
(*                  x every estimator / algorithm combination (thinned by ThinC)                   *)
(*                  x scaling on/off (by parity) x every admissible number of components;          *)
(*   param cases  : one fixed data set x 3 estimators x every tolerance class x max_iter in        *)
(*                  {0, 1, 2, default} x k in {0, 1, bound, bound + 1} (+ PlsSvd x k), and a      *)
(*                  single-sample data set;  loose-tolerance fits (default / zero) on seeded data; *)
(*   equiv cases  : seeded data sets x scaling for the one-component equivalence.                  *)
(* Two unseen rows per case are derived from the seed as well.                                     *)
(***************************************************************************************************)
EXTENDS Integers, Sequences, TLC, Json

CONSTANTS ShapeCodes,  \* set of 100 n + 10 p + q
          Seeds,       \* seeds per shape: 1..Seeds
          ThinC,       \* keep combination i of data set s iff (s + i) % ThinC = 0   (1 = all)
          EqSeeds,     \* seeds per shape for the equivalence cases
          LooseSeeds   \* seeds per shape for the loose-tolerance cases

VARIABLE case

Shapes == {<<sc \div 100, (sc \div 10) % 10, sc % 10>> : sc \in ShapeCodes}

Min2(a, b) == IF a <= b THEN a ELSE b

\* pseudo-random entry in -2..3
H(s, i, j) == LET s1 == s % 211  s2 == s \div 211 IN
  ((((s1 * 1103 + s2 * 7919 + i * 419 + j * 263 + 17) * (s1 + 5 * s2 + 2 * i + 3 * j + 5)) % 1009) % 6) - 2
Mat(s, n, w) == [i \in 1..n |-> [j \in 1..w |-> H(s, i, j)]]

Forms == <<"plain", "constcol", "plain", "dupcol", "offset", "ycon", "plain", "ortho", "wide", "plain">>
FormOf(s) == Forms[(s % 10) + 1]

\* orthogonal blocks: X varies only on the first half of the rows (constant elsewhere), Y only on the second half,
\* both with zero block sums -> Xc^T Yc = 0 exactly
OrthoX(s, n, p) == [i \in 1..n |-> [j \in 1..p |-> IF i = 1 THEN j ELSE IF i = 2 THEN 0 - j ELSE 0]]
OrthoY(s, n, q) == [i \in 1..n |-> [j \in 1..q |-> IF i = n THEN j + 1 ELSE IF i = n - 1 THEN 0 - j - 1 ELSE 0]]

DataX(s, n, p) ==
  LET f == FormOf(s)
      m == Mat(s, n, p)
  IN IF f = "constcol" /\ p >= 2 THEN [i \in 1..n |-> [j \in 1..p |-> IF j = p THEN 2 ELSE m[i][j]]]
     ELSE IF f = "dupcol" /\ p >= 2 THEN [i \in 1..n |-> [j \in 1..p |-> IF j = p THEN m[i][1] ELSE m[i][j]]]
     ELSE IF f = "offset" THEN [i \in 1..n |-> [j \in 1..p |-> m[i][j] + (IF j = 1 THEN 50 ELSE -7)]]
     ELSE IF f = "wide" THEN [i \in 1..n |-> [j \in 1..p |-> IF j = 1 THEN 3 * m[i][j] ELSE m[i][j]]]
     ELSE IF f = "ortho" /\ n >= 4 THEN OrthoX(s, n, p)
     ELSE m
DataY(s, n, q) ==
  LET f == FormOf(s)
      m == Mat(s + 1000, n, q)
  IN IF f = "ycon" /\ q >= 2 THEN [i \in 1..n |-> [j \in 1..q |-> IF j = 1 THEN 3 ELSE m[i][j]]]
     ELSE IF f = "offset" THEN [i \in 1..n |-> [j \in 1..q |-> m[i][j] + 20]]
     ELSE IF f = "ortho" /\ n >= 4 THEN OrthoY(s, n, q)
     ELSE m

\* estimator / algorithm combinations
Combos == << <<"reg", "nipals">>, <<"reg", "svd">>, <<"can", "nipals">>, <<"can", "svd">>,
             <<"cca", "nipals">>, <<"svd", "svd">>, <<"cca", "svd">> >>
UB(variant, n, p, q) == IF variant = "reg" THEN p ELSE Min2(n, Min2(p, q))

Inp(variant, algo, scale, k, tol, maxit, X, Y, s, p, q) ==
  [variant |-> variant, algo |-> algo, scale |-> scale, k |-> k, tol |-> tol, maxit |-> maxit,
   X |-> X, Y |-> Y, Z |-> Mat(s + 2000, 2, p), ZY |-> Mat(s + 3000, 2, q), p |-> p, q |-> q]

KeepFit(sh, s, ci, k) == (s + ci) % ThinC = 0 /\ k <= UB(Combos[ci][1], sh[1], sh[2], sh[3])

\* parameter grid on one fixed regular data set (n = 5, p = 2, q = 2) and one single-sample data set
PX == << <<1, 0>>, <<2, 3>>, <<0, 1>>, <<-1, 2>>, <<3, -2>> >>
PY == << <<2, 1>>, <<3, 0>>, <<1, 1>>, <<0, -2>>, <<4, 2>> >>
Tols == {"tight", "default", "zero", "neg", "nan", "inf", "ninf"}
ParamCases ==
  {[kind |-> "fit", inp |-> Inp(v, "nipals", TRUE, k, tol, mi, PX, PY, 7, 2, 2)] :
     v \in {"reg", "can", "cca"}, tol \in Tols, mi \in {0, 1, 2, -1}, k \in {0, 1, 2, 3}}
  \cup {[kind |-> "fit", inp |-> Inp("svd", "svd", sc, k, "default", -1, PX, PY, 7, 2, 2)] : sc \in BOOLEAN, k \in {0, 1, 2, 3}}
  \cup {[kind |-> "fit", inp |-> Inp(v, a, FALSE, k, "tight", 3000, << <<1, 2>> >>, << <<3>> >>, 9, 2, 1)] :
          v \in {"reg", "can", "cca", "svd"}, a \in {"svd"}, k \in {0, 1, 2}}
  \cup {[kind |-> "fit", inp |-> Inp(v, "svd", FALSE, k, "tight", 3000, PX, PY, 7, 2, 2)] : v \in {"reg", "can", "cca"}, k \in {0, 3}}
  \* fewer samples than columns: the bound of the canonical family is n, that of the regression is p
  \cup {[kind |-> "fit", inp |-> Inp(v, a, FALSE, k, "tight", 3000, << <<1, 0, 2>>, <<3, 1, 0>> >>, << <<0, 1, 1>>, <<2, 0, 3>> >>, 11, 3, 3)] :
          v \in {"reg", "can", "cca", "svd"}, a \in {"nipals", "svd"}, k \in {1, 2, 3, 4}}

LooseCases ==
  {[kind |-> "fit", inp |-> Inp(v, "nipals", (s % 2) = 0, k, tol, IF tol = "zero" THEN 50 ELSE -1,
                                Mat(s + 500 + 13 * sh[1], sh[1], sh[2]), Mat(s + 1500 + 13 * sh[1], sh[1], sh[3]), s, sh[2], sh[3])] :
     sh \in Shapes, s \in 1..LooseSeeds, v \in {"reg", "can", "cca"}, tol \in {"default", "zero"}, k \in {1, 2}}
KeepLoose(cs) == cs.inp.k <= UB(cs.inp.variant, Len(cs.inp.X), cs.inp.p, cs.inp.q)

EquivCases ==
  {[kind |-> "equiv", inp |-> [scale |-> sc, X |-> DataX(s + 5000 + 37 * sh[1], sh[1], sh[2]), Y |-> DataY(s + 5000 + 37 * sh[1], sh[1], sh[3]),
                               p |-> sh[2], q |-> sh[3]]] :
     sh \in Shapes, s \in 1..EqSeeds, sc \in BOOLEAN}

Init ==
  \/ \E sh \in Shapes, s \in 1..Seeds, ci \in 1..7, k \in 1..3 :
        /\ KeepFit(sh, s, ci, k)
        /\ case = [kind |-> "fit", inp |-> Inp(Combos[ci][1], Combos[ci][2], ((s + ci) % 2) = 0, k, "tight", 3000,
                                               DataX(s + 37 * sh[1] + 11 * sh[2], sh[1], sh[2]),
                                               DataY(s + 37 * sh[1] + 11 * sh[2], sh[1], sh[3]), s, sh[2], sh[3])]
  \/ case \in ParamCases
  \/ \E cs \in LooseCases : KeepLoose(cs) /\ case = cs
  \/ \E cs \in EquivCases : Len(cs.inp.X) >= 2 /\ case = cs

Next == UNCHANGED case
Emit == PrintT("CASE " \o ToJson(case))
=============================================================================
