-------------------------------- MODULE Gmm --------------------------------
(***************************************************************************)
(* C10 -- a fitted Gaussian mixture is a valid mixture and yields valid    *)
(* probabilities (linfa-clustering/src/gaussian_mixture/algorithm.rs).     *)
(*                                                                         *)
(* Part 1: the property's predicates on an *observed* model / probability  *)
(*   row (integers: fixed point with a logged power-of-ten scale, order    *)
(*   keys).  They are used unchanged by Trace_Gmm on what the real         *)
(*   accessors / predict_proba / predict return, and as invariants of the  *)
(*   design model of part 2 (which feeds them the exact values, encoded    *)
(*   like the harness encodes floats: this proves that the slack terms do  *)
(*   not reject a correct implementation, and that they are not vacuous).  *)
(* Part 2: design model.  Scenario "em": the M-step                        *)
(*   (estimate_gaussian_parameters + reg_covar, compute_precisions) in     *)
(*   exact rational arithmetic for every dataset and every responsibility  *)
(*   matrix of a small lattice, with the emptied-component / non positive  *)
(*   definite failure exits.  Scenario "lse": estimate_log_prob_resp on a  *)
(*   lattice of weighted log-probabilities that reaches below the          *)
(*   underflow threshold of exp(), in the shifted (stable) form and -- for *)
(*   the negative run -- in the naive form ln(sum(exp(.))) of the code.    *)
(*   Scenario "runs": the n_runs / max_n_iterations loop of                 *)
(*   GmmValidParams::fit on abstract gain sequences (no change / change     *)
(*   below / above the tolerance), runs continuing from the previous state  *)
(*   (the code) or re-initialised: the budget-stability clause used by      *)
(*   Trace_Gmm is a consequence of "Ok <=> the selected run converged"; a   *)
(*   convergence flag that is not reset between runs (negative run) is not. *)
(***************************************************************************)
EXTENDS Elem, TLC

CONSTANTS MaxN,          \* em scenario: datasets with n <= MaxN samples
          MaxCells,      \* ... and n * p <= MaxCells cells
          MaxC,          \* lattice coordinates 0..MaxC
          MaxK,          \* components 1..MaxK
          RD,            \* responsibilities are multiples of 1/RD
          Forms          \* subset of {"stable", "naive"}: log-sum-exp forms explored by Query ;
                         \* "sticky" \in Forms: the convergence flag of fit is not reset between runs

VARIABLES pc, scen, X, Rsp, kk, reg, rnd, mdl, wlp, row

vars == <<pc, scen, X, Rsp, kk, reg, rnd, mdl, wlp, row>>

-----------------------------------------------------------------------------
(* Encodings (DESIGN appendix A; harness/src/bin/c10.rs) *)
WS  == 100000000          \* weights and probabilities: round(v * 10^8)
MS  == 1000000            \* means: round(v * 10^6)
LIM == 134217728          \* 2^27: covariance / precision entries are logged below this bound
P10 == <<1, 10, 100, 1000, 10000, 100000, 1000000, 10000000, 100000000>>
Pow10Set == Range(P10)
Log10(s) == (CHOOSE e \in 1..9 : P10[e] = s) - 1
GG(ft) == IF ft = "f32" THEN 100000 ELSE 1000000000    \* relative numerical allowance 1/GG (f32: 1e-5, f64: 1e-9)
TolP(ft) == IF ft = "f32" THEN 10000 ELSE 100          \* sum-to-one allowance at scale WS (f32: 1e-4, f64: 1e-6)

MaxAbsM(m) == MaxSet({0} \cup {Abs(m[i][j]) : i \in DOMAIN m, j \in DOMAIN m})
IsSquare(m, n) == Len(m) = n /\ \A i \in 1..n : Len(m[i]) = n

\* split multiplication for |a|, |b| < 2^27 : a = Hi(a) * 10^4 + Lo(a), same sign
Hi(a) == IF a >= 0 THEN a \div 10000 ELSE -((-a) \div 10000)
Lo(a) == IF a >= 0 THEN a % 10000 ELSE -((-a) % 10000)
\* (A . B)[i][j] in units of 10^8, floor with an error below 2 units ; A, B are n x n
ProdV8(A, B, i, j, n) ==
  LET h == SumSeq([l \in 1..n |-> Hi(A[i][l]) * Hi(B[l][j])])
      m == SumSeq([l \in 1..n |-> Hi(A[i][l]) * Lo(B[l][j]) + Lo(A[i][l]) * Hi(B[l][j])])
      l0 == SumSeq([l \in 1..n |-> Lo(A[i][l]) * Lo(B[l][j])])
  IN h + ((m + (l0 \div 10000)) \div 10000)

-----------------------------------------------------------------------------
(* Part 1a: a valid mixture.                                                *)
(* An observed model m is a record  k, p, finite, num, w, wpos, means, cs, cov, ps, prec : *)
(*   w[c] = weight * WS, wpos[c] = "the weight is > 0 as a float", means[c][j] * MS,       *)
(*   cov[c] = covariance * cs[c], prec[c] = precision * ps[c] (cs, ps powers of ten).      *)
(* Every encoded entry is within 1 unit of the real value (the harness rounds: 1/2).       *)

ShapeOk(m, K, P) ==
  /\ m.k = K /\ m.p = P
  /\ Len(m.w) = K /\ Len(m.wpos) = K /\ Len(m.means) = K
  /\ Len(m.cov) = K /\ Len(m.prec) = K /\ Len(m.cs) = K /\ Len(m.ps) = K
  /\ \A c \in 1..K : Len(m.means[c]) = P /\ IsSquare(m.cov[c], P) /\ IsSquare(m.prec[c], P)
  /\ \A c \in 1..K : m.cs[c] \in Pow10Set /\ m.ps[c] \in Pow10Set

\* positive weights summing to one
WeightsOk(m, ft) ==
  /\ \A c \in 1..m.k : m.wpos[c] /\ m.w[c] >= 0
  /\ Abs(SumSeq(m.w) - WS) <= m.k + TolP(ft)

\* one mean per component inside the data's bounding box ; lo, hi in data units (value = int / ds)
MeansOk(m, lo, hi, ds, ft) ==
  \A c \in 1..m.k : \A j \in 1..m.p :
    LET v == m.means[c][j]
        al == 1 + Abs(v) \div GG(ft)
    IN /\ v >= lo[j] * (MS \div ds) - al
       /\ v <= hi[j] * (MS \div ds) + al

SymOk(mat, P, ft) ==
  \A i \in 1..P : \A j \in 1..P :
    Abs(mat[i][j] - mat[j][i]) <= 2 + Max2(Abs(mat[i][j]), Abs(mat[j][i])) \div GG(ft)

\* the diagonal includes the configured regularisation reg = regn / regd
DiagOk(mat, sc, P, regn, regd, ft) ==
  \A j \in 1..P : mat[j][j] >= MulDiv(sc, regn, regd) - 1 - mat[j][j] \div GG(ft)

\* positive definite: every principal minor of order <= 3 is positive (Sylvester's criterion for
\* P <= 3 ; necessary for P > 3), evaluated on the matrix reduced to about 500 levels, with the
\* first-, second- and third-order propagation of the (<= 1 level) entry errors as slack
Reduce(mat, P) ==
  LET d == (MaxAbsM(mat) \div 500) + 1
  IN [i \in 1..P |-> [j \in 1..P |-> RoundDiv(mat[i][j], d)]]
Sub(r, ix) == [a \in 1..Len(ix) |-> [b \in 1..Len(ix) |-> r[ix[a]][ix[b]]]]
Det2(q) == q[1][1] * q[2][2] - q[1][2] * q[2][1]
Slack2(q) == Abs(q[1][1]) + Abs(q[2][2]) + Abs(q[1][2]) + Abs(q[2][1]) + 2
Oth(a) == IF a = 1 THEN <<2, 3>> ELSE IF a = 2 THEN <<1, 3>> ELSE <<1, 2>>
Minor3(q, a, b) == q[Oth(a)[1]][Oth(b)[1]] * q[Oth(a)[2]][Oth(b)[2]] - q[Oth(a)[1]][Oth(b)[2]] * q[Oth(a)[2]][Oth(b)[1]]
Perm3(q, a, b)  == Abs(q[Oth(a)[1]][Oth(b)[1]] * q[Oth(a)[2]][Oth(b)[2]]) + Abs(q[Oth(a)[1]][Oth(b)[2]] * q[Oth(a)[2]][Oth(b)[1]])
Det3(q) == q[1][1] * Minor3(q, 1, 1) - q[1][2] * Minor3(q, 1, 2) + q[1][3] * Minor3(q, 1, 3)
Slack3(q) ==
  SumSeq([a \in 1..3 |-> SumSeq([b \in 1..3 |-> Perm3(q, a, b) + 2 * Abs(q[a][b])])]) + 6
PdOk(mat, P) ==
  LET r == Reduce(mat, P) IN
  /\ \A i \in 1..P : mat[i][i] >= 0
  /\ \A i \in 1..P : \A j \in (i + 1)..P :
       LET q == Sub(r, <<i, j>>) IN Det2(q) + Slack2(q) > 0
  /\ \A i \in 1..P : \A j \in (i + 1)..P : \A l \in (j + 1)..P :
       LET q == Sub(r, <<i, j, l>>) IN Det3(q) + Slack3(q) > 0

\* the precision matrix is the inverse of the covariance: prec . cov = I and cov . prec = I
\* up to the propagated encoding error (1 unit per entry) and the numerical allowance
InvTarget(ps, cs) == LET te == Log10(ps) + Log10(cs) - 8 IN IF te >= 0 THEN P10[te + 1] ELSE 0
InvSlack(A, B, i, j, n, num) ==
  SumSeq([l \in 1..n |-> Abs(A[i][l]) + Abs(B[l][j])]) \div 100000000 + 4 + num
InvOk(prec, ps, cov, cs, P, ft) ==
  LET tgd == InvTarget(ps, cs)
      num == (P * (Hi(MaxAbsM(prec)) + 1) * (Hi(MaxAbsM(cov)) + 1)) \div GG(ft)     \* numerical allowance
  IN \A i \in 1..P : \A j \in 1..P :
       LET tg == IF i = j THEN tgd ELSE 0 IN
       /\ Abs(ProdV8(prec, cov, i, j, P) - tg) <= InvSlack(prec, cov, i, j, P, num)
       /\ Abs(ProdV8(cov, prec, i, j, P) - tg) <= InvSlack(cov, prec, i, j, P, num)

\* named clauses (the trace specification prints the names of the false ones)
ModelClauses(m, K, P, lo, hi, ds, regn, regd, ft) ==
  IF ~(m.finite /\ m.num) THEN << <<"finite_parameters", FALSE>> >>
  ELSE IF ~ShapeOk(m, K, P) THEN << <<"shapes", FALSE>> >>
  ELSE <<
    <<"weights_pos_sum1", WeightsOk(m, ft)>>,
    <<"means_in_box", MeansOk(m, lo, hi, ds, ft)>>,
    <<"cov_symmetric", \A c \in 1..K : SymOk(m.cov[c], P, ft)>>,
    <<"cov_diag_ge_reg", \A c \in 1..K : DiagOk(m.cov[c], m.cs[c], P, regn, regd, ft)>>,
    <<"cov_pos_definite", \A c \in 1..K : PdOk(m.cov[c], P)>>,
    <<"prec_symmetric", \A c \in 1..K : SymOk(m.prec[c], P, ft)>>,
    <<"prec_is_inverse", \A c \in 1..K : InvOk(m.prec[c], m.ps[c], m.cov[c], m.cs[c], P, ft)>>
  >>
FalseClauses(cl) == {cl[q][1] : q \in {q \in DOMAIN cl : ~cl[q][2]}}
ModelOk(m, K, P, lo, hi, ds, regn, regd, ft) == FalseClauses(ModelClauses(m, K, P, lo, hi, ds, regn, regd, ft)) = {}

\* one component: the fitted Gaussian is the sample mean and the (biased) sample covariance plus
\* reg on the diagonal, whatever the initialiser.  data: sequence of integer rows (ds = 1).
ColSum(data, j) == SumSeq([q \in 1..Len(data) |-> data[q][j]])
ColSum2(data, j, l) == SumSeq([q \in 1..Len(data) |-> data[q][j] * data[q][l]])
K1Clauses(m, data, P, regn, regd, ft) ==
  LET n == Len(data) IN
  <<
    <<"k1_mean",
      \A j \in 1..P : Abs(m.means[1][j] * n - ColSum(data, j) * MS) <= n * (1 + Abs(m.means[1][j]) \div GG(ft))>>,
    <<"k1_cov",
      \A j \in 1..P : \A l \in 1..P :
        LET num == n * ColSum2(data, j, l) - ColSum(data, j) * ColSum(data, l)
            ex == MulDiv(m.cs[1], num, n * n) + (IF j = l THEN MulDiv(m.cs[1], regn, regd) ELSE 0)
        IN Abs(m.cov[1][j][l] - ex) <= 3 + (MaxAbsM(m.cov[1]) + m.cs[1]) \div GG(ft)>>
  >>

-----------------------------------------------------------------------------
(* Part 1b: valid membership probabilities.                                 *)
(* An observed row: num (all entries finite and encodable), proba[c] * scale, ord[c] = an integer *)
(* or key that orders the implementation's probabilities exactly, label (0-based).               *)
RowClauses(num, proba, ord, label, K, scale, tol, Le(_, _), Zero) ==
  IF ~num THEN << <<"proba_finite", FALSE>> >>
  ELSE IF Len(proba) # K \/ Len(ord) # K THEN << <<"proba_count", FALSE>> >>
  ELSE <<
    <<"proba_nonneg", \A c \in 1..K : proba[c] >= 0 /\ Le(Zero, ord[c])>>,
    <<"proba_sum1", Abs(SumSeq(proba) - scale) <= K + tol>>,
    <<"label_argmax",
      label \in 0..(K - 1) /\ \A c \in 1..K : Le(ord[c], ord[label + 1])>>
  >>

-----------------------------------------------------------------------------
(* Part 1c: the convergence test.  d = the change of the lower bound in the last EM iteration of a  *)
(* run, encoded as round(change * 10^9), dnum = FALSE if it is infinite (first iteration) or >= 2^30; *)
(* tolerance = toln / told.  Converged <=> |change| < tolerance ; the encoding (1/2 unit) and the    *)
(* rounding of the tolerance to the float type (relative 10^-6) make changes that close a tie.      *)
DS == 1000000000
ConvOk(dnum, d, toln, told) ==
  /\ dnum
  /\ LET t == MulDiv(DS, toln, told) IN Abs(d) <= t + 1 + t \div 1000000

-----------------------------------------------------------------------------
(* Part 2: design model *)
IntLe(a, b) == a <= b
Regs == {<<0, 1>>, <<1, 2>>, <<1, 10>>}
Doms == {d \in (1..MaxN) \X (1..2) : d[1] >= 2 /\ d[1] * d[2] <= MaxCells}
RespRows(K) == {r \in [1..K -> 0..RD] : SumSeq(r) = RD}
WlpGrid == {0, -3000, -50000, -200000, -7000000, -7451400, -9000000, -2000000000}
Underflow == -7451300        \* exp() of an f64 below -745.13 is 0
NoModel == [k |-> 0]
NoRow == [num |-> TRUE, proba |-> <<>>, label |-> 0]

LexLe(a, b) == IF a[1] # b[1] THEN a[1] < b[1] ELSE IF Len(a) = 1 THEN TRUE ELSE a[2] <= b[2]
SortedRows(x) == \A i \in 1..(Len(x) - 1) : LexLe(x[i], x[i + 1])
\* ---- scenario "runs": GmmValidParams::fit's loop over n_runs x max_n_iterations on a gain sequence g
RunsL == 9                  \* 3 runs x budget 3
Seg == 3                    \* re-initialising variant: run j works on g[(j-1) Seg + 1 ..]
\* one run from position s with budget m: the first iteration compares with -infinity (never converged),
\* iteration i >= 2 stops the run when the change of the lower bound is below the tolerance
RECURSIVE RunFrom(_, _, _, _)
RunFrom(g, s, m, i) ==      \* i = iterations done so far ; result <<end position, converged>>
  IF i >= 2 /\ g[s + i] <= 1 THEN <<s + i, TRUE>>
  ELSE IF i = m THEN <<s + i, FALSE>>
  ELSE RunFrom(g, s, m, i + 1)
RECURSIVE GainSum(_, _, _)
GainSum(g, a, b) == IF b <= a THEN 0 ELSE g[b] + GainSum(g, a, b - 1)      \* lower bound at b relative to a
\* state of the loop: <<position, best lower bound (-1 = -infinity), selected <<run, end>>, its flag, flag>>
RECURSIVE FitLoop(_, _, _, _, _, _, _)
FitLoop(g, m, r, cont, sticky, j, st) ==
  IF j > r THEN st
  ELSE LET s  == IF cont THEN st[1] ELSE (j - 1) * Seg
           base == IF cont THEN 0 ELSE (j - 1) * Seg
           re == RunFrom(g, s, m, 1)
           fl == IF sticky THEN st[5] \/ re[2] ELSE re[2]          \* `converged_iter` (reset per run, or not)
           lb == GainSum(g, base, re[1])
       IN FitLoop(g, m, r, cont, sticky, j + 1,
                  IF lb > st[2] THEN <<re[1], lb, <<j, re[1]>>, fl, fl>> ELSE <<re[1], st[2], st[3], st[4], fl>>)
\* result of fit: <<"ok", selected run and its end state>> or <<"err">>
FitRes(g, m, r, cont, sticky) ==
  LET st == FitLoop(g, m, r, cont, sticky, 1, <<0, -1, <<0, 0>>, FALSE, FALSE>>)
  IN IF st[4] THEN <<"ok", st[3]>> ELSE <<"err">>
\* the clause of Trace_Gmm: if the fits with n_runs = 1 .. r are all Ok and each differs from the one
\* before, the fit with a larger budget returns the same model
BudgetStable(g, m, m2, r, cont, sticky) ==
  LET F(j) == FitRes(g, m, j, cont, sticky) IN
  (/\ \A j \in 1..r : F(j)[1] = "ok"
   /\ \A j \in 2..r : F(j) # F(j - 1))
  => FitRes(g, m2, r, cont, sticky) = F(r)
\* the statement itself on the abstract loop: Ok => the selected run converged within its budget
SelectedConverged(g, m, r, cont, sticky) ==
  LET f == FitRes(g, m, r, cont, sticky) IN
  f[1] = "ok" =>
    LET j == f[2][1]
        st == FitLoop(g, m, j - 1, cont, sticky, 1, <<0, -1, <<0, 0>>, FALSE, FALSE>>)
        s == IF cont THEN st[1] ELSE (j - 1) * Seg
    IN RunFrom(g, s, m, 1) = <<f[2][2], TRUE>>

\* the scenario is chosen in two steps (configuration, then data and responsibilities) so that TLC's
\* workers share the exploration
Init ==
  /\ pc = "boot" /\ mdl = NoModel /\ row = NoRow /\ wlp = <<>>
  /\ scen = "none" /\ kk = 0 /\ rnd = 0 /\ X = <<>> /\ Rsp = <<>> /\ reg = <<0, 1>>
ChooseCfg ==
  /\ pc = "boot"
  /\ scen' \in {"em", "lse", "pd", "runs"}
  /\ kk' \in 1..MaxK
  /\ IF scen' = "runs" THEN /\ rnd' = 0 /\ reg' = <<0, 1>> /\ X' \in [1..2 -> 0..2]
     ELSE IF scen' = "pd" THEN /\ rnd' \in {-1, 0, 1} /\ reg' \in {<<1, 1>>, <<37, 1>>, <<1000, 1>>, <<99999, 1>>}
                          /\ X' = <<>>
     ELSE IF scen' = "em"
       THEN /\ rnd' \in {0, 1} /\ reg' \in Regs
            /\ \E d \in Doms : X' = [i \in 1..d[1] |-> [j \in 1..d[2] |-> 0]]
       ELSE /\ rnd' = 0 /\ reg' = <<1, 2>> /\ X' = << <<0>>, <<2>> >>
  /\ pc' = "cfg"
  /\ UNCHANGED <<Rsp, mdl, wlp, row>>
ChooseData ==
  /\ pc = "cfg"
  /\ IF scen = "runs"
       THEN /\ \E t \in [1..(RunsL - 2) -> 0..2] : X' = X \o t       \* the gain of every EM step: 0 none, 1 < tolerance, 2 > tolerance
            /\ Rsp' = <<>>
     ELSE IF scen = "pd"
       THEN \* X = L . L^T for a lower-triangular integer L with positive diagonal: exactly positive definite
            /\ \E dg \in [1..3 -> 1..2], od \in [1..3 -> -1..1] :
                 LET L == << <<dg[1], 0, 0>>, <<od[1], dg[2], 0>>, <<od[2], od[3], dg[3]>> >>
                 IN X' = [i \in 1..3 |-> [j \in 1..3 |-> SumSeq([l \in 1..3 |-> L[i][l] * L[j][l]])]]
            /\ Rsp' = <<>>
     ELSE IF scen = "em"
       THEN /\ X' \in [1..Len(X) -> [1..Len(X[1]) -> 0..MaxC]]
            /\ SortedRows(X')           \* samples in lexicographic order: every (X, Rsp) is a joint permutation of such a pair
            /\ Rsp' \in [1..Len(X) -> RespRows(kk)]
       ELSE /\ X' = X /\ Rsp' = [i \in 1..2 |-> [c \in 1..kk |-> IF c = 1 THEN RD ELSE 0]]
  /\ pc' = "init"
  /\ UNCHANGED <<scen, kk, reg, rnd, mdl, wlp, row>>

N == Len(X)
P == Len(X[1])
Nk(c) == SumSeq([i \in 1..N |-> Rsp[i][c]])
M1(c, j) == SumSeq([i \in 1..N |-> Rsp[i][c] * X[i][j]])
M2(c, j, l) == SumSeq([i \in 1..N |-> Rsp[i][c] * X[i][j] * X[i][l]])
\* covariance of component c = Cn / Cd exactly (resp-weighted scatter about the mean, plus reg on the diagonal)
Cd(c) == Nk(c) * Nk(c) * reg[2]
Cn(c) == [j \in 1..P |-> [l \in 1..P |->
            (Nk(c) * M2(c, j, l) - M1(c, j) * M1(c, l)) * reg[2] + (IF j = l THEN reg[1] * Nk(c) * Nk(c) ELSE 0)]]
DetN(q) == IF Len(q) = 1 THEN q[1][1] ELSE Det2(q)
ExactPD(q) == q[1][1] > 0 /\ DetN(q) > 0
\* precision = Cd * adj(Cn) / det(Cn) exactly
PnAdj(q) == IF Len(q) = 1 THEN << <<1>> >> ELSE << <<q[2][2], -q[1][2]>>, <<-q[2][1], q[1][1]>> >>

\* floor(num * 10^e / den) by decimal long division (den * 10 < 2^31), then + rnd : an encoder whose
\* error is below 1 unit in either direction (the harness rounds to nearest)
RECURSIVE LongDiv(_, _, _, _)
LongDiv(q, r, den, e) == IF e = 0 THEN <<q, r>> ELSE LongDiv(q * 10 + (r * 10) \div den, (r * 10) % den, den, e - 1)
EncA(num, den, e) ==
  LET qr == LongDiv(Abs(num) \div den, Abs(num) % den, den, e)
  IN Sgn(num) * (qr[1] + (IF qr[2] = 0 THEN 0 ELSE rnd))
Enc(num, den, e) == IF den < 0 THEN EncA(-num, -den, e) ELSE EncA(num, den, e)
\* largest e <= 8 with (maxnum / den) * 10^e < 2^27 - 1 (maxnum >= 0, den > 0)
RECURSIVE PickER(_, _, _, _)
PickER(q, r, den, e) ==
  IF e = 8 THEN 8
  ELSE LET q2 == q * 10 + (r * 10) \div den IN
       IF q2 >= LIM - 1 THEN e ELSE PickER(q2, (r * 10) % den, den, e + 1)
PickE(maxnum, den) == PickER(maxnum \div den, maxnum % den, den, 0)

EncComp(c) ==
  LET cn == Cn(c)  cd == Cd(c)  ce == PickE(MaxAbsM(cn), cd)
      adj == PnAdj(cn)  det == DetN(cn)  pe == PickE(cd * MaxAbsM(adj), det)
  IN [cs |-> P10[ce + 1], cov |-> [j \in 1..P |-> [l \in 1..P |-> Enc(cn[j][l], cd, ce)]],
      ps |-> P10[pe + 1], prec |-> [j \in 1..P |-> [l \in 1..P |-> Enc(cd * adj[j][l], det, pe)]]]
EncModel ==
  LET comps == [c \in 1..kk |-> EncComp(c)] IN
  [k |-> kk, p |-> P, finite |-> TRUE, num |-> TRUE,
   w    |-> [c \in 1..kk |-> Enc(Nk(c), N * RD, 8)],
   wpos |-> [c \in 1..kk |-> Nk(c) > 0],
   means |-> [c \in 1..kk |-> [j \in 1..P |-> Enc(M1(c, j), Nk(c), 6)]],
   cs   |-> [c \in 1..kk |-> comps[c].cs],
   cov  |-> [c \in 1..kk |-> comps[c].cov],
   ps   |-> [c \in 1..kk |-> comps[c].ps],
   prec |-> [c \in 1..kk |-> comps[c].prec]]

\* estimate_gaussian_parameters: an emptied component is an error
MEmpty ==
  /\ pc = "init" /\ scen = "em"
  /\ \E c \in 1..kk : Nk(c) = 0
  /\ pc' = "failed" /\ mdl' = [k |-> 0, err |-> "EmptyCluster"]
  /\ UNCHANGED <<scen, X, Rsp, kk, reg, rnd, wlp, row>>
\* compute_precisions_cholesky_full: a covariance that is not positive definite is an error
MSingular ==
  /\ pc = "init" /\ scen = "em"
  /\ \A c \in 1..kk : Nk(c) > 0
  /\ \E c \in 1..kk : LET cn == Cn(c) IN ~ExactPD(cn)
  /\ pc' = "failed" /\ mdl' = [k |-> 0, err |-> "LinalgError"]
  /\ UNCHANGED <<scen, X, Rsp, kk, reg, rnd, wlp, row>>
MStep ==
  /\ pc = "init" /\ scen = "em"
  /\ \A c \in 1..kk : Nk(c) > 0 /\ LET cn == Cn(c) IN ExactPD(cn)
  /\ pc' = "fitted" /\ mdl' = EncModel
  /\ UNCHANGED <<scen, X, Rsp, kk, reg, rnd, wlp, row>>

\* estimate_log_prob_resp on a vector of weighted log-probabilities (fixed point, Elem.ES = 10^4)
ArgMaxSet(s) == {c \in DOMAIN s : \A d \in DOMAIN s : s[d] <= s[c]}
StableRow(v) ==
  LET mx == MaxSeq(v)
      ex == [c \in 1..Len(v) |-> ExpNeg(mx - v[c])]            \* exp(v - max) : the largest term is 1
      ls == LnFx(SumSeq(ex))                                   \* ln(sum) >= 0
  IN [num |-> TRUE, proba |-> [c \in 1..Len(v) |-> ExpNeg(ls + (mx - v[c]))]]     \* exp((v - max) - ln(sum))
\* ln(sum(exp(v))) without the shift: when every term underflows the sum is 0, its logarithm -inf,
\* v - (-inf) = +inf and exp(+inf) = +inf for every component
NaiveRow(v) ==
  IF \A c \in 1..Len(v) : v[c] < Underflow
    THEN [num |-> FALSE, proba |-> [c \in 1..Len(v) |-> "+inf"]]
    ELSE StableRow(v)
Query ==
  /\ pc = "init" /\ scen = "lse"
  /\ \E v \in [1..kk -> WlpGrid], form \in Forms, lab \in 1..kk :
       /\ lab \in ArgMaxSet(v)                  \* predict: a component of maximal (log-)probability, ties arbitrary
       /\ wlp' = v
       /\ row' = LET rr == IF form = "stable" THEN StableRow(v) ELSE NaiveRow(v)
                 IN [num |-> rr.num, proba |-> rr.proba, label |-> lab - 1]
  /\ pc' = "queried"
  /\ UNCHANGED <<scen, X, Rsp, kk, reg, rnd, mdl>>

Next == ChooseCfg \/ ChooseData \/ MEmpty \/ MSingular \/ MStep \/ Query
Spec == Init /\ [][Next]_vars

-----------------------------------------------------------------------------
(* Invariants of the design *)
BoxLo(j) == MinSet({X[i][j] : i \in 1..N})
BoxHi(j) == MaxSet({X[i][j] : i \in 1..N})

\* the exact M-step result is a valid mixture (exact arithmetic)
InvExact ==
  pc = "fitted" =>
    /\ SumSeq([c \in 1..kk |-> Nk(c)]) = N * RD                                  \* weights sum to one
    /\ \A c \in 1..kk : LET cn == Cn(c) IN \A j \in 1..P :
         /\ BoxLo(j) * Nk(c) <= M1(c, j) /\ M1(c, j) <= BoxHi(j) * Nk(c)                \* mean inside the box
         /\ cn[j][j] * reg[2] >= reg[1] * Cd(c)                                  \* diagonal >= reg
         /\ \A l \in 1..P : cn[j][l] = cn[l][j]
\* with reg > 0 the M-step can never fail for lack of positive definiteness
InvRegPD == (pc = "init" /\ scen = "em" /\ reg[1] > 0) => \A c \in 1..kk : Nk(c) > 0 => LET cn == Cn(c) IN ExactPD(cn)
\* Sylvester's criterion agrees with the quadratic form on a lattice of test vectors
TestVecs == {v \in [1..P -> -3..3] : \E j \in 1..P : v[j] # 0}
Quad(q, v) == SumSeq([j \in 1..P |-> SumSeq([l \in 1..P |-> v[j] * q[j][l] * v[l]])])
InvSylvester ==
  (pc = "init" /\ scen = "em") => \A c \in 1..kk : Nk(c) > 0 =>
     LET cn == Cn(c) IN (ExactPD(cn) <=> \A v \in TestVecs : Quad(cn, v) > 0)
\* the encoded exact result satisfies the observed-model predicates used on the implementation
InvModel ==
  pc = "fitted" =>
    ModelOk(mdl, kk, P, [j \in 1..P |-> BoxLo(j)], [j \in 1..P |-> BoxHi(j)], 1, reg[1], reg[2], "f64")
InvK1 ==
  (pc = "fitted" /\ kk = 1) => FalseClauses(K1Clauses(mdl, [i \in 1..N |-> [j \in 1..P |-> X[i][j] ]], P, reg[1], reg[2], "f64")) = {}
\* a failed fit carries no parameters
InvFailed == pc = "failed" => mdl.k = 0 /\ mdl.err \in {"EmptyCluster", "LinalgError"}
\* probabilities of every query are valid (at Elem's scale 10^4, table error 2 units per term)
InvRow ==
  pc = "queried" =>
    FalseClauses(RowClauses(row.num, row.proba, row.proba, row.label, kk, ES, 4 * kk, IntLe, 0)) = {}

\* 3 x 3: an exactly positive definite matrix, scaled and perturbed by the worst-case encoding error
\* (-1 / +1 on a checkerboard or on every entry), is accepted by PdOk ; the same matrix with one
\* off-diagonal pair blown up to twice the larger diagonal entry (indefinite) is rejected
PdScaled == [i \in 1..3 |-> [j \in 1..3 |-> X[i][j] * reg[1] + rnd * (IF kk = 1 \/ (i + j) % 2 = 0 THEN 1 ELSE -1)]]
PdBroken == [i \in 1..3 |-> [j \in 1..3 |->
               IF {i, j} = {1, 2} THEN 2 * Max2(X[1][1], X[2][2]) * reg[1] ELSE X[i][j] * reg[1]]]
InvPd3 ==
  (pc = "init" /\ scen = "pd") => PdOk(PdScaled, 3) /\ (reg[1] >= 37 => ~PdOk(PdBroken, 3))

\* fit's run loop: Ok => the selected run converged, and the budget-stability consequence, for the
\* code's continuing runs and for re-initialised runs (with "sticky" \in Forms both must fail: negative run)
InvBudget ==
  (pc = "init" /\ scen = "runs") =>
    \A cont \in BOOLEAN : \A r \in 1..3 :
      /\ SelectedConverged(X, 2, r, cont, "sticky" \in Forms)
      /\ SelectedConverged(X, 3, r, cont, "sticky" \in Forms)
      /\ BudgetStable(X, 2, 3, r, cont, "sticky" \in Forms)

\* the convergence clause on a lattice of changes: agrees with |change| < tolerance away from the tie
\* zone, rejects a decrease of the lower bound by more than the tolerance (which a signed test accepts)
InvConvClause ==
  pc = "boot" =>
    \A tl \in {<<1, 10>>, <<1, 1000>>, <<1, 1000000>>} :
      LET t == (DS \div tl[2]) * tl[1] IN
      /\ \A d \in {-3 * t, -t - 3 - t \div 1000000, t + 3 + t \div 1000000, 2 * t} : ~ConvOk(TRUE, d, tl[1], tl[2])
      /\ \A d \in {-t + 1, -1, 0, 1, t - 1} : ConvOk(TRUE, d, tl[1], tl[2])
      /\ ~ConvOk(FALSE, 0, tl[1], tl[2])
      /\ (-3 * t < t) /\ ~ConvOk(TRUE, -3 * t, tl[1], tl[2])          \* the signed test `change < tolerance` would accept -3t

\* the trace clause alone (used by the negative run: it must notice the flag that is not reset)
InvBudgetClause ==
  (pc = "init" /\ scen = "runs") =>
    \A cont \in BOOLEAN : \A r \in 1..3 : BudgetStable(X, 2, 3, r, cont, "sticky" \in Forms)

\* sensitivity of the predicates (non-vacuity): a perturbed encoding must be rejected
Bump(m, f, c, j, l, by) == [m EXCEPT ![f][c][j][l] = @ + by]
InvSensitive ==
  (pc = "fitted" /\ scen = "em") =>
    LET lo == [j \in 1..P |-> BoxLo(j)]  hi == [j \in 1..P |-> BoxHi(j)] IN
    \* precision entry off by 2% of the identity scale (+ 40 units)
    /\ \A c \in 1..kk :
         LET by == MaxAbsM(mdl.prec[c]) \div 25 + 40 IN
         ~ModelOk(Bump(mdl, "prec", c, 1, 1, by), kk, P, lo, hi, 1, reg[1], reg[2], "f64")
    \* regularisation left out of the diagonal
    /\ reg[1] > 0 =>
         ~ModelOk([mdl EXCEPT !.cov = [c \in 1..kk |-> [j \in 1..P |-> [l \in 1..P |->
                      IF j = l THEN mdl.cov[c][j][l] - MulDiv(mdl.cs[c], reg[1], reg[2]) ELSE mdl.cov[c][j][l]]]]],
                  kk, P, lo, hi, 1, reg[1], reg[2], "f64")
    \* weights not normalised
    /\ ~ModelOk([mdl EXCEPT !.w = [c \in 1..kk |-> 2 * mdl.w[c]]], kk, P, lo, hi, 1, reg[1], reg[2], "f64")
=============================================================================
