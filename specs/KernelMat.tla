----------------------------- MODULE KernelMat -----------------------------
(***************************************************************************)
(* C06, first half -- kernel matrices of linfa-kernel.                     *)
(*                                                                         *)
(* The kernel of records X (lattice points, integers) is a pure function;  *)
(* this module holds its defining relation as operators:                   *)
(*   KVal        the kernel function of two rows (fixed point, KS = 10^4)  *)
(*   PatOK       which pairs a sparse kernel with k neighbours stores      *)
(*               (ties at the k-th distance are never decided here)        *)
(*   ValsOK      stored values = kernel function, symmetric, Gaussian:     *)
(*               unit diagonal, positive semidefinite on {-1,0,1}^n        *)
(*   ViewsOK     size / column / diagonal / sum / upper triangle / dot are *)
(*               the corresponding functions of the held matrix            *)
(* and a bounded design model whose invariants are algebraic consequences  *)
(* of those definitions (checked by TLC on every point set of the model).  *)
(* Trace_KernelMat evaluates the same operators on what the real kernel    *)
(* holds and reports.                                                      *)
(***************************************************************************)
EXTENDS Elem, Geo, TLC

CONSTANTS MaxN,      \* design model: number of points 2..MaxN
          Coords,    \* design model: coordinate values
          Dim,       \* design model: dimension of the points
          NMeth      \* design model: how many of the listed kernel methods (1..5)

VARIABLES pts, kk, meth

kvars == <<pts, kk, meth>>

KS == 10000

-----------------------------------------------------------------------------
(* The kernel function.  m = [name, en, ed, c, d]: Gaussian bandwidth eps = en/ed,         *)
(* polynomial constant c and degree d.  Linear and polynomial values are exact integers;   *)
(* Gaussian values come from the self-checked table module Elem (error <= ElemErr units).  *)

RECURSIVE IPow(_, _)
IPow(b, d) == IF d = 0 THEN 1 ELSE b * IPow(b, d - 1)

\* Records are lattice points divided by a common denominator pd (pd = 1: integer records; pd = 2: halves),
\* P holds the integer numerators.  KRat = the kernel value times KS as an exact rational <<num, den>>
\* (for the Gaussian kernel: the table value, den = 1).
\* exp(-|x-y|^2 / eps) : the exponent in units of 1/ES
GaussArg(m, pd, x, y) == RoundDiv(L2sq(x, y) * m.ed * ES, m.en * pd * pd)

KRat(m, pd, x, y) ==
  CASE m.name = "linear" -> <<Dot(x, y) * KS, pd * pd>>
    [] m.name = "poly"   -> <<IPow(Dot(x, y) + m.c * pd * pd, m.d) * KS, IPow(pd, 2 * m.d)>>
    [] m.name = "gauss"  -> <<ExpNeg(GaussArg(m, pd, x, y)), 1>>
KVal(m, x, y) == KRat(m, 1, x, y)[1]         \* integer records: an integer

\* Polynomial kernels with a half-integer degree d/2 (m.dd = 2, m.d odd; m.dd = 1: the integer degree m.d).
\* With base B = bn/pd^2 (bn = <x,y> + c pd^2 >= 0) the value is bn^((d-1)/2) sqrt(bn) / pd^d.  sqrt(bn) comes from
\* the exact integer square root: SqrtLo(bn) = <<floor(sqrt(bn) KS/f), f>> (f = 1 for bn <= 21, else 10), so the value
\* times KS lies in [lonum/den, hinum/den]; both ends coincide when bn is a perfect square (the value is then exact).
\* A negative base with a fractional degree has no real value (powf gives NaN): such cases are never generated.
IsFrac(m) == m.name = "poly" /\ m.dd = 2
SqrtLo(bn) == IF bn <= 21 THEN <<Isqrt(bn * 100000000), 1>> ELSE <<Isqrt(bn * 1000000), 10>>
SqrtExact(bn, s) == s[1] * s[1] = bn * (KS \div s[2]) * (KS \div s[2])
FracBase(m, pd, x, y) == Dot(x, y) + m.c * pd * pd
\* <<lonum, hinum, den>> : lonum/den <= kernel value * KS <= hinum/den   (lonum = hinum for the exact kernels)
KBounds(m, pd, x, y) ==
  IF IsFrac(m)
    THEN LET bn == FracBase(m, pd, x, y)
             s  == SqrtLo(bn)
             w  == IPow(bn, (m.d - 1) \div 2) * s[2]
         IN <<w * s[1], w * (IF SqrtExact(bn, s) THEN s[1] ELSE s[1] + 1), IPow(pd, m.d)>>
    ELSE LET r == KRat(m, pd, x, y) IN <<r[1], r[1], r[2]>>
FracSafe(m, pd, x, y) == IsFrac(m) => (FracBase(m, pd, x, y) >= 0 /\ FracBase(m, pd, x, y) <= 2147)

\* allowance for |observed - KVal|: half a unit of quantisation, the table error, and for f32
\* the relative precision of the type (2^-24 per operation, a handful of operations)
ValSlack(m, ft, exact) ==
  (IF m.name = "gauss" THEN ElemErr + 2 ELSE 1) + (IF ft = "f32" THEN 2 + Abs(exact) \div 1000000 ELSE 0)

-----------------------------------------------------------------------------
(* Sparse pattern.  d_k(i) = k-th smallest squared distance from point i to another point. *)

\* (D = matrix of squared distances, dk = vector of d_k, both computed once per evaluation)
DistMat(P) == [i \in 1..Len(P) |-> [j \in 1..Len(P) |-> L2sq(P[i], P[j])]]
OthersOf(D, i) == [q \in 1..(Len(D) - 1) |-> D[i][IF q < i THEN q ELSE q + 1]]
DkVec(D, k) == [i \in 1..Len(D) |-> KthSmallest(OthersOf(D, i), k)]

\* j may be counted among the k nearest neighbours of i / must be counted (strictly nearer than the k-th)
MayNb(D, dk, i, j)  == D[i][j] <= dk[i]
MustNb(D, dk, i, j) == D[i][j] <  dk[i]

PatShape(n, pat)   == Len(pat) = n /\ \A i \in 1..n : Len(pat[i]) = n /\ \A j \in 1..n : pat[i][j] \in {0, 1}
PatDense(n, pat)   == \A i, j \in 1..n : pat[i][j] = 1
PatDiag(n, pat)    == \A i \in 1..n : pat[i][i] = 1
PatSym(n, pat)     == \A i, j \in 1..n : pat[i][j] = pat[j][i]
PatMay(D, dk, pat) == \A i, j \in 1..Len(D) : (i # j /\ pat[i][j] = 1) => (MayNb(D, dk, i, j) \/ MayNb(D, dk, j, i))
PatMust(D, dk, pat) == \A i, j \in 1..Len(D) : (i # j /\ (MustNb(D, dk, i, j) \/ MustNb(D, dk, j, i))) => pat[i][j] = 1
\* row i holds at least k neighbours of i itself
PatCount(D, dk, k, pat) == \A i \in 1..Len(D) :
                          Cardinality({j \in 1..Len(D) : j # i /\ pat[i][j] = 1 /\ MayNb(D, dk, i, j)}) >= k

\* names of the false clauses (empty set = the pattern is one the statement allows)
PatBad(P, k, pat) ==
  LET n == Len(P) IN
  IF ~PatShape(n, pat) THEN {"pat-shape"}
  ELSE IF k = 0 THEN (IF PatDense(n, pat) THEN {} ELSE {"pat-dense"})
  ELSE LET D == DistMat(P)
           dk == DkVec(D, k)
       IN (IF PatDiag(n, pat) THEN {} ELSE {"pat-diagonal"}) \cup
          (IF PatSym(n, pat) THEN {} ELSE {"pat-symmetric"}) \cup
          (IF PatMay(D, dk, pat) THEN {} ELSE {"pat-not-neighbours"}) \cup
          (IF PatMust(D, dk, pat) THEN {} ELSE {"pat-missing-pair"}) \cup
          (IF PatCount(D, dk, k, pat) THEN {} ELSE {"pat-fewer-than-k"})
PatOK(P, k, pat) == PatBad(P, k, pat) = {}

-----------------------------------------------------------------------------
(* Held values.  val[i][j] is the stored value (0 where nothing is stored). *)

ValsKernel(P, pd, m, ft, pat, val) ==
  \A i, j \in 1..Len(P) :
     IF pat[i][j] = 1
       THEN /\ FracSafe(m, pd, P[i], P[j])
            /\ LET b == KBounds(m, pd, P[i], P[j])
                    sl == ValSlack(m, ft, b[2] \div b[3]) * b[3]
                IN val[i][j] * b[3] >= b[1] - sl /\ val[i][j] * b[3] <= b[2] + sl
       ELSE val[i][j] = 0
ValsSym(P, val) == \A i, j \in 1..Len(P) : val[i][j] = val[j][i]
GaussUnitDiag(P, m, val) == m.name = "gauss" => \A i \in 1..Len(P) : val[i][i] = KS

\* test vectors for positive semidefiniteness: {-1,0,1}^n for n <= 5, else all supports of size <= 2
RECURSIVE SignVecs(_)
SignVecs(n) == IF n = 0 THEN {<<>>} ELSE {Append(v, s) : v \in SignVecs(n - 1), s \in {-1, 0, 1}}
SmallSupport(n) == {[q \in 1..n |-> IF q = a THEN sa ELSE IF q = b THEN sb ELSE 0] :
                      a, b \in 1..n, sa, sb \in {-1, 1}}
TestVecs(n) == IF n <= 5 THEN SignVecs(n) ELSE SmallSupport(n)
Quad(v, M) == SumSeq([i \in 1..Len(v) |-> v[i] * SumSeq([j \in 1..Len(v) |-> v[j] * M[i][j]])])
\* v'Kv >= 0 up to the representation error of the entries (slack per entry, n^2 entries)
PSDOn(n, M, slack) == LET MM == M IN \A v \in TestVecs(n) : Quad(v, MM) >= -(slack * n * n)
GaussPSD(P, m, k, ft, val) == (m.name = "gauss" /\ k = 0) => PSDOn(Len(P), val, 1 + (IF ft = "f32" THEN 1 ELSE 0))

ValsOK(P, pd, m, ft, k, pat, val) ==
  /\ ValsKernel(P, pd, m, ft, pat, val)
  /\ ValsSym(P, val)
  /\ GaussUnitDiag(P, m, val)
  /\ GaussPSD(P, m, k, ft, val)

-----------------------------------------------------------------------------
(* Views of the held matrix M (= val).  Copies are exact; sums carry the quantisation of  *)
(* their terms (half a unit each) and, for f32, the relative precision of the type.        *)

RowAbs(M, i) == SumSeq([j \in 1..Len(M) |-> Abs(M[i][j])])
RECURSIVE UTFrom(_, _)
UTFrom(M, i) == IF i >= Len(M) THEN <<>> ELSE SubSeq(M[i], i + 1, Len(M)) \o UTFrom(M, i + 1)
UpperTri(M) == UTFrom(M, 1)     \* row-major, column > row

SumSlack(n, ft, mag) == (n \div 2) + 1 + (IF ft = "f32" THEN 2 + mag \div 500000 ELSE 0)

ViewSize(n, o)  == o.size = n /\ o.nsamples = n /\ o.nfeatures = n
ViewCols(n, M, o) == Len(o.cols) = n /\ \A i \in 1..n : o.cols[i] = [j \in 1..n |-> M[j][i]]
ViewDiag(n, M, o) == o.diag = [i \in 1..n |-> M[i][i]]
ViewUT(n, M, o)   == o.ut = UpperTri(M)
ViewSum(n, M, ft, o) ==
  /\ Len(o.sum) = n
  /\ \A i \in 1..n : CloseI(o.sum[i], SumSeq(M[i]), SumSlack(n, ft, RowAbs(M, i)))
ViewDot(n, M, ft, rhs, o) ==
  LET w == IF Len(rhs) = 0 THEN 0 ELSE Len(rhs[1]) IN
  /\ o.dotshape = <<n, w>>
  /\ Len(o.dot) = n
  /\ \A i \in 1..n : /\ Len(o.dot[i]) = w
                     /\ \A cc \in 1..w :
                          LET ex  == SumSeq([j \in 1..n |-> M[i][j] * rhs[j][cc]])
                              mag == SumSeq([j \in 1..n |-> Abs(M[i][j] * rhs[j][cc])])
                              q   == SumSeq([j \in 1..n |-> Abs(rhs[j][cc])])
                          IN CloseI(o.dot[i][cc], ex, (q \div 2) + 1 + (IF ft = "f32" THEN 2 + mag \div 500000 ELSE 0))

ViewsOK(n, M, ft, rhs, o) ==
  /\ ViewSize(n, o) /\ ViewCols(n, M, o) /\ ViewDiag(n, M, o) /\ ViewUT(n, M, o)
  /\ ViewSum(n, M, ft, o) /\ ViewDot(n, M, ft, rhs, o)

-----------------------------------------------------------------------------
(* Bounded design model: every point sequence over Coords^Dim with 2..MaxN points, every   *)
(* neighbour count, a few kernel methods.  No transitions -- the invariants are algebraic  *)
(* consequences of the definitions above (guards against a wrong or vacuous relation).     *)

RECURSIVE Tuples(_, _)
Tuples(S, d) == IF d = 0 THEN {<<>>} ELSE {Append(t, x) : t \in Tuples(S, d - 1), x \in S}
Points == Tuples(Coords, Dim)
\* point sets are enumerated as multisets: sequences that are non-decreasing in the key PKey
PKey(p) == SumSeq([d \in 1..Len(p) |-> (p[d] + 8) * IPow(16, d - 1)])        \* injective for |coordinates| < 8
RECURSIVE SortedSeqs(_, _)
SortedSeqs(S, n) == IF n = 0 THEN {<<>>}
                    ELSE UNION {{Append(s, x) : x \in {y \in S : n = 1 \/ PKey(s[n - 1]) <= PKey(y)}} : s \in SortedSeqs(S, n - 1)}

MethodSeq == << [name |-> "linear", en |-> 1, ed |-> 1, c |-> 0, d |-> 1, dd |-> 1],
                [name |-> "gauss",  en |-> 1, ed |-> 2, c |-> 0, d |-> 0, dd |-> 1],
                [name |-> "gauss",  en |-> 2, ed |-> 1, c |-> 0, d |-> 0, dd |-> 1],
                [name |-> "poly",   en |-> 1, ed |-> 1, c |-> 1, d |-> 2, dd |-> 1],
                [name |-> "gauss",  en |-> 5, ed |-> 1, c |-> 0, d |-> 0, dd |-> 1] >>
Methods == {MethodSeq[q] : q \in 1..NMeth}

\* Init fixes the first point and the method; one Next step completes the point set and picks k
\* (so that TLC's workers share the enumeration).  All invariants are about completed states.
Init ==
  /\ pts \in SortedSeqs(Points, 1)
  /\ kk = 0
  /\ meth \in Methods

Complete ==
  /\ Len(pts) = 1
  /\ pts' \in {s \in UNION {SortedSeqs(Points, n) : n \in 2..MaxN} : s[1] = pts[1]}
  /\ kk' \in 0..(Len(pts') - 1)
  /\ meth' = meth

Next == Complete
Done == Len(pts) >= 2

N == Len(pts)
KMatOf(P, m) == [i \in 1..Len(P) |-> [j \in 1..Len(P) |-> KVal(m, P[i], P[j])]]
KMat == KMatOf(pts, meth)
DM == DistMat(pts)

\* the two extreme resolutions of ties: every candidate stored / own neighbours chosen by lowest index
PatFor(k2) == LET D == DM  dk == DkVec(D, k2) IN
              [i \in 1..N |-> [j \in 1..N |-> IF i = j \/ MayNb(D, dk, i, j) \/ MayNb(D, dk, j, i) THEN 1 ELSE 0]]
AllOnes == [i \in 1..N |-> [j \in 1..N |-> 1]]
FullPat == IF kk = 0 THEN AllOnes ELSE PatFor(kk)
OwnNbMat ==    \* own[i][j] = 1 iff j is one of the kk others nearest to i, ties broken by lowest index
  LET D == DM IN
  [i \in 1..N |-> [j \in 1..N |->
     IF i # j /\ Cardinality({l \in 1..N : l # i /\ (D[i][l] < D[i][j] \/ (D[i][l] = D[i][j] /\ l < j))}) + 1 <= kk
     THEN 1 ELSE 0]]
MinPat == IF kk = 0 THEN AllOnes
          ELSE LET own == OwnNbMat IN [i \in 1..N |-> [j \in 1..N |-> IF i = j \/ own[i][j] = 1 \/ own[j][i] = 1 THEN 1 ELSE 0]]
OneSided == LET own == OwnNbMat IN [i \in 1..N |-> [j \in 1..N |-> IF i = j \/ own[i][j] = 1 THEN 1 ELSE 0]]   \* not symmetrised
Masked(K, pat) == [i \in 1..N |-> [j \in 1..N |-> IF pat[i][j] = 1 THEN K[i][j] ELSE 0]]
NoTies == LET D == DM IN \A i \in 1..N : \A a, b \in 1..N : (a # i /\ b # i /\ a # b) => D[i][a] # D[i][b]
IsGauss == meth.name = "gauss"
\* the value invariants do not depend on k, the pattern invariants not on the method: each is evaluated once
\* per point set (k = 0 / first method) instead of for every combination
ValState == Done /\ kk = 0
PatState == Done /\ meth = MethodSeq[1]

InvSym        == ValState => LET K == KMat IN \A i, j \in 1..N : K[i][j] = K[j][i]
InvGaussDiag  == (ValState /\ IsGauss) => LET K == KMat IN \A i \in 1..N : K[i][i] = KS
InvGaussRange == (ValState /\ IsGauss) => LET K == KMat IN \A i, j \in 1..N : K[i][j] \in 0..KS
InvGaussMono  == (ValState /\ IsGauss) => LET K == KMat  D == DM IN
                    \A i, j, l \in 1..N : D[i][j] <= D[i][l] => K[i][j] >= K[i][l]
InvGaussPSD   == (ValState /\ IsGauss) => PSDOn(N, KMat, ElemErr + 1)
InvLinearPSD  == (ValState /\ meth.name = "linear") => PSDOn(N, KMat, 0)          \* Gram matrix: exact
InvPolyLinear == ValState => KMatOf(pts, [name |-> "poly", en |-> 1, ed |-> 1, c |-> 0, d |-> 1, dd |-> 1])
                           = KMatOf(pts, [name |-> "linear", en |-> 1, ed |-> 1, c |-> 0, d |-> 1, dd |-> 1])
\* the Gaussian kernel and the neighbour pattern are shift-invariant (cases may shift the records by a large offset
\* while the relation is evaluated on the un-shifted lattice points); the linear kernel is not
Shifted(by) == [i \in 1..N |-> [d \in 1..Len(pts[i]) |-> pts[i][d] + by]]
InvShift == ValState =>
  LET sh == Shifted(1000) IN
  /\ DistMat(sh) = DM
  /\ (IsGauss => KMatOf(sh, meth) = KMat)
  /\ (meth.name = "linear" => KMatOf(Shifted(1), meth) # KMat)
\* half-integer degrees: the bracket really brackets (squares compared exactly), is exact on perfect squares,
\* degree 1/2 squared is degree 1, degree 3/2 = base x degree 1/2, and records/2 scale the value by 2^-d
InvFrac == (ValState /\ meth.name = "linear") =>
  \A i, j \in 1..N : \A cc \in {0, 1, 2} :
     LET h(p) == [name |-> "poly", en |-> 1, ed |-> 1, c |-> cc, d |-> p, dd |-> 2]
         bn == Dot(pts[i], pts[j]) + cc
         b1 == KBounds(h(1), 1, pts[i], pts[j])
         b3 == KBounds(h(3), 1, pts[i], pts[j])
         b5 == KBounds(h(5), 1, pts[i], pts[j])
     IN bn >= 0 =>
        /\ b1[1] <= b1[2] /\ b1[2] - b1[1] <= 1 /\ b1[3] = 1
        /\ b1[1] * b1[1] <= bn * KS * KS /\ b1[2] * b1[2] >= bn * KS * KS
        /\ (\E r \in 0..5 : r * r = bn) => (b1[1] = b1[2] /\ b1[1] * b1[1] = bn * KS * KS)
        /\ b3 = <<bn * b1[1], bn * b1[2], 1>> /\ b5 = <<bn * bn * b1[1], bn * bn * b1[2], 1>>
        /\ KBounds(h(1), 2, pts[i], pts[j])[3] = 2 /\ KBounds(h(3), 2, pts[i], pts[j])[3] = 8
\* the pattern relation is satisfiable under both tie resolutions, and decides everything without ties
InvPatFull     == PatState => PatOK(pts, kk, FullPat)
InvPatMin      == PatState => PatOK(pts, kk, MinPat)
InvPatUnique   == (PatState /\ kk > 0 /\ NoTies) => FullPat = MinPat
InvPatOneSided == (PatState /\ kk > 0) => LET one == OneSided IN one # MinPat => ~PatOK(pts, kk, one)  \* not symmetrised: rejected
InvPatKPlus    == (PatState /\ kk > 0 /\ kk + 1 < N /\ NoTies) =>        \* k+1 or k-1 neighbours are rejected
                   LET full == FullPat  more == PatFor(kk + 1)
                   IN /\ (more # full => ~PatOK(pts, kk, more))
                      /\ (kk > 1 => LET less == PatFor(kk - 1) IN less # full => ~PatOK(pts, kk, less))
\* the views are tied together: total of the row sums = diagonal + twice the upper triangle ; K.I = K
InvViews == Done =>
  LET pat == MinPat
      M == Masked(KMat, pat)
      idm == [i \in 1..N |-> [j \in 1..N |-> IF i = j THEN 1 ELSE 0]]
      o == [size |-> N, nsamples |-> N, nfeatures |-> N,
            cols |-> [i \in 1..N |-> [j \in 1..N |-> M[j][i]]],
            diag |-> [i \in 1..N |-> M[i][i]],
            ut |-> UpperTri(M),
            sum |-> [i \in 1..N |-> SumSeq(M[i])],
            dot |-> M, dotshape |-> <<N, N>>]
  IN /\ ViewsOK(N, M, "f64", idm, o)
     /\ Len(o.ut) = (N * (N - 1)) \div 2
     /\ SumSeq(o.sum) = SumSeq(o.diag) + 2 * SumSeq(o.ut)
     /\ ValsOK(pts, 1, meth, "f64", kk, pat, M)
=============================================================================
