-------------------------------- MODULE Pls --------------------------------
(***************************************************************************************************)
(* X02 -- partial least squares (algorithms/linfa-pls: PlsRegression, PlsCanonical, PlsCca,        *)
(* PlsSvd).                                                                                        *)
(*                                                                                                 *)
(* The training data are integer matrices X (n x p) and Y (n x q).  Everything the statement says  *)
(* is a relation between what the implementation publishes after `fit` (weights W, C; loadings     *)
(* P, Q; rotations R, Ry; coefficients B; centring / scaling vectors; the outputs of transform,    *)
(* inverse_transform and predict -- all observed as fixed-point integers, scale S) and the         *)
(* centred (and optionally standardised) data Xc, Yc, which this module derives from the integer   *)
(* input with a proven error of at most EX grid units per entry (1 without scaling, 2 with it:     *)
(* the standard deviation is irrational in general and obtained from an integer square root with   *)
(* one Newton step).                                                                               *)
(*                                                                                                 *)
(* No decomposition is computed here.  The relations CHECK the published decomposition against     *)
(* the NIPALS / SVD definitions (Wegelin 2000, section 4.1; the crate documentation):              *)
(*   shapes;  ||w_l|| = 1;  t_l = X_l w_l with X_l = Xc - SUM_{a<l} t_a p_a^T (scores definition); *)
(*   T = Xc R (rotations);  t_a . t_b = 0;  Xc - T P^T orthogonal to T and = 0 when k = rank Xc;   *)
(*   (w_l, c_l) is a singular pair of the deflated cross-product X_l^T Y_l, the dominant one for   *)
(*   the complete-SVD algorithm;  y side accordingly for the canonical deflation;  regression: Y   *)
(*   residual orthogonal to T;  B = R Q^T diag(y_std);  predict(Z) = (Z - mean)/std B + y_mean;    *)
(*   inverse_transform(T, U) = T P^T std + mean;  CCA (mode B): the stationarity of the            *)
(*   canonical-correlation power iteration.                                                        *)
(* Every clause is an integer inequality whose slack is computed from the quantisation errors of   *)
(* the operands (half a unit per observed number, EX per data entry, one unit per truncated        *)
(* product); there is no tuned tolerance except the 2 % dominance margin (a near-tie is a tie).     *)
(*                                                                                                 *)
(* Numerically degenerate fits (a score vector or a deflated cross-product that is zero up to the   *)
(* grid) are outside the statement: for them only shapes, centring vectors and the consistency of   *)
(* transform / predict / inverse_transform with the published matrices are demanded.                *)
(*                                                                                                 *)
(* The second half of the module is a bounded design model: data sets whose PLS1 decomposition is   *)
(* rational (orthogonal sign patterns, Pythagorean weights); the exact answer is computed with      *)
(* rational arithmetic, rounded to the grid, and TLC checks that the relation accepts it and its    *)
(* sign variants and rejects typical wrong answers.                                                 *)
(***************************************************************************************************)
EXTENDS Fx, TLC

CONSTANT Scale          \* fixed-point scale S (10000; must be a perfect square)

S    == Scale
Base == IF S = 10000 THEN 100 ELSE IF S = 100 THEN 10 ELSE Isqrt(S)    \* Base^2 = S
Lim  == 200 * S                                                        \* operands of MulF: |value| <= 200

-----------------------------------------------------------------------------
(* arithmetic *)

\* a*b/S truncated towards zero, exact floor of |a b| / S ; |a|, |b| <= Lim
MulF(a, b) ==
  LET aa == Abs(a)  bb == Abs(b)
      a1 == aa \div Base  a0 == aa % Base  b1 == bb \div Base  b0 == bb % Base
  IN Sgn(a) * Sgn(b) * (a1 * b1 + ((a1 * b0 + a0 * b1) * Base + a0 * b0) \div S)

Eag(s)  == s \o <<>>                                            \* force a lazily defined sequence
Eag2(M) == [i \in 1..Len(M) |-> M[i] \o <<>>] \o <<>>

DotF(a, b)  == SumSeq([j \in 1..Len(a) |-> MulF(a[j], b[j])])
AbsSum(s)   == SumSeq([j \in 1..Len(s) |-> Abs(s[j])])
MaxAbs(s)   == IF Len(s) = 0 THEN 0 ELSE MaxSeq([j \in 1..Len(s) |-> Abs(s[j])])
Col(M, l)   == [i \in 1..Len(M) |-> M[i][l]]
NCols(M)    == IF Len(M) = 0 THEN 0 ELSE Len(M[1])
MaxAbsM(M)  == IF Len(M) = 0 \/ NCols(M) = 0 THEN 0 ELSE MaxSeq([i \in 1..Len(M) |-> MaxAbs(M[i])])
IsMat(M, r, cc) == Len(M) = r /\ \A i \in 1..r : Len(M[i]) = cc
RoundDivS(a, b) == Sgn(a) * ((Abs(a) + b \div 2) \div b)            \* nearest integer to a/b, b > 0 (no doubling: |a| may be close to 2^31)

\* sqrt(N) * S for an integer 0 <= N, N * S < 2^31 : error <= 1.5 (exact when N is a perfect square)
SqrtF(N) ==
  IF N = 0 THEN 0
  ELSE LET y0 == Isqrt(N * S) IN y0 * Base + ((N * S - y0 * y0) * Base) \div (2 * y0)

\* determinant by Laplace expansion along the first row (sizes <= 4, small entries)
Minor(M, c) == [i \in 1..(Len(M) - 1) |-> [j \in 1..(Len(M) - 1) |-> M[i + 1][IF j < c THEN j ELSE j + 1]]]
RECURSIVE Det(_)
Det(M) ==
  IF Len(M) = 0 THEN 1
  ELSE IF Len(M) = 1 THEN M[1][1]
  ELSE SumSeq([c \in 1..Len(M) |-> (IF c % 2 = 1 THEN 1 ELSE -1) * M[1][c] * Det(Minor(M, c))])

\* increasing index sequences of length r over 1..m
RECURSIVE Choose(_, _, _)
Choose(r, lo, m) ==
  IF r = 0 THEN {<<>>}
  ELSE UNION {{<<a>> \o t : t \in Choose(r - 1, a + 1, m)} : a \in lo..m}
Sub(M, rows, cols) == [i \in 1..Len(rows) |-> [j \in 1..Len(cols) |-> M[rows[i]][cols[j]]]]
HasMinor(M, nr, nc, r) == \E rows \in Choose(r, 1, nr) : \E cols \in Choose(r, 1, nc) : Det(Sub(M, rows, cols)) # 0
\* exact rank of an integer nr x nc matrix (entries small enough for the determinants)
RankOf(M, nr, nc) ==
  LET m == Min2(nr, nc)
      rs == {r \in 1..m : HasMinor(M, nr, nc, r)}
  IN IF rs = {} THEN 0 ELSE MaxSet(rs)

-----------------------------------------------------------------------------
(* exact summary of the training data *)

ColSum(X, j) == SumSeq([i \in 1..Len(X) |-> X[i][j]])

\* one block (X or Y): column sums, n * (x - mean), n^2 * population variance, fixed-point centred-scaled copy
Block(X, w, scale) ==
  LET n  == Len(X)
      cs == Eag([j \in 1..w |-> ColSum(X, j)])
      A  == Eag2([i \in 1..n |-> [j \in 1..w |-> n * X[i][j] - cs[j]]])
      dn == Eag([j \in 1..w |-> SumSeq([i \in 1..n |-> A[i][j] * A[i][j]]) \div n])     \* n SUM x^2 - (SUM x)^2
      NN == Eag([j \in 1..w |-> dn[j] * n * (n - 1)])                                   \* std = sqrt(NN) / (n (n-1))
      rt == Eag([j \in 1..w |-> IF scale THEN SqrtF(NN[j]) ELSE 0])
      sd == Eag([j \in 1..w |-> IF scale /\ dn[j] > 0 THEN RoundDivS(rt[j], n * (n - 1)) ELSE S])
  IN [n |-> n, w |-> w, cs |-> cs, A |-> A, dn |-> dn, rt |-> rt, NN |-> NN,
      mean |-> Eag([j \in 1..w |-> RoundDivS(cs[j] * S, n)]),
      std  |-> sd,
      ex   |-> IF scale THEN 2 ELSE 1,
      rank |-> RankOf(A, n, w)]

\* (z - mean) / std of one row (training or unseen), fixed point, error <= ex
CenRow(b, scale, z) ==
  [j \in 1..b.w |->
     LET a == b.n * z[j] - b.cs[j] IN
     IF scale /\ b.dn[j] > 0
       THEN \* a (n-1) sqrt(NN) S / NN with sqrt(NN) S = rt = q NN + r : no product exceeds |a| (n-1) NN
            LET m == Abs(a) * (b.n - 1)
                q == b.rt[j] \div b.NN[j]
                r == b.rt[j] % b.NN[j]
            IN Sgn(a) * (m * q + (m * r + b.NN[j] \div 2) \div b.NN[j])
     ELSE RoundDivS(a * S, b.n)]
CenMat(b, scale, Z) == Eag2([i \in 1..Len(Z) |-> CenRow(b, scale, Z[i])])
\* error bound of CenMat for arbitrary rows: |a| (n-1) 1.5 / NN + 1/2 per entry (<= 2 for training rows, where
\* NN >= a^2 (n-1); an unseen row far from a low-variance column can be less exact)
CenErr(b, scale, Z) ==
  IF ~scale \/ Len(Z) = 0 \/ b.w = 0 THEN 1
  ELSE MaxSeq([i \in 1..Len(Z) |->
         MaxSeq([j \in 1..b.w |-> IF b.dn[j] > 0 THEN (3 * Abs(b.n * Z[i][j] - b.cs[j]) * (b.n - 1)) \div (2 * b.NN[j]) + 2 ELSE 1])])

\* n^2 * Xc^T Yc (without scaling) = A_x^T A_y : rank questions do not depend on the column scales
CrossInt(bx, by) == [j \in 1..bx.w |-> [cc \in 1..by.w |-> SumSeq([i \in 1..bx.n |-> bx.A[i][j] * by.A[i][cc]])]]

Summary(X, Y, p, q, scale) ==
  LET bx == Block(X, p, scale)
      byy == Block(Y, q, scale)
      n  == Len(X)
      ci == Eag2(CrossInt(bx, byy))
      m  == Min2(p, q)
      cm == MaxAbsM(ci)
  IN [n |-> n, p |-> p, q |-> q, scale |-> scale, bx |-> bx, by |-> byy,
      Xc |-> CenMat(bx, scale, X), Yc |-> CenMat(byy, scale, Y),
      c1zero |-> cm = 0,
      \* rank of the first cross-product = min(p, q), decided only where the minors fit in 31 bits
      c1full |-> IF m = 0 \/ cm = 0 THEN FALSE
                 ELSE IF m = 1 THEN TRUE
                 ELSE IF m = 2 /\ cm <= 30000 THEN HasMinor(ci, p, q, 2)
                 ELSE IF m = 3 /\ cm <= 700 THEN HasMinor(ci, p, q, 3)
                 ELSE FALSE]

-----------------------------------------------------------------------------
(* parameters: what `fit` must answer before any training *)

Generic == {"reg", "can", "cca"}
UpperBound(variant, n, p, q) == IF variant = "reg" THEN p ELSE Min2(n, Min2(p, q))
TolOk(tol)   == tol \in {"tight", "default", "zero"}
ParamErrs(variant, tol, maxit) ==
  IF variant \in Generic
    THEN (IF TolOk(tol) THEN {} ELSE {"tol"}) \cup (IF maxit = 0 THEN {"maxiter"} ELSE {})
    ELSE {}
\* every error that applies; the order of the checks is not prescribed
Applicable(variant, tol, maxit, n, p, q, k) ==
  ParamErrs(variant, tol, maxit)
    \cup (IF n < 2 THEN {"samples"} ELSE {})
    \cup (IF k < 1 \/ k > UpperBound(variant, n, p, q) THEN {"ncomp"} ELSE {})
RuntimeErrs == {"notconv", "constres", "linalg", "minmax", "linfa"}

\* the power method cannot fail here: one component, non-zero cross-product, and either the complete SVD
\* (cross-product of full rank) or a single target column (one exact step; needs max_iter >= 2)
MustSucceed(D, variant, algo, tol, maxit, k) ==
  \/ variant = "svd"
  \/ /\ k = 1 /\ ~D.c1zero /\ D.bx.rank >= 1 /\ D.by.rank >= 1
     /\ \/ algo = "svd" /\ D.c1full
        \/ algo = "nipals" /\ variant \in {"reg", "can"} /\ D.q = 1 /\ (maxit = -1 \/ maxit >= 2)

CheckWhy(variant, tol, maxit, ev) ==
  LET pe == ParamErrs(variant, tol, maxit) IN
  IF ev.ok /\ ev.err # "none" THEN "protocol"
  ELSE IF pe = {} THEN (IF ev.ok THEN "ok" ELSE "check-rejects-valid")
  ELSE IF ev.ok THEN "check-accepts-invalid"
  ELSE IF ev.err \in pe THEN "ok" ELSE "check-wrong-error"

FitWhy(D, variant, algo, tol, maxit, k, ev) ==
  LET ap == Applicable(variant, tol, maxit, D.n, D.p, D.q, k) IN
  IF ev.ok /\ (ev.err # "none" \/ ev.a # 0 \/ ev.b # 0) THEN "protocol"
  ELSE IF ap # {} THEN
       IF ev.ok THEN "fit-accepts-invalid-request"
       ELSE IF ev.err \notin ap THEN "fit-wrong-error"
       ELSE IF ev.err = "ncomp" /\ ~(ev.a = UpperBound(variant, D.n, D.p, D.q) /\ ev.b = k) THEN "ncomp-message"
       ELSE IF ev.err = "samples" /\ ev.a # D.n THEN "samples-message"
       ELSE "ok"
  ELSE IF ev.ok THEN "ok"
  ELSE IF ev.err \notin RuntimeErrs THEN "fit-rejects-valid-request"
  ELSE IF MustSucceed(D, variant, algo, tol, maxit, k) THEN "fit-fails-on-regular-data"
  ELSE "ok"

-----------------------------------------------------------------------------
(* the published model, generic variants.  o = observation record:                                *)
(*   k, xw, yw, xl, yl, xr, yr, co (matrices as rows), xmean, xstd, ymean, ystd, t, u             *)

Bounded(o) ==
  \A M \in {o.xw, o.yw, o.xl, o.yl, o.xr, o.yr, o.co, o.t, o.u} : MaxAbsM(M) <= Lim

ShapeWhy(D, k, m) ==
  IF m.sxw # <<D.p, k>> \/ ~IsMat(m.xw, D.p, k) THEN "shape-x-weights"
  ELSE IF m.syw # <<D.q, k>> \/ ~IsMat(m.yw, D.q, k) THEN "shape-y-weights"
  ELSE IF m.sxl # <<D.p, k>> \/ ~IsMat(m.xl, D.p, k) THEN "shape-x-loadings"
  ELSE IF m.syl # <<D.q, k>> \/ ~IsMat(m.yl, D.q, k) THEN "shape-y-loadings"
  ELSE IF m.sxr # <<D.p, k>> \/ ~IsMat(m.xr, D.p, k) THEN "shape-x-rotations"
  ELSE IF m.syr # <<D.q, k>> \/ ~IsMat(m.yr, D.q, k) THEN "shape-y-rotations"
  ELSE IF m.sco # <<D.p, D.q>> \/ ~IsMat(m.co, D.p, D.q) THEN "shape-coefficients"
  ELSE IF Len(m.xmean) # D.p \/ Len(m.xstd) # D.p \/ Len(m.ymean) # D.q \/ Len(m.ystd) # D.q THEN "shape-centring"
  ELSE "ok"

\* centring / scaling vectors: mean = column mean, std = sample standard deviation (ddof 1; 1 for a constant
\* column or without scaling)
CentreOk(b, mean, std) ==
  \A j \in 1..b.w : /\ Abs(mean[j] * b.n - b.cs[j] * S) <= b.n
                    /\ Abs(std[j] - b.std[j]) <= 2
CentreWhy(D, m) ==
  IF ~CentreOk(D.bx, m.xmean, m.xstd) THEN "x-mean-std"
  ELSE IF ~CentreOk(D.by, m.ymean, m.ystd) THEN "y-mean-std"
  ELSE "ok"

\* ---- residual tables -----------------------------------------------------------------------------
\* Res(M0, A, Bm, k)[l+1] = M0 - SUM_{a<=l} A[.,a] Bm[.,a]^T   (l = 0..k) ; A: scores (rows = samples), Bm: loadings
RECURSIVE ResTab(_, _, _, _, _)
ResTab(cur, A, Bm, l, k) ==
  IF l > k THEN <<>>
  ELSE LET nxt == Eag2([i \in 1..Len(cur) |-> [j \in 1..NCols(cur) |-> cur[i][j] - MulF(A[i][l], Bm[j][l])]])
       IN <<nxt>> \o ResTab(nxt, A, Bm, l + 1, k)
Res(M0, A, Bm, k) == <<M0>> \o ResTab(M0, A, Bm, 1, k)
\* error bound (grid units) of the entries of Res[l+1]
RECURSIVE ResErrTab(_, _, _, _, _)
ResErrTab(cur, A, Bm, l, k) ==
  IF l > k THEN <<>>
  ELSE LET nxt == cur + (MaxAbs(Col(A, l)) + MaxAbs(Col(Bm, l))) \div (2 * S) + 2
       IN <<nxt>> \o ResErrTab(nxt, A, Bm, l + 1, k)
ResErr(e0, A, Bm, k) == <<e0>> \o ResErrTab(e0, A, Bm, 1, k)

\* C = E^T F / S  (p x q) and the error bound of its entries
Cross(E, F) == Eag2([j \in 1..NCols(E) |-> [cc \in 1..NCols(F) |-> SumSeq([i \in 1..Len(E) |-> MulF(E[i][j], F[i][cc])])]])
CrossErr(E, F, eE, eF) ==
  LET ce == IF NCols(E) = 0 THEN 0 ELSE MaxSeq([j \in 1..NCols(E) |-> AbsSum(Col(E, j))])
      cf == IF NCols(F) = 0 THEN 0 ELSE MaxSeq([cc \in 1..NCols(F) |-> AbsSum(Col(F, cc))])
  IN (eF * ce + eE * cf) \div S + Len(E) + 1
FroSq(C) == SumSeq([j \in 1..Len(C) |-> DotF(C[j], C[j])])

\* ---- the clauses ---------------------------------------------------------------------------------
UnitOk(v) == Abs(DotF(v, v) - S) <= AbsSum(v) \div S + Len(v) + 1
OrthOk(a, b) == Abs(DotF(a, b)) <= (AbsSum(a) + AbsSum(b)) \div (2 * S) + Len(a) + 2

\* v = M w / S entry-wise, M known with error eM per entry, w and v observed (half a unit)
MatVecOk(M, eM, w, v) ==
  \A i \in 1..Len(M) :
     Abs(v[i] - DotF(M[i], w)) <= (eM * AbsSum(w)) \div S + AbsSum(M[i]) \div (2 * S) + Len(w) + 2

\* SUM_i a_i M[i][j] = 0 for every column j (a observed, M with error eM)
VecOrthMat(a, M, eM) ==
  \A j \in 1..NCols(M) :
     Abs(DotF(a, Col(M, j))) <= (eM * AbsSum(a)) \div S + AbsSum(Col(M, j)) \div (2 * S) + Len(a) + 2

ZeroMat(M, eM) == \A i \in 1..Len(M) : \A j \in 1..NCols(M) : Abs(M[i][j]) <= eM + 1

\* (w, c) is a singular pair of C (error dC per entry): C c parallel to w with a non-negative factor and
\* C^T w parallel to c  (c need not be normalised: regression mode publishes c = C^T w / (t.t))
SingPairOk(C, dC, w, c) ==
  LET p  == Len(w)
      q  == Len(c)
      a  == Eag([j \in 1..p |-> DotF(C[j], c)])                     \* C c
      ea == (dC * AbsSum(c)) \div S + (IF p = 0 THEN 0 ELSE MaxSeq([j \in 1..p |-> AbsSum(C[j])])) \div (2 * S) + q + 1
      sg == DotF(a, w)                                              \* sigma ||c||
      es == (ea * AbsSum(w)) \div S + AbsSum(a) \div (2 * S) + p + 1
      b  == Eag([cc \in 1..q |-> DotF(Col(C, cc), w)])              \* C^T w
      eb == (dC * AbsSum(w)) \div S + (IF q = 0 THEN 0 ELSE MaxSeq([cc \in 1..q |-> AbsSum(Col(C, cc))])) \div (2 * S) + p + 1
      ccn == DotF(c, c)
      ecc == AbsSum(c) \div S + q + 1
      bc == DotF(b, c)
      ebc == (eb * AbsSum(c)) \div S + AbsSum(b) \div (2 * S) + q + 1
  IN \/ ~(MaxAbs(a) <= Lim /\ MaxAbs(b) <= Lim /\ Abs(sg) <= Lim /\ ccn <= Lim /\ Abs(bc) <= Lim)   \* outside the arithmetic: not judged
     \/ /\ sg >= 0 - es
        /\ \A j \in 1..p : Abs(a[j] - MulF(sg, w[j])) <= ea + (es * Abs(w[j]) + Abs(sg) \div 2) \div S + 2
        /\ \A cc \in 1..q :
             Abs(MulF(b[cc], ccn) - MulF(bc, c[cc]))
               <= (eb * ccn + ecc * Abs(b[cc]) + ebc * Abs(c[cc]) + Abs(bc) \div 2) \div S + 3

\* w (an exact-enough singular vector of C) belongs to the largest singular value: the other eigenvalues of
\* M = C C^T are <= lambda = ||C^T w||^2 up to 2 % of the trace.  Decided for p <= 3 from the elementary
\* symmetric functions; only the necessary condition lambda >= trace / p beyond.  Skipped (TRUE) when the
\* estimate of C is too coarse for a 2 % decision.
DominantOk(C, dC, w) ==
  LET p   == Len(w)
      cm  == MaxAbsM(C)
      g   == Max2(1, cm \div 5000)
      Cg  == Eag2([j \in 1..p |-> [cc \in 1..NCols(C) |-> Sgn(C[j][cc]) * (Abs(C[j][cc]) \div g)]])
      M   == Eag2([a \in 1..p |-> [b \in 1..p |-> Dot(Cg[a], Cg[b])]])
      tr  == SumSeq([a \in 1..p |-> M[a][a]])
      h   == Max2(1, tr \div 20000)
      Mr  == Eag2([a \in 1..p |-> [b \in 1..p |-> Sgn(M[a][b]) * (Abs(M[a][b]) \div h)]])
      trr == SumSeq([a \in 1..p |-> Mr[a][a]])
      Mw  == Eag([a \in 1..p |-> Dot(Mr[a], w) \div S])
      lam == Dot(w, Mw) \div S
      s   == trr - lam
      e2  == IF p < 2 THEN 0
             ELSE SumSeq([a \in 1..(p - 1) |-> SumSeq([b \in 1..(p - a) |-> Mr[a][a] * Mr[a + b][a + b] - Mr[a][a + b] * Mr[a][a + b]])])
      d   == e2 - lam * s
      slk == trr \div 50 + 2
  IN IF cm < 100 * dC \/ cm < 1000 \/ trr < 1000 THEN TRUE
     ELSE IF p = 1 THEN TRUE
     ELSE IF p = 2 THEN lam >= s - slk
     ELSE IF p = 3 THEN /\ 2 * lam - s >= 0 - slk
                        /\ lam * lam - lam * s + d >= 0 - slk * trr
     ELSE p * lam >= trr - p * slk

\* CCA (mode B) stationarity of the power iteration: t = X_l w is the projection of u = Y_l c on the column
\* space of X_l up to a factor, and vice versa:  X_l^T (u (t.t) - t (t.u)) = 0,  Y_l^T (t (u.u) - u (t.u)) = 0
CcaPairOk(E, eE, F, eF, t, u) ==
  LET n  == Len(t)
      tt == DotF(t, t)
      uu == DotF(u, u)
      tu == DotF(t, u)
      ett == AbsSum(t) \div S + n + 1
      euu == AbsSum(u) \div S + n + 1
      etu == (AbsSum(t) + AbsSum(u)) \div (2 * S) + n + 1
      side(G, eG, a, b, aa, eaa, ab, eab) ==       \* G^T (b aa - a ab) = 0
        \A j \in 1..NCols(G) :
           LET gb == DotF(Col(G, j), b)
               ga == DotF(Col(G, j), a)
               egb == (eG * AbsSum(b)) \div S + AbsSum(Col(G, j)) \div (2 * S) + n + 1
               ega == (eG * AbsSum(a)) \div S + AbsSum(Col(G, j)) \div (2 * S) + n + 1
           IN \/ ~(Abs(gb) <= Lim /\ Abs(ga) <= Lim)
              \/ Abs(MulF(gb, aa) - MulF(ga, ab))
                   <= (egb * aa + eaa * Abs(gb) + ega * Abs(ab) + eab * Abs(ga)) \div S + 3
  IN \/ ~(tt <= Lim /\ uu <= Lim /\ Abs(tu) <= Lim)
     \/ /\ side(E, eE, t, u, tt, ett, tu, etu)
        /\ side(F, eF, u, t, uu, euu, tu, etu)

\* coefficients B = R Q^T diag(y_std)
CoefOk(o, ystd) ==
  \A j \in 1..Len(o.xr) : \A cc \in 1..Len(o.yl) :
     LET inner == DotF(o.xr[j], o.yl[cc])
         ei    == (AbsSum(o.xr[j]) + AbsSum(o.yl[cc])) \div (2 * S) + o.k + 1
     IN \/ Abs(inner) > Lim
        \/ Abs(o.co[j][cc] - MulF(inner, ystd[cc])) <= (ei * ystd[cc] + 2 * Abs(inner)) \div S + 3

\* ---- observation-based regularity of the fit ------------------------------------------------------
\* component l is regular when its score vectors and the deflated cross-product it was drawn from are well above
\* the grid (relative thresholds 10^-4 on squared norms).  Exactly degenerate data (rank exhausted, blocks
\* orthogonal) give zeros here; the implementation then works on rounding noise and nothing is demanded.
SqSum(M) == SumSeq([i \in 1..Len(M) |-> DotF(M[i], M[i])])

Tables(D, variant, o) ==
  LET k    == o.k
      canon == variant # "reg"
      E    == Res(D.Xc, o.t, o.xl, k)
      eE   == ResErr(D.bx.ex, o.t, o.xl, k)
      F    == IF canon THEN Res(D.Yc, o.u, o.yl, k) ELSE Res(D.Yc, o.t, o.yl, k)
      eF   == IF canon THEN ResErr(D.by.ex, o.u, o.yl, k) ELSE ResErr(D.by.ex, o.t, o.yl, k)
      C    == [l \in 1..k |-> Cross(E[l], F[l])] \o <<>>
      dC   == [l \in 1..k |-> CrossErr(E[l], F[l], eE[l], eF[l])] \o <<>>
  IN [E |-> E, eE |-> eE, F |-> F, eF |-> eF, C |-> C, dC |-> dC,
      xss |-> SqSum(D.Xc), yss |-> SqSum(D.Yc),
      css |-> [l \in 1..k |-> FroSq(C[l])] \o <<>>]

Regular(D, variant, o, tb) ==
  \* exact: the components exist (k within the ranks of the centred blocks, non-zero cross-product)
  /\ o.k <= D.bx.rank /\ (variant # "reg" => o.k <= D.by.rank) /\ D.by.rank >= 1 /\ ~D.c1zero
  \* observed: every score vector and deflated cross-product is well above the grid
  /\ tb.xss > 0 /\ tb.yss > 0 /\ tb.css[1] > 0
  /\ \A l \in 1..o.k :
       LET tt == DotF(Col(o.t, l), Col(o.t, l))
           uu == DotF(Col(o.u, l), Col(o.u, l))
       IN /\ tt >= 25 /\ tt >= tb.xss \div 10000 + 1
          /\ variant # "reg" => (uu >= 25 /\ uu >= tb.yss \div 10000 + 1)
          /\ tb.css[l] >= 100 /\ tb.css[l] >= tb.css[1] \div 10000 + 1
          /\ MaxAbsM(tb.C[l]) >= 20 * tb.dC[l]

\* ---- the structure clauses (regular fits) -----------------------------------------------------------
\* convergence-dependent clauses are demanded when the weights are exact: complete SVD, one-step power method
\* (a single column on either side), or the tight tolerance of the harness
Converged(D, algo, tol) == algo = "svd" \/ D.p = 1 \/ D.q = 1 \/ tol = "tight"

\* the complete SVD of a rank-deficient cross-product by linfa-linalg 0.1.0 can be wrong (deviation
\* "svd-rank-deficient"): components after the first, or a first cross-product that is not of full rank
SvdDev == "svd-rank-deficient"
SvdExcused(D, algo, l, devs) == SvdDev \in devs /\ algo = "svd" /\ (l >= 2 \/ ~D.c1full)
\* mode B (CCA, power method) takes pseudo-inverses of the deflated blocks through the same SVD: a block is rank
\* deficient after the first deflation, or from the start when its centred rank is below min(n, columns)
SvdExcusedB(D, l, devs) ==
  SvdDev \in devs /\ (l >= 2 \/ D.bx.rank < Min2(D.n, D.p) \/ D.by.rank < Min2(D.n, D.q))

StructWhy(D, variant, algo, tol, o, tb, devs) ==
  LET k == o.k
      canon == variant # "reg"
      modeA == variant \in {"reg", "can"} \/ algo = "svd"
      W(l) == Col(o.xw, l)
      Cw(l) == Col(o.yw, l)
      T(l) == Col(o.t, l)
      U(l) == Col(o.u, l)
  IN
  IF \E l \in 1..k : ~UnitOk(W(l)) THEN "x-weights-unit-norm"
  ELSE IF (canon \/ algo = "svd") /\ \E l \in 1..k : ~UnitOk(Cw(l)) THEN "y-weights-unit-norm"
  ELSE IF ~canon /\ algo = "nipals" /\ \E j \in 1..D.q : \E l \in 1..k : Abs(o.yw[j][l] - o.yl[j][l]) > 1 THEN "y-weights-regression"
  ELSE IF \E l \in 1..k : ~MatVecOk(tb.E[l], tb.eE[l], W(l), T(l)) THEN "x-scores-definition"
  ELSE IF canon /\ \E l \in 1..k : ~MatVecOk(tb.F[l], tb.eF[l], Cw(l), U(l)) THEN "y-scores-definition"
  ELSE IF \E l \in 1..k : \E l2 \in (l + 1)..k : ~OrthOk(T(l), T(l2)) THEN "x-scores-orthogonal"
  ELSE IF canon /\ \E l \in 1..k : \E l2 \in (l + 1)..k : ~OrthOk(U(l), U(l2)) THEN "y-scores-orthogonal"
  ELSE IF \E l \in 1..k : ~VecOrthMat(T(l), tb.E[k + 1], tb.eE[k + 1]) THEN "x-residual-orth"
  ELSE IF canon /\ \E l \in 1..k : ~VecOrthMat(U(l), tb.F[k + 1], tb.eF[k + 1]) THEN "y-residual-orth"
  ELSE IF ~canon /\ \E l \in 1..k : ~VecOrthMat(T(l), tb.F[k + 1], tb.eF[k + 1]) THEN "y-residual-orth-x"
  ELSE IF k = D.bx.rank /\ ~ZeroMat(tb.E[k + 1], tb.eE[k + 1]) THEN "x-recon-full-rank"
  ELSE IF canon /\ k = D.by.rank /\ ~ZeroMat(tb.F[k + 1], tb.eF[k + 1]) THEN "y-recon-full-rank"
  ELSE IF ~CoefOk(o, D.by.std) THEN "coefficients-definition"
  ELSE IF modeA /\ Converged(D, algo, tol)
          /\ \E l \in 1..k : ~SvdExcused(D, algo, l, devs) /\ ~SingPairOk(tb.C[l], tb.dC[l], W(l), Cw(l))
       THEN "weights-singular-pair"
  ELSE IF algo = "svd" /\ ~SvdExcused(D, algo, 1, devs) /\ ~DominantOk(tb.C[1], tb.dC[1], W(1)) THEN "weights-dominant"
  ELSE IF ~modeA /\ Converged(D, algo, tol)
          /\ \E l \in 1..k : ~SvdExcusedB(D, l, devs) /\ ~CcaPairOk(tb.E[l], tb.eE[l], tb.F[l], tb.eF[l], T(l), U(l))
       THEN "cca-stationarity"
  ELSE "ok"

\* ---- consistency of the methods with the published matrices (every finite fit) -----------------------
\* out = Zc Rm / S row by row (Zc centred rows with error ez)
ProjOk(Zc, ez, Rm, out) ==
  /\ IsMat(out, Len(Zc), NCols(Rm))
  /\ \A i \in 1..Len(Zc) : \A l \in 1..NCols(Rm) :
        Abs(out[i][l] - DotF(Zc[i], Col(Rm, l)))
          <= (ez * AbsSum(Col(Rm, l))) \div S + AbsSum(Zc[i]) \div (2 * S) + Len(Zc[i]) + 2

\* predict(Z) = Zc B + y_mean
PredictOk(Zc, ez, Bm, ymean, out) ==
  /\ IsMat(out, Len(Zc), NCols(Bm))
  /\ \A i \in 1..Len(Zc) : \A cc \in 1..NCols(Bm) :
        Abs(out[i][cc] - ymean[cc] - DotF(Zc[i], Col(Bm, cc)))
          <= (ez * AbsSum(Col(Bm, cc))) \div S + AbsSum(Zc[i]) \div (2 * S) + Len(Zc[i]) + 3

\* inverse_transform: out = A L^T std + mean   (A scores, L loadings)
InverseOk(A, L, mean, std, out) ==
  /\ IsMat(out, Len(A), Len(L))
  /\ \A i \in 1..Len(A) : \A j \in 1..Len(L) :
        LET inner == DotF(A[i], L[j])
            ei    == (AbsSum(A[i]) + AbsSum(L[j])) \div (2 * S) + Len(L[j]) + 1
        IN \/ Abs(inner) > Lim
           \/ Abs(out[i][j] - mean[j] - MulF(inner, std[j])) <= (ei * std[j] + 2 * Abs(inner)) \div S + 4

-----------------------------------------------------------------------------
(* PlsSvd: the k leading singular pairs of the first cross-product *)

SvdShapeWhy(D, k, m) ==
  IF m.sxw # <<D.p, k>> \/ ~IsMat(m.xw, D.p, k) THEN "shape-x-weights"
  ELSE IF m.syw # <<D.q, k>> \/ ~IsMat(m.yw, D.q, k) THEN "shape-y-weights"
  ELSE "ok"

SvdStructWhy(D, k, xw, yw, devs) ==
  LET C1  == Cross(D.Xc, D.Yc)
      dC  == CrossErr(D.Xc, D.Yc, D.bx.ex, D.by.ex)
      W(l) == Col(xw, l)
      Cw(l) == Col(yw, l)
      m   == Min2(D.p, D.q)
      lam == [l \in 1..k |-> LET b == [cc \in 1..D.q |-> DotF(Col(C1, cc), W(l))] IN DotF(b, b)] \o <<>>   \* sigma_l^2
      fro == FroSq(C1)
      rest == fro - SumSeq(lam)
      slk == fro \div 50 + 20
      excused == SvdDev \in devs /\ ~D.c1full
  IN
  IF \E l \in 1..k : ~UnitOk(W(l)) THEN "x-weights-unit-norm"
  ELSE IF \E l \in 1..k : ~UnitOk(Cw(l)) THEN "y-weights-unit-norm"
  ELSE IF \E l \in 1..k : \E l2 \in (l + 1)..k : ~OrthOk(W(l), W(l2)) THEN "x-weights-orthogonal"
  ELSE IF \E l \in 1..k : \E l2 \in (l + 1)..k : ~OrthOk(Cw(l), Cw(l2)) THEN "y-weights-orthogonal"
  ELSE IF excused \/ MaxAbsM(C1) < 100 * dC THEN "ok"
  ELSE IF \E l \in 1..k : ~SingPairOk(C1, dC, W(l), Cw(l)) THEN "weights-singular-pair"
  ELSE IF ~DominantOk(C1, dC, W(1)) THEN "weights-dominant"
  ELSE IF fro <= Lim /\ \E l \in 1..(k - 1) : lam[l + 1] > lam[l] + slk THEN "singular-values-order"
  ELSE IF fro <= Lim /\ rest > (m - k) * lam[k] + m * slk THEN "singular-values-leading"
  ELSE "ok"

-----------------------------------------------------------------------------
(* one-component equivalence: when the largest singular value of the cross-product is isolated            *)
(* (lambda_2 <= 3/4 lambda_1, certified by any of the published weight vectors), PlsRegression,             *)
(* PlsCanonical and PlsSvd give the same x-scores up to a common sign                                     *)

Isolated(C1, w) ==
  LET b   == [cc \in 1..NCols(C1) |-> DotF(Col(C1, cc), w)]
      lam == DotF(b, b)
      fro == FroSq(C1)
  IN fro <= Lim /\ lam >= 100 /\ 4 * (fro - lam) <= 3 * lam - fro \div 50 - 40

SameUpToSign(ta, tb2) ==
  \/ \A i \in 1..Len(ta) : Abs(ta[i][1] - tb2[i][1]) <= 3
  \/ \A i \in 1..Len(ta) : Abs(ta[i][1] + tb2[i][1]) <= 3

-----------------------------------------------------------------------------
(* Design model: closed-form PLS1 data sets.                                                             *)
(* X = [al * x1 + o1, be * x2 + o2] with the orthogonal sign patterns x1 = (1,1,-1,-1), x2 = (1,-1,1,-1),  *)
(* y = a x1 + b x2 + c x3 + o3, x3 = (1,-1,-1,1): then X^T y = (4 al a, 4 be b) and the weights are        *)
(* rational when (al a, be b) is a Pythagorean pair.  The exact NIPALS answer is computed with rational     *)
(* arithmetic, rounded to the grid, and offered to the relation together with wrong candidates.             *)

RECURSIVE Gcd(_, _)
Gcd(a, b) == IF b = 0 THEN Abs(a) ELSE Gcd(b, a % b)
RNorm(x) == LET g == Gcd(Abs(x[1]), x[2]) IN IF g = 0 THEN <<0, 1>> ELSE <<x[1] \div g, x[2] \div g>>
RI(i) == <<i, 1>>
\* sums over the least common denominator, products reduced crosswise before multiplying (keeps every
\* intermediate value as small as the result allows)
RAdd(x, y) == LET g == Gcd(x[2], y[2]) IN RNorm(<<x[1] * (y[2] \div g) + y[1] * (x[2] \div g), (x[2] \div g) * y[2]>>)
RSubt(x, y) == RAdd(x, <<0 - y[1], y[2]>>)
RMul(x, y) == LET g1 == Max2(1, Gcd(Abs(x[1]), y[2]))  g2 == Max2(1, Gcd(Abs(y[1]), x[2]))
              IN RNorm(<<(x[1] \div g1) * (y[1] \div g2), (x[2] \div g2) * (y[2] \div g1)>>)
RDiv(x, y) == IF y[1] > 0 THEN RMul(x, <<y[2], y[1]>>) ELSE RMul(x, <<0 - y[2], 0 - y[1]>>)
RECURSIVE RSum(_)
RSum(s) == IF s = <<>> THEN <<0, 1>> ELSE RAdd(Head(s), RSum(Tail(s)))
RDot(a, b) == RSum([j \in 1..Len(a) |-> RMul(a[j], b[j])])
\* nearest grid value of x = num/den by long division in base Base (S = Base^2); den < 2^31 / Base
RRound(x) == LET a  == Abs(x[1])  d == x[2]
                 q0 == a \div d            r0 == a % d
                 q1 == (r0 * Base) \div d  r1 == (r0 * Base) % d
                 q2 == (r1 * Base) \div d  r2 == (r1 * Base) % d
                 fl == q0 * S + q1 * Base + q2
             IN Sgn(x[1]) * (IF 2 * r2 >= d THEN fl + 1 ELSE fl)
IsSq(i) == Isqrt(i) * Isqrt(i) = i
RSqrt(x) == <<Isqrt(x[1]), Isqrt(x[2])>>                     \* exact when both are perfect squares
RIsSq(x) == x[1] >= 0 /\ IsSq(x[1]) /\ IsSq(x[2])

\* <<al, be, a, b, c, o1, o2, o3>> : (al a, be b) Pythagorean, al # be (two components exist), offsets o
DesignData == {<<1, 2, 3, 2, 1, 0, 0, 0>>, <<1, 2, 3, 2, 0, 5, -3, 2>>, <<2, 1, 2, 3, 1, 1, 1, 1>>,
               <<1, 3, 4, 1, 2, 0, 2, -1>>, <<1, 2, -3, 2, 1, 0, 1, 0>>, <<2, 1, -2, 3, 0, -1, 4, 2>>}

X1 == <<1, 1, -1, -1>>
X2 == <<1, -1, 1, -1>>
X3 == <<1, -1, -1, 1>>
DX(dd) == [i \in 1..4 |-> <<dd[1] * X1[i] + dd[6], dd[2] * X2[i] + dd[7]>>]
DY(dd) == [i \in 1..4 |-> <<dd[3] * X1[i] + dd[4] * X2[i] + dd[5] * X3[i] + dd[8]>>]

\* exact PLS1 (regression deflation, no scaling) with k components on centred rational data Xr (n x 2), yr (n)
\* returns the rational matrices; requires the weight norms to be rational (asserted by the invariant InvRational)
ExactStep(Xr, yr) ==
  LET n  == Len(Xr)
      wt == Eag([j \in 1..2 |-> RDot([i \in 1..n |-> Xr[i][j]], yr)])
      nn == RDot(wt, wt)
      nr == RSqrt(nn)
      w  == Eag([j \in 1..2 |-> RDiv(wt[j], nr)])
      t  == Eag([i \in 1..n |-> RDot(Xr[i], w)])
      tt == RDot(t, t)
      pl == Eag([j \in 1..2 |-> RDiv(RDot([i \in 1..n |-> Xr[i][j]], t), tt)])
      ql == RDiv(RDot(yr, t), tt)
  IN [w |-> w, t |-> t, p |-> pl, q |-> ql, sq |-> RIsSq(nn) /\ nn[1] > 0, tt |-> tt,
      Xn |-> Eag2([i \in 1..n |-> [j \in 1..2 |-> RSubt(Xr[i][j], RMul(t[i], pl[j]))]]),
      yn |-> Eag([i \in 1..n |-> RSubt(yr[i], RMul(t[i], ql))])]

\* the record is built by nested singleton-set bindings so that every intermediate value is computed once
Exact(dd0, k) ==
  LET X  == Eag2(DX(dd0))
      Y  == Eag2(DY(dd0))
      n  == 4
      mx == Eag([j \in 1..2 |-> <<ColSum(X, j), n>>])
      my == <<ColSum(Y, 1), n>>
      Xr == Eag2([i \in 1..n |-> [j \in 1..2 |-> RSubt(RI(X[i][j]), mx[j])]])
      yr == Eag([i \in 1..n |-> RSubt(RI(Y[i][1]), my)])
  IN CHOOSE r \in
       {LET s2 == ExactStep(s1.Xn, s1.yn)
            \* rotations: r1 = w1 ; r2 = w2 - r1 (p1 . w2)
            r1 == s1.w
            pw == RDot(s1.p, s2.w)
            r2 == Eag([j \in 1..2 |-> RSubt(s2.w[j], RMul(r1[j], pw))])
            qq == IF k = 1 THEN <<s1.q>> ELSE <<s1.q, s2.q>>
            qn == RDot(qq, qq)
            W  == Eag2([j \in 1..2 |-> IF k = 1 THEN <<s1.w[j]>> ELSE <<s1.w[j], s2.w[j]>>])
            P  == Eag2([j \in 1..2 |-> IF k = 1 THEN <<s1.p[j]>> ELSE <<s1.p[j], s2.p[j]>>])
            R  == Eag2([j \in 1..2 |-> IF k = 1 THEN <<r1[j]>> ELSE <<r1[j], r2[j]>>])
            T  == Eag2([i \in 1..n |-> IF k = 1 THEN <<s1.t[i]>> ELSE <<s1.t[i], s2.t[i]>>])
            \* y rotations = C (Q^T C)^+ with C = Q (1 x k): q / ||q||^2
            Ry == <<Eag([l \in 1..k |-> IF qn[1] = 0 THEN <<0, 1>> ELSE RDiv(qq[l], qn)])>>
            Bc == Eag2([j \in 1..2 |-> <<RDot(R[j], qq)>>])
        IN [ok |-> s1.sq /\ s1.tt[1] > 0 /\ (k = 1 \/ (s2.sq /\ s2.tt[1] > 0)),
            X |-> X, Y |-> Y, k |-> k, mx |-> mx, my |-> my, Xr |-> Xr, yr |-> yr,
            W |-> W, Cq |-> <<qq>>, P |-> P, Q |-> <<qq>>, R |-> R, Ry |-> Ry, B |-> Bc, T |-> T,
            U |-> Eag2([i \in 1..n |-> [l \in 1..k |-> RMul(yr[i], Ry[1][l])]])]
          : s1 \in {ExactStep(Xr, yr)}} : TRUE

RMat(M) == Eag2([i \in 1..Len(M) |-> [j \in 1..Len(M[i]) |-> RRound(M[i][j])]])

\* the observation record of the exact answer, with a candidate transformation applied
\*   "exact"  the answer ; "flip1" / "flip2" component 1 / 2 with the opposite sign (equally valid)
\*   wrong ones: "w-off" one weight entry moved by 12 grid units + 1 %, "no-rot" rotations = weights (k = 2),
\*   "t-double" scores doubled, "p-undeflated" second loading taken from the undeflated X (k = 2),
\*   "swap" components exchanged (k = 2), "w-unnormalised" weights not normalised
Cands == {"exact", "flip1", "flip2", "w-off", "no-rot", "t-double", "p-undeflated", "swap", "w-unnormalised", "coef-no-q"}
ValidCands == {"exact", "flip1", "flip2"}

FlipCol(M, l) == [i \in 1..Len(M) |-> [j \in 1..Len(M[i]) |-> IF j = l THEN 0 - M[i][j] ELSE M[i][j]]]
SwapCols(M) == [i \in 1..Len(M) |-> <<M[i][2], M[i][1]>>]

ObsOf(ex, cand) ==
  LET k  == ex.k
      o0 == [k |-> k, xw |-> RMat(ex.W), yw |-> RMat(ex.Cq), xl |-> RMat(ex.P), yl |-> RMat(ex.Q),
             xr |-> RMat(ex.R), yr |-> RMat(ex.Ry), co |-> RMat(ex.B), t |-> RMat(ex.T), u |-> RMat(ex.U)]
      fl(o, l) == [o EXCEPT !.xw = FlipCol(@, l), !.yw = FlipCol(@, l), !.xl = FlipCol(@, l), !.yl = FlipCol(@, l),
                            !.xr = FlipCol(@, l), !.yr = FlipCol(@, l), !.t = FlipCol(@, l), !.u = FlipCol(@, l)]
  IN CASE cand = "exact" -> o0
       [] cand = "flip1" -> fl(o0, 1)
       [] cand = "flip2" -> IF k = 2 THEN fl(o0, 2) ELSE o0
       [] cand = "w-off" -> [o0 EXCEPT !.xw[1][1] = @ + 12 + S \div 100]
       [] cand = "no-rot" -> [o0 EXCEPT !.xr = o0.xw]
       [] cand = "t-double" -> [o0 EXCEPT !.t = [i \in 1..Len(o0.t) |-> [l \in 1..k |-> 2 * o0.t[i][l]]]]
       [] cand = "p-undeflated" ->
            IF k = 1 THEN o0
            ELSE LET t2 == [i \in 1..4 |-> ex.T[i][2]]
                     tt == RDot(t2, t2)
                     pu == [j \in 1..2 |-> RRound(RDiv(RDot([i \in 1..4 |-> ex.Xr[i][j]], t2), tt)) + (IF j = 1 THEN 15 ELSE 0)]
                 IN [o0 EXCEPT !.xl = [j \in 1..2 |-> <<o0.xl[j][1], pu[j]>>]]
       [] cand = "swap" -> IF k = 1 THEN o0
                           ELSE [o0 EXCEPT !.xw = SwapCols(@), !.xl = SwapCols(@), !.xr = SwapCols(@), !.t = SwapCols(@)]
       [] cand = "w-unnormalised" -> [o0 EXCEPT !.xw = [j \in 1..2 |-> [l \in 1..k |-> IF l = 1 THEN 2 * o0.xw[j][l] ELSE o0.xw[j][l]]]]
       [] cand = "coef-no-q" -> [o0 EXCEPT !.co = [j \in 1..2 |-> <<o0.xr[j][1]>>]]

\* a candidate is a no-op on some data (k = 1 for the two-component candidates, ...)
Unchanged(ex, cand) == ObsOf(ex, cand) = ObsOf(ex, "exact") \/ ObsOf(ex, cand) = ObsOf(ex, "flip1") \/ ObsOf(ex, cand) = ObsOf(ex, "flip2")

\* the relation as the trace specification applies it to a successful regular regression fit
Judge(D, o) ==
  LET tb == Tables(D, "reg", o) IN
  IF ~Bounded(o) THEN "unbounded"
  ELSE IF ~ProjOk(D.Xc, D.bx.ex, o.xr, o.t) THEN "transform-x"
  ELSE IF ~ProjOk(D.Yc, D.by.ex, o.yr, o.u) THEN "transform-y"
  ELSE IF ~Regular(D, "reg", o, tb) THEN "not-regular"
  ELSE StructWhy(D, "reg", "nipals", "tight", o, tb, {})

VARIABLES dd, kk, cand,
          exv,      \* the exact answer Exact(dd, kk), computed once in DInit
          dsum      \* the data summary of the design data set
dvars == <<dd, kk, cand, exv, dsum>>

DInit == /\ dd \in DesignData /\ kk \in {1, 2} /\ cand = "exact"
         /\ exv = Exact(dd, kk)
         /\ dsum = Summary(DX(dd), DY(dd), 2, 1, FALSE)
NextCand == /\ cand' \in Cands \ {cand} /\ cand = "exact"
            /\ UNCHANGED <<dd, kk, exv, dsum>>
DNext == NextCand
DSpec == DInit /\ [][DNext]_dvars

DEx == exv
DSum == dsum

\* the closed form really is rational on every generated data set (otherwise the model is vacuous)
InvRational == DEx.ok
\* exact consequences of the definition, in rational arithmetic
InvExactOrth == kk = 2 => RDot([i \in 1..4 |-> DEx.T[i][1]], [i \in 1..4 |-> DEx.T[i][2]]) = <<0, 1>>
InvExactRot  == \A i \in 1..4 : \A l \in 1..kk : RDot(DEx.Xr[i], [j \in 1..2 |-> DEx.R[j][l]]) = DEx.T[i][l]
InvExactRecon == kk = 2 => \A i \in 1..4 : \A j \in 1..2 : RDot(DEx.T[i], DEx.P[j]) = DEx.Xr[i][j]
\* the relation accepts the rounded exact answer and its sign variants, rejects the wrong candidates
InvAccept == cand \in ValidCands => Judge(DSum, ObsOf(DEx, cand)) = "ok"
InvReject == (cand \notin ValidCands /\ ~Unchanged(DEx, cand)) => Judge(DSum, ObsOf(DEx, cand)) # "ok"
\* the data summary agrees with the exact centred data
InvCentre == \A i \in 1..4 : \A j \in 1..2 : Abs(DSum.Xc[i][j] - RRound(DEx.Xr[i][j])) <= 1
=============================================================================
