-------------------------- MODULE XC_DTreeIterRef --------------------------
(***************************************************************************)
(* X08 cross-check, original side: TLC explores specs/DTreeIntro.tla       *)
(* (DTree.Grow / Prune builds every tree of the bounded domain, then the   *)
(* NodeIter machine runs) and checks that its iterator IS the machine of   *)
(* specs/DTreeIterInd.tla under the mapping                                *)
(*   node path -> heap number Id (root 1, children 2p / 2p + 1),           *)
(*   tree <- the heap numbers of `nodes`, st <- it.st,                     *)
(*   buf <- the heap numbers of it.out \o it.q padded with 0,              *)
(*   hd <- Len(it.out) + 1, tl <- Len(it.out \o it.q) + 1,                 *)
(*   M <- 2^MaxN - 1 (a tree on n samples has depth <= n - 1):             *)
(*   RefinesInd  every behaviour is a behaviour of DTreeIterInd            *)
(*   IndHolds    IndInv and Safety of DTreeIterInd hold in every state     *)
(*   IdOrderIsLevelOrder  the numerical order of the heap numbers is       *)
(*               DTreeIntro.LevelLess, and the sorted heap numbers are     *)
(*               LevelOrder(nodes) -- so DTreeIterInd.InvPrefix/InvCanon   *)
(*               say what DTreeIntro.InvIterPrefix/InvIterCanon say        *)
(* and prints the states with a running / finished iterator ("ST" lines).  *)
(* With IndVariant # "ok" RefinesInd must fail (the property has teeth).   *)
(***************************************************************************)
EXTENDS DTreeIntro, Json

CONSTANT IndVariant

RECURSIVE Id(_)
Id(p) == IF p = <<>> THEN 1 ELSE 2 * Id(Parent(p)) + p[Len(p)]

MM == 2 ^ MaxN - 1
OQ == it.out \o it.q
TreeIds == {Id(nd.path) : nd \in nodes}
BufOf == [k \in 1..MM |-> IF k <= Len(OQ) THEN Id(OQ[k]) ELSE 0]

Ind == INSTANCE DTreeIterInd WITH M <- MM, Variant <- IndVariant, tree <- TreeIds, st <- it.st, buf <- BufOf,
                                  hd <- Len(it.out) + 1, tl <- Len(OQ) + 1

XSpec == XInit /\ [][XNext]_xvars
RefinesInd == Ind!Spec
IndHolds == Ind!IndInv /\ Ind!Safety
IdOrderIsLevelOrder ==
  Done =>
    /\ \A p \in PathsOf(nodes) : \A r \in PathsOf(nodes) : LevelLess(p, r) <=> Id(p) < Id(r)
    /\ LET lo == LevelOrder(nodes) IN \A k \in 1..(Len(lo) - 1) : Id(lo[k]) < Id(lo[k + 1])
CanonAgrees == it.st = "end" => it.out = LevelOrder(nodes)

Vec(s) == [i \in 1..MM |-> IF i \in s THEN 1 ELSE 0]
Emit == it.st # "idle" => PrintT("ST " \o ToJson([tree |-> Vec(TreeIds), st |-> it.st, buf |-> BufOf, hd |-> Len(it.out) + 1, tl |-> Len(OQ) + 1]))
=============================================================================
