----------------------------- MODULE Gen_X09Ball -----------------------------
(* Case generator for the ball-tree part of X09: the lattice case families of C07 (Gen_NN:      *)
(* point sequences on doubled lattices x query x metric, scales 1 / 4 / 16), restricted to the   *)
(* metrics with an integer reduced form (l1, l2, linf), each expanded into single *queries*:      *)
(* one ball-tree session (constructor, float type, leaf size, memory layout) x one k or radius.   *)
(* A query is kept when its hash falls on the sample selector (QStride, QPhase): the quick tier  *)
(* validates a seeded 1/QStride sample of the product, stride 1 is the whole product.            *)
EXTENDS Gen_NN

CONSTANTS QStride, QPhase

M3 == {"l1", "l2", "linf"}
BallKinds == {"ball", "ball_d", "ball_n"}

\* sessions of the C07 case that search a ball tree (leaf size 0 = malformed build, left to C07)
BallSess(cs) == {j \in 1..Len(cs.inp.sess) : cs.inp.sess[j].ix \in BallKinds /\ cs.inp.sess[j].leaf # 0}

Query(cs, j, md, k, r) ==
  LET s == cs.inp.sess[j] IN
  [kind |-> "ballq",
   inp |-> [n |-> cs.inp.n, dim |-> cs.inp.dim, sc |-> cs.inp.sc, pts |-> cs.inp.pts, q |-> cs.inp.q, metric |-> cs.inp.metric,
            ix |-> s.ix, ft |-> s.ft, leaf |-> s.leaf, lay |-> s.lay, mode |-> md, k |-> k, r8 |-> r]]

QKeep(h, j, x) == QStride = 1 \/ (h + 7 * j + 13 * x) % QStride = QPhase % QStride

XEmitCase(cs, h) ==
  /\ \A j \in BallSess(cs) : \A x \in 1..Len(cs.inp.ks) :
        (QKeep(h, j, x) /\ cs.inp.ks[x] >= 0) => PrintT("CASE " \o ToJson(Query(cs, j, "knn", cs.inp.ks[x], -1)))
  /\ \A j \in BallSess(cs) : \A x \in 1..Len(cs.inp.r8s) :
        QKeep(h, j, 50 + x) => PrintT("CASE " \o ToJson(Query(cs, j, "range", -1, cs.inp.r8s[x])))

XEmit ==
  (case.inp.dim > 0 /\ case.inp.metric \in M3) =>
     XEmitCase(case, Hash(case.inp.pts, case.inp.q, case.inp.metric, case.inp.sc))
=============================================================================
