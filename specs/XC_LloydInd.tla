----------------------------- MODULE XC_LloydInd -----------------------------
(***************************************************************************)
(* X08 cross-check, typed side: TLC explores specs/LloydInd.tla with the   *)
(* run inertias drawn from 0..2 (LloydInd itself draws them from Int) and  *)
(* checks IndInv and Safety on all reachable states.                       *)
(***************************************************************************)
EXTENDS LloydInd, TLC

TEndRun == \E v \in 0..2 : EndRunV(v)
TNext == StartRun \/ Iterate \/ TEndRun \/ Publish
=============================================================================
