------------------------- MODULE DTreeIterIndProofs -------------------------
(***************************************************************************)
(* X08 (2, unbounded) -- TLAPS proof that IndInv of specs/DTreeIterInd.tla *)
(* (level-order node iterator over heap-numbered binary trees) is          *)
(* inductive and implies Safety for an ARBITRARY bound M \in Nat on the    *)
(* heap numbers, i.e. for every finite binary tree, full or not:           *)
(*   IndInit  Init => IndInv                                               *)
(*   IndStep  IndInv /\ [Next]_vars => IndInv'                             *)
(*   IndSafe  IndInv => Safety  (out \o q is a prefix of the level order,  *)
(*            at the end everything was yielded, parents are popped before *)
(*            their children are yielded)                                  *)
(*   Correct  Spec => []Safety                                             *)
(* Proved for the design Variant = "ok" (assumption VariantOk);            *)
(* props/x08.py re-runs the script with the assumption replaced by a       *)
(* seeded design bug, and it must then fail.                               *)
(***************************************************************************)
EXTENDS DTreeIterInd, NaturalsInduction, TLAPS

ASSUME MNat == M \in Nat
ASSUME VariantOk == Variant = "ok"

THEOREM IndInit == Init => IndInv
  BY MNat DEF Init, IndInv, TypeOk, Active, Zero, Idx

THEOREM IndSafe == IndInv => Safety
<1> SUFFICES ASSUME IndInv PROVE Safety
  OBVIOUS
<1> USE MNat
<1>1. CASE ~Active
  BY <1>1 DEF Safety, InvPrefix, InvCanon, InvParentsPopped, Active
<1>2. CASE Active
  <2>0. /\ tree \subseteq Idx /\ buf \in [Idx -> 0..M] /\ hd \in 1..(M + 1) /\ tl \in 2..(M + 1) /\ hd <= tl
        /\ IsTree(tree) /\ buf[1] = 1 /\ Frontier \in Int
        /\ \A k \in Idx : k < tl => (buf[k] \in tree /\ buf[k] >= k /\ buf[k] < Frontier /\ buf[k] \in Int)
        /\ \A j \in Idx : \A k \in Idx : (j < k /\ k < tl) => buf[j] < buf[k]
        /\ \A x \in tree : x < Frontier => \E k \in Idx : k < tl /\ buf[k] = x
        /\ st = "end" => hd = tl
    <3>1. (tl - 1) \in Idx /\ hd \in Int /\ tl \in Int
      BY <1>2 DEF IndInv, TypeOk, Idx
    <3>2. hd < tl => hd \in Idx
      BY <1>2, <3>1 DEF IndInv, TypeOk, Idx
    <3>3. Frontier \in Int
      BY <1>2, <3>1, <3>2 DEF IndInv, TypeOk, Frontier, Idx
    <3> QED BY <1>2, <3>3 DEF IndInv, TypeOk, Idx
  <2>a. \A x \in tree : x > 1 => \E q \in tree : x = 2 * q \/ x = 2 * q + 1
    BY <2>0 DEF IsTree
  <2>b. \A x \in tree : x \in Int /\ x >= 1
    BY <2>0 DEF Idx
  <2>1. InvPrefix
    <3>1. \A x \in tree : \A k \in Idx : (k < tl /\ x < buf[k]) => \E j \in Idx : j < k /\ buf[j] = x
      <4> SUFFICES ASSUME NEW x \in tree, NEW k \in Idx, k < tl, x < buf[k] PROVE \E j \in Idx : j < k /\ buf[j] = x
        OBVIOUS
      <4>1. x < Frontier
        BY <2>0, <2>b
      <4>2. PICK j \in Idx : j < tl /\ buf[j] = x
        BY <4>1, <2>0
      <4>3. j < k
        <5>1. CASE j = k
          BY <5>1, <4>2, <2>b
        <5>2. CASE k < j
          BY <5>2, <4>2, <2>0, <2>b
        <5> QED BY <5>1, <5>2 DEF Idx
      <4> QED BY <4>2, <4>3
    <3> QED BY <3>1, <2>0, <1>2 DEF InvPrefix
  <2>2. InvParentsPopped
    <3> SUFFICES ASSUME NEW k \in Idx, k < tl, buf[k] > 1
                 PROVE \E j \in Idx : j < k /\ j < hd /\ (buf[k] = 2 * buf[j] \/ buf[k] = 2 * buf[j] + 1)
      BY <1>2 DEF InvParentsPopped
    <3>1. PICK q \in tree : buf[k] = 2 * q \/ buf[k] = 2 * q + 1
      BY <2>0, <2>a
    <3>2. q \in Int /\ q >= 1 /\ q < buf[k] /\ q < Frontier
      BY <3>1, <2>0, <2>b
    <3>3. PICK j \in Idx : j < tl /\ buf[j] = q
      BY <3>2, <2>0
    <3>4. j < k
      <4>1. CASE j = k
        BY <4>1, <3>3, <3>2
      <4>2. CASE k < j
        BY <4>2, <3>3, <3>2, <2>0
      <4> QED BY <4>1, <4>2 DEF Idx
    <3>5. j < hd
      <4>1. CASE hd = tl
        BY <4>1, <3>3
      <4>2. CASE hd # tl
        <5>1. hd \in Idx /\ hd < tl /\ Frontier = 2 * buf[hd]
          BY <4>2, <2>0 DEF Frontier, Idx
        <5>2. q < buf[hd]
          BY <5>1, <3>1, <3>2, <2>0
        <5>3. CASE j = hd
          BY <5>3, <5>2, <3>3, <3>2
        <5>4. CASE hd < j
          BY <5>4, <5>1, <5>2, <3>3, <3>2, <2>0
        <5> QED BY <5>3, <5>4, <5>1 DEF Idx
      <4> QED BY <4>1, <4>2
    <3> QED BY <3>1, <3>3, <3>4, <3>5
  <2>3. InvCanon
    <3> SUFFICES ASSUME st = "end" PROVE hd = tl /\ \A x \in tree : \E k \in Idx : k < hd /\ buf[k] = x
      BY DEF InvCanon
    <3>1. hd = tl /\ (tl - 1) \in Idx /\ Frontier = 2 * buf[tl - 1] + 2 /\ buf[tl - 1] \in Int
      BY <2>0 DEF Frontier, Idx
    <3>2. \A k \in Idx : k < tl => buf[k] <= buf[tl - 1]
      BY <3>1, <2>0 DEF Idx
    \* every node of the tree lies below the frontier: induction on the heap number
    <3> DEFINE R(n) == \A m \in 0..n : (m \in tree => m < Frontier)
    <3>3. \A n \in Nat : R(n)
      <4>1. R(0)
        BY <2>b
      <4>2. \A n \in Nat : R(n) => R(n + 1)
        <5> SUFFICES ASSUME NEW n \in Nat, R(n), NEW x \in 0..(n + 1), x \in tree PROVE x < Frontier
          OBVIOUS
        <5>0. CASE x <= n
          BY <5>0
        <5>1. CASE x = n + 1 /\ x = 1
          <6>1. 1 \in Idx /\ 1 < tl
            BY <2>0 DEF Idx
          <6> QED BY <5>1, <6>1, <2>0
        <5>2. CASE x = n + 1 /\ x # 1
          <6>1. x > 1
            BY <5>2, <2>b
          <6>2. PICK q \in tree : x = 2 * q \/ x = 2 * q + 1
            BY <6>1, <2>a
          <6>3. q \in 0..n
            BY <6>2, <5>2, <2>b
          <6>4. q < Frontier
            BY <6>3, <6>2
          <6>5. PICK k \in Idx : k < tl /\ buf[k] = q
            BY <6>4, <2>0
          <6>6. q <= buf[tl - 1]
            BY <6>5, <3>2
          <6> QED BY <6>2, <6>6, <3>1, <2>b
        <5> QED BY <5>0, <5>1, <5>2
      <4> HIDE DEF R
      <4> QED BY <4>1, <4>2, NatInduction, Isa
    <3>4. \A x \in tree : \E k \in Idx : k < hd /\ buf[k] = x
      <4> SUFFICES ASSUME NEW x \in tree PROVE \E k \in Idx : k < hd /\ buf[k] = x
        OBVIOUS
      <4>1. x \in Nat
        BY <2>b
      <4>2. x < Frontier
        BY <4>1, <3>3
      <4> QED BY <4>2, <3>1, <2>0
    <3> QED BY <3>1, <3>4
  <2> QED BY <2>1, <2>2, <2>3 DEF Safety
<1> QED BY <1>1, <1>2

THEOREM IndStep == IndInv /\ [Next]_vars => IndInv'
<1> SUFFICES ASSUME IndInv, [Next]_vars PROVE IndInv'
  OBVIOUS
<1> USE MNat, VariantOk
<1>1. CASE Build
  BY <1>1 DEF Build, IndInv, TypeOk, Active, Zero, Idx
<1>2. CASE IterStart
  <2>0. /\ st = "idle" /\ IsTree(tree) /\ st' = "run" /\ buf' = [buf EXCEPT ![1] = 1] /\ hd' = 1 /\ tl' = 2 /\ tree' = tree
        /\ buf = Zero /\ tree \subseteq Idx /\ 1 \in Idx /\ M >= 1
    BY <1>2 DEF IterStart, IndInv, TypeOk, IsTree, Idx
  <2>1. \A k \in Idx : buf'[k] = (IF k = 1 THEN 1 ELSE 0)
    BY <2>0 DEF Zero, Idx
  <2>2. TypeOk'
    BY <2>0, <2>1 DEF TypeOk, IndInv, Zero, Idx
  <2>3. Frontier' = 2
    <3>1. hd' = 1 /\ tl' = 2 /\ buf'[1] = 1
      BY <2>0, <2>1
    <3> QED BY <3>1 DEF Frontier
  <2>4. \A x \in tree : x < 2 => x = 1
    BY <2>0 DEF Idx
  <2>5. Active' /\ st' # "idle" /\ st' # "end"
    BY <2>0 DEF Active
  <2>6. IsTree(tree)' /\ tl' >= 2 /\ buf'[1] = 1
    BY <2>0, <2>1 DEF IsTree
  <2>7. \A k \in Idx : k >= tl' => buf'[k] = 0
    BY <2>0, <2>1 DEF Idx
  <2>8. \A k \in Idx : k < tl' => (buf'[k] \in tree' /\ buf'[k] >= k /\ buf'[k] < Frontier')
    BY <2>0, <2>1, <2>3 DEF Idx, IsTree
  <2>9. \A j \in Idx : \A k \in Idx : (j < k /\ k < tl') => buf'[j] < buf'[k]
    BY <2>0 DEF Idx
  <2>10. \A x \in tree' : x < Frontier' => \E k \in Idx : k < tl' /\ buf'[k] = x
    BY <2>0, <2>1, <2>3, <2>4
  <2> QED
    BY <2>2, <2>5, <2>6, <2>7, <2>8, <2>9, <2>10 DEF IndInv
<1>3. CASE IterNext
  <2>1. CASE hd = tl
    BY <1>3, <2>1 DEF IterNext, IndInv, TypeOk, Active, Frontier, Idx, IsTree
  <2>2. CASE hd # tl
    <3> DEFINE p == buf[hd]
    <3> DEFINE hasL == (2 * p) \in tree
    <3> DEFINE hasR == (2 * p + 1) \in tree
    <3>0. /\ st = "run" /\ st' = "run" /\ tree' = tree /\ hd' = hd + 1
          /\ tl' = tl + (IF hasL THEN 1 ELSE 0) + (IF hasR THEN 1 ELSE 0)
          /\ buf' = IF hasL /\ hasR THEN [buf EXCEPT ![tl] = 2 * p, ![tl + 1] = 2 * p + 1]
                    ELSE IF hasL THEN [buf EXCEPT ![tl] = 2 * p]
                    ELSE IF hasR THEN [buf EXCEPT ![tl] = 2 * p + 1]
                    ELSE buf
      BY <1>3, <2>2 DEF IterNext
    <3>1. /\ hd \in Idx /\ hd < tl /\ tl \in 2..(M + 1) /\ hd \in 1..(M + 1) /\ tree \subseteq Idx /\ buf \in [Idx -> 0..M]
          /\ IsTree(tree) /\ buf[1] = 1 /\ Frontier = 2 * p
          /\ \A k \in Idx : k >= tl => buf[k] = 0
          /\ \A k \in Idx : k < tl => (buf[k] \in tree /\ buf[k] >= k /\ buf[k] < 2 * p /\ buf[k] \in Int)
          /\ \A j \in Idx : \A k \in Idx : (j < k /\ k < tl) => buf[j] < buf[k]
          /\ \A x \in tree : x < 2 * p => \E k \in Idx : k < tl /\ buf[k] = x
      BY <3>0, <2>2 DEF IndInv, TypeOk, Active, Frontier, Idx
    <3>2. p \in tree /\ p \in 1..M /\ p >= hd /\ tl <= 2 * p /\ (tl - 1) \in Idx
      <4>1. p \in tree /\ p >= hd /\ p \in Int
        BY <3>1
      <4>2. (tl - 1) \in Idx /\ tl - 1 < tl
        BY <3>1 DEF Idx
      <4>3. buf[tl - 1] >= tl - 1 /\ buf[tl - 1] < 2 * p /\ buf[tl - 1] \in Int
        BY <3>1, <4>2
      <4> QED BY <4>1, <4>2, <4>3, <3>1 DEF Idx
    \* description of the new buffer, whatever children exist
    <3>3. /\ tl' \in Int /\ tl <= tl' /\ tl' <= tl + 2 /\ tl' <= M + 1
          /\ buf' \in [Idx -> 0..M]
          /\ \A k \in Idx : k < tl => buf'[k] = buf[k]
          /\ \A k \in Idx : (tl <= k /\ k < tl') => (buf'[k] \in tree /\ (buf'[k] = 2 * p \/ buf'[k] = 2 * p + 1) /\ buf'[k] >= k)
          /\ \A k \in Idx : k >= tl' => buf'[k] = 0
          /\ \A j \in Idx : \A k \in Idx : (tl <= j /\ j < k /\ k < tl') => buf'[j] < buf'[k]
          /\ \A x \in tree : (x = 2 * p \/ x = 2 * p + 1) => \E k \in Idx : tl <= k /\ k < tl' /\ buf'[k] = x
      <4>1. CASE hasL /\ hasR
        <5>1. tl' = tl + 2 /\ buf' = [buf EXCEPT ![tl] = 2 * p, ![tl + 1] = 2 * p + 1]
          BY <4>1, <3>0, <3>1
        <5>2. 2 * p + 1 <= M /\ tl \in Idx /\ (tl + 1) \in Idx
          BY <4>1, <3>1, <3>2 DEF Idx
        <5>3. \A k \in Idx : buf'[k] = (IF k = tl + 1 THEN 2 * p + 1 ELSE IF k = tl THEN 2 * p ELSE buf[k])
          BY <5>1, <5>2, <3>1
        <5>4. tl' \in Int /\ tl <= tl' /\ tl' <= tl + 2 /\ tl' <= M + 1
          BY <5>1, <5>2, <5>3, <4>1, <3>1, <3>2 DEF Idx
        <5>5. buf' \in [Idx -> 0..M]
          BY <5>1, <5>2, <5>3, <4>1, <3>1, <3>2 DEF Idx
        <5>6. \A k \in Idx : k < tl => buf'[k] = buf[k]
          BY <5>1, <5>2, <5>3, <4>1, <3>1, <3>2 DEF Idx
        <5>7. \A k \in Idx : (tl <= k /\ k < tl') => (buf'[k] \in tree /\ (buf'[k] = 2 * p \/ buf'[k] = 2 * p + 1) /\ buf'[k] >= k)
          <6> SUFFICES ASSUME NEW k \in Idx, tl <= k, k < tl + 2
                       PROVE buf'[k] \in tree /\ (buf'[k] = 2 * p \/ buf'[k] = 2 * p + 1) /\ buf'[k] >= k
            BY <5>1
          <6>1. CASE k = tl
            BY <6>1, <5>3, <5>2, <4>1, <3>2, <3>1 DEF Idx
          <6>2. CASE k = tl + 1
            BY <6>2, <5>3, <5>2, <4>1, <3>2, <3>1 DEF Idx
          <6> QED BY <6>1, <6>2, <3>1 DEF Idx
        <5>8. \A k \in Idx : k >= tl' => buf'[k] = 0
          BY <5>1, <5>2, <5>3, <4>1, <3>1, <3>2 DEF Idx
        <5>9. \A j \in Idx : \A k \in Idx : (tl <= j /\ j < k /\ k < tl') => buf'[j] < buf'[k]
          <6> SUFFICES ASSUME NEW j \in Idx, NEW k \in Idx, tl <= j, j < k, k < tl + 2 PROVE buf'[j] < buf'[k]
            BY <5>1
          <6>1. j = tl /\ k = tl + 1
            BY <3>1 DEF Idx
          <6> QED BY <6>1, <5>3, <3>2
        <5>10. \A x \in tree : (x = 2 * p \/ x = 2 * p + 1) => \E k \in Idx : tl <= k /\ k < tl' /\ buf'[k] = x
          BY <5>1, <5>2, <5>3, <4>1, <3>1, <3>2 DEF Idx
        <5> QED BY <5>4, <5>5, <5>6, <5>7, <5>8, <5>9, <5>10
      <4>2. CASE hasL /\ ~hasR
        <5>1. tl' = tl + 1 /\ buf' = [buf EXCEPT ![tl] = 2 * p]
          BY <4>2, <3>0, <3>1
        <5>2. 2 * p <= M /\ tl \in Idx
          BY <4>2, <3>1, <3>2 DEF Idx
        <5>3. \A k \in Idx : buf'[k] = (IF k = tl THEN 2 * p ELSE buf[k])
          BY <5>1, <5>2, <3>1
        <5>4. tl' \in Int /\ tl <= tl' /\ tl' <= tl + 2 /\ tl' <= M + 1
          BY <5>1, <5>2, <5>3, <4>2, <3>1, <3>2 DEF Idx
        <5>5. buf' \in [Idx -> 0..M]
          BY <5>1, <5>2, <5>3, <4>2, <3>1, <3>2 DEF Idx
        <5>6. \A k \in Idx : k < tl => buf'[k] = buf[k]
          BY <5>1, <5>2, <5>3, <4>2, <3>1, <3>2 DEF Idx
        <5>7. \A k \in Idx : (tl <= k /\ k < tl') => (buf'[k] \in tree /\ (buf'[k] = 2 * p \/ buf'[k] = 2 * p + 1) /\ buf'[k] >= k)
          BY <5>1, <5>2, <5>3, <4>2, <3>1, <3>2 DEF Idx
        <5>8. \A k \in Idx : k >= tl' => buf'[k] = 0
          BY <5>1, <5>2, <5>3, <4>2, <3>1, <3>2 DEF Idx
        <5>9. \A j \in Idx : \A k \in Idx : (tl <= j /\ j < k /\ k < tl') => buf'[j] < buf'[k]
          BY <5>1, <5>2, <5>3, <4>2, <3>1, <3>2 DEF Idx
        <5>10. \A x \in tree : (x = 2 * p \/ x = 2 * p + 1) => \E k \in Idx : tl <= k /\ k < tl' /\ buf'[k] = x
          BY <5>1, <5>2, <5>3, <4>2, <3>1, <3>2 DEF Idx
        <5> QED BY <5>4, <5>5, <5>6, <5>7, <5>8, <5>9, <5>10
      <4>3. CASE ~hasL /\ hasR
        <5>1. tl' = tl + 1 /\ buf' = [buf EXCEPT ![tl] = 2 * p + 1]
          BY <4>3, <3>0, <3>1
        <5>2. 2 * p + 1 <= M /\ tl \in Idx
          BY <4>3, <3>1, <3>2 DEF Idx
        <5>3. \A k \in Idx : buf'[k] = (IF k = tl THEN 2 * p + 1 ELSE buf[k])
          BY <5>1, <5>2, <3>1
        <5>4. tl' \in Int /\ tl <= tl' /\ tl' <= tl + 2 /\ tl' <= M + 1
          BY <5>1, <5>2, <5>3, <4>3, <3>1, <3>2 DEF Idx
        <5>5. buf' \in [Idx -> 0..M]
          BY <5>1, <5>2, <5>3, <4>3, <3>1, <3>2 DEF Idx
        <5>6. \A k \in Idx : k < tl => buf'[k] = buf[k]
          BY <5>1, <5>2, <5>3, <4>3, <3>1, <3>2 DEF Idx
        <5>7. \A k \in Idx : (tl <= k /\ k < tl') => (buf'[k] \in tree /\ (buf'[k] = 2 * p \/ buf'[k] = 2 * p + 1) /\ buf'[k] >= k)
          BY <5>1, <5>2, <5>3, <4>3, <3>1, <3>2 DEF Idx
        <5>8. \A k \in Idx : k >= tl' => buf'[k] = 0
          BY <5>1, <5>2, <5>3, <4>3, <3>1, <3>2 DEF Idx
        <5>9. \A j \in Idx : \A k \in Idx : (tl <= j /\ j < k /\ k < tl') => buf'[j] < buf'[k]
          BY <5>1, <5>2, <5>3, <4>3, <3>1, <3>2 DEF Idx
        <5>10. \A x \in tree : (x = 2 * p \/ x = 2 * p + 1) => \E k \in Idx : tl <= k /\ k < tl' /\ buf'[k] = x
          BY <5>1, <5>2, <5>3, <4>3, <3>1, <3>2 DEF Idx
        <5> QED BY <5>4, <5>5, <5>6, <5>7, <5>8, <5>9, <5>10
      <4>4. CASE ~hasL /\ ~hasR
        <5>1. tl' = tl /\ buf' = buf
          BY <4>4, <3>0, <3>1
        <5> QED BY <5>1, <4>4, <3>1, <3>2 DEF Idx
      <4> QED BY <4>1, <4>2, <4>3, <4>4
    <3>4. TypeOk'
      BY <3>0, <3>1, <3>3 DEF TypeOk, IndInv, Idx
    <3>5. Active' /\ st' # "idle" /\ st' # "end" /\ IsTree(tree)' /\ tl' >= 2 /\ buf'[1] = 1
      <4>1. 1 \in Idx /\ 1 < tl
        BY <3>1 DEF Idx
      <4> QED BY <4>1, <3>0, <3>1, <3>3 DEF Active, IsTree
    <3>6. \A k \in Idx : k >= tl' => buf'[k] = 0
      BY <3>3
    <3>7. \A k \in Idx : k < tl' => (buf'[k] \in tree' /\ buf'[k] >= k)
      BY <3>0, <3>1, <3>3 DEF Idx
    <3>8. \A j \in Idx : \A k \in Idx : (j < k /\ k < tl') => buf'[j] < buf'[k]
      <4> SUFFICES ASSUME NEW j \in Idx, NEW k \in Idx, j < k, k < tl' PROVE buf'[j] < buf'[k]
        OBVIOUS
      <4>1. CASE k < tl
        BY <4>1, <3>1, <3>3 DEF Idx
      <4>2. CASE k >= tl /\ j < tl
        BY <4>2, <3>1, <3>3 DEF Idx
      <4>3. CASE k >= tl /\ j >= tl
        BY <4>3, <3>3 DEF Idx
      <4> QED BY <4>1, <4>2, <4>3, <3>1 DEF Idx
    <3>9. /\ \A k \in Idx : k < tl' => buf'[k] < Frontier'
          /\ \A x \in tree' : x < Frontier' => \E k \in Idx : k < tl' /\ buf'[k] = x
      <4>a. \A x \in tree : x > 1 => \E q \in tree : x = 2 * q \/ x = 2 * q + 1
        BY <3>1 DEF IsTree
      <4>b. \A x \in tree : x \in Int /\ x >= 1
        BY <3>1 DEF Idx
      <4>c. \A x \in tree : x < 2 * p + 2 => \E k \in Idx : k < tl' /\ buf'[k] = x
        <5> SUFFICES ASSUME NEW x \in tree, x < 2 * p + 2 PROVE \E k \in Idx : k < tl' /\ buf'[k] = x
          OBVIOUS
        <5>1. CASE x < 2 * p
          <6>1. PICK k \in Idx : k < tl /\ buf[k] = x
            BY <5>1, <3>1
          <6> QED BY <6>1, <3>3, <3>1 DEF Idx
        <5>2. CASE ~(x < 2 * p)
          <6>1. x = 2 * p \/ x = 2 * p + 1
            BY <5>2, <4>b, <3>2
          <6>2. PICK k \in Idx : tl <= k /\ k < tl' /\ buf'[k] = x
            BY <6>1, <3>3
          <6> QED BY <6>2
        <5> QED BY <5>1, <5>2
      <4>1. CASE hd + 1 < tl
        \* the old queue had a second element h: the new frontier is its left child
        <5> DEFINE h == buf[hd + 1]
        <5>1. (hd + 1) \in Idx /\ h \in tree /\ h \in Int /\ p < h /\ h < 2 * p /\ hd + 1 < tl' /\ buf'[hd + 1] = h
          BY <4>1, <3>1, <3>2, <3>3 DEF Idx
        <5>2. Frontier' = 2 * h
          BY <5>1, <3>0 DEF Frontier
        <5>3. \A k \in Idx : k < tl' => buf'[k] < 2 * h
          <6> SUFFICES ASSUME NEW k \in Idx, k < tl' PROVE buf'[k] < 2 * h
            OBVIOUS
          <6>1. CASE k < tl
            BY <6>1, <5>1, <3>1, <3>2, <3>3
          <6>2. CASE k >= tl
            BY <6>2, <5>1, <3>2, <3>3
          <6> QED BY <6>1, <6>2, <3>1 DEF Idx
        <5>4. \A x \in tree : x < 2 * h => \E k \in Idx : k < tl' /\ buf'[k] = x
          <6> SUFFICES ASSUME NEW x \in tree, x < 2 * h PROVE \E k \in Idx : k < tl' /\ buf'[k] = x
            OBVIOUS
          <6>1. CASE x < 2 * p + 2
            BY <6>1, <4>c
          <6>2. CASE ~(x < 2 * p + 2)
            <7>1. x > 1
              BY <6>2, <4>b, <3>2
            <7>2. PICK q \in tree : x = 2 * q \/ x = 2 * q + 1
              BY <7>1, <4>a
            <7>3. q \in Int /\ p < q /\ q < h /\ q < 2 * p
              BY <7>2, <6>2, <4>b, <5>1, <3>2
            <7>4. PICK k \in Idx : k < tl /\ buf[k] = q
              BY <7>3, <3>1
            <7>5. CASE k <= hd
              <8>1. buf[k] <= p
                BY <7>5, <7>4, <3>1 DEF Idx
              <8> QED BY <8>1, <7>4, <7>3, <3>2, <5>1
            <7>6. CASE k > hd
              <8>1. buf[k] >= h
                BY <7>6, <7>4, <5>1, <3>1 DEF Idx
              <8> QED BY <8>1, <7>4, <7>3, <3>2, <5>1
            <7> QED BY <7>5, <7>6, <3>1 DEF Idx
          <6> QED BY <6>1, <6>2
        <5> QED BY <5>2, <5>3, <5>4, <3>0
      <4>2. CASE hd + 1 = tl /\ tl < tl'
        \* singleton queue and a child was pushed: the new frontier is the left child of the first new cell
        <5> DEFINE c == buf'[tl]
        <5>1. tl \in Idx /\ c \in tree /\ (c = 2 * p \/ c = 2 * p + 1) /\ hd + 1 < tl' /\ c \in Int
          BY <4>2, <3>1, <3>2, <3>3 DEF Idx
        <5>2. Frontier' = 2 * c
          BY <5>1, <4>2, <3>0 DEF Frontier
        <5>3. \A k \in Idx : k < tl => buf[k] <= p
          BY <4>2, <3>1 DEF Idx
        <5>4. \A k \in Idx : k < tl' => buf'[k] < 2 * c
          <6> SUFFICES ASSUME NEW k \in Idx, k < tl' PROVE buf'[k] < 2 * c
            OBVIOUS
          <6>1. CASE k < tl
            BY <6>1, <5>1, <5>3, <3>1, <3>2, <3>3
          <6>2. CASE k >= tl
            BY <6>2, <5>1, <3>2, <3>3
          <6> QED BY <6>1, <6>2, <3>1 DEF Idx
        <5>5. \A x \in tree : x < 2 * c => \E k \in Idx : k < tl' /\ buf'[k] = x
          <6> SUFFICES ASSUME NEW x \in tree, x < 2 * c PROVE \E k \in Idx : k < tl' /\ buf'[k] = x
            OBVIOUS
          <6>1. CASE x < 2 * p + 2
            BY <6>1, <4>c
          <6>2. CASE ~(x < 2 * p + 2)
            <7>1. x > 1
              BY <6>2, <4>b, <3>2
            <7>2. PICK q \in tree : x = 2 * q \/ x = 2 * q + 1
              BY <7>1, <4>a
            <7>3. q \in Int /\ p < q /\ q < c
              BY <7>2, <6>2, <4>b, <5>1, <3>2
            <7>4. CASE q < 2 * p
              <8>1. PICK k \in Idx : k < tl /\ buf[k] = q
                BY <7>4, <3>1
              <8> QED BY <8>1, <5>3, <7>3, <3>2
            <7>5. CASE ~(q < 2 * p)
              <8>1. q = 2 * p /\ c = 2 * p + 1
                BY <7>5, <7>3, <5>1, <3>2
              <8>2. PICK k \in Idx : tl <= k /\ k < tl' /\ buf'[k] = q
                BY <8>1, <3>3
              <8>3. CASE k = tl
                BY <8>3, <8>2, <8>1, <5>1, <3>2
              <8>4. CASE k # tl
                <9>1. buf'[tl] < buf'[k]
                  BY <8>4, <8>2, <5>1, <3>3, <3>1 DEF Idx
                <9> QED BY <9>1, <8>2, <8>1, <5>1, <3>2
              <8> QED BY <8>3, <8>4
            <7> QED BY <7>4, <7>5
          <6> QED BY <6>1, <6>2
        <5> QED BY <5>2, <5>4, <5>5, <3>0
      <4>3. CASE hd + 1 = tl /\ ~(tl < tl')
        \* the queue becomes empty: the frontier is just past the children of the node popped last
        <5>1. tl' = tl /\ hd' = tl' /\ (tl' - 1) \in Idx /\ tl' - 1 = hd /\ buf'[tl' - 1] = p
          BY <4>3, <3>0, <3>1, <3>2, <3>3 DEF Idx
        <5>2. Frontier' = 2 * p + 2
          BY <5>1, <3>0 DEF Frontier
        <5>3. \A k \in Idx : k < tl' => buf'[k] < 2 * p + 2
          BY <5>1, <3>1, <3>2, <3>3
        <5> QED BY <5>2, <5>3, <4>c, <3>0
      <4> QED BY <4>1, <4>2, <4>3, <3>1, <3>3 DEF Idx
    <3> QED
      BY <3>4, <3>5, <3>6, <3>7, <3>8, <3>9 DEF IndInv
  <2> QED BY <2>1, <2>2
<1>4. CASE UNCHANGED vars
  BY <1>4 DEF vars, IndInv, TypeOk, Active, Frontier, Zero, Idx, IsTree
<1> QED
  BY <1>1, <1>2, <1>3, <1>4 DEF Next
THEOREM Correct == Spec => []Safety
<1>1. Init => IndInv
  BY IndInit
<1>2. IndInv /\ [Next]_vars => IndInv'
  BY IndStep
<1>3. IndInv => Safety
  BY IndSafe
<1> QED
  BY <1>1, <1>2, <1>3, PTL DEF Spec
=============================================================================
