------------------------------ MODULE Density ------------------------------
(***************************************************************************)
(* C08 -- DBSCAN and OPTICS output is the density clustering of the input. *)
(*                                                                         *)
(* Part 1: the defining relations of the statement on lattice inputs       *)
(*   DbscanOk  : a label vector is a DBSCAN clustering of the input        *)
(*   OpticsOk  : a list of (index, core distance, reachability distance)   *)
(*               is an OPTICS ordering of the input                        *)
(* Distances are the order-equivalent integer forms of Geo (L1, L2^2,      *)
(* Linf); the tolerance is the dyadic rational en/ed; a point on the       *)
(* radius is a neighbour iff `incl` (the boundary convention is never      *)
(* decided here: Trace_Density lets TLC infer it, once per case).          *)
(*                                                                         *)
(* Part 2: design model at the grain of the code                           *)
(*   dbscan/algorithm.rs : seed loop, search queue / search_found, only    *)
(*       core points extend the queue, cluster id incremented per seed     *)
(*   optics/algorithm.rs : start sample, seed list with reachability       *)
(*       updates, pop of a minimum-reachability seed                       *)
(* TLC checks that every terminal state of the model satisfies the         *)
(* relations of part 1 for every input of a bounded lattice domain, in     *)
(* every order in which a neighbour index may return its answers (queue    *)
(* and seed list are sets; any member may be taken next).                  *)
(* CONSTANT Variant selects the design ("ok") or a deliberately broken     *)
(* design used to show that the invariants are not vacuous:                *)
(*   "noncore_extends" : a border point pushes its neighbours              *)
(*   "start_in_seeds"  : OPTICS as coded at the pinned commit: the start   *)
(*        sample is not listed first but put among its own seeds           *)
(*   "count_excl_self" : neighbour count without the point itself          *)
(*   "seed_needs_free_neighbour" : the outer scan skips a core point with  *)
(*        no unlabelled neighbour left (round 2: a core point whose        *)
(*        neighbours are all border points already claimed by earlier      *)
(*        clusters must still found its own cluster; lattice code 999 =    *)
(*        the 13-point "hub" figure in which that happens)                 *)
(***************************************************************************)
EXTENDS Geo, TLC

-----------------------------------------------------------------------------
(* Part 1a: neighbourhoods *)

\* d <| en/ed in reduced form (rd = reduced distance of Geo: L2 -> squared)
LhsR(metric, ed, rd) == IF metric = "l2" THEN ed * ed * rd ELSE ed * rd
RhsR(metric, en)     == IF metric = "l2" THEN en * en ELSE en
\* ed = 0 codes the infinite tolerance (the default of Optics::params): every point is within it
WithinR(metric, en, ed, inc, rd) ==
  IF ed = 0 THEN TRUE
  ELSE IF inc THEN LhsR(metric, ed, rd) <= RhsR(metric, en) ELSE LhsR(metric, ed, rd) < RhsR(metric, en)
OnRadiusR(metric, en, ed, rd) == ed # 0 /\ LhsR(metric, ed, rd) = RhsR(metric, en)

\* distance matrix (reduced form) of a sequence of lattice points
DistM(P, metric) == [i \in 1..Len(P) |-> [j \in 1..Len(P) |-> RDist(metric, P[i], P[j])]]
\* neighbourhood function: Nb[i] = points within the tolerance of i (i itself included: d = 0 < eps)
NbF(D, metric, en, ed, inc) ==
  [i \in 1..Len(D) |-> {j \in 1..Len(D) : WithinR(metric, en, ed, inc, D[i][j])}]
HasOnRadius(D, metric, en, ed) ==
  \E i \in 1..Len(D) : \E j \in 1..Len(D) : OnRadiusR(metric, en, ed, D[i][j])

CoreSet(Nb, mp) == {i \in DOMAIN Nb : Cardinality(Nb[i]) >= mp}

\* density-connected component of core point a: closure of the within-tolerance relation on cores
RECURSIVE GrowC(_, _, _, _)
GrowC(S, F, Nb, C) ==
  LET new == ((UNION {Nb[i] : i \in F}) \cap C) \ S
  IN IF new = {} THEN S ELSE GrowC(S \cup new, new, Nb, C)
Comp(a, Nb, C) == GrowC({a}, {a}, Nb, C)

-----------------------------------------------------------------------------
(* Part 1b: DBSCAN.  lab[i] = -1 (noise) or the cluster label of point i *)

DbLen(lab, Nb)        == Len(lab) = Len(Nb) /\ \A i \in DOMAIN lab : lab[i] >= -1
\* a point is labelled exactly when it is a core point or lies within the tolerance of a core point
DbLabelled(lab, Nb, C) == \A i \in DOMAIN Nb : (lab[i] >= 0) <=> (i \in C \/ Nb[i] \cap C # {})
\* two core points within the tolerance of each other carry the same label
DbSame(lab, Nb, C)    == \A a \in C : \A b \in Nb[a] \cap C : lab[a] = lab[b]
\* core points of different density-connected components carry different labels
DbDiff(lab, Nb, C)    ==
  \A l \in {lab[a] : a \in C} :
     LET S == {a \in C : lab[a] = l}
         r == CHOOSE a \in S : TRUE
     IN S \subseteq Comp(r, Nb, C)
\* a border point carries the label of some core point that reaches it
DbBorder(lab, Nb, C)  == \A i \in (DOMAIN Nb) \ C : lab[i] >= 0 => \E o \in Nb[i] \cap C : lab[o] = lab[i]
\* labels are 0..c-1 without gaps
DbNoGaps(lab)         == LET L == {lab[i] : i \in DOMAIN lab} \ {-1} IN L = 0..(Cardinality(L) - 1)

DbscanWhy(lab, Nb, mp) ==
  LET C == CoreSet(Nb, mp) IN
  IF ~DbLen(lab, Nb) THEN "length"
  ELSE IF ~DbLabelled(lab, Nb, C) THEN "labelled_iff_core_or_border"
  ELSE IF ~DbSame(lab, Nb, C) THEN "adjacent_cores_same_label"
  ELSE IF ~DbDiff(lab, Nb, C) THEN "components_different_labels"
  ELSE IF ~DbBorder(lab, Nb, C) THEN "border_label_of_reaching_core"
  ELSE IF ~DbNoGaps(lab) THEN "labels_without_gaps"
  ELSE "ok"
DbscanOk(lab, Nb, mp) == DbscanWhy(lab, Nb, mp) = "ok"

-----------------------------------------------------------------------------
(* Part 1c: OPTICS.  ord = sequence of [idx (0-based), core, reach]; a distance observation is *)
(* [def |-> BOOLEAN, i |-> reduced integer value, exact |-> BOOLEAN]                             *)

\* distance to the mp-th nearest neighbour, the point itself counted (reduced form)
CoreDist(D, i, mp) ==
  LET row == D[i] IN MinSet({v \in Range(row) : Cardinality({j \in DOMAIN row : row[j] <= v}) >= mp})

\* the same for a core point, looking only at its neighbourhood: a core point has at least mp points within
\* the tolerance, and "within the tolerance" is a lower set of distances, so the mp smallest distances overall
\* are the mp smallest among the neighbours (InvKth checks that the formulations agree)
CoreDistNb(D, Nb, i, mp) ==
  MinSet({v \in {D[i][j] : j \in Nb[i]} : Cardinality({j \in Nb[i] : D[i][j] <= v}) >= mp})

Undef == [def |-> FALSE, i |-> 0, exact |-> TRUE]
Def(v) == [def |-> TRUE, i |-> v, exact |-> TRUE]

OpOnce(ord, D) ==
  /\ Len(ord) = Len(D)
  /\ {ord[p].idx + 1 : p \in DOMAIN ord} = 1..Len(D)
\* core distance defined iff the mp-th nearest neighbour lies within the tolerance, and then equal to it
\* (CD[i] = CoreDist(D, i, mp) for the core points, computed once per evaluation of the relation)
OpCore(ord, C, CD) ==
  \A p \in DOMAIN ord :
     LET i == ord[p].idx + 1 IN
     /\ ord[p].core.def <=> i \in C
     /\ i \in C => ord[p].core.exact /\ ord[p].core.i = CD[i]
\* reachability undefined, or max(core(o), d(o,i)) for a core point o within the tolerance listed no later
OpReach(ord, D, Nb, C, CD) ==
  \A p \in DOMAIN ord :
     LET i == ord[p].idx + 1 IN
     ord[p].reach.def =>
        /\ ord[p].reach.exact
        /\ \E q \in 1..p :
             LET o == ord[q].idx + 1 IN
             o \in C /\ o \in Nb[i] /\ ord[p].reach.i = Max2(CD[o], D[o][i])

OpticsWhy(ord, D, Nb, mp) ==
  LET C  == CoreSet(Nb, mp)
      CD == [i \in DOMAIN D |-> IF i \in C THEN CoreDistNb(D, Nb, i, mp) ELSE -1]
  IN
  IF ~OpOnce(ord, D) THEN "every_sample_exactly_once"
  ELSE IF ~OpCore(ord, C, CD) THEN "core_distance"
  ELSE IF ~OpReach(ord, D, Nb, C, CD) THEN "reachability_from_earlier_core"
  ELSE "ok"
OpticsOk(ord, D, Nb, mp) == OpticsWhy(ord, D, Nb, mp) = "ok"

-----------------------------------------------------------------------------
(* Part 2: design model *)

CONSTANTS Variant,      \* "ok" | "noncore_extends" | "start_in_seeds" | "count_excl_self"
          Lattices,     \* set of lattices, each coded dim * 100 + maxcoord (cfg files have no tuples)
          MinPts, MaxPts, \* number of points MinPts..MaxPts
          MinPtsSet,    \* values of min_points
          EpsSet        \* set of tolerances en/ed, each coded en * 10 + ed  (ed in {1, 2, 4}; code 0 = infinite)

VARIABLES alg,          \* "dbscan" | "optics"
          pts, metric, mp, eps, inc,     \* the input, chosen in Init
          dm, nb,       \* distance matrix and neighbourhoods of the input (functions of the input, cached)
          pc, oi,       \* control, outer index (1-based)
          lab, cur, queue,               \* dbscan: labels, current cluster id, search queue (as a set = search_found)
          ord, processed, rch, seeds     \* optics: output list, processed set, reachability (-1 undefined), seed list

vars == <<alg, pts, metric, mp, eps, inc, dm, nb, pc, oi, lab, cur, queue, ord, processed, rch, seeds>>

MN  == Len(pts)
MD  == dm
MNb == nb
\* the count the code compares with min_points
MCount(i) == IF Variant = "count_excl_self" THEN Cardinality(MNb[i] \ {i}) ELSE Cardinality(MNb[i])
MCore(i) == MCount(i) >= mp

Points(dim, mx) == [1..dim -> 0..mx]
\* the hub figure (see Gen_Density): three arms (core, two extras, border point last), hub (6,6) last; with
\* min_points 4 and tolerance 5/2 the hub is a core point whose three neighbours are border points of the arms
HubFigure == << <<10, 6>>, <<12, 6>>, <<10, 8>>, <<8, 6>>,
                <<6, 10>>, <<6, 12>>, <<8, 10>>, <<6, 8>>,
                <<2, 6>>, <<0, 6>>, <<2, 4>>, <<4, 6>>,
                <<6, 6>> >>
Metrics(dim) == IF dim <= 1 THEN {"l1"} ELSE {"l1", "l2", "linf"}

Init ==
  /\ alg \in {"dbscan", "optics"}
  /\ \E lt \in Lattices :
        IF lt = 999
          THEN pts = HubFigure /\ metric \in {"l1", "l2"}
          ELSE \E nn \in MinPts..MaxPts :
                 /\ pts \in [1..nn -> Points(lt \div 100, lt % 100)]
                 /\ metric \in Metrics(lt \div 100)
  /\ mp \in MinPtsSet /\ eps \in {<<x \div 10, x % 10>> : x \in EpsSet}
  /\ inc \in (IF HasOnRadius(DistM(pts, metric), metric, eps[1], eps[2]) THEN BOOLEAN ELSE {FALSE})
  /\ dm = DistM(pts, metric)
  /\ nb = NbF(dm, metric, eps[1], eps[2], inc)
  /\ pc = "outer" /\ oi = 1
  /\ lab = [i \in 1..Len(pts) |-> -1] /\ cur = 0 /\ queue = {}
  /\ ord = <<>> /\ processed = {} /\ rch = [i \in 1..Len(pts) |-> -1] /\ seeds = {}

(* ---- DBSCAN (DbscanValidParams::transform) ---- *)
\* find_neighbors: the unlabelled neighbours other than the point itself
Fresh(i) == {j \in MNb[i] : lab[j] < 0 /\ j # i}

SeedOk(i) == MCore(i) /\ (Variant = "seed_needs_free_neighbour" => Fresh(i) # {})

DSkip ==      \* already labelled, or not a core point: next index
  /\ alg = "dbscan" /\ pc = "outer" /\ oi <= MN
  /\ lab[oi] >= 0 \/ ~SeedOk(oi)
  /\ oi' = oi + 1
  /\ UNCHANGED <<alg, pts, metric, mp, eps, inc, dm, nb, pc, lab, cur, queue, ord, processed, rch, seeds>>

DSeed ==      \* an unlabelled core point starts cluster `cur`
  /\ alg = "dbscan" /\ pc = "outer" /\ oi <= MN
  /\ lab[oi] < 0 /\ SeedOk(oi)
  /\ queue' = Fresh(oi)
  /\ lab' = [lab EXCEPT ![oi] = cur]
  /\ pc' = "grow"
  /\ UNCHANGED <<alg, pts, metric, mp, eps, inc, dm, nb, oi, cur, ord, processed, rch, seeds>>

DPopC(cand) ==  \* take a candidate from the queue: it joins the cluster; only a core point extends the queue
  /\ alg = "dbscan" /\ pc = "grow" /\ cand \in queue
  /\ lab' = [lab EXCEPT ![cand] = cur]
  /\ queue' = (queue \ {cand}) \cup
                (IF MCore(cand) \/ Variant = "noncore_extends" THEN Fresh(cand) ELSE {})
  /\ UNCHANGED <<alg, pts, metric, mp, eps, inc, dm, nb, pc, oi, cur, ord, processed, rch, seeds>>

DClose ==     \* queue exhausted: the cluster is complete
  /\ alg = "dbscan" /\ pc = "grow" /\ queue = {}
  /\ cur' = cur + 1 /\ oi' = oi + 1 /\ pc' = "outer"
  /\ UNCHANGED <<alg, pts, metric, mp, eps, inc, dm, nb, lab, queue, ord, processed, rch, seeds>>

(* ---- OPTICS (OpticsValidParams::transform) ---- *)
MCoreDist(i) == CoreDist(MD, i, mp)
Obs(i, r) == [idx |-> i - 1,
              core |-> IF MCore(i) THEN Def(MCoreDist(i)) ELSE Undef,
              reach |-> IF r >= 0 THEN Def(r) ELSE Undef]
\* get_seeds: reachability updates from core point o for its unprocessed neighbours
Upd(o, done, r) ==
  [j \in 1..MN |->
     IF j \in MNb[o] /\ j \notin done
       THEN LET v == Max2(MCoreDist(o), MD[o][j]) IN IF r[j] < 0 \/ v < r[j] THEN v ELSE r[j]
       ELSE r[j]]

OSkip ==
  /\ alg = "optics" /\ pc = "outer" /\ oi <= MN /\ oi \in processed
  /\ oi' = oi + 1
  /\ UNCHANGED <<alg, pts, metric, mp, eps, inc, dm, nb, pc, lab, cur, queue, ord, processed, rch, seeds>>

OStart ==     \* lowest unprocessed index starts a new walk
  /\ alg = "optics" /\ pc = "outer" /\ oi <= MN /\ oi \notin processed
  /\ oi' = oi + 1
  /\ IF Variant = "start_in_seeds" /\ MCore(oi)
       THEN \* as coded at the pinned commit: not listed, becomes one of its own seeds
            /\ rch' = Upd(oi, processed, rch)
            /\ seeds' = MNb[oi] \ processed
            /\ pc' = "seeds"
            /\ UNCHANGED <<ord, processed>>
       ELSE /\ processed' = processed \cup {oi}
            /\ ord' = Append(ord, Obs(oi, rch[oi]))
            /\ IF MCore(oi)
                 THEN /\ rch' = Upd(oi, processed', rch)
                      /\ seeds' = MNb[oi] \ processed'
                      /\ pc' = "seeds"
                 ELSE UNCHANGED <<rch, seeds, pc>>
  /\ UNCHANGED <<alg, pts, metric, mp, eps, inc, dm, nb, lab, cur, queue>>

OPopC(s) ==    \* a seed of minimum reachability is listed next (ties: any)
  /\ alg = "optics" /\ pc = "seeds" /\ s \in seeds
  /\ \A u \in seeds : rch[s] <= rch[u]
  /\ processed' = processed \cup {s}
  /\ ord' = Append(ord, Obs(s, rch[s]))
  /\ IF MCore(s)
       THEN /\ rch' = Upd(s, processed', rch)
            /\ seeds' = (seeds \ {s}) \cup (MNb[s] \ processed')
       ELSE /\ seeds' = seeds \ {s} /\ UNCHANGED rch
  /\ UNCHANGED <<alg, pts, metric, mp, eps, inc, dm, nb, pc, oi, lab, cur, queue>>

OEnd ==
  /\ alg = "optics" /\ pc = "seeds" /\ seeds = {}
  /\ pc' = "outer"
  /\ UNCHANGED <<alg, pts, metric, mp, eps, inc, dm, nb, oi, lab, cur, queue, ord, processed, rch, seeds>>

Done ==
  /\ pc = "outer" /\ oi = MN + 1
  /\ pc' = "done"
  /\ UNCHANGED <<alg, pts, metric, mp, eps, inc, dm, nb, oi, lab, cur, queue, ord, processed, rch, seeds>>

DPop == \E cand \in queue : DPopC(cand)
OPop == \E s \in seeds : OPopC(s)

Next == DSkip \/ DSeed \/ DPop \/ DClose \/ OSkip \/ OStart \/ OPop \/ OEnd \/ Done

-----------------------------------------------------------------------------
(* Invariants of the design *)

\* the statement's relations hold at termination (neighbourhoods by the definition, count includes the point)
DNb == nb
InvCache == dm = DistM(pts, metric) /\ nb = NbF(dm, metric, eps[1], eps[2], inc)
InvDbscanDone == (alg = "dbscan" /\ pc = "done") => DbscanOk(lab, DNb, mp)
InvOpticsDone == (alg = "optics" /\ pc = "done") => OpticsOk(ord, MD, DNb, mp)

\* while a cluster grows: only labels of finished clusters and the current one; queued points are unlabelled
\* or already in the current cluster, and each is within the tolerance of a core point of the current cluster
InvGrow ==
  (alg = "dbscan" /\ pc = "grow") =>
     /\ \A i \in 1..MN : lab[i] <= cur
     /\ \A j \in queue : /\ lab[j] \in {-1, cur}
                         /\ \E o \in DNb[j] : lab[o] = cur /\ o \in CoreSet(DNb, mp)
\* labels handed out so far are gap-free, finished clusters are never relabelled
InvLabels == alg = "dbscan" => \A i \in 1..MN : lab[i] < cur + (IF pc = "grow" THEN 1 ELSE 0)

\* OPTICS bookkeeping: seeds are unprocessed and carry a reachability; listed = processed, once each
InvSeeds ==
  alg = "optics" =>
     /\ seeds \cap processed = {}
     /\ \A s \in seeds : rch[s] >= 0
     /\ Len(ord) = Cardinality({ord[p].idx : p \in DOMAIN ord})
     /\ (Variant = "ok") => {ord[p].idx + 1 : p \in DOMAIN ord} = processed

\* the relation pins the labels down: at termination, changing one label to another value in -1..c gives a
\* vector that the relation rejects, unless the point is a border point and the new value is the label of
\* another core point reaching it (the only freedom the statement leaves)
InvTight ==
  (alg = "dbscan" /\ pc = "done") =>
     LET C == CoreSet(DNb, mp) IN
     \A i \in 1..MN : \A v \in -1..cur :
        (v # lab[i] /\ DbscanOk([lab EXCEPT ![i] = v], DNb, mp))
           => (i \notin C /\ \E o \in DNb[i] \cap C : lab[o] = v)
\* the two formulations of "k-th smallest" agree
InvKth ==
  pc = "outer" /\ oi = 1 =>
     /\ \A i \in 1..MN : MN >= mp => CoreDist(MD, i, mp) = KthSmallest(MD[i], mp)
     /\ \A i \in CoreSet(DNb, mp) : CoreDistNb(MD, DNb, i, mp) = CoreDist(MD, i, mp)
\* symmetry of neighbourhoods (used by the relation's reading of "reaches")
InvSym == pc = "outer" /\ oi = 1 => \A i \in 1..MN : \A j \in DNb[i] : i \in DNb[j]
=============================================================================
