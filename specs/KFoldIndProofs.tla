--------------------------- MODULE KFoldIndProofs ---------------------------
(***************************************************************************)
(* X06 (a), TLAPS -- the inductive invariant of KFoldInd.tla for ARBITRARY *)
(* constants MaxN, MaxF, MaxT, MaxM (natural numbers), i.e. for all n, k,  *)
(* f, t, nm: the module that Apalache checks for MaxN <= 8 and that TLC    *)
(* cross-checks against KFold.tla is proved here without any bound.        *)
(*                                                                         *)
(*   IndInvInit   Init => IndInv                                           *)
(*   IndInvStep   IndInv /\ [Next]_vars => IndInv'                         *)
(*   IndInvSafe   IndInv => InvBoundary /\ InvDone /\ InvPerm              *)
(*   Correct      Init /\ [][Next]_vars => [](InvBoundary /\ InvDone /\    *)
(*                InvPerm)                                                 *)
(* (InvRowsIntact / InvTrainNow for all n are proved pointwise by Apalache *)
(* on KFoldIdx.tla; they are not re-proved here.)                          *)
(***************************************************************************)
EXTENDS KFoldInd, TLAPS

ASSUME ConstAssump ==
  /\ MaxN \in Nat /\ MaxF \in Nat /\ MaxT \in Nat /\ MaxM \in Nat
  /\ Variant = "ok"

-----------------------------------------------------------------------------
LEMMA MulNat == \A a, b \in Nat : a * b \in Nat
  OBVIOUS
LEMMA MulSucc == \A a, b \in Nat : (a + 1) * b = b * a + b
  OBVIOUS
LEMMA MulGe == \A a, b \in Nat : a # 0 => b * a >= b
  OBVIOUS
LEMMA MulAssoc == \A a, b, c \in Nat : (a * b) * c = a * (b * c)
  OBVIOUS
LEMMA MulMono == \A a, c, m \in Nat : a <= c => a * m <= c * m
  OBVIOUS
LEMMA MulMono2 == \A a, b, c, d \in Nat : (a <= c /\ b <= d) => a * b <= c * d
  <1> TAKE a, b, c, d \in Nat
  <1> HAVE a <= c /\ b <= d
  <1>1. a * b <= c * b
    BY MulMono
  <1>2. c * b = b * c /\ c * d = d * c
    OBVIOUS
  <1>3. b * c <= d * c
    BY MulMono
  <1>4. a * b \in Nat /\ c * b \in Nat /\ c * d \in Nat
    BY MulNat
  <1> QED
    BY <1>1, <1>2, <1>3, <1>4

LEMMA PosRange == \A m, cap \in Nat : m <= cap => Pos(m, cap) = 1..m
  BY DEF Pos

LEMMA SigmaProps ==
  ASSUME NEW m \in Nat, NEW idx \in Nat, NEW len \in Nat, (idx + 1) * len <= m,
         NEW p \in 1..m
  PROVE  /\ Sigma(p, idx, len) \in 1..m
         /\ Sigma(Sigma(p, idx, len), idx, len) = p
<1> DEFINE start == len * idx
<1>1. start \in Nat
  BY MulNat
<1>2. start + len <= m
  BY MulSucc
<1>3. idx # 0 => start >= len
  BY MulGe
<1>4. Sigma(p, idx, len) =
        IF idx = 0 THEN p
        ELSE IF p <= len THEN start + p
        ELSE IF p > start /\ p <= start + len THEN p - start
        ELSE p
  BY DEF Sigma
<1> DEFINE q == Sigma(p, idx, len)
<1>5. Sigma(q, idx, len) =
        IF idx = 0 THEN q
        ELSE IF q <= len THEN start + q
        ELSE IF q > start /\ q <= start + len THEN q - start
        ELSE q
  BY DEF Sigma
<1> HIDE DEF start
<1>6. q \in 1..m
  BY <1>1, <1>2, <1>3, <1>4
<1>7. Sigma(q, idx, len) = p
  BY <1>1, <1>2, <1>3, <1>4, <1>5
<1> QED
  BY <1>6, <1>7

\* the if-cascade of assist_swap_array2 is the re-indexing by Sigma
LEMMA SwapIsSigma ==
  ASSUME NEW m \in Nat, NEW buf \in [1..m -> Int], NEW idx \in Nat, NEW bs \in Nat, NEW w \in Nat,
         (idx + 1) * (bs * w) <= m
  PROVE  SwapBlocks(buf, idx, bs, w) = [p \in 1..m |-> buf[Sigma(p, idx, bs * w)]]
<1> DEFINE len == bs * w
<1>1. len \in Nat
  BY MulNat
<1>2. DOMAIN buf = 1..m
  OBVIOUS
<1>3. CASE idx = 0
  <2>1. SwapBlocks(buf, idx, bs, w) = buf
    BY <1>3 DEF SwapBlocks
  <2>2. \A p \in 1..m : Sigma(p, idx, len) = p
    BY <1>3 DEF Sigma
  <2>3. buf = [p \in 1..m |-> buf[p]]
    OBVIOUS
  <2> QED
    BY <2>1, <2>2, <2>3
<1>4. CASE idx # 0
  BY <1>4, <1>2, ConstAssump DEF SwapBlocks, Sigma
<1> QED
  BY <1>3, <1>4

\* fold i < k of size n \div k fits into the buffer
LEMMA FoldFits ==
  ASSUME NEW nn \in Nat, NEW kk \in Nat, NEW ii \in Nat, NEW w \in Nat, kk >= 1, kk <= nn, ii < kk
  PROVE  /\ nn \div kk \in Nat
         /\ nn \div kk >= 1
         /\ (ii + 1) * ((nn \div kk) * w) <= nn * w
<1> DEFINE fs == nn \div kk
<1>1. fs \in Nat /\ kk * fs <= nn /\ nn < kk * fs + kk
  OBVIOUS
<1>2. fs >= 1
  BY <1>1
<1> HIDE DEF fs
<1>3. (ii + 1) * fs <= kk * fs
  BY <1>1, MulMono
<1>4. (ii + 1) * fs <= nn
  BY <1>1, <1>3
<1>5. (ii + 1) * fs \in Nat
  BY <1>1, MulNat
<1>6. ((ii + 1) * fs) * w <= nn * w
  BY <1>4, <1>5, MulMono
<1>7. ((ii + 1) * fs) * w = (ii + 1) * (fs * w)
  BY <1>1, MulAssoc
<1> QED
  BY <1>1, <1>2, <1>6, <1>7 DEF fs

-----------------------------------------------------------------------------
(* facts about a state satisfying IndInv *)
LEMMA Facts ==
  ASSUME IndInv
  PROVE  /\ n \in Nat /\ k \in Nat /\ f \in Nat /\ t \in Nat /\ i \in Nat /\ W \in Nat /\ Fs \in Nat
         /\ n >= 2 /\ k >= 2 /\ k <= n /\ f >= 1 /\ W >= 1 /\ Fs >= 1
         /\ n * f \in Nat /\ n * W \in Nat
         /\ Pos(n * f, MaxN * MaxF) = 1..(n * f)
         /\ Pos(n * W, MaxN * MaxW) = 1..(n * W)
         /\ i < k => (i + 1) * (Fs * f) <= n * f
         /\ i < k => (i + 1) * (Fs * W) <= n * W
<1> USE ConstAssump
<1>1. /\ n \in Nat /\ k \in Nat /\ f \in Nat /\ t \in Nat /\ i \in Nat
      /\ n >= 2 /\ k >= 2 /\ k <= n /\ f >= 1 /\ n <= MaxN /\ f <= MaxF /\ t <= MaxT
  BY DEF IndInv
<1>2. W \in Nat /\ W >= 1 /\ MaxW \in Nat /\ W <= MaxW
  BY <1>1 DEF W, Tw, MaxW
<1>3. n * f \in Nat /\ n * W \in Nat /\ MaxN * MaxF \in Nat /\ MaxN * MaxW \in Nat
  BY <1>1, <1>2, MulNat
<1>4. n * f <= MaxN * MaxF /\ n * W <= MaxN * MaxW
  BY <1>1, <1>2, MulMono2
<1>5. Pos(n * f, MaxN * MaxF) = 1..(n * f) /\ Pos(n * W, MaxN * MaxW) = 1..(n * W)
  BY <1>3, <1>4, PosRange
<1>6. Fs \in Nat /\ Fs >= 1
  BY <1>1, FoldFits DEF Fs
<1>7. i < k => (i + 1) * (Fs * f) <= n * f
  BY <1>1, FoldFits DEF Fs
<1>8. i < k => (i + 1) * (Fs * W) <= n * W
  BY <1>1, <1>2, FoldFits DEF Fs
<1> QED
  BY <1>1, <1>2, <1>3, <1>5, <1>6, <1>7, <1>8

\* the two closed forms of the buffers
Id(m)          == [p \in 1..m |-> p]
Moved(m, len)  == [p \in 1..m |-> Sigma(p, i, len)]

LEMMA BufForms ==
  ASSUME IndInv
  PROVE  /\ RBuf0(n, f) = Id(n * f) /\ TBuf0(n, W) = Id(n * W)
         /\ RBufAt = IF Boundary THEN Id(n * f) ELSE Moved(n * f, Fs * f)
         /\ TBufAt = IF Boundary THEN Id(n * W) ELSE Moved(n * W, Fs * W)
  BY Facts DEF RBuf0, TBuf0, RBufAt, TBufAt, Id, Moved

\* one swap applied to the original layout gives the moved layout, applied to the moved layout gives the original one
LEMMA SwapForms ==
  ASSUME NEW m \in Nat, NEW bs \in Nat, NEW w \in Nat, i \in Nat, (i + 1) * (bs * w) <= m
  PROVE  /\ SwapBlocks(Id(m), i, bs, w) = Moved(m, bs * w)
         /\ SwapBlocks(Moved(m, bs * w), i, bs, w) = Id(m)
<1> DEFINE len == bs * w
<1>1. len \in Nat
  BY MulNat
<1>2. \A p \in 1..m : Sigma(p, i, len) \in 1..m /\ Sigma(Sigma(p, i, len), i, len) = p
  BY <1>1, SigmaProps
<1>3. Id(m) \in [1..m -> Int]
  BY DEF Id
<1>4. Moved(m, len) \in [1..m -> Int]
  BY <1>2 DEF Moved
<1>5. SwapBlocks(Id(m), i, bs, w) = [p \in 1..m |-> Id(m)[Sigma(p, i, len)]]
  BY <1>3, SwapIsSigma
<1>6. SwapBlocks(Moved(m, len), i, bs, w) = [p \in 1..m |-> Moved(m, len)[Sigma(p, i, len)]]
  BY <1>4, SwapIsSigma
<1>7. \A p \in 1..m : Id(m)[Sigma(p, i, len)] = Sigma(p, i, len)
  BY <1>2 DEF Id
<1>8. \A p \in 1..m : Moved(m, len)[Sigma(p, i, len)] = p
  BY <1>2 DEF Moved
<1>9. [p \in 1..m |-> Id(m)[Sigma(p, i, len)]] = Moved(m, len)
  BY <1>7 DEF Moved
<1>10. [p \in 1..m |-> Moved(m, len)[Sigma(p, i, len)]] = Id(m)
  BY <1>8 DEF Id
<1> QED
  BY <1>5, <1>6, <1>9, <1>10

-----------------------------------------------------------------------------
THEOREM IndInvInit == Init => IndInv
<1> SUFFICES ASSUME Init PROVE IndInv
  OBVIOUS
<1> USE ConstAssump
<1>1. Boundary /\ pc = "swapin" /\ i = 0 /\ mi = 0
  BY DEF Init, Boundary
<1>2. rbuf = RBufAt /\ tbuf = TBufAt
  BY <1>1 DEF Init, RBufAt, TBufAt, W
<1> QED
  BY <1>1, <1>2 DEF Init, IndInv

\* the control part of IndInv (everything except the two buffer equations)
Ctl ==
  /\ n \in 2..MaxN /\ k \in 2..MaxN /\ k <= n /\ f \in 1..MaxF /\ t \in 0..MaxT
  /\ mode \in {"inplace", "cv"}
  /\ nm \in 1..MaxM /\ (mode = "inplace" => nm = 1)
  /\ pc \in {"swapin", "fit", "swapout", "yield", "eval", "done"}
  /\ i \in 0..MaxN /\ mi \in 0..(MaxM - 1) /\ mi < nm
  /\ (pc \in {"swapin", "fit", "swapout"} => i < k)
  /\ (pc = "yield" => i = k)
  /\ (pc = "eval" => mode = "cv" /\ i < k)
  /\ (pc = "done" => i = IF mode = "cv" THEN k ELSE 0)
  /\ (pc \notin {"fit", "eval"} => mi = 0)

LEMMA IndInvSplit == IndInv <=> (Ctl /\ rbuf = RBufAt /\ tbuf = TBufAt)
  BY DEF IndInv, Ctl

THEOREM IndInvStep == IndInv /\ [Next]_vars => IndInv'
<1> SUFFICES ASSUME IndInv, [Next]_vars PROVE IndInv'
  OBVIOUS
<1> USE ConstAssump
<1>f. /\ n \in Nat /\ k \in Nat /\ f \in Nat /\ t \in Nat /\ i \in Nat /\ W \in Nat /\ Fs \in Nat
      /\ n * f \in Nat /\ n * W \in Nat
      /\ i < k => (i + 1) * (Fs * f) <= n * f
      /\ i < k => (i + 1) * (Fs * W) <= n * W
  BY Facts
<1>b. /\ RBufAt = IF Boundary THEN Id(n * f) ELSE Moved(n * f, Fs * f)
      /\ TBufAt = IF Boundary THEN Id(n * W) ELSE Moved(n * W, Fs * W)
  BY BufForms
<1>c. Ctl /\ rbuf = RBufAt /\ tbuf = TBufAt
  BY IndInvSplit
<1>p. ASSUME Ctl', n' = n, k' = k, f' = f, t' = t,
             rbuf' = IF Boundary' THEN Id(n * f) ELSE [p \in 1..(n * f) |-> Sigma(p, i', Fs * f)],
             tbuf' = IF Boundary' THEN Id(n * W) ELSE [p \in 1..(n * W) |-> Sigma(p, i', Fs * W)]
      PROVE  IndInv'
  <2>1. IndInv' <=> (Ctl' /\ rbuf' = RBufAt' /\ tbuf' = TBufAt')
    BY DEF IndInv, Ctl
  <2>2. Fs' = Fs /\ W' = W
    BY <1>p DEF Fs, W
  <2>3. n \in 2..MaxN /\ f \in 1..MaxF /\ t \in 0..MaxT
    BY <1>c DEF Ctl
  <2>4. Pos(n * f, MaxN * MaxF) = 1..(n * f) /\ Pos(n * W, MaxN * MaxW) = 1..(n * W)
    BY Facts
  <2>5. RBufAt' = IF Boundary' THEN Id(n * f) ELSE [p \in 1..(n * f) |-> Sigma(p, i', Fs * f)]
    BY <1>p, <2>2, <2>4 DEF RBufAt, RBuf0, Id
  <2>6. TBufAt' = IF Boundary' THEN Id(n * W) ELSE [p \in 1..(n * W) |-> Sigma(p, i', Fs * W)]
    BY <1>p, <2>2, <2>4 DEF TBufAt, TBuf0, Id
  <2> QED
    BY <1>p, <2>1, <2>5, <2>6
<1>1. CASE SwapIn
  <2>1. pc = "swapin" /\ pc' = "fit" /\ Boundary /\ ~Boundary' /\ i' = i /\ i < k
    BY <1>1, <1>c DEF SwapIn, Boundary, Ctl
  <2>2. Ctl'
    BY <1>1, <1>c DEF SwapIn, Ctl
  <2>3. rbuf' = Moved(n * f, Fs * f)
    BY <1>1, <2>1, <1>b, <1>c, <1>f, SwapForms DEF SwapIn
  <2>4. tbuf' = Moved(n * W, Fs * W)
    BY <1>1, <2>1, <1>b, <1>c, <1>f, SwapForms DEF SwapIn
  <2> QED
    BY <1>1, <2>1, <2>2, <2>3, <2>4, <1>p DEF SwapIn, Moved
<1>2. CASE Fit
  <2>1. pc = "fit" /\ pc' \in {"fit", "swapout"} /\ ~Boundary /\ ~Boundary' /\ i' = i
    BY <1>2 DEF Fit, Boundary
  <2>2. Ctl'
    BY <1>2, <1>c DEF Fit, Ctl
  <2> QED
    BY <1>2, <2>1, <2>2, <1>b, <1>c, <1>p DEF Fit, Moved
<1>3. CASE SwapOut
  <2>1. pc = "swapout" /\ pc' \in {"yield", "swapin"} /\ ~Boundary /\ Boundary' /\ i < k
    BY <1>3, <1>c DEF SwapOut, Boundary, Ctl
  <2>2. Ctl'
    BY <1>3, <1>c DEF SwapOut, Ctl
  <2>3. rbuf' = Id(n * f)
    BY <1>3, <2>1, <1>b, <1>c, <1>f, SwapForms DEF SwapOut
  <2>4. tbuf' = Id(n * W)
    BY <1>3, <2>1, <1>b, <1>c, <1>f, SwapForms DEF SwapOut
  <2> QED
    BY <1>3, <2>1, <2>2, <2>3, <2>4, <1>p DEF SwapOut
<1>4. CASE Yield
  <2>1. pc = "yield" /\ pc' \in {"eval", "done"} /\ Boundary /\ Boundary'
    BY <1>4 DEF Yield, Boundary
  <2>2. Ctl'
    BY <1>4, <1>c DEF Yield, Ctl
  <2> QED
    BY <1>4, <2>1, <2>2, <1>b, <1>c, <1>p DEF Yield
<1>5. CASE Eval
  <2>1. pc = "eval" /\ pc' \in {"eval", "done"} /\ Boundary /\ Boundary'
    BY <1>5 DEF Eval, Boundary
  <2>2. Ctl'
    BY <1>5, <1>c DEF Eval, Ctl
  <2> QED
    BY <1>5, <2>1, <2>2, <1>b, <1>c, <1>p DEF Eval
<1>6. CASE UNCHANGED vars
  <2>1. Ctl' /\ Boundary' = Boundary /\ i' = i
    BY <1>6, <1>c DEF vars, Ctl, Boundary
  <2> QED
    BY <1>6, <2>1, <1>b, <1>c, <1>p DEF vars, Moved
<1> QED
  BY <1>1, <1>2, <1>3, <1>4, <1>5, <1>6 DEF Next

THEOREM IndInvSafe == IndInv => InvBoundary /\ InvDone /\ InvPerm
<1> SUFFICES ASSUME IndInv PROVE InvBoundary /\ InvDone /\ InvPerm
  OBVIOUS
<1> USE ConstAssump
<1>1. rbuf = RBufAt /\ tbuf = TBufAt
  BY DEF IndInv
<1>2. InvBoundary /\ InvDone
  BY <1>1 DEF InvBoundary, InvDone, Restored, RBufAt, TBufAt, Boundary
<1>3. InvPerm
  <2>f. /\ n \in Nat /\ k \in Nat /\ f \in Nat /\ i \in Nat /\ W \in Nat /\ Fs \in Nat
        /\ n * f \in Nat /\ n * W \in Nat
        /\ i < k => (i + 1) * (Fs * f) <= n * f
        /\ i < k => (i + 1) * (Fs * W) <= n * W
    BY Facts
  <2>b. /\ RBuf0(n, f) = Id(n * f) /\ TBuf0(n, W) = Id(n * W)
        /\ RBufAt = IF Boundary THEN Id(n * f) ELSE Moved(n * f, Fs * f)
        /\ TBufAt = IF Boundary THEN Id(n * W) ELSE Moved(n * W, Fs * W)
    BY BufForms
  <2>1. CASE Boundary
    BY <2>1, <1>1, <2>b DEF InvPerm, IsPerm
  <2>2. CASE ~Boundary
    <3>1. i < k
      BY <2>2 DEF IndInv, Boundary
    <3>2. ASSUME NEW m \in Nat, NEW len \in Nat, (i + 1) * len <= m
          PROVE  IsPerm(Moved(m, len), Id(m))
      <4>1. \A p \in 1..m : Sigma(p, i, len) \in 1..m /\ Sigma(Sigma(p, i, len), i, len) = p
        BY <2>f, <3>2, SigmaProps
      <4>2. DOMAIN Moved(m, len) = 1..m /\ DOMAIN Id(m) = 1..m
        BY DEF Moved, Id
      <4>3. RangeOf(Id(m)) = 1..m
        BY DEF RangeOf, Id
      <4>4. RangeOf(Moved(m, len)) = {Sigma(p, i, len) : p \in 1..m}
        BY DEF RangeOf, Moved
      <4>5. {Sigma(p, i, len) : p \in 1..m} = 1..m
        BY <4>1
      <4> QED
        BY <4>2, <4>3, <4>4, <4>5 DEF IsPerm
    <3>3. Fs * f \in Nat /\ Fs * W \in Nat
      BY <2>f, MulNat
    <3> QED
      BY <2>2, <3>1, <3>2, <3>3, <1>1, <2>b, <2>f DEF InvPerm
  <2> QED
    BY <2>1, <2>2
<1> QED
  BY <1>2, <1>3

THEOREM Correct == Init /\ [][Next]_vars => [](InvBoundary /\ InvDone /\ InvPerm)
<1>1. Init => IndInv
  BY IndInvInit
<1>2. IndInv /\ [Next]_vars => IndInv'
  BY IndInvStep
<1>3. IndInv => InvBoundary /\ InvDone /\ InvPerm
  BY IndInvSafe
<1> QED
  BY <1>1, <1>2, <1>3, PTL
=============================================================================
