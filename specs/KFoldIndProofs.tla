--------------------------- MODULE KFoldIndProofs ---------------------------
(***************************************************************************)
(* X06 (a), TLAPS -- the inductive invariant of KFoldInd.tla for ARBITRARY *)
(* constants MaxN, MaxF, MaxT, MaxM (natural numbers), i.e. for all n, k,  *)
(* f, t, nm: the module that Apalache checks for MaxN <= 8 and that TLC    *)
(* cross-checks against KFold.tla is proved here without any bound.        *)
(*                                                                         *)
(*   IndInvInit   Init => IndInv                                           *)
(*   IndInvStep   IndInv /\ [Next]_vars => IndInv'                         *)
(*   IndInvSafe   IndInv => InvBoundary /\ InvDone /\ InvPerm              *)
(*   IndInvRows   IndInv => InvRowsIntact   (via SigmaIsRho: the flat      *)
(*                exchange moves whole rows)                               *)
(*   Correct      Init /\ [][Next]_vars => [](InvBoundary /\ InvDone /\    *)
(*                InvPerm /\ InvRowsIntact)                                *)
(* (InvTrainNow for all n is proved pointwise by Apalache on KFoldIdx.tla; *)
(* it is not re-proved here.)                                              *)
(***************************************************************************)
EXTENDS KFoldInd, TLAPS

ASSUME ConstAssump ==
  /\ MaxN \in Nat /\ MaxF \in Nat /\ MaxT \in Nat /\ MaxM \in Nat
  /\ Variant = "ok"

-----------------------------------------------------------------------------
LEMMA MulNat == \A a, b \in Nat : a * b \in Nat
  OBVIOUS
LEMMA MulSucc == \A a, b \in Nat : (a + 1) * b = b * a + b
  OBVIOUS
LEMMA MulGe == \A a, b \in Nat : a # 0 => b * a >= b
  OBVIOUS
LEMMA MulAssoc == \A a, b, c \in Nat : (a * b) * c = a * (b * c)
  OBVIOUS
LEMMA MulMono == \A a, c, m \in Nat : a <= c => a * m <= c * m
  OBVIOUS
LEMMA MulMono2 == \A a, b, c, d \in Nat : (a <= c /\ b <= d) => a * b <= c * d
  <1> TAKE a, b, c, d \in Nat
  <1> HAVE a <= c /\ b <= d
  <1>1. a * b <= c * b
    BY MulMono
  <1>2. c * b = b * c /\ c * d = d * c
    OBVIOUS
  <1>3. b * c <= d * c
    BY MulMono
  <1>4. a * b \in Nat /\ c * b \in Nat /\ c * d \in Nat
    BY MulNat
  <1> QED
    BY <1>1, <1>2, <1>3, <1>4

LEMMA PosRange == \A m, cap \in Nat : m <= cap => Pos(m, cap) = 1..m
  BY DEF Pos

LEMMA SigmaProps ==
  ASSUME NEW m \in Nat, NEW idx \in Nat, NEW len \in Nat, (idx + 1) * len <= m,
         NEW p \in 1..m
  PROVE  /\ Sigma(p, idx, len) \in 1..m
         /\ Sigma(Sigma(p, idx, len), idx, len) = p
<1> DEFINE start == len * idx
<1>1. start \in Nat
  BY MulNat
<1>2. start + len <= m
  BY MulSucc
<1>3. idx # 0 => start >= len
  BY MulGe
<1>4. Sigma(p, idx, len) =
        IF idx = 0 THEN p
        ELSE IF p <= len THEN start + p
        ELSE IF p > start /\ p <= start + len THEN p - start
        ELSE p
  BY DEF Sigma
<1> DEFINE q == Sigma(p, idx, len)
<1>5. Sigma(q, idx, len) =
        IF idx = 0 THEN q
        ELSE IF q <= len THEN start + q
        ELSE IF q > start /\ q <= start + len THEN q - start
        ELSE q
  BY DEF Sigma
<1> HIDE DEF start
<1>6. q \in 1..m
  BY <1>1, <1>2, <1>3, <1>4
<1>7. Sigma(q, idx, len) = p
  BY <1>1, <1>2, <1>3, <1>4, <1>5
<1> QED
  BY <1>6, <1>7

\* the if-cascade of assist_swap_array2 is the re-indexing by Sigma
LEMMA SwapIsSigma ==
  ASSUME NEW m \in Nat, NEW buf \in [1..m -> Int], NEW idx \in Nat, NEW bs \in Nat, NEW w \in Nat,
         (idx + 1) * (bs * w) <= m
  PROVE  SwapBlocks(buf, idx, bs, w) = [p \in 1..m |-> buf[Sigma(p, idx, bs * w)]]
<1> DEFINE len == bs * w
<1>1. len \in Nat
  BY MulNat
<1>2. DOMAIN buf = 1..m
  OBVIOUS
<1>3. CASE idx = 0
  <2>1. SwapBlocks(buf, idx, bs, w) = buf
    BY <1>3 DEF SwapBlocks
  <2>2. \A p \in 1..m : Sigma(p, idx, len) = p
    BY <1>3 DEF Sigma
  <2>3. buf = [p \in 1..m |-> buf[p]]
    OBVIOUS
  <2> QED
    BY <2>1, <2>2, <2>3
<1>4. CASE idx # 0
  BY <1>4, <1>2, ConstAssump DEF SwapBlocks, Sigma
<1> QED
  BY <1>3, <1>4

\* fold i < k of size n \div k fits into the buffer
LEMMA FoldFits ==
  ASSUME NEW nn \in Nat, NEW kk \in Nat, NEW ii \in Nat, NEW w \in Nat, kk >= 1, kk <= nn, ii < kk
  PROVE  /\ nn \div kk \in Nat
         /\ nn \div kk >= 1
         /\ (ii + 1) * ((nn \div kk) * w) <= nn * w
<1> DEFINE fs == nn \div kk
<1>1. fs \in Nat /\ kk * fs <= nn /\ nn < kk * fs + kk
  OBVIOUS
<1>2. fs >= 1
  BY <1>1
<1> HIDE DEF fs
<1>3. (ii + 1) * fs <= kk * fs
  BY <1>1, MulMono
<1>4. (ii + 1) * fs <= nn
  BY <1>1, <1>3
<1>5. (ii + 1) * fs \in Nat
  BY <1>1, MulNat
<1>6. ((ii + 1) * fs) * w <= nn * w
  BY <1>4, <1>5, MulMono
<1>7. ((ii + 1) * fs) * w = (ii + 1) * (fs * w)
  BY <1>1, MulAssoc
<1> QED
  BY <1>1, <1>2, <1>6, <1>7 DEF fs

-----------------------------------------------------------------------------
(* facts about a state satisfying IndInv *)
LEMMA Facts ==
  ASSUME IndInv
  PROVE  /\ n \in Nat /\ k \in Nat /\ f \in Nat /\ t \in Nat /\ i \in Nat /\ W \in Nat /\ Fs \in Nat
         /\ n >= 2 /\ k >= 2 /\ k <= n /\ f >= 1 /\ W >= 1 /\ Fs >= 1
         /\ n * f \in Nat /\ n * W \in Nat
         /\ Pos(n * f, MaxN * MaxF) = 1..(n * f)
         /\ Pos(n * W, MaxN * MaxW) = 1..(n * W)
         /\ i < k => (i + 1) * (Fs * f) <= n * f
         /\ i < k => (i + 1) * (Fs * W) <= n * W
<1> USE ConstAssump
<1>1. /\ n \in Nat /\ k \in Nat /\ f \in Nat /\ t \in Nat /\ i \in Nat
      /\ n >= 2 /\ k >= 2 /\ k <= n /\ f >= 1 /\ n <= MaxN /\ f <= MaxF /\ t <= MaxT
  BY DEF IndInv
<1>2. W \in Nat /\ W >= 1 /\ MaxW \in Nat /\ W <= MaxW
  BY <1>1 DEF W, Tw, MaxW
<1>3. n * f \in Nat /\ n * W \in Nat /\ MaxN * MaxF \in Nat /\ MaxN * MaxW \in Nat
  BY <1>1, <1>2, MulNat
<1>4. n * f <= MaxN * MaxF /\ n * W <= MaxN * MaxW
  BY <1>1, <1>2, MulMono2
<1>5. Pos(n * f, MaxN * MaxF) = 1..(n * f) /\ Pos(n * W, MaxN * MaxW) = 1..(n * W)
  BY <1>3, <1>4, PosRange
<1>6. Fs \in Nat /\ Fs >= 1
  BY <1>1, FoldFits DEF Fs
<1>7. i < k => (i + 1) * (Fs * f) <= n * f
  BY <1>1, FoldFits DEF Fs
<1>8. i < k => (i + 1) * (Fs * W) <= n * W
  BY <1>1, <1>2, FoldFits DEF Fs
<1> QED
  BY <1>1, <1>2, <1>3, <1>5, <1>6, <1>7, <1>8

\* the two closed forms of the buffers
Id(m)          == [p \in 1..m |-> p]
Moved(m, len)  == [p \in 1..m |-> Sigma(p, i, len)]

LEMMA BufForms ==
  ASSUME IndInv
  PROVE  /\ RBuf0(n, f) = Id(n * f) /\ TBuf0(n, W) = Id(n * W)
         /\ RBufAt = IF Boundary THEN Id(n * f) ELSE Moved(n * f, Fs * f)
         /\ TBufAt = IF Boundary THEN Id(n * W) ELSE Moved(n * W, Fs * W)
  BY Facts DEF RBuf0, TBuf0, RBufAt, TBufAt, Id, Moved

\* one swap applied to the original layout gives the moved layout, applied to the moved layout gives the original one
LEMMA SwapForms ==
  ASSUME NEW m \in Nat, NEW bs \in Nat, NEW w \in Nat, i \in Nat, (i + 1) * (bs * w) <= m
  PROVE  /\ SwapBlocks(Id(m), i, bs, w) = Moved(m, bs * w)
         /\ SwapBlocks(Moved(m, bs * w), i, bs, w) = Id(m)
<1> DEFINE len == bs * w
<1>1. len \in Nat
  BY MulNat
<1>2. \A p \in 1..m : Sigma(p, i, len) \in 1..m /\ Sigma(Sigma(p, i, len), i, len) = p
  BY <1>1, SigmaProps
<1>3. Id(m) \in [1..m -> Int]
  BY DEF Id
<1>4. Moved(m, len) \in [1..m -> Int]
  BY <1>2 DEF Moved
<1>5. SwapBlocks(Id(m), i, bs, w) = [p \in 1..m |-> Id(m)[Sigma(p, i, len)]]
  BY <1>3, SwapIsSigma
<1>6. SwapBlocks(Moved(m, len), i, bs, w) = [p \in 1..m |-> Moved(m, len)[Sigma(p, i, len)]]
  BY <1>4, SwapIsSigma
<1>7. \A p \in 1..m : Id(m)[Sigma(p, i, len)] = Sigma(p, i, len)
  BY <1>2 DEF Id
<1>8. \A p \in 1..m : Moved(m, len)[Sigma(p, i, len)] = p
  BY <1>2 DEF Moved
<1>9. [p \in 1..m |-> Id(m)[Sigma(p, i, len)]] = Moved(m, len)
  BY <1>7 DEF Moved
<1>10. [p \in 1..m |-> Moved(m, len)[Sigma(p, i, len)]] = Id(m)
  BY <1>8 DEF Id
<1> QED
  BY <1>5, <1>6, <1>9, <1>10

-----------------------------------------------------------------------------
THEOREM IndInvInit == Init => IndInv
<1> SUFFICES ASSUME Init PROVE IndInv
  OBVIOUS
<1> USE ConstAssump
<1>1. Boundary /\ pc = "swapin" /\ i = 0 /\ mi = 0
  BY DEF Init, Boundary
<1>2. rbuf = RBufAt /\ tbuf = TBufAt
  BY <1>1 DEF Init, RBufAt, TBufAt, W
<1> QED
  BY <1>1, <1>2 DEF Init, IndInv

\* the control part of IndInv (everything except the two buffer equations)
Ctl ==
  /\ n \in 2..MaxN /\ k \in 2..MaxN /\ k <= n /\ f \in 1..MaxF /\ t \in 0..MaxT
  /\ mode \in {"inplace", "cv"}
  /\ nm \in 1..MaxM /\ (mode = "inplace" => nm = 1)
  /\ pc \in {"swapin", "fit", "swapout", "yield", "eval", "done"}
  /\ i \in 0..MaxN /\ mi \in 0..(MaxM - 1) /\ mi < nm
  /\ (pc \in {"swapin", "fit", "swapout"} => i < k)
  /\ (pc = "yield" => i = k)
  /\ (pc = "eval" => mode = "cv" /\ i < k)
  /\ (pc = "done" => i = IF mode = "cv" THEN k ELSE 0)
  /\ (pc \notin {"fit", "eval"} => mi = 0)

LEMMA IndInvSplit == IndInv <=> (Ctl /\ rbuf = RBufAt /\ tbuf = TBufAt)
  BY DEF IndInv, Ctl

THEOREM IndInvStep == IndInv /\ [Next]_vars => IndInv'
<1> SUFFICES ASSUME IndInv, [Next]_vars PROVE IndInv'
  OBVIOUS
<1> USE ConstAssump
<1>f. /\ n \in Nat /\ k \in Nat /\ f \in Nat /\ t \in Nat /\ i \in Nat /\ W \in Nat /\ Fs \in Nat
      /\ n * f \in Nat /\ n * W \in Nat
      /\ i < k => (i + 1) * (Fs * f) <= n * f
      /\ i < k => (i + 1) * (Fs * W) <= n * W
  BY Facts
<1>b. /\ RBufAt = IF Boundary THEN Id(n * f) ELSE Moved(n * f, Fs * f)
      /\ TBufAt = IF Boundary THEN Id(n * W) ELSE Moved(n * W, Fs * W)
  BY BufForms
<1>c. Ctl /\ rbuf = RBufAt /\ tbuf = TBufAt
  BY IndInvSplit
<1>p. ASSUME Ctl', n' = n, k' = k, f' = f, t' = t,
             rbuf' = IF Boundary' THEN Id(n * f) ELSE [p \in 1..(n * f) |-> Sigma(p, i', Fs * f)],
             tbuf' = IF Boundary' THEN Id(n * W) ELSE [p \in 1..(n * W) |-> Sigma(p, i', Fs * W)]
      PROVE  IndInv'
  <2>1. IndInv' <=> (Ctl' /\ rbuf' = RBufAt' /\ tbuf' = TBufAt')
    BY DEF IndInv, Ctl
  <2>2. Fs' = Fs /\ W' = W
    BY <1>p DEF Fs, W
  <2>3. n \in 2..MaxN /\ f \in 1..MaxF /\ t \in 0..MaxT
    BY <1>c DEF Ctl
  <2>4. Pos(n * f, MaxN * MaxF) = 1..(n * f) /\ Pos(n * W, MaxN * MaxW) = 1..(n * W)
    BY Facts
  <2>5. RBufAt' = IF Boundary' THEN Id(n * f) ELSE [p \in 1..(n * f) |-> Sigma(p, i', Fs * f)]
    BY <1>p, <2>2, <2>4 DEF RBufAt, RBuf0, Id
  <2>6. TBufAt' = IF Boundary' THEN Id(n * W) ELSE [p \in 1..(n * W) |-> Sigma(p, i', Fs * W)]
    BY <1>p, <2>2, <2>4 DEF TBufAt, TBuf0, Id
  <2> QED
    BY <1>p, <2>1, <2>5, <2>6
<1>1. CASE SwapIn
  <2>1. pc = "swapin" /\ pc' = "fit" /\ Boundary /\ ~Boundary' /\ i' = i /\ i < k
    BY <1>1, <1>c DEF SwapIn, Boundary, Ctl
  <2>2. Ctl'
    BY <1>1, <1>c DEF SwapIn, Ctl
  <2>3. rbuf' = Moved(n * f, Fs * f)
    BY <1>1, <2>1, <1>b, <1>c, <1>f, SwapForms DEF SwapIn
  <2>4. tbuf' = Moved(n * W, Fs * W)
    BY <1>1, <2>1, <1>b, <1>c, <1>f, SwapForms DEF SwapIn
  <2> QED
    BY <1>1, <2>1, <2>2, <2>3, <2>4, <1>p DEF SwapIn, Moved
<1>2. CASE Fit
  <2>1. pc = "fit" /\ pc' \in {"fit", "swapout"} /\ ~Boundary /\ ~Boundary' /\ i' = i
    BY <1>2 DEF Fit, Boundary
  <2>2. Ctl'
    BY <1>2, <1>c DEF Fit, Ctl
  <2> QED
    BY <1>2, <2>1, <2>2, <1>b, <1>c, <1>p DEF Fit, Moved
<1>3. CASE SwapOut
  <2>1. pc = "swapout" /\ pc' \in {"yield", "swapin"} /\ ~Boundary /\ Boundary' /\ i < k
    BY <1>3, <1>c DEF SwapOut, Boundary, Ctl
  <2>2. Ctl'
    BY <1>3, <1>c DEF SwapOut, Ctl
  <2>3. rbuf' = Id(n * f)
    BY <1>3, <2>1, <1>b, <1>c, <1>f, SwapForms DEF SwapOut
  <2>4. tbuf' = Id(n * W)
    BY <1>3, <2>1, <1>b, <1>c, <1>f, SwapForms DEF SwapOut
  <2> QED
    BY <1>3, <2>1, <2>2, <2>3, <2>4, <1>p DEF SwapOut
<1>4. CASE Yield
  <2>1. pc = "yield" /\ pc' \in {"eval", "done"} /\ Boundary /\ Boundary'
    BY <1>4 DEF Yield, Boundary
  <2>2. Ctl'
    BY <1>4, <1>c DEF Yield, Ctl
  <2> QED
    BY <1>4, <2>1, <2>2, <1>b, <1>c, <1>p DEF Yield
<1>5. CASE Eval
  <2>1. pc = "eval" /\ pc' \in {"eval", "done"} /\ Boundary /\ Boundary'
    BY <1>5 DEF Eval, Boundary
  <2>2. Ctl'
    BY <1>5, <1>c DEF Eval, Ctl
  <2> QED
    BY <1>5, <2>1, <2>2, <1>b, <1>c, <1>p DEF Eval
<1>6. CASE UNCHANGED vars
  <2>1. Ctl' /\ Boundary' = Boundary /\ i' = i
    BY <1>6, <1>c DEF vars, Ctl, Boundary
  <2> QED
    BY <1>6, <2>1, <1>b, <1>c, <1>p DEF vars, Moved
<1> QED
  BY <1>1, <1>2, <1>3, <1>4, <1>5, <1>6 DEF Next

THEOREM IndInvSafe == IndInv => InvBoundary /\ InvDone /\ InvPerm
<1> SUFFICES ASSUME IndInv PROVE InvBoundary /\ InvDone /\ InvPerm
  OBVIOUS
<1> USE ConstAssump
<1>1. rbuf = RBufAt /\ tbuf = TBufAt
  BY DEF IndInv
<1>2. InvBoundary /\ InvDone
  BY <1>1 DEF InvBoundary, InvDone, Restored, RBufAt, TBufAt, Boundary
<1>3. InvPerm
  <2>f. /\ n \in Nat /\ k \in Nat /\ f \in Nat /\ i \in Nat /\ W \in Nat /\ Fs \in Nat
        /\ n * f \in Nat /\ n * W \in Nat
        /\ i < k => (i + 1) * (Fs * f) <= n * f
        /\ i < k => (i + 1) * (Fs * W) <= n * W
    BY Facts
  <2>b. /\ RBuf0(n, f) = Id(n * f) /\ TBuf0(n, W) = Id(n * W)
        /\ RBufAt = IF Boundary THEN Id(n * f) ELSE Moved(n * f, Fs * f)
        /\ TBufAt = IF Boundary THEN Id(n * W) ELSE Moved(n * W, Fs * W)
    BY BufForms
  <2>1. CASE Boundary
    BY <2>1, <1>1, <2>b DEF InvPerm, IsPerm
  <2>2. CASE ~Boundary
    <3>1. i < k
      BY <2>2 DEF IndInv, Boundary
    <3>2. ASSUME NEW m \in Nat, NEW len \in Nat, (i + 1) * len <= m
          PROVE  IsPerm(Moved(m, len), Id(m))
      <4>1. \A p \in 1..m : Sigma(p, i, len) \in 1..m /\ Sigma(Sigma(p, i, len), i, len) = p
        BY <2>f, <3>2, SigmaProps
      <4>2. DOMAIN Moved(m, len) = 1..m /\ DOMAIN Id(m) = 1..m
        BY DEF Moved, Id
      <4>3. RangeOf(Id(m)) = 1..m
        BY DEF RangeOf, Id
      <4>4. RangeOf(Moved(m, len)) = {Sigma(p, i, len) : p \in 1..m}
        BY DEF RangeOf, Moved
      <4>5. {Sigma(p, i, len) : p \in 1..m} = 1..m
        BY <4>1
      <4> QED
        BY <4>2, <4>3, <4>4, <4>5 DEF IsPerm
    <3>3. Fs * f \in Nat /\ Fs * W \in Nat
      BY <2>f, MulNat
    <3> QED
      BY <2>2, <3>1, <3>2, <3>3, <1>1, <2>b, <2>f DEF InvPerm
  <2> QED
    BY <2>1, <2>2
<1> QED
  BY <1>2, <1>3

-----------------------------------------------------------------------------
(* InvRowsIntact for all n: rows move as a whole.  Rho is the block exchange on rows (as in         *)
(* KFoldIdx.tla); the flat exchange Sigma maps cell c of row q to cell c of row Rho(q).             *)
Rho(r, idx, bs) ==
  IF idx = 0 THEN r
  ELSE IF r < bs THEN r + idx * bs
  ELSE IF r >= idx * bs /\ r < idx * bs + bs THEN r - idx * bs
  ELSE r

LEMMA MulDistL == \A a, b, c \in Nat : (a + b) * c = a * c + b * c
  OBVIOUS
LEMMA MulComm == \A a, b \in Nat : a * b = b * a
  OBVIOUS

LEMMA RhoRange ==
  ASSUME NEW rows \in Nat, NEW idx \in Nat, NEW bs \in Nat, (idx + 1) * bs <= rows,
         NEW q \in 0..(rows - 1)
  PROVE  Rho(q, idx, bs) \in 0..(rows - 1)
<1>1. idx * bs \in Nat /\ idx * bs + bs <= rows
  BY MulNat, MulSucc, MulComm
<1> DEFINE ib == idx * bs
<1>2. Rho(q, idx, bs) = IF idx = 0 THEN q ELSE IF q < bs THEN q + ib
                        ELSE IF q >= ib /\ q < ib + bs THEN q - ib ELSE q
  BY DEF Rho
<1> HIDE DEF ib
<1> QED
  BY <1>1, <1>2 DEF ib

LEMMA SigmaIsRho ==
  ASSUME NEW rows \in Nat, NEW idx \in Nat, NEW bs \in Nat, NEW w \in Nat, (idx + 1) * bs <= rows,
         NEW q \in 0..(rows - 1), NEW c \in 1..w
  PROVE  Sigma(q * w + c, idx, bs * w) = Rho(q, idx, bs) * w + c
<1> DEFINE len == bs * w
           ib == idx * bs
           start == len * idx
           qw == q * w
           p == qw + c
<1>1. q \in Nat /\ c \in Nat /\ c >= 1 /\ c <= w
  OBVIOUS
<1>2. len \in Nat /\ start \in Nat /\ qw \in Nat /\ ib \in Nat /\ ib * w \in Nat
  BY <1>1, MulNat
<1>3. start = ib * w
  BY MulAssoc, MulComm
<1>4. Sigma(p, idx, len) =
        IF idx = 0 THEN p
        ELSE IF p <= len THEN start + p
        ELSE IF p > start /\ p <= start + len THEN p - start
        ELSE p
  BY DEF Sigma
<1>5. Rho(q, idx, bs) = IF idx = 0 THEN q ELSE IF q < bs THEN q + ib
                        ELSE IF q >= ib /\ q < ib + bs THEN q - ib ELSE q
  BY DEF Rho
<1>6. (q + 1) * w = qw + w
  BY <1>1, MulDistL
<1>7. (ib + bs) * w = ib * w + len
  BY <1>2, MulDistL
<1> HIDE DEF len, ib, start, qw, p
<1>8. p = qw + c
  BY DEF p
<1>9. CASE idx = 0
  BY <1>9, <1>4, <1>5, <1>8 DEF qw, len
<1>10. CASE idx # 0 /\ q < bs
  <2>1. (q + 1) * w <= bs * w
    BY <1>1, <1>10, MulMono
  <2>2. p <= len
    BY <2>1, <1>6, <1>8, <1>1, <1>2 DEF len
  <2>3. Sigma(p, idx, len) = start + p
    BY <1>10, <2>2, <1>4
  <2>4. Rho(q, idx, bs) = q + ib
    BY <1>10, <1>5
  <2>5. (q + ib) * w = qw + ib * w
    BY <1>1, <1>2, MulDistL DEF qw
  <2>6. Sigma(p, idx, len) = Rho(q, idx, bs) * w + c
    BY <2>3, <2>4, <2>5, <1>3, <1>8, <1>2, <1>1
  <2> QED
    BY <2>6 DEF p, qw, len
<1>11. CASE idx # 0 /\ q >= bs
  <2>1. bs * w <= q * w
    BY <1>1, <1>11, MulMono
  <2>2. ~(p <= len)
    BY <2>1, <1>8, <1>1, <1>2 DEF len, qw
  <2>3. CASE q >= ib /\ q < ib + bs
    <3>1. ib * w <= q * w
      BY <2>3, <1>1, <1>2, MulMono
    <3>2. p > start
      BY <3>1, <1>3, <1>8, <1>1, <1>2 DEF qw
    <3>3. (q + 1) * w <= (ib + bs) * w
      BY <2>3, <1>1, <1>2, MulMono
    <3>4. p <= start + len
      BY <3>3, <1>6, <1>7, <1>3, <1>8, <1>1, <1>2
    <3>5. Sigma(p, idx, len) = p - start
      BY <1>11, <2>2, <3>2, <3>4, <1>4
    <3>6. Rho(q, idx, bs) = q - ib
      BY <1>11, <2>3, <1>5
    <3>7. q - ib \in Nat /\ (q - ib) + ib = q
      BY <2>3, <1>1, <1>2
    <3>8. qw = (q - ib) * w + ib * w
      BY <3>7, <1>2, MulDistL DEF qw
    <3>9. (q - ib) * w \in Nat
      BY <3>7, MulNat
    <3>10. Sigma(p, idx, len) = Rho(q, idx, bs) * w + c
      BY <3>5, <3>6, <3>8, <3>9, <1>3, <1>8, <1>2, <1>1
    <3> QED
      BY <3>10 DEF p, qw, len
  <2>4. CASE q < ib
    <3>1. (q + 1) * w <= ib * w
      BY <2>4, <1>1, <1>2, MulMono
    <3>2. p <= start /\ p \in Nat /\ start \in Nat
      <4>1. p <= qw + w
        BY <1>8, <1>1, <1>2
      <4>2. qw + w <= start
        BY <3>1, <1>6, <1>3
      <4>3. p \in Nat /\ qw + w \in Nat /\ start \in Nat
        BY <1>8, <1>1, <1>2
      <4> QED
        BY <4>1, <4>2, <4>3
    <3>3. Sigma(p, idx, len) = p
      BY <1>11, <2>2, <3>2, <1>4
    <3>4. Rho(q, idx, bs) = q
      BY <1>11, <2>4, <1>5, <1>2
    <3> QED
      BY <3>3, <3>4 DEF p, qw, len
  <2>5. CASE q >= ib + bs
    <3>1. (ib + bs) * w <= q * w
      BY <2>5, <1>1, <1>2, MulMono
    <3>2. ~(p <= start + len)
      BY <3>1, <1>7, <1>3, <1>8, <1>1, <1>2 DEF qw
    <3>3. Sigma(p, idx, len) = p
      BY <1>11, <2>2, <3>2, <1>4
    <3>4. Rho(q, idx, bs) = q
      BY <1>11, <2>5, <1>5, <1>2
    <3> QED
      BY <3>3, <3>4 DEF p, qw, len
  <2> QED
    BY <2>3, <2>4, <2>5, <1>1, <1>2
<1> QED
  BY <1>9, <1>10, <1>11, <1>1

THEOREM IndInvRows == IndInv => InvRowsIntact
<1> SUFFICES ASSUME IndInv PROVE InvRowsIntact
  OBVIOUS
<1> USE ConstAssump
<1>f. /\ n \in Nat /\ k \in Nat /\ f \in Nat /\ t \in Nat /\ i \in Nat /\ W \in Nat /\ Fs \in Nat
      /\ n >= 2 /\ k >= 2 /\ k <= n /\ f >= 1 /\ W >= 1 /\ Fs >= 1
      /\ n * f \in Nat /\ n * W \in Nat
  BY Facts
<1>g. n <= MaxN /\ f <= MaxF /\ W <= MaxW /\ MaxW \in Nat
  BY DEF IndInv, W, Tw, MaxW
<1>b. /\ RBufAt = IF Boundary THEN Id(n * f) ELSE Moved(n * f, Fs * f)
      /\ TBufAt = IF Boundary THEN Id(n * W) ELSE Moved(n * W, Fs * W)
  BY BufForms
<1>c. rbuf = RBufAt /\ tbuf = TBufAt
  BY DEF IndInv
\* every cell position of a buffer of row width w lies inside the buffer
<1>d. ASSUME NEW w \in Nat, w >= 1, NEW q \in 0..(n - 1), NEW c \in 1..w
      PROVE  q * w + c \in 1..(n * w)
  <2>1. (q + 1) * w <= n * w
    BY <1>f, MulMono
  <2>2. (q + 1) * w = q * w + w /\ q * w \in Nat
    BY MulDistL, MulNat
  <2> QED
    BY <2>1, <2>2, <1>f
<1> SUFFICES ASSUME NEW q \in 0..(MaxN - 1), q < n
             PROVE  \E rho \in 0..(MaxN - 1) : rho < n /\ RowHolds(q, rho)
  BY DEF InvRowsIntact
<1>1. CASE Boundary
  <2>1. rbuf = Id(n * f) /\ tbuf = Id(n * W)
    BY <1>1, <1>b, <1>c
  <2>2. \A c \in 1..f : rbuf[q * f + c] = q * f + c
    BY <2>1, <1>d, <1>f DEF Id
  <2>3. \A c \in 1..W : tbuf[q * W + c] = q * W + c
    BY <2>1, <1>d, <1>f DEF Id
  <2>4. RowHolds(q, q)
    BY <2>2, <2>3, <1>f, <1>g DEF RowHolds, Tag
  <2> QED
    BY <2>4
<1>2. CASE ~Boundary
  <2>1. rbuf = Moved(n * f, Fs * f) /\ tbuf = Moved(n * W, Fs * W)
    BY <1>2, <1>b, <1>c
  <2>2. i < k
    BY <1>2 DEF IndInv, Boundary
  <2>3. (i + 1) * Fs <= n
    <3>1. (i + 1) * (Fs * 1) <= n * 1
      BY <2>2, <1>f, FoldFits DEF Fs
    <3> QED
      BY <3>1, <1>f
  <2> DEFINE rho == Rho(q, i, Fs)
  <2>4. rho \in 0..(n - 1)
    BY <2>3, <1>f, RhoRange
  <2>5. \A c \in 1..f : rbuf[q * f + c] = rho * f + c
    <3> TAKE c \in 1..f
    <3>1. Sigma(q * f + c, i, Fs * f) = rho * f + c
      BY <2>3, <1>f, SigmaIsRho
    <3>2. q * f + c \in 1..(n * f)
      BY <1>d, <1>f
    <3> QED
      BY <2>1, <3>1, <3>2 DEF Moved
  <2>6. \A c \in 1..W : tbuf[q * W + c] = rho * W + c
    <3> TAKE c \in 1..W
    <3>1. Sigma(q * W + c, i, Fs * W) = rho * W + c
      BY <2>3, <1>f, SigmaIsRho
    <3>2. q * W + c \in 1..(n * W)
      BY <1>d, <1>f
    <3> QED
      BY <2>1, <3>1, <3>2 DEF Moved
  <2> HIDE DEF rho
  <2>7. RowHolds(q, rho)
    <3>1. rho \in Nat /\ rho * f \in Nat /\ rho * W \in Nat
      BY <2>4, <1>f, MulNat
    <3>2. \A c \in 1..MaxF : c <= f => rbuf[q * f + c] = Tag(rho, c - 1, f)
      BY <2>5, <3>1, <1>f, <1>g DEF Tag
    <3>3. \A c \in 1..MaxW : c <= W => tbuf[q * W + c] = Tag(rho, c - 1, W)
      BY <2>6, <3>1, <1>f, <1>g DEF Tag
    <3> QED
      BY <3>2, <3>3 DEF RowHolds
  <2>8. rho \in 0..(MaxN - 1) /\ rho < n
    BY <2>4, <1>f, <1>g
  <2> QED
    BY <2>7, <2>8
<1> QED
  BY <1>1, <1>2

THEOREM Correct == Init /\ [][Next]_vars => [](InvBoundary /\ InvDone /\ InvPerm /\ InvRowsIntact)
<1>1. Init => IndInv
  BY IndInvInit
<1>2. IndInv /\ [Next]_vars => IndInv'
  BY IndInvStep
<1>3. IndInv => InvBoundary /\ InvDone /\ InvPerm /\ InvRowsIntact
  BY IndInvSafe, IndInvRows
<1> QED
  BY <1>1, <1>2, <1>3, PTL
=============================================================================
