----------------------------- MODULE XC_LloydRef -----------------------------
(***************************************************************************)
(* X08 cross-check, original side: TLC explores the bounded design model   *)
(* of specs/X10Lloyd.tla (exact scale, ScaleKind = 1) and checks that its  *)
(* restart bookkeeping IS the machine of specs/LloydInd.tla under the      *)
(* mapping  inertia interval -> its lower end (= upper end: InvExact),     *)
(* best -> (brun, bin), hist -> arrays padded with the initial cell        *)
(* values, pub -> (pubrun, pubin) (0 before publication), R <- MRuns,      *)
(* I <- MIt:                                                               *)
(*   RefinesInd  every behaviour is a behaviour of LloydInd                *)
(*   IndHolds    IndInv and Safety of LloydInd hold in every reachable     *)
(*               state                                                     *)
(*   SameInvs    LloydInd's InvBest / InvBudget / InvPublish agree with    *)
(*               the bookkeeping parts of X10Lloyd's                       *)
(* With IndVariant # "ok" RefinesInd must fail (the property has teeth).   *)
(***************************************************************************)
EXTENDS X10Lloyd

CONSTANT IndVariant

HL == Len(hist)
HIn == [r \in 1..MRuns |-> IF r <= HL THEN hist[r].in.lo ELSE 0]
HIters == [r \in 1..MRuns |-> IF r <= HL THEN hist[r].iters ELSE 0]
HKept == [r \in 1..MRuns |-> IF r <= HL THEN hist[r].kept ELSE FALSE]

Ind == INSTANCE LloydInd WITH R <- MRuns, I <- MIt, Variant <- IndVariant,
          maxit <- P.maxit, nruns <- P.nruns, brun <- best.run, bin <- best.in.lo,
          hlen <- HL, hin <- HIn, hiters <- HIters, hkept <- HKept,
          pubrun <- IF pc = "done" THEN pub.run ELSE 0, pubin <- IF pc = "done" THEN pub.in.lo ELSE 0

XSpec == Init /\ [][Next]_lvars
RefinesInd == Ind!Spec
IndHolds == Ind!IndInv /\ Ind!Safety
\* X10Lloyd.InvBest / IsFirstMin and the first two lines of InvPublish are the bookkeeping statements
SameInvs ==
  /\ Ind!InvBest <=> InvBest
  /\ pc = "done" => (Ind!InvPublish <=> (pub.run = best.run /\ pub.in = best.in /\ IsFirstMin(pub.run)))
  /\ InvExact
=============================================================================
