------------------------------- MODULE KFold -------------------------------
(***************************************************************************)
(* C01 -- k-fold splitting of a linfa dataset.                             *)
(*                                                                         *)
(* Design model at the grain of the code (src/dataset/impl_dataset.rs):    *)
(*   iter_fold : for each fold i  SwapIn(i) ; Fit(i) ; SwapOut(i), then    *)
(*               Yield (zip of the fitted objects with sample_chunks(fs))  *)
(*   fold      : chunk list, FoldCopy(i) takes chunk 0 as validation and   *)
(*               the concatenation of the others as training, then rotates *)
(*   cross_validate : iter_fold with one Fit per candidate model, one      *)
(*               Eval per (model, fold), accumulation and division by k    *)
(*                                                                         *)
(* Cells are identity tags: record cell (r,c) = 16r+c, target cell (r,c) = *)
(* 1000+4r+c, so "row r kept together and attached to its target" is       *)
(* visible in every reachable buffer.                                      *)
(***************************************************************************)
EXTENDS Naturals, Sequences, FiniteSets, TLC

CONSTANTS MaxN, MaxF, MaxT, MaxM

VARIABLES n, k, f, t, mode,   \* configuration, chosen in Init; mode \in {"inplace","copy","cv"}
          nm,                 \* number of candidate models (cv)
          rbuf, tbuf,         \* backing buffers: flat row-major sequences of cell tags
          chunks,             \* copy mode: the rotating list of chunk numbers
          i, mi,              \* current fold, current model
          pc,
          trains, valids,     \* history of views handed to the fit closure / yielded for validation
          acc                 \* cv: acc[m] = set of folds whose evaluation was added to model m's row

vars == <<n, k, f, t, mode, nm, rbuf, tbuf, chunks, i, mi, pc, trains, valids, acc>>

-----------------------------------------------------------------------------
(* Tagged data *)
Tw(tt)      == IF tt = 0 THEN 1 ELSE tt      \* flat width of a target row (1-D targets: 1)
RTag(r, c)  == 16 * r + c
TTag(r, c)  == 1000 + 4 * r + c
RBuf0(nn, ff) == [p \in 1..(nn * ff) |-> RTag((p - 1) \div ff, (p - 1) % ff)]
TBuf0(nn, ww) == [p \in 1..(nn * ww) |-> TTag((p - 1) \div ww, (p - 1) % ww)]
OrigRec(r, ff) == [c \in 1..ff |-> RTag(r, c - 1)]
OrigTgt(r, ww) == [c \in 1..ww |-> TTag(r, c - 1)]

Row(buf, w, r)         == [c \in 1..w |-> buf[r * w + c]]                 \* r is 0-based
Rows(buf, w, from, to) == [q \in 1..(to - from) |-> Row(buf, w, from + q - 1)]

\* macro assist_swap_array2: exchange flat block idx (bs rows of width w) with flat block 0
SwapBlocks(buf, idx, bs, w) ==
  IF idx = 0 THEN buf
  ELSE LET len == bs * w
           start == len * idx
       IN [p \in 1..Len(buf) |->
             IF p <= len THEN buf[start + p]
             ELSE IF p > start /\ p <= start + len THEN buf[p - start]
             ELSE buf[p]]

-----------------------------------------------------------------------------
(* The property-level predicates.  They are used as invariants of the design model below *)
(* and, unchanged, by Trace_KFold on views recorded from the implementation.            *)

Range(s) == {s[p] : p \in DOMAIN s}
Block(nn, kk, b) == {r \in 0..(nn - 1) : r \div (nn \div kk) = b}      \* rows of validation block b (0-based)

\* a view is a pair <<recs, tgts>> of sequences of rows
RowIdOf(rec) == rec[1] \div 16
ViewWellFormed(v, nn, ff, ww) ==
  /\ Len(v[1]) = Len(v[2])
  /\ \A p \in 1..Len(v[1]) :
        LET r == RowIdOf(v[1][p]) IN
        /\ r \in 0..(nn - 1)
        /\ v[1][p] = OrigRec(r, ff)          \* the record row is one original row, intact
        /\ v[2][p] = OrigTgt(r, ww)          \* and carries its own target row
ViewIds(v) == [p \in 1..Len(v[1]) |-> RowIdOf(v[1][p])]
NoDup(s) == Cardinality(Range(s)) = Len(s)

\* training view for fold b: exactly the samples outside block b, each once (any order)
TrainOk(v, nn, kk, ff, ww, b) ==
  /\ ViewWellFormed(v, nn, ff, ww)
  /\ NoDup(ViewIds(v))
  /\ Range(ViewIds(v)) = (0..(nn - 1)) \ Block(nn, kk, b)
  /\ Len(v[1]) = nn - (nn \div kk)

\* validation view for fold b: the consecutive block b, in order
ValidOk(v, nn, kk, ff, ww, b) ==
  /\ ViewWellFormed(v, nn, ff, ww)
  /\ ViewIds(v) = [q \in 1..(nn \div kk) |-> b * (nn \div kk) + q - 1]

\* the dataset holds its original rows in original order
Restored(rb, tb, nn, ff, ww) == rb = RBuf0(nn, ff) /\ tb = TBuf0(nn, ww)

-----------------------------------------------------------------------------
Fs == n \div k
W  == Tw(t)

Init ==
  /\ n \in 2..MaxN /\ k \in 2..n /\ f \in 1..MaxF /\ t \in 0..MaxT
  /\ mode \in {"inplace", "copy", "cv"}
  /\ nm \in IF mode = "cv" THEN 1..MaxM ELSE {1}
  /\ rbuf = RBuf0(n, f) /\ tbuf = TBuf0(n, Tw(t))
  /\ chunks = [q \in 1..((n + (n \div k) - 1) \div (n \div k)) |-> q - 1]   \* axis_chunks_iter(fs): ceil(n/fs) chunks
  /\ i = 0 /\ mi = 0
  /\ pc = IF mode = "copy" THEN "copy" ELSE "swapin"
  /\ trains = <<>> /\ valids = <<>>
  /\ acc = [m \in 1..nm |-> {}]

SwapIn ==
  /\ pc = "swapin"
  /\ rbuf' = SwapBlocks(rbuf, i, Fs, f)
  /\ tbuf' = SwapBlocks(tbuf, i, Fs, W)
  /\ pc' = "fit"
  /\ UNCHANGED <<n, k, f, t, mode, nm, chunks, i, mi, trains, valids, acc>>

\* the closure sees rows fs..n of the (swapped) buffers; in cv mode once per candidate model
Fit ==
  /\ pc = "fit"
  /\ trains' = Append(trains, <<Rows(rbuf, f, Fs, n), Rows(tbuf, W, Fs, n)>>)
  /\ IF mi + 1 < nm THEN mi' = mi + 1 /\ pc' = "fit" ELSE mi' = 0 /\ pc' = "swapout"
  /\ UNCHANGED <<n, k, f, t, mode, nm, rbuf, tbuf, chunks, i, valids, acc>>

SwapOut ==
  /\ pc = "swapout"
  /\ rbuf' = SwapBlocks(rbuf, i, Fs, f)
  /\ tbuf' = SwapBlocks(tbuf, i, Fs, W)
  /\ i' = i + 1
  /\ pc' = IF i + 1 = k THEN "yield" ELSE "swapin"
  /\ UNCHANGED <<n, k, f, t, mode, nm, chunks, mi, trains, valids, acc>>

\* objs.into_iter().zip(self.sample_chunks(fs)): validation view j = rows [j fs, (j+1) fs) of the restored buffers
Yield ==
  /\ pc = "yield"
  /\ valids' = [j \in 1..k |-> <<Rows(rbuf, f, (j - 1) * Fs, j * Fs), Rows(tbuf, W, (j - 1) * Fs, j * Fs)>>]
  /\ pc' = IF mode = "cv" THEN "eval" ELSE "done"
  /\ i' = 0 /\ mi' = 0
  /\ UNCHANGED <<n, k, f, t, mode, nm, rbuf, tbuf, chunks, trains, acc>>

\* cv: evaluation of model mi on validation fold i is added to row mi of the accumulator
Eval ==
  /\ pc = "eval"
  /\ acc' = [acc EXCEPT ![mi + 1] = @ \cup {i}]
  /\ IF mi + 1 < nm THEN mi' = mi + 1 /\ i' = i /\ pc' = "eval"
     ELSE /\ mi' = 0 /\ i' = i + 1 /\ pc' = IF i + 1 = k THEN "done" ELSE "eval"
  /\ UNCHANGED <<n, k, f, t, mode, nm, rbuf, tbuf, chunks, trains, valids>>

\* copying fold(): rows of chunk q (chunk size fs, last one possibly shorter)
ChunkRows(q) == {r \in 0..(n - 1) : r \div Fs = q}
ChunkSeq(q)  == [p \in 1..Cardinality(ChunkRows(q)) |-> q * Fs + p - 1]
RECURSIVE Concat(_)
Concat(ss) == IF ss = <<>> THEN <<>> ELSE Head(ss) \o Concat(Tail(ss))
ViewOfIds(ids) == << [p \in 1..Len(ids) |-> OrigRec(ids[p], f)], [p \in 1..Len(ids) |-> OrigTgt(ids[p], W)] >>
SwapSeq(s, a, b) == [s EXCEPT ![a] = s[b], ![b] = s[a]]

FoldCopy ==
  /\ pc = "copy"
  /\ valids' = Append(valids, ViewOfIds(ChunkSeq(chunks[1])))
  /\ trains' = Append(trains, ViewOfIds(Concat([q \in 1..(Len(chunks) - 1) |-> ChunkSeq(chunks[q + 1])])))
  /\ chunks' = IF i < k - 1 THEN SwapSeq(chunks, 1, i + 2) ELSE chunks
  /\ i' = i + 1
  /\ pc' = IF i + 1 = k THEN "done" ELSE "copy"
  /\ UNCHANGED <<n, k, f, t, mode, nm, rbuf, tbuf, mi, acc>>

Next == SwapIn \/ Fit \/ SwapOut \/ Yield \/ Eval \/ FoldCopy

Spec == Init /\ [][Next]_vars

-----------------------------------------------------------------------------
(* Invariants of the design *)

IsPerm(buf, buf0) == Len(buf) = Len(buf0) /\ Range(buf) = Range(buf0)   \* tags are distinct

InvPerm == IsPerm(rbuf, RBuf0(n, f)) /\ IsPerm(tbuf, TBuf0(n, W))

\* every row of the buffers is an intact original row and sits next to its own target row
InvRowsIntact ==
  ViewWellFormed(<<Rows(rbuf, f, 0, n), Rows(tbuf, W, 0, n)>>, n, f, W)

\* trains[q] was handed out for fold (q-1) \div nm (in-place modes) / fold q-1 (copy mode)
FoldOfTrain(q) == IF mode = "copy" THEN q - 1 ELSE (q - 1) \div nm
InvTrain == \A q \in 1..Len(trains) : TrainOk(trains[q], n, k, f, W, FoldOfTrain(q))
InvValid == \A q \in 1..Len(valids) : ValidOk(valids[q], n, k, f, W, q - 1)

InvDone ==
  pc = "done" =>
    /\ Restored(rbuf, tbuf, n, f, W)
    /\ Len(valids) = k
    /\ Len(trains) = k * nm
    \* each of the first k*fs samples is validated exactly once, the tail never
    /\ \A r \in 0..(n - 1) :
         Cardinality({q \in 1..k : r \in Range(ViewIds(valids[q]))}) = IF r < k * Fs THEN 1 ELSE 0
    /\ mode = "cv" => \A m \in 1..nm : acc[m] = 0..(k - 1)

\* during in-place iteration the buffers are restored at every fold boundary
InvBoundary == pc \in {"swapin", "yield", "eval", "done", "copy"} => Restored(rbuf, tbuf, n, f, W)

=============================================================================
