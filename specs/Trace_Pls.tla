----------------------------- MODULE Trace_Pls -----------------------------
(***************************************************************************************************)
(* X02 trace validation.  A case is one call history on one integer data set                       *)
(* (harness/src/bin/x02.rs):                                                                       *)
(*   kind "fit":   check ; fit ; [ model ; transform ; inverse ; predict ; unseen ] ; end           *)
(*                 (PlsSvd: model ; transform ; unseen) -- the bracket only after a successful fit *)
(*   kind "equiv": eq(reg) ; eq(can) ; eq(svd) ; end   -- one component each, same data            *)
(* Every event is judged once with the relations of module Pls against the exact summary of the    *)
(* case's input (state variable dat): the action advances, or prints the first false clause        *)
(* (FAIL) and abandons the case.  A panic or a call that never returns (event "hang") is explained  *)
(* by no action.  A fit that returns one of the documented run-time errors (power method not        *)
(* converged, constant residual, ...) ends the case unless the data make failure impossible        *)
(* (Pls!MustSucceed).                                                                              *)
(* Named deviation (constant Devs): "svd-rank-deficient" -- see Pls!SvdExcused.                     *)
(***************************************************************************************************)
EXTENDS Pls, TraceIO

CONSTANT Devs

VARIABLES c, e,     \* case and event cursor
          dat,      \* exact summary of the training data
          num,      \* TRUE while the published numbers are on the grid and inside the arithmetic (else only shapes are judged;
                    \* NaN / infinity is never accepted)
          obs,      \* observation record assembled from the model and transform events (<<>> before)
          regular,  \* the fit was classified as regular (structure clauses were demanded)
          used      \* deviations that were needed

tvars == <<c, e, dat, num, obs, regular, used, dvars>>

Case == Rec[c]
In   == Case.inp
Ev   == Case.ev[e]
K    == In.k
IsSvdVariant == In.variant = "svd"

TraceInit ==
  /\ c \in 1..Len(Rec) /\ e = 1
  /\ dat = Summary(Rec[c].inp.X, Rec[c].inp.Y, Rec[c].inp.p, Rec[c].inp.q, Rec[c].inp.scale)
  /\ num = TRUE /\ obs = <<>> /\ regular = FALSE /\ used = {}
  /\ dd = <<>> /\ kk = 0 /\ cand = "trace" /\ exv = <<>> /\ dsum = <<>>

HasEv(name) == e <= Len(Case.ev) /\ Ev.ev = name
Adv == e' = e + 1 /\ UNCHANGED <<c, dat, dvars>>
Reject(what) ==
  /\ Fail(Case.id, <<e, Ev.ev, what>>)
  /\ e' = Len(Case.ev) + 2 /\ UNCHANGED <<c, dat, num, obs, regular, used, dvars>>
Judge1(why, rest) == IF why = "ok" THEN rest ELSE Reject(why)

FitKind == Case.kind = "fit"
Must == MustSucceed(dat, In.variant, In.algo, In.tol, In.maxit, K)

\* ---- parameter check, fit ----------------------------------------------------------------------
TCheck ==
  /\ FitKind /\ HasEv("check") /\ e = 1
  /\ Judge1(CheckWhy(In.variant, In.tol, In.maxit, Ev), Adv /\ UNCHANGED <<num, obs, regular, used>>)

TFit ==
  /\ FitKind /\ HasEv("fit") /\ e = 2
  /\ LET why == FitWhy(dat, In.variant, In.algo, In.tol, In.maxit, K, Ev)
         nxt == Case.ev[3].ev
     IN IF why # "ok" THEN Reject(why)
        ELSE IF Ev.ok /\ nxt # "model" THEN Reject("model-missing")
        ELSE IF ~Ev.ok /\ nxt # "end" THEN Reject("events-after-failed-fit")
        ELSE Adv /\ UNCHANGED <<num, obs, regular, used>>

\* ---- the published model -------------------------------------------------------------------------
TModel ==
  /\ FitKind /\ HasEv("model") /\ e = 3
  /\ LET shape == IF IsSvdVariant THEN SvdShapeWhy(dat, K, Ev) ELSE ShapeWhy(dat, K, Ev)
         why == IF shape # "ok" THEN shape
                ELSE IF Ev.nan THEN "non-finite-model"
                ELSE IF ~Ev.fin THEN (IF Must THEN "model-off-grid" ELSE "ok")
                ELSE IF IsSvdVariant THEN "ok"
                ELSE CentreWhy(dat, Ev)
     IN Judge1(why, /\ num' = Ev.fin
                    /\ Adv /\ UNCHANGED <<obs, regular, used>>)

\* ---- transform of the training data: scores ; all structure clauses ------------------------------
Mdl == Case.ev[3]
ObsGeneric(tr) == [k |-> K, xw |-> Mdl.xw, yw |-> Mdl.yw, xl |-> Mdl.xl, yl |-> Mdl.yl, xr |-> Mdl.xr, yr |-> Mdl.yr,
                   co |-> Mdl.co, t |-> tr.t, u |-> tr.u]

GenericTransformWhy(o, devs) ==
  IF ~ProjOk(dat.Xc, dat.bx.ex, o.xr, o.t) THEN <<"transform-x-rotations", FALSE>>
  ELSE IF ~ProjOk(dat.Yc, dat.by.ex, o.yr, o.u) THEN <<"transform-y-rotations", FALSE>>
  ELSE LET tb == Tables(dat, In.variant, o) IN
       IF ~Regular(dat, In.variant, o, tb) THEN <<"ok", FALSE>>
       ELSE <<StructWhy(dat, In.variant, In.algo, In.tol, o, tb, devs), TRUE>>

SvdTransformWhy(tr, devs) ==
  IF ~ProjOk(dat.Xc, dat.bx.ex, Mdl.xw, tr.t) THEN "transform-x-weights"
  ELSE IF ~ProjOk(dat.Yc, dat.by.ex, Mdl.yw, tr.u) THEN "transform-y-weights"
  ELSE SvdStructWhy(dat, K, Mdl.xw, Mdl.yw, devs)

TTransform ==
  /\ FitKind /\ HasEv("transform") /\ e = 4
  /\ IF Ev.st # <<dat.n, K>> \/ Ev.su # <<dat.n, K>> \/ ~IsMat(Ev.t, dat.n, K) \/ ~IsMat(Ev.u, dat.n, K)
       THEN Reject("shape-scores")
     ELSE IF Ev.nan THEN Reject("non-finite-scores")
     ELSE IF ~num \/ ~Ev.fin
       THEN (IF Must THEN Reject("scores-off-grid")
             ELSE num' = FALSE /\ Adv /\ UNCHANGED <<obs, regular, used>>)
     ELSE IF IsSvdVariant
       THEN LET strict == SvdTransformWhy(Ev, {})
                final  == IF strict = "ok" \/ Devs = {} THEN strict ELSE SvdTransformWhy(Ev, Devs)
            IN Judge1(final, /\ used' = IF strict = "ok" THEN used ELSE used \cup {SvdDev}
                             /\ regular' = TRUE
                             /\ Adv /\ UNCHANGED <<num, obs>>)
     ELSE LET o == ObsGeneric(Ev) IN
          IF ~Bounded(o) THEN num' = FALSE /\ Adv /\ UNCHANGED <<obs, regular, used>>
          ELSE LET strict == GenericTransformWhy(o, {})
                   final  == IF strict[1] = "ok" \/ Devs = {} THEN strict ELSE GenericTransformWhy(o, Devs)
               IN Judge1(final[1], /\ used' = IF strict[1] = "ok" THEN used ELSE used \cup {SvdDev}
                                   /\ regular' = final[2]
                                   /\ obs' = o
                                   /\ Adv /\ UNCHANGED <<num>>)

\* ---- inverse_transform(transform(training data)) -------------------------------------------------
TInverse ==
  /\ FitKind /\ HasEv("inverse") /\ e = 5 /\ ~IsSvdVariant
  /\ IF Ev.sx # <<dat.n, dat.p>> \/ Ev.sy # <<dat.n, dat.q>> THEN Reject("shape-inverse")
     ELSE IF Ev.nan THEN Reject("non-finite-inverse")
     ELSE IF ~num \/ ~Ev.fin \/ obs = <<>> THEN num' = num /\ Adv /\ UNCHANGED <<obs, regular, used>>
     ELSE Judge1(IF ~InverseOk(obs.t, obs.xl, dat.bx.mean, dat.bx.std, Ev.x) THEN "inverse-x"
                 ELSE IF ~InverseOk(obs.u, obs.yl, dat.by.mean, dat.by.std, Ev.y) THEN "inverse-y"
                 ELSE "ok",
                 Adv /\ UNCHANGED <<num, obs, regular, used>>)

\* ---- predict on the training records -------------------------------------------------------------
TPredict ==
  /\ FitKind /\ HasEv("predict") /\ e = 6 /\ ~IsSvdVariant
  /\ IF Ev.sy # <<dat.n, dat.q>> THEN Reject("shape-predict")
     ELSE IF Ev.nan THEN Reject("non-finite-predict")
     ELSE IF ~num \/ ~Ev.fin \/ obs = <<>> THEN Adv /\ UNCHANGED <<num, obs, regular, used>>
     ELSE Judge1(IF PredictOk(dat.Xc, dat.bx.ex, obs.co, dat.by.mean, Ev.y) THEN "ok" ELSE "predict",
                 Adv /\ UNCHANGED <<num, obs, regular, used>>)

\* ---- unseen rows: the same fixed maps -------------------------------------------------------------
TUnseen ==
  /\ FitKind /\ HasEv("unseen") /\ e = IF IsSvdVariant THEN 5 ELSE 7
  /\ LET m  == Len(In.Z)
         Zc == CenMat(dat.bx, dat.scale, In.Z)
         Yz == CenMat(dat.by, dat.scale, In.ZY)
         ezx == CenErr(dat.bx, dat.scale, In.Z)
         ezy == CenErr(dat.by, dat.scale, In.ZY)
     IN IF Ev.st # <<m, K>> \/ Ev.su # <<m, K>> \/ Ev.sy # (IF IsSvdVariant THEN <<0, 0>> ELSE <<m, dat.q>>) THEN Reject("shape-unseen")
        ELSE IF Ev.nan THEN Reject("non-finite-unseen")
        ELSE IF ~num \/ ~Ev.fin \/ (~IsSvdVariant /\ obs = <<>>) THEN Adv /\ UNCHANGED <<num, obs, regular, used>>
        ELSE IF MaxAbsM(Zc) > Lim \/ MaxAbsM(Yz) > Lim THEN Adv /\ UNCHANGED <<num, obs, regular, used>>
        ELSE Judge1(IF IsSvdVariant
                      THEN (IF ~ProjOk(Zc, ezx, Mdl.xw, Ev.t) THEN "unseen-transform-x"
                            ELSE IF ~ProjOk(Yz, ezy, Mdl.yw, Ev.u) THEN "unseen-transform-y" ELSE "ok")
                      ELSE (IF ~ProjOk(Zc, ezx, obs.xr, Ev.t) THEN "unseen-transform-x"
                            ELSE IF ~ProjOk(Yz, ezy, obs.yr, Ev.u) THEN "unseen-transform-y"
                            ELSE IF ~PredictOk(Zc, ezx, obs.co, dat.by.mean, Ev.y) THEN "unseen-predict"
                            ELSE "ok"),
                    Adv /\ UNCHANGED <<num, obs, regular, used>>)

\* ---- one-component equivalence -------------------------------------------------------------------
EquivWhy ==
  LET evs == [i \in 1..3 |-> Case.ev[i]]
      oks == {i \in 1..3 : evs[i].ok}
      C1  == Cross(dat.Xc, dat.Yc)
      \* the published weight vector certifies an isolated largest singular value and belongs to it
      iso(i) == MaxAbsM(evs[i].w) <= Lim /\ Isolated(C1, Col(evs[i].w, 1))
      \* regression and canonical run the same power iteration; PlsSvd takes the complete SVD, which agrees with the power
      \* method when that has found the isolated dominant pair (it cannot when its start vector is orthogonal to it)
      same(i, j) == (i = 1 /\ j = 2) \/ (iso(i) /\ iso(j))
  IN IF \E i \in 1..3 : evs[i].ev # "eq" \/ evs[i].variant # <<"reg", "can", "svd">>[i] \/ (evs[i].ok /\ evs[i].err # "none") THEN "protocol"
     ELSE IF \E i \in 1..3 : ~evs[i].ok /\ evs[i].err \notin RuntimeErrs THEN "fit-rejects-valid-request"
     ELSE IF ~evs[3].ok THEN "plssvd-fails"
     ELSE IF \E i \in oks : evs[i].nan THEN "non-finite-scores"
     ELSE IF \E i \in oks : ~evs[i].fin THEN (IF dat.c1zero \/ dat.bx.rank = 0 \/ dat.by.rank = 0 THEN "ok" ELSE "scores-off-grid")
     ELSE IF \E i \in oks : ~IsMat(evs[i].t, dat.n, 1) \/ ~IsMat(evs[i].w, dat.p, 1) THEN "shape-scores"
     \* one component: the rotation is the weight vector (p_1 . w_1 = 1), so the scores are Xc w_1 for all three estimators
     ELSE IF \E i \in oks : MaxAbsM(evs[i].w) <= Lim /\ MaxAbsM(evs[i].t) <= Lim /\ ~dat.c1zero /\ dat.bx.rank >= 1
                              /\ ~(UnitOk(Col(evs[i].w, 1)) /\ ProjOk(dat.Xc, dat.bx.ex, evs[i].w, evs[i].t)) THEN "scores-are-xc-w"
     ELSE IF \E i \in oks : \E j \in oks : i < j /\ same(i, j) /\ ~SameUpToSign(evs[i].t, evs[j].t) THEN "one-component-equivalence"
     ELSE "ok"

TEquiv ==
  /\ Case.kind = "equiv" /\ HasEv("eq") /\ e = 1
  /\ Len(Case.ev) = 4
  /\ Judge1(EquivWhy, e' = 4 /\ UNCHANGED <<c, dat, dvars, num, obs, regular, used>>)

\* ---- anything else: panic, hang, events out of protocol -------------------------------------------
Expected ==
  \/ FitKind /\ \/ HasEv("check") /\ e = 1
                \/ HasEv("fit") /\ e = 2
                \/ HasEv("model") /\ e = 3
                \/ HasEv("transform") /\ e = 4
                \/ HasEv("inverse") /\ e = 5 /\ ~IsSvdVariant
                \/ HasEv("predict") /\ e = 6 /\ ~IsSvdVariant
                \/ HasEv("unseen") /\ e = (IF IsSvdVariant THEN 5 ELSE 7)
                \/ HasEv("end") /\ e = Len(Case.ev)
  \/ Case.kind = "equiv" /\ ((HasEv("eq") /\ e = 1 /\ Len(Case.ev) = 4) \/ (HasEv("end") /\ e = 4))

TOther ==
  /\ e <= Len(Case.ev)
  /\ ~Expected
  /\ Reject(IF Ev.ev = "panic" THEN "panic" ELSE IF Ev.ev = "hang" THEN "never-returns" ELSE "protocol")

\* ---- acceptance ----------------------------------------------------------------------------------
TEnd ==
  /\ HasEv("end") /\ e = Len(Case.ev)
  /\ Expected
  /\ IF used = {} THEN Ok(Case.id) ELSE \A d \in used : OkDev(Case.id, <<d>>)
  /\ regular => PrintT(<<"REG", Case.id>>)
  /\ e' = e + 1 /\ UNCHANGED <<c, dat, num, obs, regular, used, dvars>>

TraceNext == TCheck \/ TFit \/ TModel \/ TTransform \/ TInverse \/ TPredict \/ TUnseen \/ TEquiv \/ TOther \/ TEnd
=============================================================================
