------------------------------- MODULE Params -------------------------------
(***************************************************************************)
(* C04 -- hyper-parameter builders: design model.                          *)
(*                                                                         *)
(* A builder is a record of fields (ParamsDoc).  Every public setter is an *)
(* action that overwrites the fields it names (last write wins; a setter   *)
(* of an enum-like group switches the sibling fields off).  check_ref /    *)
(* check decide validity from the *current* field values only and do not   *)
(* change them; fit / fit_with / transform on the unchecked builder first  *)
(* run the same check and either return its error or behave like the       *)
(* checked parameters.                                                     *)
(*                                                                         *)
(* The operators Replay, Verdicts and Expected are used unchanged by       *)
(* Trace_Params on programs executed against the real builders.            *)
(***************************************************************************)
EXTENDS ParamsDoc, TLC

CONSTANTS AlgSet,      \* subset of Algs explored by the design model
          MaxCalls     \* bound on the number of setter calls after the constructor

VARIABLES alg, st, hist, pc, verdict, out

vars == <<alg, st, hist, pc, verdict, out>>

-----------------------------------------------------------------------------
(* builder state: v = field values, on = field present, wr = written by the user *)
NF(a) == Len(Doc[a].f)
NS(a) == Len(Doc[a].s)
PRange(s) == {s[q] : q \in DOMAIN s}

Default(a) ==
  [v  |-> [i \in 1..NF(a) |-> IF Doc[a].f[i].on THEN Doc[a].f[i].d ELSE 0],
   on |-> [i \in 1..NF(a) |-> Doc[a].f[i].on],
   wr |-> [i \in 1..NF(a) |-> FALSE]]

\* the <<field, arg>> entries of setter s that touch field i
\* (setter index 0 = an interleaved check / clone, see ParamsDoc!MidOps: writes nothing)
Writes(a, s, i) == IF s = 0 THEN {} ELSE {w \in PRange(Doc[a].s[s].w) : w[1] = i}

\* one setter call c = [s |-> setter index, a |-> argument tuple]
Apply(a, x, c) ==
  LET W(i) == Writes(a, c.s, i)
      Arg(i) == (CHOOSE w \in W(i) : TRUE)[2]
  IN [v  |-> [i \in 1..NF(a) |-> IF W(i) = {} THEN x.v[i] ELSE IF Arg(i) > 0 THEN c.a[Arg(i)] ELSE 0],
      on |-> [i \in 1..NF(a) |-> IF W(i) = {} THEN x.on[i] ELSE Arg(i) > 0],
      wr |-> [i \in 1..NF(a) |-> IF W(i) = {} THEN x.wr[i] ELSE Arg(i) > 0]]

RECURSIVE ReplayFrom(_, _, _)
ReplayFrom(a, x, prog) == IF prog = <<>> THEN x ELSE ReplayFrom(a, Apply(a, x, Head(prog)), Tail(prog))
Replay(a, prog) == ReplayFrom(a, Default(a), prog)

\* independent formulation: a field holds what its *last* writer put there
LastWriter(a, prog, i) ==
  LET ws == {q \in 1..Len(prog) : Writes(a, prog[q].s, i) # {}} IN
  IF ws = {} THEN 0 ELSE CHOOSE q \in ws : \A r \in ws : r <= q
ReplayLW(a, prog) ==
  LET L(i) == LastWriter(a, prog, i)
      Arg(i) == (CHOOSE w \in Writes(a, prog[L(i)].s, i) : TRUE)[2]
  IN [v  |-> [i \in 1..NF(a) |-> IF L(i) = 0 THEN Default(a).v[i] ELSE IF Arg(i) > 0 THEN prog[L(i)].a[Arg(i)] ELSE 0],
      on |-> [i \in 1..NF(a) |-> IF L(i) = 0 THEN Default(a).on[i] ELSE Arg(i) > 0],
      wr |-> [i \in 1..NF(a) |-> IF L(i) = 0 THEN FALSE ELSE Arg(i) > 0]]

-----------------------------------------------------------------------------
(* the documented range as a three-valued verdict on one value *)
LoV(fd, v) ==
  CASE fd.lok = "none"     -> "ok"
    [] fd.lok \in {"closed", "closed-nz"} -> IF Lt(v, fd.lo) THEN "bad" ELSE "ok"
    [] fd.lok = "open"     -> IF Le(v, fd.lo) THEN "bad" ELSE "ok"
    [] fd.lok = "atunspec" -> IF Lt(v, fd.lo) THEN "bad" ELSE IF At(v, fd.lo) THEN "any" ELSE "ok"
    [] fd.lok = "undoc"    -> IF Le(v, fd.lo) THEN "any" ELSE "ok"
    [] fd.lok = "hole"     -> IF Gt(v, fd.lo) /\ Lt(v, fd.hi) THEN "bad" ELSE "ok"
HiV(fd, v) ==
  CASE fd.hik = "none"     -> "ok"
    [] fd.hik = "closed"   -> IF Gt(v, fd.hi) THEN "bad" ELSE "ok"
    [] fd.hik = "open"     -> IF Ge(v, fd.hi) THEN "bad" ELSE "ok"
    [] fd.hik = "atunspec" -> IF Gt(v, fd.hi) THEN "bad" ELSE IF At(v, fd.hi) THEN "any" ELSE "ok"
    [] fd.hik = "undoc"    -> IF Ge(v, fd.hi) THEN "any" ELSE "ok"
FieldV(fd, vv) ==
  LET v == IF vv = NegZero /\ fd.lok = "closed-nz" THEN TinyNeg ELSE vv     \* -0.0 is 0 (deviation: counted negative)
      l == LoV(fd, v)  h == HiV(fd, v) IN
  IF fd.cush /\ Sub(v) # 0 THEN "any"                  \* infinitesimal probe inside a documented epsilon cushion
  ELSE IF l = "bad" \/ h = "bad" THEN "bad" ELSE IF l = "any" \/ h = "any" THEN "any" ELSE "ok"

\* named deviations (known findings) relax exactly one documented bound to what the code enforces
Relax(a, fd, devs) ==
  IF "enet-max-iterations-zero-accepted" \in devs /\ a \in {"enet", "mtenet"} /\ fd.n = "max_iterations"
    THEN [fd EXCEPT !.lok = "none"]
  ELSE IF "countvec-frequency-above-one-accepted" \in devs /\ a = "countvec" /\ fd.n \in {"df_min", "df_max"}
    THEN [fd EXCEPT !.hik = "none"]
  ELSE IF "neg-zero-rejected" \in devs /\ fd.ty = "real" /\ fd.lok = "closed" /\ fd.lo = 0
          /\ <<a, fd.n>> \in {<<"enet", "penalty">>, <<"mtenet", "penalty">>, <<"tweedie", "alpha">>, <<"gnb", "var_smoothing">>,
                              <<"mnb", "alpha">>, <<"ftrl", "beta">>, <<"plsreg", "tolerance">>, <<"plscan", "tolerance">>,
                              <<"plscca", "tolerance">>, <<"tsne", "perplexity">>}
    THEN [fd EXCEPT !.lok = "closed-nz"]          \* guard written with is_negative(): -0.0 counts as negative
  ELSE IF "svr-nu-svr-c-unchecked" \in devs /\ a = "svr" /\ fd.n = "nu_c"
    THEN [fd EXCEPT !.lok = "none"]
  ELSE fd

\* relations between parameters
CrossV(a, x) ==
  IF Doc[a].cross = "countvec"
    THEN IF x.v[1] <= x.v[2] /\ LeVV(x.v[3], x.v[4]) THEN "ok" ELSE "bad"
    ELSE "ok"

\* fields the user never wrote hold the builder's defaults, which are valid by definition
Verdicts(a, x, devs) ==
  {FieldV(Relax(a, Doc[a].f[i], devs), x.v[i]) : i \in {j \in 1..NF(a) : x.on[j] /\ x.wr[j]}} \cup {CrossV(a, x)}

\* the set of verdicts of check / check_ref the documentation allows (TRUE = passes)
Expected(a, x, devs) ==
  LET V == Verdicts(a, x, devs) IN
  IF "bad" \in V THEN {FALSE} ELSE IF "any" \in V THEN {TRUE, FALSE} ELSE {TRUE}

-----------------------------------------------------------------------------
(* boundary grid of one field: below / at / just inside / far inside every documented bound *)
Fine0(fd) == IF 0 \in fd.skip THEN {} ELSE {NegZero, TinyNeg, TinyPos}      \* -0.0 and -+tiny next to a bound at 0
Fine1    == {OneMinus, OnePlus}                                             \* 1 -+ tiny next to a bound at 1
GridLo(fd) ==
  IF fd.lok \in {"none"} THEN {}
  ELSE IF fd.ty = "real" THEN {fd.lo - M, fd.lo - 1, fd.lo, fd.lo + 1} \cup (IF fd.lo = 0 THEN Fine0(fd) ELSE {})
  ELSE {y \in {fd.lo - 2, fd.lo - 1, fd.lo, fd.lo + 1} : y >= 0}
GridHi(fd) ==
  IF fd.lok = "hole" THEN {(fd.lo + fd.hi) \div 2, fd.hi - 1, fd.hi, fd.hi + 1, fd.hi + M} \cup (IF fd.hi = M THEN Fine1 ELSE {})
  ELSE IF fd.hik = "none" THEN {}
  ELSE IF fd.ty = "real" THEN {fd.hi - 1, fd.hi, fd.hi + 1, fd.hi + M} \cup (IF fd.hi = M THEN Fine1 ELSE {})
  ELSE {fd.hi - 1, fd.hi, fd.hi + 1}
Grid(fd) == (GridLo(fd) \cup GridHi(fd) \cup fd.typ) \ fd.skip

\* field whose grid feeds argument k of setter s (the first field that argument is written to)
ArgField(a, s, k) ==
  LET ws == {q \in DOMAIN Doc[a].s[s].w : Doc[a].s[s].w[q][2] = k} IN
  Doc[a].s[s].w[CHOOSE q \in ws : \A r \in ws : q <= r][1]
ArgGrid(a, s, k) == Grid(Doc[a].f[ArgField(a, s, k)])
ArgTuples(a, s) ==
  LET n == Doc[a].s[s].na IN
  IF n = 1 THEN {<<x>> : x \in ArgGrid(a, s, 1)}
  ELSE IF n = 2 THEN {<<x, y>> : x \in ArgGrid(a, s, 1), y \in ArgGrid(a, s, 2)}
  ELSE {<<x, y, z>> : x \in ArgGrid(a, s, 1), y \in ArgGrid(a, s, 2), z \in ArgGrid(a, s, 3)}
Calls(a, s) == {[s |-> s, a |-> t, op |-> ""] : t \in ArgTuples(a, s)}     \* op: see ParamsDoc!MidOps

CtorIdx(a) == {s \in 1..NS(a) : Doc[a].s[s].ctor}         \* {} or one index
NonCtor(a) == {s \in 1..NS(a) : ~Doc[a].s[s].ctor}

-----------------------------------------------------------------------------
(* the design model: build, then check by reference, use, check by value *)
Forms == {"fit", "fit_with", "transform", "transform_ds", "fit_vocabulary", "fit_files", "fit_files_missing",
          "fit_empty", "fit_with_empty", "transform_empty", "transform_ds_empty"}   \* calling forms (array / dataset variants)

Init ==
  /\ alg \in AlgSet
  /\ st = Default(alg) /\ hist = <<>>
  /\ pc = IF CtorIdx(alg) = {} THEN "set" ELSE "new"
  /\ verdict = "none"
  /\ out = [fm \in Forms |-> "none"]

New ==
  /\ pc = "new"
  /\ \E s \in CtorIdx(alg) : \E c \in Calls(alg, s) :
       /\ st' = Apply(alg, st, c) /\ hist' = Append(hist, c)
  /\ pc' = "set"
  /\ UNCHANGED <<alg, verdict, out>>

SetP ==
  /\ pc = "set"
  /\ Len(SelectSeq(hist, LAMBDA c : ~Doc[alg].s[c.s].ctor)) < MaxCalls
  /\ \E s \in NonCtor(alg) : \E c \in Calls(alg, s) :
       /\ st' = Apply(alg, st, c) /\ hist' = Append(hist, c)
  /\ UNCHANGED <<alg, pc, verdict, out>>

\* check_ref: decides from the current values, changes nothing; at an unspecified point either verdict
CheckRef ==
  /\ pc = "set"
  /\ \E b \in Expected(alg, st, {}) : verdict' = IF b THEN "pass" ELSE "reject"
  /\ pc' = "checked"
  /\ UNCHANGED <<alg, st, hist, out>>

\* blanket impls on the unchecked builder: check_ref()? first
Use(fm) ==
  /\ pc = "checked" /\ fm \in Doc[alg].forms /\ out[fm] = "none"
  /\ out' = [out EXCEPT ![fm] = IF verdict = "pass" THEN "as-checked" ELSE "check-error"]
  /\ UNCHANGED <<alg, st, hist, pc, verdict>>

\* check by value consumes the builder with the same verdict
Check ==
  /\ pc = "checked"
  /\ pc' = "consumed"
  /\ UNCHANGED <<alg, st, hist, verdict, out>>

\* the builder is still there after a check by reference (or was cloned before it): it can be configured
\* further and checked again; every check judges the values held at that moment
Again ==
  /\ pc = "checked"
  /\ pc' = "set" /\ verdict' = "none" /\ out' = [fm \in Forms |-> "none"]
  /\ UNCHANGED <<alg, st, hist>>

Next == New \/ SetP \/ CheckRef \/ (\E fm \in Forms : Use(fm)) \/ Check \/ Again

Spec == Init /\ [][Next]_vars

-----------------------------------------------------------------------------
(* invariants of the design *)

\* last write wins, per field, whatever the order and number of calls
InvReplay == st = ReplayLW(alg, hist) /\ st = Replay(alg, hist)

\* a passing verdict is only possible when no written value is outside its documented range, a
\* rejecting one only when some written value is outside or on an unspecified point
InvVerdict ==
  /\ verdict = "pass"   => "bad" \notin Verdicts(alg, st, {})
  /\ verdict = "reject" => Verdicts(alg, st, {}) # {"ok"}

\* nothing is trained on an invalid builder, and a valid builder is never refused
InvUse == \A fm \in Forms :
  /\ out[fm] = "as-checked"  => verdict = "pass"
  /\ out[fm] = "check-error" => verdict = "reject"
  /\ out[fm] # "none" => fm \in Doc[alg].forms

\* the untouched builder passes (defaults are inside their ranges wherever the range says anything)
InvDefault ==
  /\ \A i \in 1..NF(alg) :
       LET fd == Doc[alg].f[i] IN fd.on /\ fd.d # Inf => FieldV(fd, fd.d) # "bad"
  /\ hist = <<>> => Expected(alg, st, {}) = {TRUE}

\* the table and its grid are not vacuous: every decided bound is probed on both sides, every setter
\* writes existing fields from existing arguments, typical values are inside
InvTable ==
  /\ \A i \in 1..NF(alg) :
       LET fd == Doc[alg].f[i]  g == Grid(fd) IN
       /\ fd.lok \in {"closed", "open", "atunspec", "hole"} => (\E x \in g : FieldV(fd, x) = "bad") /\ (\E x \in g : FieldV(fd, x) = "ok")
       /\ fd.hik \in {"closed", "open", "atunspec"} => (\E x \in g : HiV(fd, x) = "bad") /\ (\E x \in g : HiV(fd, x) = "ok")
       /\ fd.lok \in {"atunspec", "undoc"} /\ fd.skip = {} => \E x \in g : FieldV(fd, x) = "any"
       /\ \A x \in fd.typ : FieldV(fd, x) = "ok"
       \* the infinitesimal probes exist only for bounds at 0 and 1: no real bound may sit anywhere else
       /\ fd.ty = "real" /\ fd.lok # "none" => fd.lo = 0
       /\ fd.ty = "real" /\ (fd.hik # "none" \/ fd.lok = "hole") => fd.hi = M
       /\ fd.ty = "real" /\ fd.lok # "none" /\ 0 \notin fd.skip => {TinyNeg, TinyPos} \subseteq g
       /\ fd.ty = "real" /\ (fd.hik # "none" \/ fd.lok = "hole") => {OneMinus, OnePlus} \subseteq g
       /\ \E s \in 1..NS(alg) : \E w \in PRange(Doc[alg].s[s].w) : w[1] = i /\ w[2] > 0      \* every field has a setter
  /\ \A s \in 1..NS(alg) : \A w \in PRange(Doc[alg].s[s].w) : w[1] \in 1..NF(alg) /\ w[2] \in 0..Doc[alg].s[s].na
  /\ Cardinality(CtorIdx(alg)) <= 1
  /\ Doc[alg].forms \subseteq Forms /\ Doc[alg].forms # {}

=============================================================================
