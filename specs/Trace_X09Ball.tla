--------------------------- MODULE Trace_X09Ball ---------------------------
(***************************************************************************)
(* X09 trace validation of the ball-tree search, step by step.             *)
(*                                                                         *)
(* One case = one query (k_nearest or within_range) on one built ball tree *)
(* with the hook balltree.search switched on.  The recorded events are     *)
(* replayed against the actions of the design model NNBall as generalised  *)
(* in X09Ball (interval-valued sphere bounds, Euclidean distance):         *)
(*   start  -> Start     the searched tree is a tree of the build model    *)
(*                       (IsBuild) with the model's centres and radii      *)
(*   pop    -> GPop      the popped node is on the model's queue and may   *)
(*                       be its minimum; the logged bound lies in the      *)
(*                       model's interval; stopping / scanning / pushing   *)
(*                       or pruning each child is a decision the interval  *)
(*                       allows (exactly the model's where the bound is    *)
(*                       exact); candidates kept and worst of them agree   *)
(*   point  -> GScan     leaf points in storage order; distance exact;     *)
(*                       kept iff inside the radius and better than the    *)
(*                       worst of k kept candidates                        *)
(*   done   -> Exhausted or the end after a stop                           *)
(*   result              what the API returned is the model's candidate    *)
(*                       set in ascending order of distance                *)
(* After every step the invariants of X09Ball must hold (StepInvB'):       *)
(* a point that is neither pending nor kept is outside the radius or no    *)
(* better than the worst kept -- i.e. a pruned ball cannot contain a       *)
(* better point, and stopping loses nothing.                               *)
(*                                                                         *)
(* Coordinates are lattice integers (the harness multiplies observations   *)
(* by the case's scale again); bounds are fixed point at 1/6400, point     *)
(* distances and radii exact multiples of 1/64.                            *)
(* A tree without the hook (In.hook = 0): only the result is recorded and  *)
(* judged by the relations of C07 (KnnOk / RangeOk, strict), tagged        *)
(* "nohook".                                                               *)
(***************************************************************************)
EXTENDS X09Ball, TraceIO

CONSTANT Devs      \* named deviations (known findings) -- none for X09

VARIABLES c, e

Case == Rec[c]
In   == Case.inp
Ev   == Case.ev[e]
NEv  == Len(Case.ev)
NP   == Len(In.pts)

-----------------------------------------------------------------------------
(* the logged tree *)
RECURSIVE TIds(_)
TIds(t) == IF t.leaf THEN [k \in 1..Len(t.pts) |-> t.pts[k] + 1] ELSE TIds(t.l) \o TIds(t.rt)
RECURSIVE TShapeOk(_)
TShapeOk(t) ==      \* indices in range, centres of the right dimension: the model tree can be built from it
  /\ Len(t.c) = In.dim \/ (t.leaf /\ t.pts = <<>>)
  /\ IF t.leaf THEN \A k \in 1..Len(t.pts) : t.pts[k] \in 0..(NP - 1)
     ELSE TShapeOk(t.l) /\ TShapeOk(t.rt)
CentreOf(t) == [d \in 1..Len(t.c) |-> t.c[d].fx \div Q]
RECURSIVE ModelTree(_)
ModelTree(t) ==
  IF t.leaf THEN LeafNode(TIds(t))
  ELSE LET ix == TIds(t)  cn == CentreOf(t) IN
       [isleaf |-> FALSE, cn |-> cn, cd |-> 1, rn |-> RadNum(ix, cn, 1), points |-> <<>>,
        l |-> ModelTree(t.l), r |-> ModelTree(t.rt)]

\* logged centre and radius (true distance, lattice units, fixed point Q) against the model's exact values
RadiusOk(f, nd) ==
  /\ f.fin
  /\ IF met = "l2"
       THEN LET s == Isqrt(nd.rn * 100) IN            \* radius = sqrt(rn) / cd
            /\ f.fx * nd.cd * 10 >= Q * s - 20 * nd.cd
            /\ f.fx * nd.cd * 10 <= Q * (s + 1) + 20 * nd.cd
       ELSE Abs(f.fx * nd.cd - nd.rn * Q) <= 2 * nd.cd
RECURSIVE GeoOk(_, _)
GeoOk(t, nd) ==
  /\ \A d \in 1..Len(t.c) : t.c[d].fin /\ Abs(t.c[d].fx * nd.cd - nd.cn[d] * Q) <= 2 * nd.cd
  /\ nd.isleaf => Len(t.c) = Len(nd.cn)
  /\ RadiusOk(t.r, nd)
  /\ IF t.leaf THEN nd.isleaf ELSE ~nd.isleaf /\ GeoOk(t.l, nd.l) /\ GeoOk(t.rt, nd.r)

-----------------------------------------------------------------------------
Hooked == In.hook = 1
FirstIsStart == Hooked /\ NEv >= 1 /\ Case.ev[1].ev = "start" /\ TShapeOk(Case.ev[1].tree)

TraceInit ==
  /\ c \in 1..Len(Rec) /\ e = 1
  /\ pts = In.pts /\ qry = In.q /\ met = In.metric
  /\ leaf = (IF In.leaf = -1 THEN 16 ELSE In.leaf)
  /\ mode = In.mode
  /\ kk = (IF In.mode = "knn" THEN In.k ELSE Len(In.pts))
  /\ r8 = (IF In.mode = "knn" THEN -1 ELSE In.r8)
  /\ tree = (IF FirstIsStart THEN ModelTree(Case.ev[1].tree) ELSE LeafNode(<<>>))
  /\ queue = {} /\ out = {} /\ cur = <<>>
  /\ pc = "start"

Has(name) == e <= NEv /\ Ev.ev = name /\ Hooked
Adv == e' = e + 1 /\ c' = c

SeqSet(s) == {s[k] + 1 : k \in DOMAIN s}
LbClose(f, iv) == f.fin /\ f.fx >= iv.lo - 1 /\ f.fx <= iv.hi + 1
\* a logged reduced distance (multiple of 1/64) is exactly the lattice value v
Is64(b, v) == b.def /\ ~b.inf /\ b.exact /\ b.i = 64 * v
WorstIs(w, o) == IF o = {} THEN ~w.def ELSE Is64(w, MaxSet({x[1] : x \in o}))
RadB == IF met = "l2" THEN r8 * r8 ELSE 8 * r8          \* max_radius in units of 1/64

\* everything that must hold after every step
StepInvB == InvPrunedM /\ InvStopSound /\ InvFrontier /\ NoPanic

(* ---- start ---- *)
StartFields ==
  /\ FirstIsStart /\ e = 1
  /\ Ev.k = kk
  /\ IF mode = "knn" THEN Ev.maxr.def /\ Ev.maxr.inf
     ELSE Ev.maxr.def /\ ~Ev.maxr.inf /\ Ev.maxr.exact /\ Ev.maxr.i = RadB
  /\ IsBuild(tree, 1..N)
  /\ GeoOk(Ev.tree, tree)
  /\ LbClose(Ev.lb, IvQ(tree))
\* (P = TRUE: TLC evaluates P as a value instead of splitting its disjunctions into branches of the action)
TStart == Has("start") /\ pc = "start" /\ StartFields = TRUE /\ Start /\ pc' = "loop" /\ StepInvB' = TRUE /\ Adv

\* no step events are expected for an empty index or k = 0: the model is done at once
TStartEmpty ==
  /\ pc = "start" /\ Hooked /\ e = 1 /\ NEv = 1 /\ Ev.ev = "result"
  /\ Start /\ pc' = "done"
  /\ UNCHANGED <<c, e>>

(* ---- pop ---- *)
KidFields(k, nd, pushed) ==
  /\ SeqSet(k.node) = Sub(nd)
  /\ k.pushed = pushed
  /\ LbClose(k.lb, IvQ(nd))
PopFields(en, leL, leR) ==
  /\ Ev.outlen = Cardinality(out)
  /\ WorstIs(Ev.worst, out)
  /\ LbClose(Ev.lb, IvQ(en.node))
  /\ CASE Ev.act = "break" -> pc' = "done" /\ Ev.kids = <<>>
       [] Ev.act = "leaf"  -> pc' = "leaf" /\ en.node.isleaf /\ Ev.kids = <<>>
       [] Ev.act = "kids"  -> /\ pc' = "loop" /\ ~en.node.isleaf /\ Len(Ev.kids) = 2
                              /\ KidFields(Ev.kids[1], en.node.l, leL)
                              /\ KidFields(Ev.kids[2], en.node.r, leR)
       [] OTHER -> FALSE
PopOf(en) ==
  \E geRad \in GeRadSet(en.node), geWorst \in GeWorstSet(en.node) :
  \E leL \in KidSet(en, TRUE), leR \in KidSet(en, FALSE) :
     GPopWith(en, geRad, geWorst, leL, leR) /\ PopFields(en, leL, leR) = TRUE
TPop ==
  /\ Has("pop") /\ pc = "loop"
  /\ \E en \in queue : Sub(en.node) = SeqSet(Ev.node) /\ PopOf(en)
  /\ StepInvB' = TRUE /\ Adv

(* ---- leaf scan ---- *)
TPoint ==
  /\ Has("point") /\ pc = "leaf" /\ cur # <<>>
  /\ GScan
  /\ LET p == Head(cur) IN
       (/\ Ev.idx = p - 1
        /\ Is64(Ev.d, D(p))
        /\ Ev.kept <=> (<<D(p), p>> \in out')
        /\ Ev.outlen = Cardinality(out')
        /\ WorstIs(Ev.worst, out')) = TRUE
  /\ StepInvB' = TRUE /\ Adv
TLeafEnd == pc = "leaf" /\ cur = <<>> /\ GScan /\ UNCHANGED <<c, e>>

(* ---- end of the search ---- *)
TDone ==
  /\ Has("done")
  /\ \/ pc = "done" /\ queue # {} /\ UNCHANGED vars          \* after a stop (the popped entry stays on the model's queue)
     \/ Exhausted
  /\ Ev.n = Cardinality(out)
  /\ StepInvB' = TRUE /\ Adv

(* ---- what the API returned ---- *)
PosOk(pos) == \A j \in 1..Len(pos) : pos[j] \in 0..(N - 1)
ResultIs(pos) ==
  /\ PosOk(pos)
  /\ Len(pos) = Cardinality(out) /\ SeqSet(pos) = Kept
  /\ \A j \in 1..(Len(pos) - 1) : D(pos[j] + 1) <= D(pos[j + 1] + 1)
Res(pos) == [pos |-> pos, pts |-> [j \in 1..Len(pos) |-> pts[pos[j] + 1]], exact |-> TRUE]
RelationOk(pos) ==
  /\ PosOk(pos)
  /\ LET dv == DistVec(met, pts, qry) IN
     IF mode = "knn" THEN KnnOk(pts, dv, kk, Res(pos))
     ELSE RangeOk(pts, dv, met, r8, Res(pos)) /\ PosSet(Res(pos)) = StrictSet(met, dv, r8)
Final == e = NEv /\ Ev.ev = "result"

Accept ==
  /\ Final /\ Hooked /\ pc = "done" /\ (IF NEv = 1 THEN TRUE ELSE Case.ev[NEv - 1].ev = "done")
  /\ Ev.st = "ok" /\ ResultIs(Ev.pos) = TRUE /\ RelationOk(Ev.pos) = TRUE     \* (= TRUE: evaluated as values, not split into branches)
  /\ Ok(Case.id)
  /\ e' = e + 1 /\ UNCHANGED <<c, vars>>
AcceptNoHook ==
  /\ Final /\ ~Hooked /\ e = 1
  /\ Ev.st = "ok" /\ RelationOk(Ev.pos) = TRUE
  /\ OkDev(Case.id, <<"nohook">>)
  /\ e' = e + 1 /\ UNCHANGED <<c, vars>>

TSteps == TStart \/ TStartEmpty \/ TPop \/ TPoint \/ TLeafEnd \/ TDone

-----------------------------------------------------------------------------
(* diagnostics (best effort) *)
PopWhy ==
  IF pc # "loop" THEN "search_already_over"
  ELSE IF ~\E en \in queue : Sub(en.node) = SeqSet(Ev.node) THEN "popped_node_not_on_queue"
  ELSE LET en == CHOOSE x \in queue : Sub(x.node) = SeqSet(Ev.node) IN
       IF ~MayBeMin(en) THEN "popped_node_not_a_minimum_of_the_queue"
       ELSE IF ~LbClose(Ev.lb, IvQ(en.node)) THEN "bound_value"
       ELSE IF Ev.outlen # Cardinality(out) \/ ~WorstIs(Ev.worst, out) THEN "kept_candidates"
       ELSE IF Ev.act = "kids" /\ ~en.node.isleaf /\ Len(Ev.kids) = 2 /\
               (~LbClose(Ev.kids[1].lb, IvQ(en.node.l)) \/ ~LbClose(Ev.kids[2].lb, IvQ(en.node.r))) THEN "child_bound_value"
       ELSE IF ~ENABLED (\E x \in queue : Sub(x.node) = SeqSet(Ev.node) /\ PopOf(x)) THEN "decision_contradicts_bound"
       ELSE "pruned_ball_may_contain_a_better_point"
Denotes ==
  IF ~Hooked THEN "result:" \o (IF Ev.ev = "result" /\ Ev.st = "ok" /\ RelationOk(Ev.pos) THEN "?" ELSE "relation")
  ELSE CASE Ev.ev = "start" -> IF ~FirstIsStart \/ e # 1 THEN "malformed_start"
                               ELSE IF ~IsBuild(tree, 1..N) THEN "tree_not_a_tree_of_the_build_model"
                               ELSE IF ~GeoOk(Ev.tree, tree) THEN "tree_centre_or_radius"
                               ELSE IF ~LbClose(Ev.lb, IvQ(tree)) THEN "bound_value" ELSE "fields"
         [] Ev.ev = "pop"   -> PopWhy
         [] Ev.ev = "point" -> IF pc # "leaf" \/ cur = <<>> THEN "no_leaf_point_pending"
                               ELSE IF Ev.idx # Head(cur) - 1 THEN "point_out_of_leaf_order"
                               ELSE IF ~Is64(Ev.d, D(Head(cur))) THEN "point_distance" ELSE "keep_decision_or_candidates"
         [] Ev.ev = "done"  -> IF pc = "loop" /\ queue # {} THEN "search_ended_with_pending_nodes" ELSE "fields"
         [] Ev.ev = "result" -> IF pc # "done" THEN "search_not_finished_in_model"
                                ELSE IF Ev.st # "ok" THEN "error_or_panic"
                                ELSE IF ~ResultIs(Ev.pos) THEN "result_differs_from_model_candidates" ELSE "relation"
         [] OTHER -> "unexplained_event"

Stuck ==
  /\ e <= NEv
  /\ ~(ENABLED TSteps \/ ENABLED Accept \/ ENABLED AcceptNoHook)
  /\ Fail(Case.id, "ev" \o ToString(e) \o ":" \o Ev.ev \o ":" \o Denotes)
  /\ e' = NEv + 2 /\ UNCHANGED <<c, vars>>

TraceNextFast == TSteps \/ Accept \/ AcceptNoHook
TraceNext == TraceNextFast \/ Stuck
=============================================================================
