------------------------------ MODULE MC_SmoKkt ------------------------------
(***************************************************************************)
(* Self-check of the KKT relations of SmoKkt (guards against a wrong or    *)
(* vacuous relation).  On a coarse grid of candidate solutions             *)
(* (coefficients multiples of 1/G, rho multiples of 1/G) for every tiny    *)
(* 1-D data set, TLC checks the textbook lemma the whole check rests on:   *)
(*     a feasible point accepted by the relation minimises the dual        *)
(*     objective among all feasible grid points   (convex QP: KKT => opt). *)
(* A relation with a reversed inequality or a wrong sign accepts           *)
(* non-optimal candidates and is caught here.  Every accepted candidate is *)
(* printed; the orchestrator requires at least one (not vacuous).          *)
(***************************************************************************)
EXTENDS SmoKkt, TLC

CONSTANTS Mode, G, MaxSize   \* "csvc" | "oneclass" | "esvr" ; grid denominator ; largest data set

VARIABLE st

Xs == {-1, 0, 1}
Kerns == {[k |-> "lin", c |-> 0, d |-> 1, w |-> <<1, 1>>], [k |-> "poly", c |-> 1, d |-> 2, w |-> <<1, 1>>]}
Sizes == 2..MaxSize
RhoGrid == (-2 * G)..(2 * G)

InOf(x, y, kern, cg) ==
  [x |-> [i \in 1..Len(x) |-> <<x[i]>>], y |-> y, kern |-> kern, ft |-> "f64",
   cp |-> <<cg, G>>, cn |-> <<cg, G>>, c |-> <<cg, G>>, nu |-> <<1, 2>>, le |-> <<1, 2>>]

U6 == SA \div G
KM(s) == [i \in 1..Len(s.x) |-> [j \in 1..Len(s.x) |-> KRaw(s.kern, <<s.x[i]>>, <<s.x[j]>>)]]

(* ---- C-SVC: al = coefficient magnitudes in grid units, objective * 2 G^2 *)
CsvcFeasible(y, al, cg) == /\ \A i \in 1..Len(al) : al[i] \in 0..cg
                           /\ SumSeq([i \in 1..Len(al) |-> (IF y[i] > 0 THEN 1 ELSE -1) * al[i]]) = 0
CsvcObj(s, al) ==
  LET km == KM(s)  ys == [i \in 1..Len(al) |-> IF s.y[i] > 0 THEN 1 ELSE -1] IN
  SumSeq([i \in 1..Len(al) |-> SumSeq([j \in 1..Len(al) |-> al[i] * al[j] * ys[i] * ys[j] * km[i][j]])])
  - 2 * G * SumSeq(al)

(* ---- one-class: sum a = nu n (nu = 1/2), objective a'Ka                  *)
OcFeasible(al) == /\ \A i \in 1..Len(al) : al[i] \in 0..G
                  /\ 2 * SumSeq(al) = Len(al) * G
OcObj(s, al) == LET km == KM(s) IN
  SumSeq([i \in 1..Len(al) |-> SumSeq([j \in 1..Len(al) |-> al[i] * al[j] * km[i][j]])])

(* ---- eps-SVR: b in -cg..cg, sum b = 0, objective b'Kb - 2G y'b + 2G eps sum|b| (eps = 1/2) *)
SvrFeasible(b, cg) == /\ \A i \in 1..Len(b) : b[i] \in (-cg)..cg
                      /\ SumSeq(b) = 0
SvrObj(s, b) == LET km == KM(s) IN
  SumSeq([i \in 1..Len(b) |-> SumSeq([j \in 1..Len(b) |-> b[i] * b[j] * km[i][j]])])
  - 2 * G * SumSeq([i \in 1..Len(b) |-> s.y[i] * b[i]]) + G * SumSeq([i \in 1..Len(b) |-> Abs(b[i])])

Init ==
  \E n \in Sizes : \E x \in [1..n -> Xs] : \E kern \in Kerns : \E rho \in RhoGrid :
    /\ \A i \in 1..(n - 1) : x[i] <= x[i + 1]
    /\ CASE Mode = "csvc" ->
              \E y \in [1..n -> {0, 1}] : \E cg \in {G \div 2, G} : \E al \in [1..n -> 0..cg] :
                 /\ \E i, j \in 1..n : y[i] # y[j]
                 /\ CsvcFeasible(y, al, cg)
                 /\ st = [x |-> x, y |-> y, kern |-> kern, cg |-> cg, al |-> al, rho |-> rho]
         [] Mode = "oneclass" ->
              \E al \in [1..n -> 0..G] :
                 /\ OcFeasible(al)
                 /\ st = [x |-> x, y |-> [i \in 1..n |-> 1], kern |-> kern, cg |-> G, al |-> al, rho |-> rho]
         [] Mode = "esvr" ->
              \E y \in [1..n -> Xs] : \E cg \in {G \div 2, G} : \E b \in [1..n -> (-cg)..cg] :
                 /\ SvrFeasible(b, cg)
                 /\ st = [x |-> x, y |-> y, kern |-> kern, cg |-> cg, al |-> b, rho |-> rho]

Next == UNCHANGED st

In == InOf(st.x, st.y, st.kern, st.cg)
A6 == [i \in 1..Len(st.al) |->
         (IF Mode = "csvc" THEN (IF st.y[i] > 0 THEN 1 ELSE -1) ELSE 1) * st.al[i] * U6]
Rho6 == [v |-> V6(st.rho * U6), s |-> 0]
Accepted ==
  CASE Mode = "csvc" -> CsvcWhy(In, A6, Rho6) = "none"
    [] Mode = "oneclass" -> OneclassWhy(In, A6, Rho6) = "none"
    [] Mode = "esvr" -> EsvrWhy(In, A6, Rho6) = "none"

OptimalOnGrid ==
  CASE Mode = "csvc" ->
         \A al \in [1..Len(st.al) -> 0..st.cg] : CsvcFeasible(st.y, al, st.cg) => CsvcObj(st, st.al) <= CsvcObj(st, al)
    [] Mode = "oneclass" ->
         \A al \in [1..Len(st.al) -> 0..G] : OcFeasible(al) => OcObj(st, st.al) <= OcObj(st, al)
    [] Mode = "esvr" ->
         \A b \in [1..Len(st.al) -> (-st.cg)..st.cg] : SvrFeasible(b, st.cg) => SvrObj(st, st.al) <= SvrObj(st, b)

\* (prints one line per accepted candidate: the orchestrator requires at least one, so that the
\* implication is not vacuous)
KktImpliesOptimal == Accepted => (PrintT("KKT-ACCEPTED") /\ OptimalOnGrid)

NoKkt == ~Accepted
=============================================================================
