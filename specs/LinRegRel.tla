----------------------------- MODULE LinRegRel -----------------------------
(***************************************************************************)
(* C11 -- the defining relations of "a least-squares estimator returned a  *)
(* minimiser of its documented objective", in integer arithmetic.  No      *)
(* variables: shared by the design model (LinReg), the case generator      *)
(* (Gen_LinReg) and the trace specification (Trace_LinReg).                *)
(* See the header of LinReg.tla for the mathematics.                       *)
(***************************************************************************)
EXTENDS Fx, TLC

-----------------------------------------------------------------------------
(* Part 1 -- relations *)

NRows(X) == Len(X)
Pow10(k) == CASE k = 0 -> 1 [] k = 1 -> 10 [] k = 2 -> 100 [] k = 3 -> 1000 [] k = 4 -> 10000
              [] k = 5 -> 100000 [] k = 6 -> 1000000 [] k = 7 -> 10000000 [] k = 8 -> 100000000
              [] OTHER -> 1000000000

\* residual matrix from the model's own predictions on the training records (scale sc)
ResM(Y, Yh, sc)     == [i \in 1..Len(Y) |-> [tt \in 1..Len(Y[1]) |-> Y[i][tt] * sc - Yh[i][tt]]]
ColDot(X, R, j, tt) == SumSeq([i \in 1..Len(X) |-> X[i][j] * R[i][tt]])     \* x_j ' r_tt
ColAbs(X, j)        == SumSeq([i \in 1..Len(X) |-> Abs(X[i][j])])
ColSq(X, j)         == SumSeq([i \in 1..Len(X) |-> X[i][j] * X[i][j]])
ResSum(R, tt)       == SumSeq([i \in 1..Len(R) |-> R[i][tt]])
RowAbs(X, i)        == SumSeq([j \in 1..Len(X[i]) |-> Abs(X[i][j])])
LinPred(X, W, B, i, tt) == SumSeq([j \in 1..Len(X[i]) |-> X[i][j] * W[j][tt]]) + B[tt]
LinMag(X, W, B, i, tt)  == SumSeq([j \in 1..Len(X[i]) |-> Abs(X[i][j] * W[j][tt])]) + Abs(B[tt])

\* magnitude of the terms entering x_j ' r (for the relative float allowance of f32 runs)
TermMag(X, Y, W, B, j, tt, sc) ==
  SumSeq([i \in 1..Len(X) |-> Abs(X[i][j]) * ((Abs(Y[i][tt]) * sc + LinMag(X, W, B, i, tt)) \div 1000)])

\* integer norms.  NormLo <= true norm <= NormHi, computed on a reduced scale so that squares fit 31 bits
MaxAbs(v)  == IF Len(v) = 0 THEN 0 ELSE MaxSeq([q \in 1..Len(v) |-> Abs(v[q])])
NormK(v)   == (MaxAbs(v) \div 15000) + 1
NormLo(v)  == LET k == NormK(v) IN Isqrt(SumSeq([q \in 1..Len(v) |-> (Abs(v[q]) \div k) * (Abs(v[q]) \div k)])) * k
NormHi(v)  == LET k == NormK(v)
                  u == [q \in 1..Len(v) |-> (Abs(v[q]) \div k) + (IF k = 1 THEN 0 ELSE 1)]
              IN (Isqrt(SumSeq([q \in 1..Len(v) |-> u[q] * u[q]])) + 1) * k
NormErr(v) == NormHi(v) - NormLo(v)

\* a*b/100000 for |a|,|b| <= 10^7 and |a*b| < 2*10^14 (error < 3 units)
MulS5(a, b) ==
  LET sg == Sgn(a) * Sgn(b)  aa == Abs(a)  bb == Abs(b)
      a1 == aa \div 1000  a0 == aa % 1000  b1 == bb \div 1000  b0 == bb % 1000
  IN sg * (a1 * b1 * 10 + ((a1 * b0 + a0 * b1) * 10 + (a0 * b0) \div 100) \div 1000)

\* full column rank of an integer matrix with k <= 4 columns: some k rows have a non-zero determinant
RECURSIVE Det(_)
Det(M) ==
  IF Len(M) = 1 THEN M[1][1]
  ELSE LET k == Len(M)
           Minor(cc) == [i \in 1..(k - 1) |-> [j \in 1..(k - 1) |-> M[i + 1][IF j < cc THEN j ELSE j + 1]]]
       IN SumSeq([cc \in 1..k |-> (IF cc % 2 = 1 THEN 1 ELSE -1) * M[1][cc] * Det(Minor(cc))])
RECURSIVE ExistsSel(_, _, _, _)
ExistsSel(A, k, from, chosen) ==
  IF Len(chosen) = k THEN Det(chosen) /= 0
  ELSE \E i \in from..Len(A) : ExistsSel(A, k, i + 1, Append(chosen, A[i]))
Augment(X, icpt) == IF icpt THEN [i \in 1..Len(X) |-> Append(X[i], 1)] ELSE X
FullRank(X, icpt) == LET A == Augment(X, icpt) IN Len(A) >= Len(A[1]) /\ ExistsSel(A, Len(A[1]), 1, <<>>)

\* ---- penalty constants (pen = [ln, ld, rn, rd]) ; D = common denominator
PD(pen)   == pen.ld * pen.rd
PTh(pen, n) == n * pen.ln * pen.rn                     \* D * n*pen*l1
PL2(pen, n) == n * pen.ln * (pen.rd - pen.rn)          \* D * n*pen*(1-l1)

\* D * G_jt at scale sc, from C_jt = x_j ' r_t
GradS(pen, n, Cjt, Wjt) == PD(pen) * Cjt - PL2(pen, n) * Wjt
\* slack of D*G_jt: quantisation of C (|x_j|_1 / 2 through the predictions) and of W, plus allowance al
GradSlack(pen, n, X, j, al) == PD(pen) * ((ColAbs(X, j) + 1) \div 2 + 1 + al) + (PL2(pen, n) + 1) \div 2 + 1

\* the model's predictions are its linear form (binds W, B and Yh to each other)
PredictOk(X, W, B, Yh, al) ==
  \A i \in 1..Len(X) : \A tt \in 1..Len(B) :
     Abs(Yh[i][tt] - LinPred(X, W, B, i, tt)) <= (RowAbs(X, i) + 2) \div 2 + 1 + al

\* scalar (single-task, tt = 1) stationarity in coordinate j
KktCoordOk(pen, n, X, C, W, j, sc, al) ==
  LET g  == GradS(pen, n, C[j][1], W[j][1])
      th == PTh(pen, n) * sc
      sl == GradSlack(pen, n, X, j, al)
  IN  /\ W[j][1] > 0 => Abs(g - th) <= sl
      /\ W[j][1] < 0 => Abs(g + th) <= sl
      /\ W[j][1] = 0 => Abs(g) <= th + sl

\* group (multi-task) stationarity of row j
SDiv(a, k) == Sgn(a) * (Abs(a) \div k)
KktRowOk(pen, n, X, C, W, j, sc, al) ==
  LET tn == Len(W[j])
      g  == [tt \in 1..tn |-> GradS(pen, n, C[j][tt], W[j][tt])]
      th == PTh(pen, n) * sc
      sl == GradSlack(pen, n, X, j, al)
  IN  /\ NormLo(g) <= th + sl * tn
      /\ MaxAbs(W[j]) /= 0 =>
           \* direction W_j/||W_j|| on a reduced scale; W is only known to 1/2 unit per entry
           LET k  == NormK(W[j])
               u  == [tt \in 1..tn |-> SDiv(W[j][tt], k)]
               nu == Isqrt(SumSeq([tt \in 1..tn |-> u[tt] * u[tt]]))
           IN /\ NormHi(g) >= th - sl * tn
              /\ \A tt \in 1..tn :
                   Abs(g[tt] - MulDiv(th, u[tt], nu)) <= sl + (th * (tn + 3)) \div nu + 2

\* coefficients strictly under the l1 threshold must be exactly zero (zero = logged "is exactly 0.0" flags)
ZeroCoordOk(pen, n, X, C, W, zero, j, sc, al) ==
  LET tn == Len(W[j])
      g  == [tt \in 1..tn |-> GradS(pen, n, C[j][tt], W[j][tt])]
  IN  (MaxAbs(W[j]) = 0 /\ NormHi(g) < PTh(pen, n) * sc - GradSlack(pen, n, X, j, al) * tn)
        => \A tt \in 1..tn : zero[j][tt]

\* intercept: stationarity in B (jointly with W) / no intercept: B is exactly 0
IcptJointOk(n, R, tt, al) == Abs(ResSum(R, tt)) <= (n + 1) \div 2 + 1 + al
\* what the unrepaired elastic net computes instead: B = mean(y), whatever X is
IcptYMeanOk(n, Y, B, tt, sc) == Abs(n * B[tt] - sc * SumSeq([i \in 1..n |-> Y[i][tt]])) <= (n + 1) \div 2 + n

\* n * (Obj(W + delta e_j) - Obj(W)) at scale sc for delta = dn/dd, dd in {1,10,100}, dn in {-1,1}; single task
PerturbCoord(pen, n, X, C, W, j, dn, dd, sc) ==
  LET t1 == -((dn * C[j][1]) \div dd)
      t2 == ColSq(X, j) * (sc \div (2 * dd * dd))
      t3 == MulDiv(Abs(W[j][1] + (dn * sc) \div dd) - Abs(W[j][1]), PTh(pen, n), PD(pen))
      t4 == MulDiv((2 * dn * W[j][1]) \div dd + sc \div (dd * dd), PL2(pen, n), 2 * PD(pen))
  IN t1 + t2 + t3 + t4
\* multi-task: a lower bound of n * (Obj(W + delta e_jt) - Obj(W)) (the row norm enters through NormLo / NormHi)
PerturbEntryLo(pen, n, X, C, W, j, tt, dn, dd, sc) ==
  LET wp == [W[j] EXCEPT ![tt] = @ + (dn * sc) \div dd]
      t1 == -((dn * C[j][tt]) \div dd)
      t2 == ColSq(X, j) * (sc \div (2 * dd * dd))
      t3 == MulDiv(NormLo(wp) - NormHi(W[j]), PTh(pen, n), PD(pen))
      t4 == MulDiv((2 * dn * W[j][tt]) \div dd + sc \div (dd * dd), PL2(pen, n), 2 * PD(pen))
  IN t1 + t2 + t3 + t4
\* how far that lower bound can lie below the true value: the brackets of the two row norms
PerturbEntrySlack(pen, n, W, j, tt, dn, dd, sc) ==
  LET wp == [W[j] EXCEPT ![tt] = @ + (dn * sc) \div dd]
  IN ((NormErr(W[j]) + NormErr(wp) + 2) * PTh(pen, n)) \div PD(pen) + 1
PerturbIcpt(n, R, tt, dn, dd, sc) == -((dn * ResSum(R, tt)) \div dd) + n * (sc \div (2 * dd * dd))

\* tolerance * ||y_centred||^2 at scale sc (the documented stopping threshold), tolerance = 10^-te
YYn(Y, icpt) ==   \* n * sum of squares of the (centred when icpt) targets: an exact integer
  LET n == Len(Y)  tn == Len(Y[1]) IN
  SumSeq([tt \in 1..tn |->
     n * SumSeq([i \in 1..n |-> Y[i][tt] * Y[i][tt]])
       - (IF icpt THEN SumSeq([i \in 1..n |-> Y[i][tt]]) * SumSeq([i \in 1..n |-> Y[i][tt]]) ELSE 0)])
TolGap(Y, icpt, te, sc) ==
  LET n == Len(Y) IN
  IF te <= 4 THEN ((YYn(Y, icpt) * (sc \div (10 * Pow10(te)))) \div n) * 10 + 10
  ELSE (YYn(Y, icpt) \div n) \div Pow10(te - 5) + 1


-----------------------------------------------------------------------------
(* Exact least squares with an intercept on the UN-SHIFTED integers, and the accuracy a backward-stable solver   *)
(* reaches when the columns handed to it carry large offsets.                                                    *)
(* With an intercept fitted the slopes, the predictions and the relations  sum r = 0,  x_j ' r = 0  do not       *)
(* depend on per-column offsets (x_j ' r = (x_j + c) ' r when sum r = 0), so a case carries the offsets          *)
(* separately (off) and everything below is computed from the small integers X.                                  *)
(*   M = n * centred Gram,  v = n * X_c ' y_c  (integers);  slopes  w* = M^-1 v = adj(M) v / det(M).             *)
(* Accuracy model (first-order perturbation of the least-squares problem under a column-wise relative backward   *)
(* error CQ * eps -- Householder QR;  the normal equations square the condition number and are far outside):     *)
(*   |dw_j| <= sum_l |(M/n)^-1_jl| * ( ||x_c,l|| * E1 + E2_l ),                                                  *)
(*   E1 = eps * sqrt(n) * ( 2 * sum_k (|off_k| + max|x_k|) |w_k| + max|y| + max|yhat| ),                         *)
(*   E2_l = 2 * eps * sqrt(n) * (|off_l| + max|x_l|) * ||r||.                                                    *)
MinorRC(M, rr, cc) ==
  [i \in 1..(Len(M) - 1) |-> [q \in 1..(Len(M) - 1) |-> M[IF i < rr THEN i ELSE i + 1][IF q < cc THEN q ELSE q + 1]]]
AdjE(M, a, bq) == IF Len(M) = 1 THEN 1 ELSE (IF (a + bq) % 2 = 0 THEN 1 ELSE -1) * Det(MinorRC(M, bq, a))
ColSum(X, j) == SumSeq([i \in 1..Len(X) |-> X[i][j]])
CGram(X) ==
  LET n == Len(X)  pp == Len(X[1]) IN
  [a \in 1..pp |-> [bq \in 1..pp |-> n * SumSeq([i \in 1..n |-> X[i][a] * X[i][bq]]) - ColSum(X, a) * ColSum(X, bq)]]
CVec(X, Y, tt) ==
  LET n == Len(X) IN
  [a \in 1..Len(X[1]) |-> n * SumSeq([i \in 1..n |-> X[i][a] * Y[i][tt]]) - ColSum(X, a) * SumSeq([i \in 1..n |-> Y[i][tt]])]
\* floor(|num| * 10^5 / |den|) with sign, digit by digit (|den| < 2*10^8, |num / den| < 2*10^4)
RECURSIVE FracDigits(_, _, _)
FracDigits(rem, den, k) == IF k = 0 THEN 0 ELSE ((rem * 10) \div den) * Pow10(k - 1) + FracDigits((rem * 10) % den, den, k - 1)
RatS5(num, den) ==
  LET a == Abs(num)  d == Abs(den) IN Sgn(num) * Sgn(den) * ((a \div d) * 100000 + FracDigits(a % d, d, 5))
\* exact slopes * 10^5 (floor), single target tt
WStar(X, Y, tt) ==
  LET M == CGram(X)  v == CVec(X, Y, tt)  dt == Det(M) IN
  [a \in 1..Len(M) |-> RatS5(SumSeq([l \in 1..Len(M) |-> AdjE(M, a, l) * v[l]]), dt)]
MaxAbsCol(X, j) == MaxSeq([i \in 1..Len(X) |-> Abs(X[i][j])])
\* ceil( (|off| + max|x|) * 10^5 * eps ),  eps = 2^-24 (f32) / 2^-53 (f64)
UOff(a, f32) == IF f32 THEN MulDiv(a, 3125, 524288) + 1 ELSE ((((a \div 131072) + 1) * 3125) \div 1073741824) \div 2 + 1
UO(X, off, k, f32) == UOff(Abs(off[k]) + MaxAbsCol(X, k), f32)
WPlain(W, k, tt) == Abs(W[k][tt]) \div 100000 + 1
SqN(n) == Isqrt(n) + 1
\* evaluation noise of one prediction x'w + b computed in floating point at the shifted magnitudes (units of 10^-5)
PredNoise(X, off, W, tt, f32) == 4 * (SumSeq([k \in 1..Len(W) |-> UO(X, off, k, f32) * WPlain(W, k, tt)]) + 1)
RNormPlain(R, tt) == Isqrt(SumSeq([i \in 1..Len(R) |-> (Abs(R[i][tt]) \div 1000 + 1) * (Abs(R[i][tt]) \div 1000 + 1)])) \div 100 + 1
CQ == 8
SolveE1(X, Y, off, W, Yh, tt, f32) ==
  SqN(Len(X)) * (2 * SumSeq([k \in 1..Len(W) |-> UO(X, off, k, f32) * WPlain(W, k, tt)])
                 + UOff(1, f32) * (MaxSeq([i \in 1..Len(Y) |-> Abs(Y[i][tt])]) + MaxSeq([i \in 1..Len(Yh) |-> Abs(Yh[i][tt])]) \div 100000 + 2))
SolveE2(X, off, R, l, tt, f32) == 2 * SqN(Len(X)) * UO(X, off, l, f32) * RNormPlain(R, tt)
SolveTerm(X, Y, off, W, Yh, R, l, tt, f32) ==
  (Isqrt(CGram(X)[l][l] \div Len(X)) + 1) * SolveE1(X, Y, off, W, Yh, tt, f32) + SolveE2(X, off, R, l, tt, f32)
\* |(M/n)^-1_al| in units of 10^-3 (rounded up)
GinvQ(X, a, l) == LET M == CGram(X) IN (Abs(AdjE(M, a, l)) * Len(X) * 1000) \div Abs(Det(M)) + 1
\* the integer arithmetic of the accuracy model stays inside 31 bits
SolveInRange(X, Y, off, W, Yh, R, tt, f32) ==
  LET M == CGram(X) IN
  /\ Len(M) <= 3
  /\ \A a \in 1..Len(M) : \A l \in 1..Len(M) : Abs(M[a][l]) <= (IF Len(M) = 3 THEN 700 ELSE 46000)   \* Det below cannot overflow
  /\ Abs(Det(M)) > 0 /\ Abs(Det(M)) < 200000000
  /\ \A a \in 1..Len(M) : \A l \in 1..Len(M) : Abs(AdjE(M, a, l)) <= 400000 /\ Abs(AdjE(M, a, l)) * Len(X) <= 2000000
  /\ \A a \in 1..Len(M) : \A l \in 1..Len(M) : GinvQ(X, a, l) <= 20000000
  /\ \A l \in 1..Len(M) : SolveTerm(X, Y, off, W, Yh, R, l, tt, f32) <= 2000000
  /\ \A a \in 1..Len(M) : Abs(SumSeq([l \in 1..Len(M) |-> AdjE(M, a, l) * CVec(X, Y, tt)[l]])) \div Abs(Det(M)) <= 200
\* allowed deviation of a logged slope from the exact one (units of 10^-5): quantisation + floor + model
CoefSlack(X, Y, off, W, Yh, R, a, tt, f32) ==
  2 + CQ * SumSeq([l \in 1..Len(W) |-> MulDiv(GinvQ(X, a, l), SolveTerm(X, Y, off, W, Yh, R, l, tt, f32), 1000) + 1])
\* the float type can resolve the slopes of this case: the accuracy model allows less than 0.05 (otherwise the case is
\* too ill conditioned for the float type -- e.g. nearly collinear columns with an offset of 2^16 in f32 -- and nothing
\* beyond a finite result is demanded).  First conjunct: the products below stay inside 31 bits.
Resolvable(X, Y, off, W, Yh, R, tt, f32) ==
  /\ \A a \in 1..Len(W) : \A l \in 1..Len(W) :
        (GinvQ(X, a, l) \div 1000 + 1) * (SolveTerm(X, Y, off, W, Yh, R, l, tt, f32) \div 1000 + 1) <= 100
  /\ \A a \in 1..Len(W) : CoefSlack(X, Y, off, W, Yh, R, a, tt, f32) <= 5000
CoefOk(X, Y, off, W, Yh, R, tt, f32) ==
  LET ws == WStar(X, Y, tt) IN
  \A a \in 1..Len(W) : Abs(W[a][tt] - ws[a]) <= CoefSlack(X, Y, off, W, Yh, R, a, tt, f32)
\* allowances of the shift-invariant orthogonality relations for a case with offsets (units of 10^-5):
\* evaluation noise of the predictions + what the accuracy model allows for the slopes / the constant column
OffAl0(X, off, W, tt, f32) ==
  Len(X) * PredNoise(X, off, W, tt, f32)
    + CQ * Len(X) * SumSeq([k \in 1..Len(W) |-> UO(X, off, k, f32) * WPlain(W, k, tt)])
OffAlK(X, Y, off, W, Yh, R, j, tt, f32) ==
  SumSeq([i \in 1..Len(X) |-> Abs(X[i][j])]) * PredNoise(X, off, W, tt, f32)
    + SumSeq([l \in 1..Len(W) |-> (Abs(CGram(X)[j][l]) \div Len(X) + 1) * CoefSlack(X, Y, off, W, Yh, R, l, tt, f32)])
    + Abs(ColSum(X, j)) * (OffAl0(X, off, W, tt, f32) \div Len(X) + 1)

-----------------------------------------------------------------------------
(* Closed-form minimiser without an l1 part (pure ridge, or penalty 0 on full-rank data), p <= 2:                 *)
(*   intercept:    (D*M + n*PL2*I) w = D*v      (M = n * centred Gram, v = n * X_c ' y_c)                         *)
(*   no intercept: (D*G + PL2*I)   w = D*X'y    (G = X'X)                                                          *)
(* i.e. (Gram + n*pen*(1-l1)*I) w = X'y, the ridge normal equations, in integers.                                  *)
UGram(X) == [a \in 1..Len(X[1]) |-> [bq \in 1..Len(X[1]) |-> SumSeq([i \in 1..Len(X) |-> X[i][a] * X[i][bq]])]]
UVec(X, Y, tt) == [a \in 1..Len(X[1]) |-> SumSeq([i \in 1..Len(X) |-> X[i][a] * Y[i][tt]])]
RidgeA(pen, X, icpt) ==
  LET n == Len(X)  pp == Len(X[1])
      G == IF icpt THEN CGram(X) ELSE UGram(X)
      dg == IF icpt THEN n * PL2(pen, n) ELSE PL2(pen, n)
  IN [a \in 1..pp |-> [bq \in 1..pp |-> PD(pen) * G[a][bq] + (IF a = bq THEN dg ELSE 0)]]
RidgeB(pen, X, Y, tt, icpt) ==
  LET v == IF icpt THEN CVec(X, Y, tt) ELSE UVec(X, Y, tt) IN [a \in 1..Len(v) |-> PD(pen) * v[a]]
RidgeK(pen, X, icpt) == IF icpt THEN Len(X) * PD(pen) ELSE PD(pen)         \* H^-1 = K * adj(A) / det(A)
\* the integer arithmetic of the closed form stays inside 31 bits (otherwise the clause is not applied)
RidgeInRange(pen, X, Y, tt, icpt) ==
  LET n == Len(X)  pp == Len(X[1])  G == IF icpt THEN CGram(X) ELSE UGram(X) IN
  /\ pp <= 2
  /\ \A a \in 1..pp : \A bq \in 1..pp : Abs(G[a][bq]) <= 46000 \div PD(pen) - n * PL2(pen, n) - 1
  /\ LET A == RidgeA(pen, X, icpt)  bb == RidgeB(pen, X, Y, tt, icpt)  dt == Det(A) IN
     /\ Abs(dt) > 0 /\ Abs(dt) < 200000000
     /\ \A a \in 1..pp : \A l \in 1..pp : Abs(bb[l]) <= 500000000 \div (Abs(AdjE(A, a, l)) + 1)
     /\ \A a \in 1..pp : \A l \in 1..pp : Abs(AdjE(A, a, l)) <= 100000000 \div (RidgeK(pen, X, icpt) * 20)
     /\ \A a \in 1..pp : Abs(SumSeq([l \in 1..pp |-> AdjE(A, a, l) * bb[l]])) \div Abs(dt) <= 50
RidgeStar(pen, X, Y, tt, icpt) ==
  LET A == RidgeA(pen, X, icpt)  bb == RidgeB(pen, X, Y, tt, icpt)  dt == Det(A) IN
  [a \in 1..Len(A) |-> RatS5(SumSeq([l \in 1..Len(A) |-> AdjE(A, a, l) * bb[l]]), dt)]
\* slack: quantisation + floor (3) + a stationarity residual of RidgeRes units propagated through H^-1
RidgeRes == 10
RidgeSlack(pen, X, a, icpt) ==
  LET A == RidgeA(pen, X, icpt) IN
  3 + SumSeq([l \in 1..Len(A) |-> (Abs(AdjE(A, a, l)) * RidgeK(pen, X, icpt) * RidgeRes) \div Abs(Det(A)) + 1])
RidgeOk(pen, X, Y, W, tt, icpt) ==
  LET ws == RidgeStar(pen, X, Y, tt, icpt) IN
  \A a \in 1..Len(W) : Abs(W[a][tt] - ws[a]) <= RidgeSlack(pen, X, a, icpt)
=============================================================================
