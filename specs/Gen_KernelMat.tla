--------------------------- MODULE Gen_KernelMat ---------------------------
(* Case generator for the kernel half of C06: every multiset of 1..MaxN lattice points of   *)
(* each listed space (as a sequence, also in reversed order), every neighbour count         *)
(* 0 < k < n and the dense form (k = 0), with a kernel method drawn from the list by a      *)
(* deterministic hash of the case (4 of the 13 have half-integer polynomial degrees).  A third of the cases divides the records by pd = 2      *)
(* (half-integer records; all kernel arithmetic stays exact in binary floating point).       *)
EXTENDS Integers, Sequences, FiniteSets, TLC, Json

CONSTANTS MaxN2,   \* 2-D grid {0,1,2}^2
          MaxN1,   \* 1-D points {-2..2}
          MaxN3,   \* 3-D cube {0,1}^3
          Stride   \* keep one case in Stride of the largest 2-D size (1 = all)

VARIABLE case

RECURSIVE IPow(_, _)
IPow(b, d) == IF d = 0 THEN 1 ELSE b * IPow(b, d - 1)
RECURSIVE SumSeq(_)
SumSeq(s) == IF s = <<>> THEN 0 ELSE Head(s) + SumSeq(Tail(s))

RECURSIVE Tuples(_, _)
Tuples(S, d) == IF d = 0 THEN {<<>>} ELSE {Append(t, x) : t \in Tuples(S, d - 1), x \in S}
PKey(p) == SumSeq([d \in 1..Len(p) |-> (p[d] + 8) * IPow(16, d - 1)])
RECURSIVE SortedSeqs(_, _)
SortedSeqs(S, n) == IF n = 0 THEN {<<>>}
                    ELSE UNION {{Append(s, x) : x \in {y \in S : n = 1 \/ PKey(s[n - 1]) <= PKey(y)}} : s \in SortedSeqs(S, n - 1)}

\* degree = d/dd.  The last four have half-integer degrees; their constant keeps the base <x,y> + c >= 0
\* (a negative base has no real fractional power: not generated).  cneg = the constant used on the space with
\* negative coordinates ({-2..2}: <x,y> >= -4).
Methods == << [name |-> "linear", en |-> 1, ed |-> 1, c |-> 0, d |-> 1, dd |-> 1],
              [name |-> "gauss",  en |-> 1, ed |-> 2, c |-> 0, d |-> 0, dd |-> 1],
              [name |-> "poly",   en |-> 1, ed |-> 1, c |-> 1, d |-> 2, dd |-> 1],
              [name |-> "poly",   en |-> 1, ed |-> 1, c |-> 1, d |-> 1, dd |-> 2],
              [name |-> "gauss",  en |-> 1, ed |-> 1, c |-> 0, d |-> 0, dd |-> 1],
              [name |-> "poly",   en |-> 1, ed |-> 1, c |-> 2, d |-> 3, dd |-> 1],
              [name |-> "poly",   en |-> 1, ed |-> 1, c |-> 0, d |-> 3, dd |-> 2],
              [name |-> "gauss",  en |-> 2, ed |-> 1, c |-> 0, d |-> 0, dd |-> 1],
              [name |-> "poly",   en |-> 1, ed |-> 1, c |-> 0, d |-> 1, dd |-> 1],
              [name |-> "poly",   en |-> 1, ed |-> 1, c |-> 1, d |-> 5, dd |-> 2],
              [name |-> "gauss",  en |-> 5, ed |-> 1, c |-> 0, d |-> 0, dd |-> 1],
              [name |-> "poly",   en |-> 1, ed |-> 1, c |-> -1, d |-> 3, dd |-> 1],
              [name |-> "poly",   en |-> 1, ed |-> 1, c |-> 1, d |-> 3, dd |-> 2] >>
MethFor(mi, neg) == IF Methods[mi].dd = 2 /\ neg THEN [Methods[mi] EXCEPT !.c = @ + 4] ELSE Methods[mi]

Hash(p, k) == SumSeq([i \in 1..Len(p) |-> (2 * i + 1) * PKey(p[i])]) + 5 * k + Len(p)
Reverse(s) == [i \in 1..Len(s) |-> s[Len(s) + 1 - i]]
Rhs(n) == [j \in 1..n |-> <<((2 * j) % 3) - 1, (j % 2) + 1>>]

\* Builder histories: sequences of KernelParams setter calls (starting from Kernel::params(): dense, Gaussian(0.5),
\* KdTree) that all end in the configuration of the case (method, kind k, neighbour index hnn): every order of the three
\* setters, behind an optional decoy call whose value is overwritten later, and the minimal history that only calls
\* the setters whose value differs from the default.
DefMeth == [name |-> "gauss", en |-> 1, ed |-> 2, c |-> 0, d |-> 0, dd |-> 1]
OpM(m)  == [f |-> "meth", m |-> m, k |-> 0, nn |-> ""]
OpK(k)  == [f |-> "kind", m |-> DefMeth, k |-> k, nn |-> ""]
OpN(nn) == [f |-> "nn", m |-> DefMeth, k |-> 0, nn |-> nn]
Hists(m, k, nn, h) ==
  LET M == OpM(m)  K == OpK(k)  N == OpN(nn)
      decoy == CASE h % 4 = 1 -> <<OpM(IF m.name = "linear" THEN Methods[3] ELSE Methods[1])>>
                 [] h % 4 = 2 -> <<OpK(IF k = 0 THEN 1 ELSE 0)>>
                 [] h % 4 = 3 -> <<OpN(IF nn = "lin" THEN "ball" ELSE "lin")>>
                 [] OTHER -> <<>>
      minimal == (IF m = DefMeth THEN <<>> ELSE <<M>>) \o (IF nn = "kd" THEN <<>> ELSE <<N>>) \o (IF k = 0 THEN <<>> ELSE <<K>>)
  IN << decoy \o <<M, K, N>>, decoy \o <<M, N, K>>, decoy \o <<K, M, N>>,
        decoy \o <<K, N, M>>, decoy \o <<N, M, K>>, decoy \o <<N, K, M>>, minimal >>
NNs == <<"kd", "lin", "ball", "kd">>

Spaces == { [pts |-> Tuples({0, 1, 2}, 2), maxn |-> MaxN2, big |-> TRUE, neg |-> FALSE],
            [pts |-> Tuples({-2, -1, 0, 1, 2}, 1), maxn |-> MaxN1, big |-> FALSE, neg |-> TRUE],
            [pts |-> Tuples({0, 1}, 3), maxn |-> MaxN3, big |-> FALSE, neg |-> FALSE] }

Init ==
  \E sp \in Spaces :
  \E n \in 1..sp.maxn :
  \E s \in SortedSeqs(sp.pts, n) :
  \E k \in 0..(n - 1) :
  \E mi \in {((Hash(s, k) \div 4) % Len(Methods)) + 1} :
     /\ (sp.big /\ n = sp.maxn /\ n > 3) => Hash(s, k) % Stride = 0
     /\ case = [kind |-> "kernel",
                inp |-> [pts |-> IF (Hash(s, k) \div 36) % 2 = 0 THEN s ELSE Reverse(s),
                         meth |-> MethFor(mi, sp.neg), k |-> k, rhs |-> Rhs(n),
                         pd |-> IF (Hash(s, k) \div 72) % 3 = 0 THEN 2 ELSE 1,
                         \* Gaussian kernels are shift-invariant: three quarters of them get their records shifted by a
                         \* large exactly representable offset (code 1..3, see the harness); the relation is unchanged
                         off |-> IF Methods[mi].name = "gauss" THEN (Hash(s, k) \div 11) % 4 ELSE 0,
                         hnn |-> NNs[((Hash(s, k) \div 7) % 4) + 1],
                         hists |-> Hists(MethFor(mi, sp.neg), k, NNs[((Hash(s, k) \div 7) % 4) + 1], Hash(s, k) \div 13)]]

Next == UNCHANGED case
Emit == PrintT("CASE " \o ToJson(case))
=============================================================================
