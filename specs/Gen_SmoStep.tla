----------------------------- MODULE Gen_SmoStep -----------------------------
(***************************************************************************)
(* Case generator for X12.  The cases are exactly the instances on which   *)
(* the design model SmoStep is model-checked (SmoStep!Inputs): every sorted *)
(* multiset of labelled 1-D lattice points of the tier's sizes (the small  *)
(* families of C13's Gen_Smo restricted to few points, so that a run takes *)
(* a handful of iterations), with DYADIC box parameters (unequal class      *)
(* weights included), dyadic nu / epsilon, integer kernel matrices (linear, *)
(* <x,x'>+1, (<x,x'>+1)^2), stopping tolerance eps = 2^-EpsK.               *)
(* One case = one fit; a case is [kind, inp] as consumed by harness x12.    *)
(***************************************************************************)
EXTENDS SmoStep, Json

GInit == Init
GNext == UNCHANGED vars
Emit == PrintT("CASE " \o ToJson(case))
=============================================================================
