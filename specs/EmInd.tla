------------------------------- MODULE EmInd -------------------------------
(***************************************************************************)
(* X08 (3a) -- Apalache-typed restatement of the EM outer loop / restart   *)
(* bookkeeping of specs/X10Em.tla (X10; GmmValidParams::fit) with an       *)
(* inductive invariant.                                                    *)
(*                                                                         *)
(* Differences to X10Em.tla (checked by TLC, XC_EmRef.tla: every behaviour *)
(* of X10Em is a behaviour of this module under the mapping below, and the *)
(* reachable state sets agree when the lower bounds are drawn from -2..2   *)
(* and tol = 2 as in X10Em's bounded model):                               *)
(*  - records and the history sequence are flattened: lb = (lbfin, lbv),   *)
(*    best = (brun, blbfin, blbv, bconv), hist = the arrays hlb, hconv,    *)
(*    hkept, hiters over 1..R with hlen entries in use (cells beyond hlen  *)
(*    keep their initial value);                                           *)
(*  - the parameters maxit, nruns, tol are RIGID variables (chosen in      *)
(*    Init, never changed) with maxit <= I, nruns <= R; tol is ANY         *)
(*    integer;                                                             *)
(*  - the lower bound delivered by an iteration is ANY integer             *)
(*    (\E v \in Int; X10Em's bounded model draws it from -2..2).  This is  *)
(*    the "uninterpreted lower-bound sequence": nothing is assumed about   *)
(*    the values the EM steps deliver, not even monotonicity;              *)
(*  - exact comparisons only (X10Em's G.q = 0, the design-model setting;   *)
(*    the slack q > 0 is a device of the trace specification);             *)
(*  - G.cont only selects the NAME of the start action (EmInit /           *)
(*    EmContinue are both StartRun): dropped.                              *)
(*                                                                         *)
(* R and I are CONSTANTS (array sizes): one Apalache run proves IndInv     *)
(* inductive for every nruns <= R, maxit <= I, every tolerance and every   *)
(* sequence of integer lower bounds.                                       *)
(*                                                                         *)
(* Variant # "ok" seeds design bugs the invariants must reject:            *)
(*   "last_best"   a run replaces the best run when its lower bound is     *)
(*                 >= (ties: the LAST best is kept)                        *)
(*   "first_iter_converges"  the missing previous lower bound of a run's   *)
(*                 first iteration is taken as 0 instead of -infinity      *)
(*   "ok_if_any_converged"   the result is Ok when ANY run converged       *)
(*   "conv_not_reset"  StartRun does not reset the convergence flag        *)
(***************************************************************************)
EXTENDS Integers

CONSTANTS
  \* @type: Int;
  R,
  \* @type: Int;
  I,
  \* @type: Str;
  Variant

VARIABLES
  \* @type: Int;
  maxit,
  \* @type: Int;
  nruns,
  \* @type: Int;
  tol,
  \* "start" | "iter" | "end" | "result" | "done"
  \* @type: Str;
  pc,
  \* @type: Int;
  run,
  \* @type: Int;
  it,
  \* lower bound of the last iteration: defined?, value
  \* @type: Bool;
  lbfin,
  \* @type: Int;
  lbv,
  \* 0-based iteration the current run converged at, -1: not converged
  \* @type: Int;
  conv,
  \* @type: Str;
  dec,
  \* best run so far (0: none), its lower bound and convergence flag
  \* @type: Int;
  brun,
  \* @type: Bool;
  blbfin,
  \* @type: Int;
  blbv,
  \* @type: Int;
  bconv,
  \* history of the finished runs
  \* @type: Int;
  hlen,
  \* @type: Int -> Int;
  hlb,
  \* @type: Int -> Int;
  hconv,
  \* @type: Int -> Bool;
  hkept,
  \* @type: Int -> Int;
  hiters,
  \* "none" | "ok" | "NotConverged"
  \* @type: Str;
  res

vars == <<maxit, nruns, tol, pc, run, it, lbfin, lbv, conv, dec, brun, blbfin, blbv, bconv, hlen, hlb, hconv, hkept, hiters, res>>

Runs == 1..R
\* @type: (Int) => Int;
EAbs(x) == IF x < 0 THEN -x ELSE x

Init ==
  /\ maxit \in 1..I /\ nruns \in 1..R /\ tol \in Int
  /\ pc = "start" /\ run = 0 /\ it = 0 /\ lbfin = FALSE /\ lbv = 0 /\ conv = -1 /\ dec = "none"
  /\ brun = 0 /\ blbfin = FALSE /\ blbv = 0 /\ bconv = -1
  /\ hlen = 0 /\ hlb = [r \in Runs |-> 0] /\ hconv = [r \in Runs |-> -1]
  /\ hkept = [r \in Runs |-> FALSE] /\ hiters = [r \in Runs |-> 0]
  /\ res = "none"

StartRun ==
  /\ pc = "start" /\ run < nruns
  /\ run' = run + 1 /\ it' = 0 /\ lbfin' = FALSE /\ lbv' = 0 /\ dec' = "none"
  /\ conv' = (IF Variant = "conv_not_reset" THEN conv ELSE -1)
  /\ pc' = "iter"
  /\ UNCHANGED <<maxit, nruns, tol, brun, blbfin, blbv, bconv, hlen, hlb, hconv, hkept, hiters, res>>

\* |v - previous| < tol; the first iteration of a run has no previous value
\* @type: (Int) => Bool;
Conv(v) ==
  IF ~lbfin THEN (Variant = "first_iter_converges" /\ EAbs(v) < tol)
  ELSE EAbs(v - lbv) < tol

\* @type: (Int) => Bool;
EmIterV(v) ==
  /\ pc = "iter" /\ it < maxit
  /\ dec' = (IF Conv(v) THEN "converged" ELSE "continue")
  /\ conv' = (IF Conv(v) THEN it ELSE IF Variant = "conv_not_reset" THEN conv ELSE -1)
  /\ pc' = (IF Conv(v) \/ it + 1 = maxit THEN "end" ELSE "iter")
  /\ lbfin' = TRUE /\ lbv' = v
  /\ it' = it + 1
  /\ UNCHANGED <<maxit, nruns, tol, run, brun, blbfin, blbv, bconv, hlen, hlb, hconv, hkept, hiters, res>>

\* = \E v \in Int : EmIterV(v), written so that TLC can evaluate it as a predicate on a pair of states
EmIter == lbv' \in Int /\ EmIterV(lbv')

\* the run replaces the best run iff its lower bound is strictly greater
Kept ==
  IF ~lbfin THEN FALSE
  ELSE IF ~blbfin THEN TRUE
  ELSE IF Variant = "last_best" THEN lbv >= blbv ELSE lbv > blbv

EmRunEnd ==
  /\ pc = "end"
  /\ brun' = (IF Kept THEN run ELSE brun)
  /\ blbfin' = (IF Kept THEN lbfin ELSE blbfin)
  /\ blbv' = (IF Kept THEN lbv ELSE blbv)
  /\ bconv' = (IF Kept THEN conv ELSE bconv)
  /\ hlen' = hlen + 1
  /\ hlb' = [hlb EXCEPT ![hlen + 1] = lbv]
  /\ hconv' = [hconv EXCEPT ![hlen + 1] = conv]
  /\ hkept' = [hkept EXCEPT ![hlen + 1] = Kept]
  /\ hiters' = [hiters EXCEPT ![hlen + 1] = it]
  /\ pc' = (IF run = nruns THEN "result" ELSE "start")
  /\ UNCHANGED <<maxit, nruns, tol, run, it, lbfin, lbv, conv, dec, res>>

EmResult ==
  /\ pc = "result"
  /\ res' = (IF Variant = "ok_if_any_converged"
               THEN (IF \E r \in Runs : r <= hlen /\ hconv[r] >= 0 THEN "ok" ELSE "NotConverged")
               ELSE (IF brun > 0 /\ bconv >= 0 THEN "ok" ELSE "NotConverged"))
  /\ pc' = "done"
  /\ UNCHANGED <<maxit, nruns, tol, run, it, lbfin, lbv, conv, dec, brun, blbfin, blbv, bconv, hlen, hlb, hconv, hkept, hiters>>

Next == StartRun \/ EmIter \/ EmRunEnd \/ EmResult

Spec == Init /\ [][Next]_vars

-----------------------------------------------------------------------------
(* The statements to be proved (X10Em: InvBudget, InvConverged, InvBest, InvResult) *)

InvBudget ==
  /\ it <= maxit /\ run <= nruns
  /\ pc = "end" => (conv >= 0 \/ it = maxit)
  /\ pc \in {"result", "done"} => hlen = nruns
\* a run is flagged converged exactly by its last iteration, never by its first
InvConverged ==
  /\ conv >= 0 => (conv = it - 1 /\ it >= 2 /\ dec = "converged")
  /\ \A r \in Runs : (r <= hlen /\ hconv[r] >= 0) => (hconv[r] = hiters[r] - 1 /\ hiters[r] >= 2)
  /\ \A r \in Runs : (r <= hlen /\ hconv[r] < 0) => hiters[r] = maxit
\* the kept run is the arg-max of the runs' lower bounds, the first one on ties
\* @type: (Int) => Bool;
IsFirstMax(b) ==
  /\ \A s \in Runs : s <= hlen => hlb[s] <= hlb[b]
  /\ \A s \in Runs : s < b => hlb[s] < hlb[b]
InvBest ==
  hlen > 0 =>
    /\ brun >= 1 /\ brun <= hlen /\ IsFirstMax(brun)
    /\ blbfin /\ blbv = hlb[brun] /\ bconv = hconv[brun]
    /\ \A r \in Runs : r <= hlen => (hkept[r] <=> \A s \in Runs : s < r => hlb[s] < hlb[r])
\* Ok iff the kept run converged
InvResult == pc = "done" => ((res = "ok") <=> hconv[brun] >= 0)

Safety == InvBudget /\ InvConverged /\ InvBest /\ InvResult

-----------------------------------------------------------------------------
(* The inductive invariant *)

TypeOk ==
  /\ maxit \in 1..I /\ nruns \in 1..R /\ tol \in Int
  /\ pc \in {"start", "iter", "end", "result", "done"}
  /\ run \in 0..R /\ it \in 0..I
  /\ lbfin \in BOOLEAN /\ lbv \in Int /\ conv \in -1..I
  /\ dec \in {"none", "converged", "continue"}
  /\ brun \in 0..R /\ blbfin \in BOOLEAN /\ blbv \in Int /\ bconv \in -1..I
  /\ hlen \in 0..R
  /\ hlb \in [Runs -> Int] /\ hconv \in [Runs -> -1..I] /\ hkept \in [Runs -> BOOLEAN] /\ hiters \in [Runs -> 0..I]
  /\ res \in {"none", "ok", "NotConverged"}

IndInv ==
  /\ TypeOk
  /\ InvBudget /\ InvConverged /\ InvBest /\ InvResult
  \* control: run counter, history length, program counter
  /\ pc = "start" => hlen = run
  /\ pc \in {"iter", "end"} => (run >= 1 /\ hlen = run - 1)
  /\ pc \in {"result", "done"} => (run = nruns /\ hlen = nruns)
  /\ pc = "iter" => (it < maxit /\ conv = -1 /\ (lbfin <=> it >= 1))
  /\ pc = "end" => (it >= 1 /\ lbfin)
  /\ pc # "done" => res = "none"
  \* no best run before the first run has ended
  /\ hlen = 0 => (brun = 0 /\ ~blbfin /\ blbv = 0 /\ bconv = -1)
  \* history cells: in use / not yet in use
  /\ \A r \in Runs : r <= hlen => (hiters[r] >= 1 /\ hiters[r] <= maxit)
  /\ \A r \in Runs : r > hlen => (hlb[r] = 0 /\ hconv[r] = -1 /\ ~hkept[r] /\ hiters[r] = 0)
=============================================================================
