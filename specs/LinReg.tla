------------------------------- MODULE LinReg -------------------------------
(***************************************************************************)
(* C11 -- least-squares estimators return a minimiser of their documented  *)
(* objective (linfa-linear OLS, linfa-elasticnet single and multi task).   *)
(*                                                                         *)
(* Part 1 (module LinRegRel): the defining relations, integer arithmetic.  *)
(*   Data  X (n rows x p ints), Y (n rows x t ints): exact lattice values. *)
(*   Observed  W (p x t), B (t), Yh (n x t), Gap : round(value * sc).      *)
(*   penalty  = ln/ld,  l1_ratio = rn/rd  (exact rationals).               *)
(*   n*Obj(W,B) = 1/2 ||Y - XW - 1B||_F^2 + n*pen*l1 * sum_j ||W_j||_2     *)
(*                + 1/2 n*pen*(1-l1) ||W||_F^2      (documented objective) *)
(*   Optimality (KKT) of this convex objective, jointly in W and B:        *)
(*     G_j = x_j'R - n*pen*(1-l1) W_j      (R = Y - XW - 1B)               *)
(*     W_j /= 0  =>  G_j = n*pen*l1 * W_j/||W_j||                          *)
(*     W_j  = 0  =>  ||G_j|| <= n*pen*l1                                   *)
(*     intercept fitted  =>  sum_i R_i = 0                                 *)
(*   pen = 0 gives the normal equations (OLS orthogonality).               *)
(*   That a KKT point of a convex function is a global minimiser is the    *)
(*   textbook lemma the check rests on; the design model below checks it   *)
(*   on a bounded grid (InvNoBetterOnGrid).                                *)
(* Every comparison carries an explicit slack: the quantisation error of   *)
(* the logged fixed-point numbers propagated through the linear form,      *)
(* plus a stated numerical allowance.                                      *)
(*                                                                         *)
(* Part 2: a design model of cyclic coordinate descent with residual       *)
(* updates (the mechanism of algorithm.rs) in fixed-point arithmetic, with *)
(* the intercept handled either jointly ("joint") or as the target mean    *)
(* only ("ymean" = what the unrepaired code does).  TLC checks the         *)
(* residual book-keeping, monotone descent, and that the *same* relation   *)
(* operators that validate the implementation traces accept the fixed      *)
(* point of the joint variant (non-vacuity of the relation) and that no    *)
(* grid point has a smaller objective (the lemma).                         *)
(***************************************************************************)
EXTENDS LinRegRel

-----------------------------------------------------------------------------
(* Part 2 -- design model: cyclic coordinate descent with residual updates, scale MS *)

CONSTANTS MaxSweeps, DXV, DXOff, DYV   \* sweep budget; feature values are {v - DXOff : v \in DXV} (cfg files have no negative literals), target values DYV
MS == 200

SortedTriples(V) == {<<a1, a2, a3>> : a1 \in V, a2 \in V, a3 \in V} \ {s \in {<<a1, a2, a3>> : a1 \in V, a2 \in V, a3 \in V} : s[1] > s[2] \/ s[2] > s[3]}
Col2(c, kind) == IF kind = "sq" THEN [i \in 1..3 |-> c[i] * c[i]] ELSE [i \in 1..3 |-> 1 - c[i]]
DPens == {<<0, 1, 1, 2>>, <<1, 10, 1, 1>>, <<1, 2, 1, 2>>, <<1, 1, 0, 1>>}
Designs ==
  {[x |-> [i \in 1..3 |-> <<c[i]>>], y |-> yy, ln |-> q[1], ld |-> q[2], rn |-> q[3], rd |-> q[4], icpt |-> ic] :
      c \in SortedTriples({v - DXOff : v \in DXV}), yy \in {<<a1, a2, a3>> : a1 \in DYV, a2 \in DYV, a3 \in DYV}, q \in DPens, ic \in BOOLEAN}
  \cup
  {[x |-> [i \in 1..3 |-> <<c[i], Col2(c, kd)[i]>>], y |-> yy, ln |-> q[1], ld |-> q[2], rn |-> q[3], rd |-> q[4], icpt |-> ic] :
      c \in SortedTriples({v - DXOff : v \in DXV}), yy \in {<<0, 1, 2>>, <<2, 0, 1>>, <<1, 1, 0>>}, q \in DPens, ic \in BOOLEAN, kd \in {"sq", "neg"}}

VARIABLES dsn, mode, w, b, r, sweep, j, pc, obj0, changed

vars == <<dsn, mode, w, b, r, sweep, j, pc, obj0, changed>>

DP   == Len(dsn.x[1])
DN   == Len(dsn.x)
DPen == [ln |-> dsn.ln, ld |-> dsn.ld, rn |-> dsn.rn, rd |-> dsn.rd]
DCol(jj) == [i \in 1..DN |-> dsn.x[i][jj]]
YSum == SumSeq([i \in 1..DN |-> dsn.y[i]])

\* D * 2n * Obj at scale MS^2 (exact on the fixed-point iterate)
Obj2(ww, rr) ==
  PD(DPen) * SumSeq([i \in 1..DN |-> rr[i] * rr[i]])
    + 2 * PTh(DPen, DN) * MS * SumSeq([jj \in 1..DP |-> Abs(ww[jj])])
    + PL2(DPen, DN) * SumSeq([jj \in 1..DP |-> ww[jj] * ww[jj]])
ResOf(ww, bb) == [i \in 1..DN |-> dsn.y[i] * MS - SumSeq([jj \in 1..DP |-> dsn.x[i][jj] * ww[jj]]) - bb]

DInit ==
  /\ dsn \in Designs
  /\ mode \in (IF dsn.icpt THEN {"joint", "ymean"} ELSE {"joint"})
  /\ w = [jj \in 1..DP |-> 0]
  /\ b = IF dsn.icpt THEN RoundDiv(YSum * MS, DN) ELSE 0
  /\ r = [i \in 1..DN |-> dsn.y[i] * MS - b]
  /\ sweep = 0 /\ j = 1 /\ pc = "coord" /\ changed = FALSE
  /\ obj0 = Obj2(w, r)

\* one coordinate step: add the old contribution back, soft-threshold, subtract the new one
SoftT(v, th) == Sgn(v) * Max2(Abs(v) - th, 0)
CoordStep ==
  /\ pc = "coord" /\ j <= DP
  /\ LET nx  == ColSq(dsn.x, j)
         rr  == [i \in 1..DN |-> r[i] + w[j] * dsn.x[i][j]]
         tmp == SumSeq([i \in 1..DN |-> dsn.x[i][j] * rr[i]])
         den == PD(DPen) * nx + PL2(DPen, DN)
         num == SoftT(PD(DPen) * tmp, PTh(DPen, DN) * MS)
         wn  == IF nx = 0 THEN w[j] ELSE Sgn(num) * RoundDiv(Abs(num), den)
     IN /\ w' = [w EXCEPT ![j] = wn]
        /\ r' = [i \in 1..DN |-> rr[i] - wn * dsn.x[i][j]]
        /\ changed' = (changed \/ wn /= w[j])
  /\ j' = j + 1
  /\ obj0' = Obj2(w, r)
  /\ UNCHANGED <<dsn, mode, b, sweep, pc>>

\* end of a sweep: joint variant re-centres the residual (the intercept is one more, unpenalised, coordinate)
SweepEnd ==
  /\ pc = "coord" /\ j = DP + 1
  /\ LET m == IF mode = "joint" /\ dsn.icpt THEN RoundDiv(SumSeq(r) + DN * 1000000, DN) - 1000000 ELSE 0
     IN /\ b' = b + m
        /\ r' = [i \in 1..DN |-> r[i] - m]
        /\ pc' = IF (~changed /\ m = 0) \/ sweep + 1 >= MaxSweeps THEN "done" ELSE "coord"
  /\ sweep' = sweep + 1 /\ j' = 1 /\ changed' = FALSE
  /\ obj0' = Obj2(w, r)
  /\ UNCHANGED <<dsn, mode, w>>

Done == pc = "done" /\ UNCHANGED vars

DNext == CoordStep \/ SweepEnd \/ Done

\* --- invariants of the design
\* residual book-keeping: the incrementally updated residual is the residual of the current iterate
InvResidual == r = ResOf(w, b)
\* every step lowers the objective, up to the rounding of the step to the fixed-point grid
MaxColSq == MaxSeq([jj \in 1..DP |-> ColSq(dsn.x, jj)])
RoundSlack == PD(DPen) * (MaxColSq + DN) + PL2(DPen, DN) + 2
GridSlack == 200 * RoundSlack
InvDescent == Obj2(w, r) <= obj0 + RoundSlack
\* the relation operators of part 1 accept the fixed point (allowance = rounding of the division)
AsMat(v)  == [q \in 1..Len(v) |-> <<v[q]>>]
DC        == [jj \in 1..DP |-> <<SumSeq([i \in 1..DN |-> dsn.x[i][jj] * r[i]])>>]
DAl(jj)   == ColSq(dsn.x, jj) + PL2(DPen, DN) + 1
Converged == pc = "done" /\ sweep < MaxSweeps
InvKktAtFixpoint ==
  Converged => \A jj \in 1..DP : KktCoordOk(DPen, DN, dsn.x, DC, AsMat(w), jj, MS, DAl(jj))
InvIcptJoint ==
  (Converged /\ dsn.icpt /\ mode = "joint") => IcptJointOk(DN, AsMat(r), 1, 0)
InvIcptYMean ==
  (dsn.icpt /\ mode = "ymean") => IcptYMeanOk(DN, AsMat(dsn.y), <<b>>, 1, MS)
\* the lemma on a grid: no point of the grid {-2,-1.5,..,2}^p x {b-1,b,b+1} beats the joint fixed point
Grid == {q * (MS \div 2) : q \in -4..4}
RECURSIVE GridPts(_)
GridPts(k) == IF k = 0 THEN {<<>>} ELSE {Append(s, v) : s \in GridPts(k - 1), v \in Grid}
InvNoBetterOnGrid ==
  (Converged /\ mode = "joint") =>
     \A ww \in GridPts(DP) : \A db \in (IF dsn.icpt THEN {-MS, -(MS \div 2), 0, MS \div 2, MS} ELSE {0}) :
        Obj2(ww, ResOf(ww, b + db)) >= Obj2(w, r) - GridSlack
\* the sweep budget of the bounded model is large enough for every design of the set
InvConverges == pc = "done" => sweep < MaxSweeps
=============================================================================
