------------------------------- MODULE X10Em -------------------------------
(***************************************************************************)
(* X10 -- the outer loop of `GmmValidParams::fit` (linfa-clustering,       *)
(* gaussian_mixture/algorithm.rs) as an explicit state machine.  The EM    *)
(* steps themselves are opaque here (C10 judges the fitted mixture): an    *)
(* iteration delivers a lower bound, an integer in fixed point.            *)
(*                                                                         *)
(*   EmInit       : a run starts from a fresh initialisation (documented:  *)
(*                  "n_runs: number of initializations to perform")        *)
(*   EmContinue   : a run starts from the state the previous run ended in  *)
(*                  (what the code does for every run but the first; only  *)
(*                  taken when Continue = TRUE)                            *)
(*   EmIter(v)    : iteration it+1 delivers the lower bound v;             *)
(*                  change = v - previous (the first iteration of a run    *)
(*                  has no previous value: change = +infinity);            *)
(*                  "converged" iff |change| < tolerance, the run ends;    *)
(*                  otherwise it ends when max_n_iterations are used up    *)
(*   EmRunEnd     : the run replaces the best run iff its lower bound is   *)
(*                  strictly greater (first-best on ties)                  *)
(*   EmResult     : Ok iff a run was kept and the kept run converged,      *)
(*                  NotConverged otherwise                                 *)
(*                                                                         *)
(* G.q is the quantisation slack of the lower bounds (0 in the design      *)
(* model: exact integers; 2 for values logged from floats, where a         *)
(* comparison within the slack is left open and bound to the order keys by *)
(* Trace_X10Em).                                                           *)
(***************************************************************************)
EXTENDS Integers, Sequences, TLC

CONSTANTS MaxIt, MaxRuns    \* bounded design model

VARIABLES G,        \* parameters [maxit, nruns, tol, q, cont]
          pc,       \* "start" | "iter" | "end" | "result" | "done"
          run, it,
          lb,       \* [fin |-> BOOLEAN, v |-> Int]: lower bound of the last iteration (fin = FALSE: -infinity)
          conv,     \* 0-based iteration the current run converged at, -1: not converged
          dec,      \* decision of the last iteration
          best,     \* [run, lb, conv]  (run = 0: none kept yet)
          hist,     \* per finished run [lb, conv, kept, iters]
          res       \* "none" | "ok" | "NotConverged"

evars == <<G, pc, run, it, lb, conv, dec, best, hist, res>>

EAbs(x) == IF x < 0 THEN -x ELSE x
NegInf == [fin |-> FALSE, v |-> 0]
Val(v) == [fin |-> TRUE, v |-> v]

\* possible outcomes of |v - prev| < tol
ConvSet(prev, v, tol, q) ==
  IF ~prev.fin THEN {FALSE}
  ELSE LET d == EAbs(v - prev.v) IN
       IF d + q < tol THEN {TRUE} ELSE IF d - q >= tol THEN {FALSE} ELSE {TRUE, FALSE}
\* possible outcomes of a > b
GtSet(a, b, q) ==
  IF ~a.fin THEN {FALSE}
  ELSE IF ~b.fin THEN {TRUE}
  ELSE IF a.v - b.v > q THEN {TRUE} ELSE IF a.v - b.v < -q \/ (q = 0 /\ a.v = b.v) THEN {FALSE} ELSE {TRUE, FALSE}

NoBest == [run |-> 0, lb |-> NegInf, conv |-> -1]

StartRun ==
  /\ pc = "start" /\ run < G.nruns
  /\ run' = run + 1 /\ it' = 0 /\ lb' = NegInf /\ conv' = -1 /\ dec' = "none"
  /\ pc' = "iter"
  /\ UNCHANGED <<G, best, hist, res>>
EmInit == StartRun
EmContinue == G.cont /\ run >= 1 /\ StartRun

EmIter(v) ==
  /\ pc = "iter" /\ it < G.maxit
  /\ \E c \in ConvSet(lb, v, G.tol, G.q) :
       /\ dec' = IF c THEN "converged" ELSE "continue"
       /\ conv' = IF c THEN it ELSE -1
       /\ pc' = IF c \/ it + 1 = G.maxit THEN "end" ELSE "iter"
  /\ lb' = Val(v)
  /\ it' = it + 1
  /\ UNCHANGED <<G, run, best, hist, res>>

EmRunEnd ==
  /\ pc = "end"
  /\ \E kept \in GtSet(lb, best.lb, G.q) :
       /\ best' = IF kept THEN [run |-> run, lb |-> lb, conv |-> conv] ELSE best
       /\ hist' = Append(hist, [lb |-> lb, conv |-> conv, kept |-> kept, iters |-> it])
  /\ pc' = IF run = G.nruns THEN "result" ELSE "start"
  /\ UNCHANGED <<G, run, it, lb, conv, dec, res>>

EmResult ==
  /\ pc = "result"
  /\ res' = IF best.run > 0 /\ best.conv >= 0 THEN "ok" ELSE "NotConverged"
  /\ pc' = "done"
  /\ UNCHANGED <<G, run, it, lb, conv, dec, best, hist>>

-----------------------------------------------------------------------------
(* bounded design model: lower bounds in -2..2, tolerance 2 *)
Init ==
  /\ \E mi \in 1..MaxIt, nr \in 1..MaxRuns, ct \in BOOLEAN :
       G = [maxit |-> mi, nruns |-> nr, tol |-> 2, q |-> 0, cont |-> ct]
  /\ pc = "start" /\ run = 0 /\ it = 0 /\ lb = NegInf /\ conv = -1 /\ dec = "none"
  /\ best = NoBest /\ hist = <<>> /\ res = "none"

DInit == run = 0 /\ EmInit
DNextRun == run >= 1 /\ IF G.cont THEN EmContinue ELSE EmInit
DIter == \E v \in -2..2 : EmIter(v)
DDone == pc = "done" /\ UNCHANGED evars
Next == DInit \/ DNextRun \/ DIter \/ EmRunEnd \/ EmResult \/ DDone
Spec == Init /\ [][Next]_evars /\ WF_evars(DInit \/ DNextRun \/ DIter \/ EmRunEnd \/ EmResult)

Terminates == <>(pc = "done")
InvBudget ==
  /\ it <= G.maxit /\ run <= G.nruns
  /\ (pc = "end") => (conv >= 0 \/ it = G.maxit)
  /\ (pc \in {"result", "done"}) => Len(hist) = G.nruns
\* a run is flagged converged exactly when its last two lower bounds are closer than the tolerance,
\* and never by its first iteration
InvConverged ==
  /\ (conv >= 0) => (conv = it - 1 /\ it >= 2 /\ dec = "converged")
  /\ \A r \in 1..Len(hist) : (hist[r].conv >= 0) => (hist[r].conv = hist[r].iters - 1 /\ hist[r].iters >= 2)
  /\ \A r \in 1..Len(hist) : (hist[r].conv < 0) => hist[r].iters = G.maxit
\* the kept run is the arg-max of the runs' lower bounds, the first one on ties
IsFirstMax(r) ==
  /\ \A s \in 1..Len(hist) : hist[s].lb.v <= hist[r].lb.v
  /\ \A s \in 1..(r - 1) : hist[s].lb.v < hist[r].lb.v
InvBest ==
  (Len(hist) > 0) =>
    /\ best.run \in 1..Len(hist) /\ IsFirstMax(best.run)
    /\ best.lb = hist[best.run].lb /\ best.conv = hist[best.run].conv
    /\ \A r \in 1..Len(hist) : hist[r].kept <=> (\A s \in 1..(r - 1) : hist[s].lb.v < hist[r].lb.v)
InvResult ==
  (pc = "done") => ((res = "ok") <=> hist[best.run].conv >= 0)
=============================================================================
