-------------------------- MODULE Trace_DatasetOps --------------------------
(***************************************************************************)
(* C02 trace validation.  A case is an initial dataset and a program; the  *)
(* harness logs, after every operation, the projection (public accessors)  *)
(* of every dataset the operation returned.  The state of the design model *)
(* (lab, st, depth) is replayed: the logged results must be the projection *)
(* of the documented result of the operation applied to the current        *)
(* abstract dataset st; then st moves to the result the program continues  *)
(* with.  Random choices (shuffle permutation, bootstrap indices) are      *)
(* inferred from the identity tags of the returned records and must be a   *)
(* permutation / existing rows and columns; every other container of the   *)
(* result must then follow the *same* choice.  Whether weights / names are *)
(* carried is taken from the result (statement: "whenever the result       *)
(* carries weights or names"); they can never be invented or misaligned.   *)
(***************************************************************************)
EXTENDS DatasetOps, TraceIO

CONSTANT Devs      \* named deviations (known findings)

VARIABLES c, e

tvars == <<c, e, lab, st, depth, last>>

Case == Rec[c]
In   == Case.inp
Ev   == Case.ev[e]
Prog == In.prog
O    == Prog[depth + 1]                 \* the operation about to be executed
R    == Ev.res

TraceInit ==
  /\ c \in 1..Len(Rec) /\ e = 1
  /\ lab = Rec[c].inp.lab
  /\ st = InitDs(Rec[c].inp.n, Rec[c].inp.f, Rec[c].inp.t, Rec[c].inp.w, Rec[c].inp.names,
                 IF Rec[c].inp.store \in {"view", "views2"} THEN "view" ELSE "owned")
  /\ depth = 0 /\ last = "start"

HasEv(name) == e <= Len(Case.ev) /\ Ev.ev = name

-----------------------------------------------------------------------------
(* comparison of a specified projection with a logged one: the set of differing accessors *)
Fields == {"ty", "ns", "nf", "nt", "rec", "tgt", "w", "fn", "tn", "lc"}
DiffP(P, L) == {fl \in Fields : P[fl] # L[fl]}
\* (operator arguments are evaluated by name: binding through singleton sets evaluates s and its projection once)
Diff(s, L) == UNION {DiffP(P, L) : P \in {Proj(sv, lab) : sv \in {s}}}
Tagged(pre, D) == {pre \o x : x \in D}
PolOf(L) == Pol(L.w # <<>>, L.fn # <<>>, L.tn # <<>>)

\* identity of the rows / columns of a logged result, read from the record tags
RowIds(L) == [p \in 1..Len(L.rec) |-> L.rec[p][1] \div 16]
ColIds(L) == [j \in 1..L.nf |-> L.rec[1][j] % 16]
RowsExist(L) == L.nf > 0 /\ \A p \in 1..Len(L.rec) : \E q \in 1..N(st) : st.rr[q] = L.rec[p][1] \div 16
ColsExist(L) == Len(L.rec) > 0 /\ \A j \in 1..L.nf : \E q \in 1..NF(st) : st.fc[q] = L.rec[1][j] % 16
RowPos(L) == [p \in 1..Len(L.rec) |-> FirstPos(st.rr, RowIds(L)[p])]
ColPos(L) == [j \in 1..L.nf |-> FirstPos(st.fc, ColIds(L)[j])]

Res(why, next) == [why |-> why, next |-> next]
CountIs(k) == IF Len(R) = k THEN {} ELSE {"number-of-results"}
MapName(a) == CASE a = 0 -> "inc" [] a = 1 -> "half" [] OTHER -> "rot"
Min2(a, b) == IF a < b THEN a ELSE b

\* one deterministic single-result operation
One(next) == Res(CountIs(1) \cup (IF Len(R) = 1 THEN Diff(next, R[1]) ELSE {}), next)

\* several results, result i specified by Nx(i); the program continues with the picked one
Many(k, Nx(_)) ==
  Res(CountIs(k) \cup (IF Len(R) = k THEN UNION {Tagged(ToString(i - 1) \o ".", Diff(Nx(i), R[i])) : i \in 1..k} ELSE {}),
      IF Len(R) = k /\ Ev.pick >= 0 THEN Nx(Ev.pick + 1) ELSE st)

\* rows drawn at random: `size` rows, each an existing sample (perm: all of them exactly once)
RandRows(op, size, perm) ==
  Many(IF op = "shuffle" THEN 1 ELSE 2,
       LAMBDA i : IF RowsExist(R[i]) THEN OpRows(op, st, RowPos(R[i]), PolOf(R[i])) ELSE st)
RandRowsWhy(op, size, perm) ==
  UNION {(IF RowsExist(R[i]) THEN {} ELSE {"foreign-row"})
         \cup (IF Len(R[i].rec) = size THEN {} ELSE {"size"})
         \cup (IF perm /\ RowsExist(R[i]) /\ ~SameBag(RowIds(R[i]), st.rr) THEN {"not-a-permutation"} ELSE {}) : i \in 1..Len(R)}

Check ==
  CASE MustRefuse(O.op, st, O.a) -> Res({"must-be-refused"}, st)      \* it returned although no result is admissible
    [] O.op = "chunk" /\ O.a = 0 -> Res(CountIs(0), st)                \* chunks of size 0: refused or no chunk at all
    [] O.op = "view"    -> One(OpView(st, PolOf(R[1])))
    [] O.op = "split"   -> Many(2, LAMBDA i : OpSplit(st, O.a, O.b, i - 1, PolOf(R[i])))
    [] O.op = "shuffle" -> LET r == RandRows("shuffle", N(st), TRUE) IN Res(r.why \cup RandRowsWhy("shuffle", N(st), TRUE), r.next)
    [] O.op = "boots"   -> LET r == RandRows("boots", O.a, FALSE) IN Res(r.why \cup RandRowsWhy("boots", O.a, FALSE), r.next)
    [] O.op = "boot"    ->
         LET ok(i) == RowsExist(R[i]) /\ ColsExist(R[i])
             r == Many(2, LAMBDA i : IF ok(i) THEN OpBoot(st, RowPos(R[i]), ColPos(R[i]), PolOf(R[i])) ELSE st)
         IN Res(r.why \cup RandRowsWhy("boot", O.a, FALSE)
                \cup UNION {(IF ColsExist(R[i]) THEN {} ELSE {"foreign-column"}) \cup (IF R[i].nf = O.b THEN {} ELSE {"width"}) : i \in 1..Len(R)},
                r.next)
    [] O.op = "bootf"   ->
         LET r == Many(2, LAMBDA i : IF ColsExist(R[i]) THEN OpBootF(st, ColPos(R[i]), PolOf(R[i])) ELSE st)
         IN Res(r.why \cup UNION {(IF ColsExist(R[i]) THEN {} ELSE {"foreign-column"}) \cup (IF R[i].nf = O.a THEN {} ELSE {"width"}) : i \in 1..Len(R)},
                r.next)
    [] O.op = "wl"      -> One(OpWithLabels(st, lab, O.ls, PolOf(R[1])))
    [] O.op = "ova"     ->
         LET ls == [i \in 1..Len(R) |-> R[i].label]
             r  == Many(Len(R), LAMBDA i : OpOva(st, R[i].label, PolOf(R[i])))
         IN Res(r.why \cup (IF Rng(ls) = Labels1(st, lab) /\ \A i \in 1..(Len(R) - 1) : ls[i] < ls[i + 1] THEN {} ELSE {"one-view-per-distinct-label"}),
                r.next)
    [] O.op = "chunk"   ->
         LET full == N(st) \div O.a
             r == Many(Len(R), LAMBDA i : OpChunk(st, O.a, i - 1, PolOf(R[i])))
         IN Res(r.why \cup (IF Len(R) \in {full, (N(st) + O.a - 1) \div O.a} THEN {} ELSE {"number-of-chunks"}), r.next)
    [] O.op = "titer"   -> Many(NT(st), LAMBDA i : OpTargetIter(st, i, PolOf(R[i])))
    [] O.op = "fiter"   -> Many(NF(st), LAMBDA i : OpFeatureIter(st, i, PolOf(R[i])))
    [] O.op = "map"     -> One(OpMap(st, MapName(O.a), PolOf(R[1])))
    [] O.op = "toowned" -> One(OpToOwned(st, PolOf(R[1])))
    [] O.op = "single"  -> One(OpSingle(st, PolOf(R[1])))
    [] O.op = "iterp"   ->      \* a = which iterator, b = chunk size, ls = the protocol steps
         Res((IF IterTotOk(st, O.a, O.b, Ev.tot) /\ ProtoOk(IterItems(st, lab, O.a, O.b, Ev.tot), Ev.tot, O.ls, Ev.out, 0)
                THEN {} ELSE {"iterator-protocol"}) \cup CountIs(0), st)
    [] O.op = "siter"   -> Res((IF Ev.pairs = SamplePairs(st, lab) THEN {} ELSE {"pairs"}) \cup CountIs(0), st)

PickOk == Ev.pick = (IF Len(R) = 0 THEN -1 ELSE O.pick % Len(R))
OpEvOk == depth < Len(Prog) /\ Ev.i = depth /\ Ev.op = O.op /\ Applicable(O.op, st.ty, NT(st))

-----------------------------------------------------------------------------
Adv(nst, nlast, nd) == e' = e + 1 /\ st' = nst /\ last' = nlast /\ depth' = nd /\ UNCHANGED <<c, lab>>

TInit ==
  /\ HasEv("init") /\ e = 1
  /\ Diff(st, Ev) = {}
  /\ Adv(st, "init", 0)

TOp ==
  /\ HasEv("op") /\ last \in {"init", "op"}
  /\ OpEvOk /\ PickOk
  /\ \E chk \in {Check} :                                 \* (evaluated once)
       /\ chk.why = {}
       /\ IF O.op \notin {"siter", "iterp"} /\ Ev.pick = -1
            THEN Adv(st, "nores", depth + 1)             \* nothing to continue with: a "stop" event must follow
            ELSE Adv(chk.next, "op", depth + 1)

\* the program ended: every operation was executed
TEnd  == HasEv("end") /\ last \in {"init", "op"} /\ depth = Len(Prog) /\ Adv(st, "done", depth)
\* the harness did not call the operation because the Rust type does not offer it
TNa   == HasEv("na") /\ last \in {"init", "op"} /\ depth < Len(Prog) /\ Ev.i = depth /\ Ev.op = O.op
         /\ ~Applicable(O.op, st.ty, NT(st)) /\ Adv(st, "done", depth)
\* the harness stopped: no result to continue with / bootstrap_features of an empty dataset is not attempted
TStop == /\ HasEv("stop")
         /\ \/ Ev.why = "nores" /\ last = "nores"
            \/ Ev.why = "empty" /\ last \in {"init", "op"} /\ depth < Len(Prog) /\ Ev.i = depth /\ Ev.op = O.op
               /\ O.op = "bootf" /\ N(st) = 0
         /\ Adv(st, "done", depth)
\* documented panic: the owned split_with_ratio requires row-major records (bootstrap_features / bootstrap
\* return column-major records)
TDocPanic ==
  /\ HasEv("panic") /\ last \in {"init", "op"} /\ depth < Len(Prog) /\ Ev.i = depth /\ Ev.op = O.op
  /\ \/ O.op = "split" /\ st.ty.r = "O" /\ ~Ev.std
     \/ MayRefuse(O.op, st, O.a)            \* into_single_target of t # 1 columns (documented), nothing to draw from, size 0
  /\ Adv(st, "done", depth)

Accept ==
  /\ e = Len(Case.ev) + 1 /\ last = "done"
  /\ Ok(Case.id)
  /\ e' = e + 1 /\ UNCHANGED <<c, lab, st, depth, last>>

\* short diagnostics (one line): event number, operation, one false clause, number of false clauses
Brief(ev, op, why) == <<ev, op, IF why = {} THEN "?" ELSE CHOOSE x \in why : TRUE, Cardinality(why)>>
Explain ==
  IF HasEv("op") /\ last \in {"init", "op"} /\ OpEvOk
    THEN UNION {{Brief(e, Ev.op, w)} : w \in {Check.why \cup (IF PickOk THEN {} ELSE {"pick"})}}
  ELSE IF HasEv("init") /\ e = 1 THEN UNION {{Brief(e, "init", w)} : w \in {Diff(st, Ev)}}
  ELSE IF HasEv("panic") THEN {<<e, Ev.op, "panic", 1>>}
  ELSE {<<e, Ev.ev, "unexpected-event", 1>>}

Stuck ==
  /\ e <= Len(Case.ev)
  /\ ~(ENABLED TInit \/ ENABLED TOp \/ ENABLED TEnd \/ ENABLED TNa \/ ENABLED TStop \/ ENABLED TDocPanic)
  /\ Fail(Case.id, Explain)
  /\ e' = Len(Case.ev) + 2 /\ UNCHANGED <<c, lab, st, depth, last>>

TraceNext == TInit \/ TOp \/ TEnd \/ TNa \/ TStop \/ TDocPanic \/ Accept \/ Stuck
=============================================================================
