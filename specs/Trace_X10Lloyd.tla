-------------------------- MODULE Trace_X10Lloyd --------------------------
(***************************************************************************)
(* X10 trace validation, k-means: every step event recorded by the hooks   *)
(* of docs/reports/X10-hook.diff is replayed as an ACTION of X10Lloyd.     *)
(*   kmeans.init    -> StartRun(logged centroids)   (must be lattice       *)
(*                     points the initialiser may produce)                 *)
(*   kmeans.iter    -> Iterate(logged memberships)                         *)
(*   kmeans.run_end -> EndRun(logged memberships)                          *)
(*   kmeans.result  -> Publish                                             *)
(*   fit            -> the public API result equals the published one      *)
(* The abstract state (run, it, exact centroids C, best run, history) is   *)
(* advanced by the model only; every logged field must equal the model's   *)
(* value (integers, decisions) or lie within one unit of its fixed-point   *)
(* image (centroids 2^-16, inertia and squared shift 2^-20).  Comparisons  *)
(* the model leaves open (the interval does not decide them) are bound to  *)
(* the exact order keys of the values the code compared; the key rule is   *)
(* demanded for every decision.                                            *)
(*                                                                         *)
(* inp.hook = 0 (tree without the hooks): there are no step events; for    *)
(* the precomputed initialiser the model runs on its own (silent steps)    *)
(* and the fit event must equal what it publishes; otherwise only the      *)
(* shape of the result is checked (OK tagged "nohook").                    *)
(* A case whose exact centroids leave the 32-bit domain of the model, or   *)
(* whose non-dyadic denominators are too large for the float computation   *)
(* to be trusted to decide like the exact one, is accepted unjudged (OK    *)
(* tagged "unjudged"; counted by props/x10.py).                            *)
(***************************************************************************)
EXTENDS X10Lloyd, TraceIO

CONSTANT Devs

VARIABLES cs, ei,    \* case and event cursor
          bkey,      \* order key of the inertia of the best run so far (<<>>: none)
          tag        \* "" | "nohook" | "unjudged"

tvars == <<lvars, cs, ei, bkey, tag>>

Case == Rec[cs]
In   == Case.inp
Ev   == Case.ev[ei]
NEv  == Len(Case.ev)
FitEv == Case.ev[NEv]
Hooked == In.hook = 1
HasEv(name) == ei <= NEv /\ Ev.ev = name

S16 == 65536
Twos16 == [i \in 1..16 |-> 2]
GMax == 8            \* coordinates are in 0..GMax

KeyLt(a, b) == \/ a[1] < b[1]
               \/ a[1] = b[1] /\ a[2] < b[2]
               \/ a[1] = b[1] /\ a[2] = b[2] /\ a[3] < b[3]

TraceInit ==
  /\ cs \in 1..Len(Rec) /\ ei = 1
  /\ P = [pts |-> Rec[cs].inp.pts, k |-> Rec[cs].inp.k, tn |-> Rec[cs].inp.tn, te |-> Rec[cs].inp.te,
          maxit |-> Rec[cs].inp.maxit, nruns |-> Rec[cs].inp.nruns]
  /\ pc = "start" /\ run = 0 /\ it = 0 /\ C = <<>> /\ prevC = <<>> /\ A = <<>> /\ dec = "none"
  /\ inCur = Iv0 /\ inPrev = Iv0 /\ best = NoBest /\ hist = <<>> /\ pub = <<>>
  /\ bkey = <<>> /\ tag = ""

-----------------------------------------------------------------------------
(* domain of the exact model *)
MaxCoord == GMax
\* one more step from centroids CC with assignment AA stays inside 32 bits, and the float computation
\* decides like the exact one (dyadic: exact; otherwise distinct reduced distances differ by >= 2^-36)
StepOk(CC, AA) ==
  /\ \A j \in 1..Len(CC) :
       /\ CC[j].den * MaxCoord <= 16384
       /\ CC[j].den * (1 + Count(AA, j)) * MaxCoord <= 32768
  /\ Dyadic(CC) \/ \A j \in 1..Len(CC) : CC[j].den <= 512
EvalOk(CC) == /\ \A j \in 1..Len(CC) : CC[j].den * MaxCoord <= 16384
              /\ Dyadic(CC) \/ \A j \in 1..Len(CC) : CC[j].den <= 512

-----------------------------------------------------------------------------
(* logged numbers against the model's *)
CenShape(cen) == Len(cen) = P.k /\ \A j \in 1..P.k : Len(cen[j]) = In.f
CenClose(cen, CC) ==
  /\ CenShape(cen)
  /\ \A j \in 1..P.k : \A d \in 1..In.f :
       LAbs(cen[j][d] - FixQ(CC[j].num[d], CC[j].den, Twos16)[1]) <= 1
IvClose(obs, v) == v.lo - 1 <= obs /\ obs <= v.hi + 1
MemOk(mem) == Len(mem) = N /\ \A i \in 1..N : mem[i] \in 0..(P.k - 1)
AsgOf(mem) == [i \in 1..N |-> mem[i] + 1]

\* the logged initial centroids as lattice points
IsLattice(cen) == CenShape(cen) /\ \A j \in 1..P.k : \A d \in 1..In.f : cen[j][d] % S16 = 0 /\ cen[j][d] >= 0
LatOf(cen) == [j \in 1..P.k |-> [d \in 1..In.f |-> cen[j][d] \div S16]]
\* what the initialisers may produce: the precomputed centroids; k rows of the data at distinct row indices
\* (random); rows of the data (k-means++)
RowCount(s, p) == Cardinality({i \in 1..Len(s) : s[i] = p})
InitOk(c0) ==
  CASE In.init = "pre"    -> c0 = In.c0
    [] In.init = "random" -> \A j \in 1..P.k : RowCount(c0, c0[j]) <= RowCount(X, c0[j])
    [] In.init = "kmpp"   -> \A j \in 1..P.k : RowCount(X, c0[j]) >= 1

-----------------------------------------------------------------------------
(* hooked replay *)
EvInit ==
  /\ Hooked /\ tag = "" /\ HasEv("kmeans.init")
  /\ Ev.num /\ Ev.run = run + 1
  /\ IsLattice(Ev.cen) = TRUE
  /\ InitOk(LatOf(Ev.cen)) = TRUE
  /\ StartRun(LatOf(Ev.cen))
  /\ ei' = ei + 1 /\ UNCHANGED <<cs, bkey, tag>>

IterPre ==
  /\ Hooked /\ tag = "" /\ HasEv("kmeans.iter") /\ pc = "iter"
  /\ Ev.num /\ Ev.run = run /\ Ev.it = it + 1 /\ Ev.n = N /\ Ev.maxit = P.maxit
  /\ MemOk(Ev.mem)

EvIter ==
  /\ IterPre
  /\ StepOk(C, AsgOf(Ev.mem)) = TRUE
  /\ Iterate(AsgOf(Ev.mem))
  /\ Ev.dec = dec'
  /\ CenClose(Ev.cen, C')
  /\ IvClose(Ev.inertia, inCur')
  \* the cost never increases from one iteration to the next
  /\ (IF it = 0 THEN TRUE ELSE inCur'.lo <= inCur.hi) = TRUE
  /\ (IF P.te <= 10 THEN IvClose(Ev.shift2, ShiftIv(X, C, AsgOf(Ev.mem), Scl))
      ELSE (Ev.dec # "converged" \/ Ev.shift2 = 0)) = TRUE
  \* the decision as the code took it: distance < tolerance on the values it compared
  /\ Ev.tkey = FitEv.tolkey
  /\ (Ev.dec = "converged") = KeyLt(Ev.skey, Ev.tkey)
  /\ ei' = ei + 1 /\ UNCHANGED <<cs, bkey, tag>>

EvRunEnd ==
  /\ Hooked /\ tag = "" /\ HasEv("kmeans.run_end") /\ pc = "end"
  /\ Ev.num /\ Ev.run = run /\ Ev.iters = it /\ Ev.n = N
  /\ MemOk(Ev.mem)
  /\ EvalOk(C) = TRUE
  /\ EndRun(AsgOf(Ev.mem))
  /\ CenClose(Ev.cen, C)
  /\ IvClose(Ev.inertia, hist'[run].in)
  /\ hist'[run].in.lo <= inCur.hi        \* ... nor from the last iteration to the inertia of the run
  /\ Ev.kept = hist'[run].kept
  \* strictly smaller than the best so far, on the values the code compared (first-best on ties)
  /\ Ev.kept = (IF bkey = <<>> THEN TRUE ELSE KeyLt(Ev.ikey, bkey))
  /\ bkey' = IF Ev.kept THEN Ev.ikey ELSE bkey
  /\ Ev.bkey = bkey'
  /\ ei' = ei + 1 /\ UNCHANGED <<cs, tag>>

CountsOk(ev, cnts) ==
  /\ Len(ev.counts) = P.k
  /\ \A j \in 1..P.k : ev.counts[j].exact /\ ev.counts[j].i = cnts[j]
\* published inertia = best inertia / n
PubOk(obs, v) == v.lo - N - 1 <= obs * N /\ obs * N <= v.hi + N + 1

EvResult ==
  /\ Hooked /\ tag = "" /\ HasEv("kmeans.result") /\ pc = "publish"
  /\ Publish
  /\ Ev.num /\ Ev.runs = P.nruns
  /\ CenClose(Ev.cen, pub'.C)
  /\ CountsOk(Ev, pub'.counts)
  /\ Ev.bkey = bkey
  /\ PubOk(Ev.pub, pub'.in)
  /\ ei' = ei + 1 /\ UNCHANGED <<cs, bkey, tag>>

FitShape(ev) ==
  /\ ev.ok /\ ev.num /\ ev.nrows = P.k /\ ev.ncols = In.f
  /\ CenShape(ev.cen) /\ Len(ev.counts) = P.k
  /\ \A j \in 1..P.k : ev.counts[j].exact /\ ev.counts[j].i >= 0
  /\ LSum([j \in 1..P.k |-> ev.counts[j].i]) = N
  /\ ev.pub >= 0

\* the public result is the published one (the same floats: equal encodings)
EvFit ==
  /\ Hooked /\ tag = "" /\ HasEv("fit") /\ ei = NEv /\ pc = "done"
  /\ FitShape(Ev)
  /\ Ev.steps = NEv - 1 /\ NEv >= 2
  /\ LET r == Case.ev[NEv - 1] IN
       /\ r.ev = "kmeans.result"
       /\ Ev.cen = r.cen /\ Ev.counts = r.counts /\ Ev.pub = r.pub /\ Ev.pkey = r.pkey
  /\ Ok(Case.id)
  /\ ei' = ei + 1 /\ UNCHANGED <<lvars, cs, bkey, tag>>

\* the next step would leave the domain of the exact model: the case is not judged any further
Unjudged ==
  /\ Hooked /\ tag = ""
  /\ (IF HasEv("kmeans.iter") THEN IterPre /\ ~StepOk(C, AsgOf(Ev.mem))
      ELSE HasEv("kmeans.run_end") /\ pc = "end" /\ ~EvalOk(C)) = TRUE
  /\ OkDev(Case.id, <<"unjudged">>)
  /\ tag' = "unjudged" /\ ei' = NEv + 1 /\ UNCHANGED <<lvars, cs, bkey>>

-----------------------------------------------------------------------------
(* a tree without the hooks *)
Silent ==
  /\ ~Hooked /\ tag = "" /\ In.init = "pre" /\ ei = 1 /\ NEv = 1
  /\ \/ pc = "start" /\ StartRun(In.c0)
     \/ pc = "iter" /\ \E AA \in Asgs(X, C) : StepOk(C, AA) = TRUE /\ Iterate(AA)
     \/ pc = "end" /\ EvalOk(C) = TRUE /\ \E AA \in Asgs(X, C) : EndRun(AA)
     \/ pc = "publish" /\ Publish
  /\ UNCHANGED <<cs, ei, bkey, tag>>
SilentOut ==
  /\ ~Hooked /\ tag = "" /\ In.init = "pre" /\ ei = 1 /\ NEv = 1
  /\ (IF pc = "iter" THEN \A AA \in Asgs(X, C) : ~StepOk(C, AA)
      ELSE pc = "end" /\ ~EvalOk(C)) = TRUE
  /\ OkDev(Case.id, <<"unjudged">>)
  /\ tag' = "unjudged" /\ ei' = NEv + 1 /\ UNCHANGED <<lvars, cs, bkey>>
SilentFit ==
  /\ ~Hooked /\ tag = "" /\ In.init = "pre" /\ ei = 1 /\ NEv = 1 /\ pc = "done" /\ HasEv("fit")
  /\ FitShape(Ev) /\ Ev.steps = 0
  /\ CenClose(Ev.cen, pub.C)
  /\ CountsOk(Ev, pub.counts)
  /\ PubOk(Ev.pub, pub.in)
  /\ OkDev(Case.id, <<"nohook">>)
  /\ tag' = "nohook" /\ ei' = ei + 1 /\ UNCHANGED <<lvars, cs, bkey>>
NoHookShape ==
  /\ ~Hooked /\ tag = "" /\ In.init # "pre" /\ ei = 1 /\ NEv = 1 /\ HasEv("fit")
  /\ FitShape(Ev) /\ Ev.steps = 0
  /\ OkDev(Case.id, <<"nohook">>)
  /\ tag' = "nohook" /\ ei' = ei + 1 /\ UNCHANGED <<lvars, cs, bkey>>

TraceNextFast == EvInit \/ EvIter \/ EvRunEnd \/ EvResult \/ EvFit \/ Unjudged
                 \/ Silent \/ SilentOut \/ SilentFit \/ NoHookShape

\* diagnostics: no action explains the next event
Stuck ==
  /\ tag = "" /\ ei <= NEv
  /\ ~ENABLED TraceNextFast
  /\ Fail(Case.id, <<ei, Ev.ev, pc, run, it>>)
  /\ tag' = "stuck" /\ UNCHANGED <<lvars, cs, ei, bkey>>
TraceNext == TraceNextFast \/ Stuck
=============================================================================
