------------------------- MODULE Trace_DTreeIntro -------------------------
(***************************************************************************)
(* X11 trace validation.  A case = the observations the harness x11 made   *)
(* of one real DecisionTree: fit, tree (nodes through root_node/children   *)
(* with every TreeNode accessor, the sequence of iter_nodes as paths,      *)
(* features(), max_depth(), num_leaves()), imp (mean / relative impurity   *)
(* decrease, feature importance) and tikz (the exported text parsed back   *)
(* into a tree, for the default builder and for the case's variant).       *)
(* The observed tree must first be a tree (C14's WellFormed -- only as a   *)
(* precondition, C14 owns it); then every derived quantity must equal its  *)
(* definition in DTreeIntro evaluated on that tree and on the case's       *)
(* integer class weights.                                                  *)
(* Not decided by the specification: the side of a point lying exactly on  *)
(* a threshold (cv, as in C14), the importances of a tree without split    *)
(* (0/0: all NaN or all zero), the feature names when the dataset has none.*)
(***************************************************************************)
EXTENDS DTreeIntro, TraceIO

CONSTANT Devs      \* named deviations (known findings) -- none needed for X11

VARIABLES c, e
tvars == <<c, e>>

Case == Rec[c]
In   == Case.inp
N    == Len(In.x)
Sc   == In.scale

\* the dataset in the units of DTree: doubled real values, quarter weights
D == [n |-> N, d |-> In.d,
      x2 |-> [i \in 1..N |-> [f \in 1..In.d |-> 2 * (Sc.off + Sc.mul * In.x[i][f])]],
      y |-> In.y,
      w4 |-> IF In.w4 = <<>> THEN [i \in 1..N |-> 4] ELSE In.w4]
H == [crit |-> In.crit, md |-> In.md, mws4 |-> In.mws4, mwl4 |-> In.mwl4, mid6 |-> In.mid6]

EvFit  == Case.ev[1]
EvTree == Case.ev[2]
EvImp  == Case.ev[3]
EvTikz == Case.ev[4]

Raw == EvTree.nodes
NS0 == {[path |-> Raw[q].path, depth |-> Raw[q].depth, leaf |-> Raw[q].leaf, feat |-> Raw[q].feat,
         thr2 |-> Raw[q].thr2.i, pred |-> Raw[q].pred, dec6 |-> Raw[q].dec6] : q \in DOMAIN Raw}

HasNames == In.names # <<>>

-----------------------------------------------------------------------------
Shape == /\ Len(Case.ev) = 4
         /\ EvFit.ev = "fit" /\ EvTree.ev = "tree" /\ EvImp.ev = "imp" /\ EvTikz.ev = "tikz"

\* precondition (C14): children() agrees with is_leaf, numbers usable
RawOk(ns) ==
  /\ Len(Raw) > 0 /\ Cardinality(ns) = Len(Raw)
  /\ \A q \in DOMAIN Raw :
       IF Raw[q].leaf THEN ~Raw[q].hasl /\ ~Raw[q].hasr
       ELSE Raw[q].hasl /\ Raw[q].hasr /\ Raw[q].thr2.exact /\ Raw[q].decok /\ Raw[q].thr2.i >= 0 /\ Raw[q].thr2.i <= 42000000
                                        /\ Raw[q].dec6 >= 0 /\ Raw[q].dec6 <= 4000000

\* TreeNode accessors: children() has two entries (left, right); prediction() is Some exactly on leaves (the value is
\* C14's pred); feature_name() is Some exactly on internal nodes and is the dataset's name of the split feature;
\* root_node() is the node of depth 0
NodeAccessorsOk ==
  /\ EvTree.rootdepth = 0
  /\ \A q \in DOMAIN Raw :
       /\ Raw[q].nch = 2
       /\ Raw[q].predn = ~Raw[q].leaf
       /\ Raw[q].hasname = ~Raw[q].leaf
       /\ (~Raw[q].leaf /\ HasNames) => Raw[q].namec = In.names[Raw[q].feat + 1]

IterSeq == [k \in DOMAIN EvTree.iter |-> EvTree.iter[k].path] \o <<>>
IterKnown == \A k \in DOMAIN EvTree.iter : EvTree.iter[k].known

CountsOk(ns) == EvTree.maxdepth = MaxDepthDef(ns) /\ EvTree.nleaves = NumLeavesDef(ns)

Fl(name) == IF name = "mean" THEN EvImp.mean ELSE IF name = "rel" THEN EvImp.rel ELSE EvImp.imp
AllNan(v) == \A g \in DOMAIN v.nan : v.nan[g]
NoNan(v) == \A g \in DOMAIN v.nan : ~v.nan[g] /\ v.ok[g]
NonNeg(v) == \A g \in DOMAIN v.k : KeyLe(KeyZero, v.k[g])
AllZero(v) == NoNan(v) /\ \A g \in DOMAIN v.k : v.k[g] = KeyZero

\* one value per feature; the mean decrease is a finite non-negative number; feature_importance IS the relative decrease
ImpShapeOk ==
  /\ \A nm \in {"mean", "rel", "imp"} : Len(Fl(nm).v6) = In.d
  /\ NoNan(EvImp.mean) /\ NonNeg(EvImp.mean)
  /\ EvImp.same
\* a tree without split: no feature has a decrease; the relative decrease is 0/0 (nothing promised: NaN or 0 throughout)
ImpRootOnlyOk(ns) ==
  Splits(ns) = {} => (AllZero(EvImp.mean) /\ (AllNan(EvImp.rel) \/ AllZero(EvImp.rel)))
\* a tree with a split: finite, >= 0, sums to one, exactly zero for the features that are not used
ImpNormOk(ns) ==
  Splits(ns) # {} =>
    /\ NoNan(EvImp.rel) /\ NonNeg(EvImp.rel)
    /\ SumsToOne(EvImp.rel.v6)
    /\ \A g \in 1..In.d : FeatNodes(ns, g - 1) = {} => (EvImp.rel.k[g] = KeyZero /\ EvImp.mean.k[g] = KeyZero)

-----------------------------------------------------------------------------
(* export_to_tikz: tk = the parsed text, lg / cp = the options the builder was given *)
TkPaths(tk) == {tk.nodes[k].path : k \in DOMAIN tk.nodes}
TikzFrameOk(tk, cp) ==
  LET one == IF cp THEN 1 ELSE 0 IN
  /\ tk.nbf = 1 /\ tk.nef = 1 /\ tk.order
  /\ tk.doc = one /\ tk.begindoc = one /\ tk.enddoc = one
\* one text node per tree node, nested like the tree (child k of a bracket = children()[k])
TikzShapeOk(tk, ns) ==
  /\ tk.parsed
  /\ Len(tk.nodes) = Cardinality(ns)
  /\ TkPaths(tk) = PathsOf(ns)
TikzLabelsOk(tk, ns) ==
  \A k \in DOMAIN tk.nodes :
    LET t == tk.nodes[k]
        nd == Node(ns, t.path) IN
    /\ t.labelok /\ t.leaf = nd.leaf
    /\ IF nd.leaf THEN t.nch = 0 /\ t.lab = nd.pred
       ELSE /\ t.nch = 2 /\ t.feat = nd.feat
            /\ t.throk /\ t.thr100 = 50 * nd.thr2                      \* threshold with two decimals (exact on the lattice)
            /\ t.impok /\ Abs(t.imp100 * 10000 - nd.dec6) <= 5001       \* decrease rounded to two decimals
TikzLegendOk(tk, ns, lg) ==
  /\ tk.haslegend = lg /\ tk.restclean
  /\ lg =>
       LET fs == [k \in DOMAIN tk.legend |-> tk.legend[k].feat] IN
       /\ Range(fs) = {nd.feat : nd \in Splits(ns)}
       /\ Len(fs) = Cardinality(Range(fs))
       /\ HasNames => \A k \in DOMAIN tk.legend : tk.legend[k].namec = In.names[tk.legend[k].feat + 1]
TikzVerdict(tk, ns, lg, cp, tag) ==
  IF ~TikzFrameOk(tk, cp) THEN tag \o ".frame"
  ELSE IF ~TikzShapeOk(tk, ns) THEN tag \o ".shape"
  ELSE IF ~TikzLabelsOk(tk, ns) THEN tag \o ".labels"
  ELSE IF ~TikzLegendOk(tk, ns, lg) THEN tag \o ".legend"
  ELSE ""

-----------------------------------------------------------------------------
\* name of the first false clause ("" if all hold); later clauses rely on the earlier ones
Common(ns, dd, hh) ==
  IF ~Shape THEN (IF Len(Case.ev) > 0 /\ Case.ev[Len(Case.ev)].ev = "panic"
                    THEN "panic@" \o Case.ev[Len(Case.ev)].at ELSE "shape")
  ELSE IF ~EvFit.ok THEN "fit.ok"
  ELSE IF ~RawOk(ns) THEN "c14:children"
  ELSE IF ~WellFormed(ns, In.d) THEN "c14:wellformed"
  ELSE IF ~NodeAccessorsOk THEN "node.accessors"
  ELSE IF ~(IterKnown /\ OnceEach(IterSeq, ns) /\ EvTree.iter2len = Len(IterSeq)) THEN "iter.once"
  ELSE IF ~ParentsFirst(IterSeq) THEN "iter.parents"
  ELSE IF ~DepthMonotone(IterSeq) THEN "iter.level"
  ELSE IF IterSeq # LevelOrder(ns) THEN "iter.order"
  ELSE IF EvTree.features # FeaturesDef(ns) THEN "features"
  ELSE IF ~CountsOk(ns) THEN "counts"
  ELSE IF ~ImpShapeOk THEN "imp.shape"
  ELSE IF ~ImpRootOnlyOk(ns) THEN "imp.rootonly"
  ELSE IF ~ImpNormOk(ns) THEN "imp.norm"
  ELSE LET t1 == TikzVerdict(EvTikz.dflt, ns, FALSE, TRUE, "tikz.default") IN
       IF t1 # "" THEN t1
       ELSE TikzVerdict(EvTikz.var, ns, In.lg, In.cp, "tikz.variant")

Routed(ns, dd, hh, cv) ==
  LET lf == LeafOf(ns, cv, dd)
      st == FeatStats(ns, dd, hh, lf)
      sl == DecSlack(hh.crit) IN
  IF ~MeanRel(EvImp.mean.v6, st, sl) THEN "imp.mean"
  ELSE IF Splits(ns) # {} /\ ~RelRel(EvImp.rel.v6, st, sl) THEN "imp.relative"
  ELSE ""

Verdict ==
  LET ns == IF Shape THEN NS0 ELSE {}
      dd == D
      hh == H
      cm == Common(ns, dd, hh) IN
  IF cm # "" THEN cm
  ELSE LET lt == Routed(ns, dd, hh, "lt") IN
       IF lt = "" THEN ""
       ELSE LET le == Routed(ns, dd, hh, "le") IN
            IF le = "" THEN "" ELSE IF lt = le THEN lt ELSE "lt:" \o lt \o " le:" \o le

-----------------------------------------------------------------------------
TraceInit ==
  /\ c \in 1..Len(Rec) /\ e = 1
  \* the design-model variables are not used during trace validation
  /\ ds = <<>> /\ hp = <<>> /\ nodes = {} /\ fm = <<>> /\ todo = {} /\ pc = "trace" /\ it = <<>>

Check ==
  /\ e = 1
  /\ LET v == Verdict IN IF v = "" THEN Ok(Case.id) ELSE Fail(Case.id, v)
  /\ e' = 2 /\ UNCHANGED <<c, xvars>>

TraceNext == Check
=============================================================================
