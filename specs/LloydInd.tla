------------------------------ MODULE LloydInd ------------------------------
(***************************************************************************)
(* X08 (3b) -- Apalache-typed restatement of the restart bookkeeping of    *)
(* specs/X10Lloyd.tla (X10; KMeansValidParams::fit: run counter, iteration *)
(* budget, stop decision, first-best run by inertia, publication) with an  *)
(* inductive invariant.  The numerical part (assignments, exact rational   *)
(* centroids, interval sums) is abstracted away:                           *)
(*  - whether an iteration's move is below the tolerance is ANY boolean    *)
(*    (X10Lloyd.Converges), the inertia of a finished run is ANY integer   *)
(*    (X10Lloyd.InertiaIv in units of the exact scale; in the design model *)
(*    every interval is exact, X10Lloyd.InvExact, so an inertia IS one     *)
(*    integer and every comparison is decided);                            *)
(*  - records and the history sequence are flattened: best = (brun, bin),  *)
(*    hist = the arrays hin, hiters, hkept over 1..R with hlen entries in  *)
(*    use, pub = (pubrun, pubin) (0 before publication);                   *)
(*  - maxit <= I and nruns <= R are RIGID variables.                       *)
(* Checked by TLC (XC_LloydRef.tla): every behaviour of X10Lloyd's bounded *)
(* design model is a behaviour of this module under that mapping, and the  *)
(* invariants below have the truth values of X10Lloyd's InvBudget /        *)
(* InvBest / InvPublish (bookkeeping parts).  The converse inclusion is    *)
(* not checked (this module allows inertia sequences no data set yields).  *)
(*                                                                         *)
(* Variant # "ok" seeds design bugs the invariants must reject:            *)
(*   "lloyd_last_best"      a run replaces the best when its inertia is <= *)
(*   "lloyd_publish_last"   the LAST run is published instead of the best  *)
(*   "lloyd_budget_off_by_one"  the budget test is iters = maxit + 1       *)
(***************************************************************************)
EXTENDS Integers

CONSTANTS
  \* @type: Int;
  R,
  \* @type: Int;
  I,
  \* @type: Str;
  Variant

VARIABLES
  \* @type: Int;
  maxit,
  \* @type: Int;
  nruns,
  \* "start" | "iter" | "end" | "publish" | "done"
  \* @type: Str;
  pc,
  \* @type: Int;
  run,
  \* @type: Int;
  it,
  \* "none" | "converged" | "budget" | "continue"
  \* @type: Str;
  dec,
  \* @type: Int;
  brun,
  \* @type: Int;
  bin,
  \* @type: Int;
  hlen,
  \* @type: Int -> Int;
  hin,
  \* @type: Int -> Int;
  hiters,
  \* @type: Int -> Bool;
  hkept,
  \* @type: Int;
  pubrun,
  \* @type: Int;
  pubin

vars == <<maxit, nruns, pc, run, it, dec, brun, bin, hlen, hin, hiters, hkept, pubrun, pubin>>

Runs == 1..R

Init ==
  /\ maxit \in 1..I /\ nruns \in 1..R
  /\ pc = "start" /\ run = 0 /\ it = 0 /\ dec = "none"
  /\ brun = 0 /\ bin = 0
  /\ hlen = 0 /\ hin = [r \in Runs |-> 0] /\ hiters = [r \in Runs |-> 0] /\ hkept = [r \in Runs |-> FALSE]
  /\ pubrun = 0 /\ pubin = 0

StartRun ==
  /\ pc = "start" /\ run < nruns
  /\ run' = run + 1 /\ it' = 0 /\ dec' = "none" /\ pc' = "iter"
  /\ UNCHANGED <<maxit, nruns, brun, bin, hlen, hin, hiters, hkept, pubrun, pubin>>

Budget == IF Variant = "lloyd_budget_off_by_one" THEN maxit + 1 ELSE maxit
\* @type: (Bool, Int) => Str;
Decision(conv, iters) == IF conv THEN "converged" ELSE IF iters = Budget THEN "budget" ELSE "continue"

\* one E-step / M-step; conv = "the centroids moved by less than the tolerance"
\* @type: (Bool) => Bool;
IterateC(conv) ==
  /\ pc = "iter"
  /\ it' = it + 1
  /\ dec' = Decision(conv, it + 1)
  /\ pc' = (IF Decision(conv, it + 1) = "continue" THEN "iter" ELSE "end")
  /\ UNCHANGED <<maxit, nruns, run, brun, bin, hlen, hin, hiters, hkept, pubrun, pubin>>
Iterate == \E conv \in BOOLEAN : IterateC(conv)

\* the run's inertia v replaces the best run iff it is strictly smaller (first-best)
\* @type: (Int) => Bool;
Keeps(v) == brun = 0 \/ (IF Variant = "lloyd_last_best" THEN v <= bin ELSE v < bin)

\* @type: (Int) => Bool;
EndRunV(v) ==
  /\ pc = "end"
  /\ hlen' = hlen + 1
  /\ hin' = [hin EXCEPT ![hlen + 1] = v]
  /\ hiters' = [hiters EXCEPT ![hlen + 1] = it]
  /\ hkept' = [hkept EXCEPT ![hlen + 1] = Keeps(v)]
  /\ brun' = (IF Keeps(v) THEN run ELSE brun)
  /\ bin' = (IF Keeps(v) THEN v ELSE bin)
  /\ pc' = (IF run = nruns THEN "publish" ELSE "start")
  /\ UNCHANGED <<maxit, nruns, run, it, dec, pubrun, pubin>>
\* = \E v \in Int : EndRunV(v), written so that TLC can evaluate it as a predicate on a pair of states
EndRun == hin' \in [Runs -> Int] /\ EndRunV(hin'[hlen + 1])

Publish ==
  /\ pc = "publish" /\ brun > 0
  /\ pubrun' = (IF Variant = "lloyd_publish_last" THEN run ELSE brun)
  /\ pubin' = (IF Variant = "lloyd_publish_last" THEN hin[run] ELSE bin)
  /\ pc' = "done"
  /\ UNCHANGED <<maxit, nruns, run, it, dec, brun, bin, hlen, hin, hiters, hkept>>

Next == StartRun \/ Iterate \/ EndRun \/ Publish

Spec == Init /\ [][Next]_vars

-----------------------------------------------------------------------------
(* The statements to be proved (X10Lloyd: InvBudget, InvBest, InvPublish -- bookkeeping parts) *)

InvBudget ==
  /\ it <= maxit /\ run <= nruns /\ hlen <= run
  /\ dec = "continue" => it < maxit
  /\ dec = "budget" => it = maxit
  /\ pc = "end" => dec \in {"converged", "budget"}
  /\ pc \in {"publish", "done"} => (run = nruns /\ hlen = nruns)
  /\ \A r \in Runs : r <= hlen => (hiters[r] >= 1 /\ hiters[r] <= maxit)
\* @type: (Int) => Bool;
IsFirstMin(b) ==
  /\ \A s \in Runs : s <= hlen => hin[b] <= hin[s]
  /\ \A s \in Runs : s < b => hin[b] < hin[s]
InvBest ==
  /\ hlen > 0 => (brun >= 1 /\ brun <= hlen /\ IsFirstMin(brun) /\ bin = hin[brun])
  /\ \A r \in Runs : r <= hlen => (hkept[r] <=> \A s \in Runs : s < r => hin[r] < hin[s])
InvPublish == pc = "done" => (pubrun = brun /\ pubin = bin /\ IsFirstMin(pubrun))

Safety == InvBudget /\ InvBest /\ InvPublish

-----------------------------------------------------------------------------
(* The inductive invariant *)

TypeOk ==
  /\ maxit \in 1..I /\ nruns \in 1..R
  /\ pc \in {"start", "iter", "end", "publish", "done"}
  /\ run \in 0..R /\ it \in 0..I
  /\ dec \in {"none", "converged", "budget", "continue"}
  /\ brun \in 0..R /\ bin \in Int
  /\ hlen \in 0..R
  /\ hin \in [Runs -> Int] /\ hiters \in [Runs -> 0..I] /\ hkept \in [Runs -> BOOLEAN]
  /\ pubrun \in 0..R /\ pubin \in Int

IndInv ==
  /\ TypeOk
  /\ InvBudget /\ InvBest /\ InvPublish
  /\ pc = "start" => hlen = run
  /\ pc \in {"iter", "end"} => (run >= 1 /\ hlen = run - 1)
  /\ pc = "iter" => (it < maxit /\ dec \in {"none", "continue"} /\ (dec = "none" <=> it = 0))
  /\ pc = "end" => it >= 1
  /\ hlen = 0 => (brun = 0 /\ bin = 0)
  /\ pc # "done" => (pubrun = 0 /\ pubin = 0)
  /\ \A r \in Runs : r > hlen => (hin[r] = 0 /\ hiters[r] = 0 /\ ~hkept[r])
=============================================================================
