--------------------------- MODULE Trace_LinReg ---------------------------
(***************************************************************************)
(* C11 trace validation.  A case is one regression problem (integer X, Y,  *)
(* rational penalty / l1 ratio, intercept flag, float type, calling form)  *)
(* and the events recorded from the real linfa API:                        *)
(*   "fit"   -- the estimator fitted with a tight tolerance: W, B, the     *)
(*              duality gap, the number of sweeps, "is exactly 0.0" flags  *)
(*              and the model's predictions on the training records        *)
(*   "loose" -- (elastic net) the same problem fitted with a loose         *)
(*              tolerance, i.e. stopped early by its own stopping rule     *)
(* The relation operators are those of LinReg (part 1).  The first false   *)
(* clause is named in the FAIL diagnostic.                                 *)
(*                                                                         *)
(* Clauses for "fit":  res, shape, range (all logged numbers inside the    *)
(* bounds for which the integer arithmetic below cannot overflow; correct  *)
(* results of the generated domain are far inside), predict (Yh = XW+B),   *)
(* b0 (no intercept => B is 0), kkt (stationarity in every coefficient /   *)
(* row; OLS: orthogonality = kkt with penalty 0), zero (coefficients       *)
(* strictly under the l1 threshold are exactly 0.0), icpt (stationarity in *)
(* the intercept: residuals sum to 0), gap (>= 0), stop (stopped before    *)
(* the budget => gap below tolerance * ||y||^2), perturb (no step of       *)
(* +-1, +-0.1, +-0.01 in any coefficient or the intercept lowers the       *)
(* objective by more than the reported gap; multi-task: every entry of W   *)
(* and every intercept).                                                   *)
(* Clauses for "loose": res..b0, gap, stop, ub (the reported gap bounds    *)
(* the suboptimality Obj(loose) - Obj(fit), Obj(fit) being certified       *)
(* optimal by the kkt clauses), nb (the loose point is not better than     *)
(* the certified optimum).                                                 *)
(* Elastic net without an l1 part (ridge(), l1_ratio 0, penalty 0): clause *)
(* ridge -- the coefficients equal the closed-form solution of the ridge   *)
(* normal equations (exact rationals) -- and a loose fit like the others   *)
(* (gap >= 0, stop, ub, nb), on the collinear-but-regularised designs too. *)
(* OLS with intercept: clause coef (the slopes equal the exact rational     *)
(* least-squares slopes of the integer problem within the accuracy of a    *)
(* backward-stable solver); cases may carry per-column offsets "off" (the  *)
(* estimator sees x + off): then predict/perturb are replaced by the       *)
(* shift-invariant clauses kkt (x_j'r), icpt (sum r) and coef, all on the  *)
(* un-shifted integers with residuals from the logged predictions.         *)
(* Units: a case may carry a unit exponent ue; the estimator then sees the *)
(* targets y * 2^ue (and the l1 weight * 2^ue: the same problem in another *)
(* unit).  The harness logs in the unit of the case, so every clause is    *)
(* the same integer relation for every unit (KKT residuals scale with the  *)
(* unit, gap and objective with its square).  "loose0" repeats the loose   *)
(* fit in unit 1: clauses res..stop and equiv (same fit up to the unit).   *)
(*                                                                         *)
(* Named deviation "enet_intercept_ymean": the unrepaired elastic net      *)
(* sets B = mean(y) and optimises W for that B only (X is not centred).    *)
(* With the deviation enabled the icpt clause is replaced by exactly that: *)
(* n*B = sum(y), and the intercept perturbations are not examined; every   *)
(* other clause is unchanged, so any other wrong output is still rejected. *)
(***************************************************************************)
EXTENDS LinReg, TraceIO

CONSTANT Devs

VARIABLES c, e
tvars == <<c, e>>

S == 100000
WMAX == 5000000        \* |coefficient| <= 50
BMAX == 50000000       \* |intercept|, |prediction| <= 500
RMAX == 5000000        \* |residual| <= 50
CMAX == 80000000       \* |x_j ' r| <= 800
GCAP == 10000000       \* gaps above 100 are not multiplied by n
A64  == 100            \* numerical allowance on x_j ' r : 10^-3 (f64 runs converge to ~10^-9)

Case == Rec[c]
In   == Case.inp
X == In.x
Y == In.y
N == Len(X)
P == In.p
T == In.t
Kind == Case.kind
Pen == IF Kind = "ols" THEN [ln |-> 0, ld |-> 1, rn |-> 0, rd |-> 1]
       ELSE [ln |-> In.ln, ld |-> In.ld, rn |-> In.rn, rd |-> In.rd]
F32 == In.ft = "f32"

TraceInit ==
  /\ c \in 1..Len(Rec) /\ e = 1
  \* the design-model variables are not used during trace validation
  /\ dsn = 0 /\ mode = "trace" /\ w = <<>> /\ b = 0 /\ r = <<>> /\ sweep = 0 /\ j = 0 /\ pc = "trace"
  /\ obj0 = 0 /\ changed = FALSE

HasEv(name) == e <= Len(Case.ev) /\ Case.ev[e].ev = name
Adv == e' = e + 1 /\ UNCHANGED <<c, vars>>

-----------------------------------------------------------------------------
ShapeOk(ev) ==
  /\ Len(ev.w) = P /\ \A jj \in 1..P : Len(ev.w[jj]) = T /\ Len(ev.zero[jj]) = T
  /\ Len(ev.zero) = P
  /\ Len(ev.b) = T
  /\ Len(ev.yhat) = N /\ \A i \in 1..N : Len(ev.yhat[i]) = T

\* residuals R = Y*S - Yh and the products x_j ' r are computed once per event (rm, cm) and handed to the clauses
R(ev)      == ResM(Y, ev.yhat, S)
CMof(rm)   == [jj \in 1..P |-> [tt \in 1..T |-> ColDot(X, rm, jj, tt)]]
CM(ev)     == CMof(R(ev))

RangeOkA(ev) ==
  /\ \A jj \in 1..P : \A tt \in 1..T : Abs(ev.w[jj][tt]) <= (IF Kind = "ols" THEN 4 * WMAX ELSE WMAX)
  /\ \A tt \in 1..T : Abs(ev.b[tt]) <= BMAX
  /\ \A i \in 1..N : \A tt \in 1..T : Abs(ev.yhat[i][tt]) <= BMAX /\ Abs(Y[i][tt] * S - ev.yhat[i][tt]) <= RMAX
  /\ ev.gap >= -GCAP
RangeOkB(cm) == \A jj \in 1..P : \A tt \in 1..T : Abs(cm[jj][tt]) <= CMAX
RangeOk(ev) == RangeOkA(ev) /\ RangeOkB(CM(ev))

\* numerical allowance on x_j ' r: absolute for f64; f32 runs additionally get 5*10^-5 of the magnitude
\* of the terms of that sum (about 800 * f32 epsilon)
AlK(ev, jj) ==
  A64 + (IF F32 THEN MaxSeq([tt \in 1..T |-> TermMag(X, Y, ev.w, ev.b, jj, tt, S)]) \div 20 ELSE 0)
Al0(ev) ==
  A64 + (IF F32 THEN MaxSeq([tt \in 1..T |->
            SumSeq([i \in 1..N |-> (Abs(Y[i][tt]) * S + LinMag(X, ev.w, ev.b, i, tt)) \div 1000])]) \div 20 ELSE 0)
AlP(ev) ==
  IF F32 THEN MaxSeq([i \in 1..N |-> MaxSeq([tt \in 1..T |-> LinMag(X, ev.w, ev.b, i, tt)])]) \div 50000 + 1 ELSE 1
GapSl == IF F32 THEN 200 ELSE 2

B0Ok(ev) == In.icpt \/ \A tt \in 1..T : ev.b[tt] = 0

KktOk(ev, cm) ==
  \A jj \in 1..P :
    IF Kind = "mtl" THEN KktRowOk(Pen, N, X, cm, ev.w, jj, S, AlK(ev, jj))
    ELSE KktCoordOk(Pen, N, X, cm, ev.w, jj, S, AlK(ev, jj))

ZeroOk(ev, cm) ==
  (Kind /= "ols" /\ PTh(Pen, N) > 0) =>
     \A jj \in 1..P : ZeroCoordOk(Pen, N, X, cm, ev.w, ev.zero, jj, S, AlK(ev, jj))

IcptStrictR(ev, rm) == In.icpt => \A tt \in 1..T : IcptJointOk(N, rm, tt, Al0(ev))
IcptStrict(ev) == IcptStrictR(ev, R(ev))
IcptYMean(ev)  == In.icpt => \A tt \in 1..T : IcptYMeanOk(N, Y, ev.b, tt, S)
DevYMean       == "enet_intercept_ymean" \in Devs /\ Kind \in {"enet", "mtl"}
IcptOk(ev, rm) == IcptStrictR(ev, rm) \/ (DevYMean /\ IcptYMean(ev))

GapOk(ev) == Kind = "ols" \/ ev.gap >= -GapSl

\* the documented stopping rule: leaving the loop before the budget means gap < tolerance * ||y_centred||^2
\* (targets centred when an intercept is fitted).  All logged numbers are in the unit of the case (the harness logs
\* at scale S * 2^-ue, the gap at S * 2^-2ue), so the bound is the same integer expression for every unit.
StopOk(ev, te) ==
  Kind = "ols" \/
    /\ ev.steps >= 1 /\ ev.steps <= In.maxit
    /\ ev.steps < In.maxit => ev.gap <= TolGap(Y, In.icpt, te, S) + GapSl

PSlack(ev, jj) == (ColAbs(X, jj) + 1) \div 2 + AlK(ev, jj) + (PTh(Pen, N) + PL2(Pen, N)) \div PD(Pen) + 8
GapN(ev) == IF Kind = "ols" THEN 0 ELSE N * Max2(ev.gap, 0)
PerturbOk(ev, rm, cm) ==
  /\ (T = 1 /\ Kind /= "mtl") =>
        \A jj \in 1..P : LET sl == PSlack(ev, jj) IN \A dn \in {-1, 1} : \A dd \in {1, 10, 100} :
           ev.gap > GCAP \/ PerturbCoord(Pen, N, X, cm, ev.w, jj, dn, dd, S) >= -GapN(ev) - sl
  /\ Kind = "mtl" =>
        \A jj \in 1..P : LET sl == PSlack(ev, jj) + (T * PTh(Pen, N)) \div PD(Pen) IN
        \A tt \in 1..T : \A dn \in {-1, 1} : \A dd \in {1, 10, 100} :
           ev.gap > GCAP \/ PerturbEntryLo(Pen, N, X, cm, ev.w, jj, tt, dn, dd, S)
                               >= -GapN(ev) - sl - PerturbEntrySlack(Pen, N, ev.w, jj, tt, dn, dd, S)
  /\ (In.icpt /\ IcptStrictR(ev, rm)) =>
        LET sl == (N + 1) \div 2 + Al0(ev) + 4 IN
        \A tt \in 1..T : \A dn \in {-1, 1} : \A dd \in {1, 10, 100} :
           ev.gap > GCAP \/ PerturbIcpt(N, rm, tt, dn, dd, S) >= -GapN(ev) - sl

Premise == Kind /= "ols" \/ FullRank(X, In.icpt)

\* OLS with an intercept: per-column offsets of the records (the estimator sees x + off, the specification the
\* un-shifted integers; see LinRegRel) and comparison with the exact least-squares slopes
Off     == In.off
OffCase == \E k \in 1..P : Off[k] /= 0
OlsIcpt == Kind = "ols" /\ In.icpt
OffOrthOk(ev, rm, cm) ==
  \A jj \in 1..P :
     Abs(cm[jj][1]) <= (ColAbs(X, jj) + 1) \div 2 + 1 + A64 + OffAlK(X, Y, Off, ev.w, ev.yhat, rm, jj, 1, F32)
OffIcptOk(ev, rm) ==
  Abs(ResSum(rm, 1)) <= (N + 1) \div 2 + 1 + A64 + OffAl0(X, Off, ev.w, 1, F32)

FitFirstFalse(ev) ==
  IF ~Premise THEN "none"                 \* rank-deficient OLS: outside the quantifier, nothing is demanded
  ELSE IF ~(ev.res = "ok" /\ ev.sane) THEN "res"
  ELSE IF ~ShapeOk(ev) THEN "shape"
  ELSE IF ~RangeOkA(ev) THEN "range"
  ELSE LET rm == R(ev)
           cm == CMof(rm)
       IN
       IF ~RangeOkB(cm) THEN "range"
       ELSE IF OlsIcpt /\ OffCase /\ ~SolveInRange(X, Y, Off, ev.w, ev.yhat, rm, 1, F32) THEN "offrange"
       ELSE IF OlsIcpt /\ OffCase /\ ~Resolvable(X, Y, Off, ev.w, ev.yhat, rm, 1, F32) THEN "none"
       ELSE IF OffCase THEN       \* shifted records (OLS with intercept only): shift-invariant clauses
            (IF ~OlsIcpt THEN "offkind"
             ELSE IF ~OffOrthOk(ev, rm, cm) THEN "kkt"
             ELSE IF ~OffIcptOk(ev, rm) THEN "icpt"
             ELSE IF ~CoefOk(X, Y, Off, ev.w, ev.yhat, rm, 1, F32) THEN "coef"
             ELSE "none")
       ELSE IF ~PredictOk(X, ev.w, ev.b, ev.yhat, AlP(ev)) THEN "predict"
       ELSE IF ~B0Ok(ev) THEN "b0"
       ELSE IF ~KktOk(ev, cm) THEN "kkt"
       ELSE IF ~ZeroOk(ev, cm) THEN "zero"
       ELSE IF ~IcptOk(ev, rm) THEN "icpt"
       ELSE IF ~GapOk(ev) THEN "gap"
       ELSE IF ~StopOk(ev, In.te) THEN "stop"
       ELSE IF ~PerturbOk(ev, rm, cm) THEN "perturb"
       \* no l1 part (pure ridge / penalty 0), single task: the coefficients are the closed-form ridge solution
       ELSE IF Kind = "enet" /\ PTh(Pen, N) = 0 /\ (Pen.ln > 0 \/ FullRank(X, In.icpt))
               /\ RidgeInRange(Pen, X, Y, 1, In.icpt) /\ ~RidgeOk(Pen, X, Y, ev.w, 1, In.icpt) THEN "ridge"
       \* un-shifted OLS: the exact slopes are compared where the integer arithmetic of the exact solution fits 31 bits
       ELSE IF OlsIcpt /\ SolveInRange(X, Y, Off, ev.w, ev.yhat, rm, 1, F32) /\ Resolvable(X, Y, Off, ev.w, ev.yhat, rm, 1, F32)
                    /\ ~CoefOk(X, Y, Off, ev.w, ev.yhat, rm, 1, F32) THEN "coef"
       ELSE "none"

-----------------------------------------------------------------------------
(* loose fit: n * (Obj(loose) - Obj(fit)) at scale S, expanded around the certified optimum *)
Fit1 == Case.ev[1]
DW(ev) == [jj \in 1..P |-> [tt \in 1..T |-> ev.w[jj][tt] - Fit1.w[jj][tt]]]
DObj(ev, R1, C1) ==
  LET d    == DW(ev)
      lin  == - SumSeq([jj \in 1..P |-> SumSeq([tt \in 1..T |-> MulS5(d[jj][tt], C1[jj][tt])])])
              - SumSeq([tt \in 1..T |-> MulS5(ev.b[tt] - Fit1.b[tt], ResSum(R1, tt))])
      quad == SumSeq([i \in 1..N |-> SumSeq([tt \in 1..T |->
                 MulS5(ev.yhat[i][tt] - Fit1.yhat[i][tt], ev.yhat[i][tt] - Fit1.yhat[i][tt])])]) \div 2
      nrm  == SumSeq([jj \in 1..P |-> NormLo(ev.w[jj]) - NormLo(Fit1.w[jj])])
      pen1 == MulDiv(nrm, PTh(Pen, N), PD(Pen))
      sq   == SumSeq([jj \in 1..P |-> SumSeq([tt \in 1..T |->
                 MulS5(d[jj][tt], ev.w[jj][tt] + Fit1.w[jj][tt])])])
      pen2 == MulDiv(sq, PL2(Pen, N), 2 * PD(Pen))
  IN lin + quad + pen1 + pen2
DObjSlack(ev, R1, C1) ==
  LET d  == DW(ev)
  IN  SumSeq([jj \in 1..P |-> SumSeq([tt \in 1..T |->
          Abs(C1[jj][tt]) \div S + (Abs(d[jj][tt]) * (ColAbs(X, jj) + 2 * AlK(Fit1, jj))) \div (2 * S) + 4])])
    + SumSeq([tt \in 1..T |-> Abs(ResSum(R1, tt)) \div S + (Abs(ev.b[tt] - Fit1.b[tt]) * (N + 2 * Al0(Fit1))) \div (2 * S) + 4])
    + SumSeq([i \in 1..N |-> SumSeq([tt \in 1..T |-> (2 * Abs(ev.yhat[i][tt] - Fit1.yhat[i][tt])) \div S + 4])])
    + ((SumSeq([jj \in 1..P |-> NormErr(ev.w[jj]) + NormErr(Fit1.w[jj]) + T + 1]) * PTh(Pen, N)) \div PD(Pen)) + 2
    + ((SumSeq([jj \in 1..P |-> SumSeq([tt \in 1..T |-> (Abs(d[jj][tt]) + Abs(ev.w[jj][tt] + Fit1.w[jj][tt])) \div S + 4])])
          * PL2(Pen, N)) \div (2 * PD(Pen))) + 2
    + 20

LooseRangeOk(ev, C1) ==
  /\ RangeOk(ev)
  /\ \A i \in 1..N : \A tt \in 1..T : Abs(ev.yhat[i][tt] - Fit1.yhat[i][tt]) <= RMAX
  \* operands of MulS5: the product must stay below 2^31 * 10^5
  /\ \A jj \in 1..P : \A tt \in 1..T :
        (Abs(ev.w[jj][tt] - Fit1.w[jj][tt]) \div 1000 + 1) * (Abs(C1[jj][tt]) \div 1000 + 1) <= 100000000

UbOk(ev, dobj, dsl) == ev.gap > GCAP \/ N * Max2(ev.gap, 0) + dsl + (IF F32 THEN 200 ELSE 0) >= dobj
NbOk(ev, dobj, dsl) == dobj >= -dsl - (IF F32 THEN 200 ELSE 0)
\* the loose point is compared with the joint optimum only when the fit event is one (strict icpt clause);
\* with the deviation both runs share B = mean(y) and the comparison is about W alone
LooseIcptOk(ev) == IcptStrict(Fit1) \/ (DevYMean /\ IcptYMean(ev))

LooseFirstFalse(ev) ==
  IF ~(e = 2 /\ Fit1.ev = "fit" /\ Kind /= "ols") THEN "order"
  ELSE IF ~(ev.res = "ok" /\ ev.sane) THEN "res"
  ELSE IF ~ShapeOk(ev) THEN "shape"
  ELSE LET R1 == R(Fit1)
           C1 == CMof(R1)
       IN
       IF ~LooseRangeOk(ev, C1) THEN "range"
       ELSE IF ~PredictOk(X, ev.w, ev.b, ev.yhat, AlP(ev)) THEN "predict"
       ELSE IF ~B0Ok(ev) THEN "b0"
       ELSE IF ~GapOk(ev) THEN "gap"
       ELSE IF ~StopOk(ev, In.lte) THEN "stop"
       ELSE IF ~LooseIcptOk(ev) THEN "icpt"
       ELSE LET dobj == DObj(ev, R1, C1)
                dsl  == DObjSlack(ev, R1, C1)
            IN IF ~UbOk(ev, dobj, dsl) THEN "ub"
               ELSE IF ~NbOk(ev, dobj, dsl) THEN "nb"
               ELSE "none"

-----------------------------------------------------------------------------
(* unit equivariance: the loose fit repeated with the targets expressed in unit 1 instead of 2^ue (same problem, l1  *)
(* weight rescaled) must be the same fit up to the unit -- both are logged in their own unit, hence equal numbers.  *)
EqSl == 2
EquivOk(ev, ev0) ==
  /\ \A jj \in 1..P : \A tt \in 1..T : Abs(ev.w[jj][tt] - ev0.w[jj][tt]) <= EqSl
  /\ \A tt \in 1..T : Abs(ev.b[tt] - ev0.b[tt]) <= EqSl
  /\ \A i \in 1..N : \A tt \in 1..T : Abs(ev.yhat[i][tt] - ev0.yhat[i][tt]) <= EqSl
  \* the reported gap is not compared: without an l1 part it is either the objective or 0 depending on whether x'r is
  \* exactly 0.0 or 1e-17 (the solver's absolute epsilons are not unit-free); both are valid upper bounds

Loose0FirstFalse(ev) ==
  IF ~(e = 3 /\ Case.ev[2].ev = "loose" /\ In.ue /= 0) THEN "order"
  ELSE IF ~(ev.res = "ok" /\ ev.sane) THEN "res"
  ELSE IF ~ShapeOk(ev) THEN "shape"
  ELSE IF ~RangeOk(ev) THEN "range"
  ELSE IF ~PredictOk(X, ev.w, ev.b, ev.yhat, AlP(ev)) THEN "predict"
  ELSE IF ~B0Ok(ev) THEN "b0"
  ELSE IF ~GapOk(ev) THEN "gap"
  ELSE IF ~StopOk(ev, In.lte) THEN "stop"
  ELSE IF ~EquivOk(Case.ev[2], ev) THEN "equiv"
  ELSE "none"

-----------------------------------------------------------------------------
TFit ==
  /\ HasEv("fit") /\ e = 1
  /\ FitFirstFalse(Case.ev[e]) = "none"
  /\ Adv

TLoose ==
  /\ HasEv("loose")
  /\ LooseFirstFalse(Case.ev[e]) = "none"
  /\ Adv

TLoose0 ==
  /\ HasEv("loose0")
  /\ Loose0FirstFalse(Case.ev[e]) = "none"
  /\ Adv

DevUsed == Premise /\ Fit1.res = "ok" /\ Fit1.sane /\ ShapeOk(Fit1) /\ RangeOk(Fit1) /\ ~IcptStrict(Fit1)

Accept ==
  /\ e = Len(Case.ev) + 1
  /\ Len(Case.ev) >= 1 /\ Fit1.ev = "fit"
  /\ (Kind /= "ols" /\ In.lte > 0) => Len(Case.ev) >= (IF In.ue = 0 THEN 2 ELSE 3)     \* no event may be missing
  /\ IF DevUsed THEN OkDev(Case.id, <<"enet_intercept_ymean">>) ELSE Ok(Case.id)
  \* accounting only (counted by props/c11.py): offset cases whose slopes the float type cannot resolve
  /\ (Premise /\ OlsIcpt /\ OffCase /\ Fit1.res = "ok" /\ Fit1.sane /\ ShapeOk(Fit1) /\ RangeOk(Fit1)
        /\ SolveInRange(X, Y, Off, Fit1.w, Fit1.yhat, R(Fit1), 1, F32)
        /\ ~Resolvable(X, Y, Off, Fit1.w, Fit1.yhat, R(Fit1), 1, F32))
       => PrintT(<<"NOTE", Case.id, "unresolvable">>)
  /\ e' = e + 1 /\ UNCHANGED <<c, vars>>

Stuck ==
  /\ e <= Len(Case.ev)
  /\ ~(ENABLED TFit \/ ENABLED TLoose \/ ENABLED TLoose0)
  /\ Fail(Case.id, <<e, Case.ev[e].ev,
          IF Case.ev[e].ev = "fit" THEN FitFirstFalse(Case.ev[e])
          ELSE IF Case.ev[e].ev = "loose" THEN LooseFirstFalse(Case.ev[e])
          ELSE IF Case.ev[e].ev = "loose0" THEN Loose0FirstFalse(Case.ev[e]) ELSE "unexplained">>)
  /\ e' = Len(Case.ev) + 2 /\ UNCHANGED <<c, vars>>

TraceNext == TFit \/ TLoose \/ TLoose0 \/ Accept \/ Stuck
=============================================================================
