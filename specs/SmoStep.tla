------------------------------- MODULE SmoStep -------------------------------
(***************************************************************************)
(* X12: the optimisation STEPS of the SMO solver                           *)
(* (linfa-svm/src/solver_smo.rs: select_working_set, update, the stopping  *)
(* rule of solve, calculate_rho) as an explicit state machine on EXACT     *)
(* arithmetic.                                                             *)
(*                                                                         *)
(* Problem (all five formulations of linfa-svm share the solver):          *)
(*      min  f(a) = 1/2 a'Qa + p'a   s.t.  y'a = const, 0 <= a_t <= C_t    *)
(*      [nu-classification: additionally e'a = const]                      *)
(* with Q_ts = y_t y_s K(x_t, x_s) on integer lattice points (linear and   *)
(* low-degree polynomial kernels: K is an integer matrix), p, C, the       *)
(* initial point rational with the common denominator D0 (ProblemOf).      *)
(*                                                                         *)
(* State: a_t = A[t] / (D0*E), gradient G[t] / (D0*E): integers A, G and   *)
(* the denominator multiplier E (reduced by the gcd after every step), so  *)
(* every quantity of the algorithm is an exact rational.                   *)
(*                                                                         *)
(* One iteration = the WSS2 rule of the LIBSVM paper (Fan, Chen, Lin 2005) *)
(* that the code documents:                                                *)
(*    i in arg max { -y_t G_t : t in I_up }                                *)
(*    j in arg min { -b_it^2 / abar_it : t in I_low, -y_t G_t < -y_i G_i } *)
(*        b_it = -y_i G_i + y_t G_t,  a_it = K_ii + K_tt - 2 K_it,         *)
(*        abar = a if a > 0 else tau = 1e-10                                *)
(*    a_i += y_i d, a_j -= y_j d,  d = min(b_ij / abar_ij, distance to the *)
(*        box along that direction);  G += Q_.i y_i d - Q_.j y_j d         *)
(*    stop when  m(a) - M(a) < eps                                         *)
(* (nu-classification: the pair is taken inside one class, the stopping    *)
(* gap is the larger of the two class gaps).  Ties are never decided: the  *)
(* action is enabled for every arg max / arg min.                          *)
(*                                                                         *)
(* Invariants (TLC, all tiny instances of Inputs, every tie resolution):   *)
(*   InvFeas       0 <= a_t <= C_t, y'a (and e'a for nu) constant          *)
(*   InvGrad       the incrementally updated gradient equals Q a + p       *)
(*   InvViolating  the selected pair is a violating pair                   *)
(*   InvDecr       every step moves and strictly decreases f               *)
(*   InvStop       stop only when no violating pair beyond eps exists      *)
(* Variant # "ok" seeds a design bug (noclip, ascent, overshoot, gradstale, *)
(* anypair, stopearly); each must violate an invariant (non-vacuity).       *)
(*                                                                         *)
(* The operators of this module (ProblemOf, InUp/InLow, Vv, Aq, MaxViol,   *)
(* GainGe, big-number arithmetic) are the ones Trace_SmoStep evaluates on  *)
(* the recorded steps of the real solver.                                  *)
(***************************************************************************)
EXTENDS Fx, TLC

CONSTANTS Kinds,      \* subset of {"csvc", "esvr", "oneclass", "nusvr", "nusvc"}
          MinN, MaxN, \* number of samples of an instance
          Lite,       \* TRUE: reduced parameter grids
          EpsK,       \* stopping tolerance eps = 2^-EpsK
          MedSeeds, MedSizes,   \* medium 2-D instances: seeds and numbers of points ({} = none)
          MaxSteps, MaxE,   \* exploration bound of the design model (steps, denominator multiplier)
          Variant

VARIABLES case, pr, A, E, G, pc, h
vars == <<case, pr, A, E, G, pc, h>>

Eag(s) == s \o <<>>                 \* forces a lazily evaluated function constructor into a tuple
RECURSIVE Ipow(_, _)
Ipow(b, d) == IF d = 0 THEN 1 ELSE b * Ipow(b, d - 1)
RECURSIVE Gcd(_, _)
Gcd(a, b) == IF b = 0 THEN a ELSE Gcd(b, a % b)
RECURSIVE GcdSeq(_)
GcdSeq(s) == IF s = <<>> THEN 0 ELSE Gcd(Abs(Head(s)), GcdSeq(Tail(s)))
NEGINF == -1073741824

(* ------------------------------------------------ natural numbers beyond 31 bits *)
(* little-endian limbs in base 10^4                                                 *)
BB == 10000
RECURSIVE BNorm(_, _)
BNorm(s, cy) ==
  IF s = <<>> THEN (IF cy = 0 THEN <<>> ELSE <<cy % BB>> \o BNorm(<<>>, cy \div BB))
  ELSE LET v == Head(s) + cy IN <<v % BB>> \o BNorm(Tail(s), v \div BB)
BOf(n) == BNorm(<<>>, n)                                     \* n >= 0
BAdd(x, y) == BNorm([k \in 1..Max2(Len(x), Len(y)) |->
                       (IF k <= Len(x) THEN x[k] ELSE 0) + (IF k <= Len(y) THEN y[k] ELSE 0)], 0)
BMul(x, y) ==
  IF x = <<>> \/ y = <<>> THEN <<>>
  ELSE BNorm([k \in 1..(Len(x) + Len(y) - 1) |->
                SumSeq([i \in 1..Len(x) |-> IF k + 1 - i >= 1 /\ k + 1 - i <= Len(y) THEN x[i] * y[k + 1 - i] ELSE 0])], 0)
BSq(n) == LET b == BOf(n) IN BMul(b, b)
BLimb(x, k) == IF k <= Len(x) THEN x[k] ELSE 0
RECURSIVE BCmpFrom(_, _, _)
BCmpFrom(x, y, k) ==
  IF k = 0 THEN 0
  ELSE IF BLimb(x, k) > BLimb(y, k) THEN 1
  ELSE IF BLimb(x, k) < BLimb(y, k) THEN -1
  ELSE BCmpFrom(x, y, k - 1)
BCmp(x, y) == BCmpFrom(x, y, Max2(Len(x), Len(y)))           \* -1 / 0 / 1
BIsZero(x) == \A k \in 1..Len(x) : x[k] = 0
\* sign of  n1 * m1 - n2 * m2  for integers n1, n2 and naturals (limb sequences) m1, m2
SProdCmp(n1, m1, n2, m2) ==
  LET s1 == IF BIsZero(m1) THEN 0 ELSE Sgn(n1)
      s2 == IF BIsZero(m2) THEN 0 ELSE Sgn(n2)
  IN IF s1 # s2 THEN (IF s1 > s2 THEN 1 ELSE -1)
     ELSE IF s1 = 0 THEN 0
     ELSE s1 * BCmp(BMul(BOf(Abs(n1)), m1), BMul(BOf(Abs(n2)), m2))

(* ------------------------------------------------------------- the problem *)
KVal(kern, u, v) == IF kern.k = "lin" THEN Dot(u, v) ELSE Ipow(Dot(u, v) + kern.c, kern.d)
IsSvr(k) == k.kind \in {"esvr", "nusvr"}
NSamp(k) == Len(k.inp.x)
NVars(k) == IF IsSvr(k) THEN 2 * NSamp(k) ELSE NSamp(k)
SampOf(k, t) == ((t - 1) % NSamp(k)) + 1          \* regression: variable t > n is a*_(t-n)
Earlier(y, t) == Cardinality({s \in 1..(t - 1) : y[s] = y[t]})

\* [n, y (+1/-1), kd (K_tt), Q, D0, C0 (C_t*D0), P0 (p_t*D0), A0 (initial a_t*D0), nu]
ProblemOf(k) ==
  LET i  == k.inp
      n  == NVars(k)
      ns == NSamp(k)
      y  == Eag([t \in 1..n |->
                  CASE k.kind \in {"csvc", "nusvc"} -> IF i.y[t] > 0 THEN 1 ELSE -1
                    [] k.kind = "oneclass" -> 1
                    [] OTHER -> IF t <= ns THEN 1 ELSE -1])
      xv == Eag([t \in 1..n |-> i.x[SampOf(k, t)]])
      kd == Eag([t \in 1..n |-> KVal(i.kern, xv[t], xv[t])])
      Q  == Eag([t \in 1..n |-> Eag([s \in 1..n |-> y[t] * y[s] * KVal(i.kern, xv[t], xv[s])])])
      d0 == CASE k.kind = "csvc" -> i.cp[2] * i.cn[2]
              [] k.kind = "nusvc" -> 2 * i.nu[2]
              [] k.kind = "oneclass" -> i.nu[2]
              [] k.kind = "esvr" -> i.c[2] * i.le[2]
              [] k.kind = "nusvr" -> 2 * i.c[2] * i.nu[2]
      c0 == Eag([t \in 1..n |->
                  CASE k.kind = "csvc" -> IF y[t] = 1 THEN i.cp[1] * i.cn[2] ELSE i.cn[1] * i.cp[2]
                    [] k.kind \in {"nusvc", "oneclass"} -> d0
                    [] k.kind = "esvr" -> i.c[1] * i.le[2]
                    [] k.kind = "nusvr" -> i.c[1] * 2 * i.nu[2]])
      p0 == Eag([t \in 1..n |->
                  CASE k.kind = "csvc" -> -d0
                    [] k.kind \in {"nusvc", "oneclass"} -> 0
                    [] k.kind = "esvr" -> IF t <= ns THEN i.le[1] * i.c[2] - i.y[t] * d0 ELSE i.le[1] * i.c[2] + i.y[t - ns] * d0
                    [] k.kind = "nusvr" -> IF t <= ns THEN -i.y[t] * d0 ELSE i.y[t - ns] * d0])
      a0 == Eag([t \in 1..n |->
                  CASE k.kind \in {"csvc", "esvr"} -> 0
                    \* nu n / 2 per class, handed out in index order, at most 1 each
                    [] k.kind = "nusvc" -> Min2(d0, Max2(0, i.nu[1] * n - Earlier(y, t) * d0))
                    \* nu n in total, handed out in index order, at most 1 each
                    [] k.kind = "oneclass" -> Min2(d0, Max2(0, i.nu[1] * n - (t - 1) * d0))
                    \* C nu n / 2 for a and for a*, handed out in index order, at most C each
                    [] k.kind = "nusvr" -> Min2(c0[t], Max2(0, i.c[1] * i.nu[1] * ns - (SampOf(k, t) - 1) * c0[t]))])
  IN [n |-> n, y |-> y, kd |-> kd, Q |-> Q, D0 |-> d0, C0 |-> c0, P0 |-> p0, A0 |-> a0, nu |-> k.kind = "nusvc"]

(* ---------------------------------------- quantities of one iteration (units 1/(D0*E)) *)
Bnd(p, e)      == Eag([t \in 1..p.n |-> p.C0[t] * e])
GradOf(p, a, e) == Eag([t \in 1..p.n |-> Dot(p.Q[t], a) + p.P0[t] * e])
\* status as the solver tests it: 2 = at the upper bound, 0 = at the lower bound, 1 = free
StOf(a, bnd)   == Eag([t \in 1..Len(a) |-> IF a[t] >= bnd[t] THEN 2 ELSE IF a[t] = 0 THEN 0 ELSE 1])
InUp(p, st, t)  == IF p.y[t] = 1 THEN st[t] # 2 ELSE st[t] # 0
InLow(p, st, t) == IF p.y[t] = 1 THEN st[t] # 0 ELSE st[t] # 2
UpSet(p, st, act)  == {t \in act : InUp(p, st, t)}
LowSet(p, st, act) == {t \in act : InLow(p, st, t)}
Vv(p, g, t)    == -p.y[t] * g[t]                                    \* -y_t grad_t
Aq(p, i, j)    == p.kd[i] + p.kd[j] - 2 * p.y[i] * p.y[j] * p.Q[i][j]   \* K_ii + K_jj - 2 K_ij
SameCls(p, i, j) == ~p.nu \/ p.y[i] = p.y[j]
\* the maximal violation m(a) - M(a) over the variables `act` (nu: the larger class gap); NEGINF = no pair at all
MaxViol(p, st, g, act) ==
  LET ps == {Vv(p, g, t) - Vv(p, g, s) : <<t, s>> \in {q \in UpSet(p, st, act) \X LowSet(p, st, act) : SameCls(p, q[1], q[2])}}
  IN IF ps = {} THEN NEGINF ELSE MaxSet(ps)
\* abar * 10^10 as a limb sequence (tau = 10^-10 replaces a non-positive curvature)
ABar(a) == IF a > 0 THEN BMul(<<0, 0, 100>>, BOf(a)) ELSE <<1>>
\* b1^2 / abar(a1) >= b2^2 / abar(a2)   for b1, b2 >= 0
GainGe(b1, a1, b2, a2) == BCmp(BMul(BSq(b1), ABar(a2)), BMul(BSq(b2), ABar(a1))) >= 0
ArgMaxUp(p, st, g, act, cls) ==
  LET u == {t \in UpSet(p, st, act) : cls = 0 \/ p.y[t] = cls} IN {t \in u : \A s \in u : Vv(p, g, s) <= Vv(p, g, t)}

\* WSS2: (i, j) is a selection the rule allows in this state (ties free)
Wss2(p, st, g, act, i, j) ==
  /\ i \in ArgMaxUp(p, st, g, act, IF p.nu THEN p.y[j] ELSE 0)
  /\ j \in LowSet(p, st, act)
  /\ Vv(p, g, i) - Vv(p, g, j) > 0
  /\ \A t \in LowSet(p, st, act) :
       (SameCls(p, i, t) /\ Vv(p, g, i) - Vv(p, g, t) > 0)
          => GainGe(Vv(p, g, i) - Vv(p, g, j), Aq(p, i, j), Vv(p, g, i) - Vv(p, g, t), Aq(p, i, t))
  \* nu: the candidates of the other class compete with (some) arg max of their own class
  /\ p.nu =>
       LET oc == -p.y[j]  io == ArgMaxUp(p, st, g, act, oc) IN
       \/ io = {}
       \/ \E i2 \in io : \A t \in {s \in LowSet(p, st, act) : p.y[s] = oc} :
            Vv(p, g, i2) - Vv(p, g, t) > 0
              => GainGe(Vv(p, g, i) - Vv(p, g, j), Aq(p, i, j), Vv(p, g, i2) - Vv(p, g, t), Aq(p, i2, t))
IsViolating(p, st, g, i, j) == InUp(p, st, i) /\ InLow(p, st, j) /\ SameCls(p, i, j) /\ Vv(p, g, i) - Vv(p, g, j) > 0

\* room of the step a_i += y_i d, a_j -= y_j d inside the box
LimI(p, a, bnd, i) == IF p.y[i] = 1 THEN bnd[i] - a[i] ELSE a[i]
LimJ(p, a, bnd, j) == IF p.y[j] = 1 THEN a[j] ELSE bnd[j] - a[j]

\* 2 f(a) * (D0*E)^2, computed from a alone
Obj2(p, a, e) == SumSeq([t \in 1..p.n |-> a[t] * (Dot(p.Q[t], a) + 2 * p.P0[t] * e)])
SumY(p, a)    == SumSeq([t \in 1..p.n |-> p.y[t] * a[t]])

(* -------------------------------------------------------------- the instances *)
Xs3 == <<-1, 0, 1>>
Xo  == <<-1, 0, 2>>
LX(l) == <<Xs3[((l - 1) % 3) + 1]>>
LY(l) == (l - 1) \div 3                       \* class 0 / 1
RY(l) == IF (l - 1) \div 3 = 0 THEN -1 ELSE 1  \* regression target
Sorted(m, len) == {s \in [1..len -> 1..m] : \A i \in 1..(len - 1) : s[i] <= s[i + 1]}
Multis(m, lo, hi) == UNION {Sorted(m, len) : len \in lo..hi}
BothLabels(s) == \E i, j \in DOMAIN s : LY(s[i]) # LY(s[j])
One == <<1, 1>>
KernOf(name) ==
  CASE name = "lin"   -> [k |-> "lin",  c |-> 0, d |-> 1]
    [] name = "p1c1"  -> [k |-> "poly", c |-> 1, d |-> 1]
    [] name = "poly2" -> [k |-> "poly", c |-> 1, d |-> 2]
MkD(kind, x, y, dim, kern, cp, cn, nu, cc, le, shr) ==
  [kind |-> kind,
   inp |-> [x |-> x, y |-> y, dim |-> dim, kern |-> KernOf(kern), cp |-> cp, cn |-> cn, nu |-> nu, c |-> cc, le |-> le,
            shr |-> shr, epsk |-> EpsK]]
Mk(kind, x, y, kern, cp, cn, nu, cc, le, shr) == MkD(kind, x, y, 1, kern, cp, cn, nu, cc, le, shr)
\* dyadic box parameters <<C+, C->>, unequal class weights included
CPairs == IF Lite THEN {<<One, One>>, <<<<2, 1>>, <<1, 2>>>>, <<<<8, 1>>, One>>}
          ELSE {<<One, One>>, <<<<2, 1>>, <<1, 2>>>>, <<<<8, 1>>, One>>, <<<<1, 4>>, <<4, 1>>>>, <<<<1, 2>>, <<1, 2>>>>}
\* (<x,x'>+1)^2 has rank 3 on the 1-D lattice: with it the iteration converges asymptotically, not in finitely many steps
Kerns == IF Lite THEN {"lin", "poly2"} ELSE {"lin", "p1c1", "poly2"}
NuFeasible(y, nu) ==
  /\ nu[1] * Len(y) < 2 * nu[2] * Cardinality({t \in DOMAIN y : y[t] = 1})
  /\ nu[1] * Len(y) < 2 * nu[2] * Cardinality({t \in DOMAIN y : y[t] = 0})

CsvcInputs ==
  {Mk("csvc", [t \in DOMAIN s |-> LX(s[t])], [t \in DOMAIN s |-> LY(s[t])], kern, cw[1], cw[2], One, One, One, FALSE) :
     s \in {u \in Multis(6, MinN, MaxN) : BothLabels(u)}, kern \in Kerns, cw \in CPairs}
EsvrInputs ==
  {Mk("esvr", [t \in DOMAIN s |-> LX(s[t])], [t \in DOMAIN s |-> RY(s[t])], kern, One, One, One, ce[1], ce[2], FALSE) :
     s \in Multis(6, Max2(1, MinN - 1), Max2(1, MaxN - 1)), kern \in {"lin"},
     ce \in {<<One, <<1, 2>>>>, <<<<2, 1>>, <<1, 4>>>>, <<<<1, 2>>, <<1, 8>>>>}}
OneclassInputs ==
  {Mk("oneclass", [t \in DOMAIN s |-> <<Xo[s[t]]>>], [t \in DOMAIN s |-> 1], kern, One, One, nu, One, One, FALSE) :
     s \in Multis(3, MinN, MaxN), kern \in {"lin", "p1c1"}, nu \in {<<1, 4>>, <<1, 2>>, <<3, 4>>}}
NusvrInputs ==
  {Mk("nusvr", [t \in DOMAIN s |-> LX(s[t])], [t \in DOMAIN s |-> RY(s[t])], "lin", One, One, nu, cc, One, FALSE) :
     s \in Multis(6, Max2(1, MinN - 1), Max2(1, MaxN - 1)), nu \in {<<1, 4>>, <<1, 2>>}, cc \in {One, <<2, 1>>}}
NusvcInputs ==
  {k \in {Mk("nusvc", [t \in DOMAIN s |-> LX(s[t])], [t \in DOMAIN s |-> LY(s[t])], kern, One, One, nu, One, One, FALSE) :
            s \in {u \in Multis(6, MinN, MaxN) : BothLabels(u)}, kern \in {"lin", "p1c1"}, nu \in {<<1, 4>>, <<1, 2>>}} :
     NuFeasible(k.inp.y, k.inp.nu)}

(* medium instances: 2-D points of a deterministic pseudo-random lattice walk (C13's medium families on the smaller   *)
(* lattice -2..2) with label / target noise: overlapping classes, many bounded variables, tens of iterations, every   *)
(* clipping branch; shrinking on and off (the active set then really shrinks: every min(n,1000) iterations)           *)
MedX(s, n) == [i \in 1..n |-> << ((s * 5 + i * 3 + ((i * i) % 11)) % 5) - 2, ((s * 3 + i * 5 + ((i * i * i) % 13)) % 5) - 2 >>]
Noise(s, i) == (IF (i * 7 + s) % 5 = 0 THEN 2 ELSE 0) - (IF (i * 3 + s) % 7 = 0 THEN 2 ELSE 0)
MedY(s, n) == LET X == MedX(s, n) IN [i \in 1..n |-> IF X[i][1] + X[i][2] + Noise(s, i) > 0 THEN 1 ELSE 0]
MedR(s, n) == LET X == MedX(s, n) IN [i \in 1..n |-> X[i][1] - X[i][2] + ((i * 5 + s) % 3) - 1]
HasBoth(y) == (\E t \in DOMAIN y : y[t] = 1) /\ (\E t \in DOMAIN y : y[t] = 0)
MedCPairs == {<<One, One>>, <<<<4, 1>>, <<1, 2>>>>, <<<<1, 4>>, <<2, 1>>>>}
MedInputs ==
  (IF "csvc" \in Kinds
     THEN {k \in {MkD("csvc", MedX(s, n), MedY(s, n), 2, kern, cw[1], cw[2], One, One, One, shr) :
                   s \in MedSeeds, n \in MedSizes, kern \in {"lin", "p1c1"}, cw \in MedCPairs, shr \in BOOLEAN} : HasBoth(k.inp.y)}
     ELSE {})
  \cup (IF "nusvc" \in Kinds
     THEN {k \in {MkD("nusvc", MedX(s, n), MedY(s, n), 2, "lin", One, One, nu, One, One, shr) :
                   s \in MedSeeds, n \in MedSizes, nu \in {<<1, 4>>, <<1, 2>>}, shr \in BOOLEAN} : HasBoth(k.inp.y) /\ NuFeasible(k.inp.y, k.inp.nu)}
     ELSE {})
  \cup (IF "oneclass" \in Kinds
     THEN {MkD("oneclass", MedX(s, n), [i \in 1..n |-> 1], 2, "p1c1", One, One, nu, One, One, shr) :
             s \in MedSeeds, n \in MedSizes, nu \in {<<1, 4>>, <<1, 2>>}, shr \in BOOLEAN}
     ELSE {})
  \cup (IF "esvr" \in Kinds
     THEN {MkD("esvr", MedX(s, n \div 2), MedR(s, n \div 2), 2, "lin", One, One, One, ce[1], ce[2], shr) :
             s \in MedSeeds, n \in MedSizes, ce \in {<<One, <<1, 4>>>>, <<<<4, 1>>, <<1, 2>>>>}, shr \in BOOLEAN}
     ELSE {})
  \cup (IF "nusvr" \in Kinds
     THEN {MkD("nusvr", MedX(s, n \div 2), MedR(s, n \div 2), 2, "lin", One, One, nu, cc, One, shr) :
             s \in MedSeeds, n \in MedSizes, nu \in {<<1, 2>>}, cc \in {One, <<2, 1>>}, shr \in BOOLEAN}
     ELSE {})

Inputs ==
  (IF "csvc" \in Kinds THEN CsvcInputs ELSE {}) \cup (IF "esvr" \in Kinds THEN EsvrInputs ELSE {})
  \cup (IF "oneclass" \in Kinds THEN OneclassInputs ELSE {}) \cup (IF "nusvr" \in Kinds THEN NusvrInputs ELSE {})
  \cup (IF "nusvc" \in Kinds THEN NusvcInputs ELSE {})
  \cup (IF MedSeeds # {} THEN MedInputs ELSE {})

(* ---------------------------------------------------------- the design model *)
All(p) == 1..p.n
H0 == [k |-> 0, i |-> 0, j |-> 0, viol |-> TRUE, moved |-> TRUE, decr |-> TRUE]

Init ==
  /\ case \in Inputs
  /\ pr = ProblemOf(case)
  /\ A = pr.A0 /\ E = 1
  /\ G = GradOf(pr, pr.A0, 1)
  /\ pc = "run" /\ h = H0

\* gap < eps = 2^-EpsK   (gap in units 1/(D0*e))
BelowEps(gap, d0e) == gap = NEGINF \/ gap * Ipow(2, EpsK) < d0e

\* the exact two-variable step from (a, e, g) on the pair (i, j)
Upd(p, a, e, g, i, j) ==
  LET aq   == Aq(p, i, j)
      b    == Vv(p, g, i) - Vv(p, g, j)
      sc   == IF aq > 0 THEN aq ELSE 1                \* new denominator multiplier e * sc
      a1   == [t \in 1..p.n |-> a[t] * sc]
      bnd1 == Bnd(p, e * sc)
      dmax == Min2(LimI(p, a1, bnd1, i), LimJ(p, a1, bnd1, j))
      \* a > 0: unclipped step b / a = b / (D0 e sc) ; a <= 0: b / tau exceeds every box within the model's bounds
      d0   == IF aq > 0 THEN (IF Variant = "noclip" THEN b ELSE Min2(b, dmax)) ELSE dmax
      d    == IF Variant = "ascent" THEN -d0
              ELSE IF Variant = "overshoot" /\ aq > 0 THEN Min2(3 * b, dmax)    \* three Newton steps, clipped
              ELSE d0
      a2   == [a1 EXCEPT ![i] = @ + p.y[i] * d, ![j] = @ - p.y[j] * d]
      g2   == [t \in 1..p.n |-> g[t] * sc + p.Q[t][i] * p.y[i] * d
                                 - (IF Variant = "gradstale" THEN 0 ELSE p.Q[t][j] * p.y[j] * d)]
      gg   == GcdSeq(<<e * sc>> \o a2)
  IN [A |-> Eag([t \in 1..p.n |-> a2[t] \div gg]), E |-> (e * sc) \div gg,
      G |-> Eag([t \in 1..p.n |-> g2[t] \div gg]), d |-> d]

Step ==
  /\ pc = "run"
  /\ LET st == StOf(A, Bnd(pr, E)) IN
     /\ ~BelowEps(MaxViol(pr, st, G, All(pr)), pr.D0 * E)
     /\ \E i, j \in All(pr) :
          /\ i # j
          /\ IF Variant = "anypair" THEN InUp(pr, st, i) /\ InLow(pr, st, j) /\ SameCls(pr, i, j)
             ELSE Wss2(pr, st, G, All(pr), i, j)
          \* exploration bound: the new denominator multiplier stays within MaxE (keeps every product inside 31 bits)
          /\ E * (IF Aq(pr, i, j) > 0 THEN Aq(pr, i, j) ELSE 1) <= MaxE
          /\ LET u == Upd(pr, A, E, G, i, j) IN
             /\ A' = u.A /\ E' = u.E /\ G' = u.G
             /\ h' = [k |-> h.k + 1, i |-> i, j |-> j,
                      viol |-> IsViolating(pr, st, G, i, j),
                      moved |-> u.A # A \/ u.E # E,
                      \* f(new) < f(old):  Obj2(new) / E'^2 < Obj2(old) / E^2
                      decr |-> SProdCmp(Obj2(pr, u.A, u.E), BSq(E), Obj2(pr, A, E), BSq(u.E)) < 0]
  /\ UNCHANGED <<case, pr, pc>>

Stop ==
  /\ pc = "run"
  /\ LET gap == MaxViol(pr, StOf(A, Bnd(pr, E)), G, All(pr)) IN
     IF Variant = "stopearly" THEN gap = NEGINF \/ gap < pr.D0 * E      \* gap < 1
     ELSE BelowEps(gap, pr.D0 * E)
  /\ pc' = "done"
  /\ UNCHANGED <<case, pr, A, E, G, h>>

Next == Step \/ Stop
Bounded == h.k <= MaxSteps /\ E <= MaxE

InvFeas ==
  /\ \A t \in All(pr) : 0 <= A[t] /\ A[t] <= pr.C0[t] * E
  /\ SumY(pr, A) = SumY(pr, pr.A0) * E
  /\ pr.nu => SumSeq(A) = SumSeq(pr.A0) * E
InvGrad == G = GradOf(pr, A, E)
InvViolating == h.viol
InvDecr == h.moved /\ h.decr
InvStop ==
  pc = "done" =>
    LET st == StOf(A, Bnd(pr, E)) IN
    \A t \in UpSet(pr, st, All(pr)), s \in LowSet(pr, st, All(pr)) :
       SameCls(pr, t, s) => (Vv(pr, G, t) - Vv(pr, G, s)) * Ipow(2, EpsK) < pr.D0 * E
=============================================================================
