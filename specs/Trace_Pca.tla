----------------------------- MODULE Trace_Pca -----------------------------
(***************************************************************************)
(* C18 trace validation.  A case is one integer record matrix; the harness *)
(* (harness/src/bin/c18.rs) fits PCA for every embedding size 1..p with    *)
(* whitening off and on (the complete un-whitened fit first) and records   *)
(* fit / proj / inv events, then err events for the invalid requests.      *)
(* Every event is checked with the relation of module Pca against the      *)
(* exact scatter matrix of the case's input (state variable ds).           *)
(* The complete fit is a certificate (p orthonormal eigenpairs whose        *)
(* squared singular values add up to the total scatter); the later fits     *)
(* must reproduce its leading singular values.                              *)
(* Named deviations (constant Devs) model the three defects found in the    *)
(* unchanged tree; a case that needs one is printed with OkDev.             *)
(* Each event is evaluated once: the action either advances or prints the   *)
(* first false clause (FAIL) and abandons the case.                         *)
(***************************************************************************)
EXTENDS Pca, TraceIO

CONSTANT Devs

VARIABLES c, e,      \* case and event cursor
          ds,        \* exact summary of the case's record matrix
          full,      \* sigma^2 list of the accepted complete un-whitened fit (<<>> before it)
          mdl,       \* the model of the last accepted fit event (<<>> if none)
          prj,       \* the projections of the last accepted proj event (<<>> if none)
          done,      \* set of <<k, wh>> whose fit/proj/inv triple was accepted
          nerr,      \* number of accepted err events
          used       \* deviations that were needed

Case == Rec[c]
In   == Case.inp
Ev   == Case.ev[e]
Q    == In.q
\* optional inputs: ks = embedding sizes to run (default 1..p), zr = number of training rows whose
\* projection / reconstruction is logged (default n)
Ks   == IF "ks" \in DOMAIN In THEN {In.ks[q] : q \in 1..Len(In.ks)} ELSE 1..In.p
ZR   == IF "zr" \in DOMAIN In THEN Min2(In.zr, In.n) ELSE In.n
X    == SubSeq(In.x, 1, ZR)

TraceInit ==
  /\ c \in 1..Len(Rec) /\ e = 1
  /\ ds = Summary(Rec[c].inp.x, Rec[c].inp.p)
  /\ full = <<>> /\ mdl = <<>> /\ prj = <<>> /\ done = {} /\ nerr = 0 /\ used = {}
  /\ st = [ph |-> "trace"]

HasEv(name) == e <= Len(Case.ev) /\ Ev.ev = name
Adv == e' = e + 1 /\ UNCHANGED <<c, ds, st>>
\* the case is abandoned: report the event and the first false clause
Reject(what) ==
  /\ Fail(Case.id, <<e, Ev.ev, IF Ev.ev \in {"fit", "proj", "inv", "err"} THEN <<Ev.k, Ev.wh>> ELSE <<>>, what>>)
  /\ e' = Len(Case.ev) + 2 /\ UNCHANGED <<c, ds, st, full, mdl, prj, done, nerr, used>>

\* ---- fit ---------------------------------------------------------------------------------
FitGuard ==
  /\ HasEv("fit") /\ Ev.ok /\ mdl = <<>> /\ prj = <<>>
  /\ <<Ev.k, Ev.wh>> \notin done
  /\ (Ev.k = ds.p /\ ~Ev.wh) \/ full # <<>>             \* the complete fit comes first

\* deviations the accepted event really needed
FitNeeds ==
  (IF DevEvar \in Devs /\ FitWhy(ds, Ev.k, Ev.wh, Ev, full, Devs \ {DevEvar}) # "ok" THEN {DevEvar} ELSE {}) \cup
  (IF DevRitz \in Devs /\ FitWhy(ds, Ev.k, Ev.wh, Ev, full, Devs \ {DevRitz}) # "ok" THEN {DevRitz} ELSE {})

TFit ==
  /\ FitGuard
  /\ LET strict == FitWhy(ds, Ev.k, Ev.wh, Ev, full, {})
         final  == IF strict = "ok" \/ Devs = {} THEN strict ELSE FitWhy(ds, Ev.k, Ev.wh, Ev, full, Devs)
     IN IF final = "ok"
          THEN /\ used' = IF strict = "ok" THEN used ELSE used \cup FitNeeds
               /\ mdl' = Model(ds, Ev.k, Ev.wh, Ev)
               /\ full' = IF Ev.k = ds.p /\ ~Ev.wh THEN [i \in 1..ds.p |-> S2(Ev, i)] ELSE full
               /\ Adv /\ UNCHANGED <<prj, done, nerr>>
          ELSE Reject(final)

\* ---- projections -------------------------------------------------------------------------
ProjGuard == HasEv("proj") /\ mdl # <<>> /\ prj = <<>> /\ Ev.k = mdl.k /\ Ev.wh = mdl.wh
TProj ==
  /\ ProjGuard
  /\ LET v == ProjWhy(ds, mdl, X, Q, Ev) IN
     IF v = "ok" THEN /\ prj' = [z |-> Ev.z, zq |-> Ev.zq]
                      /\ Adv /\ UNCHANGED <<full, mdl, done, nerr, used>>
                 ELSE Reject(v)

\* ---- transform followed by inverse transform ---------------------------------------------
InvGuard == HasEv("inv") /\ mdl # <<>> /\ prj # <<>> /\ Ev.k = mdl.k /\ Ev.wh = mdl.wh
TInv ==
  /\ InvGuard
  /\ LET strict == InvWhy(ds, mdl, X, Q, prj, Ev, FALSE)
         dev    == strict # "ok" /\ mdl.wh /\ DevInv \in Devs
         final  == IF dev THEN InvWhy(ds, mdl, X, Q, prj, Ev, TRUE) ELSE strict
     IN IF final = "ok"
          THEN /\ used' = IF dev THEN used \cup {DevInv} ELSE used
               /\ done' = done \cup {<<mdl.k, mdl.wh>>}
               /\ mdl' = <<>> /\ prj' = <<>>
               /\ Adv /\ UNCHANGED <<full, nerr>>
          ELSE Reject(final)

\* ---- an empty dataset or an embedding size outside 1..p is an error ----------------------
ErrGuard == HasEv("err") /\ mdl = <<>> /\ (Ev.what = "empty" \/ ~(Ev.k \in 1..ds.p))
TErr ==
  /\ ErrGuard
  /\ IF ~Ev.ok THEN /\ nerr' = nerr + 1
                    /\ Adv /\ UNCHANGED <<full, mdl, prj, done, used>>
               ELSE Reject("invalid-request-accepted")

\* ---- anything else: panic, fit that returned an error, events out of protocol -------------
TOther ==
  /\ e <= Len(Case.ev)
  /\ ~(FitGuard \/ ProjGuard \/ InvGuard \/ ErrGuard)
  /\ Reject(IF Ev.ev = "panic" THEN "panic:" \o Ev.msg
            ELSE IF Ev.ev = "fit" /\ ~Ev.ok THEN "fit-returned-error:" \o Ev.err
            ELSE "protocol")

\* ---- acceptance ---------------------------------------------------------------------------
AllFits == {<<ds.p, FALSE>>} \cup {<<k, FALSE>> : k \in {q \in Ks : q < ds.p}} \cup {<<k, TRUE>> : k \in Ks}

Finish ==
  /\ e = Len(Case.ev) + 1
  /\ IF mdl = <<>> /\ prj = <<>> /\ done = AllFits /\ Ks \subseteq 1..ds.p /\ nerr = 6
       THEN (IF used = {} THEN Ok(Case.id) ELSE \A d \in used : OkDev(Case.id, <<d>>))   \* one short line per deviation
       ELSE Fail(Case.id, <<e, "end", <<>>, "events-missing">>)
  /\ e' = e + 1 /\ UNCHANGED <<c, ds, st, full, mdl, prj, done, nerr, used>>

TraceNext == TFit \/ TProj \/ TInv \/ TErr \/ TOther \/ Finish
=============================================================================
