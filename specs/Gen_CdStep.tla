----------------------------- MODULE Gen_CdStep -----------------------------
(***************************************************************************)
(* Case generator for X13.  TLC enumerates, as initial states,             *)
(*  family "tiny": exactly the instances of the design model CdStep        *)
(*     (Init of CdStep: n <= MaxN, p <= MaxP, budgets 1..MaxIt; columns    *)
(*     incl. the zero column, exactly collinear pairs (equal columns), the *)
(*     nearly collinear pair (1,1,1) / (1,1,2); penalty 0, pure ridge,     *)
(*     pure lasso, mixed; with / without intercept);                       *)
(*  family "run": longer runs on n = 4 rows, p <= 3 columns (zero column,  *)
(*     constant column, nearly collinear pairs (1,1,1,1)/(1,1,1,2) and     *)
(*     (1,2,3,4)/(1,2,3,5), duplicates), dyadic penalties                  *)
(*     {0, 1/8, 1/2, 1, 2} x l1 ratios {0, 1/4, 1/2, 1}, tolerances        *)
(*     10^-1 .. 10^-4, budgets {2, 7, 40}; thinned by a fixed hash         *)
(*     (RunThin) to a spread sample.                                       *)
(* A third of the instances is also emitted as kind "bcd1" (the multi-task *)
(* block solver on one target column).                                     *)
(* C11's generator Gen_LinReg was not reused: its designs carry offsets /  *)
(* scales / units whose magnitudes leave the 31-bit fixed-point range of   *)
(* the step model, and the file was being edited concurrently.             *)
(***************************************************************************)
EXTENDS CdStepOps, Json

CONSTANTS MaxN, MaxP, MaxIt, TinyThin, RunThin

VARIABLE case

Cols4 == {<<0, 0, 0, 0>>, <<1, 1, 1, 1>>, <<1, 2, 3, 4>>, <<1, 1, 1, 2>>, <<0, 1, 0, -1>>, <<2, -1, 0, 1>>, <<1, 2, 3, 5>>}
Ys4 == {<<1, 2, -1, 3>>, <<0, 0, 0, 0>>, <<2, 0, 1, -2>>, <<1, 3, 5, 8>>, <<3, 3, 3, 3>>}
Pens4 == {<<0, 1>>, <<1, 8>>, <<1, 2>>, <<1, 1>>, <<2, 1>>}
Rhos4 == {<<0, 1>>, <<1, 4>>, <<1, 2>>, <<1, 1>>}
PenRho4 == {pr \in Pens4 \X Rhos4 : pr[1][1] > 0 \/ pr[2] = <<1, 2>>}
Tols4 == {<<1, 10>>, <<1, 100>>, <<1, 1000>>, <<1, 10000>>}
Its4 == {2, 7, 40}

\* kind "cd": ElasticNet (coordinate_descent_with_intercept); kind "bcd1": MultiTaskElasticNet with ONE target column
\* (block_coordinate_descent_with_intercept + duality_gap_mtl), which must run through the same state machine (a block
\* of one coefficient: block soft threshold = soft threshold, row norms = absolute values)
Mk(kd, fam, xx, yy, pn, rh, tl, ic, mi) ==
  [kind |-> kd,
   inp |-> [x |-> xx, y |-> yy, pen |-> pn, l1r |-> rh, tol |-> tl, icpt |-> ic, maxit |-> mi, fam |-> fam]]

GInit ==
  \/ \E n \in 2..MaxN, p \in 1..MaxP :
     \E cs \in [1..p -> Cols(n)], y \in Ys(n), pr \in PenRho, tl \in Tols, ic \in BOOLEAN, mi \in 1..MaxIt :
       LET xx == [i \in 1..n |-> [q \in 1..p |-> cs[q][i]]]
           h == InstHash(xx, y, pr, tl, ic, mi)
       IN /\ h % TinyThin = 0
          /\ \E kd \in (IF (h \div TinyThin) % 3 = 0 THEN {"cd", "bcd1"} ELSE {"cd"}) :
               case = Mk(kd, "tiny", xx, y, pr[1], pr[2], tl, ic, mi)
  \/ \E p \in 1..3 :
     \E cs \in [1..p -> Cols4], y \in Ys4, pr \in PenRho4, tl \in Tols4, ic \in BOOLEAN, mi \in Its4 :
       LET xx == [i \in 1..4 |-> [q \in 1..p |-> cs[q][i]]]
           h == InstHash(xx, y, pr, tl, ic, mi)
       IN /\ h % (IF p = 3 THEN 6 * RunThin ELSE IF p = 2 THEN RunThin ELSE (RunThin + 7) \div 8) = 0
          /\ \E kd \in (IF (h \div RunThin) % 3 = 0 THEN {"cd", "bcd1"} ELSE {"cd"}) :
               case = Mk(kd, "run", xx, y, pr[1], pr[2], tl, ic, mi)

GNext == UNCHANGED case
Emit == PrintT("CASE " \o ToJson(case))
=============================================================================
