------------------------- MODULE Trace_Vectorizer -------------------------
(***************************************************************************)
(* C17 trace validation.  A case is one corpus + settings; its events are  *)
(* what the real CountVectorizer / TfIdfVectorizer returned:               *)
(*   fit(api=count)   vocabulary(), nentries()                             *)
(*   count(on)        dense transform() of the training / unseen corpus    *)
(*   fit(api=tfidf)   one fit per idf method (own column order)            *)
(*   tfidf(on)        dense transform(), entries as round(v * 10^4)        *)
(*   idf              TfIdfMethod::compute_idf(n, df) (kind "idf")         *)
(* Every event is checked with the relations of Vectorizer.tla (part 1):   *)
(* VocabOk, CountOk, TfIdfOk, IdfS.  The column order is taken from the    *)
(* implementation (column j refers to vocabulary()[j]); the vocabulary as  *)
(* a set, every count and every tf-idf entry are recomputed by TLC from    *)
(* the code points of the case.                                            *)
(*                                                                         *)
(* Named deviation (known finding, enabled only through Devs):             *)
(*   "min_df_truncated"  filter_vocabulary truncates min_df * n_documents  *)
(*   to an integer, so entries whose relative document frequency is below  *)
(*   min_df are kept whenever min_df * n is not an integer.  The deviation *)
(*   models exactly that: df >= floor(min_df * n).                         *)
(***************************************************************************)
EXTENDS Vectorizer, TraceIO

CONSTANT Devs

VARIABLES c, e,
          cvoc,        \* vocabulary()[..] of the fitted count vectoriser
          tvoc, tmeth, \* vocabulary and method of the current tf-idf vectoriser
          nfit,        \* number of tf-idf fits seen
          seen,        \* tags of the observations checked so far
          used         \* deviations needed so far

tvars == <<c, e, cvoc, tvoc, tmeth, nfit, seen, used>>

Case == Rec[c]
In   == Case.inp
Ev   == Case.ev[e]
Sett == In.st

TraceInit ==
  /\ c \in 1..Len(Rec) /\ e = 1
  /\ cvoc = <<>> /\ tvoc = <<>> /\ tmeth = "" /\ nfit = 0 /\ seen = {} /\ used = {}
  \* the design-model variables are not used during trace validation
  /\ st = <<>> /\ corpus = <<>> /\ test = <<>> /\ pc = "trace" /\ i = 0 /\ dfmap = <<>> /\ kept = {}
  /\ voc = <<>> /\ colmap = <<>> /\ rows = <<>>

HasEv(name) == e <= Len(Case.ev) /\ Ev.ev = name
Adv == e' = e + 1 /\ UNCHANGED <<c, vars>>

InAlphabet(s) == \A p \in 1..Len(s) : s[p] \in Alphabet
InputsOk ==
  /\ \A d \in 1..Len(In.train) : InAlphabet(In.train[d])
  /\ \A d \in 1..Len(In.test) : InAlphabet(In.test[d])
  /\ \A d \in 1..Len(Sett.stop) : InAlphabet(Sett.stop[d])
  /\ \A d \in 1..Len(Sett.vocab) : InAlphabet(Sett.vocab[d])
  /\ Sett.tok \in TokKinds /\ 1 <= Sett.nmin /\ Sett.nmin <= Sett.nmax
  /\ \A q \in 1..Len(In.methods) : In.methods[q] \in Methods

DocsOf(on) == IF on = "train" THEN In.train ELSE In.test

\* the deviation: what filter_vocabulary computes (floor of min_df * n ; the upper bound is a floor in both)
SettTrunc == [Sett EXCEPT !.dfmin = <<(Sett.dfmin[1] * Len(In.train)) \div Sett.dfmin[2], Len(In.train)>>]
VocabStrict(v) == VocabOk(Sett, TokLists(Sett, In.train), v)
VocabTrunc(v)  == Len(In.train) > 0 /\ VocabOk(SettTrunc, TokLists(Sett, In.train), v)

\* Every event is handled by exactly one action, which either explains it (and advances) or reports the
\* false clause and abandons the case (no OK line => the case is rejected).  The relation is a function of
\* the recorded values, so no search is needed; ties and orders are left open inside VocabOk / TopK.
Reject(what) ==
  /\ Fail(Case.id, <<e, Ev.ev, what>>)
  /\ e' = Len(Case.ev) + 2 /\ UNCHANGED <<c, vars, cvoc, tvoc, tmeth, nfit, seen, used>>

\* which deviations (if any) are needed to explain the fitted vocabulary v; "bad" if none does
VocabVerdict(v) ==
  IF VocabStrict(v) THEN "ok"
  ELSE IF "min_df_truncated" \in Devs /\ VocabTrunc(v) THEN "min_df_truncated"
  ELSE "bad"

FitPre == InputsOk /\ Ev.ok /\ Ev.nentries = Len(Ev.vocab)
FitWhy == IF ~InputsOk THEN "input outside the modelled alphabet"
          ELSE IF ~Ev.ok THEN "fit returned an error"
          ELSE IF Ev.nentries # Len(Ev.vocab) THEN "nentries # vocabulary length"
          ELSE IF ~NoDup(Ev.vocab) THEN "vocabulary has duplicates"
          ELSE IF Sett.fixed THEN "vocabulary differs from the given one"
          ELSE IF Sett.cap < 0 THEN "vocabulary is not the admitted set"
          ELSE "vocabulary not most-frequent admitted"
\* details for a human (work/*.out); never parsed
FitDetail(v) ==
  LET ff == FitFacts(Sett, TokLists(Sett, In.train)) IN
  PrintT(<<"DETAIL", Case.id, "admitted (entry, df)", {<<g, ff.df[g]>> : g \in ff.adm}, "observed", Range(v)>>)

\* informational (evidence only): which reading of "most frequent" explains a capped vocabulary
CapNote(v) ==
  LET ff == FitFacts(Sett, TokLists(Sett, In.train)) IN
  PrintT(<<"CAPREAD", Case.id, CapOkDf(Sett, ff, Range(v)), CapOkTf(Sett, ff, Range(v))>>)

TFitCount ==
  /\ HasEv("fit") /\ Ev.api = "count"
  /\ LET vd == IF FitPre THEN VocabVerdict(Ev.vocab) ELSE "bad" IN
     IF vd = "bad" THEN (FitPre => FitDetail(Ev.vocab)) /\ Reject(FitWhy)
     ELSE /\ cvoc' = Ev.vocab
          /\ used' = IF vd = "ok" THEN used ELSE used \cup {vd}
          /\ (vd = "ok" /\ Sett.cap >= 0 /\ ~Sett.fixed) => CapNote(Ev.vocab)
          /\ seen' = seen \cup {"fit:count"}
          /\ Adv /\ UNCHANGED <<tvoc, tmeth, nfit>>

CountWhy(v, docs, m) ==
  IF Len(m) # Len(docs) THEN "row count"
  ELSE IF \E d \in 1..Len(m) : Len(m[d]) # Len(v) THEN "column count"
  ELSE "count differs from the recount"
CountDetail(v, docs, m) ==
  Len(m) = Len(docs) /\ (\A d \in 1..Len(m) : Len(m[d]) = Len(v)) =>
    PrintT(<<"DETAIL", Case.id, "(doc, column, entry, observed, recount)",
             {<<d, j, v[j], m[d][j], Count(DocToks(Sett, docs[d]), Sett.nmin, Sett.nmax, v[j])>> :
                 <<d, j>> \in {x \in (1..Len(docs)) \X (1..Len(v)) :
                                m[x[1]][x[2]] # Count(DocToks(Sett, docs[x[1]]), Sett.nmin, Sett.nmax, v[x[2]])}}>>)

TCount ==
  /\ HasEv("count")
  /\ IF ~("fit:count" \in seen /\ Ev.ok /\ Ev.on \in {"train", "test"}) THEN Reject("transform failed or came before fit")
     ELSE IF ~(Ev.rows = Len(DocsOf(Ev.on)) /\ Ev.cols = Len(cvoc)) THEN Reject("matrix shape")
     ELSE IF ~CountOk(Sett, cvoc, DocsOf(Ev.on), Ev.m)
          THEN CountDetail(cvoc, DocsOf(Ev.on), Ev.m) /\ Reject(CountWhy(cvoc, DocsOf(Ev.on), Ev.m))
     ELSE /\ seen' = seen \cup {"count:" \o Ev.on}
          /\ Adv /\ UNCHANGED <<cvoc, tvoc, tmeth, nfit, used>>

TFitTfidf ==
  /\ HasEv("fit") /\ Ev.api = "tfidf"
  /\ LET pre == FitPre /\ nfit + 1 <= Len(In.methods) /\ Ev.method = In.methods[nfit + 1]   \* the method that was asked for
         vd  == IF pre THEN VocabVerdict(Ev.vocab) ELSE "bad" IN
     IF vd = "bad" THEN (pre => FitDetail(Ev.vocab)) /\ Reject(IF FitPre /\ ~pre THEN "idf method # requested one" ELSE FitWhy)
     ELSE /\ tvoc' = Ev.vocab /\ tmeth' = Ev.method /\ nfit' = nfit + 1
          /\ used' = IF vd = "ok" THEN used ELSE used \cup {vd}
          /\ seen' = seen \cup {"fit:" \o Ev.method}
          /\ Adv /\ UNCHANGED <<cvoc>>

TTfidf ==
  /\ HasEv("tfidf")
  /\ IF ~(nfit >= 1 /\ Ev.ok /\ Ev.method = tmeth /\ Ev.on \in {"train", "test"}) THEN Reject("transform failed or came before fit")
     ELSE IF ~(Ev.rows = Len(DocsOf(Ev.on)) /\ Ev.cols = Len(tvoc)) THEN Reject("matrix shape")
     ELSE IF ~Ev.finite THEN Reject("non-finite tf-idf entry")
     ELSE IF ~TfIdfOk(Sett, tmeth, tvoc, DocsOf(Ev.on), Ev.m) THEN Reject("tf-idf entry # count * idf")
     ELSE /\ seen' = seen \cup {"tfidf:" \o tmeth \o ":" \o Ev.on}
          /\ Adv /\ UNCHANGED <<cvoc, tvoc, tmeth, nfit, used>>

\* compute_idf alone; "nonsmooth" with df = 0 is documented as a division by zero (left unspecified)
IdfOk ==
  /\ Case.kind = "idf" /\ Ev.method \in Methods
  /\ In.n >= 1 /\ In.df >= 0 /\ In.n + 1 <= 1024
  /\ \/ Ev.method = "nonsmooth" /\ In.df = 0
     \/ /\ ~(Ev.method = "nonsmooth" /\ In.df = 0)
        /\ Ev.finite
        /\ Abs(Ev.v - IdfS(Ev.method, In.n, In.df)) <= ElemErr + 1
TIdf ==
  /\ HasEv("idf")
  /\ IF ~IdfOk THEN Reject("idf # documented formula")
     ELSE /\ seen' = seen \cup {"idf:" \o Ev.method}
          /\ Adv /\ UNCHANGED <<cvoc, tvoc, tmeth, nfit, used>>

Expected ==
  IF Case.kind = "idf" THEN {"idf:" \o m : m \in Methods}
  ELSE {"fit:count", "count:train", "count:test"}
       \cup UNION {{"fit:" \o In.methods[q], "tfidf:" \o In.methods[q] \o ":train", "tfidf:" \o In.methods[q] \o ":test"} :
                     q \in 1..Len(In.methods)}

\* the harness closes every case with "end": every expected observation must have been made and explained
TEnd ==
  /\ HasEv("end")
  /\ IF seen # Expected THEN Reject("observations missing")
     ELSE Adv /\ UNCHANGED <<cvoc, tvoc, tmeth, nfit, seen, used>>

\* anything else (a panic of the code under test, an unknown event) is not explained by the specification
TOther ==
  /\ e <= Len(Case.ev)
  /\ Ev.ev \notin {"fit", "count", "tfidf", "idf", "end"}
  /\ Reject("event not explained by any action")

Accept ==
  /\ e = Len(Case.ev) + 1
  /\ Len(Case.ev) > 0 /\ Case.ev[Len(Case.ev)].ev = "end"
  /\ IF used = {} THEN Ok(Case.id) ELSE OkDev(Case.id, SomeOrder(used))
  /\ e' = e + 1 /\ UNCHANGED <<c, vars, cvoc, tvoc, tmeth, nfit, seen, used>>

TraceNext == TFitCount \/ TCount \/ TFitTfidf \/ TTfidf \/ TIdf \/ TEnd \/ TOther \/ Accept
=============================================================================
