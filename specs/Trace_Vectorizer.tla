------------------------- MODULE Trace_Vectorizer -------------------------
(***************************************************************************)
(* C17 trace validation.  Events are what the real CountVectorizer /       *)
(* TfIdfVectorizer returned:                                               *)
(*   fit(api=count)   vocabulary(), nentries()                             *)
(*   count(on)        dense transform() of a corpus                        *)
(*   fit(api=tfidf)   one fit per idf method (own column order)            *)
(*   tfidf(on)        dense transform(), entries as round(v * 10^4)        *)
(*   idf              TfIdfMethod::compute_idf(n, df) (kind "idf")         *)
(*   check            ParamGuard::check_ref of a builder (kind "hist")     *)
(* kind "vec": one fresh builder with settings inp.st fitted on inp.train. *)
(* kind "hist": a HISTORY -- a builder is used once with settings inp.st1  *)
(* (check_ref, or a fit on inp.train1), then re-configured through its     *)
(* setters (same value or clone) to inp.st and fitted on inp.train; with a *)
(* clone the original is fitted on inp.train once more.  Every fit event   *)
(* names the settings (cfg "s1"/"s2") and the corpus it was made with; the *)
(* specification keeps the settings *in force* for each fitted vectoriser  *)
(* as state and judges every fit exactly like that of a fresh builder with *)
(* those settings -- whatever the builder went through before.             *)
(* Every event is checked with the relations of Vectorizer.tla (part 1):   *)
(* VocabOk, CountOk, TfIdfOk, IdfS.  The column order is taken from the    *)
(* implementation (column j refers to vocabulary()[j]); the vocabulary as  *)
(* a set, every count and every tf-idf entry are recomputed by TLC from    *)
(* the code points of the case.                                            *)
(*                                                                         *)
(* Named deviations (known findings, enabled only through Devs):           *)
(*   "min_df_truncated"  (repaired in a72e9b0) filter_vocabulary truncated *)
(*   min_df * n_documents: df >= floor(min_df * n).                        *)
(*   "tokenizer_fn_sticky"  CountVectorizerParams::tokenizer(Regex(..))    *)
(*   does not clear a function tokenizer set earlier, and the function     *)
(*   wins: a builder that ever had Tokenizer::Function keeps tokenising    *)
(*   with it.  The deviation models exactly that: settings s2 with the     *)
(*   tokeniser of s1 when s1 used the function tokeniser.                  *)
(***************************************************************************)
EXTENDS Vectorizer, TraceIO

CONSTANT Devs

VARIABLES c, e,
          cvoc, cset,          \* count vectoriser: vocabulary()[..], settings in force
          tvoc, tset, tmeth,   \* current tf-idf vectoriser: vocabulary, settings in force, method
          ctag, ttag,          \* configuration tag ("s1"/"s2") of the two fitted vectorisers
          nfit,                \* number of tf-idf fits seen
          seen,                \* tags of the observations checked so far
          used                 \* deviations needed so far

tvars == <<c, e, cvoc, cset, tvoc, tset, tmeth, ctag, ttag, nfit, seen, used>>

Case == Rec[c]
In   == Case.inp
Ev   == Case.ev[e]
IsHist == Case.kind = "hist"

TraceInit ==
  /\ c \in 1..Len(Rec) /\ e = 1
  /\ cvoc = <<>> /\ cset = <<>> /\ tvoc = <<>> /\ tset = <<>> /\ tmeth = ""
  /\ ctag = "" /\ ttag = "" /\ nfit = 0 /\ seen = {} /\ used = {}
  \* the design-model variables are not used during trace validation
  /\ st = <<>> /\ corpus = <<>> /\ test = <<>> /\ pc = "trace" /\ i = 0 /\ dfmap = <<>> /\ kept = {}
  /\ voc = <<>> /\ colmap = <<>> /\ rows = <<>>

HasEv(name) == e <= Len(Case.ev) /\ Ev.ev = name
Adv == e' = e + 1 /\ UNCHANGED <<c, vars>>

InAlphabet(s) == \A p \in 1..Len(s) : s[p] \in Alphabet
DocsIn(docs) == \A d \in 1..Len(docs) : InAlphabet(docs[d])
SettIn(stt) == /\ DocsIn(stt.stop) /\ DocsIn(stt.vocab)
               /\ stt.tok \in TokKinds /\ 1 <= stt.nmin /\ stt.nmin <= stt.nmax
InputsOk ==
  /\ DocsIn(In.train) /\ DocsIn(In.test) /\ SettIn(In.st)
  /\ IsHist => DocsIn(In.train1) /\ SettIn(In.st1)
  /\ \A q \in 1..Len(In.methods) : In.methods[q] \in Methods

\* corpus by name; settings and training corpus a fit event was made with
Corp(name) == CASE name = "train" -> In.train [] name = "test" -> In.test [] name = "train1" -> In.train1
CorpNames == IF IsHist THEN {"train", "test", "train1"} ELSE {"train", "test"}
EvCfg    == IF IsHist THEN Ev.cfg ELSE "s2"
EvCorpus == IF IsHist THEN Ev.corpus ELSE "train"
EvTagsOk == IsHist => Ev.cfg \in {"s1", "s2"} /\ Ev.corpus \in {"train", "train1"}
SettOf(cfg) == IF cfg = "s1" THEN In.st1 ELSE In.st

\* Every event is handled by exactly one action, which either explains it (and advances) or reports the
\* false clause and abandons the case (no OK line => the case is rejected).  The relation is a function of
\* the recorded values, so no search is needed; ties and orders are left open inside VocabOk / TopK.
Reject(what) ==
  /\ Fail(Case.id, <<e, Ev.ev, what>>)
  /\ e' = Len(Case.ev) + 2 /\ UNCHANGED <<c, vars, cvoc, cset, tvoc, tset, tmeth, ctag, ttag, nfit, seen, used>>

\* the deviations: settings that describe what the defective code computes
Trunc(stt, docs) == [stt EXCEPT !.dfmin = <<(stt.dfmin[1] * Len(docs)) \div stt.dfmin[2], Len(docs)>>]
StickyApplies(cfg) == IsHist /\ cfg = "s2" /\ In.st1.tok = "fn_ws" /\ In.st.tok # "fn_ws"
Sticky(stt) == [stt EXCEPT !.tok = "fn_ws"]

\* which deviation (if any) is needed to explain the fitted vocabulary v; "bad" if none does
VocabVerdict(stt, cfg, docs, v) ==
  IF VocabOk(stt, TokLists(stt, docs), v) THEN "ok"
  ELSE IF "min_df_truncated" \in Devs /\ Len(docs) > 0 /\ VocabOk(Trunc(stt, docs), TokLists(stt, docs), v)
       THEN "min_df_truncated"
  ELSE IF "tokenizer_fn_sticky" \in Devs /\ StickyApplies(cfg) /\ VocabOk(Sticky(stt), TokLists(Sticky(stt), docs), v)
       THEN "tokenizer_fn_sticky"
  ELSE "bad"
\* settings that govern the following transforms of that vectoriser
InForce(stt, vd) == IF vd = "tokenizer_fn_sticky" THEN Sticky(stt) ELSE stt

FitPre == InputsOk /\ EvTagsOk /\ Ev.ok /\ Ev.nentries = Len(Ev.vocab)
FitWhy(stt) ==
          IF ~InputsOk THEN "input outside the modelled alphabet"
          ELSE IF ~EvTagsOk THEN "unknown configuration tag"
          ELSE IF ~Ev.ok THEN "fit returned an error"
          ELSE IF Ev.nentries # Len(Ev.vocab) THEN "nentries # vocabulary length"
          ELSE IF ~NoDup(Ev.vocab) THEN "vocabulary has duplicates"
          ELSE IF stt.fixed THEN "vocabulary differs from the given one"
          ELSE IF stt.cap < 0 THEN "vocabulary is not the admitted set"
          ELSE "vocabulary not most-frequent admitted"
\* details for a human (work/*.out); never parsed
FitDetail(stt, docs, v) ==
  LET ff == FitFacts(stt, TokLists(stt, docs)) IN
  PrintT(<<"DETAIL", Case.id, EvCfg, "admitted (entry, df)", {<<g, ff.df[g]>> : g \in ff.adm}, "observed", Range(v)>>)

\* informational (evidence only): which reading of "most frequent" explains a capped vocabulary
CapNote(stt, docs, v) ==
  LET ff == FitFacts(stt, TokLists(stt, docs)) IN
  PrintT(<<"CAPREAD", Case.id, CapOkDf(stt, ff, Range(v)), CapOkTf(stt, ff, Range(v))>>)

TFitCount ==
  /\ HasEv("fit") /\ Ev.api = "count"
  /\ LET stt  == SettOf(EvCfg)
         docs == Corp(EvCorpus)
         vd   == IF FitPre THEN VocabVerdict(stt, EvCfg, docs, Ev.vocab) ELSE "bad" IN
     IF vd = "bad" THEN (FitPre => FitDetail(stt, docs, Ev.vocab)) /\ Reject(FitWhy(IF InputsOk /\ EvTagsOk THEN stt ELSE In.st))
     ELSE /\ cvoc' = Ev.vocab /\ cset' = InForce(stt, vd) /\ ctag' = EvCfg
          /\ used' = IF vd = "ok" THEN used ELSE used \cup {vd}
          /\ (vd = "ok" /\ ~IsHist /\ stt.cap >= 0 /\ ~stt.fixed) => CapNote(stt, docs, Ev.vocab)
          /\ seen' = seen \cup {"fit:count:" \o EvCfg \o ":" \o EvCorpus}
          /\ Adv /\ UNCHANGED <<tvoc, tset, tmeth, ttag, nfit>>

CountWhy(v, docs, m) ==
  IF Len(m) # Len(docs) THEN "row count"
  ELSE IF \E d \in 1..Len(m) : Len(m[d]) # Len(v) THEN "column count"
  ELSE "count differs from the recount"
CountDetail(stt, v, docs, m) ==
  Len(m) = Len(docs) /\ (\A d \in 1..Len(m) : Len(m[d]) = Len(v)) =>
    PrintT(<<"DETAIL", Case.id, "(doc, column, entry, observed, recount)",
             {<<d, j, v[j], m[d][j], Count(DocToks(stt, docs[d]), stt.nmin, stt.nmax, v[j])>> :
                 <<d, j>> \in {x \in (1..Len(docs)) \X (1..Len(v)) :
                                m[x[1]][x[2]] # Count(DocToks(stt, docs[x[1]]), stt.nmin, stt.nmax, v[x[2]])}}>>)

TCount ==
  /\ HasEv("count")
  /\ IF ~(ctag # "" /\ Ev.ok /\ Ev.on \in CorpNames) THEN Reject("transform failed or came before fit")
     ELSE IF ~(Ev.rows = Len(Corp(Ev.on)) /\ Ev.cols = Len(cvoc)) THEN Reject("matrix shape")
     ELSE IF ~CountOk(cset, cvoc, Corp(Ev.on), Ev.m)
          THEN CountDetail(cset, cvoc, Corp(Ev.on), Ev.m) /\ Reject(CountWhy(cvoc, Corp(Ev.on), Ev.m))
     ELSE /\ seen' = seen \cup {"count:" \o ctag \o ":" \o Ev.on}
          /\ Adv /\ UNCHANGED <<cvoc, cset, tvoc, tset, tmeth, ctag, ttag, nfit, used>>

TFitTfidf ==
  /\ HasEv("fit") /\ Ev.api = "tfidf"
  /\ LET stt  == SettOf(EvCfg)
         docs == Corp(EvCorpus)
         \* the method that was asked for (vec: the next of inp.methods ; hist: the builder default)
         pre  == FitPre /\ IF IsHist THEN Ev.method = "smooth"
                           ELSE nfit + 1 <= Len(In.methods) /\ Ev.method = In.methods[nfit + 1]
         vd   == IF pre THEN VocabVerdict(stt, EvCfg, docs, Ev.vocab) ELSE "bad" IN
     IF vd = "bad" THEN (pre => FitDetail(stt, docs, Ev.vocab))
                        /\ Reject(IF FitPre /\ ~pre THEN "idf method # requested one" ELSE FitWhy(IF InputsOk /\ EvTagsOk THEN stt ELSE In.st))
     ELSE /\ tvoc' = Ev.vocab /\ tset' = InForce(stt, vd) /\ tmeth' = Ev.method /\ ttag' = EvCfg /\ nfit' = nfit + 1
          /\ used' = IF vd = "ok" THEN used ELSE used \cup {vd}
          /\ seen' = seen \cup {"fit:" \o Ev.method \o ":" \o EvCfg \o ":" \o EvCorpus}
          /\ Adv /\ UNCHANGED <<cvoc, cset, ctag>>

TTfidf ==
  /\ HasEv("tfidf")
  /\ IF ~(nfit >= 1 /\ Ev.ok /\ Ev.method = tmeth /\ Ev.on \in CorpNames) THEN Reject("transform failed or came before fit")
     ELSE IF ~(Ev.rows = Len(Corp(Ev.on)) /\ Ev.cols = Len(tvoc)) THEN Reject("matrix shape")
     ELSE IF ~Ev.finite THEN Reject("non-finite tf-idf entry")
     ELSE IF ~TfIdfOk(tset, tmeth, tvoc, Corp(Ev.on), Ev.m) THEN Reject("tf-idf entry # count * idf")
     ELSE /\ seen' = seen \cup {"tfidf:" \o tmeth \o ":" \o ttag \o ":" \o Ev.on}
          /\ Adv /\ UNCHANGED <<cvoc, cset, tvoc, tset, tmeth, ctag, ttag, nfit, used>>

\* hist: the first use of the builder may be a bare check_ref; valid settings must be accepted
TCheck ==
  /\ HasEv("check")
  /\ IF ~(IsHist /\ Ev.ok) THEN Reject("check_ref rejected valid settings")
     ELSE /\ seen' = seen \cup {"check"}
          /\ Adv /\ UNCHANGED <<cvoc, cset, tvoc, tset, tmeth, ctag, ttag, nfit, used>>

\* compute_idf alone; "nonsmooth" with df = 0 is documented as a division by zero (left unspecified)
IdfOk ==
  /\ Case.kind = "idf" /\ Ev.method \in Methods
  /\ In.n >= 1 /\ In.df >= 0 /\ In.n + 1 <= 1024
  /\ \/ Ev.method = "nonsmooth" /\ In.df = 0
     \/ /\ ~(Ev.method = "nonsmooth" /\ In.df = 0)
        /\ Ev.finite
        /\ Abs(Ev.v - IdfS(Ev.method, In.n, In.df)) <= ElemErr + 1
TIdf ==
  /\ HasEv("idf")
  /\ IF ~IdfOk THEN Reject("idf # documented formula")
     ELSE /\ seen' = seen \cup {"idf:" \o Ev.method}
          /\ Adv /\ UNCHANGED <<cvoc, cset, tvoc, tset, tmeth, ctag, ttag, nfit, used>>

\* observations a complete case must contain
ExpVec ==
  {"fit:count:s2:train", "count:s2:train", "count:s2:test"}
  \cup UNION {{"fit:" \o In.methods[q] \o ":s2:train", "tfidf:" \o In.methods[q] \o ":s2:train", "tfidf:" \o In.methods[q] \o ":s2:test"} :
                q \in 1..Len(In.methods)}
ExpHist ==
  LET fitp == IF In.api = "count" THEN "fit:count" ELSE "fit:smooth"
      trp  == IF In.api = "count" THEN "count" ELSE "tfidf:smooth" IN
  (IF In.first = "check_ref" THEN {"check"} ELSE {fitp \o ":s1:train1", trp \o ":s1:train1"})
  \cup {fitp \o ":s2:train", trp \o ":s2:train", trp \o ":s2:test"}
  \cup (IF In.via = "clone" THEN {fitp \o ":s1:train", trp \o ":s1:test"} ELSE {})
Expected ==
  IF Case.kind = "idf" THEN {"idf:" \o m : m \in Methods}
  ELSE IF IsHist THEN ExpHist
  ELSE ExpVec

\* the harness closes every case with "end": every expected observation must have been made and explained
TEnd ==
  /\ HasEv("end")
  /\ IF seen # Expected THEN Reject("observations missing")
     ELSE Adv /\ UNCHANGED <<cvoc, cset, tvoc, tset, tmeth, ctag, ttag, nfit, seen, used>>

\* anything else (a panic of the code under test, an unknown event) is not explained by the specification
TOther ==
  /\ e <= Len(Case.ev)
  /\ Ev.ev \notin {"fit", "count", "tfidf", "idf", "check", "end"}
  /\ Reject("event not explained by any action")

Accept ==
  /\ e = Len(Case.ev) + 1
  /\ Len(Case.ev) > 0 /\ Case.ev[Len(Case.ev)].ev = "end"
  /\ IF used = {} THEN Ok(Case.id) ELSE OkDev(Case.id, SomeOrder(used))
  /\ e' = e + 1 /\ UNCHANGED <<c, vars, cvoc, cset, tvoc, tset, tmeth, ctag, ttag, nfit, seen, used>>

TraceNext == TFitCount \/ TCount \/ TFitTfidf \/ TTfidf \/ TCheck \/ TIdf \/ TEnd \/ TOther \/ Accept
=============================================================================
