---------------------------- MODULE Gen_Metrics ----------------------------
(* Case generator for C05.  Every initial state is one case [kind, inp]; TLC prints it as JSON.   *)
(*   cm   : all pairs of label vectors of length 1..CmLen over 0..CmAlpha-1, and all binary pairs  *)
(*          up to length CmBinLen (labels present on one side only are included by construction)   *)
(*   roc  : all score vectors num/RocDen, num in 0..RocDen (ties, boundary scores 0 and 1), with   *)
(*          every truth assignment in which both classes occur, length 2..RocLen                   *)
(*   reg  : all pairs of lattice vectors over -RegNeg..RegHi of length 1..RegLen                     *)
(*   mreg : two target columns: first column pair from the full lattice, second from a fixed set   *)
(*   sil  : non-decreasing positions 0..SilPos (length SilMinLen..SilLen) with every labelling into *)
(*          k in SilKs clusters (names in order of first use) that each hold >= 2 distinct points  *)
(*   pear : all matrices of PearRows x PearCols over 0..PearHi with non-constant columns           *)
(*   reg (long, tag "reglong"): lattice vectors of the lengths in RegLongLens (above the cut-off   *)
(*          below which selection/sorting routines fall back to insertion sort) built by formula:  *)
(*          all absolute errors distinct / repeated magnitudes with both signs / mostly zero /     *)
(*          ties around the median; the permutation is the reversal                                *)
(*   regs : regression vectors with a large common offset (f32: 2^11, 2^16, 2^20; f64: 1e6, 1e9,     *)
(*          2^40) and integer or 1/8 spreads -- exactly representable, ill-conditioned for          *)
(*          uncentered formulas; the oracle works on the un-shifted integers (shift invariance)     *)
(*   sil (wide, tag "silwide"): 3 and 4 clusters of unequal sizes where the other cluster with the     *)
(*          smallest total distance differs from the one with the smallest mean distance            *)
(*   pear (wide, tag "pearwide"): 4..6 columns chosen from a pool of eight (see PearPool)            *)
(*   rocu : scores that are neighbouring f32 values: the case carries integer ranks and a base,    *)
(*          the harness maps rank r to 1/2 + r 2^-24 ("half"), r 2^-30 ("zero"), 1 - r 2^-24       *)
(*          ("one", order reversed) -- all exactly representable, gaps >= 9e-10 (well above the    *)
(*          1e-10 below which linfa merges scores); AUC is a rank statistic, so the oracle only    *)
(*          uses the order and ties of the ranks                                                   *)
(* `perm` is one permutation (rotation) the harness applies to all per-sample vectors together.    *)
EXTENDS Naturals, Integers, Sequences, FiniteSets, TLC, Json

CONSTANTS Kinds,
          CmLen, CmAlpha, CmBinLen,
          RocLen, RocDen,
          RegLen, RegNeg, RegHi,
          SilMinLen, SilLen, SilPos, SilKs,
          PearRows, PearCols, PearHi,
          PearWideCols,            \* numbers of columns of the wide Pearson matrices (kind tag "pearwide")
          RegsLens,                \* lengths of the offset-family regression vectors (kind "regs")
          RegLongLens,             \* lengths of the long regression vectors (kind tag "reglong")
          RocuLen, RocuRank        \* ulp-neighbour scores: ranks 0..RocuRank, length 2..RocuLen

VARIABLE case

Vecs(nn, lo, hi) == [1..nn -> lo..hi]
Rot(nn) == [q \in 1..nn |-> IF q = nn THEN 1 ELSE q + 1]
Range(sq) == {sq[q] : q \in 1..Len(sq)}
NonDecr(sq) == \A q \in 1..(Len(sq) - 1) : sq[q] <= sq[q + 1]

CmCase(pv, tv) == [kind |-> "cm", inp |-> [pred |-> pv, truth |-> tv, perm |-> Rot(Len(pv))]]
InitCm ==
  \/ \E nn \in 1..CmLen : \E pv \in Vecs(nn, 0, CmAlpha - 1), tv \in Vecs(nn, 0, CmAlpha - 1) : case = CmCase(pv, tv)
  \/ \E nn \in (CmLen + 1)..CmBinLen : \E pv \in Vecs(nn, 0, 1), tv \in Vecs(nn, 0, 1) : case = CmCase(pv, tv)

InitRoc ==
  \E nn \in 2..RocLen : \E sv \in Vecs(nn, 0, RocDen), tv \in Vecs(nn, 0, 1) :
    /\ Range(tv) = {0, 1}
    /\ case = [kind |-> "roc", inp |-> [num |-> sv, den |-> RocDen, truth |-> tv, perm |-> Rot(nn)]]

InitReg ==
  \E nn \in 1..RegLen : \E uv \in Vecs(nn, -RegNeg, RegHi), wv \in Vecs(nn, -RegNeg, RegHi) :
    case = [kind |-> "reg", inp |-> [a |-> uv, b |-> wv, perm |-> Rot(nn)]]

\* second target column: a fixed set of (prediction, truth) pairs incl. equal, shifted, zero entries
SecondCols == {<<<<1, 2>>, <<1, 2>>>>, <<<<0, 2>>, <<1, 0>>>>, <<<<3, 1>>, <<2, 2>>>>, <<<<2, 3>>, <<1, 2>>>>}
InitMreg ==
  \E uv \in Vecs(2, 0, 2), wv \in Vecs(2, 0, 2), sc \in SecondCols :
    case = [kind |-> "mreg", inp |-> [a |-> <<uv, sc[1]>>, b |-> <<wv, sc[2]>>, perm |-> Rot(2)]]

\* cluster names are irrelevant (checked in the design model): labels appear in order of first use
FirstUseOrder(lv) == lv[1] = 0 /\ \A q \in 2..Len(lv) : \E r \in 1..(q - 1) : lv[q] <= lv[r] + 1
SilOk(xv, lv, kk) ==
  /\ Range(lv) = 0..(kk - 1)
  /\ FirstUseOrder(lv)
  /\ \A cl \in 0..(kk - 1) : Cardinality({xv[q] : q \in {r \in 1..Len(lv) : lv[r] = cl}}) >= 2
InitSil ==
  \E nn \in SilMinLen..SilLen : \E xv \in Vecs(nn, 0, SilPos) :
    /\ NonDecr(xv)
    /\ \E kk \in SilKs : \E lv \in Vecs(nn, 0, kk - 1) :
         /\ SilOk(xv, lv, kk)
         /\ case = [kind |-> "sil", inp |-> [pos |-> xv, lab |-> lv, perm |-> Rot(nn)]]

\* 3 and 4 clusters of UNEQUAL sizes on a line (generator tag "silwide"): cluster c holds sizes[c] consecutive integer
\* positions, separated from the previous cluster by gaps[c]; kept only if for some sample the other cluster with the
\* smallest TOTAL distance is not the one with the smallest MEAN distance (strictly), i.e. the "nearest cluster" of the
\* silhouette must be chosen by the mean -- with equal sizes or two clusters the two choices coincide.
RECURSIVE SumTo(_, _)
SumTo(sq, c) == IF c = 0 THEN 0 ELSE sq[c] + SumTo(sq, c - 1)
WideStart(sizes, gaps, c) == SumTo(sizes, c - 1) + SumTo(gaps, c - 1)       \* gaps[c] precedes cluster c + 1
WidePos(sizes, gaps) ==
  [q \in 1..SumTo(sizes, Len(sizes)) |->
     LET c == CHOOSE cc \in 1..Len(sizes) : SumTo(sizes, cc - 1) < q /\ q <= SumTo(sizes, cc)
     IN WideStart(sizes, gaps, c) + (q - SumTo(sizes, c - 1) - 1)]
WideLab(sizes) ==
  [q \in 1..SumTo(sizes, Len(sizes)) |->
     (CHOOSE cc \in 1..Len(sizes) : SumTo(sizes, cc - 1) < q /\ q <= SumTo(sizes, cc)) - 1]
AbsD(x, y) == IF x < y THEN y - x ELSE x - y
TotTo(xv, lv, i, cl) == LET idx == {q \in 1..Len(xv) : lv[q] = cl}
                            RECURSIVE Acc(_)
                            Acc(ss) == IF ss = {} THEN 0 ELSE LET q == CHOOSE q \in ss : TRUE IN AbsD(xv[i], xv[q]) + Acc(ss \ {q})
                        IN Acc(idx)
CntOf(lv, cl) == Cardinality({q \in 1..Len(lv) : lv[q] = cl})
TotalMeanDisagree(xv, lv) ==
  \E i \in 1..Len(xv) : \E cj, ck \in Range(lv) \ {lv[i]} :
    /\ cj # ck
    /\ \A cm \in Range(lv) \ {lv[i], cj} : TotTo(xv, lv, i, cj) < TotTo(xv, lv, i, cm)          \* cj: strictly smallest total
    /\ TotTo(xv, lv, i, ck) * CntOf(lv, cj) < TotTo(xv, lv, i, cj) * CntOf(lv, ck)             \* ck: strictly smaller mean
InitSilWide ==
  \E kk \in {3, 4} :
  \E sizes \in [1..kk -> IF kk = 3 THEN {2, 3, 5} ELSE {2, 4}], gaps \in [1..kk -> IF kk = 3 THEN {1, 2, 4, 7} ELSE {1, 4}] :
    /\ gaps[kk] = 1                                                                          \* unused last gap
    /\ \E c \in 2..kk : sizes[c] # sizes[1]
    /\ TotalMeanDisagree(WidePos(sizes, gaps), WideLab(sizes))
    /\ case = [kind |-> "sil", inp |-> [pos |-> WidePos(sizes, gaps), lab |-> WideLab(sizes),
                                        perm |-> Rot(SumTo(sizes, kk))]]

NonConst(cv) == \E q \in 1..Len(cv) : cv[q] # cv[1]
InitPear ==
  \E cs \in [1..PearCols -> {cv \in Vecs(PearRows, 0, PearHi) : NonConst(cv)}] :
    case = [kind |-> "pear", inp |-> [cols |-> cs, perm |-> Rot(PearRows)]]

\* wide matrices (4..6 columns, 6 rows): every subset of a pool of eight integer columns with pairwise
\* different correlations, in pool order and in reverse order -- from four columns on the row-major
\* upper triangle (0,1),(0,2),(0,3),(1,2).. differs from any other packing of the same coefficients
PearPool == << <<0, 1, 2, 3, 4, 5>>, <<0, 1, 4, 9, 16, 25>>, <<5, 3, 4, 1, 2, 0>>, <<1, 0, 1, 0, 1, 0>>,
               <<0, 0, 0, 1, 1, 3>>, <<2, 7, 1, 8, 2, 8>>, <<3, 1, 4, 1, 5, 9>>, <<0, 2, 0, -1, 3, 1>> >>
RECURSIVE AscSeq(_)
AscSeq(ss) == IF ss = {} THEN <<>> ELSE LET mn == CHOOSE x \in ss : \A y \in ss : x <= y IN <<mn>> \o AscSeq(ss \ {mn})
InitPearWide ==
  \E ss \in SUBSET (1..Len(PearPool)) : \E rv \in {FALSE, TRUE} :
    /\ Cardinality(ss) \in PearWideCols
    /\ LET ix == AscSeq(ss)  mm == Len(ix)
       IN case = [kind |-> "pear",
                  inp |-> [cols |-> [p \in 1..mm |-> PearPool[ix[IF rv THEN mm + 1 - p ELSE p]]], perm |-> Rot(6)]]

\* offset families: the values fed to linfa are  off + a[q]/unit  and  off + b[q]/unit  in float type ft, all exactly
\* representable (off a large integer, unit a power of two); g is such that (unit roundoff of ft) * off <= 2^-g.
\* sc spreads the integers so that a backward-stable evaluation keeps (n u off / std)^2 small.
OffFamilies ==
  { [ft |-> "f32", off |-> "2048", g |-> 13, unit |-> 1, sc |-> 1],
    [ft |-> "f32", off |-> "2048", g |-> 13, unit |-> 8, sc |-> 1],            \* 2048 + 0.125 k
    [ft |-> "f32", off |-> "65536", g |-> 8, unit |-> 1, sc |-> 2],
    [ft |-> "f32", off |-> "65536", g |-> 8, unit |-> 8, sc |-> 8],
    [ft |-> "f32", off |-> "1048576", g |-> 4, unit |-> 1, sc |-> 8],          \* 2^20
    [ft |-> "f32", off |-> "1048576", g |-> 4, unit |-> 8, sc |-> 64],
    [ft |-> "f64", off |-> "1000000", g |-> 33, unit |-> 1, sc |-> 1],
    [ft |-> "f64", off |-> "1000000", g |-> 33, unit |-> 8, sc |-> 1],
    [ft |-> "f64", off |-> "1000000000", g |-> 23, unit |-> 1, sc |-> 1],      \* 1e9 + k
    [ft |-> "f64", off |-> "1000000000", g |-> 23, unit |-> 8, sc |-> 1],
    [ft |-> "f64", off |-> "1099511627776", g |-> 13, unit |-> 1, sc |-> 1],   \* 2^40
    [ft |-> "f64", off |-> "1099511627776", g |-> 13, unit |-> 8, sc |-> 1] }
RegsTruths(nn) == { [q \in 1..nn |-> q - 1], [q \in 1..nn |-> (q * 3) % 10], [q \in 1..nn |-> (q * q) % 7] }
RegsErrors(nn) == { [q \in 1..nn |-> IF q % 2 = 0 THEN 2 ELSE -2], [q \in 1..nn |-> ((q * 5) % 4) - 1],
                    [q \in 1..nn |-> IF q = 1 THEN 3 ELSE 0] }
InitRegs ==
  \E nn \in RegsLens : \E fam \in OffFamilies, kv \in RegsTruths(nn), ev \in RegsErrors(nn) :
    case = [kind |-> "regs",
            inp |-> [a |-> [q \in 1..nn |-> fam.sc * (kv[q] + ev[q])], b |-> [q \in 1..nn |-> fam.sc * kv[q]],
                     unit |-> fam.unit, ft |-> fam.ft, off |-> fam.off, g |-> fam.g, perm |-> Rot(nn)]]

\* long regression vectors: b = truth, a = prediction = b + d for an error pattern d
Rev(nn) == [q \in 1..nn |-> nn + 1 - q]
LongPatterns(nn) ==
  \* all absolute errors distinct (q * mul mod 53 is injective on 1..52) in several orders, truth 0..3,
  \* over-, under- and alternating predictions
  { [b |-> [q \in 1..nn |-> (q * 3) % 4], d |-> [q \in 1..nn |-> (q * mul) % 53]] : mul \in {13, 19, 29, 41} } \cup
  { [b |-> [q \in 1..nn |-> (q * 3) % 4], d |-> [q \in 1..nn |-> -((q * mul) % 53)]] : mul \in {17, 31} } \cup
  { [b |-> [q \in 1..nn |-> (q * 3) % 4], d |-> [q \in 1..nn |-> (IF q % 2 = 0 THEN 1 ELSE -1) * ((q * mul) % 53)]] : mul \in {23, 37} } \cup
  { \* repeated magnitudes with both signs, prediction stays positive
    [b |-> [q \in 1..nn |-> (q % 3) + 4], d |-> [q \in 1..nn |-> ((q * 5) % 7) - 3]],
    \* mostly exact predictions, a few large errors
    [b |-> [q \in 1..nn |-> (q * 5) % 6], d |-> [q \in 1..nn |-> IF q % 9 = 0 THEN q ELSE 0]],
    \* two magnitudes only: the two middle order statistics differ for even nn
    [b |-> [q \in 1..nn |-> ((q * 7) % 5) + 2], d |-> [q \in 1..nn |-> IF (q * 11) % nn < nn \div 2 THEN 1 ELSE -2]] }
InitRegLong ==
  \E nn \in RegLongLens : \E pt \in LongPatterns(nn) :
    case = [kind |-> "reg", inp |-> [a |-> [q \in 1..nn |-> pt.b[q] + pt.d[q]], b |-> pt.b, perm |-> Rev(nn)]]

InitRocu ==
  \E nn \in 2..RocuLen : \E rv \in Vecs(nn, 0, RocuRank), tv \in Vecs(nn, 0, 1), bs \in {"half", "zero", "one"} :
    /\ Range(tv) = {0, 1}
    /\ case = [kind |-> "rocu", inp |-> [rank |-> rv, base |-> bs, truth |-> tv, perm |-> Rot(nn)]]

Init ==
  \/ "silwide" \in Kinds /\ InitSilWide
  \/ "regs" \in Kinds /\ InitRegs
  \/ "pearwide" \in Kinds /\ InitPearWide
  \/ "reglong" \in Kinds /\ InitRegLong
  \/ "rocu" \in Kinds /\ InitRocu
  \/ "cm" \in Kinds /\ InitCm
  \/ "roc" \in Kinds /\ InitRoc
  \/ "reg" \in Kinds /\ InitReg
  \/ "mreg" \in Kinds /\ InitMreg
  \/ "sil" \in Kinds /\ InitSil
  \/ "pear" \in Kinds /\ InitPear

Next == UNCHANGED case
Emit == PrintT("CASE " \o ToJson(case))
=============================================================================
