------------------------------- MODULE Periph -------------------------------
(***************************************************************************)
(* X07 -- peripheral crates: the data generators / loaders of              *)
(* linfa-datasets and the linfa-tsne wrapper.                              *)
(*                                                                         *)
(* 1. Block layout of `blobs` / `blobs_with_distribution`: "generate       *)
(*    blob_size data points around each of the blob centroids": the output *)
(*    has one block of `m` rows per centroid, in centroid order; row r     *)
(*    (0-based) belongs to centroid BlockOf(r, m) = r div m.               *)
(* 2. What a generated matrix must look like given the distribution        *)
(*    (exact for lattice / point-mass distributions, a few sigma for       *)
(*    normal ones), and reproducibility as a relation between two runs.    *)
(* 3. The documented facts of the built-in loaders (shapes, names, label   *)
(*    frequencies, means pinned by the crate's own documentation/tests).   *)
(* 4. The validity lattice of t-SNE parameters against the data.           *)
(* 5. A bounded design model (two state machines) whose invariants are     *)
(*    consequences of 1-4: guards against a wrong or vacuous relation.     *)
(***************************************************************************)
EXTENDS Fx, TLC

CONSTANTS MaxK, MaxM, MaxF,          \* blob model: centroids, blob size, features
          MaxN, MaxD, MaxE, MaxP2,   \* t-SNE grid: samples, features, embedding size, 2 * perplexity
          MaxIter                    \* t-SNE model: iteration budget

(***************************************************************************)
(* 1. Block layout                                                         *)
(***************************************************************************)
NRows(k, m)      == k * m
BlockOf(r, m)    == r \div m                              \* m > 0, r 0-based
BlockRows(b, m)  == (b * m)..((b + 1) * m - 1)            \* empty when m = 0

LayoutWellDefined(k, m) ==
  /\ \A r \in 0..(NRows(k, m) - 1) : BlockOf(r, m) \in 0..(k - 1) /\ r \in BlockRows(BlockOf(r, m), m)
  /\ \A b \in 0..(k - 1) : /\ Cardinality(BlockRows(b, m)) = m
                           /\ \A r \in BlockRows(b, m) : BlockOf(r, m) = b
  /\ UNION {BlockRows(b, m) : b \in 0..(k - 1)} = 0..(NRows(k, m) - 1)
  /\ \A b1, b2 \in 0..(k - 1) : b1 # b2 => BlockRows(b1, m) \cap BlockRows(b2, m) = {}

(***************************************************************************)
(* 2. Generated cells.  `cells` is the observed matrix in fixed point      *)
(* SC = 1000 (1-based sequences), `cent` the integer centroids, dist =     *)
(* [t, s10, lo, hi]: "lat" = uniform on the integers lo..hi (lo = hi: a    *)
(* sigma-0 distribution), "normal" = N(0, (s10/10)^2), "std" = N(0, 1).    *)
(***************************************************************************)
SC == 1000
Sigma10(d) == IF d.t = "std" THEN 10 ELSE d.s10
IsLat(d)   == d.t = "lat"

Dev(cells, cent, m, r, c) == cells[r][c] - SC * cent[BlockOf(r - 1, m) + 1][c]

MatShape(cells, rows, cols) ==
  /\ Len(cells) = rows
  /\ \A r \in 1..rows : Len(cells[r]) = cols

\* lattice distributions: every cell is exactly centroid + an integer of the support
LatCellsOk(cells, cent, m, f, d) ==
  \A r \in 1..Len(cells) : \A c \in 1..f :
     LET v == Dev(cells, cent, m, r, c) IN v % SC = 0 /\ d.lo * SC <= v /\ v <= d.hi * SC

\* normal distributions: every row within 7 sigma of ITS centroid (1 unit of quantisation) ...
RowNearOk(cells, cent, m, f, d) ==
  \A r \in 1..Len(cells) : \A c \in 1..f : Abs(Dev(cells, cent, m, r, c)) <= 700 * Sigma10(d) + 1

\* ... every block mean within 7 sigma / sqrt(m) of the centroid (as a sum: 7 sigma sqrt(m); Isqrt(m) + 1 >= sqrt(m)) ...
BlockSum(cells, cent, m, b, c) == SumSeq([q \in 1..m |-> Dev(cells, cent, m, b * m + q, c)])
BlockMeanOk(cells, cent, k, m, f, d) ==
  \A b \in 0..(k - 1) : \A c \in 1..f :
     Abs(BlockSum(cells, cent, m, b, c)) <= 7 * Sigma10(d) * 100 * (Isqrt(m) + 1) + m

\* ... and the spread of a block with >= 32 cells is sigma^2 up to a factor (chi-square, df >= 32: P < 1e-9 outside [0.1, 4])
BlockSq(cells, cent, m, f, b) ==
  SumSeq([q \in 1..(m * f) |->
            LET r == b * m + ((q - 1) \div f) + 1
                c == ((q - 1) % f) + 1
                a == Abs(Dev(cells, cent, m, r, c)) \div 10
            IN a * a])
BlockSpreadOk(cells, cent, k, m, f, d) ==
  m * f >= 32 =>
    \A b \in 0..(k - 1) :
       LET ss  == BlockSq(cells, cent, m, f, b)
           unit == m * f * Sigma10(d) * Sigma10(d) * 100      \* df * sigma^2 at scale 100^2
       IN unit \div 10 <= ss /\ ss <= 4 * unit

\* a random distribution leaves some cell off its centroid
SomeNoise(cells, cent, m, f) ==
  \E r \in 1..Len(cells) : \E c \in 1..f : Dev(cells, cent, m, r, c) # 0

\* is the output determined by the arguments alone (no randomness consumed that could show)?
Determined(d, ncells) == ncells = 0 \/ (IsLat(d) /\ d.lo = d.hi)
\* is the output random enough that two different streams coincide with negligible probability?
MustDiffer(d, ncells) == IF IsLat(d) THEN d.hi > d.lo /\ ncells >= 20 ELSE ncells >= 1

(***************************************************************************)
(* 3. Loaders: the facts documented by the crate (README / doc comments /  *)
(* its own unit tests).  fmean at scale 1000, tmean/tmin/tmax at 100.      *)
(***************************************************************************)
LoaderNames == {"iris", "diabetes", "winequality", "linnerud"}
NoMeans == <<>>
LoaderDoc(name) ==
  CASE name = "iris" ->
         [ns |-> 150, nf |-> 4, nt |-> 1,
          fnames |-> <<"sepal length", "sepal width", "petal length", "petal width">>, checknames |-> TRUE,
          tnames |-> <<>>, labels |-> << <<0, 50>>, <<1, 50>>, <<2, 50>> >>, tmin |-> 0, tmax |-> 200,
          fmean |-> <<5840, 3050, 3750, 1200>>, fslack |-> 10, tmean |-> NoMeans]
    \* diabetes: 442 patients (the reference the README links to; 442 numeric lines in both data files).  The README
    \* table and the crate's unit test say 441 because the loader drops the first sample (known finding, see Trace_Periph)
    [] name = "diabetes" ->
         [ns |-> 442, nf |-> 10, nt |-> 1, fnames |-> <<>>, checknames |-> FALSE,
          tnames |-> <<>>, labels |-> <<>>, tmin |-> 2500, tmax |-> 34600,
          fmean |-> <<0, 0, 0, 0, 0, 0, 0, 0, 0, 0>>, fslack |-> 5, tmean |-> NoMeans]
    [] name = "winequality" ->
         [ns |-> 1599, nf |-> 11, nt |-> 1,
          fnames |-> <<"fixed acidity", "volatile acidity", "citric acid", "residual sugar", "chlorides",
                       "free sulfur dioxide", "total sulfur dioxide", "density", "pH", "sulphates", "alcohol">>,
          checknames |-> TRUE, tnames |-> <<>>,
          labels |-> << <<3, 10>>, <<4, 53>>, <<5, 681>>, <<6, 638>>, <<7, 199>>, <<8, 18>> >>, tmin |-> 300, tmax |-> 800,
          fmean |-> NoMeans, fslack |-> 0, tmean |-> NoMeans]
    [] name = "linnerud" ->
         [ns |-> 20, nf |-> 3, nt |-> 3, fnames |-> <<"Chins", "Situps", "Jumps">>, checknames |-> TRUE,
          tnames |-> <<"Weight", "Waist", "Pulse">>, labels |-> <<>>, tmin |-> 3100, tmax |-> 24700,
          fmean |-> NoMeans, fslack |-> 0, tmean |-> <<17860, 3540, 5610>>]

LoaderDocOk(name) ==
  LET L == LoaderDoc(name) IN
  /\ L.ns > 0 /\ L.nf > 0 /\ L.nt > 0 /\ L.tmin <= L.tmax
  /\ L.checknames => Len(L.fnames) = L.nf
  /\ L.tnames # <<>> => Len(L.tnames) = L.nt
  /\ L.fmean # NoMeans => Len(L.fmean) = L.nf
  /\ L.tmean # NoMeans => Len(L.tmean) = L.nt
  /\ L.labels # <<>> =>
       /\ SumSeq([q \in 1..Len(L.labels) |-> L.labels[q][2]]) = L.ns
       /\ \A q \in 1..Len(L.labels) : L.tmin <= 100 * L.labels[q][1] /\ 100 * L.labels[q][1] <= L.tmax
       /\ \E q \in 1..Len(L.labels) : 100 * L.labels[q][1] = L.tmin
       /\ \E q \in 1..Len(L.labels) : 100 * L.labels[q][1] = L.tmax

\* "Read in the ... dataset": the loader returns every numeric row of its embedded data file(s), in file order.
\* `file` = the rows parsed from the file (integers at S = 10^4), `obs` = the loaded cells at the same scale.
MatClose(obs, file, slack) ==
  /\ Len(obs) = Len(file)
  /\ \A r \in 1..Len(file) : /\ Len(obs[r]) = Len(file[r])
                               /\ \A q \in 1..Len(file[r]) : Abs(obs[r][q] - file[r][q]) <= slack

(***************************************************************************)
(* 4. t-SNE validity lattice.  p2 = 2 * perplexity, th2 = 2 * theta        *)
(* (half-integers are exact in f32/f64).  Documented errors:               *)
(*   NegativePerplexity "negative perplexity", NegativeApproximation-      *)
(*   Threshold "negative approximation threshold", EmbeddingSizeTooLarge   *)
(*   "embedding size larger than original dimensionality",                 *)
(*   PerplexityTooLarge "perplexity too large for number of samples"       *)
(*   (the rule of Barnes-Hut t-SNE: n - 1 >= 3 * perplexity).              *)
(* Which of several violated conditions is reported is not prescribed.     *)
(***************************************************************************)
ErrNames == {"NegativePerplexity", "NegativeApproximationThreshold", "EmbeddingSizeTooLarge", "PerplexityTooLarge"}

TsParamErrs(p2, th2) ==
  (IF p2 < 0 THEN {"NegativePerplexity"} ELSE {}) \cup
  (IF th2 < 0 THEN {"NegativeApproximationThreshold"} ELSE {})
TsDataErrs(n, d, e, p2) ==
  (IF e > d THEN {"EmbeddingSizeTooLarge"} ELSE {}) \cup
  (IF 2 * (n - 1) < 3 * p2 THEN {"PerplexityTooLarge"} ELSE {})
TsErrs(n, d, e, p2, th2) == TsParamErrs(p2, th2) \cup TsDataErrs(n, d, e, p2)
TsValid(n, d, e, p2, th2) == TsErrs(n, d, e, p2, th2) = {}
\* the least number of samples a perplexity admits, in closed form: ceil(3 p) + 1
MinSamples(p2) == (3 * p2 + 1) \div 2 + 1

(***************************************************************************)
(* 5. Bounded design model                                                 *)
(***************************************************************************)
VARIABLES mach,    \* "blobs" | "tsne"
          par,     \* parameters of the run
          pc,      \* t-SNE: "new" | "checked" | "ready" | "init" | "done" | "err" ; blobs: "gen"
          rng,     \* blobs: session -> [seed, pos] ; t-SNE: draws taken from (the clone of) the caller's rng
          outs,    \* blobs: session -> sequence of output identities
          iter,    \* t-SNE: iterations done
          res      \* t-SNE: result (error name or shape)

vars == <<mach, par, pc, rng, outs, iter, res>>

Sessions == {"A", "B"}
Cost(p) == IF p.rand THEN p.k * p.m * p.f ELSE 0           \* values drawn by one generation
\* the data are a function of the arguments and of the stream position the call starts at; when nothing
\* is drawn they do not depend on the rng at all
Ident(r, p) == [seed |-> IF Cost(p) = 0 THEN 0 ELSE r.seed, pos |-> IF Cost(p) = 0 THEN 0 ELSE r.pos,
                shape |-> <<NRows(p.k, p.m), p.f>>]

Init ==
  /\ iter = 0 /\ res = "none"
  /\ \/ /\ mach = "blobs" /\ pc = "gen"
        /\ \E k \in 0..MaxK, m \in 0..MaxM, f \in 0..MaxF, rand \in BOOLEAN :
              par = [k |-> k, m |-> m, f |-> f, rand |-> rand]
        /\ \E sa, sb \in 1..2 : rng = [x \in Sessions |-> [seed |-> IF x = "A" THEN sa ELSE sb, pos |-> 0]]
        /\ outs = [x \in Sessions |-> <<>>]
     \/ /\ mach = "tsne" /\ pc = "new" /\ rng = 0 /\ outs = <<>>
        /\ \E n \in 0..MaxN, d \in 0..MaxD, e \in 1..MaxE, p2 \in (-1)..MaxP2, th2 \in (-1)..2, mi \in {0, MaxIter} :
              par = [n |-> n, d |-> d, e |-> e, p2 |-> p2, th2 |-> th2, mi |-> mi]

Generate(x) ==
  /\ mach = "blobs" /\ Len(outs[x]) < 2
  /\ outs' = [outs EXCEPT ![x] = Append(@, Ident(rng[x], par))]
  /\ rng' = [rng EXCEPT ![x].pos = @ + Cost(par)]
  /\ UNCHANGED <<mach, par, pc, iter, res>>

PErrs == TsParamErrs(par.p2, par.th2)
DErrs == TsDataErrs(par.n, par.d, par.e, par.p2)
AErrs == TsErrs(par.n, par.d, par.e, par.p2, par.th2)

TsCheck ==
  /\ mach = "tsne" /\ pc = "new"
  /\ IF PErrs # {} THEN /\ pc' = "err" /\ res' \in PErrs
                   ELSE /\ pc' = "checked" /\ res' = res
  /\ UNCHANGED <<mach, par, rng, outs, iter>>
TsDataCheck ==
  /\ mach = "tsne" /\ pc = "checked"
  /\ IF DErrs # {} THEN /\ pc' = "err" /\ res' \in DErrs
                   ELSE /\ pc' = "ready" /\ res' = res
  /\ UNCHANGED <<mach, par, rng, outs, iter>>
TsInit ==
  /\ mach = "tsne" /\ pc = "ready"
  /\ rng' = rng + par.n * par.e /\ pc' = "init"
  /\ UNCHANGED <<mach, par, outs, iter, res>>
TsIter ==
  /\ mach = "tsne" /\ pc = "init" /\ iter < par.mi
  /\ iter' = iter + 1
  /\ UNCHANGED <<mach, par, pc, rng, outs, res>>
TsFinish ==
  /\ mach = "tsne" /\ pc = "init" /\ iter = par.mi
  /\ pc' = "done" /\ res' = <<par.n, par.e>>
  /\ UNCHANGED <<mach, par, rng, outs, iter>>

Next == (\E x \in Sessions : Generate(x)) \/ TsCheck \/ TsDataCheck \/ TsInit \/ TsIter \/ TsFinish

\* ---- invariants: blobs
InvLayout == mach = "blobs" => LayoutWellDefined(par.k, par.m)
InvBlobShape ==
  mach = "blobs" => \A x \in Sessions : \A q \in 1..Len(outs[x]) : outs[x][q].shape = <<par.k * par.m, par.f>>
\* reproducibility as a relation between two runs: the same seed and the same history of calls give the same data,
InvRepro ==
  mach = "blobs" =>
    \A q \in 1..Min2(Len(outs["A"]), Len(outs["B"])) :
       rng["A"].seed = rng["B"].seed => outs["A"][q] = outs["B"][q]
\* ... the seed matters exactly when something is drawn,
InvSeedMatters ==
  mach = "blobs" =>
    \A q \in 1..Min2(Len(outs["A"]), Len(outs["B"])) :
       rng["A"].seed # rng["B"].seed => ((outs["A"][q] # outs["B"][q]) <=> Cost(par) > 0)
\* ... and a second call on the same rng continues the stream
InvAdvance ==
  mach = "blobs" =>
    \A x \in Sessions : Len(outs[x]) = 2 => ((outs[x][1] # outs[x][2]) <=> Cost(par) > 0)

\* ---- invariants: t-SNE
InvErrEarly  == (mach = "tsne" /\ pc = "err") => (rng = 0 /\ iter = 0 /\ res \in AErrs)
InvReach     == (mach = "tsne" /\ pc \in {"ready", "init", "done"}) => TsValid(par.n, par.d, par.e, par.p2, par.th2)
InvDone      == (mach = "tsne" /\ pc = "done") => (res = <<par.n, par.e>> /\ rng = par.n * par.e /\ iter = par.mi)
InvParamFirst == (mach = "tsne" /\ pc \in {"checked", "ready", "init", "done"}) => PErrs = {}
\* the validity predicate partitions the grid, is monotone along every axis and has the closed-form boundary
InvLattice ==
  mach = "tsne" =>
    LET n == par.n  d == par.d  e == par.e  p2 == par.p2  th2 == par.th2 IN
    /\ TsValid(n, d, e, p2, th2) <=> ~(\E x \in ErrNames : x \in TsErrs(n, d, e, p2, th2))
    /\ TsErrs(n, d, e, p2, th2) \subseteq ErrNames
    /\ TsValid(n, d, e, p2, th2) =>
         /\ TsValid(n + 1, d, e, p2, th2) /\ TsValid(n, d + 1, e, p2, th2) /\ TsValid(n, d, e, p2, th2 + 1)
         /\ p2 > 0 => TsValid(n, d, e, p2 - 1, th2)
         /\ e > 1 => TsValid(n, d, e - 1, p2, th2)
    /\ (p2 >= 0 /\ th2 >= 0 /\ e <= d) => (TsValid(n, d, e, p2, th2) <=> n >= MinSamples(p2))
    /\ p2 >= 0 => (2 * (MinSamples(p2) - 1) >= 3 * p2 /\ 2 * (MinSamples(p2) - 2) < 3 * p2)

\* vacuity guards over the whole grid (constant level, evaluated once)
Grid == [n : 0..MaxN, d : 0..MaxD, e : 1..MaxE, p2 : (-1)..MaxP2, th2 : (-1)..2]
GE(g) == TsErrs(g.n, g.d, g.e, g.p2, g.th2)
GridVacuity ==
  /\ \E g \in Grid : GE(g) = {}
  /\ \A x \in ErrNames : \E g \in Grid : GE(g) = {x}
  /\ \E g \in Grid : Cardinality(GE(g)) >= 3
  /\ \E g \in Grid : GE(g) = {} /\ g.n = MinSamples(g.p2) /\ g.e = g.d /\ g.p2 > 0
InvGridVacuity == GridVacuity
InvLoaders == \A nm \in LoaderNames : LoaderDocOk(nm)
=============================================================================
