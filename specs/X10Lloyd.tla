------------------------------ MODULE X10Lloyd ------------------------------
(***************************************************************************)
(* X10 -- the iteration of `KMeansValidParams::fit` (linfa-clustering,     *)
(* k_means/algorithm.rs) as an explicit state machine: Lloyd's algorithm   *)
(* in its m_k-means form with restarts, on integer-lattice data, squared   *)
(* euclidean distance, EXACT rational centroids.                           *)
(*                                                                         *)
(*   StartRun(c0) : restart run+1 starts from the lattice centroids c0     *)
(*   Iterate(AA)  : E-step  AA[i] = a nearest centroid of observation i    *)
(*                          (exact ties: the code keeps the first centroid *)
(*                          that attains the minimum; demanded where the   *)
(*                          float computation is exact, i.e. all centroid  *)
(*                          denominators are powers of two; any nearest    *)
(*                          centroid otherwise)                            *)
(*                  M-step  c' = (c + sum of its members) / (1 + count):   *)
(*                          the old centroid counts as one more member, an *)
(*                          empty cluster keeps its centroid (documented   *)
(*                          m_k-means handling of empty clusters)          *)
(*                  stop    "converged" iff |C' - C| < tolerance (euclidean *)
(*                          norm over all centroids), else "budget" iff    *)
(*                          the iteration count reached max_n_iterations,  *)
(*                          else "continue"                                *)
(*   EndRun(AA)   : the run's inertia = cost of a nearest assignment to    *)
(*                  its final centroids; it replaces the best run so far   *)
(*                  iff its inertia is strictly smaller (first-best)       *)
(*   Publish      : centroids / member counts / inertia of the best run    *)
(*                                                                         *)
(* Numbers: a centroid is [num |-> <<..>>, den |-> d]; distances are exact *)
(* rationals compared by RatLe (no products).  Sums of rationals (inertia, *)
(* squared shift) are kept as INTERVALS [lo, hi] in fixed point with scale *)
(* Prod(Scl): every term is rounded down, hi - lo = number of inexact       *)
(* terms.  A comparison is decided when the intervals decide it and is     *)
(* left open (both outcomes allowed) otherwise.  In the bounded design     *)
(* model Scl = 2^12 * 3^6 makes every term exact (InvExact), so there every *)
(* decision is the exact one.  Trace_X10Lloyd uses the same actions with   *)
(* Scl = 2^20 on events recorded from the real code.                        *)
(***************************************************************************)
EXTENDS Integers, Sequences, FiniteSets, TLC

CONSTANTS ScaleKind,                    \* fixed-point scale: 1 = 2^12 * 3^6 (design model), 2 = 2^20 (traces)
          MGrid, MN, MK, MIt, MRuns,    \* bounded design model: points on 0..MGrid, <= MN points, ...
          MTols                         \* set of tolerances tn / 2^te, coded 100 * tn + te

VARIABLES P,        \* parameters [pts, k, tn, te, maxit, nruns]
          pc,       \* "start" | "iter" | "end" | "publish" | "done"
          run, it,  \* restart counter, iterations done in this restart
          C, prevC, \* exact centroids now / before the last update
          A,        \* the assignment used by the last step
          dec,      \* decision of the last iteration
          inCur, inPrev,  \* inertia (interval) of the last / the previous iteration of this run
          best,     \* [run, C, A, in]  (run = 0: none yet)
          hist,     \* per finished run [in, iters, kept]
          pub       \* published result

lvars == <<P, pc, run, it, C, prevC, A, dec, inCur, inPrev, best, hist, pub>>

\* the scale as a sequence of small factors (long division digit by digit keeps every product small)
Scl == IF ScaleKind = 1 THEN [i \in 1..18 |-> IF i <= 12 THEN 2 ELSE 3] ELSE [i \in 1..20 |-> 2]

-----------------------------------------------------------------------------
(* integers *)
LAbs(x) == IF x < 0 THEN -x ELSE x
RECURSIVE LGcd(_, _)
LGcd(a, b) == IF b = 0 THEN a ELSE LGcd(b, a % b)
RECURSIVE LSumTo(_, _)
LSumTo(s, i) == IF i = 0 THEN 0 ELSE s[i] + LSumTo(s, i - 1)
LSum(s) == LSumTo(s, Len(s))
RECURSIVE ProdFrom(_, _)
ProdFrom(fs, i) == IF i > Len(fs) THEN 1 ELSE fs[i] * ProdFrom(fs, i + 1)
Prod(fs) == ProdFrom(fs, 1)
RECURSIVE Pow4(_)
Pow4(e) == IF e = 0 THEN 1 ELSE 4 * Pow4(e - 1)
RECURSIVE IsPow2(_)
IsPow2(d) == d = 1 \/ (d > 1 /\ d % 2 = 0 /\ IsPow2(d \div 2))
MinOf(S) == CHOOSE x \in S : \A y \in S : x <= y

\* a/A <= b/B for a, b >= 0 and A, B > 0, without multiplying (Euclid)
RECURSIVE RatLe(_, _, _, _)
RatLe(a, AA, b, BB) ==
  LET qa == a \div AA
      qb == b \div BB
  IN IF qa # qb THEN qa < qb
     ELSE LET ra == a % AA
              rb == b % BB
          IN IF ra = 0 THEN TRUE
             ELSE IF rb = 0 THEN FALSE
             ELSE RatLe(BB, rb, AA, ra)

\* <<floor(a * Prod(fs) / D), remainder # 0>> for a >= 0, D > 0 by long division in the mixed radix fs
\* (every intermediate value is below D * max(fs))
RECURSIVE QDiv(_, _, _, _, _)
QDiv(r, D, fs, i, acc) ==
  IF i > Len(fs) THEN <<acc, r>>
  ELSE QDiv((r * fs[i]) % D, D, fs, i + 1, acc * fs[i] + ((r * fs[i]) \div D))
FixQ(a, D, fs) == LET h == QDiv(a % D, D, fs, 1, 0) IN <<(a \div D) * Prod(fs) + h[1], h[2]>>

\* intervals [lo, hi]: lo <= exact value * scale <= hi, lo = hi iff every term was exact
Iv0 == [lo |-> 0, hi |-> 0]
IvTerm(a, D, fs) == LET q == FixQ(a, D, fs) IN [lo |-> q[1], hi |-> q[1] + (IF q[2] = 0 THEN 0 ELSE 1)]
RECURSIVE IvSumTo(_, _)
IvSumTo(s, i) == IF i = 0 THEN Iv0 ELSE LET r == IvSumTo(s, i - 1) IN [lo |-> r.lo + s[i].lo, hi |-> r.hi + s[i].hi]
IvSum(s) == IvSumTo(s, Len(s))
IvExact(v) == v.lo = v.hi
\* decided comparisons.  Both leave a margin of a whole unit of the scale between the exact values, far above
\* any float rounding; exact EQUALITY (or order) of two exact intervals is decided only where the compared
\* floats are known to be exact themselves (`trusted`: all centroids involved are dyadic rationals)
IvDefLt(a, b) == a.hi < b.lo
IvDefGe(a, b, trusted) == a.lo > b.hi \/ (trusted /\ IvExact(a) /\ IvExact(b) /\ a.lo >= b.hi)

-----------------------------------------------------------------------------
(* exact centroids, squared euclidean distance *)
RECURSIVE GcdTo(_, _, _)
GcdTo(s, i, g) == IF i = 0 THEN g ELSE GcdTo(s, i - 1, LGcd(g, LAbs(s[i])))
Reduce(num, den) ==
  LET g == GcdTo(num, Len(num), den)
  IN [num |-> [d \in 1..Len(num) |-> num[d] \div g], den |-> den \div g]
Lattice(p) == [num |-> p, den |-> 1]
LatticeAll(ps) == [j \in 1..Len(ps) |-> Lattice(ps[j])]

RNum(x, c) == LSum([d \in 1..Len(x) |-> (x[d] * c.den - c.num[d]) * (x[d] * c.den - c.num[d])])
RDen(c) == c.den * c.den
DRow(x, CC) == [j \in 1..Len(CC) |-> <<RNum(x, CC[j]), RDen(CC[j])>>]
LeRow(dr, j, l) == RatLe(dr[j][1], dr[j][2], dr[l][1], dr[l][2])
Adm(dr) == {j \in DOMAIN dr : \A l \in DOMAIN dr : LeRow(dr, j, l)}
Dyadic(CC) == \A j \in 1..Len(CC) : IsPow2(CC[j].den)
\* the float computation on these centroids is exact (the design model has no floats: ScaleKind = 1)
Trusted(CC) == ScaleKind = 1 \/ Dyadic(CC)
\* the centroids observation x may be assigned to
Choice(x, CC) == LET ad == Adm(DRow(x, CC)) IN IF Dyadic(CC) THEN {MinOf(ad)} ELSE ad
AsgOk(XX, AA, CC) == Len(AA) = Len(XX) /\ \A i \in 1..Len(XX) : AA[i] \in Choice(XX[i], CC)
RECURSIVE AsgsTo(_, _, _)
AsgsTo(XX, CC, i) ==
  IF i = 0 THEN {<<>>} ELSE {Append(s, j) : s \in AsgsTo(XX, CC, i - 1), j \in Choice(XX[i], CC)}
Asgs(XX, CC) == AsgsTo(XX, CC, Len(XX))

Members(AA, j) == {i \in DOMAIN AA : AA[i] = j}
Count(AA, j) == Cardinality(Members(AA, j))
Counts(AA, kk) == [j \in 1..kk |-> Count(AA, j)]
SumOf(XX, AA, j, d) == LSum([i \in 1..Len(XX) |-> IF AA[i] = j THEN XX[i][d] ELSE 0])
\* m_k-means update of one centroid: (c + sum of its members) / (1 + count)
UpdOne(XX, c, AA, j) ==
  Reduce([d \in 1..Len(c.num) |-> c.num[d] + c.den * SumOf(XX, AA, j, d)], c.den * (1 + Count(AA, j)))
Upd(XX, CC, AA) == [j \in 1..Len(CC) |-> UpdOne(XX, CC[j], AA, j)]

\* the update moves centroid j in coordinate d by ShiftNum / (c.den * (1 + count))
ShiftNum(XX, c, AA, j, d) == SumOf(XX, AA, j, d) * c.den - Count(AA, j) * c.num[d]
ZeroShift(XX, CC, AA) == \A j \in 1..Len(CC) : \A d \in 1..Len(CC[j].num) : ShiftNum(XX, CC[j], AA, j, d) = 0
\* squared euclidean length of the whole move, as an interval
ShiftIv(XX, CC, AA, fs) ==
  IvSum([j \in 1..Len(CC) |->
    LET dn == CC[j].den * (1 + Count(AA, j)) IN
    IvSum([d \in 1..Len(CC[j].num) |->
      LET sn == ShiftNum(XX, CC[j], AA, j, d) IN IvTerm(sn * sn, dn * dn, fs)])])
\* cost of assignment AA for the centroids CC, as an interval
InertiaIv(XX, AA, CC, fs) ==
  IvSum([i \in 1..Len(XX) |-> IvTerm(RNum(XX[i], CC[AA[i]]), RDen(CC[AA[i]]), fs)])

\* the stop rule.  tol = tn / 2^te; tolerances below 2^-10 are below every non-zero move of the bounded
\* domain (a non-zero move is >= 1 / (den * (1 + count)) >= 2^-15), so only a zero move converges then
TolSq(tn, te, fs) == (tn * tn * Prod(fs)) \div Pow4(te)
Converges(XX, CC, AA, tn, te, fs) ==       \* set of possible truth values of "shift < tolerance"
  IF te > 10 THEN {ZeroShift(XX, CC, AA)}
  ELSE LET sh == ShiftIv(XX, CC, AA, fs)
           T  == [lo |-> TolSq(tn, te, fs), hi |-> TolSq(tn, te, fs)]
       IN IF IvDefLt(sh, T) THEN {TRUE} ELSE IF IvDefGe(sh, T, Trusted(CC)) THEN {FALSE} ELSE {TRUE, FALSE}
Decision(conv, iters, maxit) == IF conv THEN "converged" ELSE IF iters = maxit THEN "budget" ELSE "continue"

-----------------------------------------------------------------------------
(* the actions *)
X == P.pts
N == Len(P.pts)
NoBest == [run |-> 0, C |-> <<>>, A |-> <<>>, in |-> Iv0, dy |-> TRUE]

StartRun(c0) ==
  /\ pc = "start" /\ run < P.nruns
  /\ Len(c0) = P.k
  /\ run' = run + 1 /\ it' = 0
  /\ C' = LatticeAll(c0) /\ prevC' = LatticeAll(c0)
  /\ A' = <<>> /\ dec' = "none" /\ inCur' = Iv0 /\ inPrev' = Iv0
  /\ pc' = "iter"
  /\ UNCHANGED <<P, best, hist, pub>>

Iterate(AA) ==
  /\ pc = "iter"
  /\ AsgOk(X, AA, C)
  /\ A' = AA
  /\ prevC' = C
  /\ C' = Upd(X, C, AA)
  /\ it' = it + 1
  /\ inPrev' = inCur
  /\ inCur' = InertiaIv(X, AA, C, Scl)
  /\ \E conv \in Converges(X, C, AA, P.tn, P.te, Scl) : dec' = Decision(conv, it + 1, P.maxit)
  /\ pc' = IF dec' = "continue" THEN "iter" ELSE "end"
  /\ UNCHANGED <<P, run, best, hist, pub>>

\* possible truth values of "the run with inertia v (final centroids dyadic: dy) replaces the best run"
Keeps(v, dy) ==
  IF best.run = 0 THEN {TRUE}
  ELSE IF IvDefLt(v, best.in) THEN {TRUE}
  ELSE IF IvDefGe(v, best.in, dy /\ best.dy) THEN {FALSE}
  ELSE {TRUE, FALSE}

EndRun(AA) ==
  /\ pc = "end"
  /\ AsgOk(X, AA, C)
  /\ A' = AA
  /\ LET v == InertiaIv(X, AA, C, Scl) IN
     \E kept \in Keeps(v, Trusted(C)) :
       /\ hist' = Append(hist, [in |-> v, iters |-> it, kept |-> kept])
       /\ best' = IF kept THEN [run |-> run, C |-> C, A |-> AA, in |-> v, dy |-> Trusted(C)] ELSE best
  /\ pc' = IF run = P.nruns THEN "publish" ELSE "start"
  /\ UNCHANGED <<P, run, it, C, prevC, dec, inCur, inPrev, pub>>

Publish ==
  /\ pc = "publish"
  /\ best.run > 0
  /\ pub' = [C |-> best.C, counts |-> Counts(best.A, P.k), in |-> best.in, run |-> best.run]
  /\ pc' = "done"
  /\ UNCHANGED <<P, run, it, C, prevC, A, dec, inCur, inPrev, best, hist>>

-----------------------------------------------------------------------------
(* the bounded design model *)
Pts == {<<a>> : a \in 0..MGrid}
SortedSeqs(nn) == {s \in [1..nn -> Pts] : \A i \in 1..(nn - 1) : s[i][1] <= s[i + 1][1]}
Rows(XX) == {XX[i] : i \in 1..Len(XX)}

Init ==
  /\ \E nn \in 1..MN : \E kk \in 1..(IF nn < MK THEN nn ELSE MK) :
     \E xs \in SortedSeqs(nn), tl \in MTols, mi \in 1..MIt, nr \in 1..MRuns :
       P = [pts |-> xs, k |-> kk, tn |-> tl \div 100, te |-> tl % 100, maxit |-> mi, nruns |-> nr]
  /\ pc = "start" /\ run = 0 /\ it = 0 /\ C = <<>> /\ prevC = <<>> /\ A = <<>> /\ dec = "none"
  /\ inCur = Iv0 /\ inPrev = Iv0 /\ best = NoBest /\ hist = <<>> /\ pub = <<>>

\* a restart starts from data rows (random / k-means++ initialisers) -- the precomputed initialiser of the
\* trace cases may name any lattice points
DStart   == pc = "start" /\ \E c0 \in [1..P.k -> Rows(X)] : StartRun(c0)
DIterate == pc = "iter" /\ \E AA \in Asgs(X, C) : Iterate(AA)
DEndRun  == pc = "end" /\ \E AA \in Asgs(X, C) : EndRun(AA)
DDone    == pc = "done" /\ UNCHANGED lvars
Next == DStart \/ DIterate \/ DEndRun \/ Publish \/ DDone
Spec == Init /\ [][Next]_lvars /\ WF_lvars(DStart \/ DIterate \/ DEndRun \/ Publish)

-----------------------------------------------------------------------------
(* properties of the design *)
\* every fit ends, inside its budgets
Terminates == <>(pc = "done")
InvBudget ==
  /\ it <= P.maxit /\ run <= P.nruns /\ Len(hist) <= run
  /\ (dec = "continue") => it < P.maxit
  /\ (dec = "budget") => it = P.maxit
  /\ (pc = "end") => dec \in {"converged", "budget"}
  /\ (pc \in {"publish", "done"}) => (run = P.nruns /\ Len(hist) = P.nruns)
\* with the exact scale of the design model no comparison is ever left open
InvExact ==
  /\ IvExact(inCur) /\ IvExact(inPrev) /\ IvExact(best.in)
  /\ \A r \in 1..Len(hist) : IvExact(hist[r].in)
  /\ (pc = "iter" /\ it > 0 /\ P.te <= 10) => IvExact(ShiftIv(X, prevC, A, Scl))
\* the E-step assigns every observation to a nearest centroid (of the centroids the step started from)
InvNearest ==
  (pc \in {"iter", "end"} /\ it > 0 /\ Len(A) = N /\ pc # "start") =>
    \A i \in 1..N : \A l \in 1..P.k :
      RatLe(RNum(X[i], prevC[A[i]]), RDen(prevC[A[i]]), RNum(X[i], prevC[l]), RDen(prevC[l]))
\* ... of the final centroids when the run has ended
InvNearestEnd ==
  (pc \in {"start", "publish"} /\ Len(hist) > 0 /\ Len(A) = N) =>
    \A i \in 1..N : \A l \in 1..P.k :
      RatLe(RNum(X[i], C[A[i]]), RDen(C[A[i]]), RNum(X[i], C[l]), RDen(C[l]))
\* the M-step: (1 + count) * c' = c + sum of the members; an empty cluster keeps its centroid
InvUpdate ==
  (pc \in {"iter", "end"} /\ it > 0 /\ Len(A) = N) =>
    \A j \in 1..P.k :
      /\ Count(A, j) = 0 => C[j] = prevC[j]
      /\ \A d \in 1..Len(C[j].num) :
           (1 + Count(A, j)) * C[j].num[d] * prevC[j].den
             = C[j].den * (prevC[j].num[d] + prevC[j].den * SumOf(X, A, j, d))
\* the inertia never increases from one iteration to the next, nor from the last iteration to the run's inertia
InvMonotone ==
  /\ (pc \in {"iter", "end"} /\ it >= 2) => inCur.lo <= inPrev.hi
  /\ (pc \in {"start", "publish"} /\ Len(hist) > 0) => hist[Len(hist)].in.lo <= inCur.hi
\* the stop rule: a run ends exactly when the move is below the tolerance or the budget is used up
InvStop ==
  (pc \in {"iter", "end"} /\ it > 0 /\ Len(A) = N) =>
    LET cs == Converges(X, prevC, A, P.tn, P.te, Scl) IN
    /\ (dec = "converged") => TRUE \in cs
    /\ (dec # "converged") => FALSE \in cs
    /\ (dec = "converged" /\ P.te > 10) => C = prevC
\* the kept run is the arg-min of the run inertias, the first one on ties (exact scale: lo = hi)
IsFirstMin(r) ==
  /\ \A q \in 1..Len(hist) : hist[r].in.lo <= hist[q].in.lo
  /\ \A q \in 1..(r - 1) : hist[r].in.lo < hist[q].in.lo
InvBest ==
  /\ (Len(hist) > 0) => (best.run \in 1..Len(hist) /\ IsFirstMin(best.run) /\ best.in = hist[best.run].in)
  /\ \A r \in 1..Len(hist) : hist[r].kept <=> (\A q \in 1..(r - 1) : hist[r].in.lo < hist[q].in.lo)
InvPublish ==
  (pc = "done") =>
    /\ pub.run = best.run /\ pub.C = best.C /\ IsFirstMin(pub.run)
    /\ LSum(pub.counts) = N
    /\ \A j \in 1..P.k : pub.counts[j] = Count(best.A, j)
=============================================================================
