---------------------------- MODULE KFoldProofs ----------------------------
(***************************************************************************)
(* X06 (a), TLAPS -- the arithmetic core of the in-place fold mechanism    *)
(* for sequences of ANY length and ANY element type, machine-checked by    *)
(* tlapm (SMT/z3, Zenon, Isabelle):                                        *)
(*                                                                         *)
(*   SigmaInvolution        Sigma maps 1..L into itself and Sigma o Sigma  *)
(*                          = id  whenever (idx+1)*len <= L                *)
(*   SwapBlocksIsSigma      SwapBlocks(b,idx,bs,w) is a sequence of the    *)
(*                          same length and = b re-indexed by Sigma        *)
(*   SwapBlocksInvolution   SwapBlocks(SwapBlocks(b,i,s,w),i,s,w) = b      *)
(*                          for every sequence b with (i+1)*s*w <= Len(b)  *)
(*   SwapBlocksPermutes     SwapBlocks(b,..) has the same elements as b    *)
(*   FoldFits               (i+1) * (n \div k) * w <= n * w for i < k <= n *)
(*                          (the precondition holds at every SwapIn /      *)
(*                          SwapOut of KFold.tla)                          *)
(*                                                                         *)
(* SwapBlocks is copied verbatim from KFold.tla (XC_KFoldProofs.tla lets   *)
(* TLC confirm that the two definitions agree); Sigma is the one of        *)
(* KFoldInd.tla / KFoldIdx.tla (Variant = "ok").                           *)
(***************************************************************************)
EXTENDS Integers, Sequences, SequenceTheorems, TLAPS

Sigma(p, idx, len) ==
  IF idx = 0 THEN p
  ELSE IF p <= len THEN len * idx + p
  ELSE IF p > len * idx /\ p <= len * idx + len THEN p - len * idx
  ELSE p

\* verbatim from KFold.tla
SwapBlocks(buf, idx, bs, w) ==
  IF idx = 0 THEN buf
  ELSE LET len == bs * w
           start == len * idx
       IN [p \in 1..Len(buf) |->
             IF p <= len THEN buf[start + p]
             ELSE IF p > start /\ p <= start + len THEN buf[p - start]
             ELSE buf[p]]

-----------------------------------------------------------------------------
LEMMA MulNat == \A a, b \in Nat : a * b \in Nat
  OBVIOUS

LEMMA MulSucc == \A a, b \in Nat : (a + 1) * b = b * a + b
  OBVIOUS

LEMMA MulGe == \A a, b \in Nat : a # 0 => b * a >= b
  OBVIOUS

LEMMA MulAssoc == \A a, b, c \in Nat : (a * b) * c = a * (b * c)
  OBVIOUS

LEMMA MulMono == \A a, c, m \in Nat : a <= c => a * m <= c * m
  OBVIOUS

THEOREM SigmaInvolution ==
  ASSUME NEW L \in Nat, NEW idx \in Nat, NEW len \in Nat, (idx + 1) * len <= L,
         NEW p \in 1..L
  PROVE  /\ Sigma(p, idx, len) \in 1..L
         /\ Sigma(Sigma(p, idx, len), idx, len) = p
<1> DEFINE start == len * idx
<1>1. start \in Nat
  BY MulNat
<1>2. start + len <= L
  BY MulSucc
<1>3. idx # 0 => start >= len
  BY MulGe
<1>4. Sigma(p, idx, len) =
        IF idx = 0 THEN p
        ELSE IF p <= len THEN start + p
        ELSE IF p > start /\ p <= start + len THEN p - start
        ELSE p
  BY DEF Sigma
<1> DEFINE q == Sigma(p, idx, len)
<1>5. Sigma(q, idx, len) =
        IF idx = 0 THEN q
        ELSE IF q <= len THEN start + q
        ELSE IF q > start /\ q <= start + len THEN q - start
        ELSE q
  BY DEF Sigma
<1> HIDE DEF start
<1>6. q \in 1..L
  BY <1>1, <1>2, <1>3, <1>4
<1>7. Sigma(q, idx, len) = p
  BY <1>1, <1>2, <1>3, <1>4, <1>5
<1> QED
  BY <1>6, <1>7

THEOREM SwapBlocksIsSigma ==
  ASSUME NEW T, NEW b \in Seq(T), NEW idx \in Nat, NEW bs \in Nat, NEW w \in Nat,
         (idx + 1) * bs * w <= Len(b)
  PROVE  /\ SwapBlocks(b, idx, bs, w) \in Seq(T)
         /\ Len(SwapBlocks(b, idx, bs, w)) = Len(b)
         /\ \A p \in 1..Len(b) : /\ Sigma(p, idx, bs * w) \in 1..Len(b)
                                 /\ SwapBlocks(b, idx, bs, w)[p] = b[Sigma(p, idx, bs * w)]
<1> DEFINE L == Len(b)
           len == bs * w
<1>1. L \in Nat /\ len \in Nat
  BY LenProperties, MulNat
<1>2. (idx + 1) * len <= L
  BY MulAssoc
<1>3. \A p \in 1..L : Sigma(p, idx, len) \in 1..L
  BY <1>1, <1>2, SigmaInvolution
<1>4. \A p \in 1..L : b[p] \in T
  BY ElementOfSeq
<1>5. CASE idx = 0
  <2>1. SwapBlocks(b, idx, bs, w) = b
    BY <1>5 DEF SwapBlocks
  <2>2. \A p \in 1..L : Sigma(p, idx, len) = p
    BY <1>5 DEF Sigma
  <2> QED
    BY <2>1, <2>2
<1>6. CASE idx # 0
  <2> DEFINE c == [p \in 1..L |-> b[Sigma(p, idx, len)]]
  <2>1. SwapBlocks(b, idx, bs, w) = c
    BY <1>6 DEF SwapBlocks, Sigma
  <2>2. c \in Seq(T)
    <3>1. \A p \in 1..L : b[Sigma(p, idx, len)] \in T
      BY <1>3, <1>4
    <3> QED
      BY <3>1, <1>1, IsASeq
  <2>3. Len(c) = L
    BY <2>2, <1>1, LenProperties
  <2>4. \A p \in 1..L : c[p] = b[Sigma(p, idx, len)]
    OBVIOUS
  <2> QED
    BY <2>1, <2>2, <2>3, <2>4, <1>3
<1> QED
  BY <1>5, <1>6

THEOREM SwapBlocksInvolution ==
  ASSUME NEW T, NEW b \in Seq(T), NEW i \in Nat, NEW s \in Nat, NEW w \in Nat,
         (i + 1) * s * w <= Len(b)
  PROVE  SwapBlocks(SwapBlocks(b, i, s, w), i, s, w) = b
<1> DEFINE L == Len(b)
           len == s * w
           c == SwapBlocks(b, i, s, w)
           d == SwapBlocks(c, i, s, w)
<1>1. /\ c \in Seq(T) /\ Len(c) = L
      /\ \A p \in 1..L : Sigma(p, i, len) \in 1..L /\ c[p] = b[Sigma(p, i, len)]
  BY SwapBlocksIsSigma
<1>2. /\ d \in Seq(T) /\ Len(d) = L
      /\ \A p \in 1..L : d[p] = c[Sigma(p, i, len)]
  <2>1. (i + 1) * s * w <= Len(c)
    BY <1>1
  <2> HIDE DEF c
  <2> QED
    BY <1>1, <2>1, SwapBlocksIsSigma
<1>3. L \in Nat /\ len \in Nat /\ (i + 1) * len <= L
  BY LenProperties, MulNat, MulAssoc
<1>4. \A p \in 1..L : Sigma(Sigma(p, i, len), i, len) = p
  BY <1>3, SigmaInvolution
<1>5. \A p \in 1..L : d[p] = b[p]
  BY <1>1, <1>2, <1>4
<1>6. d \in Seq(T) /\ b \in Seq(T) /\ Len(d) = Len(b) /\ \A p \in 1..Len(d) : d[p] = b[p]
  BY <1>1, <1>2, <1>5
<1> HIDE DEF c, d, L, len
<1>7. d = b
  BY <1>6, SeqEqual
<1> QED
  BY <1>7 DEF d, c

RangeOf(s) == {s[p] : p \in DOMAIN s}

THEOREM SwapBlocksPermutes ==
  ASSUME NEW T, NEW b \in Seq(T), NEW i \in Nat, NEW s \in Nat, NEW w \in Nat,
         (i + 1) * s * w <= Len(b)
  PROVE  RangeOf(SwapBlocks(b, i, s, w)) = RangeOf(b)
<1> DEFINE L == Len(b)
           len == s * w
           c == SwapBlocks(b, i, s, w)
<1>1. /\ c \in Seq(T) /\ Len(c) = L
      /\ \A p \in 1..L : Sigma(p, i, len) \in 1..L /\ c[p] = b[Sigma(p, i, len)]
  BY SwapBlocksIsSigma
<1>2. L \in Nat /\ len \in Nat /\ (i + 1) * len <= L
  BY LenProperties, MulNat, MulAssoc
<1>3. \A p \in 1..L : Sigma(Sigma(p, i, len), i, len) = p
  BY <1>2, SigmaInvolution
<1>4. DOMAIN c = 1..L /\ DOMAIN b = 1..L
  BY <1>1, LenProperties
<1> HIDE DEF c, L, len
<1>5. ASSUME NEW x \in RangeOf(c) PROVE x \in RangeOf(b)
  <2>1. PICK p \in 1..L : x = c[p]
    BY <1>4 DEF RangeOf
  <2> QED
    BY <2>1, <1>1, <1>4 DEF RangeOf
<1>6. ASSUME NEW x \in RangeOf(b) PROVE x \in RangeOf(c)
  <2>1. PICK p \in 1..L : x = b[p]
    BY <1>4 DEF RangeOf
  <2>2. Sigma(p, i, len) \in 1..L /\ c[Sigma(p, i, len)] = b[Sigma(Sigma(p, i, len), i, len)]
    BY <1>1
  <2>3. c[Sigma(p, i, len)] = x
    BY <2>1, <2>2, <1>3
  <2> QED
    BY <2>2, <2>3, <1>4 DEF RangeOf
<1> QED
  BY <1>5, <1>6 DEF c

\* the swap precondition of every SwapIn / SwapOut of KFold.tla: fold i < k of size n \div k fits
THEOREM FoldFits ==
  ASSUME NEW n \in Nat, NEW k \in Nat, NEW i \in Nat, NEW w \in Nat, k >= 1, k <= n, i < k
  PROVE  /\ n \div k >= 1
         /\ (i + 1) * (n \div k) * w <= n * w
<1> DEFINE fs == n \div k
<1>1. fs \in Nat /\ k * fs <= n /\ n < k * fs + k
  OBVIOUS
<1>2. fs >= 1
  BY <1>1
<1> HIDE DEF fs
<1>3. (i + 1) * fs <= k * fs
  BY <1>1, MulMono
<1>4. (i + 1) * fs <= n
  BY <1>1, <1>3
<1>5. (i + 1) * fs \in Nat
  BY <1>1, MulNat
<1> QED
  BY <1>2, <1>4, <1>5, MulMono DEF fs
=============================================================================
