------------------------------ MODULE Embedding ------------------------------
(***************************************************************************************************)
(* X03 -- random projections (Gaussian / sparse) and diffusion maps of linfa-reduction.            *)
(*                                                                                                 *)
(* Part 1: the defining relations.  Inputs are integers (lattice rows, lattice points, dyadic      *)
(*   kernel entries); implementation outputs are observed as fixed point integers at S6 = 10^6.    *)
(*     DimOk / JLDims   projection dimension: the requested one, or the Johnson-Lindenstrauss      *)
(*                      dimension floor(4 ln n / (eps^2/2 - eps^3/3)), eps = p/q, bracketed with   *)
(*                      the tabulated logarithm of Elem; an error when it exceeds n_features       *)
(*     TfOk             transform(X) = X . R cell by cell (R = image of the identity)              *)
(*     SparseOk         entries of the sparse matrix lie in {0, +v, -v}, v = sqrt(n_features)      *)
(*     DensityOk        pooled count of non-zero entries / of signs within 8 standard deviations   *)
(*                      of the documented density 1/sqrt(n_features) (perfect squares only)        *)
(*     DmEigOk          eigen-equation of the row-normalised kernel P = D^-1 K:                    *)
(*                      (K e_j)_i = lambda_j r_i e_ij, r = row sums of K                           *)
(*     DmSortedOk, DmTraceOk, DmNonTrivialOk, DmNonZeroOk, DmStepsOk                               *)
(* Part 2: a bounded design model.  Fit chooses a projection matrix over a small integer alphabet  *)
(*   (or fails, as documented), Transform maps batches / single rows; the invariants are           *)
(*   consequences of the definition (the identity observes the matrix, a row has one image in any  *)
(*   batch, the relation accepts the exact image and rejects it when moved beyond the slack), and   *)
(*   the relations of part 1 are evaluated on closed-form instances (2- and 3-point kernels with    *)
(*   known spectrum, the dimensions pinned by linfa's own unit test).                               *)
(***************************************************************************************************)
EXTENDS Elem, TLC

S6 == 1000000

-----------------------------------------------------------------------------
(* matrices = sequences of rows *)
IsMatrix(M, r, c) == Len(M) = r /\ \A i \in 1..r : Len(M[i]) = c
ColOf(M, j) == [i \in 1..Len(M) |-> M[i][j]]
Eye(n) == [i \in 1..n |-> [j \in 1..n |-> IF i = j THEN 1 ELSE 0]]
AbsSeq(s) == [i \in 1..Len(s) |-> Abs(s[i])]
\* exact product of integer matrices (X: m x f, R: f x d)
MatMul(X, R, d) == [i \in 1..Len(X) |-> [j \in 1..d |-> Dot(X[i], ColOf(R, j))]]

-----------------------------------------------------------------------------
(* projection dimension *)
\* eps = p/q:  4 ln n / (eps^2/2 - eps^3/3) = 24 q^3 ln n / (p^2 (3q - 2p)) ; q <= 10, n <= 1024 keep 31 bits
JLNum(q)    == 24 * q * q * q
JLDen(p, q) == p * p * (3 * q - 2 * p)
\* LnInt(n) is ln(n) * 10^4 rounded: the true value lies within one unit
JLLo(n, p, q) == (JLNum(q) * Max2(LnInt(n) - 1, 0)) \div (JLDen(p, q) * ES)
JLHi(n, p, q) == (JLNum(q) * (LnInt(n) + 1)) \div (JLDen(p, q) * ES)
JLDims(n, p, q) == JLLo(n, p, q)..JLHi(n, p, q)
EpsValid(p, q) == p > 0 /\ p < q        \* 0 < eps < 1 (q > 0)

\* outcome of fit for a projection to dimension d on nf features
\*   ok    : fit succeeded, sh = shape of the projection matrix
\*   err   : name of the error, args its numbers
DimOutcomeOk(d, nf, ok, err, args, sh) ==
  IF d > nf THEN ~ok /\ err = "DimensionIncrease" /\ args = <<d, nf>>
            ELSE ok /\ sh = <<nf, d>>

-----------------------------------------------------------------------------
(* transform(X) = X . R *)
\* x: integer row (length f); R: f x d at S6; y: observed row (length d) at S6.
\* slack: half a unit per |x_k| (quantisation of R) + half a unit (quantisation of y) + 1;
\* f32 results carry the rounding of f+1 operations at 2^-24 relative to SUM |x_k r_kj| (f <= 15)
TfSlack(x, Rj, ft) ==
  LET sa == SumSeq(AbsSeq(x))
      aa == SumSeq([k \in 1..Len(x) |-> Abs(x[k] * Rj[k])])
  IN (sa + 1) \div 2 + 2 + (IF ft = "f32" THEN aa \div 500000 + 2 ELSE 0)
TfCellOk(x, Rj, y, ft) == Abs(y - Dot(x, Rj)) <= TfSlack(x, Rj, ft)
TfOk(X, R, Y, d, ft) ==
  /\ IsMatrix(Y, Len(X), d)
  /\ \A j \in 1..d : LET Rj == ColOf(R, j) IN \A i \in 1..Len(X) : TfCellOk(X[i], Rj, Y[i][j], ft)

-----------------------------------------------------------------------------
(* sparse projection matrices *)
\* v observed at S6 is sqrt(nf) within 2 * 10^-3 (squares at scale 10^3 stay below 2^31 for nf <= 2000)
IsSqrtOf(v, nf) ==
  LET v3 == v \div 1000 IN (v3 - 1) * (v3 - 1) <= nf * S6 /\ nf * S6 <= (v3 + 1) * (v3 + 1)
\* mags = the distinct magnitudes (bit patterns) of the non-zero entries, observed at S6
SparseOk(R, mags, nf) ==
  /\ Len(mags) <= 1
  /\ \A q \in 1..Len(mags) : IsSqrtOf(mags[q], nf)
  /\ \A i \in 1..Len(R) : \A j \in 1..Len(R[i]) :
        R[i][j] = 0 \/ (Len(mags) = 1 /\ Abs(R[i][j]) = mags[1])
NonZeros(R) == SumSeq([i \in 1..Len(R) |-> Cardinality({j \in 1..Len(R[i]) : R[i][j] # 0})])
Positives(R) == SumSeq([i \in 1..Len(R) |-> Cardinality({j \in 1..Len(R[i]) : R[i][j] > 0})])
\* pooled over the matrices of a case: tot entries, nz non-zero, pos positive; nf = s*s, density 1/s.
\* (nz - tot/s)^2 <= 64 tot (1/s)(1 - 1/s)  <=>  (nz s - tot)^2 <= 64 tot (s - 1) ;  (2 pos - nz)^2 <= 64 nz
DensityOk(tot, nz, pos, s) ==
  /\ (nz * s - tot) * (nz * s - tot) <= 64 * tot * (s - 1)
  /\ (2 * pos - nz) * (2 * pos - nz) <= 64 * nz

-----------------------------------------------------------------------------
(* diffusion map: K n x n kernel at S6 (symmetric, entries in (0, 1], unit diagonal), E n x es      *)
(* embedding at S6, lam eigenvalues at S6                                                            *)
KSym(K) == \A i \in 1..Len(K) : \A k \in 1..Len(K) : K[i][k] = K[k][i]
KMin(K) == MinSeq([i \in 1..Len(K) |-> MinSeq(K[i])])
RowSum(K, i) == SumSeq(K[i])

\* residual of the eigen-equation at (i, j), units of 10^-6:  SUM_k K_ik e_kj  -  lam_j * (SUM_k K_ik) * e_ij
DmResid(K, E, lam, i, j) ==
  LET le == MulS6(lam[j], E[i][j])
  IN SumSeq([k \in 1..Len(K) |-> MulS6(K[i][k], E[k][j]) - MulS6(K[i][k], le)])
\* each MulS6 truncates (< 2 units) and carries the quantisation of its factors (<= 1 unit): < 9 units per k
DmEigSlack(n) == 9 * n + 10
DmEigOk(K, E, lam, es) ==
  \A j \in 1..es : \A i \in 1..Len(K) : Abs(DmResid(K, E, lam, i, j)) <= DmEigSlack(Len(K))

\* non-increasing in magnitude (two units for a near tie)
DmSortedOk(lam) == \A j \in 1..(Len(lam) - 1) : Abs(lam[j]) + 2 >= Abs(lam[j + 1])

\* the trivial pair (eigenvalue 1, constant vector) is not part of the embedding.  For a kernel with
\* entries >= kmin and row sums <= n every row of P dominates (kmin / n) * ones, hence every other
\* eigenvalue is at most 1 - kmin (Doeblin).
DmNonTrivialOk(K, lam) == \A j \in 1..Len(lam) : lam[j] <= S6 - KMin(K) + 10

\* leading: the eigenvalues of P are real, non-negative for a positive semi-definite K, and sum to
\* trace(P) = SUM_i K_ii / r_i ; the n - 1 - es eigenvalues that were not reported lie in [0, lam_es]
\* floor(a * 10^6 / r) for a >= 0, 0 < r < 2 * 10^8, by decimal long division inside 31 bits
RECURSIVE LongDiv(_, _, _, _)
LongDiv(rem, r, k, acc) ==
  IF k = 0 THEN acc ELSE LongDiv((rem * 10) % r, r, k - 1, acc * 10 + (rem * 10) \div r)
DivS6(a, r) == LongDiv(a % r, r, 6, a \div r)
DmTrace(K) == SumSeq([i \in 1..Len(K) |-> DivS6(K[i][i], RowSum(K, i))])
\* slack: each r_i carries n half-units of quantisation (relative n/2 * 10^-6 / r_i, r_i >= 1), each quotient is
\* truncated, each reported eigenvalue carries half a unit
DmTraceSlack(n, es) == n * (n \div 2 + 2) + es + 5
DmTraceOk(K, lam, es) ==
  LET n    == Len(K)
      rest == DmTrace(K) - S6 - SumSeq(lam)
      sl   == DmTraceSlack(n, es)
  IN /\ rest >= -sl
     /\ rest <= (n - 1 - es) * (lam[es] + 2) + sl

\* a zero column satisfies the eigen-equation trivially.  The right eigenvectors are D^-1/2 times unit vectors
\* (any normalisation at least as large as 1/2 of that is accepted): n * |e_j|^2 >= lam_j^(2 steps) / 4
RECURSIVE PowS6(_, _)
PowS6(a, t) == IF t = 0 THEN S6 ELSE MulS6(a, PowS6(a, t - 1))
DmNonZeroOk(K, E, lam, es, steps) ==
  \A j \in 1..es :
    LET n2 == SumSeq([i \in 1..Len(K) |-> MulS6(E[i][j], E[i][j])])
    IN 4 * Len(K) * (n2 + 3 * Len(K)) >= PowS6(lam[j], 2 * steps) - 6 * steps - 2

\* steps: the embedding after t steps is the embedding after one step with column j scaled by lam_j^(t-1)
\* (up to the sign of the column); the reported eigenvalues are those of the operator itself
DmStepsOk(E1, lam1, Et, lamt, es, t) ==
  /\ \A j \in 1..es : Abs(lamt[j] - lam1[j]) <= 1
  /\ \A j \in 1..es : \E sg \in {1, -1} : \A i \in 1..Len(E1) :
        Abs(Et[i][j] - sg * MulS6(E1[i][j], PowS6(lam1[j], t - 1))) <= 3 * t + 2

DmShapeOk(E, lam, n, es) == IsMatrix(E, n, es) /\ Len(lam) = es

\* Gaussian kernel of lattice points: K_ik = exp(-|x_i - x_k|^2 / eps), eps = en/ed ; Elem works at 10^4
\* (table error 2 units, rounded argument 1/2 unit, truncation of K to 10^-4 one unit: 5 units allowed)
SqDist(a, b) == SumSeq([q \in 1..Len(a) |-> (a[q] - b[q]) * (a[q] - b[q])])
KernelOk(K, pts, en, ed) ==
  /\ IsMatrix(K, Len(pts), Len(pts))
  /\ \A i \in 1..Len(pts) : \A k \in 1..Len(pts) :
        Abs(K[i][k] \div 100 - ExpNeg(RoundDiv(SqDist(pts[i], pts[k]) * ed * ES, en))) <= 5

-----------------------------------------------------------------------------
(* Part 2 -- bounded design model of the random projection: Fit, then Transform of batches / rows.  *)
(* The projection matrix is drawn from a small integer alphabet (the rng is the nondeterminism).     *)
CONSTANTS MaxF,      \* largest number of features
          AMax,      \* matrix entries and input cells range over -AMax..AMax
          MaxG       \* bound on the number of distinct rows transformed

VARIABLES phase,     \* "new" | "fitted" | "error"
          nf, td,    \* number of features, requested dimension (chosen in Init)
          R,         \* the projection matrix, nf x td
          graph      \* set of <<row, image>> produced by the transform calls so far
vars == <<phase, nf, td, R, graph>>

Alpha == (-AMax)..AMax
RowsOf(f) == [1..f -> Alpha]
Init == /\ phase = "new" /\ nf \in 1..MaxF /\ td \in 0..(MaxF + 1) /\ R = <<>> /\ graph = {}

\* documented failures: dimension zero, dimension larger than the number of features
Fit ==
  /\ phase = "new"
  /\ IF td = 0 \/ td > nf
       THEN phase' = "error" /\ R' = R
       ELSE phase' = "fitted" /\ R' \in [1..nf -> [1..td -> Alpha]]
  /\ UNCHANGED <<nf, td, graph>>

\* rows are transformed in increasing index order (the graph is a set: every set of rows is still reached,
\* once), alone or two in a batch
RowIdx(x) == SumSeq([k \in 1..Len(x) |-> (x[k] + AMax) * ((2 * AMax + 1) ^ (k - 1))])
Fresh(x) == \A g \in graph : RowIdx(g[1]) < RowIdx(x)

TransformBatch ==
  /\ phase = "fitted"
  /\ \E x1 \in RowsOf(nf) : \E x2 \in RowsOf(nf) :
       /\ Fresh(x1) /\ RowIdx(x1) < RowIdx(x2)
       /\ LET Y == MatMul(<<x1, x2>>, R, td) IN graph' = graph \cup {<<x1, Y[1]>>, <<x2, Y[2]>>}
  /\ UNCHANGED <<phase, nf, td, R>>

TransformRow ==
  /\ phase = "fitted"
  /\ \E x \in RowsOf(nf) : Fresh(x) /\ graph' = graph \cup {<<x, MatMul(<<x>>, R, td)[1]>>}
  /\ UNCHANGED <<phase, nf, td, R>>

Next == Fit \/ TransformBatch \/ TransformRow
Bounded == Cardinality(graph) <= MaxG

\* a fitted projection has shape (nf, td) with 1 <= td <= nf; failure exactly in the documented cases
InvShape ==
  /\ phase = "fitted" => IsMatrix(R, nf, td) /\ td \in 1..nf /\ DimOutcomeOk(td, nf, TRUE, "", <<>>, <<nf, td>>)
  /\ phase = "error"  => (td = 0 \/ td > nf)
  /\ (phase = "error" /\ td > nf) => DimOutcomeOk(td, nf, FALSE, "DimensionIncrease", <<td, nf>>, <<>>)
  /\ \A g \in graph : Len(g[1]) = nf /\ Len(g[2]) = td
\* the image of the identity is the matrix itself (how the harness observes the matrix, which has no accessor)
InvIdentity == phase = "fitted" => MatMul(Eye(nf), R, td) = R
\* a row has one image, whatever batch it travelled in
InvFunctional == \A a \in graph : \A b \in graph : a[1] = b[1] => a[2] = b[2]
\* the image is the combination of the rows of R with the cells of x as coefficients; zero goes to zero
InvLinear ==
  \A g \in graph :
    /\ \A j \in 1..td : g[2][j] = SumSeq([k \in 1..nf |-> g[1][k] * R[k][j]])
    /\ (\A k \in 1..nf : g[1][k] = 0) => \A j \in 1..td : g[2][j] = 0
\* the observed relation accepts the exact image at scale S6 and rejects it once one cell moves beyond the slack
ScaleM(M) == [i \in 1..Len(M) |-> [j \in 1..Len(M[i]) |-> M[i][j] * S6]]
Bump(y, j, by) == [q \in 1..Len(y) |-> IF q = j THEN y[q] + by ELSE y[q]]
InvRelTight ==
  \A g \in graph :
    LET RS == ScaleM(R)
        ys == [j \in 1..td |-> g[2][j] * S6]
    IN /\ TfOk(<<g[1]>>, RS, <<ys>>, td, "f64")
       /\ \A j \in 1..td :
            LET sl == TfSlack(g[1], ColOf(RS, j), "f64") IN
            /\ TfOk(<<g[1]>>, RS, <<Bump(ys, j, sl)>>, td, "f64")
            /\ ~TfOk(<<g[1]>>, RS, <<Bump(ys, j, sl + 1)>>, td, "f64")
            /\ ~TfOk(<<g[1]>>, RS, <<Bump(ys, j, -(sl + 1))>>, td, "f64")
=============================================================================
