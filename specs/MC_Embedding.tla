---------------------------- MODULE MC_Embedding ----------------------------
(***************************************************************************************************)
(* X03 -- the relations of Embedding.tla evaluated on closed-form instances (guards against a       *)
(* wrong or vacuous relation).  Every probe is an initial state; the invariants say that the         *)
(* relation accepts the exact answer rounded to the grid and rejects named wrong answers.            *)
(*   jl   : (n, p, q)  the bracket of the Johnson-Lindenstrauss dimension has at most two members,   *)
(*          is monotone in n, and contains the values pinned by linfa's unit test (from sklearn)     *)
(*   k2   : two points, K = [[1, k], [k, 1]]: P = K / (1 + k) has the non-trivial pair               *)
(*          lambda = (1 - k) / (1 + k), psi = c (1, -1)                                              *)
(*   k3   : three points in a symmetric configuration, K = [[1,a,b],[a,1,a],[b,a,1]]:                *)
(*          lambda_A = (1 - b) / (1 + a + b) with psi_A = (1, 0, -1), and                            *)
(*          lambda_S = trace(P) - 1 - lambda_A with psi_S = (1 + 2a, -2 (1 + a + b), 1 + 2a)         *)
(*   dens : pooled counts of a sparse matrix                                                          *)
(***************************************************************************************************)
EXTENDS Embedding

VARIABLE probe

\* dyadic kernel entries at S6
KVals == {500000, 250000, 125000, 62500, 750000}
EpsGrid == {<<1, 2>>, <<1, 4>>, <<3, 4>>, <<1, 5>>, <<1, 10>>, <<9, 10>>, <<7, 10>>}
Pinned == {<<100, 1, 10, 3947>>, <<100, 1, 5, 1062>>, <<100, 1, 2, 221>>,
           <<1000, 1, 10, 5920>>, <<1000, 1, 5, 1594>>, <<1000, 1, 2, 331>>}

\* every numbered clause must hold; the number of a false one is printed
Chk(cl) == \A q \in 1..Len(cl) : cl[q][2] \/ (PrintT(<<"clause", cl[q][1], probe>>) /\ FALSE)

PInit ==
  \/ \E n \in 2..1023, e \in EpsGrid : probe = [k |-> "jl", n |-> n, p |-> e[1], q |-> e[2]]
  \/ \E kk \in KVals, t \in 1..3 : probe = [k |-> "k2", kk |-> kk, t |-> t]
  \/ \E a \in KVals, b \in KVals, t \in 1..2 : b <= a /\ S6 + b >= 2 * MulS6(a, a) + 1000      \* positive definite: 1 + b > 2 a^2
                                             /\ probe = [k |-> "k3", a |-> a, b |-> b, t |-> t]
  \/ \E s \in 1..5, m \in {4, 16, 64} : probe = [k |-> "dens", s |-> s, tot |-> s * s * m * 4]
PNext == UNCHANGED probe
\* the design-model variables of Embedding are not used here
PSpecInit == PInit /\ phase = "probe" /\ nf = 0 /\ td = 0 /\ R = <<>> /\ graph = {}
PSpecNext == PNext /\ UNCHANGED vars

-----------------------------------------------------------------------------
InvJL ==
  probe.k = "jl" =>
    LET n == probe.n  p == probe.p  q == probe.q IN
    /\ EpsValid(p, q)
    /\ JLLo(n, p, q) <= JLHi(n, p, q) /\ JLHi(n, p, q) - JLLo(n, p, q) <= 1
    /\ JLLo(n, p, q) <= JLLo(n + 1, p, q)                          \* more samples never need fewer dimensions
    /\ JLLo(n, p, q) >= 16                                          \* 4 ln 2 / (1/6) = 16.6: the smallest possible
    /\ \A pin \in Pinned : (pin[1] = n /\ pin[2] = p /\ pin[3] = q) => pin[4] \in JLDims(n, p, q)

\* ---- two points
K2(kk) == <<<<S6, kk>>, <<kk, S6>>>>
Lam2(kk) == DivS6(S6 - kk, S6 + kk)                                 \* (1 - k) / (1 + k)
C2 == 400000
E2(kk, t) == LET c == MulS6(C2, PowS6(Lam2(kk), t)) IN <<<<c>>, <<-c>>>>
InvK2 ==
  probe.k = "k2" =>
    LET kk == probe.kk  t == probe.t  K == K2(kk)  lam == <<Lam2(kk)>>  E == E2(kk, t)
        wrong == <<DivS6(Lam2(kk), S6 + kk)>>       \* lambda / (1 + k): K D^-2 instead of D^-1/2 K D^-1/2
        big == PowS6(lam[1], 2 * t) > 1000          \* the vector is visible on the grid
    IN Chk(<<
         <<1, KSym(K) /\ DmShapeOk(E, lam, 2, 1)>>,
         <<2, DmEigOk(K, E, lam, 1)>>,
         <<3, DmTraceOk(K, lam, 1)>>,
         <<4, DmNonTrivialOk(K, lam)>>,
         <<5, DmNonZeroOk(K, E, lam, 1, t)>>,
         <<6, DmSortedOk(lam)>>,
         \* the residual is absolute: a perturbed eigenvalue is visible in proportion to the size of the vector
         <<7, t = 1 => ~DmEigOk(K, E, <<lam[1] + 400>>, 1) /\ ~DmEigOk(K, E, <<lam[1] - 400>>, 1)>>,
         <<8, t = 1 => ~DmEigOk(K, E, wrong, 1)>>,
         <<9, ~DmTraceOk(K, wrong, 1)>>,
         <<10, ~DmTraceOk(K, <<lam[1] + 100>>, 1) /\ ~DmTraceOk(K, <<lam[1] - 100>>, 1)>>,
         <<11, ~DmNonTrivialOk(K, <<S6>>)>>,                         \* the trivial pair is not an embedding coordinate
         <<12, DmEigOk(K, <<<<C2>>, <<C2>>>>, <<S6>>, 1)>>,          \* ... although it satisfies the eigen-equation
         <<13, big => ~DmNonZeroOk(K, <<<<0>>, <<0>>>>, lam, 1, t)>>,  \* the zero vector is not an eigenvector
         <<14, t = 1 => ~DmEigOk(K, <<<<E[1][1]>>, <<E[1][1]>>>>, lam, 1)>>,   \* nor the constant one for lambda < 1
         <<15, DmStepsOk(E2(kk, 1), lam, E, lam, 1, t)>>,
         <<16, t > 1 => ~DmStepsOk(E2(kk, 1), lam, E2(kk, 1), lam, 1, t)>>,    \* steps ignored
         <<17, DmStepsOk(E2(kk, 1), lam, <<<<-E[1][1]>>, <<-E[2][1]>>>>, lam, 1, t)>>   \* sign of a column is free
       >>)

\* ---- three points, symmetric
K3(a, b) == <<<<S6, a, b>>, <<a, S6, a>>, <<b, a, S6>>>>
LamA(a, b) == DivS6(S6 - b, S6 + a + b)
LamS(a, b) == DmTrace(K3(a, b)) - S6 - LamA(a, b)
\* psi_A = cA (1, 0, -1) ; psi_S = cS (1 + 2a, -2(1 + a + b), 1 + 2a) ; scaled by lambda^t
VecA(a, b, t) == LET c == MulS6(300000, PowS6(LamA(a, b), t)) IN <<c, 0, -c>>
VecS(a, b, t) ==
  LET w == PowS6(LamS(a, b), t)
      x == MulS6(MulS6(300000, S6 + 2 * a), w)
      y == MulS6(MulS6(300000, 2 * (S6 + a + b)), w)
  IN <<x, -y, x>>
Cols2(u, v) == [i \in 1..3 |-> <<u[i], v[i]>>]
InvK3 ==
  probe.k = "k3" =>
    LET a == probe.a  b == probe.b  t == probe.t  K == K3(a, b)
        la == LamA(a, b)  ls == LamS(a, b)
        aFirst == la >= ls
        lam == IF aFirst THEN <<la, ls>> ELSE <<ls, la>>
        E == IF aFirst THEN Cols2(VecA(a, b, t), VecS(a, b, t)) ELSE Cols2(VecS(a, b, t), VecA(a, b, t))
        Esw == IF aFirst THEN Cols2(VecS(a, b, t), VecA(a, b, t)) ELSE Cols2(VecA(a, b, t), VecS(a, b, t))
        E1 == [i \in 1..3 |-> <<E[i][1]>>]
    IN Chk(<<
         <<1, KSym(K) /\ DmShapeOk(E, lam, 3, 2) /\ ls >= 0>>,
         <<2, DmEigOk(K, E, lam, 2)>>,
         <<3, DmSortedOk(lam)>>,
         <<4, DmTraceOk(K, lam, 2)>>,
         <<5, DmNonTrivialOk(K, lam)>>,
         <<6, DmNonZeroOk(K, E, lam, 2, t)>>,
         \* es = 1: the leading pair is accepted, the second one alone is not (unless the two nearly coincide)
         <<7, DmEigOk(K, E1, <<lam[1]>>, 1) /\ DmTraceOk(K, <<lam[1]>>, 1)>>,
         <<8, lam[1] - lam[2] > 2 * DmTraceSlack(3, 1) + 4 => ~DmTraceOk(K, <<lam[2]>>, 1)>>,
         \* eigenvalues in the wrong order / vectors attached to the wrong eigenvalue
         <<9, lam[1] - lam[2] > 4 => ~DmSortedOk(<<lam[2], lam[1]>>)>>,
         <<10, (t = 1 /\ lam[1] - lam[2] > 1000) => ~DmEigOk(K, Esw, lam, 2)>>,
         <<11, ~DmTraceOk(K, <<lam[1] + 100, lam[2]>>, 2)>>
       >>)

\* ---- pooled density of the sparse matrices
InvDens ==
  probe.k = "dens" =>
    LET s == probe.s  tot == probe.tot  nz == tot \div s IN
    /\ DensityOk(tot, nz, nz \div 2, s)
    /\ s = 1 => ~DensityOk(tot, tot - 1, (tot - 1) \div 2, 1)             \* density one: every entry is non-zero
    /\ (s > 1 /\ tot > (64 * s * s) \div (s - 1) + 1) =>
          ~DensityOk(tot, tot \div (s * s), tot \div (2 * s * s), s)       \* density 1/n_features instead of 1/sqrt
    /\ nz > 64 => ~DensityOk(tot, nz, nz, s) /\ ~DensityOk(tot, nz, 0, s)  \* one sign only
=============================================================================
