---------------------------- MODULE Gen_Isotonic ----------------------------
(* Case generator for X01 (isotonic regression).                                                  *)
(* kind "fit":   inp = [x, y, w, q, ty]: abscissae, targets, weights (<<>> = no weights), doubled   *)
(*               query abscissae (query = q/2), float type.  Families:                             *)
(*     A  every x in 1..XA, every y in 0..YA, n <= NA (all orders of x, all patterns of duplicates)*)
(*     P  every permutation of 1..NP as x, every y in 0..YP        (unsorted distinct abscissae)   *)
(*     T  n = NT, x monotone (non-decreasing or non-increasing) over 1..3, y in 0..YT  (ties)      *)
(*     W  x = 1..n ascending or descending, n <= NW, y in 0..YW, weights in WS                     *)
(*     L  x = 1..NL ascending / descending, y in 0..YL              (longer chains of poolings)    *)
(*     F  every x in 1..XA, every y in 0..YA, n = NF, as f32                                       *)
(* kind "shape": inp = [what, d, x, y, q, ty]: a valid data set and one mismatch:                  *)
(*     fit_dim  records with 2 columns ; fit_len  targets of length n + d ;                        *)
(*     pred_dim query matrix with 2 columns ; pred_len output buffer of length #q + d ;            *)
(*     none     no mismatch (must be accepted)                                                     *)
EXTENDS Integers, Sequences, FiniteSets, TLC, Json

CONSTANTS NA, XA, YA,     \* family A
          NP, YP,         \* family P
          NT, YT,         \* family T
          NW, YW, WS,     \* family W (WS = set of weight values)
          NL, YL,         \* family L
          NF              \* family F

VARIABLE case

Asc(n)  == [i \in 1..n |-> i]
Desc(n) == [i \in 1..n |-> n + 1 - i]
Injective(f) == \A a \in DOMAIN f : \A b \in DOMAIN f : a # b => f[a] # f[b]
Mono(f) == (\A i \in 1..(Len(f) - 1) : f[i] <= f[i + 1]) \/ (\A i \in 1..(Len(f) - 1) : f[i] >= f[i + 1])

\* queries: 0.5, 1, 1.5, ... , max + 1 (all training abscissae, all midpoints, one point on either side), not in
\* ascending order: the odd doubled values ascending, then the even ones descending
Queries(mx) == [j \in 1..(2 * mx + 2) |-> IF j <= mx + 1 THEN 2 * j - 1 ELSE 2 * (2 * mx + 3 - j)]

MaxOf(x) == CHOOSE m \in {x[i] : i \in DOMAIN x} : \A i \in DOMAIN x : x[i] <= m
Fit(x, y, w, ty) == [kind |-> "fit", inp |-> [x |-> x, y |-> y, w |-> w, q |-> Queries(MaxOf(x)), ty |-> ty]]

\* A seed fixes (x, w, type, range of y); the seeds are the initial states and one Next step expands a seed into
\* its cases (all y), so that TLC's workers share the enumeration (initial states are handled by one thread).
Seed(x, w, ty, ymax) == [kind |-> "seed", x |-> x, w |-> w, ty |-> ty, ymax |-> ymax]
SeedA == UNION {{Seed(x, <<>>, "f64", YA) : x \in [1..n -> 1..XA]} : n \in 1..NA}
SeedP == {Seed(x, <<>>, "f64", YP) : x \in {f \in [1..NP -> 1..NP] : Injective(f)}}
SeedT == {Seed(x, <<>>, "f64", YT) : x \in {f \in [1..NT -> 1..3] : Mono(f) /\ ~Injective(f)}}
SeedW == UNION {{Seed(x, w, "f64", YW) : x \in {Asc(n), Desc(n)}, w \in [1..n -> WS]} : n \in 2..NW}
SeedL == IF NL = 0 THEN {} ELSE {Seed(x, <<>>, "f64", YL) : x \in {Asc(NL), Desc(NL)}}
SeedF == {Seed(x, <<>>, "f32", YA) : x \in [1..NF -> 1..XA]}
Seeds == SeedA \cup SeedP \cup SeedT \cup SeedW \cup SeedL \cup SeedF \cup {[kind |-> "shapes"]}

Shapes ==
  {[kind |-> "shape", inp |-> [what |-> wh, d |-> d, x |-> x, y |-> y, q |-> Queries(3), ty |-> ty]] :
     wh \in {"fit_dim", "fit_len", "pred_dim", "pred_len", "none"}, d \in {-1, 1},
     x \in {<<1, 2, 3>>, <<3, 1, 2>>}, y \in {<<0, 2, 1>>, <<2, 1, 1>>}, ty \in {"f64", "f32"}}

Init == case \in Seeds

Next == \/ case.kind = "seed" /\ \E y \in [1..Len(case.x) -> 0..case.ymax] : case' = Fit(case.x, y, case.w, case.ty)
        \/ case.kind = "shapes" /\ case' \in Shapes
Emit == case.kind \in {"seed", "shapes"} \/ PrintT("CASE " \o ToJson(case))
=============================================================================
