"""C06 -- Kernel matrices hold the kernel function; hierarchical clustering partitions (DESIGN.md 8/C06).

Two specifications, one harness (harness/src/bin/c06.rs):
  KernelMat / Gen_KernelMat / Trace_KernelMat : what a kernel holds and what its views report
  HierClust / Gen_HierClust / Trace_HierClust : agglomerative clustering as a Merge/Stop state machine
"""
import json
import vlib

# ---- tier constants -------------------------------------------------------------------------
K_MODEL = {"quick": dict(MaxN=3, Coords="{0, 1, 2}", Dim=2, NMeth=5), "thorough": dict(MaxN=4, Coords="{0, 1, 2}", Dim=2, NMeth=5)}
K_GEN = {"quick": dict(MaxN2=4, MaxN1=4, MaxN3=3, Stride=3), "thorough": dict(MaxN2=5, MaxN1=5, MaxN3=4, Stride=1)}
K_INVS = ["InvFrac", "InvShift", "InvSym", "InvGaussDiag", "InvGaussRange", "InvGaussMono", "InvGaussPSD", "InvLinearPSD", "InvPolyLinear",
          "InvPatFull", "InvPatMin", "InvPatUnique", "InvPatOneSided", "InvPatKPlus", "InvViews"]
K_TRACE_CONST = dict(MaxN=0, Coords="{}", Dim=0, NMeth=0)

B_MODEL = {"quick": dict(Fields='{"a", "b", "c"}', Values="{1, 2}", MaxLen=4),
           "thorough": dict(Fields='{"a", "b", "c"}', Values="{1, 2, 3}", MaxLen=5)}
H_MODEL = {"quick": dict(MaxN=3, Vals="{0, 1, 2, 20}"), "thorough": dict(MaxN=4, Vals="{0, 1, 2}")}
H_MODEL2 = dict(MaxN=3, Vals="{0, 1, 2, 3, 5, 20}")      # thorough: second run, more levels and floored entries
H_GEN = {"quick": dict(MaxN=4, Stride=6), "thorough": dict(MaxN=5, Stride=1)}
H_INVS = ["InvPartition", "InvCount", "InvMonotone", "InvNumDone", "InvDistDone", "InvSingleCC", "InvSingleKruskal",
          "InvCompleteDiam", "InvWeak", "InvLive"]
H_TRACE_CONST = dict(MaxN=0, Vals="{}")

METHODS = [           # degree = d/dd
    {"name": "linear", "en": 1, "ed": 1, "c": 0, "d": 1, "dd": 1},
    {"name": "gauss", "en": 1, "ed": 2, "c": 0, "d": 0, "dd": 1},
    {"name": "poly", "en": 1, "ed": 1, "c": 1, "d": 2, "dd": 1},
    {"name": "gauss", "en": 1, "ed": 1, "c": 0, "d": 0, "dd": 1},
    {"name": "poly", "en": 1, "ed": 1, "c": 1, "d": 3, "dd": 2},
    {"name": "gauss", "en": 4, "ed": 1, "c": 0, "d": 0, "dd": 1},
    {"name": "poly", "en": 1, "ed": 1, "c": 2, "d": 3, "dd": 1},
    {"name": "poly", "en": 1, "ed": 1, "c": 0, "d": 1, "dd": 2},
    {"name": "gauss", "en": 5, "ed": 2, "c": 0, "d": 0, "dd": 1},
]
EXACT_LINKS = ["single", "complete", "average", "weighted"]
OTHER_LINKS = ["ward", "centroid", "median"]


def random_kernel_cases(ctx, count):
    """larger random record matrices of the same schema (thorough tier)"""
    out = []
    r = ctx.rng
    for _ in range(count):
        n = r.randint(5, 12)
        dim = r.randint(1, 3)
        hi = r.choice([2, 3, 4])
        pts = [[r.randint(0, hi) for _ in range(dim)] for _ in range(n)]
        k = r.choice([0, 1, 2, n - 1, r.randint(1, n - 1), r.randint(1, n - 1)])
        meth = dict(r.choice(METHODS))
        while meth["name"] == "poly" and meth["d"] > meth["dd"] and (hi * hi * dim + meth["c"]) ** (meth["d"] / meth["dd"]) > 1000:
            meth["d"] -= meth["dd"]  # keep every sum of (dot+c)^d * 10^4 inside TLC's 32-bit integers (coordinates >= 0: base >= 0)
        rhs = [[r.randint(-2, 2), r.randint(-2, 2)] for _ in range(n)]
        pd = r.choice([1, 1, 2])
        off = r.randint(0, 3) if meth["name"] == "gauss" else 0     # shifted records: shift-invariant kernel only
        out.append({"kind": "kernel", "inp": {"pts": pts, "meth": meth, "k": k, "rhs": rhs, "pd": pd, "off": off, "hnn": "kd", "hists": []}})
    return out


def hier_crits(n, hs, den):
    cr = [{"t": "num", "c": q, "tn": 0, "td": 1} for q in range(1, n + 2)]
    cr += [{"t": "dist", "c": 0, "tn": 101 * h + 37, "td": 101 * den} for h in hs]
    cr += [{"t": "dist", "c": 0, "tn": 0, "td": 1}, {"t": "floor", "c": 0, "tn": 0, "td": 1},
           {"t": "dist", "c": 0, "tn": 15, "td": 1}]
    return cr


def random_hier_cases(ctx, count):
    """larger random dissimilarity matrices / point sets of the same schema (thorough tier).
    Values are drawn from wide ranges (few ties) so that the merge search stays small."""
    out = []
    r = ctx.rng
    none = {"name": "none", "en": 1, "ed": 1, "c": 0, "d": 0, "dd": 1}
    for _ in range(count):
        if r.random() < 0.6:
            n = r.randint(5, 8)
            link = r.choice(EXACT_LINKS * 3 + OTHER_LINKS)
            if link == "weighted":
                n = min(n, 7)
            vals = list(range(0, 41)) + ([80] if r.random() < 0.3 else [])
            dk = [[0] * n for _ in range(n)]
            for i in range(n):
                for j in range(i + 1, n):
                    dk[i][j] = dk[j][i] = r.choice(vals)
            hs = sorted(r.sample(range(0, 42), 4))
            out.append({"kind": "hier", "inp": {"src": "expmat", "dk": dk, "qd": 4, "pts": [], "pd": 1, "off": 0, "meth": none, "link": link,
                                                 "f32": r.random() < 0.25, "crits": hier_crits(n, hs, 4), "hists": []}})
        else:
            n = r.randint(5, 8)
            link = r.choice(EXACT_LINKS)
            if link == "weighted":
                n = min(n, 7)
            dim = r.randint(1, 3)
            pts = [[r.randint(0, 4) for _ in range(dim)] for _ in range(n)]
            en, ed = r.choice([(4, 1), (5, 1), (2, 1)])     # eps >= 2: |x-y|^2 <= 48 stays away from the floor band
            maxd = 16 * dim
            if any(135 * en < 10 * d * ed < 141 * en for d in range(maxd + 1)):
                en, ed = 5, 1
            hs = sorted(r.sample(range(0, maxd + 2), 4))
            hs = [h for h in hs if not (135 * 101 * en < 10 * (101 * h + 37) < 141 * 101 * en)]
            out.append({"kind": "hier", "inp": {"src": "pts", "dk": [], "qd": 1, "pts": pts, "pd": 1, "off": r.randint(0, 3),
                                                 "meth": {"name": "gauss", "en": en, "ed": ed, "c": 0, "d": 0, "dd": 1}, "link": link,
                                                 "f32": r.random() < 0.25, "crits": hier_crits(n, hs, en), "hists": []}})
    return out


def kernel_nontrivial(case):
    i = case["inp"]
    pts = i["pts"]
    return i["k"] > 0 and len(pts) >= 3 and len({tuple(p) for p in pts}) >= 2


def hier_nontrivial(case):
    i = case["inp"]
    if i["src"] == "pts":
        return len({tuple(p) for p in i["pts"]}) >= 3
    vals = {v for row in i["dk"] for v in row}
    return len(i["dk"]) >= 3 and len(vals) >= 3


def run(ctx):
    binp = vlib.cargo_build("c06")
    vlib.mc_elem(ctx)
    # (A) design models
    vlib.tlc_mc(ctx, "C06Builder", {"constants": B_MODEL[ctx.tier], "invariants": ["InvFold", "InvLastWins", "InvOrderFree", "InvOthers"]},
                workers=4)
    vlib.tlc_mc(ctx, "KernelMat", {"constants": K_MODEL[ctx.tier], "invariants": K_INVS})
    vlib.tlc_mc(ctx, "HierClust", {"constants": H_MODEL[ctx.tier], "invariants": H_INVS},
                coverage_actions=["Merge", "Stop"] if ctx.quick else None)
    if not ctx.quick:
        vlib.tlc_mc(ctx, "HierClust", {"constants": H_MODEL2, "invariants": H_INVS})
    # (B) cases
    kcases = vlib.tlc_gen(ctx, "Gen_KernelMat", {"constants": K_GEN[ctx.tier], "invariants": ["Emit"]})
    hcases = vlib.tlc_gen(ctx, "Gen_HierClust", {"constants": H_GEN[ctx.tier], "invariants": ["Emit"]})
    ctx.exhaustive = False      # the largest sizes are hash-sampled; the complete sub-domains are stated in ctx.extra
    if not ctx.quick:
        kcases += random_kernel_cases(ctx, 600)
        hcases += random_hier_cases(ctx, 800)
    cases = kcases + hcases
    vlib.number(cases)
    ctx.cases = len(cases)
    ctx.nontrivial = len({json.dumps(c["inp"], sort_keys=True) for c in cases
                          if (kernel_nontrivial(c) if c["kind"] == "kernel" else hier_nontrivial(c))})
    # (C) execute and validate
    traces = vlib.run_harness(ctx, binp, cases)
    ktr = [t for t in traces if t["kind"] == "kernel"]
    htr = [t for t in traces if t["kind"] == "hier"]
    vlib.sample(ctx, [t for t in ktr if t["inp"]["k"] == 1 and len(t["inp"]["pts"]) == 3][:1]
                + [t for t in htr if t["inp"]["src"] == "expmat" and len(t["inp"]["dk"]) == 3 and t["inp"]["link"] == "complete"][40:41])
    vlib.validate_with_findings(ctx, "Trace_KernelMat", ktr, constants=K_TRACE_CONST, chunk=3000, tag="Trace_KernelMat")
    vlib.validate_with_findings(ctx, "Trace_HierClust", htr, constants=H_TRACE_CONST, chunk=3000, tag="Trace_HierClust")
    ctx.extra = {"complete_subdomain": ("kernels: every point multiset with n <= 3 x every k; clusterings: every dissimilarity matrix with n <= 3 x {single, complete, average, weighted}"
                                        if ctx.quick else
                                        "kernels: every point multiset with n <= 5 ({0,1,2}^2, {-2..2}) resp. n <= 4 ({0,1}^3) x every k; clusterings: every dissimilarity matrix with n <= 4 "
                                        "x {single, complete, average, weighted}"),
                 "kernel_cases": len(ktr), "hier_cases": len(htr),
                 "hier_events": sum(len(t["ev"]) for t in htr), "kernel_events": sum(len(t["ev"]) for t in ktr)}
    ctx.rule = ("kernel cases = every multiset of 2..N lattice points ({0,1,2}^2, {-2..2}^1, {0,1}^3; sorted or reversed) x every k in 0..n-1 "
                "(0 = dense) with a hashed kernel method (linear / 3 polynomial / 4 Gaussian bandwidths), each built through 9 calling "
                "forms, 3 neighbour indices and f32/f64; clustering cases = every symmetric dissimilarity matrix over a small value set "
                "(n<=3: {0,1,2,3,floored}, n=4: {1,2,3} and {0,2,floored}, n=5: {1,2}) realised as similarity exp(-dk/4), and Gaussian kernels "
                "of grid multisets, x linkage x every count 1..n+1 and 7-8 thresholds [+ seeded random larger cases in the thorough tier; the "
                "quick tier keeps one in Stride of the largest sizes]. Non-trivial: kernel = sparse, n>=3, >=2 distinct points; clustering = "
                "n>=3 and >=3 distinct dissimilarity levels / >=3 distinct points; distinct by input")
    ctx.trusted = ["TLC + CommunityModules Json", "Elem tables (self-checked by MC_Elem)", "harness encodings (harness/src/bin/c06.rs)",
                   "kodama's linkage is observed only through linfa-hierarchical's labels"]
    ctx.assumptions = ["Gaussian kernel = exp(-|x-y|^2/eps) (squared norm, as implemented and as the standard definition)",
                       "dissimilarity of a similarity s is -ln(max(s, 1e-6)) (the documented floor of the anchored mechanism)",
                       "values are compared at scale 10^4 with slack 1 (exact kernels) / 4 (Gaussian: table error 2 + rounding)",
                       "ties (equal distances at the k-th neighbour, equal linkage values, value = inexact threshold) accept every resolution",
                       "Ward / centroid / median linkage: only partition and count clauses (Lance-Williams heights not recomputed)"]
    return vlib.finish(ctx)


def replay(ctx, case):
    binp = vlib.cargo_build("c06")
    vlib.mc_elem(ctx)
    traces = vlib.run_harness(ctx, binp, [case])
    ctx.cases = 1
    if case["kind"] == "kernel":
        vlib.validate_with_findings(ctx, "Trace_KernelMat", traces, constants=K_TRACE_CONST)
    else:
        vlib.validate_with_findings(ctx, "Trace_HierClust", traces, constants=H_TRACE_CONST)
    return vlib.finish(ctx)
