"""C08 -- DBSCAN and OPTICS output is the density clustering of the input (DESIGN.md 8/C08).

(A) specs/Density.tla : the relations DbscanOk / OpticsOk + a design model of both algorithms (seed loop,
    search queue as a set, only core points extend it; OPTICS start sample, seed list, min-reachability pop),
    model-checked for every lattice input of a bounded domain in every neighbour order; three deliberately
    broken variants of the design must be rejected by the same invariants (non-vacuity).
(B) specs/Gen_Density.tla : TLC enumerates lattice point sequences x min_points x tolerance x metric;
    a seeded generator adds larger structured inputs (chains, rings, blobs, duplicates, noise) of the same schema.
(C) harness c08 runs DBSCAN (array + dataset form) and OPTICS on LinearSearch / KdTree / BallTree;
    specs/Trace_Density.tla validates every event against the relations, under one inferred boundary
    convention per case, and requires identical results for the three indices.
"""
import json
import os
import vlib

# (A) design-model runs: (tag, constants)
def _mc(variant, lattices, minn, maxn, mps, eps):
    return dict(Variant='"%s"' % variant, Lattices=vlib.tla_set(lattices), MinPts=minn, MaxPts=maxn,
                MinPtsSet=vlib.tla_set(mps), EpsSet=vlib.tla_set(eps))

MC = {
    "quick": [
        _mc("ok", [103], 0, 4, [2, 3], [11, 32]),          # 1-D 0..3, n <= 4
        _mc("ok", [201], 0, 3, [2, 3], [11, 32]),           # 2-D 2x2, three metrics
        _mc("ok", [999], 0, 0, [4], [52]),                  # the 13-point hub figure (core point with no free neighbour)
    ],
    "thorough": [
        _mc("ok", [104], 0, 4, [2, 3], [11, 32, 21]),
        # n = 5, min_points 4 is the smallest domain in which a border point has a neighbour that no core point reaches
        _mc("ok", [103], 5, 5, [4], [11, 32]),
        _mc("ok", [202], 0, 3, [2, 3], [11, 32, 21]),
        _mc("ok", [0], 0, 4, [2, 3], [11]),
        _mc("ok", [103], 0, 4, [2, 3], [0]),                # infinite tolerance
        _mc("ok", [999], 0, 0, [4], [52, 94]),              # the 13-point hub figure (min_points 3 merges everything: 2.5M states)
    ],
}
# broken designs that the invariants must reject (TLC exit code 12 = invariant violated)
NEG = [
    ("noncore_extends", _mc("noncore_extends", [103], 5, 5, [4], [32])),
    ("start_in_seeds", _mc("start_in_seeds", [103], 3, 3, [3], [21])),
    ("count_excl_self", _mc("count_excl_self", [103], 2, 2, [2], [21])),
    ("seed_needs_free_neighbour", _mc("seed_needs_free_neighbour", [999], 0, 0, [4], [52])),
]
INVS = ["InvDbscanDone", "InvOpticsDone", "InvGrow", "InvLabels", "InvSeeds", "InvTight", "InvKth", "InvSym", "InvCache"]
ACTIONS = ["DSkip", "DSeed", "DPop", "DClose", "OSkip", "OStart", "OPop", "OEnd", "Done"]

# (B) generator domains
GEN = {
    "quick": [
        dict(Lattices="{0}", MinPts=0, MaxPts=4, MinPtsSet="{2, 3}", EpsSet="{11}", Specials=1, Hubs=1),
        dict(Lattices="{104}", MinPts=0, MaxPts=4, MinPtsSet="{2, 3}", EpsSet="{12, 11, 32, 21, 52, 0}", Specials=0, Hubs=0),
        dict(Lattices="{202}", MinPts=0, MaxPts=3, MinPtsSet="{2, 3}", EpsSet="{11, 32, 21, 0}", Specials=0, Hubs=0),
        dict(Lattices="{103}", MinPts=5, MaxPts=5, MinPtsSet="{4}", EpsSet="{32}", Specials=0, Hubs=0),
    ],
    "thorough": [
        dict(Lattices="{0}", MinPts=0, MaxPts=5, MinPtsSet="{2, 3, 4}", EpsSet="{11, 12}", Specials=1, Hubs=2),
        dict(Lattices="{105}", MinPts=0, MaxPts=4, MinPtsSet="{2, 3, 4}", EpsSet="{12, 11, 32, 21, 52, 31, 0}", Specials=0, Hubs=0),
        dict(Lattices="{104}", MinPts=5, MaxPts=5, MinPtsSet="{2, 3, 4}", EpsSet="{32, 21}", Specials=0, Hubs=0),
        dict(Lattices="{202}", MinPts=0, MaxPts=3, MinPtsSet="{2, 3, 4}", EpsSet="{12, 11, 32, 21, 52, 94, 0}", Specials=0, Hubs=0),
        dict(Lattices="{202}", MinPts=4, MaxPts=4, MinPtsSet="{3}", EpsSet="{32}", Specials=0, Hubs=0),
        dict(Lattices="{301}", MinPts=0, MaxPts=3, MinPtsSet="{2, 3}", EpsSet="{11, 32, 21}", Specials=0, Hubs=0),
    ],
}
QUICK_CAP = 6000        # quick tier: all cases with n <= 2 + seeded sample of the rest up to this many
RANDOM = {"quick": 100, "thorough": 1500}
RANDOM_HUBS = {"quick": 40, "thorough": 600}
TRACE_CONST = dict(Variant='"ok"', Lattices="{}", MinPts=0, MaxPts=0, MinPtsSet="{}", EpsSet="{}")
INDEXES = ["linear", "kdtree", "balltree"]


# ---------------------------------------------------------------------------------------------
# seeded structured inputs of the same schema (larger n, so that the trees really branch)

def _dist(metric, p, q):
    d = [abs(a - b) for a, b in zip(p, q)]
    if metric == "l1":
        return sum(d)
    if metric == "linf":
        return max(d) if d else 0
    return sum(x * x for x in d)          # l2: squared


def _shape(r, dim, n):
    """chains, rings, blobs, duplicates and isolated noise on an integer lattice (coordinates 0..40)"""
    pts = []
    kind = r.choice(["chain", "ring", "blobs", "mixed", "dups"])
    def clamp(p):
        return [min(40, max(0, x)) for x in p]
    if kind == "chain":
        p = [r.randint(0, 10) for _ in range(dim)]
        step = r.choice([1, 1, 2])
        for _ in range(n):
            pts.append(clamp(p))
            ax = r.randrange(dim)
            p = list(p)
            p[ax] += step if r.random() < 0.85 else step + r.randint(1, 3)     # occasional gap
    elif kind == "ring" and dim >= 2:
        rad = r.randint(3, 8)
        c = [r.randint(rad, 40 - rad) for _ in range(dim)]
        ring = [(x, y) for x in range(-rad, rad + 1) for y in range(-rad, rad + 1)
                if rad * rad - rad <= x * x + y * y <= rad * rad + rad]
        r.shuffle(ring)
        for (x, y) in ring[:max(1, n - n // 4)]:
            pts.append(clamp([c[0] + x, c[1] + y] + c[2:]))
        while len(pts) < n:                                               # a blob in the centre + noise
            pts.append(clamp([c[k] + r.randint(-1, 1) for k in range(dim)]))
    else:
        k = r.randint(1, 4)
        cs = [[r.randint(0, 30) for _ in range(dim)] for _ in range(k)]
        spread = r.choice([0, 1, 1, 2])
        while len(pts) < n:
            u = r.random()
            if u < 0.12:
                pts.append([r.randint(0, 40) for _ in range(dim)])       # isolated noise
            elif u < 0.3 and pts and kind in ("dups", "mixed"):
                pts.append(list(r.choice(pts)))                           # exact duplicate
            else:
                c = r.choice(cs)
                pts.append(clamp([c[d] + r.randint(-spread, spread) for d in range(dim)]))
    pts = pts[:n]
    r.shuffle(pts)
    # translation normalisation as in Gen_Density
    for d in range(dim):
        m = min(p[d] for p in pts) if pts else 0
        for p in pts:
            p[d] -= m
    return pts


def hub_case(r):
    """Random embedding of the hub figure of Gen_Density (a core point whose neighbours are all border points of
    other clusters) in 2 or 3 dimensions: random number of arms, arm shapes, axis permutation / reflections, scale,
    translation, point order (hub mostly late), a few far-away noise points."""
    dim = r.choice([2, 2, 3])
    metric = r.choice(["l1", "l2", "linf"])
    c = r.choice([1, 1, 2, 3])
    if metric == "linf":
        dirs = [[sx if k == 0 else (sy if k == 1 else sz) for k in range(dim)]
                for sx in (1, -1) for sy in (1, -1) for sz in ((1, -1) if dim == 3 else (1,))]
    else:
        dirs = [[(sg if k == a else 0) for k in range(dim)] for a in range(dim) for sg in (1, -1)]
    r.shuffle(dirs)
    k = r.randint(2, min(len(dirs), 6))
    mp = r.choice([k + 1, k + 1, k + 1, k, k + 2])
    arms = []
    for u in dirs[:k]:
        a1 = [4 * x for x in u]
        ext = [[6 * x for x in u]]
        if metric == "linf":
            for j in range(dim):
                e = list(a1); e[j] += 2 * u[j]; ext.append(e)
        else:
            for j in range(dim):
                if u[j] == 0:
                    for sg in (1, -1):
                        e = list(a1); e[j] += 2 * sg; ext.append(e)
        r.shuffle(ext)
        m = r.randint(min(len(ext), max(2, mp - 2)), len(ext)) if r.random() < 0.85 else r.randint(0, len(ext))
        arm = [a1] + ext[:m] + [[2 * x for x in u]]
        if r.random() < 0.5:
            arm.reverse()
        arms.append(arm)
    hub = [0] * dim
    u = r.random()
    blocks = [a for a in arms]
    pos = len(blocks) if u < 0.6 else r.randint(0, len(blocks))
    blocks.insert(pos, [hub])
    pts = [p for b in blocks for p in b]
    if r.random() < 0.25:
        r.shuffle(pts)
    for _ in range(r.randint(0, 3)):
        pts.insert(r.randint(0, len(pts)), [r.choice([-14, 14, 17]) for _ in range(dim)])
    pts = [[c * x for x in p] for p in pts]
    for d in range(dim):
        m = min(p[d] for p in pts)
        for p in pts:
            p[d] -= m
    en, ed = r.choice([(5 * c, 2), (5 * c, 2), (9 * c, 4)])
    h = r.randrange(1 << 20)
    return {"kind": "hub",
            "inp": {"dim": dim, "pts": pts, "minpts": mp, "eps": {"n": en, "d": ed}, "metric": metric,
                    "ft": "f32" if h % 4 == 3 else "f64", "leaf": [0, 1, 2, 3, 0, 5][h % 6],
                    "dsindex": INDEXES[(h // 3) % 3]}}


def random_cases(ctx, count):
    r = ctx.rng
    out = []
    for _ in range(count):
        dim = r.choice([1, 2, 2, 3])
        n = r.randint(6, 40)
        pts = _shape(r, dim, n)
        metric = r.choice(["l1", "l2", "linf"])
        # tolerance: half the time exactly an attained distance (exact in floating point: integer L1/Linf
        # distances, L2 only when the squared distance is a perfect square), otherwise strictly between
        ds = sorted({_dist(metric, p, q) for p in pts for q in pts if p is not q} - {0})[:6]
        if r.random() < 0.5 and ds:
            d = r.choice(ds)
            if metric == "l2":
                sq = int(round(d ** 0.5))
                en, ed = (sq, 1) if sq * sq == d else (2 * sq + 1, 2)
            else:
                en, ed = d, 1
        else:
            en, ed = r.choice([(3, 2), (5, 2), (5, 4), (7, 4), (7, 2), (9, 4), (1, 2)])
        en = max(en, 1)
        if r.random() < 0.04:
            en, ed = 0, 0                      # infinite tolerance
        h = r.randrange(1 << 20)
        out.append({"kind": "density",
                    "inp": {"dim": dim, "pts": pts, "minpts": r.choice([2, 3, 3, 4, 5]), "eps": {"n": en, "d": ed},
                            "metric": metric, "ft": "f32" if h % 4 == 3 else "f64", "leaf": [0, 1, 2, 3, 0, 5][h % 6],
                            "dsindex": INDEXES[(h // 3) % 3]}})
    return out


# ---------------------------------------------------------------------------------------------
# measured non-triviality, from the recorded implementation output of an *accepted* case

def classify(trace):
    """returns set of feature tags of a case (rule documented in ctx.rule)"""
    tags = set()
    inp = trace["inp"]
    pts, metric = inp["pts"], inp["metric"]
    en, ed = inp["eps"]["n"], inp["eps"]["d"]
    n = len(pts)
    if n <= 40:
        for i in range(n):
            for j in range(i + 1, n):
                d = _dist(metric, pts[i], pts[j])
                lhs, rhs = (ed * ed * d, en * en) if metric == "l2" else (ed * d, en)
                if lhs == rhs and ed != 0:
                    tags.add("on_radius")
    labs = [e["labels"] for e in trace["ev"] if e.get("ev") == "dbscan" and e.get("form") == "array"]
    if any(e.get("form") == "default" for e in trace["ev"]):
        tags.add("default_params_form")
    if labs:
        lab = labs[0]
        if len(set(lab) - {-1}) >= 2:
            tags.add("multi_cluster")
        if -1 in lab and any(x >= 0 for x in lab):
            tags.add("noise_and_cluster")
    orders = [e["order"] for e in trace["ev"] if e.get("ev") == "optics" and e.get("form") == "array"]
    if orders and labs:
        core = {o["idx"] for o in orders[0] if o["core"]["def"]}
        if any(lab[i] >= 0 and i not in core for i in range(len(lab))):
            tags.add("border")
        if any(o["reach"]["def"] and o["core"]["def"] for o in orders[0]) and any(not o["core"]["def"] for o in orders[0]):
            tags.add("optics_mixed")
    if trace.get("kind") == "hub" and orders and labs:
        # a core point all of whose neighbours are non-core (border points of other clusters): it must found its
        # own cluster although nothing is left to grow it from (evidence counter only, strict convention)
        core = {o["idx"] for o in orders[0] if o["core"]["def"]}
        def near(i, j):
            d = _dist(metric, pts[i], pts[j])
            return (ed * ed * d < en * en) if metric == "l2" else (ed * d < en)
        for i in core:
            nbs = [j for j in range(n) if j != i and near(i, j)]
            if nbs and all(j not in core for j in nbs):
                tags.add("isolated_core_hub")
                if any(lab[j] != lab[i] for j in nbs):
                    tags.add("hub_neighbours_claimed_by_other_clusters")
    if len({tuple(p) for p in pts}) < n:
        tags.add("duplicates")
    return tags


def run(ctx):
    binp = vlib.cargo_build("c08")
    # (A)  (development knob: VERIF_C08_SKIP_MC=1 skips the design-model runs, which do not depend on the
    #       tree under test, when iterating over mutants / candidate fixes in a scratch worktree)
    skip_mc = os.environ.get("VERIF_C08_SKIP_MC") == "1" and vlib.REPO != "/repo"
    for k, consts in enumerate([] if skip_mc else MC[ctx.tier]):
        vlib.tlc_mc(ctx, "Density", {"constants": consts, "invariants": INVS}, workers=6,
                    coverage_actions=ACTIONS if k == 0 else None, tag="Density_mc%d" % k)
    neg = []
    for name, consts in ([] if skip_mc else NEG):
        rc, lines = vlib.tlc(ctx, "Density", {"constants": consts, "invariants": INVS}, workers=2, tag="Density_neg_" + name)
        viol = [l for l in lines if l.startswith("Error: Invariant ")]
        if rc != 12 or not viol:
            raise vlib.ToolError("design variant %s is not rejected by the invariants (rc=%d): the relation is too weak" % (name, rc))
        neg.append("%s -> %s" % (name, viol[0][len("Error: "):]))
    ctx.extra["broken_design_variants_rejected"] = neg
    # (B)
    cases = []
    for k, consts in enumerate(GEN[ctx.tier]):
        cases += vlib.tlc_gen(ctx, "Gen_Density", {"constants": consts, "invariants": ["Emit"]}, workers=4, tag="Gen_Density_%d" % k)
    seen = set()
    uniq = []
    for c in cases:
        s = json.dumps(c, sort_keys=True)
        if s not in seen:
            seen.add(s)
            uniq.append(c)
    cases = uniq
    generated = len(cases)
    ctx.exhaustive = True
    if ctx.quick and len(cases) > QUICK_CAP:
        # always kept: n <= 2, zero features, the hand-picked 3-4-5 inputs, the hub family, and the n = 5 / min_points = 4 domain (the smallest inputs in which a
        # border point has a neighbour that no core point reaches)
        keep = lambda c: len(c["inp"]["pts"]) <= 2 or c["inp"]["dim"] == 0 or len(c["inp"]["pts"]) >= 5 or c["kind"] in ("special", "hub")
        small = [c for c in cases if keep(c)]
        rest = [c for c in cases if not keep(c)]
        ctx.rng.shuffle(rest)
        cases = small + rest[:max(0, QUICK_CAP - len(small))]
        ctx.exhaustive = False
    cases += random_cases(ctx, RANDOM[ctx.tier])
    cases += [hub_case(ctx.rng) for _ in range(RANDOM_HUBS[ctx.tier])]
    vlib.number(cases)
    ctx.cases = len(cases)
    ctx.extra["cases_enumerated_by_tlc"] = generated
    # (C)
    traces = vlib.run_harness(ctx, binp, cases)
    ok, rejected = vlib.validate_with_findings(ctx, "Trace_Density", traces, constants=TRACE_CONST, chunk=3000)
    feats = {}
    nontriv = set()
    for t in traces:
        if t["id"] not in ok:
            continue
        tg = classify(t)
        for x in tg:
            feats[x] = feats.get(x, 0) + 1
        if "border" in tg or "on_radius" in tg:
            nontriv.add(json.dumps(t["inp"], sort_keys=True))
    ctx.nontrivial = len(nontriv)
    ctx.extra["accepted_case_features"] = feats
    for need in ["border", "on_radius", "multi_cluster", "noise_and_cluster", "duplicates", "optics_mixed", "default_params_form",
                 "hub_neighbours_claimed_by_other_clusters"]:
        if feats.get(need, 0) == 0 and not rejected:
            raise vlib.ToolError("vacuity: no accepted case with feature %s" % need)
    vlib.sample(ctx, [t for t in traces if "border" in classify(t) and len(t["inp"]["pts"]) <= 5][:2]
                + [t for t in traces if "on_radius" in classify(t) and t["inp"]["dim"] == 2][:1])
    ctx.rule = ("cases = lattice point sequences (translation-normalised) x min_points x tolerance (on and between attainable "
                "distances) x metric, enumerated by TLC (Gen_Density)%s + seeded structured inputs n<=40 (chains, rings, blobs, "
                "duplicates, noise); each case runs DBSCAN and OPTICS with params_with on the 3 indices, and on one rotating index on a "
                "strided view, through Dbscan::params/Optics::params + nn_algo (Euclidean cases) and DBSCAN on a DatasetBase; float "
                "type and leaf size rotating; non-trivial = accepted case with at least one border point (labelled non-core point) "
                "or a pair of points exactly on the radius, measured on the recorded output; distinct by input"
                % ("" if ctx.exhaustive else " (quick tier: all n<=2, all zero-feature and all n=5 cases plus a seeded sample of the others)"))
    ctx.trusted = ["TLC + CommunityModules Json", "harness encoders (harness/src/bin/c08.rs: Option<F> distance -> integer/exact flag)",
                   "Geo.tla integer distance forms"]
    ctx.assumptions = ["lattice inputs: coordinates are small integers, tolerance a dyadic rational, so every comparison d < eps is exact in f32/f64",
                       "L2 distances are observed squared (rounded to the integer, exact flag within 1e-9 resp. 2e-6 relative for f32)",
                       "reachability may be explained by the sample itself (statement: 'listed no later than')",
                       "core distance counts the point itself (as the DBSCAN clause does)"]
    return vlib.finish(ctx)


def replay(ctx, case):
    binp = vlib.cargo_build("c08")
    traces = vlib.run_harness(ctx, binp, [case])
    ctx.cases = 1
    vlib.validate_with_findings(ctx, "Trace_Density", traces, constants=TRACE_CONST)
    return vlib.finish(ctx)
