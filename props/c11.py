"""C11 -- least-squares estimators return a minimiser of their documented objective (DESIGN.md 8/C11).

(A) LinReg.tla      design model: cyclic coordinate descent with residual updates in fixed point; invariants:
                    residual book-keeping, monotone descent, the relation operators of LinRegRel accept the
                    fixed point, no grid point has a smaller objective (KKT => global minimum, on a grid).
(B) Gen_LinReg.tla  TLC enumerates lattice regression problems x configurations (hash-thinned product).
(C) c11.rs          fits LinearRegression / ElasticNet / MultiTaskElasticNet, logs fixed-point results;
    Trace_LinReg    evaluates orthogonality / KKT / exact zeros / duality gap / stopping rule / perturbations.
"""
import random
import vlib

# design model bounds (feature values are v - DXOff)
MODEL = {
    "quick": dict(MaxSweeps=300, DXV="{0, 1, 3}", DXOff=1, DYV="{0, 2}"),
    "thorough": dict(MaxSweeps=300, DXV="{0, 1, 2, 3}", DXOff=1, DYV="{0, 1, 2}"),
}
INVS = ["InvResidual", "InvDescent", "InvKktAtFixpoint", "InvIcptJoint", "InvIcptYMean", "InvNoBetterOnGrid",
        "InvConverges"]
ACTIONS = ["CoordStep", "SweepEnd"]

GEN = {
    "quick": dict(NS="{3, 4}", XV="{0, 1, 2, 3}", XOff=1, YV="{0, 1, 3}", PS="{1, 2}", TS="{1, 2}",
                  XThin1=1, XThin2=8, YThin1=20, YThin2=80, CThin=21, OThin=3, F32Mod=4),
    "thorough": dict(NS="{3, 4, 5}", XV="{0, 1, 2, 3}", XOff=1, YV="{0, 1, 3}", PS="{1, 2}", TS="{1, 2, 3}",
                     XThin1=1, XThin2=6, YThin1=15, YThin2=150, CThin=40, OThin=4, F32Mod=4),
}
TRACE_CONST = dict(MaxSweeps=0, DXV="{}", DXOff=0, DYV="{}")

PENS = [(0, 1), (1, 10), (1, 2), (1, 1), (2, 1), (1, 4), (3, 2)]
RHOS = [(0, 1), (1, 2), (1, 1), (1, 4), (3, 4)]


def rank_full(rows):
    """exact rank test on integers (fraction-free elimination); only selects cases, never judges them"""
    m = [list(r) for r in rows]
    ncol = len(m[0])
    rk = 0
    for c in range(ncol):
        piv = next((i for i in range(rk, len(m)) if m[i][c] != 0), None)
        if piv is None:
            return False
        m[rk], m[piv] = m[piv], m[rk]
        for i in range(rk + 1, len(m)):
            if m[i][c] != 0:
                a, b = m[rk][c], m[i][c]
                m[i] = [a * x - b * y for x, y in zip(m[i], m[rk])]
        rk += 1
    return True


def random_cases(ctx, count):
    """seeded larger lattice problems of the same schema (thorough tier): n <= 20, p <= 3, 1..3 targets.
    Magnitudes keep every sum of the trace specification inside 31 bits (n * max|x| <= 400)."""
    out = []
    r = ctx.rng
    while len(out) < count:
        n = r.randint(5, 20)
        p = r.randint(1, 3)
        lim = min(20, 400 // n)
        cols = []
        for j in range(p):
            style = r.choice(["plain", "plain", "offset", "scaled", "binary", "const"])
            if style == "plain":
                col = [r.randint(-3, 3) for _ in range(n)]
            elif style == "offset":
                off = r.choice([5, 10, lim - 3])
                col = [off + r.randint(-2, 3) for _ in range(n)]
            elif style == "scaled":
                k = max(1, lim // 3)
                col = [k * r.randint(-3, 3) for _ in range(n)]
            elif style == "binary":
                col = [r.randint(0, 1) for _ in range(n)]
            else:
                col = [r.choice([1, 2])] * n
            cols.append([max(-lim, min(lim, v)) for v in col])
        if p >= 2 and r.random() < 0.1:
            cols[1] = [max(-lim, min(lim, 2 * v)) for v in cols[0]]      # collinear (kept only when regularised)
        x = [[cols[j][i] for j in range(p)] for i in range(n)]
        kind = r.choice(["ols", "enet", "enet", "mtl", "mtl"])
        t = r.randint(1, 3) if kind == "mtl" else 1
        w0 = [[r.randint(-2, 2) for _ in range(t)] for _ in range(p)]
        y = [[max(-9, min(9, (sum(x[i][j] * w0[j][k] for j in range(p)) // max(1, lim // 3)) + r.randint(-2, 2)))
              for k in range(t)] for i in range(n)]
        icpt = r.random() < 0.5
        ln, ld = (0, 1) if kind == "ols" else r.choice(PENS)
        rn, rd = (0, 1) if kind == "ols" else ((1, 2) if ln == 0 else r.choice(RHOS))
        if ld * rd > 20:
            continue
        full = rank_full([row + ([1] if icpt else []) for row in x]) if n >= p + (1 if icpt else 0) else False
        if (kind == "ols" or ln == 0) and not full:
            continue
        out.append({"kind": kind, "inp": {
            "x": x, "y": y, "p": p, "t": t, "ln": ln, "ld": ld, "rn": rn, "rd": rd, "icpt": icpt,
            "ft": "f64", "form": r.choice(["owned", "view", "fview"]),
            "maxit": 40000 if kind == "mtl" else 100000, "te": 12,
            "lte": 0, "ue": 0, "off": [0] * p}})
        if kind == "ols" and icpt and n * lim <= 120 and p <= 2:
            # offsets for OLS (spec arithmetic of the exact solution needs a small centred Gram determinant)
            out[-1]["inp"]["ft"] = r.choice(["f32", "f64"])
            lst = [0, 2000, 2048, 8192, 65536] if out[-1]["inp"]["ft"] == "f32" else [0, 10 ** 5, 10 ** 7, 2 ** 30]
            out[-1]["inp"]["off"] = [r.choice(lst) for _ in range(p)]
        if kind == "enet" or not (kind == "ols" or ln == 0 or rn == 0):      # single task: loose fit also without an l1 part
            out[-1]["inp"]["lte"] = r.randint(1, 4)
            out[-1]["inp"]["ue"] = r.choice([0, -10, -14, 10])
    return out


def nontrivial(case):
    """non-trivial = the minimiser is not forced to be the zero vector by an all-zero target, and the design
    is not centred (some column has a non-zero mean) or has more than one column"""
    i = case["inp"]
    ynz = any(v != 0 for row in i["y"] for v in row)
    n = len(i["x"])
    offc = any(sum(i["x"][r][j] for r in range(n)) != 0 for j in range(i["p"]))
    return ynz and (offc or i["p"] > 1)


def key(case):
    i = case["inp"]
    return (case["kind"], repr(i["x"]), repr(i["y"]), i["ln"], i["ld"], i["rn"], i["rd"], i["icpt"], i["ft"])


def run(ctx):
    binp = vlib.cargo_build("c11")
    vlib.tlc_mc(ctx, "LinReg", {"init": "DInit", "next": "DNext", "constants": MODEL[ctx.tier], "invariants": INVS},
                coverage_actions=ACTIONS, workers=6)
    cases = vlib.tlc_gen(ctx, "Gen_LinReg", {"constants": GEN[ctx.tier], "invariants": ["Emit"]}, workers=4)
    ctx.exhaustive = False
    if not ctx.quick:
        cases += random_cases(ctx, 2500)
    vlib.number(cases)
    ctx.cases = len(cases)
    ctx.nontrivial = len({key(c) for c in cases if nontrivial(c)})
    # the harness splits the case list into contiguous chunks, one per thread: interleave cheap and expensive cases
    order = list(cases)
    random.Random(20261002).shuffle(order)
    traces = sorted(vlib.run_harness(ctx, binp, order, timeout=2400), key=lambda t: t["id"])
    def nz(t):
        return t["ev"] and t["ev"][0].get("res") == "ok" and any(v != 0 for row in t["ev"][0]["w"] for v in row)
    pick = [t for t in traces if t["kind"] == "enet" and t["inp"]["icpt"] and t["inp"]["p"] == 1 and nz(t)
            and t["inp"]["ln"] > 0 and t["inp"]["lte"] > 0 and t["inp"]["x"][0][0] >= 9][:1]
    pick += [t for t in traces if t["kind"] == "ols" and t["inp"]["p"] == 2 and nz(t)][:1]
    pick += [t for t in traces if t["kind"] == "mtl" and t["inp"]["rn"] > 0 and t["inp"]["ln"] > 0 and nz(t)][:1]
    vlib.sample(ctx, pick)
    vlib.validate_with_findings(ctx, "Trace_LinReg", traces, constants=TRACE_CONST, chunk=4000)
    # accounting: offset cases accepted without the coefficient / orthogonality clauses (not resolvable in the float type)
    import glob, os
    notes = set()
    for f in glob.glob(os.path.join(ctx.work, "Trace_LinReg_[0-9]*.out")):
        with open(f, errors="replace") as fh:
            notes.update(l.strip() for l in fh if l.startswith('<<"NOTE"'))
    offc = sum(1 for c in cases if any(c["inp"].get("off", [])))
    ctx.extra["ols_offset_cases"] = offc
    ctx.extra["ols_offset_cases_unresolvable_in_float_type"] = len(notes)
    vlib.log("offset cases: %d, of which not resolvable in their float type (only a finite result demanded): %d" % (offc, len(notes)))
    ctx.rule = ("cases = lattice regression problems (sorted first column over {-1..2} x (scale,offset) in {1,10}x{0,10}; "
                "second column: all binary vectors incl. constant columns, x10, exactly collinear, squared) x all targets over "
                "{0,1,3} x {OLS, elastic net, multi-task} x penalty {0,1/10,1/2,1,2} x l1-ratio {0,1/2,1} x intercept on/off, "
                "target unit 2^ue, ue in {0,-10,-14,10} (with a loose fit at tolerance 10^-1..10^-4 and its repetition in unit 1), "
                "OLS with intercept: per-column offsets (f32: 2000, 2^11, 2^13, 2^16; f64: 10^5, 10^7, 2^30) and a nearly collinear "
                "second column (20*x1 + x2), half of the OLS cases in f32; "
                "enumerated by TLC (Gen_LinReg) and thinned by a fixed hash [+ seeded random n<=20, p<=3, t<=3 in the thorough "
                "tier]; non-trivial = targets not all zero and (some column mean non-zero or p > 1); distinct by "
                "(kind, X, Y, penalty, ratio, intercept, float type)")
    ctx.trusted = ["TLC + CommunityModules Json", "harness encoding (harness/src/bin/c11.rs): fx at 10^5, exact-zero flags"]
    ctx.assumptions = [
        "a KKT point of the (convex) documented objective is a global minimiser (textbook lemma; checked on a grid by the design model)",
        "numerical allowance 10^-3 on x_j'r (f64; f32: + 5*10^-5 of the magnitude of the summed terms), quantisation slack derived per clause",
        "OLS accuracy model: column-wise relative backward error 8*eps (Householder QR), first-order perturbation bound on the slopes; offset cases whose bound exceeds 0.05 are only required to give a finite result (counted in coverage.ols_offset_cases_unresolvable_in_float_type)",
        "sweep budgets 3000 (well-conditioned designs) / 40000-100000 are large enough to converge on the generated domain",
        "the reported duality gap is compared as the statement says (gap >= objective decrease); the code's gap is in units of n * objective, which is larger",
    ]
    return vlib.finish(ctx)


def replay(ctx, case):
    binp = vlib.cargo_build("c11")
    traces = vlib.run_harness(ctx, binp, [case])
    ctx.cases = 1
    vlib.validate_with_findings(ctx, "Trace_LinReg", traces, constants=TRACE_CONST)
    return vlib.finish(ctx)
