"""C10 -- A fitted Gaussian mixture is a valid mixture and yields valid probabilities (DESIGN.md 8/C10)."""
import os
import vlib

# (A) design model: exact M-step on a lattice + log-sum-exp on a lattice of weighted log-probabilities
MODEL = {"quick": dict(MaxN=3, MaxCells=4, MaxC=1, MaxK=2, RD=2, Forms='{"stable"}'),
         "thorough": dict(MaxN=3, MaxCells=6, MaxC=2, MaxK=2, RD=2, Forms='{"stable"}')}
NAIVE = dict(MaxN=2, MaxCells=2, MaxC=1, MaxK=2, RD=2, Forms='{"naive"}')
STICKY = dict(MaxN=2, MaxCells=2, MaxC=1, MaxK=2, RD=2, Forms='{"stable", "sticky"}')
INVS = ["InvExact", "InvRegPD", "InvSylvester", "InvModel", "InvK1", "InvFailed", "InvRow", "InvSensitive", "InvPd3", "InvBudget", "InvConvClause"]
ACTIONS = ["ChooseCfg", "ChooseData", "MEmpty", "MSingular", "MStep", "Query"]
# (B) generator
GEN = {"quick": dict(Tier='"quick"', Thin=7), "thorough": dict(Tier='"thorough"', Thin=7)}
TRACE_CONST = dict(MaxN=0, MaxCells=0, MaxC=0, MaxK=0, RD=1, Forms="{}")

REGS = [(0, 1), (1, 1000000), (1, 10000), (1, 100), (1, 2), (3, 1)]
CFGS = [(1, 1000, 1, 100), (1, 1000000, 1, 300), (1, 10, 2, 100), (1, 1000, 1, 3), (1, 1000000, 3, 4), (1, 100000, 1, 8), (1, 1000, 3, 5), (1, 1000, 2, 6)]
FAR = [10, 40, 1000, 1000000]


def random_cases(ctx, count):
    """seeded random cases of the same schema: jittered blobs (coordinates in 1/100), separated or
    overlapping, axis-scaled (anisotropic) or sheared (correlated), 1..6 features, 1..5 components"""
    r = ctx.rng
    out = []
    for _ in range(count):
        p = r.randint(1, 6)
        nb = r.randint(1, 4)
        ds = 100
        spread = r.choice([1, 3, 12])            # distance between blob centres in units of the blob size
        data = []
        for b in range(nb):
            centre = [r.randint(-4, 4) * spread * ds // 2 for _ in range(p)]
            scale = [r.choice([1, 1, 2, 5]) for _ in range(p)]      # anisotropy
            shear = r.choice([0, 0, 1])
            for _ in range(r.randint(p + 2, 12)):
                z = [r.randint(-100, 100) for _ in range(p)]
                pt = [centre[j] + scale[j] * z[j] + (shear * z[0] if j > 0 else 0) for j in range(p)]
                data.append(pt)
        lo = [min(x[j] for x in data) for j in range(p)]
        hi = [max(x[j] for x in data) for j in range(p)]
        rad = max(hi[j] - lo[j] for j in range(p)) * p + 2 * ds
        queries = [list(x) for x in r.sample(data, min(len(data), 8))]
        queries.append([(lo[j] + hi[j]) // 2 for j in range(p)])
        for d in FAR:
            if d * rad < 2 ** 30:
                j = r.randrange(p)
                queries.append([hi[t] + (d * rad if t == j else 0) for t in range(p)])
                queries.append([lo[t] - d * rad * r.choice([0, 1, 1]) for t in range(p)])
        reg = r.choice(REGS)
        cfg = r.choice(CFGS)
        out.append({"kind": "fit", "inp": {
            "ft": r.choice(["f64", "f64", "f32"]), "p": p, "ds": ds, "data": data, "shape": "random", "nb": nb, "sp": spread,
            "k": r.randint(1, 5), "init": r.choice(["kmeans", "random"]), "seed": r.randint(0, 10 ** 6),
            "regn": reg[0], "regd": reg[1], "toln": cfg[0], "told": cfg[1], "runs": cfg[2], "maxit": cfg[3],
            "queries": queries}})
    return out


def mc_design(ctx, module, cfg, actions, workers=8, timeout=1500):
    """vlib.tlc_mc with a coverage (vacuity) test that reads the *final* coverage report: runs longer
    than a minute also print interim reports, whose counts are not final."""
    import re, sys
    rc, lines = vlib.tlc(ctx, module, cfg, workers=workers, timeout=timeout, extra=["-coverage", "1", "-nowarning"])
    if rc != 0:
        sys.stderr.write("\n".join(lines[-60:]) + "\n")
        raise vlib.ToolError("design model %s: TLC rc=%d" % (module, rc))
    gen, dist = vlib.parse_states(lines)
    if dist == 0:
        raise vlib.ToolError("design model %s: no states" % module)
    text = "\n".join(lines)
    for a in actions:
        ms = re.findall(r"<%s line [^>]*>: (\d+):(\d+)" % re.escape(a), text)
        if not ms or int(ms[-1][1]) == 0:
            raise vlib.ToolError("design model %s: action %s never taken (vacuous)" % (module, a))
    ctx.states += dist
    ctx.transitions += gen
    ctx.mc_runs.append({"module": module, "distinct_states": dist, "states_generated": gen, "constants": cfg.get("constants", {})})
    vlib.log("MC %s: %d distinct states, %d generated" % (module, dist, gen))


def fitted(t):
    return any(e.get("ev") == "model" for e in t["ev"])


def run(ctx):
    binp = vlib.cargo_build("c10")
    if os.environ.get("VERIF_C10_SKIP_DESIGN") != "1":      # development only (mutant loops): skip layer (A)
        vlib.mc_elem(ctx)
        mc_design(ctx, "Gmm", {"constants": MODEL[ctx.tier], "invariants": INVS}, ACTIONS)
        # negative run of the design: the naive ln(sum(exp(.))) form must violate InvRow (all terms underflow)
        rc, lines = vlib.tlc(ctx, "Gmm", {"constants": NAIVE, "invariants": ["InvRow"]}, workers=2, tag="Gmm_naive")
        if rc != 12 or not any("Invariant InvRow is violated" in l for l in lines):
            raise vlib.ToolError("design model: the naive log-sum-exp form was expected to violate InvRow (rc=%d)" % rc)
        # negative run 2: a convergence flag that is not reset between the runs of fit must violate the
        # budget-stability clause that Trace_Gmm applies to the implementation
        rc, lines = vlib.tlc(ctx, "Gmm", {"constants": STICKY, "invariants": ["InvBudgetClause"]}, workers=2, tag="Gmm_sticky")
        if rc != 12 or not any("Invariant InvBudgetClause is violated" in l for l in lines):
            raise vlib.ToolError("design model: a sticky convergence flag was expected to violate InvBudgetClause (rc=%d)" % rc)
        ctx.extra["design_negative_run"] = ("naive log-sum-exp form violates InvRow; convergence flag not reset between runs "
                                            "violates InvBudgetClause (both as expected)")

    cases = vlib.tlc_gen(ctx, "Gen_Gmm", {"constants": GEN[ctx.tier], "invariants": ["Emit"]})
    if not ctx.quick:
        cases += random_cases(ctx, 2000)
    # the lower-bound trajectory is observable only if the tree carries the `gmm.iter` hook
    hook = False
    try:
        with open(os.path.join(vlib.REPO, "algorithms/linfa-clustering/src/gaussian_mixture/algorithm.rs")) as f:
            hook = "gmm.iter" in f.read()
    except OSError:
        pass
    for c in cases:
        c["inp"]["hook"] = hook
    ctx.extra["lower_bound_hook_gmm_iter"] = "present" if hook else "absent: the convergence-test clause is not evaluated"
    vlib.number(cases)
    ctx.cases = len(cases)
    traces = vlib.run_harness(ctx, binp, cases, env={"LINFA_VERIF_STEPS": "1"})
    ok_fits = [t for t in traces if fitted(t)]
    errs = {}
    for t in traces:
        for e in t["ev"]:
            if e.get("ev") == "fit" and not e["ok"]:
                errs[e["err"]] = errs.get(e["err"], 0) + 1
    # how often the budget-stability clause had a true premise (statistics only; TLC decides the clause)
    applied = {}
    for t in ok_fits:
        rf = [e for e in t["ev"] if e.get("ev") == "refit"]
        md = [e for e in t["ev"] if e.get("ev") == "model"]
        if rf and md and all(q["ok"] for q in rf[0]["prefix"]):
            dgs = [q["dg"] for q in rf[0]["prefix"]] + [md[0]["dg"]]
            if all(dgs[i] != dgs[i - 1] for i in range(1, len(dgs))):
                applied[str(t["inp"]["runs"])] = applied.get(str(t["inp"]["runs"]), 0) + 1
    ctx.extra["budget_clause_premise_true_by_n_runs"] = applied
    if not any(int(k) >= 2 for k in applied):
        raise vlib.ToolError("no case with n_runs >= 2 exercises the budget-stability clause (vacuous)")
    ctx.extra["fit_errors"] = errs
    ctx.extra["fits_succeeded"] = len(ok_fits)
    if len(ok_fits) * 3 < len(traces):
        raise vlib.ToolError("only %d of %d fits succeeded: the case domain is (nearly) vacuous" % (len(ok_fits), len(traces)))
    # non-trivial: a successful fit with >= 2 components on >= 2 features (non-diagonal covariances,
    # genuine soft assignment), distinct by input
    ctx.nontrivial = len({repr(sorted(t["inp"].items(), key=str)) for t in ok_fits if t["inp"]["k"] >= 2 and t["inp"]["p"] >= 2})
    vlib.sample(ctx, [t for t in ok_fits if t["inp"]["k"] == 2 and t["inp"]["p"] == 1 and t["inp"]["nb"] == 2][:1]
                + [t for t in traces if not fitted(t)][:1])
    vlib.validate_with_findings(ctx, "Trace_Gmm", traces, constants=TRACE_CONST, chunk=1500)
    if os.environ.get("VERIF_C10_SKIP_DESIGN") == "1" and not ctx.violations:
        raise vlib.ToolError("layer (A) was skipped (VERIF_C10_SKIP_DESIGN=1): no verdict without the design model run")
    ctx.rule = ("cases = TLC-enumerated (Gen_Gmm) lattice datasets {cross, anisotropic, correlated, rank-1 line, duplicates} x "
                "1..3 blobs x {separated, overlapping} x 1..3(6) features x 1..4 components x {kmeans, random} x seeds x "
                "reg_covar {0, 1e-6, 1e-2, 0.5} x (tolerance, n_runs, max_iter) x {f64, f32} (Latin-square thinning), "
                "queries = training points + mid-point + points 10..1e6 box radii away; sweep cases through the "
                "subnormal range of exp() [+ seeded random jittered blobs in the thorough tier]; "
                "non-trivial = fit succeeded with >= 2 components and >= 2 features; distinct by input")
    ctx.trusted = ["TLC + CommunityModules Json", "harness encoders (fx with logged power-of-ten scale, key64; harness/src/bin/c10.rs)",
                   "Elem tables (self-checked by MC_Elem)", "Sylvester's criterion"]
    ctx.assumptions = ["every logged entry is within 1 unit of the float it encodes (covariance / precision entries carry >= 7 significant digits)",
                       "numerical allowance: 1e-6 (f64) / 1e-4 (f32) on sums of probabilities and weights, 1e-9 / 1e-5 relative on matrix entries",
                       "positive definiteness is decided on the covariance reduced to ~500 levels (principal minors of order <= 3)",
                       "a query at distance d * R from the data's box, R >= p * range + 1, is >= d standard deviations from every component"]
    return vlib.finish(ctx)


def replay(ctx, case):
    binp = vlib.cargo_build("c10")
    traces = vlib.run_harness(ctx, binp, [case], env={"LINFA_VERIF_STEPS": "1"})
    ctx.cases = 1
    vlib.validate_with_findings(ctx, "Trace_Gmm", traces, constants=TRACE_CONST)
    return vlib.finish(ctx)
