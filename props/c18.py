"""C18 -- PCA returns the leading orthonormal principal axes with their true variances (DESIGN.md 8/C18).

(A) specs/Pca.tla       : the relation (orthonormality, eigen-equation against the exact integer scatter matrix,
                          trace identity, Rayleigh bounds, leading singular values, explained variance, ratios,
                          projection, round trip) + a bounded design model with closed-form PCA (ties included):
                          TLC checks that the relation accepts exactly the answers that satisfy the statement.
(B) specs/Gen_Pca.tla   : every multiset of n rows over small grids for p = 1, 2, 3 (offset / badly scaled variants,
                          exact conditioning filter); thorough: + seeded random matrices n <= 20, p <= 6.
                          both tiers: + seeded larger matrices p = 6..30 (ramp / badly scaled / offset columns, magnitude
                          x1..x10, embedding sizes around p/5 and p/3; thorough: every k for p <= 12).
(C) harness c18 + specs/Trace_Pca.tla : every embedding size 1..p (large cases: the listed ones), whitening off/on,
                          three calling forms, probes, invalid requests; TLC validates each recorded event.
"""
import vlib
from fractions import Fraction

MODEL = {"quick": dict(MaxA=2), "thorough": dict(MaxA=3)}
GEN = {"quick": dict(MaxN1=5, MaxN2=4, MaxN3=4, Mod1=1, Mod2=1, Mod2Big=8, Mod3=16),
       "thorough": dict(MaxN1=6, MaxN2=5, MaxN3=5, Mod1=1, Mod2=1, Mod2Big=4, Mod3=60)}
INVS = ["VerdictExact", "ClauseSensitive", "ScatterIdentity", "ArithOk"]
ACTIONS = ["GenData", "AnswerFit", "AnswerProj", "AnswerInv"]
TRACE_CONST = dict(MaxA=0)
MC_CFG = lambda tier: {"init": "DInit", "next": "DNext", "constants": MODEL[tier], "invariants": INVS}


# ----------------------------------------------------------------------------------------------
# seeded random cases (thorough tier). Only the *domain* is decided here (magnitudes inside the 31-bit
# budget of the specification, exact conditioning filter); no expected value is computed.

def scatter(x):
    n, p = len(x), len(x[0])
    s = [sum(r[j] for r in x) for j in range(p)]
    return [[n * sum(r[j] * r[l] for r in x) - s[j] * s[l] for l in range(p)] for j in range(p)]


def charpoly(m):
    """coefficients c[0..p] of det(tI - M) = sum c[i] t^(p-i) (Faddeev-LeVerrier, exact)"""
    p = len(m)
    c = [Fraction(1)]
    mk = [[Fraction(0)] * p for _ in range(p)]
    for k in range(1, p + 1):
        # mk = M * (mk + c[k-1] I)
        t = [[mk[i][j] + (c[k - 1] if i == j else 0) for j in range(p)] for i in range(p)]
        mk = [[sum(Fraction(m[i][a]) * t[a][j] for a in range(p)) for j in range(p)] for i in range(p)]
        c.append(-sum(mk[i][i] for i in range(p)) / k)
    return c


def in_domain(x):
    """the matrices the specification's arithmetic is proven for, with sigma_min^2 >= 1/4 decided exactly:
    mu_min(M) >= det M / e_{p-1}(M) and sigma_min^2 = mu_min / n"""
    n, p = len(x), len(x[0])
    m = scatter(x)
    tr = sum(m[j][j] for j in range(p))
    if not (1 <= tr <= 1400000 and tr // n <= 140000):
        return False
    if max(abs(v) for r in x for v in r) > 130:
        return False
    c = charpoly(m)
    det = c[p] * (-1) ** p
    ep1 = c[p - 1] * (-1) ** (p - 1) if p >= 2 else Fraction(1)
    return det > 0 and ep1 > 0 and 4 * det >= n * ep1


def random_cases(ctx, count):
    r = ctx.rng
    out = []
    tries = 0
    while len(out) < count and tries < 200 * count:
        tries += 1
        p = r.choice([1, 2, 2, 3, 3, 3, 4, 4, 5, 6])
        n = r.randint(p + 1, 20)
        shape = r.choice(["iso", "aniso", "lowrank", "offset", "scaled"])
        sc = [1] * p
        off = [0] * p
        if shape == "aniso":
            sc = [r.choice([1, 3, 10]) for _ in range(p)]
        if shape == "scaled":
            sc[r.randrange(p)] = r.choice([16, 30])
        if shape == "offset":
            off = [r.choice([0, 7, -40, 100]) for _ in range(p)]
        x = [[sc[j] * r.randint(-3, 3) for j in range(p)] for _ in range(n)]
        if shape == "lowrank" and p >= 2:
            # last column = integer combination of the others + noise in {-1, 0, 1}
            w = [r.randint(-2, 2) for _ in range(p - 1)]
            for row in x:
                row[p - 1] = sum(w[j] * row[j] for j in range(p - 1)) + r.randint(-1, 1)
        x = [[row[j] + off[j] for j in range(p)] for row in x]
        if not in_domain(x):
            continue
        q = [[off[j] + r.randint(-4, 4) for j in range(p)], [r.randint(-5, 5) for _ in range(p)]]
        out.append({"kind": "pca", "inp": {"n": n, "p": p, "x": x, "q": q,
                                           "form": r.choice(["owned", "view", "fortran"])}})
    return out


# ----------------------------------------------------------------------------------------------
# larger problems (p >= 6): the truncated LOBPCG path (k <= p/5), the band p/5 < k <= p/3 and k > p/3

def posdef_shift(m, n):
    """exact: all eigenvalues of M exceed n/4 (sigma_min^2 > 1/4) <=> every leading principal minor of 4M - nI is
    positive (Sylvester); the minors are the pivots of fraction-free (Bareiss) elimination"""
    p = len(m)
    a = [[4 * m[i][j] - (n if i == j else 0) for j in range(p)] for i in range(p)]
    prev = 1
    for k in range(p):
        if a[k][k] <= 0:
            return False
        for i in range(k + 1, p):
            for j in range(k + 1, p):
                a[i][j] = (a[i][j] * a[k][k] - a[i][k] * a[k][j]) // prev
        prev = a[k][k]
    return True


def in_domain_big(x):
    n, p = len(x), len(x[0])
    mx = max(abs(v) for r in x for v in r)
    if not (p < n <= 400 and p <= 30 and n * n * mx * mx < 2000000000 and mx <= 130):
        return False
    m = scatter(x)
    tr = sum(m[j][j] for j in range(p))
    return 1 <= tr <= 1400000000 and tr // n <= 140000 and posdef_shift(m, n)


def band_ks(r, p):
    """embedding sizes at the borders of the three regimes k <= p/5 (truncated LOBPCG run), p/5 < k <= p/3
    (LOBPCG would nearly exhaust its search space) and k > p/3, plus one random size above p/3"""
    ks = {1, p // 5, p // 5 + 1, p // 3, p // 3 + 1, r.randint(p // 3 + 1, p - 1)}
    return sorted(k for k in ks if 1 <= k < p)


def big_case(r, n, p, shape, ks, unit=1):
    """integer matrix of the given shape whose magnitudes fit the specification's 31-bit budget (the amplitude of the
    entries and the steepness of the column ramp are reduced until sum sigma^2 <= 140000). `unit` > 1: the harness runs
    the implementation on unit * x and reports lengths in units of `unit` -- the same matrix at a larger magnitude (the
    absolute tolerance of LOBPCG makes the magnitude matter), the specification still sees x."""
    for base, div in [(3, 1), (2, 1), (1, 1), (2, 2), (1, 2), (1, 3), (1, 4), (1, 6)]:
        sc = [1] * p
        off = [0] * p
        if shape in ("ramp", "offramp"):
            sc = [1 + j // div for j in range(p)]          # column j scaled by 1 + j (div = 1)
        if shape in ("scaled", "offscaled"):
            sc[r.randrange(p)] = 30 // div
            sc[r.randrange(p)] = 10
        if shape in ("offset", "offscaled", "offramp"):
            off = [r.choice([0, 50, -20, 100]) for _ in range(p)]
        x = [[off[j] + sc[j] * r.randint(-base, base) for j in range(p)] for _ in range(n)]
        if in_domain_big(x):
            q = [[off[j] + r.randint(-3, 3) for j in range(p)], [r.randint(-5, 5) for _ in range(p)]]
            return {"kind": "pca", "inp": {"n": n, "p": p, "x": x, "q": q, "form": r.choice(["owned", "view", "fortran"]),
                                           "ks": ks, "zr": 3, "unit": unit, "shape": "%s/%d/%d" % (shape, base, div)}}
    return None


SHAPES = ["iso", "ramp", "scaled", "offset", "offscaled", "offramp"]
BIG_OFFSETS = [100000, 10000000, 1073741824, 1700000000]      # 1e5, 1e7, 2^30, a unix time stamp


def shifted_cases(r, count):
    """columns with a huge common offset relative to their spread (time stamps, sensor baselines): the harness adds
    the integer offset `offs[j]` (exact in f64) to column j of the records and probes and subtracts it from the logged
    mean / reconstructions; PCA is shift-invariant apart from the mean, so the specification keeps the un-shifted
    matrix.  p >= 10 with k in {1, 2, p div 5} is the iterative (LOBPCG) path, k = p div 3 + 1 and k = p the complete one."""
    out = []
    plan = [(50, 10), (80, 16), (100, 20), (60, 12), (65, 13), (150, 30)]
    for i in range(count):
        n, p = plan[i % len(plan)]
        sh = ["iso", "ramp", "scaled"][(i // len(plan) + i) % 3]
        ks = sorted({1, 2, p // 5, p // 3 + 1, p})
        c = big_case(r, n, p, sh, ks, 1)
        if c:
            # every column shifted, or every other one (offsets of mixed size)
            c["inp"]["offs"] = [r.choice(BIG_OFFSETS) if (i % 2 == 0 or j % 2 == 0) else 0 for j in range(p)]
            c["inp"]["shape"] += "+shift"
            out.append(c)
    return out


def big_cases(ctx):
    r = ctx.rng
    out = []
    if ctx.quick:
        half = ["ramp", "offscaled", "iso"]
        plan = [(5 * p, p, sh) for p in (6, 8, 12) for sh in half] + \
               [(5 * p, p, sh) for p in (7, 10, 13) for sh in SHAPES] + \
               [(80, 16, sh) for sh in half] + \
               [(100, 20, sh) for sh in ("ramp", "scaled", "offscaled", "offramp")]
        for (n, p, sh) in plan:
            # p = 20: k = 2, 3 are the sizes that hit the NaN panic of the unscaled LOBPCG run
            ks = band_ks(r, p) if p < 20 else sorted({2, 3} | set(band_ks(r, p)))
            # magnitude x10 for the large problems and the badly scaled / offset shapes
            c = big_case(r, n, p, sh, ks, 10 if p >= 16 or sh in ("scaled", "offscaled", "offramp") else 1)
            if c:
                out.append(c)
    else:
        for p in (6, 7, 8, 9, 10, 11, 12):
            for sh in SHAPES:
                for n in (5 * p, 2 * p + 3):
                    c = big_case(r, n, p, sh, list(range(1, p + 1)), r.choice([1, 4, 10]))          # every k
                    if c:
                        out.append(c)
        for (n, p) in ((60, 16), (100, 20), (200, 20), (150, 30), (300, 30)):
            for sh in ("ramp", "scaled", "offscaled", "offramp", "iso"):
                ks = list(range(1, p + 1)) if (n, p) in ((100, 20), (150, 30)) and sh in ("ramp", "offscaled") else \
                    sorted(set(band_ks(r, p) + [2, 3, p]))
                c = big_case(r, n, p, sh, ks, r.choice([1, 10, 10]))
                if c:
                    out.append(c)
    return out


def small_unit_cases(ctx, count):
    """very small magnitudes: the implementation runs on 2^-e * x (e = `ushift` in {10, 14, 17}: data of the order
    1e-3 .. 1e-5, exact in binary floating point) and is observed in units of 2^-e; the specification sees the integer
    matrix x.  Shapes: uniformly small columns, and one small column (entries -1..1) next to much larger ones."""
    r = ctx.rng
    out = []
    tries = 0
    while len(out) < count and tries < 200 * count:
        tries += 1
        p = r.choice([2, 3, 3, 4])
        n = r.randint(p + 3, 18)
        if len(out) % 2 == 0:
            x = [[r.randint(-3, 3) for _ in range(p)] for _ in range(n)]
        else:
            small = r.randrange(p)
            x = [[r.randint(-1, 1) if j == small else 20 * r.randint(-2, 2) for j in range(p)] for _ in range(n)]
        if not in_domain(x):
            continue
        q = [[r.randint(-4, 4) for _ in range(p)], [r.randint(-5, 5) for _ in range(p)]]
        out.append({"kind": "pca", "inp": {"n": n, "p": p, "x": x, "q": q, "form": r.choice(["owned", "view", "fortran"]),
                                           "ushift": [10, 14, 17][len(out) % 3]}})
    return out


def nontrivial(case):
    return case["inp"]["p"] >= 2


def run(ctx):
    binp = vlib.cargo_build("c18")
    vlib.tlc_mc(ctx, "Pca", MC_CFG(ctx.tier), coverage_actions=ACTIONS)
    cases = vlib.tlc_gen(ctx, "Gen_Pca", {"constants": GEN[ctx.tier], "invariants": ["Emit"]})
    ctx.exhaustive = False
    if not ctx.quick:
        cases += random_cases(ctx, 800)
    big = big_cases(ctx)
    cases += big
    tiny = small_unit_cases(ctx, 36 if ctx.quick else 300)
    cases += tiny
    shifted = shifted_cases(ctx.rng, 5 if ctx.quick else 36)
    cases += shifted
    vlib.number(cases)
    ctx.cases = len(cases)
    ctx.nontrivial = len({repr(c["inp"]["x"]) for c in cases if nontrivial(c)})
    ctx.extra["large_cases"] = len(big)
    ctx.extra["small_unit_cases"] = len(tiny)
    ctx.extra["shifted_cases"] = len(shifted)
    ctx.extra["large_fits_by_regime"] = {
        "k<=p/5": sum(1 for c in big for k in c["inp"]["ks"] if 5 * k <= c["inp"]["p"]),
        "p/5<k<=p/3": sum(1 for c in big for k in c["inp"]["ks"] if 5 * k > c["inp"]["p"] and 3 * k <= c["inp"]["p"]),
        "k>p/3": sum(1 for c in big for k in c["inp"]["ks"] if 3 * k > c["inp"]["p"])}
    traces = vlib.run_harness(ctx, binp, cases)
    vlib.sample(ctx, [t for t in traces if t["inp"]["p"] == 2 and t["inp"]["n"] == 3][:1]
                + [t for t in traces if t["inp"]["p"] == 3][:1])
    small = [t for t in traces if t["inp"]["p"] <= 6 and "ks" not in t["inp"]]
    large = [t for t in traces if not (t["inp"]["p"] <= 6 and "ks" not in t["inp"])]
    vlib.validate_with_findings(ctx, "Trace_Pca", small, constants=TRACE_CONST, chunk=2500)
    vlib.validate_with_findings(ctx, "Trace_Pca", large, constants=TRACE_CONST, chunk=40, tag="Trace_Pca_large")
    ctx.rule = ("cases = multisets of n rows over the grids {-2..3} (p=1, n<=%d), {-1..2}^2 (p=2, n<=%d), {-1,0,1}^3 (p=3, n<=%d), "
                "each as plain / offset / badly-scaled variant chosen by a hash, kept iff det M > 0 and sigma_min^2 >= 1/4 "
                "(exact), larger sub-domains thinned by Hash %% Mod (p=2,n>=4: %d, p=3: %d), enumerated by TLC (Gen_Pca) "
                "[+ 800 seeded random matrices n<=20, p<=6, isotropic / anisotropic / low-rank+noise / offset / badly scaled, "
                "in the thorough tier] + seeded larger matrices (quick: p in {6,7,8,10,12,13}, n=5p, p=16, n=80 and p=20, n=100, up to six shapes incl. "
                "column ramp 1+j, offsets, badly scaled columns, embedding sizes at the borders of the regimes k<=p/5, p/5<k<=p/3, k>p/3; "
                "thorough: p=6..12 with every k, p=16,20,30 with n up to 300); every case runs its embedding sizes x whitening "
                "off/on x 3 record layouts, two probe rows and 6 invalid requests; non-trivial = p >= 2; distinct by record matrix"
                % (GEN[ctx.tier]["MaxN1"], GEN[ctx.tier]["MaxN2"], GEN[ctx.tier]["MaxN3"], GEN[ctx.tier]["Mod2Big"],
                   GEN[ctx.tier]["Mod3"]))
    ctx.trusted = ["TLC + CommunityModules Json", "harness fixed-point encoding (harness/src/bin/c18.rs)",
                   "exact 31-bit arithmetic helpers SMD/MDX/Sq4 of Pca.tla (self-checked by invariant ArithOk)"]
    ctx.assumptions = ["floats are observed at 1e-4 (whitened components 1e-6); numerical allowance 1e-3 relative to the total "
                       "scatter on eigen/variance clauses, quantisation-only on mean, projection, round trip",
                       "leading-eigenspace clause: the complete (k = p) fit of the same data is verified as a full "
                       "orthonormal eigen-decomposition (eigen-equation + trace identity) and serves as certificate for "
                       "the truncated fits' singular values; Rayleigh bound on lattice directions as independent necessary check",
                       "record matrices are full rank with sigma_min >= 1/2 (rank-deficient input is outside the statement's quantifier)",
                       "magnitudes are limited by 32-bit TLC integers: sum of sigma^2 <= 140000, n <= 400, p <= 30, |x| <= 130 "
                       "(the generator lowers the entry amplitude / the steepness of the column ramp until a matrix fits)",
                       "for n > 20 the projection / round trip is logged for the first 3 training rows and the probes only",
                       "large cases with unit u > 1: the implementation runs on u*x and is observed in units of u (PCA is "
                       "homogeneous in the unit of length); the relation is evaluated on x",
                       "shifted cases: column offsets up to 1.7e9 are added by the harness and removed from the logged mean and "
                       "reconstructions (shift invariance of PCA); a backward-stable centring perturbs the data by "
                       "eps * offset <= 4e-7, far below the 1e-4 observation scale",
                       "an explained-variance ratio is a fraction (<= 1)"]
    return vlib.finish(ctx)


def replay(ctx, case):
    binp = vlib.cargo_build("c18")
    case = {"id": case.get("id", 1), "kind": case.get("kind", "pca"), "inp": case["inp"]}
    traces = vlib.run_harness(ctx, binp, [case])
    ctx.cases = 1
    vlib.validate_with_findings(ctx, "Trace_Pca", traces, constants=TRACE_CONST)
    return vlib.finish(ctx)
