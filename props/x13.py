"""X13 -- step-level trace validation of the coordinate-descent solver of linfa-elasticnet
(algorithms/linfa-elasticnet/src/algorithm.rs: coordinate_descent_with_intercept + duality_gap), extension of C11.

C11 validates the published model (KKT / minimiser of the documented objective).  X13 binds the ITERATION to an explicit
state machine:

(A) specs/CdStep.tla (+ CdStepOps.tla): cyclic coordinate descent as a state machine with two arithmetic layers advanced in
    lockstep -- EXACT rationals (reduced <<num, den>> pairs) and FIXED POINT 10^-6.  TLC checks on all tiny instances
    (n <= 3, p <= 2, integer designs incl. zero / equal / nearly collinear columns, penalty 0 / ridge / lasso / mixed,
    with and without intercept, budgets 1..MaxIt): the incrementally updated residual is the residual of the coefficients
    (InvResid), no coordinate or intercept step increases the objective (InvDescent), a coordinate update is the minimiser
    along its coordinate (InvCoordMin), the duality gap as coded is >= 0 and >= the suboptimality against the ridge
    minimiser in closed form / a grid (InvGap), the fixed-point layer follows the exact one within the slack the trace
    specification uses (InvTrack).  Seeded design bugs must each violate an invariant; the stop rule as coded must violate
    InvFresh (the published gap is the gap of the published coefficients) and the corrected rule must satisfy it.
(B) specs/Gen_CdStep.tla emits the same tiny instances as cases plus longer runs (n = 4, p <= 3, budgets up to 40).
    A third of the cases is also run through MultiTaskElasticNet on one target column (kind bcd1).
(C) harness x13 fits them with the step hook on (docs/reports/X13-hook.diff: cd.start / cd.coord / cd.icpt / cd.sweep /
    cd.end); specs/Trace_CdStep.tla replays every recorded event as an action of the fixed-point layer.
On a tree without the hook (detected from the sources) the cases carry hook = 0: the model runs on its own and only the
published coefficients / intercept / gap / sweep count are compared (the evidence says so).
"""
import copy
import json
import os
import vlib

INVS = ["InvResid", "InvDescent", "InvCoordMin", "InvGap", "InvTrack"]
ACTIONS = ["Coord", "Icpt", "SweepEnd"]
# seeded design bugs and the invariants one of which must be violated
DESIGN_BUGS = {"thr2": ["InvCoordMin", "InvDescent"], "ascent": ["InvCoordMin", "InvDescent"], "stale": ["InvResid"],
               "gapnol1": ["InvGap"]}
SLACK = {"SlW": 60, "SlR": 120, "SlG": 600}
DEV = "gap_check_one_sweep_early"
if os.environ.get("VERIF_X13_SLACK") and os.environ.get("VERIF_REPO", "/repo") != "/repo":      # development knob (slack calibration)
    SLACK = dict(zip(["SlW", "SlR", "SlG"], map(int, os.environ["VERIF_X13_SLACK"].split(","))))

TIER = {
    "quick": dict(mc=dict(MaxN=3, MaxP=2, MaxIt=2, Thin=5), bug=dict(MaxN=3, MaxP=2, MaxIt=2, Thin=9),
                  gen=dict(MaxN=3, MaxP=2, MaxIt=2, TinyThin=5, RunThin=300)),
    "thorough": dict(mc=dict(MaxN=3, MaxP=2, MaxIt=3, Thin=1), bug=dict(MaxN=3, MaxP=2, MaxIt=2, Thin=2),
                     gen=dict(MaxN=3, MaxP=2, MaxIt=3, TinyThin=1, RunThin=16)),
}
GAPCAP = 12


def hook_present():
    try:
        with open(os.path.join(vlib.REPO, "algorithms/linfa-elasticnet/src/algorithm.rs")) as f:
            return "LINFA_VERIF_CD_STEPS" in f.read()
    except OSError:
        return False


def mc_consts(d, rule="coded", variant="ok"):
    return {"MaxN": d["MaxN"], "MaxP": d["MaxP"], "MaxIt": d["MaxIt"], "Thin": d["Thin"], "GapCap": GAPCAP,
            "Rule": '"%s"' % rule, "Variant": '"%s"' % variant}


def violated(lines, invs):
    return [i for i in invs if any(("Invariant %s is violated" % i) in l for l in lines)]


def design_models(ctx):
    t = TIER[ctx.tier]
    vlib.tlc_mc(ctx, "CdStep", {"constants": mc_consts(t["mc"]), "invariants": INVS}, coverage_actions=ACTIONS, tag="CdStep_mc")
    # the corrected stop rule publishes the gap of the published coefficients ...
    vlib.tlc_mc(ctx, "CdStep", {"constants": mc_consts(t["bug"], rule="fresh"), "invariants": INVS + ["InvFresh"]}, tag="CdStep_fresh")
    # ... the rule as coded does not (finding gap_check_one_sweep_early), and every seeded design bug violates an invariant
    rej = {}
    rc, lines = vlib.tlc(ctx, "CdStep", {"constants": mc_consts(t["bug"]), "invariants": ["InvFresh"]}, workers=4, tag="CdStep_coded_fresh")
    if rc == 0 or violated(lines, ["InvFresh"]) != ["InvFresh"]:
        raise vlib.ToolError("design model CdStep: the coded stop rule was expected to violate InvFresh (rc=%d)" % rc)
    rej["coded_stop_rule"] = "InvFresh"
    for variant, expect in DESIGN_BUGS.items():
        invs = [i for i in INVS if i != "InvTrack"]
        rc, lines = vlib.tlc(ctx, "CdStep", {"constants": mc_consts(t["bug"], variant=variant), "invariants": invs},
                             workers=4, tag="CdStep_bug_" + variant)
        hit = violated(lines, invs)
        if rc == 0 or not hit or hit[0] not in expect:
            raise vlib.ToolError("design model CdStep: seeded design bug %s: expected a violation of %s, got rc=%d %s"
                                 % (variant, expect, rc, hit))
        rej[variant] = hit[0]
    ctx.extra["design_bugs_rejected_by_model"] = rej


def features(t):
    """measured on the case and the published result"""
    inp = t["inp"]
    tags = set()
    n, p = len(inp["x"]), len(inp["x"][0])
    cols = [tuple(r[j] for r in inp["x"]) for j in range(p)]
    if inp["pen"][0] == 0:
        tags.add("penalty_0")
    elif inp["l1r"][0] == 0:
        tags.add("pure_ridge")
    elif inp["l1r"][0] == inp["l1r"][1]:
        tags.add("pure_lasso")
    else:
        tags.add("mixed_l1_l2")
    if any(all(v == 0 for v in c) for c in cols):
        tags.add("zero_column")
    if len(set(cols)) < len(cols):
        tags.add("equal_columns")
    for a in range(p):
        for b in range(a + 1, p):
            d = [u - v for u, v in zip(cols[a], cols[b])]
            if sum(1 for v in d if v != 0) == 1 and any(cols[a]):
                tags.add("nearly_collinear_columns")
    tags.add("intercept" if inp["icpt"] else "no_intercept")
    fit = [e for e in t["ev"] if e["ev"] == "fit"]
    if fit and fit[0].get("res") == 0:
        st = fit[0]["steps"]
        if st >= 3:
            tags.add("three_or_more_sweeps")
        if st == inp["maxit"]:
            tags.add("budget_used_up")
        else:
            tags.add("converged_before_budget")
        if any(w[0] == 0 and w[2] == 0 for w in fit[0]["w"]) and inp["pen"][0] > 0 and inp["l1r"][0] > 0:
            tags.add("coefficient_thresholded_to_zero")
    sw = [e for e in t["ev"] if e["ev"] == "cd.sweep"]
    if any(e["pre"] == 1 and e["dec"] == 0 for e in sw):
        tags.add("gap_computed_run_continues")
    if any(e["pre"] == 0 for e in sw):
        tags.add("precheck_not_fired")
    if any(e["ev"] == "cd.coord" and e["skip"] == 1 for e in t["ev"]):
        tags.add("skipped_column_event")
    tags.add("block_solver_one_task" if t["kind"] == "bcd1" else "single_task_solver")
    return tags


NEED = ["block_solver_one_task", "single_task_solver", "penalty_0", "pure_ridge", "pure_lasso", "mixed_l1_l2", "zero_column", "equal_columns", "nearly_collinear_columns",
        "intercept", "no_intercept", "three_or_more_sweeps", "budget_used_up", "converged_before_budget",
        "coefficient_thresholded_to_zero"]
NEED_HOOK = ["gap_computed_run_continues", "precheck_not_fired", "skipped_column_event"]


# ---------------------------------------------------------------------------------------------
# trace corruption self-test (VERIF_X13_CORRUPT=1, and in the thorough tier on a hooked tree): one logged field of one
# event of an accepted hooked trace is perturbed; the case must be rejected (a field nobody reads is unbound)

def _corruptions():
    def tri(f, d, k=None):
        def m(e):
            v = e[f] if k is None else e[f][k]
            v[0] += d
            v[1] += 1000 * d
        return m

    def plain(f, d):
        def m(e):
            e[f] += d
        return m
    name = lambda n: (lambda t, i: t["ev"][i]["ev"] == n)
    coord = lambda t, i: t["ev"][i]["ev"] == "cd.coord" and t["ev"][i]["skip"] == 0
    swp_pre = lambda t, i: t["ev"][i]["ev"] == "cd.sweep" and t["ev"][i]["pre"] == 1
    return [
        ("start.n", name("cd.start"), plain("n", 1)),
        ("start.p", name("cd.start"), plain("p", 1)),
        ("start.t", name("cd.start"), plain("t", 1)),
        ("start.maxit", name("cd.start"), plain("maxit", 1)),
        ("coord.block", coord, lambda e: e.__setitem__("block", 1 - e["block"])),
        ("sweep.block", name("cd.sweep"), lambda e: e.__setitem__("block", 1 - e["block"])),
        ("start.icpt", name("cd.start"), lambda e: e.__setitem__("icpt", 1 - e["icpt"])),
        ("start.norm", name("cd.start"), tri("norms", 1000, 0)),
        ("start.pen", name("cd.start"), tri("pen", 1000)),
        ("start.l1r", name("cd.start"), tri("l1r", 1000)),
        ("start.tol", name("cd.start"), lambda e: e["tol"].__setitem__(1, e["tol"][1] + 50)),
        ("start.gtol", name("cd.start"), tri("gtol", 50)),
        ("start.gap0", name("cd.start"), tri("gap0", 50)),
        ("coord.sweep", coord, plain("sweep", 1)),
        ("coord.j", coord, plain("j", 1)),
        ("coord.skip", coord, lambda e: e.__setitem__("skip", 1)),
        ("coord.old", coord, tri("old", 2000, 0)),
        ("coord.corr", coord, tri("corr", 40000, 0)),
        ("coord.new", coord, tri("new", 2000, 0)),
        ("coord.r", coord, tri("r", 2000, 0)),
        ("icpt.rmean", name("cd.icpt"), tri("rmean", 2000, 0)),
        ("icpt.shift", name("cd.icpt"), tri("shift", 2000, 0)),
        ("icpt.r", name("cd.icpt"), tri("r", 2000, 0)),
        ("sweep.sweep", name("cd.sweep"), plain("sweep", 1)),
        ("sweep.dwmax", name("cd.sweep"), tri("dwmax", 2000)),
        ("sweep.wmax", name("cd.sweep"), tri("wmax", 2000)),
        ("sweep.pre_cleared", swp_pre, lambda e: e.__setitem__("pre", 0)),
        ("sweep.gap", swp_pre, tri("gap", 20000)),
        ("sweep.gtol", name("cd.sweep"), tri("gtol", 50)),
        ("sweep.dec", name("cd.sweep"), lambda e: e.__setitem__("dec", (e["dec"] + 1) % 3)),
        ("end.steps", name("cd.end"), plain("steps", 1)),
        ("end.logged", name("cd.end"), plain("logged", -1)),
        ("end.gap", name("cd.end"), tri("gap", 50)),
        ("fit.w", name("fit"), tri("w", 2000, 0)),
        ("fit.b", name("fit"), tri("b", 2000)),
        ("fit.gap", name("fit"), tri("gap", 50)),
        ("fit.steps", name("fit"), plain("steps", 1)),
        ("event_dropped", coord, None),
    ]


def corrupt_selftest(ctx, traces, ok, per=3):
    out, jobs, nid = {}, [], 10 ** 6
    pool0 = [t for t in traces if t["inp"]["hook"] and t["id"] in ok]
    for tag, pred, mut in _corruptions():
        cand = []
        for t in pool0:
            ks = [k for k in range(len(t["ev"])) if pred(t, k)]
            if ks:
                cand.append((t, ks[len(ks) // 2]))
        cand.sort(key=lambda x: (len(x[0]["ev"]), x[0]["id"]))
        chosen = cand[:: max(1, len(cand) // per)][:per]
        for t, k in chosen:
            t2 = copy.deepcopy(t)
            if mut is None:
                del t2["ev"][k]
            else:
                mut(t2["ev"][k])
            nid += 1
            t2["id"] = nid
            jobs.append((tag, t2))
        out[tag] = {"tried": len(chosen), "rejected": 0}
    ctl = []
    for _, t in jobs[::9]:
        o = copy.deepcopy([x for x in pool0 if x["inp"] == t["inp"]][0])
        nid += 1
        o["id"] = nid
        ctl.append(o)
    okc, _ = vlib.tlc_validate(ctx, "Trace_CdStep", ctl, constants=SLACK, tag="Trace_CdStep_corrupt_control", devs=[])
    if len(okc) != len(ctl):
        raise vlib.ToolError("trace corruption self-test: an unmodified control copy was rejected")
    okx, _ = vlib.tlc_validate(ctx, "Trace_CdStep", [t for _, t in jobs], constants=SLACK, tag="Trace_CdStep_corrupt", devs=[])
    for tag, t in jobs:
        if t["id"] not in okx:
            out[tag]["rejected"] += 1
    unbound = sorted(tag for tag, v in out.items() if v["tried"] and v["rejected"] < v["tried"])
    untried = sorted(tag for tag, v in out.items() if not v["tried"])
    ctx.extra["trace_corruption"] = {"fields": len(out), "corrupted_traces": sum(v["tried"] for v in out.values()),
                                     "rejected": sum(v["rejected"] for v in out.values()), "accepted_although_corrupted": unbound,
                                     "unmodified_control_copies_accepted": len(ctl), "no_trace_with_event": untried}
    vlib.log("trace corruption: %d corrupted traces, %d rejected; accepted: %s; untried: %s"
             % (sum(v["tried"] for v in out.values()), sum(v["rejected"] for v in out.values()), unbound, untried))
    return unbound


def random_cases(ctx, count):
    """seeded cases of the same schema (thorough tier): n = 4..5 rows, p = 1..3 integer columns in -3..3 (zero and duplicated
    columns with small probability), targets in -4..6, dyadic penalties, budgets up to 60"""
    r = ctx.rng
    out = []
    while len(out) < count:
        n, p = r.choice([4, 4, 5]), r.choice([1, 2, 2, 3])
        cols = []
        for _ in range(p):
            u = r.random()
            if u < 0.1:
                cols.append([0] * n)
            elif u < 0.2 and cols:
                c = list(r.choice(cols))
                if r.random() < 0.6:
                    c[r.randrange(n)] += 1
                cols.append(c)
            else:
                cols.append([r.randint(-3, 3) for _ in range(n)])
        x = [[cols[j][i] for j in range(p)] for i in range(n)]
        y = [r.randint(-4, 6) for _ in range(n)]
        pen = r.choice([[0, 1], [1, 8], [1, 4], [1, 2], [1, 1], [2, 1]])
        l1r = [1, 2] if pen[0] == 0 else r.choice([[0, 1], [1, 4], [1, 2], [3, 4], [1, 1]])
        out.append({"kind": r.choice(["cd", "cd", "bcd1"]), "inp": {"x": x, "y": y, "pen": pen, "l1r": l1r, "tol": [1, r.choice([10, 100, 1000, 10000])],
                                          "icpt": r.random() < 0.5, "maxit": r.choice([1, 2, 3, 5, 12, 60]), "fam": "random"}})
    return out


def in_range(case):
    """Input selection only (never a verdict): a float simulation of the coded iteration keeps the cases whose magnitudes stay
    inside the 31-bit fixed-point range of CdStepOps (|w| <= 12, |corr| <= 400, w.w <= 250, |y|^2 <= 250)."""
    inp = case["inp"]
    x, y = inp["x"], [float(v) for v in inp["y"]]
    n, p = len(x), len(x[0])
    if inp["icpt"]:
        m = sum(y) / n
        y = [v - m for v in y]
    if sum(v * v for v in y) > 250:
        return False
    pen, l1r = inp["pen"][0] / inp["pen"][1], inp["l1r"][0] / inp["l1r"][1]
    l1, l2 = n * pen * l1r, n * pen * (1 - l1r)
    w, r = [0.0] * p, list(y)
    nrm = [sum(x[i][j] ** 2 for i in range(n)) for j in range(p)]
    for _ in range(min(inp["maxit"], 80)):
        for j in range(p):
            if nrm[j] == 0:
                continue
            corr = sum(x[i][j] * r[i] for i in range(n)) + nrm[j] * w[j]
            nw = (abs(corr) - l1 if abs(corr) > l1 else 0.0) * (1 if corr > 0 else -1) / (nrm[j] + l2)
            r = [r[i] + x[i][j] * (w[j] - nw) for i in range(n)]
            w[j] = nw
            if abs(corr) > 400 or abs(nw) > 12 or max(abs(v) for v in r) > 25:
                return False
        if inp["icpt"]:
            m = sum(r) / n
            r = [v - m for v in r]
        if sum(v * v for v in w) > 250:
            return False
    return True


def prepare(case, hook):
    case["inp"]["hook"] = 1 if hook else 0
    return case


def run(ctx):
    binp = vlib.cargo_build("x13")
    t = TIER[ctx.tier]
    hook = hook_present()
    ctx.extra["hook_in_source"] = hook
    if not hook:
        vlib.log("linfa-elasticnet of this tree does not carry the X13 step hook: the step clauses are skipped")
    skip_mc = os.environ.get("VERIF_X13_SKIP_MC") == "1" and vlib.REPO != "/repo"     # development knob (mutant runs)
    if not skip_mc:
        design_models(ctx)
    cases = vlib.tlc_gen(ctx, "Gen_CdStep", {"init": "GInit", "next": "GNext", "constants": t["gen"], "invariants": ["Emit"]})
    ctx.exhaustive = False
    ctx.extra["cases_enumerated_by_tlc"] = len(cases)
    if not ctx.quick:
        cases += random_cases(ctx, 1500)
    n0 = len(cases)
    cases = [c for c in cases if in_range(c)]
    ctx.extra["cases_dropped_outside_fixed_point_range"] = n0 - len(cases)
    for c in cases:
        prepare(c, hook)
    vlib.number(cases)
    ctx.cases = len(cases)
    traces = vlib.run_harness(ctx, binp, cases, timeout=1200)
    nstep = sum(1 for tr in traces for e in tr["ev"] if e["ev"].startswith("cd."))
    if hook and nstep == 0:
        raise vlib.ToolError("linfa-elasticnet carries the X13 step hook but no step event was recorded (guard off / switch not read)")
    ok, rejected = vlib.validate_with_findings(ctx, "Trace_CdStep", traces, constants=SLACK, chunk=4000)
    feats, nontriv = {}, set()
    for tr in traces:
        if tr["id"] not in ok:
            continue
        tg = features(tr)
        for x in tg:
            feats[x] = feats.get(x, 0) + 1
        if any(e["ev"] == "fit" and e.get("res") == 0 and e["steps"] >= 2 for e in tr["ev"]):
            nontriv.add(json.dumps(tr["inp"], sort_keys=True))
    ctx.nontrivial = len(nontriv)
    ctx.extra.update({
        "by_kind": {k: sum(1 for tr in traces if tr["kind"] == k) for k in sorted({tr["kind"] for tr in traces})},
        "by_family": {k: sum(1 for tr in traces if tr["inp"]["fam"] == k) for k in sorted({tr["inp"]["fam"] for tr in traces})},
        "step_events_recorded": nstep,
        "step_events_replayed": sum(1 for tr in traces if tr["id"] in ok for e in tr["ev"] if e["ev"].startswith("cd.")) if hook else 0,
        "max_sweeps": max([e["steps"] for tr in traces for e in tr["ev"] if e["ev"] == "fit" and e.get("res") == 0] or [0]),
        "accepted_case_features": feats,
        "slack_units_1e-6": SLACK,
        "step_clauses": ("replayed" if hook else
                         "SKIPPED: linfa-elasticnet of this tree emits no cd.* events (docs/reports/X13-hook.diff not applied); the "
                         "model ran on its own and only the published coefficients / intercept / gap / sweep count were compared"),
    })
    if not rejected:
        for n in NEED + (NEED_HOOK if hook else []):
            if feats.get(n, 0) == 0:
                raise vlib.ToolError("vacuity: no accepted case with feature %s" % n)
    if hook and not rejected and (os.environ.get("VERIF_X13_CORRUPT") == "1" or (not ctx.quick and vlib.REPO == "/repo")):
        v0 = ctx.validated
        unbound = corrupt_selftest(ctx, traces, ok)
        ctx.validated = v0
        if unbound:
            raise vlib.ToolError("trace corruption accepted (unbound fields): %s" % ", ".join(unbound))
    vlib.sample(ctx, [tr for tr in traces if tr["inp"]["fam"] == "tiny" and len(tr["ev"]) > 4][:1]
                + [tr for tr in traces if tr["inp"]["fam"] == "run"][:1])
    ctx.rule = ("cases = family tiny: the instances of the design model CdStep (2-3 rows, 1-2 columns from a fixed column library incl. "
                "zero, equal and nearly collinear columns; penalty {0,1/2,2} x l1 ratio {0,1/2,1}; tolerance 1e-1/1e-3; with/without "
                "intercept; budgets 1..MaxIt), thinned by a fixed hash in the quick tier; family run: 4 rows, 1-3 columns, penalties "
                "{0,1/8,1/2,1,2} x l1 ratios {0,1/4,1/2,1}, tolerances 1e-1..1e-4, budgets {2,7,40}, hash-thinned; thorough adds seeded "
                "random cases; non-trivial = an accepted run of at least two sweeps; distinct by input")
    ctx.trusted = ["TLC + CommunityModules Json",
                   "hook call sites (docs/reports/X13-hook.diff: add-only, behind cfg(linfa_verif), opt-in at run time)",
                   "harness encoders (harness/src/bin/x13.rs: fixed point 1e6 / 1e9 with range flags)",
                   "fixed-point arithmetic of CdStepOps.tla (Mul6 / MulQ / MulDiv; tied to the exact rational layer by InvTrack "
                   "on the tiny instances)"]
    ctx.assumptions = [
        "numbers are observed in fixed point 1e-6 (1e-9 where they fit); the model's state is advanced by the model only, in fixed "
        "point 1e-6; logged values must be within SlW/SlR/SlG units of the model's (InvTrack bounds the drift of the fixed-point layer "
        "against exact arithmetic by 40 / 160 / 400 units on the tiny instances)",
        "decisions (pre-check, gap < tolerance) are demanded when the logged operands, resp. the model's values beyond the slack, "
        "decide them; a near-tie is free",
        "the two branches of the coded gap disagree at the switch when there is no l1 part; a dual norm within 2e-3 of the switch "
        "admits both branch values",
        "the exact layer of the design model evaluates objective / gap only while the state's denominators stay below ObjCap / GapCap "
        "(32-bit integers of TLC); runs whose pre-check fires beyond the cap are abandoned without verdict",
        "the multi-task block solver is replayed on ONE target column only (kind bcd1: it must run through the single-task state "
        "machine); blocks of several tasks (row norms, block soft threshold with a square root) are instrumented (bcd.* events) "
        "but not modelled",
        "termination is bounded by the sweep budget; a harness timeout is a tool error",
    ]
    return vlib.finish(ctx)


def replay(ctx, case):
    binp = vlib.cargo_build("x13")
    case = {"id": case.get("id", 1), "kind": case["kind"], "inp": dict(case["inp"])}
    prepare(case, hook_present())
    traces = vlib.run_harness(ctx, binp, [case])
    ctx.cases = 1
    vlib.validate_with_findings(ctx, "Trace_CdStep", traces, constants=SLACK)
    return vlib.finish(ctx)
