"""X03 -- random projections (Gaussian / sparse) and diffusion maps of linfa-reduction (extension of the specification).

(A) TLC model-checks specs/Embedding.tla (bounded design model of fit / transform: shape and documented failures,
    the identity observes the matrix, one image per row in any batch, relation tight) and specs/MC_Embedding.tla
    (the relations on closed-form instances: Johnson-Lindenstrauss bracket incl. the dimensions pinned by linfa's
    unit test, 2- and 3-point kernels with known spectrum, pooled density bounds).
(B) TLC (specs/Gen_Embedding.tla) enumerates the cases; the thorough tier adds seeded random cases of the same schema.
(C) harness/src/bin/x03.rs runs linfa-reduction on them; specs/Trace_Embedding.tla validates every event.
"""
import math
import os
import vlib

MODEL = {"quick": dict(MaxF=2, AMax=1, MaxG=2), "thorough": dict(MaxF=2, AMax=1, MaxG=3)}
GEN = {"quick": dict(MaxF=0, AMax=0, MaxG=0, NfSet="{1, 2, 3, 4, 5, 9}", MaxPts=4, MaxCoord=3,
                     JlNs="{2, 3, 5, 8}", MaxJlDim=120),
       "thorough": dict(MaxF=0, AMax=0, MaxG=0, NfSet="{1, 2, 3, 4, 5, 6, 7, 9, 12}", MaxPts=5, MaxCoord=3,
                        JlNs="{2, 3, 4, 5, 8, 16, 100, 1000}", MaxJlDim=260)}
INVS = ["InvShape", "InvIdentity", "InvFunctional", "InvLinear", "InvRelTight"]
ACTIONS = ["Fit", "TransformBatch", "TransformRow"]
PROBE_INVS = ["InvJL", "InvK2", "InvK3", "InvDens"]
TRACE_CONST = dict(MaxF=0, AMax=0, MaxG=0)


def _jl_bracket(ns, p, q):
    """the bracket of Embedding!JLDims (python mirror, used only to place n_features of random cases near the boundary;
    the verdict is always TLC's)"""
    ln = round(math.log(ns) * 10000)
    num, den = 24 * q ** 3, p * p * (3 * q - 2 * p)
    return (num * max(ln - 1, 0)) // (den * 10000), (num * (ln + 1)) // (den * 10000)


def random_cases(ctx, count):
    r = ctx.rng
    out = []
    for _ in range(count):
        t = r.random()
        if t < 0.4:
            meth = r.choice(["gauss", "sparse"])
            ft = r.choice(["f64", "f64", "f32"])
            nf = r.randint(1, 14)
            td = r.choice([r.randint(1, nf), r.randint(1, nf), nf, nf + 1, 0])
            rows = r.randint(1, 8)
            amp = 3 if ft == "f32" else 9
            X = [[r.randint(-amp, amp) for _ in range(nf)] for _ in range(rows)]
            seeds = r.sample(range(0, 10000), r.randint(1, 3))
            if 42 in seeds:
                seeds.remove(42)          # 42 happens to be the seed behind params(): never next to the default rng
            if r.random() < 0.3:
                seeds = [-1] + seeds
            if not seeds:
                seeds = [-1]
            out.append({"kind": "rp", "inp": {"meth": meth, "ft": ft, "nf": nf, "ns": r.randint(1, 9), "td": td,
                                              "seeds": seeds, "X": X}})
        elif t < 0.5:
            p, q = r.choice([(9, 10), (3, 4), (7, 10), (4, 5), (1, 2), (3, 5), (2, 3)])
            ns = r.randint(2, 40)
            lo, hi = _jl_bracket(ns, p, q)
            if hi > 260:
                continue
            nf = max(1, lo + r.choice([-2, -1, 0, 0, 1, 3]))
            out.append({"kind": "jl", "inp": {"meth": r.choice(["gauss", "sparse"]), "ft": "f64", "nf": nf, "ns": ns,
                                              "ep": p, "eq": q, "seeds": [r.choice([-1, r.randint(0, 999)])],
                                              "X": [[r.randint(-3, 3) for _ in range(nf)]]}})
        else:
            n = r.randint(2, 20)
            dim = r.choice([1, 2, 2, 3])
            # squared distances stay <= 3 eps: kernel entries >= exp(-3)
            side = r.randint(1, 4)
            pts = [[r.randint(0, side) for _ in range(dim)] for _ in range(n)]
            maxd2 = max(sum((a - b) ** 2 for a, b in zip(p1, p2)) for p1 in pts for p2 in pts)
            en, ed = r.choice([(max(4, maxd2 // 3 + 1), 1), (max(8, maxd2), 1), (2 * max(2, maxd2 // 3 + 1) + 1, 2)])
            es = r.choice([1, 1, 2, 2, 3, 4, r.randint(1, n), n + 1])
            steps = [1, r.randint(2, 4)]
            out.append({"kind": "dm", "inp": {"direct": False, "pts": pts, "en": en, "ed": ed, "es": es, "steps": steps,
                                              "kn": [], "kd": 1}})
    return out


def nontrivial(case):
    """non-trivial: a projection case that really fits (0 < dim <= n_features) on more than one feature, a jl case
    with a valid precision, a diffusion-map case with 0 < embedding_size < n on at least two distinct points"""
    i = case["inp"]
    if case["kind"] == "rp":
        return 0 < i["td"] <= i["nf"] and i["nf"] > 1
    if case["kind"] == "jl":
        return 0 < i["ep"] < i["eq"]
    n = len(i["kn"]) if i["direct"] else len(i["pts"])
    distinct = i["direct"] or len({tuple(p) for p in i["pts"]}) > 1
    return 0 < i["es"] < n and 0 not in i["steps"] and distinct


def run(ctx):
    binp = vlib.cargo_build("x03")
    vlib.mc_elem(ctx)
    if os.environ.get("VERIF_X03_SKIP_MC"):      # development only (mutant loops): the design model does not depend on the code
        vlib.log("design model skipped (VERIF_X03_SKIP_MC)")
    else:
        vlib.tlc_mc(ctx, "Embedding", {"constants": MODEL[ctx.tier], "invariants": INVS, "constraints": ["Bounded"]},
                    coverage_actions=ACTIONS)
        vlib.tlc_mc(ctx, "MC_Embedding", {"init": "PSpecInit", "next": "PSpecNext", "constants": TRACE_CONST,
                                          "invariants": PROBE_INVS}, workers=4)
    cases = vlib.tlc_gen(ctx, "Gen_Embedding", {"init": "GInit", "next": "GNext", "constants": GEN[ctx.tier],
                                                "invariants": ["Emit"]})
    ctx.exhaustive = False
    ctx.extra["exhaustive_subdomains"] = [
        "rp: meth x f32/f64 x n_features in NfSet x target_dim in {0, 1, nf-1, nf, nf+1, 2nf} x n_samples {1,4} x 2 rng sets",
        "jl: meth x eps in {9/10, 3/4, 7/10, 1/2, 1/4} x n_samples in JlNs x n_features = JL dimension + {-1, 0, 1, 2}; eps in {0, 1, 3/2, -1/2}",
        "dm: every sorted multiset of 2..MaxPts points on 0..MaxCoord x eps {4, 9/2} x embedding_size 1..n+1",
        "dm: every symmetric 3x3 matrix with unit diagonal and off-diagonal entries in {1,2,4}/16 x embedding_size {1,2}"]
    if not ctx.quick:
        cases += random_cases(ctx, 6000)
    vlib.number(cases)
    ctx.cases = len(cases)
    ctx.nontrivial = len({repr(sorted(c["inp"].items(), key=str)) + c["kind"] for c in cases if nontrivial(c)})
    traces = vlib.run_harness(ctx, binp, cases)
    pick = lambda k, f: [t for t in traces if t["kind"] == k and f(t["inp"])][:1]
    vlib.sample(ctx, pick("dm", lambda i: not i["direct"] and len(i["pts"]) == 3 and i["es"] == 2)
                + pick("rp", lambda i: i["meth"] == "sparse" and i["nf"] == 4 and i["td"] == 3)
                + pick("jl", lambda i: 0 < i["ep"] < i["eq"]))
    vlib.validate_with_findings(ctx, "Trace_Embedding", traces, constants=TRACE_CONST, chunk=1500)
    ctx.rule = ("cases = TLC-enumerated domain of Gen_Embedding (see exhaustive_subdomains) [+ 6000 seeded random cases in the "
                "thorough tier: n_features <= 14, rows <= 8, cells in -9..9; n_samples <= 40 for the JL dimension; "
                "diffusion maps of 2..20 lattice points in 1..3 dimensions, embedding sizes 1..4 (both solver branches)]; non-trivial = projection with 0 < dim <= "
                "n_features and n_features > 1 / valid eps / diffusion map with 0 < embedding_size < n on >= 2 distinct points; "
                "distinct by (kind, input)")
    ctx.trusted = ["TLC + CommunityModules Json", "Elem tables (self-checked by MC_Elem)",
                   "harness encodings (harness/src/bin/x03.rs): fixed point 10^6, FNV digests of bit patterns",
                   "the projection matrix is observed as transform(identity) (it has no accessor); Embedding!InvIdentity"]
    ctx.assumptions = ["digest equality = bit identity up to hash collision (2^-60 per comparison)",
                       "sparse density: pooled counts within 8 standard deviations of the documented density (deterministic "
                       "for a given tree and seed set; no statistical claim beyond that)",
                       "diffusion maps: dense Gaussian kernels with entries >= exp(-4) (or diagonally dominant dyadic matrices); "
                       "eigen-equation residual judged at (9n+10) * 10^-6, trace identity at (n(n/2+2)+es+5) * 10^-6",
                       "f32 projections: rounding allowance (n_features + 1) * 2^-24 relative to SUM |x_k r_kj| (n_features <= 15)",
                       "embedding_size = n is treated as unspecified (n - 1 non-trivial eigenpairs exist); a panic counts as "
                       "'an error' for embedding_size > n"]
    return vlib.finish(ctx)


def replay(ctx, case):
    binp = vlib.cargo_build("x03")
    traces = vlib.run_harness(ctx, binp, [case])
    ctx.cases = 1
    vlib.validate_with_findings(ctx, "Trace_Embedding", traces, constants=TRACE_CONST)
    return vlib.finish(ctx)
