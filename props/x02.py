"""X02 -- partial least squares (linfa-pls): the published decomposition satisfies the NIPALS / SVD definitions
(extension of the specification beyond the listed properties; see docs/reports/X02.md).

(A) TLC model-checks the design model of specs/Pls.tla: closed-form PLS1 data sets whose exact (rational) answer is
    rounded to the grid; the relation must accept it and its sign variants and reject typical wrong answers.
(B) TLC (specs/Gen_Pls.tla) enumerates the cases; the thorough tier adds seeded random cases of the same schema.
(C) harness/src/bin/x02.rs runs linfa-pls on them; specs/Trace_Pls.tla validates every event.
"""
import os, re, json
import vlib

MODEL = {"quick": dict(Scale=10000), "thorough": dict(Scale=10000)}
SHAPES_Q = "{421, 422, 522, 532, 523, 633, 322, 631, 412, 511, 222, 333}"          # 100 n + 10 p + q
SHAPES_T = SHAPES_Q[:-1] + ", 622, 732, 733, 613, 433}"
GEN = {"quick": dict(ShapeCodes=SHAPES_Q, Seeds=20, ThinC=2, EqSeeds=6, LooseSeeds=2),
       "thorough": dict(ShapeCodes=SHAPES_T, Seeds=60, ThinC=1, EqSeeds=20, LooseSeeds=6)}
INVS = ["InvRational", "InvExactOrth", "InvExactRot", "InvExactRecon", "InvAccept", "InvReject", "InvCentre"]
TRACE_CONST = dict(Scale=10000)
COMBOS = [("reg", "nipals"), ("reg", "svd"), ("can", "nipals"), ("can", "svd"), ("cca", "nipals"), ("cca", "svd"), ("svd", "svd")]


def ub(variant, n, p, q):
    return p if variant == "reg" else min(n, p, q)


def random_cases(ctx, count):
    """seeded random cases of the same schema: n <= 8, p, q <= 4, entries -3..4, offset / constant / duplicated columns"""
    r = ctx.rng
    out = []
    for _ in range(count):
        n = r.randint(2, 8)
        p = r.randint(1, 4)
        q = r.randint(1, 4)
        if min(p, q) == 4:
            q = 3
        X = [[r.randint(-3, 4) for _ in range(p)] for _ in range(n)]
        Y = [[r.randint(-3, 4) for _ in range(q)] for _ in range(n)]
        t = r.random()
        if t < 0.08 and p >= 2:
            for row in X:
                row[-1] = 2
        elif t < 0.16 and p >= 2:
            for row in X:
                row[-1] = row[0]
        elif t < 0.24:
            for row in X:
                row[0] += 40
            for row in Y:
                row[0] -= 15
        elif t < 0.30 and q >= 2:
            for row in Y:
                row[0] = 1
        # unseen rows near the columns (offsets included), so that the outputs stay on the grid
        Z = [[X[r.randrange(n)][j] + r.randint(-3, 3) for j in range(p)] for _ in range(2)]
        ZY = [[Y[r.randrange(n)][j] + r.randint(-3, 3) for j in range(q)] for _ in range(2)]
        if r.random() < 0.12:
            out.append({"kind": "equiv", "inp": {"scale": r.random() < 0.5, "X": X, "Y": Y, "p": p, "q": q}})
            continue
        variant, algo = r.choice(COMBOS)
        k = r.randint(1, max(1, ub(variant, n, p, q)))
        out.append({"kind": "fit", "inp": {"variant": variant, "algo": algo, "scale": r.random() < 0.5, "k": k, "tol": "tight",
                                           "maxit": 3000, "X": X, "Y": Y, "Z": Z, "ZY": ZY, "p": p, "q": q}})
    return out


def _stat_lines(ctx, tag_prefix):
    """<<"REG", id>> lines printed by the trace specification for fits that were judged with the structure clauses"""
    reg = set()
    for fn in os.listdir(ctx.work):
        if fn.startswith(tag_prefix) and fn.endswith(".out"):
            with open(os.path.join(ctx.work, fn), errors="replace") as f:
                for l in f:
                    m = re.match(r'^<<"REG", (-?\d+)>>$', l.strip())
                    if m:
                        reg.add(int(m.group(1)))
    return reg


def run(ctx):
    binp = vlib.cargo_build("x02")
    # design model: 6 closed-form data sets x k in {1, 2} x 10 candidate answers (TLC's -coverage profiling is not used: it
    # slows the rational arithmetic down 15x; vacuity is excluded by the state count and by InvRational / InvReject)
    _, dist = vlib.tlc_mc(ctx, "Pls", {"init": "DInit", "next": "DNext", "constants": MODEL[ctx.tier], "invariants": INVS}, workers=4)
    if dist < 120:
        raise vlib.ToolError("design model Pls: %d states, expected 120 (data sets x k x candidates)" % dist)
    cases = vlib.tlc_gen(ctx, "Gen_Pls", {"constants": GEN[ctx.tier], "invariants": ["Emit"]})
    ctx.exhaustive = False
    ctx.extra["exhaustive_subdomains"] = [
        "parameters: 3 estimators x 7 tolerance classes x max_iter in {0,1,2,default} x k in {0,1,2,3} on one data set; "
        "PlsSvd x scaling x k in {0..3}; single-sample data set x 4 estimators x k in {0,1,2}"]
    if not ctx.quick:
        cases += random_cases(ctx, 6000)
    vlib.number(cases)
    ctx.cases = len(cases)
    traces = vlib.run_harness(ctx, binp, cases, env={"X02_HANG_SECS": os.environ.get("X02_HANG_SECS", "10")})
    pick = lambda v, a: [t for t in traces if t["kind"] == "fit" and t["inp"]["variant"] == v and t["inp"]["algo"] == a
                         and t["inp"]["k"] == 2 and t["inp"]["tol"] == "tight" and len(t["ev"]) > 4][:1]
    vlib.sample(ctx, pick("reg", "nipals") + pick("can", "svd") + [t for t in traces if t["kind"] == "equiv"][:1])
    vlib.validate_with_findings(ctx, "Trace_Pls", traces, constants=TRACE_CONST, chunk=3000)
    reg = _stat_lines(ctx, "Trace_Pls")
    fit_ok = sum(1 for t in traces if t["kind"] == "fit" and any(e["ev"] == "fit" and e.get("ok") for e in t["ev"]))
    fit_err = sum(1 for t in traces if t["kind"] == "fit" and any(e["ev"] == "fit" and not e.get("ok") for e in t["ev"]))
    ctx.nontrivial = len(reg)
    ctx.extra["cases_by_kind"] = {k: sum(1 for c in cases if c["kind"] == k) for k in ("fit", "equiv")}
    ctx.extra["fits_ok"] = fit_ok
    ctx.extra["fits_err"] = fit_err
    ctx.extra["fits_judged_with_structure_clauses"] = len(reg)
    ctx.rule = ("cases enumerated by TLC (Gen_Pls): shape x seed -> pseudo-random integer matrices over -2..3 in seven forms "
                "(plain, constant column, duplicated column, offset, constant target column, orthogonal blocks, badly scaled column) "
                "x estimator/algorithm combination x scaling x every admissible k; parameter grid; loose-tolerance fits; "
                "one-component equivalence cases [+ seeded random n<=8, p,q<=4 in the thorough tier]; "
                "non-trivial = successful fits that the trace specification classified as regular and judged with all structure "
                "clauses (REG lines printed by Trace_Pls), distinct by case id")
    ctx.trusted = ["TLC + CommunityModules Json", "harness encoders: fixed point 1e-4, finiteness flags, serde view of the centring vectors "
                   "(harness/src/bin/x02.rs)"]
    ctx.assumptions = ["inputs are small integer matrices (exactly representable); outputs are compared on a 1e-4 grid with slacks derived "
                       "from the quantisation of the operands", "power-method fits use tolerance 1e-24 / 3000 iterations so that convergence "
                       "error is far below the grid; a fit that returns a documented run-time error is accepted unless the data make "
                       "failure impossible", "numerically degenerate fits (zero score or zero deflated cross-product on the grid) are only "
                       "judged for shapes, centring vectors and method/matrix consistency", "f32 is not exercised"]
    if ctx.nontrivial == 0 and not ctx.violations:
        raise vlib.ToolError("no fit was judged with the structure clauses (vacuous run)")
    return vlib.finish(ctx)


def replay(ctx, case):
    binp = vlib.cargo_build("x02")
    traces = vlib.run_harness(ctx, binp, [case], env={"X02_HANG_SECS": os.environ.get("X02_HANG_SECS", "10")})
    ctx.cases = 1
    vlib.validate_with_findings(ctx, "Trace_Pls", traces, constants=TRACE_CONST)
    return vlib.finish(ctx)
