"""C17 -- Count and tf-idf vectorisers equal a naive count of the tokenised corpus (DESIGN.md 8/C17).

(A) TLC model-checks the design model of Vectorizer.tla (ReadDoc / Filter / Reindex / Analyze at the grain
    of countgrams/mod.rs and helpers.rs) against the defining relation on a bounded domain.
(B) TLC (Gen_Vectorizer) enumerates corpora + settings as sequences of Unicode code points.
(C) harness c17 runs the real CountVectorizer / TfIdfVectorizer; Trace_Vectorizer recomputes vocabulary,
    counts and tf-idf entries from the code points and compares."""
import glob
import json
import os
import re

import vlib

MODEL = {"quick": dict(MaxDocs=3, MaxToks=3), "thorough": dict(MaxDocs=4, MaxToks=5)}
INVS = ["InvDf", "InvVocab", "InvRows", "InvWindow", "InvAlgebra", "InvTokens"]
ACTIONS = ["ReadDoc", "Filter", "Reindex", "Analyze"]
FAMS = ["ngram", "dfwin", "cap", "stop", "canon", "fixed", "mixed", "idf", "hist"]
TRACE_CONST = dict(MaxDocs=0, MaxToks=0)
RANDOM_CASES = 2500

# written forms for the seeded random cases (same alphabet as Vectorizer.tla / Gen_Vectorizer.tla)
def _s(x):
    return [ord(ch) for ch in x]


WORDS = [_s("aa"), _s("bb"), _s("cc"), _s("dd"), _s("ee")]
FORMS = [_s("Aa"), _s("b\u00e9"), _s("be\u0301"), _s("B\u00c9"), _s("\u00e9"), _s("c"), _s("\ufb01"), _s("a\u00b2"),
         _s("\u03d2\u03d2"), _s("x_1"), _s("E\u0301"), _s("fi"), _s("a2")]
SEPS = [_s(" "), _s(" "), _s(" "), _s("; "), _s(","), _s("-"), _s("  "), _s("\n"), _s("\t"), _s(". ")]
METHODS = ["smooth", "nonsmooth", "textbook"]


def _doc(r, pool, maxtok):
    k = r.choice([0, 1, 2, 3, r.randint(0, maxtok), r.randint(0, maxtok)])
    out = []
    for q in range(k):
        if q:
            out += r.choice(SEPS)
        out += r.choice(pool)
    if k and r.random() < 0.15:
        out = _s(" ") + out + _s(";")
    return out


def random_cases(ctx, count):
    """thorough tier: seeded random corpora of up to 8 documents x 12 tokens over 5 words (+ written forms)"""
    r = ctx.rng
    out = []
    for _ in range(count):
        plain = r.random() < 0.6
        pool = WORDS[:r.randint(2, 5)] + ([] if plain else r.sample(FORMS, r.randint(1, 5)))
        ntrain = r.choice([1, 2, 3, 4, 4, 5, 6, 8])
        train = [_doc(r, pool, 12) for _ in range(ntrain)]
        test = [_doc(r, pool + [_s("zz")], 12) for _ in range(r.randint(0, 3))]
        nmin = r.randint(1, 3)
        nmax = r.randint(nmin, 3)
        den = r.choice([1, 2, 4, 8, 16])
        a = r.randint(0, den)
        b = r.randint(a, den)
        if r.random() < 0.4:
            a, b, den = 0, 1, 1
        grams = []
        for d in train[:3]:
            toks = [t for t in re.split("[ ;,.\n\t-]+", "".join(map(chr, d))) if t]
            grams += [toks[q] for q in range(len(toks))] + [toks[q] + " " + toks[q + 1] for q in range(len(toks) - 1)]
        grams = [_s(g.lower()) for g in grams] or [_s("aa")]
        hasstop = r.random() < 0.3
        stop = [r.choice(grams) for _ in range(r.randint(0, 3))] if hasstop else []
        fixed = r.random() < 0.12
        vocab = [r.choice(grams + [_s("zz"), _s("Aa")]) for _ in range(r.randint(0, 5))] if fixed else []
        st = {"lower": r.random() < 0.7, "norm": r.random() < 0.7,
              "tok": r.choice(["default", "default", "re_w1", "re_s2", "fn_ws", "re_b2"]),
              "nmin": nmin, "nmax": nmax, "dfmin": [a, den], "dfmax": [b, den],
              "hasstop": hasstop, "stop": stop, "cap": r.choice([-1, -1, -1, 0, 1, 2, 3, 5, 8]),
              "fixed": fixed, "vocab": vocab}
        out.append({"kind": "vec", "inp": {"fam": "random", "st": st, "train": train, "test": test,
                                           "methods": r.sample(METHODS, r.randint(1, 3)),
                                           "form": r.choice(["string", "str", "checked"])}})
    return out


def _something_counted(trace):
    for e in trace["ev"]:
        if e.get("ev") in ("count", "tfidf") and e.get("on") == "train" and e.get("ok"):
            return any(x != 0 for row in e["m"] for x in row)
    return trace["kind"] == "idf"


def _cap_readings(ctx):
    """informational: which reading of 'most frequent' explains the capped vocabularies (printed by the trace spec)"""
    df_only = tf_only = both = 0
    for p in glob.glob(os.path.join(ctx.work, "Trace_Vectorizer_*.out")):
        if p.endswith("_dev.out") or "_dev_" in os.path.basename(p):
            continue
        with open(p, errors="replace") as f:
            for l in f:
                m = re.match(r'^<<"CAPREAD", (\d+), (TRUE|FALSE), (TRUE|FALSE)>>', l)
                if m:
                    d, t = m.group(2) == "TRUE", m.group(3) == "TRUE"
                    both += d and t
                    df_only += d and not t
                    tf_only += t and not d
    return {"cap_cases_explained_by_document_frequency_only": df_only,
            "cap_cases_explained_by_term_frequency_only": tf_only,
            "cap_cases_explained_by_both_readings": both}


def run(ctx):
    binp = vlib.cargo_build("c17")
    if os.environ.get("VERIF_C17_SKIP_MODEL") and vlib.REPO != "/repo":
        # development only (mutant runs on a scratch tree): phase (A) does not depend on the code under test
        vlib.log("skipping the design-model runs (VERIF_C17_SKIP_MODEL, scratch tree)")
    else:
        vlib.mc_elem(ctx)      # the ln table behind the idf formulas is itself model-checked
        vlib.tlc_mc(ctx, "Vectorizer", {"constants": MODEL[ctx.tier], "invariants": INVS}, coverage_actions=ACTIONS,
                    timeout=2400)
    cases = vlib.tlc_gen(ctx, "Gen_Vectorizer",
                         {"constants": {"Big": 0 if ctx.quick else 1, "Fams": vlib.tla_set(FAMS)}, "invariants": ["Emit"]},
                         workers=4, timeout=2400)
    ctx.exhaustive = True
    if not ctx.quick:
        cases += random_cases(ctx, RANDOM_CASES)
    vlib.number(cases)
    ctx.cases = len(cases)
    traces = vlib.run_harness(ctx, binp, cases, timeout=2400)
    ctx.nontrivial = len({json.dumps(t["inp"], sort_keys=True) for t in traces if _something_counted(t)})
    vlib.sample(ctx, [t for t in traces if t["inp"].get("fam") == "canon"][300:301]
                + [t for t in traces if t["inp"].get("fam") == "hist" and t["inp"]["via"] == "clone"][5:6]
                + [t for t in traces if t["inp"].get("fam") == "dfwin" and len(t["inp"]["train"]) == 4][40:41])
    vlib.validate_with_findings(ctx, "Trace_Vectorizer", traces, constants=TRACE_CONST, chunk=4500, timeout=2400)
    ctx.extra.update(_cap_readings(ctx))
    ctx.extra["cases_per_family"] = {f: sum(1 for c in cases if c["inp"].get("fam") == f) for f in FAMS + ["random"]}
    ctx.rule = ("cases = corpora x settings enumerated by TLC (Gen_Vectorizer: families ngram, dfwin, cap, stop, canon, fixed, "
                "mixed, idf, hist = builder histories: used with s1, re-configured by one setter on the same value or a clone, fitted with s2) [+ seeded random corpora <= 8 documents x 12 tokens in the thorough tier]; non-trivial = the "
                "recorded count matrix of the training corpus has a non-zero entry (or an idf case); distinct by input")
    ctx.trusted = ["TLC + CommunityModules Json",
                   "Unicode facts of the 8 non-ASCII code points of Vectorizer.tla!Alphabet (NFKD, lower-case, \\w, White_Space)",
                   "harness mapping of tokenizer names to API values (default, \\w+, \\S\\S+, \\b[^ ][^ ]+\\b, split_whitespace) in harness/src/bin/c17.rs",
                   "Elem.LnInt table (self-checked by MC_Elem)"]
    ctx.assumptions = ["document frequency bounds are dyadic rationals (exact in f32), so 'on the bound' is decided exactly",
                       "'most frequent' under max_features is accepted for document frequency or corpus term frequency, ties arbitrary",
                       "stop words are compared with vocabulary entries as given (no canonicalisation of the stop list)",
                       "tf-idf entries are compared at 1e-4 with slack 2e-4 per unit of count (+1e-4)",
                       "history cases: the settings in force at fit time are those last written by the setters (s2), for the same value and for a clone; the untouched original of a clone keeps s1",
                       "idf methods other than Smooth are reached through the serde representation of TfIdfVectorizer (no public setter)"]
    return vlib.finish(ctx)


def replay(ctx, case):
    binp = vlib.cargo_build("c17")
    case = {k: case[k] for k in ("id", "kind", "inp") if k in case}
    traces = vlib.run_harness(ctx, binp, [case])
    ctx.cases = 1
    vlib.validate_with_findings(ctx, "Trace_Vectorizer", traces, constants=TRACE_CONST)
    return vlib.finish(ctx)
