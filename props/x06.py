"""X06 -- unbounded proofs (Apalache inductive invariants + TLAPS) for the two small integer state machines
that TLC only checks for bounded sizes: the in-place fold mechanism of specs/KFold.tla and the bookkeeping
layer of specs/Smo.tla (DESIGN.md section 10, last item).

Obligations (every one is a separate tool run; `discharged` counts the ones the tool proved):
  apalache  KFoldIdx  (pointwise model, every variable an unbounded Int, no constant bounds the model:
                       the result holds for ALL n, k, f, t)
                SigmaLemma / RhoLemma / DivLemma (pure arithmetic, --length=0 from a pseudo-initial state),
                Init => IndInv (length 0), IndInv /\\ Next => IndInv' (length 1), IndInv => Safety (length 0)
  apalache  KFoldInd  (array model, n k f t nm symbolic inside the constants MaxN MaxF MaxT MaxM; one run
                       covers every configuration with n <= MaxN, and any number of steps)
                Init => IndInv, IndInv /\\ Next => IndInv', IndInv => Safety, SwapBlocks involution on arbitrary contents
  apalache  SmoInd    (array model, one run per L; any permutation, alpha vector, shrink set, number of rounds)
                Init => IndInv, IndInv /\\ Next => IndInv', IndInv => Safety
  tlapm     KFoldProofs / KFoldIndProofs / SmoProofs (every sequence length / every MaxN / every L)
  tlc       cross-checks: the typed variants and the original modules have identical reachable state sets on
            small constants; KFold.tla refines KFoldInd.tla and (for every probe cell) KFoldIdx.tla; the three
            copies of SwapBlocks / Sigma agree (XC_*.tla)
Sensitivity: every seeded design bug (constant Variant of the typed modules) must make at least one obligation
fail, otherwise the run is a tool error.  `X06_VARIANT=<name> bin/check X06` (or a file `.x06-variant` in the
tree given by --repo, which is how mutants/X06/*.diff drive bin/selftest) runs the MAIN obligations on the
broken model and must end in VIOLATION.

There is no Rust harness: the binding of KFold.tla / Smo.tla to the code is C01 / C13.
"""
import os, re, json, shutil, subprocess, time
from concurrent.futures import ThreadPoolExecutor
import vlib

TLAPS_LIB = "/opt/veriftools/tlapm/lib/tlapm/stdlib"

# ---------------------------------------------------------------------------------------------- tiers
TIER = {
    "quick": dict(
        kfoldind=[dict(MaxN=3, MaxF=2, MaxT=2, MaxM=2)], kfoldind_lemma=None,
        smoind=[4],
        xc_kfold=dict(MaxN=6, MaxF=2, MaxT=2, MaxM=2),
        xc_smo=[3],
        sens_idx=["copyblock"], sens_ind=["flattargets"], sens_smo=["nobounds"],
        sens_tlaps=[], sens_only=["idx_step", "ind_step", "smo_step"],
        par=8, apa_timeout=600),
    "thorough": dict(
        kfoldind=[dict(MaxN=4, MaxF=3, MaxT=3, MaxM=3), dict(MaxN=6, MaxF=2, MaxT=2, MaxM=2),
                  dict(MaxN=8, MaxF=2, MaxT=2, MaxM=2)],
        kfoldind_lemma=dict(MaxN=4, MaxF=2, MaxT=2, MaxM=2),
        smoind=[1, 2, 3, 4, 5, 6, 8, 10],
        xc_kfold=dict(MaxN=9, MaxF=3, MaxT=2, MaxM=2),
        xc_smo=[3, 4],
        sens_idx=["copyblock", "offbyone", "flattargets", "wrongfold"],
        sens_ind=["copyblock", "flattargets", "wrongfold"],
        sens_smo=["nobounds", "inverse", "staticloop"],
        sens_tlaps=[("KFoldIndProofs", "copyblock"), ("KFoldIndProofs", "wrongfold"), ("SmoProofs", "nobounds"),
                    ("SmoProofs", "inverse"), ("SmoProofs", "staticloop")],
        par=6, apa_timeout=2700),
}
KF_VARIANTS = ["copyblock", "offbyone", "flattargets", "wrongfold"]
SMO_VARIANTS = ["nobounds", "inverse", "staticloop"]
PROOF_MODULES = [("KFoldProofs", ["KFoldProofs"]),
                 ("KFoldIndProofs", ["KFoldIndProofs", "KFoldInd"]),
                 ("SmoProofs", ["SmoProofs", "SmoInd"])]


# ---------------------------------------------------------------------------------------------- tools
def variant_of(ctx):
    v = os.environ.get("X06_VARIANT", "").strip()
    marker = os.path.join(vlib.REPO, ".x06-variant")
    if not v and os.path.exists(marker):
        with open(marker) as f:
            v = f.read().strip()
    return v or "ok"


def apa_cmd(module, cfgp, init, inv, length, outdir):
    return ["apalache-mc", "check", "--config=" + cfgp, "--init=" + init, "--inv=" + inv, "--length=%d" % length,
            "--no-deadlock", "--out-dir=" + outdir, os.path.join(vlib.SPECS, module + ".tla")]


def run_apalache(ctx, ob, timeout):
    """ob: dict(name, module, consts, init, inv, length). Returns ob with status in
    {"discharged", "counterexample", "timeout", "error"} plus time, enabled/transitions (length-1 runs)."""
    tag = ob["name"]
    cfgp = os.path.join(ctx.work, tag + ".cfg")
    with open(cfgp, "w") as f:
        for k, v in ob["consts"].items():
            f.write("CONSTANT %s = %s\n" % (k, v))
        f.write("INIT Init\nNEXT Next\n")
    outdir = os.path.join(ctx.work, "apa_" + tag)
    shutil.rmtree(outdir, ignore_errors=True)
    cmd = apa_cmd(ob["module"], cfgp, ob["init"], ob["inv"], ob["length"], outdir)
    env = dict(os.environ)
    env.setdefault("JVM_ARGS", "-Xmx4g")
    env["TMPDIR"] = os.path.join(ctx.work, "tmp_" + tag)      # one SANY temp dir per run (concurrent runs)
    os.makedirs(env["TMPDIR"], exist_ok=True)
    t = time.time()
    try:
        p = subprocess.run(cmd, cwd=ctx.work, env=env, stdout=subprocess.PIPE, stderr=subprocess.STDOUT, text=True,
                           timeout=timeout)
        out = p.stdout
    except subprocess.TimeoutExpired as e:
        out = (e.stdout or b"").decode(errors="replace") if isinstance(e.stdout, bytes) else (e.stdout or "")
        subprocess.run(["pkill", "-f", "--", "--out-dir=" + outdir], stderr=subprocess.DEVNULL)
        ob.update(status="timeout", secs=round(time.time() - t, 1))
        return ob
    ob["secs"] = round(time.time() - t, 1)
    with open(os.path.join(ctx.work, tag + ".apa.out"), "w") as f:
        f.write(out)
    ob["cmd"] = " ".join(cmd)
    if "EXITCODE: OK" in out and "The outcome is: NoError" in out:
        ob["status"] = "discharged"
    elif "EXITCODE: ERROR (12)" in out:
        ob["status"] = "counterexample"
        m = re.search(r"Check the trace in: (\S+?violation1\.tla)", out)
        ob["cex"] = m.group(1) if m else outdir
        m = re.search(r"State (\d+): state invariant (\d+) violated", out)
        ob["violated"] = "state %s, conjunct %s of %s" % (m.group(1), m.group(2), ob["inv"]) if m else ob["inv"]
    else:
        ob["status"] = "error"
        ob["tail"] = "\n".join(out.splitlines()[-15:])
    # vacuity data for inductive steps: how many symbolic transitions were enabled from IndInv
    if ob["length"] == 1:
        logs = [os.path.join(dp, "detailed.log") for dp, _, fs in os.walk(outdir) if "detailed.log" in fs]
        if logs:
            with open(logs[0], errors="replace") as f:
                txt = f.read()
            m = re.search(r"Found (\d+) transitions", txt)
            ob["transitions"] = int(m.group(1)) if m else 0
            ob["enabled"] = len(set(re.findall(r"Step 1: Transition #(\d+) is enabled", txt)))
    if ob["status"] == "discharged":
        shutil.rmtree(outdir, ignore_errors=True)
    shutil.rmtree(env["TMPDIR"], ignore_errors=True)
    vlib.log("apalache %-34s %-14s %6.1fs" % (tag, ob["status"], ob["secs"]))
    return ob


def run_tlapm(ctx, module, deps, timeout=900, variant="ok"):
    """Run tlapm on a private copy (fingerprint cache stays in the work directory, always cold).
    variant != "ok": the copy's assumption `Variant = "ok"` is replaced, i.e. the same proof script is run against
    the model with the seeded design bug; it must then fail."""
    d = os.path.join(ctx.work, "tlaps_%s_%s" % (module, variant))
    shutil.rmtree(d, ignore_errors=True)
    os.makedirs(d)
    for m in deps:
        shutil.copy(os.path.join(vlib.SPECS, m + ".tla"), d)
    if variant != "ok":
        pm = os.path.join(d, module + ".tla")
        with open(pm) as f:
            txt = f.read()
        if 'Variant = "ok"' not in txt:
            raise vlib.ToolError("proof module %s has no assumption Variant = \"ok\"" % module)
        with open(pm, "w") as f:
            f.write(txt.replace('Variant = "ok"', 'Variant = "%s"' % variant))
    t = time.time()
    res = dict(name="tlaps_%s_%s" % (module, variant), module=module, tool="tlapm", variant=variant,
               cmd="tlapm --cleanfp --stretch 3 specs/%s.tla" % module)
    # tlapm's back-ends work under time limits (z3 5 s, Zenon 10 s, Isabelle 30 s, times --stretch): on a loaded machine
    # an obligation can time out although it is provable.  Attempt 1 is a cold run with stretched limits; the obligations
    # it could not prove are retried with much longer limits (the fingerprints of attempt 1 keep the proved ones).
    # A model with a seeded bug (variant != "ok") is expected to fail: one attempt, normal limits.
    attempts = [["tlapm", "--cleanfp", "--stretch", "3", module + ".tla"], ["tlapm", "--stretch", "12", module + ".tla"],
                ["tlapm", "--stretch", "40", module + ".tla"]]
    if variant != "ok":
        attempts = [["tlapm", "--cleanfp", module + ".tla"]]
    out = ""
    for ai, cmd in enumerate(attempts):
        try:
            p = subprocess.run(cmd, cwd=d, stdout=subprocess.PIPE, stderr=subprocess.STDOUT, text=True, timeout=timeout)
            out = p.stdout
        except subprocess.TimeoutExpired:
            res.update(status="timeout", secs=round(time.time() - t, 1), total=0, proved=0)
            return res
        with open(os.path.join(ctx.work, "tlaps_%s_%s.%d.out" % (module, variant, ai + 1)), "w") as f:
            f.write(out)
        if re.search(r"All (\d+) obligations? proved", out):
            break
        if ai + 1 < len(attempts):
            vlib.log("tlapm %s: attempt %d left obligations unproved (back-end time limits?), retrying with longer limits" % (module, ai + 1))
    res["attempts"] = ai + 1
    res["secs"] = round(time.time() - t, 1)
    m = re.search(r"All (\d+) obligations? proved", out)
    if m:
        res.update(status="discharged", total=int(m.group(1)), proved=int(m.group(1)))
    else:
        m = re.search(r"(\d+)/(\d+) obligations failed", out)
        if m:
            # "unproved": the provers found no proof.  This is not a counterexample (tlapm cannot refute).
            res.update(status="unproved", total=int(m.group(2)), proved=int(m.group(2)) - int(m.group(1)),
                       violated="%s of %s proof obligations not proved" % (m.group(1), m.group(2)))
            res["tail"] = "\n".join(l for l in out.splitlines() if "ERROR" in l or "PROVE" in l)[:1500]
        else:
            res.update(status="error", total=0, proved=0, tail="\n".join(out.splitlines()[-15:]))
    res["theorems"] = theorem_names(module)
    shutil.rmtree(os.path.join(d, ".tlacache"), ignore_errors=True)
    vlib.log("tlapm    %-34s %-14s %6.1fs (%d/%d obligations)" % (module + "/" + variant, res["status"], res["secs"], res["proved"], res["total"]))
    return res


def theorem_names(module):
    with open(os.path.join(vlib.SPECS, module + ".tla")) as f:
        return re.findall(r"^(?:THEOREM|LEMMA)\s+(\w+)\s*==", f.read(), re.M)


# ---------------------------------------------------------------------------------------------- obligations
def q(s):
    return '"%s"' % s


def kfoldidx_obs(variant, only=None):
    c = {"Variant": q(variant)}
    obs = [dict(name="idx_sigma", init="LemmaInit", inv="SigmaLemma", length=0),
           dict(name="idx_rho", init="LemmaInit", inv="RhoLemma", length=0),
           dict(name="idx_div", init="DivLemmaInit", inv="DivLemma", length=0),
           dict(name="idx_init", init="Init", inv="IndInv", length=0),
           dict(name="idx_step", init="IndInv", inv="IndInv", length=1),
           dict(name="idx_safety", init="IndInv", inv="Safety", length=0)]
    return [dict(o, name="%s_%s" % (o["name"], variant), module="KFoldIdx", consts=c, scope="all n,k,f,t (unbounded integers)")
            for o in obs if only is None or o["name"] in only]


def kfoldind_obs(variant, consts, only=None):
    c = {k: str(v) for k, v in consts.items()}
    c["Variant"] = q(variant)
    tag = "N%dF%dT%dM%d" % (consts["MaxN"], consts["MaxF"], consts["MaxT"], consts["MaxM"])
    obs = [dict(name="ind_init", init="Init", inv="IndInv", length=0),
           dict(name="ind_step", init="IndInv", inv="IndInv", length=1),
           dict(name="ind_safety", init="IndInv", inv="Safety", length=0),
           dict(name="ind_lemma", init="LemmaInit", inv="LemmaInvolution,LemmaPermutes", length=0)]
    return [dict(o, name="%s_%s_%s" % (o["name"], tag, variant), module="KFoldInd", consts=c,
                 scope="all n<=%(MaxN)d, k<=n, f<=%(MaxF)d, t<=%(MaxT)d, nm<=%(MaxM)d (symbolic)" % consts)
            for o in obs if only is None or o["name"] in only]


def smoind_obs(variant, L, only=None):
    c = {"L": str(L), "Variant": q(variant)}
    obs = [dict(name="smo_init", init="Init", inv="IndInv", length=0),
           dict(name="smo_step", init="IndInv", inv="IndInv", length=1),
           dict(name="smo_safety", init="IndInv", inv="Safety", length=0)]
    return [dict(o, name="%s_L%d_%s" % (o["name"], L, variant), module="SmoInd", consts=c, scope="L = %d" % L)
            for o in obs if only is None or o["name"] in only]


# ---------------------------------------------------------------------------------------------- TLC cross-checks
def st_lines(lines):
    return {vlib._unquote(l)[3:] for l in lines if l.startswith('"ST ')}


def cross_check(ctx, t):
    """TLC: typed variants and original modules have identical reachable state sets on small constants."""
    env = {"JAVA_TOOL_OPTIONS": "-DTLA-Library=" + TLAPS_LIB}
    res = {}
    kc = {k: str(v) for k, v in t["xc_kfold"].items()}
    rc, la = vlib.tlc(ctx, "XC_KFold", {"spec": "XSpec", "constants": kc, "view": "ProjView",
                                        "invariants": ["Emit", "XcIdxInv", "XcIndInv", "XcDefs"],
                                        "properties": ["XcIdxRefines", "XcIndRefines"]},
                      workers=4, env=env, tag="XC_KFold")
    if rc != 0:
        raise vlib.ToolError("cross-check XC_KFold: TLC rc=%d: %s" % (rc, "; ".join(l for l in la if "rror" in l)[:400]))
    kci = dict(kc, Variant=q("ok"))
    rc, lb = vlib.tlc(ctx, "XC_KFoldInd", {"constants": kci, "invariants": ["Emit", "IndInv", "Safety"]},
                      workers=4, env=env, tag="XC_KFoldInd")
    if rc != 0:
        raise vlib.ToolError("cross-check XC_KFoldInd: TLC rc=%d: %s" % (rc, "; ".join(l for l in lb if "rror" in l)[:400]))
    rc, lc = vlib.tlc(ctx, "XC_KFoldInd", {"init": "AllInit", "next": "Stutter", "constants": kci},
                      workers=4, env=env, tag="XC_KFoldInd_all")
    if rc != 0:
        raise vlib.ToolError("cross-check XC_KFoldInd(AllInit): TLC rc=%d" % rc)
    sa, sb = st_lines(la), st_lines(lb)
    ga, da = vlib.parse_states(la)
    gb, db = vlib.parse_states(lb)
    gc, dc = vlib.parse_states(lc)
    ctx.states += da + db
    ctx.transitions += ga + gb
    res["kfold"] = dict(constants=t["xc_kfold"], states_original_projected=len(sa), states_typed=len(sb),
                        identical=(sa == sb and len(sa) > 0), states_satisfying_IndInv=dc, tlc_distinct=[da, db])
    if sa != sb or not sa:
        diff = sorted(sa ^ sb)[:3]
        raise CrossMismatch("KFold.tla (in-place modes) and KFoldInd.tla differ on %s: %d vs %d states, e.g. %s"
                            % (kc, len(sa), len(sb), diff))
    if dc != len(sb):
        raise CrossMismatch("KFoldInd.IndInv is not the set of reachable states: %d states satisfy it, %d are reachable"
                            % (dc, len(sb)))
    # the comparison has teeth: a typed model with a seeded design bug does NOT have the same state set
    rc, lw = vlib.tlc(ctx, "XC_KFoldInd", {"constants": dict(kc, Variant=q("wrongfold")), "invariants": ["Emit"]},
                      workers=4, env=env, tag="XC_KFoldInd_wrongfold")
    if rc != 0 or st_lines(lw) == sa:
        raise vlib.ToolError("cross-check is blind: KFoldInd with Variant=wrongfold has the state set of KFold.tla (rc=%d)" % rc)
    res["kfold"]["states_typed_wrongfold_differ"] = len(st_lines(lw) ^ sa)
    res["smo"] = []
    for L in t["xc_smo"]:
        sc = {"L": str(L), "Variant": q("ok")}
        rc, la = vlib.tlc(ctx, "XC_Smo", {"constants": sc, "invariants": ["Emit"]}, workers=4, tag="XC_Smo_L%d" % L)
        rc2, lb = vlib.tlc(ctx, "XC_SmoInd", {"constants": sc, "invariants": ["Emit", "IndInv", "Safety"]}, workers=4,
                           tag="XC_SmoInd_L%d" % L)
        if rc != 0 or rc2 != 0:
            raise vlib.ToolError("cross-check XC_Smo/XC_SmoInd L=%d: TLC rc=%d/%d: %s"
                                 % (L, rc, rc2, "; ".join(l for l in la + lb if "rror" in l)[:400]))
        sa, sb = st_lines(la), st_lines(lb)
        ga, da = vlib.parse_states(la)
        gb, db = vlib.parse_states(lb)
        ctx.states += da + db
        ctx.transitions += ga + gb
        res["smo"].append(dict(L=L, states_original=len(sa), states_typed_outside_loops=len(sb),
                               states_typed_total=db, identical=(sa == sb and len(sa) > 0)))
        if sa != sb or not sa:
            raise CrossMismatch("Smo.tla and SmoInd.tla differ for L=%d: %d vs %d states, e.g. %s"
                                % (L, len(sa), len(sb), sorted(sa ^ sb)[:2]))
        if L == t["xc_smo"][0]:
            rc, lw = vlib.tlc(ctx, "XC_SmoInd", {"constants": dict(sc, Variant=q("nobounds")), "invariants": ["Emit"]},
                              workers=4, tag="XC_SmoInd_nobounds")
            if rc != 0 or st_lines(lw) == sa:
                raise vlib.ToolError("cross-check is blind: SmoInd with Variant=nobounds has the state set of Smo.tla (rc=%d)" % rc)
            res["smo"][-1]["states_typed_nobounds_differ"] = len(st_lines(lw) ^ sa)
    return res


class CrossMismatch(Exception):
    pass


# ---------------------------------------------------------------------------------------------- run
def violation(ctx, ob):
    case = {"id": ob["name"], "kind": "obligation",
            "inp": {k: ob.get(k) for k in ("module", "tool", "variant", "consts", "init", "inv", "length", "scope", "cmd")},
            "ev": [{"ev": ob["status"], "what": ob.get("violated", ""), "counterexample": ob.get("cex", ""),
                    "detail": ob.get("tail", "")}]}
    vlib.record_violation(ctx, case, ["obligation %s not discharged: %s %s" % (ob["name"], ob["status"], ob.get("violated", ""))])


def run(ctx):
    t = TIER[ctx.tier]
    variant = variant_of(ctx)
    if variant != "ok":
        vlib.log("running the MAIN obligations on the seeded design bug Variant = %s (expect VIOLATION)" % variant)
        # a run on a deliberately broken model never touches evidence/ or replays/
        vlib.EVID = ctx.work
        vlib.REPLAYS = os.path.join(ctx.work, "replays")
    kfv = variant if variant in KF_VARIANTS else "ok"
    smv = variant if variant in SMO_VARIANTS else "ok"
    if variant != "ok" and kfv == "ok" and smv == "ok":
        raise vlib.ToolError("unknown X06 variant %r" % variant)

    # main obligations
    main = kfoldidx_obs(kfv)
    for c in t["kfoldind"]:
        # ("offbyone" indexes out of the buffer: pointwise model only)
        main += kfoldind_obs("ok" if kfv == "offbyone" else kfv, c, only=["ind_init", "ind_step", "ind_safety"])
    # the involution lemma on arbitrary buffer contents is the slowest kind of query (MaxN=8: 878 s) and is proved for
    # every length by TLAPS: it is run on one small configuration in the thorough tier only
    if t.get("kfoldind_lemma"):
        main += kfoldind_obs("ok" if kfv == "offbyone" else kfv, t["kfoldind_lemma"], only=["ind_lemma"])
    for L in t["smoind"]:
        main += smoind_obs(smv, L)
    # sensitivity obligations (expected to FAIL); skipped when the whole run is on a broken variant
    sens = []
    if variant == "ok":
        for v in t["sens_idx"]:
            sens += kfoldidx_obs(v, only=["idx_sigma", "idx_step"])
        for v in t["sens_ind"]:
            sens += kfoldind_obs(v, t["kfoldind"][0], only=["ind_step"])
        for v in t["sens_smo"]:
            sens += smoind_obs(v, 3, only=["smo_step", "smo_safety"])
        if "sens_only" in t:
            sens = [o for o in sens if any(o["name"].startswith(p) for p in t["sens_only"])]
    for o in main + sens:
        o["tool"] = "apalache"
    # longest first
    order = sorted(main + sens, key=lambda o: (-o["length"], o["module"] != "KFoldInd", o["name"]))
    tl = []
    with ThreadPoolExecutor(max_workers=t["par"]) as ex:
        futs = []
        # the proof modules first (many small prover calls), then the Apalache runs, longest first
        if variant == "ok":
            for mod, deps in sorted(PROOF_MODULES, key=lambda m: m[0] != "KFoldIndProofs"):
                futs.append(ex.submit(run_tlapm, ctx, mod, deps))
        elif kfv in ("copyblock", "flattargets", "wrongfold"):
            futs.append(ex.submit(run_tlapm, ctx, "KFoldIndProofs", dict(PROOF_MODULES)["KFoldIndProofs"], 900, kfv))
        elif smv != "ok":
            futs.append(ex.submit(run_tlapm, ctx, "SmoProofs", dict(PROOF_MODULES)["SmoProofs"], 900, smv))
        futs += [ex.submit(run_apalache, ctx, o, t["apa_timeout"]) for o in order]
        if variant == "ok":
            for mod, v in t["sens_tlaps"]:
                futs.append(ex.submit(run_tlapm, ctx, mod, dict(PROOF_MODULES)[mod], 900, v))
        # the TLC cross-check runs in this thread meanwhile
        xc = None
        xc_err = None
        try:
            xc = cross_check(ctx, t)
        except CrossMismatch as e:
            xc_err = str(e)
        done = [f.result() for f in futs]
    tl = [d for d in done if d.get("tool") == "tlapm" and (d["variant"] == "ok" or variant != "ok")]
    tl_sens = [d for d in done if d.get("tool") == "tlapm" and d["variant"] != "ok" and variant == "ok"]

    # ---- verdict
    bad_tool = [o for o in main + tl if o["status"] in ("timeout", "error")]
    if bad_tool:
        for o in bad_tool:
            vlib.log("NOT DECIDED %s: %s\n%s" % (o["name"], o["status"], o.get("tail", "")))
        raise vlib.ToolError("obligation(s) not decided (timeout / tool error): " + ", ".join(o["name"] for o in bad_tool))
    for o in main + tl:
        if o["status"] != "discharged":
            violation(ctx, o)
    if xc_err:
        violation(ctx, dict(name="cross_check", module="XC_*", tool="tlc", status="counterexample", violated=xc_err))
    # vacuity of the inductive steps: every symbolic transition must be enabled from IndInv (for the sizes where
    # every action can fire: KFoldInd always, SmoInd from L = 2, where Update has two positions)
    for o in main:
        if o["status"] == "discharged" and o["length"] == 1 and o.get("transitions"):
            if o["enabled"] < o["transitions"] and not (o["module"] == "SmoInd" and o["consts"]["L"] == "1"):
                raise vlib.ToolError("inductive step %s is partly vacuous: %d of %d transitions enabled from IndInv"
                                     % (o["name"], o["enabled"], o["transitions"]))
    # sensitivity: each seeded design bug must break at least one of its obligations
    sens_res = {}
    for o in sens:
        v = o["consts"]["Variant"].strip('"')
        key = "%s/%s" % (o["module"], v)
        sens_res.setdefault(key, [])
        if o["status"] in ("timeout", "error"):
            raise vlib.ToolError("sensitivity obligation %s not decided: %s" % (o["name"], o["status"]))
        if o["status"] == "counterexample":
            sens_res[key].append("%s: %s" % (o["name"], o.get("violated", "")))
    for o in tl_sens:
        if o["status"] in ("timeout", "error"):
            raise vlib.ToolError("sensitivity proof run %s not decided: %s\n%s" % (o["name"], o["status"], o.get("tail", "")))
        sens_res["%s/%s" % (o["module"], o["variant"])] = (
            ["%s: %s" % (o["name"], o.get("violated", ""))] if o["status"] in ("counterexample", "unproved") else [])
    missed = [k for k, v in sens_res.items() if not v]
    if missed:
        raise vlib.ToolError("seeded design bug(s) %s break no obligation: the inductive invariants are too weak" % missed)

    # ---- evidence
    n_apa = len(main)
    n_tl = sum(o["total"] for o in tl)
    discharged = sum(1 for o in main if o["status"] == "discharged") + sum(o["proved"] for o in tl)
    ctx.cases = n_apa + len(tl) + len(sens) + len(tl_sens)
    ctx.nontrivial = len({(o["module"], o["init"], o["inv"], json.dumps(o["consts"], sort_keys=True)) for o in main
                          if o["length"] == 1 or o["init"] != "Init"}) + len(tl)
    ctx.rule = ("one case = one proof obligation handed to a checker (apalache-mc check run, or tlapm run over a proof module); "
                "non-trivial = inductive steps, IndInv => Safety and arithmetic lemmas (the Init => IndInv runs are the trivial ones); "
                "distinct by (module, init, inv, constants)")
    ctx.validated = 0
    ctx.exhaustive = False
    for o in (main[:2] + [m for m in main if m["name"].startswith("ind_step")][:1]
              + [m for m in main if m["name"].startswith("smo_step")][-1:]):
        ctx.samples.append(json.dumps({k: o.get(k) for k in ("name", "module", "scope", "init", "inv", "length", "status", "secs", "enabled", "transitions")}))
    for o in tl[:2]:
        ctx.samples.append(json.dumps({k: o.get(k) for k in ("name", "module", "status", "proved", "total", "theorems", "secs")}))
    ctx.extra.update({
        "obligations": n_apa + n_tl,
        "discharged": discharged,
        "checker_cmd": "apalache-mc check --config=<constants>.cfg --init=IndInv --inv=IndInv --length=1 --no-deadlock specs/{KFoldIdx,KFoldInd,SmoInd}.tla "
                       "(and --init=Init --inv=IndInv --length=0, --init=IndInv --inv=Safety --length=0, lemma runs); "
                       "tlapm --cleanfp --stretch 3 specs/{%s}.tla; TLC cross-checks specs/XC_*.tla" % ",".join(o["module"] for o in tl),
        "apalache_obligations": [{k: o.get(k) for k in ("name", "module", "scope", "init", "inv", "length", "status", "secs", "enabled", "transitions")} for o in main],
        "tlaps_modules": [{k: o.get(k) for k in ("module", "status", "proved", "total", "attempts", "theorems", "secs")} for o in tl],
        "cross_check": xc,
        "sensitivity": sens_res,
        "variant": variant,
        "unbounded_means": "KFoldIdx (Apalache) and the TLAPS modules: no bound at all (integers / sequences / constants are arbitrary); "
                           "KFoldInd: all n<=MaxN etc. symbolically for the listed MaxN, any number of steps; SmoInd (Apalache): each listed L separately, "
                           "any permutation / alpha / shrink set / number of rounds",
    })
    ctx.trusted = ["Apalache 0.58.0 + z3 (symbolic transition executor, non-linear integer arithmetic)",
                   "tlapm + z3/Zenon/Isabelle backends", "TLC + CommunityModules Json (cross-checks)",
                   "pointwise abstraction argument of KFoldIdx.tla (one probe cell per buffer; justified by theorems SwapBlocksIsSigma / SigmaInvolution and checked by TLC as a refinement on small constants)"]
    ctx.assumptions = ["KFold.tla / Smo.tla model the code (bound to the implementation by C01 / C13, not here)",
                       "the typed variants equal the original modules: checked by TLC on the small constants only"]
    return vlib.finish(ctx, level="proof")


def replay(ctx, case):
    """Re-run one obligation of a replay file."""
    inp = case["inp"]
    if inp.get("tool") == "tlapm":
        mod = inp["module"]
        deps = dict(PROOF_MODULES)[mod]
        o = run_tlapm(ctx, mod, deps, 900, inp.get("variant") or "ok")
    elif inp.get("tool") == "tlc":
        try:
            cross_check(ctx, TIER[ctx.tier])
            o = dict(name="cross_check", status="discharged")
        except CrossMismatch as e:
            o = dict(name="cross_check", module="XC_*", tool="tlc", status="counterexample", violated=str(e))
    else:
        o = dict(name=str(case["id"]), module=inp["module"], consts=inp["consts"], init=inp["init"], inv=inp["inv"],
                 length=inp["length"], tool="apalache", scope=inp.get("scope"))
        o = run_apalache(ctx, o, 1500)
    ctx.cases = 1
    if o["status"] in ("timeout", "error"):
        raise vlib.ToolError("obligation %s not decided: %s" % (o["name"], o["status"]))
    if o["status"] != "discharged":
        violation(ctx, o)
    ctx.extra.update({"obligations": 1, "discharged": 1 if o["status"] == "discharged" else 0,
                      "checker_cmd": o.get("cmd", "")})
    ctx.nontrivial = 1
    ctx.samples.append(json.dumps({k: o.get(k) for k in ("name", "module", "status")}))
    return vlib.finish(ctx, level="proof")
