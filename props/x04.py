"""X04 -- FastICA (linfa-ica): parameter errors before training, predict = (X - mean) W^T, whitened (covariance c*I) recovered sources,
bit-identical results for a fixed random_state, weak separation of two-source lattice mixtures (extension of the
specification beyond the listed properties; docs/reports/X04.md).

(A) TLC model-checks specs/FastIca.tla: Validate ; Center ; Unmix ; Predict row by row of the ideal algorithm on
    mixtures whose exact unmixing matrix is rational; the invariants show that the relations accept the rounded exact
    outputs and reject small perturbations, and that invalid parameters never reach training.
(B) TLC (specs/Gen_FastIca.tla) enumerates the cases; the thorough tier adds seeded random cases of the same schema.
(C) harness/src/bin/x04.rs runs linfa-ica on them; specs/Trace_FastIca.tla validates every event.
"""
import glob
import os
import re

import vlib

MODEL = {"quick": dict(NCat=3, NMix=2), "thorough": dict(NCat=5, NMix=4)}
GEN = {"quick": dict(N2Max=4, Thin1=2, Thin2=12, ThinMix=2, MixVar=2),
       "thorough": dict(N2Max=5, Thin1=1, Thin2=4, ThinMix=1, MixVar=3)}
INVS = ["InvErr", "InvDomain", "InvMean", "InvCell", "InvWhite", "InvSep", "InvScale", "InvEqualVar"]
ACTIONS = ["Validate", "Center", "Unmix", "PredictRow", "Done"]
TRACE_CONST = dict(NCat=0, NMix=0)

GSET = [("logcosh", 1000), ("logcosh", 1500), ("logcosh", 2000), ("exp", 0), ("cube", 0)]
MIX_AS = [[[1, 1], [1, 2]], [[1, -1], [1, 1]], [[3, 1], [1, 2]], [[2, 1], [-1, 1]], [[2, -1], [1, 3]], [[1, 0], [0, 1]]]
NOMIX = {"s1": [], "s2": [], "A": [], "off": [], "ord": ""}


# ---------------------------------------------------------------------------------------------------------
# seeded random cases of the same schema (thorough tier).  The generator only proposes inputs; whether a clause
# applies to a case (full rank, separation domain) is decided by the specification.

def _sub_gauss(s):
    """mirror of FastIca!SubGauss, used only to draw sources inside the separation domain"""
    m, lo, hi = len(s), min(s), max(s)
    t = [2 * v - (lo + hi) for v in s]
    if not (2 <= m <= 9 and 0 < hi - lo <= 14):
        return False
    if any(t.count(v) != t.count(-v) for v in set(t)):
        return False
    m2 = sum(v * v for v in t)
    m4 = sum(v ** 4 for v in t)
    return 10 * m * m4 <= 23 * m2 * m2


def _source(r):
    while True:
        if r.random() < 0.6:                                   # equally spaced lattice
            m = r.randint(2, 8)
            d = r.randint(1, min(3, 14 // (m - 1)))
            a = -((m - 1) * d) // 2 + r.randint(-2, 2)
            s = [a + d * j for j in range(m)]
        else:                                                  # symmetric lattice with gaps / repeated centre
            half = sorted(r.sample(range(1, 8), r.randint(1, 3)))
            c = r.randint(-2, 2)
            s = [c - v for v in reversed(half)] + ([c] * r.randint(0, 2)) + [c + v for v in half]
        if _sub_gauss(s) and max(abs(v) for v in s) <= 9:
            return s


def _well_cond(A):
    det = A[0][0] * A[1][1] - A[0][1] * A[1][0]
    fro = sum(v * v for row in A for v in row)
    return det != 0 and fro <= 8 * abs(det)


def _src_rows(s1, s2, ord_):
    m1, m2 = len(s1), len(s2)
    lex = [[s1[q // m2], s2[q % m2]] for q in range(m1 * m2)]
    col = [[s1[q % m1], s2[q // m1]] for q in range(m1 * m2)]
    return {"lex": lex, "rev": lex[::-1], "col": col}[ord_]


def _znear(X, p, r):
    return [[X[0][j] + r.randint(-2, 2) for j in range(p)], [X[-1][j] + r.randint(-2, 2) for j in range(p)]]


def random_cases(ctx, count):
    r = ctx.rng
    out = []
    while len(out) < count:
        t = r.random()
        g, am = r.choice(GSET)
        if t < 0.45:                                           # mixture inside the separation domain
            s1, s2 = _source(r), _source(r)
            n = len(s1) * len(s2)
            ord_ = r.choice(["lex", "rev", "col"])
            S = _src_rows(s1, s2, ord_)
            if n > 64 or any(n * sum(row[j] ** 2 for row in S) > 200000 for j in range(2)):
                continue
            while True:
                A = [[r.randint(-3, 3) for _ in range(2)] for _ in range(2)]
                if _well_cond(A):
                    break
            off = [r.choice([0, 0, r.randint(-9, 9), r.randint(-1000, 1000)]) for _ in range(2)]
            X = [[A[b][0] * row[0] + A[b][1] * row[1] + off[b] for b in range(2)] for row in S]
            mi, te = r.choice([(-1, 0), (2000, 9), (500, 6), (-1, 5)])
            out.append({"kind": "mix", "inp": dict(X=X, p=2, k=r.choice([0, 2]), g=g, am=am,
                                                   seeds=[r.randint(0, 10 ** 6) for _ in range(5)], mi=mi, te=te,
                                                   Z=_znear(X, 2, r), s1=s1, s2=s2, A=A, off=off, ord=ord_)})
        elif t < 0.85:                                         # unstructured integer matrix
            p = r.randint(1, 3)
            n = r.randint(p + 2, 30)
            scale = [r.choice([1, 1, 1, 5, 20]) for _ in range(p)]
            off = [r.choice([0, 0, 100, -1000]) for _ in range(p)]
            X = [[off[j] + scale[j] * r.randint(-9, 9) for j in range(p)] for _ in range(n)]
            out.append({"kind": "gen", "inp": dict(X=X, p=p, k=r.randint(0, p), g=g, am=am, seeds=[r.randint(0, 10 ** 6)],
                                                   mi=r.choice([-1, -1, 0, 1, 2, 5, 50]), te=r.choice([0, 0, 1, 3, 9]),
                                                   Z=_znear(X, p, r), **NOMIX)})
        else:                                                  # invalid parameters on anything
            p = r.randint(1, 3)
            n = r.randint(1, 12)
            X = [[r.randint(-3, 3) * r.choice([0, 1, 1]) for _ in range(p)] for _ in range(n)]
            which = r.choice(["k", "alpha", "both"])
            k = p + r.randint(1, 5) if which in ("k", "both") else r.randint(0, p)
            if which in ("alpha", "both"):
                g, am = "logcosh", r.choice([r.randint(-3000, 999), r.randint(2001, 9000)])
            out.append({"kind": "bad", "inp": dict(X=X, p=p, k=k, g=g, am=am, seeds=[r.randint(0, 99)],
                                                   mi=r.choice([-1, 0, 0, 1, 7]), te=r.choice([0, 3]),
                                                   Z=_znear(X, p, r), **NOMIX)})
    return out


def nontrivial(case):
    """non-trivial = anything but a fit of unstructured data with every parameter at its default"""
    i = case["inp"]
    if case["kind"] != "gen":
        return True
    return i["k"] != 0 or i["mi"] != -1 or i["te"] != 0 or (i["g"], i["am"]) != ("logcosh", 1000) or i["p"] > 1


def _sep_marks(ctx):
    """<<"SEP", id, separated seeds, seeds>> lines printed by Trace_FastIca when the separation clause was demanded"""
    ids = {}
    for path in glob.glob(os.path.join(ctx.work, "Trace_FastIca*.out")):
        with open(path, errors="replace") as f:
            for l in f:
                m = re.match(r'^<<"SEP", (\d+), (\d+), (\d+)>>$', l.strip())
                if m:
                    ids[int(m.group(1))] = (int(m.group(2)), int(m.group(3)))
    return ids


def _validate(ctx, traces):
    ok, rejected = vlib.validate_with_findings(ctx, "Trace_FastIca", traces, constants=TRACE_CONST, chunk=3000)
    ctx.validated = len(traces) - len(rejected)
    return ok, rejected


def run(ctx):
    binp = vlib.cargo_build("x04")
    if os.environ.get("VERIF_X04_SKIP_MC"):      # development only (mutant loops): the design model does not depend on the code
        vlib.log("design model skipped (VERIF_X04_SKIP_MC)")
    else:
        vlib.tlc_mc(ctx, "FastIca", {"spec": "Spec", "constants": MODEL[ctx.tier], "invariants": INVS},
                    coverage_actions=ACTIONS)
    cases = vlib.tlc_gen(ctx, "Gen_FastIca", {"constants": GEN[ctx.tier], "invariants": ["Emit"]})
    ctx.exhaustive = False
    ctx.extra["exhaustive_subdomains"] = [
        "gen: every non-constant column over {0,1,3}, n = 2..4, k in {unset, 1} (1/Thin1 hash sample)",
        "mix: every unordered pair of the nine catalogue sources x five G settings x {default, tight} stopping rule"
        " (1/ThinMix hash sample of MixVar mixing-matrix variants each)",
        "bad: five data shapes x (k = p+1, p+3 x five G | six invalid alphas x k in {unset, p} | both) x max_iter in {default,0,1,200}",
        "empty: p = 1..3 x five G settings"]
    if not ctx.quick:
        cases += random_cases(ctx, 2500)
    vlib.number(cases)
    ctx.cases = len(cases)
    ctx.nontrivial = len({repr(sorted(c["inp"].items(), key=str)) + c["kind"] for c in cases if nontrivial(c)})
    traces = vlib.run_harness(ctx, binp, cases)
    pick = lambda k: [t for t in traces if t["kind"] == k and len(t["inp"]["X"]) <= 4][:1]
    vlib.sample(ctx, pick("mix") + pick("gen") + pick("bad"))
    _validate(ctx, traces)
    # vacuity guard: the separation clause must have been demanded for every case generated as a mixture of the
    # separation domain (and only for those); a mismatch is a defect of the generator / specification pair, not of linfa
    marks = _sep_marks(ctx)
    want = {c["id"] for c in cases if c["kind"] == "mix"}
    fit_err = {t["id"] for t in traces if any(e.get("ev") == "panic" for e in t["ev"])}
    rejected = {v[0] for v in ctx.violations}
    missing = want - set(marks) - rejected - fit_err
    extra = set(marks) - want
    if missing or extra or not want:
        raise vlib.ToolError("separation clause coverage: %d mixture cases without SEP mark (%s), %d unexpected" %
                             (len(missing), sorted(missing)[:5], len(extra)))
    ctx.extra["cases_by_kind"] = {k: sum(1 for c in cases if c["kind"] == k) for k in ("gen", "mix", "xmix", "bad", "empty")}
    ctx.extra["separation_clause_cases"] = len(marks)
    ctx.extra["separated_seed_histogram"] = {"%d/%d" % k: sum(1 for v in marks.values() if v == k) for k in sorted(set(marks.values()))}
    ctx.extra["fits_ending_NotConverged"] = sum(1 for t in traces for e in t["ev"] if e.get("ev") == "fit" and e.get("err") == "NotConverged")
    ctx.rule = ("cases enumerated by TLC (Gen_FastIca): gen = full-rank integer matrices (one column over {0,1,3}; rows in {-1,0,2}^2, "
                "n = 3..N2Max, hash samples, also offset / badly scaled; five three-column matrices) x every k, G function / seed / "
                "max_iter / tol derived from a hash; mix = product lattices of two symmetric sub-Gaussian sources x six well-conditioned "
                "mixing matrices x offsets x sample orders x five G settings x two stopping rules, five seeds each; xmix = mixtures with "
                "skewed / spiky / zero-excess-kurtosis sources (structural clauses only); bad = invalid ncomponents / alpha on full-rank, "
                "zero, rank-one, single-row, one-column data x max_iter in {default,0,1,200}; empty = 0 x p "
                "[+ 2500 seeded random cases in the thorough tier]; non-trivial = anything but an all-default fit of one-column "
                "unstructured data; distinct by (kind, input)")
    ctx.trusted = ["TLC + CommunityModules Json",
                   "harness encoders: fixed point 1e-6 / 1e-4, finite / big flags, FNV-1a digests of the bit patterns (harness/src/bin/x04.rs)",
                   "W and mean are read through the model's public Serialize impl (serde_json)"]
    ctx.assumptions = [
        "inputs are integer matrices (exactly representable in f64); f64 only",
        "cells are compared on a 1e-6 grid: |y - (x-mean)W^T| <= (sum_b |x_b-mean_b| + 2) * 1e-6; covariance entries within 1e-4 (relative to the normaliser)",
        "the scale of the recovered sources is not documented: covariance c*I is demanded (centred, uncorrelated, equal variances, "
        "entries within 1e-4 relative) with SUM y y^T = d*I for one d in {n, n-1, 1}, the same d for every fit of a case",
        "separation is demanded only on product lattices of two symmetric sources with m4/m2^2 <= 2.3 mixed by a matrix with condition "
        "number < 8, with default or tighter stopping rule, as a majority of five seeds (a single random start may stop at a spurious "
        "fixed point), threshold 0.9 with 0.02 of slack",
        "rank-deficient data with valid parameters are outside the statement (any outcome accepted)",
        "equality of digests is equality of bit patterns up to FNV-1a collisions (2^-60 per comparison)"]
    return vlib.finish(ctx)


def replay(ctx, case):
    binp = vlib.cargo_build("x04")
    traces = vlib.run_harness(ctx, binp, [case])
    ctx.cases = 1
    _validate(ctx, traces)
    return vlib.finish(ctx)
