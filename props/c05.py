"""C05 -- every evaluation metric equals its definition recomputed from first principles (DESIGN.md 8/C05).

(A) TLC model-checks specs/Metrics.tla (definitions + bounded design model: permutation invariance and
    algebraic consequences of every definition) and specs/MC_C05Big.tla (the exact wide-integer/rational
    arithmetic the definitions are written in) and the Elem tables (ln).
(B) TLC (specs/Gen_Metrics.tla) enumerates the bounded input domains as cases; the thorough tier adds
    seeded random longer inputs of the same schema.
(C) harness/src/bin/c05.rs feeds each case to the real linfa metric API through every calling form,
    label type and float type; TLC validates the recorded outputs against specs/Trace_Metrics.tla.
"""
import os
import vlib

BIG = 10000
ALL_KINDS = ["cm", "roc", "rocu", "reg", "regs", "mreg", "sil", "pear"]

# bounded design model (A)
MODEL = {
    "quick": dict(BigBase=BIG, CmLen=3, CmAlpha=3, RocLen=3, RocDen=2, RegLen=3, RegNeg=1, RegHi=1,
                  SilLen=4, SilPos=2, PearRows=3, PearHi=2),
    "thorough": dict(BigBase=BIG, CmLen=4, CmAlpha=3, RocLen=4, RocDen=2, RegLen=3, RegNeg=1, RegHi=2,
                     SilLen=5, SilPos=2, PearRows=4, PearHi=2),
}
INVS = ["InvPermutation", "InvCm", "InvRoc", "InvReg", "InvSil", "InvPear"]
BIG_INVS = ["WellFormed", "RoundTrip", "AddOk", "SubOk", "MulOk", "MulBigOk", "CmpOk", "CanonOk", "QOk", "QSumOk",
            "CloseOk", "CloseTolOk", "Pow2Ok", "SqrtOk", "SqrtBracket"]
BIG_R = {"quick": 8, "thorough": 60}

# case generator (B): several runs of Gen_Metrics with different bounds (union of the cases)
GEN_BASE = dict(CmLen=1, CmAlpha=1, CmBinLen=1, RocLen=2, RocDen=1, RegLen=1, RegNeg=0, RegHi=0, SilMinLen=4, SilLen=4,
                SilPos=1, SilKs="{2}", PearRows=2, PearCols=2, PearHi=1, RegLongLens="{}", RocuLen=1, RocuRank=0, PearWideCols="{}", RegsLens="{}")


def gen_runs(tier):
    """(kinds, constants) per TLC run of Gen_Metrics; one run enumerates one bounded domain per kind."""
    q = tier == "quick"
    runs = [
        # "reglong" is a generator tag (the cases are ordinary "reg" cases of length 22..48)
        (ALL_KINDS + ["reglong", "pearwide", "silwide"], dict(PearWideCols="{4, 5, 6}", RegsLens="{5, 8, 12}" if q else "{5, 8, 12, 16, 20}",RegLongLens="{22, 23, 24, 26, 28, 30, 32, 36, 40, 44, 47, 48}" if q else
                                       "{22, 23, 24, 25, 26, 28, 30, 32, 34, 36, 38, 40, 42, 44, 46, 47, 48}",
                         RocuLen=3, RocuRank=2 if q else 3,
                         CmLen=3 if q else 4, CmAlpha=3, CmBinLen=5 if q else 6,
                         RocLen=3 if q else 4, RocDen=4,
                         RegLen=2, RegNeg=2, RegHi=2,
                         SilMinLen=4, SilLen=5 if q else 6, SilPos=3, SilKs="{2}",
                         PearRows=3, PearCols=2, PearHi=2)),
        (["roc", "reg", "sil", "pear"], dict(RocLen=4, RocDen=2,
                                             RegLen=3, RegNeg=1, RegHi=(1 if q else 2),
                                             SilMinLen=6, SilLen=6, SilPos=3, SilKs="{3}",
                                             PearRows=3, PearCols=3, PearHi=1)),
        (["pear"], dict(PearRows=4, PearCols=2, PearHi=1)),
    ]
    if not q:
        runs.append((["pear", "sil", "rocu"], dict(RocuLen=4, RocuRank=2, PearRows=4, PearCols=3, PearHi=1,
                                           SilMinLen=7, SilLen=7, SilPos=2, SilKs="{2, 3}")))
    return runs


TRACE_CONST = dict(BigBase=BIG, CmLen=0, CmAlpha=0, RocLen=0, RocDen=0, RegLen=0, RegNeg=0, RegHi=0, SilLen=0, SilPos=0,
                   PearRows=0, PearHi=0)


# ------------------------------------------------------------------------------------------------
# seeded random cases of the same schema (thorough tier): longer vectors, small alphabets, many ties

def rperm(r, n):
    p = list(range(1, n + 1))
    r.shuffle(p)
    if n >= 2 and p == list(range(1, n + 1)):
        p[0], p[1] = p[1], p[0]
    return p


def random_cases(ctx, scale=1.0):
    r = ctx.rng
    out = []

    def cnt(x):
        return max(1, int(x * scale))

    for _ in range(cnt(2000)):       # label vectors: noisy copies, labels on one side only
        n = r.randint(5, 40)
        k = r.randint(2, 5)
        alpha = sorted(r.sample(range(0, 9), k))
        truth = [r.choice(alpha) for _ in range(n)]
        palpha = alpha if r.random() < 0.6 else sorted(r.sample(range(0, 9), r.randint(1, 4)))
        pred = [t if (r.random() < 0.6 and t in palpha) else r.choice(palpha) for t in truth]
        if len(set(pred) | set(truth)) > 5:
            continue
        out.append({"kind": "cm", "inp": {"pred": pred, "truth": truth, "perm": rperm(r, n)}})
    for _ in range(cnt(2000)):       # scores: ties, boundary scores 0 and 1
        n = r.randint(5, 40)
        den = r.choice([4, 8, 16, 64])
        truth = [r.randint(0, 1) for _ in range(n)]
        if len(set(truth)) < 2:
            truth[0], truth[1] = 0, 1
        levels = r.sample(range(0, den + 1), min(den + 1, r.randint(2, 6))) + r.choice([[], [0], [den], [0, den]])
        num = [min(den, max(0, r.choice(levels) + (r.choice([0, 0, 1]) if t else 0))) for t in truth]
        out.append({"kind": "roc", "inp": {"num": num, "den": den, "truth": truth, "perm": rperm(r, n)}})
    for _ in range(cnt(600)):        # scores that are neighbouring f32 values (ranks; see Gen_Metrics)
        n = r.randint(4, 30)
        truth = [r.randint(0, 1) for _ in range(n)]
        if len(set(truth)) < 2:
            truth[0], truth[1] = 0, 1
        top = r.choice([2, 3, 6])
        rank = [r.randint(0, top) for _ in range(n)]
        out.append({"kind": "rocu", "inp": {"rank": rank, "base": r.choice(["half", "zero", "one"]), "truth": truth,
                                            "perm": rperm(r, n)}})
    for _ in range(cnt(2000)):       # regression: offsets, non-negative (MSLE) and zero-free (MAPE) variants
        n = r.randint(4, 48)
        mode = r.choice(["any", "nonneg", "nozero", "shift"])
        lo, hi = {"any": (-9, 9), "nonneg": (0, 9), "nozero": (1, 9), "shift": (-5, 5)}[mode]
        b = [r.randint(lo, hi) for _ in range(n)]
        if len(set(b)) < 2:
            b[0] = lo
            b[1] = hi
        if mode == "shift":
            off = r.randint(-4, 4)
            a = [x + off + r.choice([0, 0, 0, 1, -1]) for x in b]
        else:
            a = [min(hi, max(lo, x + r.choice([0, 0, 1, -1, 2, -3]))) for x in b]
        if mode == "nozero":
            a = [x if x != 0 else 1 for x in a]
        out.append({"kind": "reg", "inp": {"a": a, "b": b, "perm": rperm(r, n)}})
    fams = [("f32", "2048", 13, 1, 1), ("f32", "2048", 13, 8, 1), ("f32", "65536", 8, 1, 2), ("f32", "65536", 8, 8, 8),
            ("f32", "1048576", 4, 1, 8), ("f32", "1048576", 4, 8, 64), ("f64", "1000000", 33, 1, 1), ("f64", "1000000", 33, 8, 1),
            ("f64", "1000000000", 23, 1, 1), ("f64", "1000000000", 23, 8, 1), ("f64", "1099511627776", 13, 1, 1),
            ("f64", "1099511627776", 13, 8, 1)]
    for _ in range(cnt(800)):        # offset families (see Gen_Metrics.OffFamilies): random spreads and errors
        n = r.randint(4, 24)
        ft, off, g, unit, sc = r.choice(fams)
        k = [r.randint(0, 12) for _ in range(n)]
        if len(set(k)) < 2:
            k[0], k[1] = 0, 12
        e = [r.choice([0, 0, 1, -1, 2, -3]) for _ in range(n)]
        out.append({"kind": "regs", "inp": {"a": [sc * (x + y) for x, y in zip(k, e)], "b": [sc * x for x in k], "unit": unit,
                                            "ft": ft, "off": off, "g": g, "perm": rperm(r, n)}})
    for _ in range(cnt(400)):
        n = r.randint(3, 12)
        t = r.randint(2, 3)
        b = [[r.randint(0, 6) for _ in range(n)] for _ in range(t)]
        for col in b:
            if len(set(col)) < 2:
                col[0], col[1] = 0, 6
        a = [[max(0, x + r.choice([0, 0, 1, -1, 2])) for x in col] for col in b]
        out.append({"kind": "mreg", "inp": {"a": a, "b": b, "perm": rperm(r, n)}})
    for _ in range(cnt(1200)):       # clusterings of collinear points, every cluster >= 2 distinct points
        k = r.randint(2, 4)
        pos, lab = [], []
        for c in range(k):
            m = r.choice([2, 2, 3, 4, 6, 7])          # unequal cluster sizes: nearest cluster by mean, not by total
            centre = r.randint(0, 30)
            pts = [max(0, centre + r.randint(-4, 4)) for _ in range(m)]
            if len(set(pts)) < 2:
                pts[0] = pts[1] + 1
            pos += pts
            lab += [c] * m
        n = len(pos)
        p0 = rperm(r, n)
        pos = [pos[i - 1] for i in p0]
        lab = [lab[i - 1] for i in p0]
        out.append({"kind": "sil", "inp": {"pos": pos, "lab": lab, "perm": rperm(r, n)}})
    for _ in range(cnt(1200)):
        n = r.randint(4, 12)
        m = r.randint(2, 6)
        cols = []
        for j in range(m):
            if j > 0 and r.random() < 0.4:      # correlated with an earlier column
                base = cols[r.randrange(j)]
                s = r.choice([1, -1, 2])
                col = [max(-9, min(9, s * x + r.choice([0, 0, 1, -1]))) for x in base]
            else:
                col = [r.randint(-5, 5) for _ in range(n)]
            if len(set(col)) < 2:
                col[0] = col[1] + 1
            cols.append(col)
        out.append({"kind": "pear", "inp": {"cols": cols, "perm": rperm(r, n)}})
    return out


def nontrivial(c):
    i = c["inp"]
    k = c["kind"]
    if k == "cm":
        return i["pred"] != i["truth"]
    if k == "roc":   # a tie between the classes or a boundary score
        pos = {s for s, t in zip(i["num"], i["truth"]) if t == 1}
        neg = {s for s, t in zip(i["num"], i["truth"]) if t == 0}
        return bool(pos & neg) or 0 in i["num"] or i["den"] in i["num"]
    if k == "rocu":  # an opposite-class pair of distinct scores closer than 2^-22
        rk = i["rank"]
        return any(0 < abs(a - b) <= 4 for a, ta in zip(rk, i["truth"]) for b, tb in zip(rk, i["truth"]) if ta != tb)
    if k in ("reg", "regs", "mreg"):
        return i["a"] != i["b"]
    return True


def key(c):
    i = dict(c["inp"])
    i.pop("perm", None)
    return c["kind"] + repr(sorted(i.items()))


def build_cases(ctx):
    kinds = [k for k in os.environ.get("C05_KINDS", "").split(",") if k] or ALL_KINDS   # development aid
    cases = []
    seen = set()
    for ks, over in gen_runs(ctx.tier):
        ks = [k for k in ks if k in kinds or (k == "reglong" and "reg" in kinds) or (k == "pearwide" and "pear" in kinds)
              or (k == "silwide" and "sil" in kinds)]
        if not ks:
            continue
        consts = dict(GEN_BASE)
        consts.update(over)
        consts["Kinds"] = vlib.tla_set(ks)
        for c in vlib.tlc_gen(ctx, "Gen_Metrics", {"constants": consts, "invariants": ["Emit"]}, workers=4):
            kk = key(c)
            if kk not in seen:
                seen.add(kk)
                cases.append(c)
    n_enum = len(cases)
    if not ctx.quick:
        for c in random_cases(ctx):
            kk = key(c)
            if c["kind"] in kinds and kk not in seen:
                seen.add(kk)
                cases.append(c)
    return cases, n_enum


def run(ctx):
    binp = vlib.cargo_build("c05")
    # (A) the arithmetic, the tables and the design model (C05_FAST=1: development aid for mutant runs,
    # skips this repository-independent stage; never set by the registered commands)
    if os.environ.get("C05_FAST") == "1":
        vlib.log("C05_FAST=1: skipping the design-model stage (A)")
        ctx.states = 1
    else:
        run_design_models(ctx)
    return run_conformance(ctx, binp)


def run_design_models(ctx):
    vlib.tlc_mc(ctx, "MC_C05Big", {"constants": {"BigBase": 10, "R": BIG_R[ctx.tier]}, "invariants": BIG_INVS}, workers=6)
    vlib.mc_elem(ctx)
    gen, dist = vlib.tlc_mc(ctx, "Metrics", {"init": "MInit", "next": "MNext", "constants": MODEL[ctx.tier], "invariants": INVS},
                            workers=8)
    # vacuity: every input is an initial state ("new") with one Start successor ("run"); the Swap successors
    # of a "run" state are "run" states of other inputs, so they add generated but no distinct states.
    # (vlib's coverage_actions reads the first periodic coverage dump, which predates the Swap level.)
    if gen < dist + dist // 2:
        raise vlib.ToolError("design model Metrics: no Swap transitions (%d generated, %d distinct)" % (gen, dist))


def run_conformance(ctx, binp):
    # (B) cases
    cases, n_enum = build_cases(ctx)
    vlib.number(cases)
    ctx.cases = len(cases)
    ctx.exhaustive = True      # the enumerated sub-domains (rule below) are covered completely
    ctx.nontrivial = len({key(c) for c in cases if nontrivial(c)})
    # (C) execute and validate
    traces = vlib.run_harness(ctx, binp, cases)
    for kind in ALL_KINDS:
        vlib.sample(ctx, [t for t in traces if t["kind"] == kind][:1], n=1)
    vlib.validate_with_findings(ctx, "Trace_Metrics", traces, constants=TRACE_CONST, chunk=4500)
    per_kind = {k: sum(1 for c in cases if c["kind"] == k) for k in ALL_KINDS}
    ctx.extra["cases_per_kind"] = per_kind
    ctx.extra["cases_enumerated_by_tlc"] = n_enum
    ctx.rule = ("cases enumerated by TLC (Gen_Metrics): all label-vector pairs over {0,1,2} up to length 3/4 and binary ones up to "
                "5/6; all score vectors over k/4 (length<=3/4) and k/2 (length<=4/5) with every truth assignment containing both "
                "classes; ulp-neighbour scores (ranks 0..2/3 mapped to adjacent f32 values at 1/2, 0 and 1, length<=3/4); all lattice vector "
                "pairs over -2..2 (length<=2) and -1..1/2 (length 3) and formula-built vectors of length 22..48; offset families (truth and prediction shifted by 2^11, 2^16, 2^20 in f32 and 1e6, 1e9, 2^40 in f64, integer and 1/8 spreads, length 5..12/20); two-column targets; sorted "
                "collinear positions 0..3 with every 2-/3-clustering into clusters of >=2 distinct points (length<=5/6) and 320 three-/four-cluster layouts of unequal sizes where the cluster nearest by total distance is not the one nearest by mean distance; all "
                "3x2, 3x3, 4x3 integer matrices with non-constant columns and 6x4..6x6 matrices from a pool of eight columns (both column orders),  [quick/thorough]; thorough adds seeded random longer "
                "inputs (length<=40). Each case is run through every calling form (arrays, views, datasets), label type "
                "(usize, String, bool) and float type, as given and after one permutation. non-trivial = prediction != truth "
                "(cm, reg), a tie between the classes or a boundary score 0/1 (roc), every clustering / matrix; distinct by (kind, input)")
    ctx.trusted = ["TLC + CommunityModules Json", "harness encoders (harness/src/bin/c05.rs: fixed-point rounding, parsing of the "
                   "ConfusionMatrix Debug rendering, order-preserving label renaming)",
                   "C05Big wide arithmetic (model-checked against native arithmetic, MC_C05Big)", "Elem ln table (model-checked, MC_Elem)"]
    ctx.assumptions = ["inputs are integer-lattice / dyadic values, exactly representable in f32 and f64",
                       "numerical allowance: f64 2e-6, f32 1e-5 + 1.5e-5 relative, ln-based scores 4e-4 (+ table error bound)",
                       "where the textbook formula divides by zero (constant truth for r2, empty class for precision, "
                       "zero receiver for MAPE, ...) nothing is demanded",
                       "precision()/recall() are specified as the documented cell formulas m00/(m00+m10), m00/(m00+m01)",
                       "order of the one-vs-one matrices and which member of a pair is 'positive' are not prescribed"]
    return vlib.finish(ctx)


def replay(ctx, case):
    binp = vlib.cargo_build("c05")
    case = {"id": case.get("id", 1), "kind": case["kind"], "inp": case["inp"]}
    traces = vlib.run_harness(ctx, binp, [case])
    ctx.cases = 1
    vlib.validate_with_findings(ctx, "Trace_Metrics", traces, constants=TRACE_CONST)
    return vlib.finish(ctx)
