"""C20 -- same data, parameters and seed give bit-identical results on every run (DESIGN.md 8/C20).

(A) TLC model-checks Determinism.tla: the schedule model of the k-means parallel loops (every
    interleaving of workers and rows) and the hash-order model of folds over a HashMap; the feared
    variants (per-worker partial sums, iteration-order dependent folds) must be REFUTED by TLC.
(B) Gen_Determinism.tla enumerates configurations x environment plans.
(C) harness c20 runs every configuration in every environment (rayon pools of 1..16 threads and the
    global pool, repeated in-process, in fresh child processes = fresh hash seeds, and -- builder family --
    with the parameter object built through different histories: fresh / re-set after use / clone of a
    used builder) and records digests
    of the exact bit patterns + the kmeans.par / kmeans.red hook events; Trace_Determinism.tla decides.
"""
import json, os, re, glob
import vlib

MC_SCHED = {"quick": dict(Workers="{1, 2, 3}", MaxRows=4), "thorough": dict(Workers="{1, 2, 3}", MaxRows=5)}
MC_HASH = {"quick": dict(Labels="{0, 1, 2}", MaxW=2), "thorough": dict(Labels="{0, 1, 2, 3}", MaxW=2)}
GEN = {"quick": dict(MaxLatN=3, MaxX=1, MaxL=2, Seeds="{0, 1, 2, 2147483647}", SeedsBig="{0, 2, 2147483647}", Tier='"quick"'),
       "thorough": dict(MaxLatN=4, MaxX=2, MaxL=2, Seeds="{0, 1, 2, 3, 1000003, 2147483647}", SeedsBig="{0, 1, 2, 2147483647}", Tier='"thorough"')}
SCHED_INVS = ["InvBarrier", "InvCells", "InvReduce", "InvCaller", "InvVal", "InvFine"]
SCHED_ACTIONS = ["SBegin", "SWrite", "SBarrier", "SRedBegin", "SRedRow", "SRedEnd", "SSum", "SVal"]
HASH_INVS = ["InvModal", "InvSum"]
HASH_ACTIONS = ["HVisit", "HDone"]
DUMMY = dict(Workers="{0}", MaxRows=1, Mode='"seq_reduce"', Labels="{0}", MaxW=1, Policy='"ordered"')

PLAN_SEQ = [[1, 2], [4, 1]]
PLAN_FULL = [[1, 1], [2, 2], [3, 1], [8, 1], [16, 1], [0, 1]]

CATALOGUE = [  # (est, var, uses rayon, uses seed) -- must match Gen_Determinism.tla (used for the random cases only)
    ("kmeans", "pp", 1, 1), ("kmeans", "random", 1, 1), ("kmeans", "pre", 1, 0), ("kmeans", "default", 1, 0),
    ("kmeans", "default_random", 1, 0), ("kmeans", "pp_f32", 1, 1), ("kmeans", "random_f32", 1, 1), ("kmeans_incr", "", 1, 1),
    ("tree_str", "gini", 0, 0), ("tree_str", "entropy", 0, 0), ("gnb_str", "", 0, 0), ("nb_incr", "gaussian", 0, 0),
    ("nb_incr", "multinomial", 0, 0), ("gmm", "kmeans", 1, 1), ("gmm", "random", 0, 1),
    ("gmm", "default", 1, 0), ("dbscan", "", 0, 0), ("optics", "", 0, 0), ("hier", "average", 0, 0), ("hier", "single", 0, 0),
    ("hier", "complete", 0, 0), ("hier", "ward", 0, 0), ("ols", "icpt", 0, 0), ("ols", "noicpt", 0, 0), ("glm", "normal", 0, 0),
    ("glm", "poisson", 0, 0), ("glm", "gamma", 0, 0), ("isotonic", "", 0, 0), ("elasticnet", "enet", 0, 0),
    ("elasticnet", "ridge", 0, 0), ("elasticnet", "lasso", 0, 0), ("mt_elasticnet", "", 0, 0), ("pls", "regression", 0, 0),
    ("pls", "canonical", 0, 0), ("pls", "cca", 0, 0), ("svr", "linear", 0, 0), ("svr", "gauss", 0, 0), ("logistic", "", 0, 0),
    ("mlogistic", "", 0, 0), ("svc", "linear", 0, 0), ("svc", "gauss", 0, 0), ("svm_multi", "", 0, 0), ("tree", "gini", 0, 0),
    ("tree", "entropy", 0, 0), ("tree", "gini_w", 0, 0), ("tree", "entropy_w", 0, 0), ("gnb", "", 0, 0), ("mnb", "", 0, 0),
    ("ftrl", "seeded", 0, 1), ("ftrl", "default", 0, 0), ("pca", "plain", 0, 0), ("pca", "whiten", 0, 0), ("diffmap", "", 0, 0),
    ("ica", "", 0, 1), ("randproj", "gauss", 0, 1), ("randproj", "sparse", 0, 1), ("randproj", "gauss_default", 0, 0),
    ("randproj", "sparse_default", 0, 0), ("scaler", "standard", 0, 0), ("scaler", "minmax", 0, 0), ("scaler", "maxabs", 0, 0),
    ("norm", "l2", 0, 0), ("norm", "l1", 0, 0), ("norm", "max", 0, 0), ("whiten", "pca", 0, 0), ("whiten", "zca", 0, 0),
    ("whiten", "cholesky", 0, 0), ("countvec", "plain", 0, 0), ("countvec", "maxfeat", 0, 0), ("countvec", "bigram", 0, 0),
    ("countvec", "df", 0, 0), ("tfidf", "plain", 0, 0), ("tfidf", "maxfeat", 0, 0), ("pearson", "", 0, 0),
    ("label_freq", "", 0, 0)]
# estimators that are slow or fail on very small inputs are not drawn for tiny random lattice data
SLOW = {"svr", "svc", "svm_multi", "glm", "ica", "diffmap"}


HISTS = ["fresh", "reset", "clone", "refinal"]
BUILDERS = [("b_countvec", 0), ("b_tfidf", 0), ("b_kmeans", 1), ("b_gmm", 1), ("b_svc", 0), ("b_svr", 0), ("b_tree", 0),
            ("b_elasticnet", 0), ("b_logistic", 0), ("b_mlogistic", 0), ("b_glm", 0), ("b_pls", 0), ("b_ftrl", 1), ("b_gnb", 0),
            ("b_dbscan", 0), ("b_ica", 1), ("b_randproj", 1), ("b_pca", 0), ("b_hier", 0), ("b_scaler", 0), ("b_whiten", 0)]


def mk(kind, est, var, data, seed, k, plan, nproc, hook, hists=("fresh",)):
    return {"kind": kind, "inp": {"est": est, "var": var, "data": data, "seed": seed, "k": k, "minpts": 2, "tol4": 15000,
                                  "depth": 5, "iters": 6, "runs": 2, "plan": plan, "nproc": nproc, "hook": hook,
                                  "hists": list(hists)}}


def rseed(r):
    """random seed: the special values 0, 1, -1 (= u64::MAX / usize::MAX) with probability 1/4"""
    return r.choice([0, 1, -1]) if r.random() < 0.25 else r.randint(2, 2 ** 31 - 2)


def random_cases(ctx, count):
    """seeded random cases of the same schema: larger lattice data, other generated data, 3 processes"""
    r = ctx.rng
    out = []
    for _ in range(count):
        if r.random() < 0.15:
            # builder-history case: a random non-empty subset of the non-fresh histories next to the fresh builder
            est, seeded = r.choice(BUILDERS)
            hs = ["fresh"] + [h for h in HISTS[1:] if r.random() < 0.6] or ["fresh", "reset"]
            if len(hs) == 1:
                hs.append(r.choice(HISTS[1:]))
            data = {"g": "blobs", "x": [], "y": [], "w": [], "n": r.choice([30, 64, 100, 257]), "d": r.randint(1, 4), "c": r.randint(2, 5),
                    "seed": r.randint(1, 10 ** 6)}
            out.append(mk("builder", est, "", data, rseed(r) if seeded else 7, 3, r.choice([[[1, 1], [3, 1]], [[2, 2]]]),
                          2, False, hs))
            continue
        est, var, par, seeded = r.choice(CATALOGUE)
        seed = rseed(r) if seeded else 7
        if r.random() < 0.5 and est not in SLOW:
            n = r.randint(4, 9)
            x = [[r.randint(0, 3), r.randint(0, 2)] for _ in range(n)]
            y = [r.randint(0, 3) for _ in range(n)]
            ls = sorted(set(y))
            y = [ls.index(v) for v in y]
            # a third of the lattice cases carry f32 sample weights 0..3 ulps above 1.0 / 0.1 / 0.3 (used by the
            # trees, label frequencies and isotonic regression; ignored by the others)
            w = [[r.choice([1, 2, 3]), r.randint(0, 3)] for _ in range(n)] if r.random() < 0.33 else []
            data = {"g": "lat", "x": x, "y": y, "w": w, "n": n, "d": 2, "c": 0, "seed": 0}
            k = r.randint(2, min(4, n))
            kind = "tie"
        else:
            n = r.choice([30, 64, 100, 257, 400]) if not par else r.choice([64, 257, 1000, 2500])
            data = {"g": "blobs", "x": [], "y": [], "w": [], "n": n, "d": r.randint(1, 5), "c": r.randint(2, 6), "seed": r.randint(1, 10 ** 6)}
            k = r.randint(2, 5)
            kind = "blob"
        plan = PLAN_FULL if par else r.choice([PLAN_SEQ, [[1, 1], [2, 1], [0, 1]], [[3, 2]]])
        out.append(mk(kind, est, var, data, seed, k, plan, r.choice([2, 3]), False))
    return out


def nontrivial(trace):
    """tie: two rows with equal features and different labels, or two classes with equal counts;
    hook: some instrumented parallel loop was executed by >= 2 distinct threads (the loop really was split);
    big: >= 1000 rows under the full thread plan; blob: every (estimator variant, data, seed)."""
    inp = trace["inp"]
    kind = trace["kind"]
    if kind == "tie":
        rows = list(zip(map(tuple, inp["data"]["x"]), inp["data"]["y"]))
        dup = any(a[0] == b[0] and a[1] != b[1] for i, a in enumerate(rows) for b in rows[i + 1:])
        cnt = {}
        for _, l in rows:
            cnt[l] = cnt.get(l, 0) + 1
        tie = len(cnt) >= 2 and sorted(cnt.values())[-1] == sorted(cnt.values())[-2]
        return dup or tie
    if kind == "ulp":   # at least two class weights that differ by 1..3 ulps
        offs = sorted({w[1] for w in inp["data"]["w"][:-2]})
        return len(offs) >= 2
    if kind == "hook":
        for ev in trace["ev"]:
            tids = set()
            for h in ev.get("par", []):
                if h[0] == 1:
                    tids = set()
                elif h[0] == 2:
                    tids.add(h[2])
                    if len(tids) >= 2:
                        return True
        return False
    if kind == "hookbig":   # coarse hook events: non-trivial when the reductions of a >= 8192-row fit were observed
        return inp["data"]["n"] >= 8192 and any(h[0] in (7, 10) for ev in trace["ev"] for h in ev.get("par", []))
    if kind == "big":
        return inp["data"]["n"] >= 1000
    return True


def val_hook_in_source():
    """hook v2 (docs/reports/C20-hook2.diff): the value of every inertia reduction is reported"""
    p = os.path.join(vlib.REPO, "algorithms/linfa-clustering/src/k_means/algorithm.rs")
    try:
        with open(p) as f:
            return "verif::value(" in f.read()
    except OSError:
        return False


def hook_in_source():
    p = os.path.join(vlib.REPO, "algorithms/linfa-clustering/src/k_means/algorithm.rs")
    try:
        with open(p) as f:
            return "kmeans.par" in f.read()
    except OSError:
        return False


def expect_refuted(ctx, init, nxt, consts, inv, tag):
    """the feared design variants must be refuted by TLC (otherwise the invariants are vacuous)"""
    cfg = {"init": init, "next": nxt, "constants": consts, "invariants": [inv]}
    rc, lines = vlib.tlc(ctx, "Determinism", cfg, workers=4, timeout=600, tag=tag, extra=["-nowarning"])
    text = "\n".join(lines)
    if rc == 0 or ("Invariant %s is violated" % inv) not in text:
        raise vlib.ToolError("design model: variant %s was NOT refuted (invariant %s vacuous?)" % (tag, inv))
    gen, dist = vlib.parse_states(lines)
    ctx.states += dist
    ctx.transitions += gen
    ctx.mc_runs.append({"module": "Determinism", "variant": tag, "expected": "invariant %s violated" % inv, "refuted": True,
                        "distinct_states": dist})
    vlib.log("MC Determinism %s: refuted as expected (%s)" % (tag, inv))


def design_checks(ctx):
    sched = dict(DUMMY)
    sched.update(MC_SCHED[ctx.tier])
    vlib.tlc_mc(ctx, "Determinism", {"init": "SchedInit", "next": "SchedNext", "constants": sched, "invariants": SCHED_INVS},
                coverage_actions=SCHED_ACTIONS, workers=4)
    hsh = dict(DUMMY)
    hsh.update(MC_HASH[ctx.tier])
    vlib.tlc_mc(ctx, "Determinism", {"init": "HashInit", "next": "HashNext", "constants": hsh, "invariants": HASH_INVS},
                coverage_actions=HASH_ACTIONS, workers=4)
    bad = dict(sched)
    bad["Mode"] = '"par_reduce"'
    expect_refuted(ctx, "SchedInit", "SchedNext", bad, "InvReduce", "sched_par_reduce")
    badh = dict(hsh)
    badh["Policy"] = '"hash"'
    expect_refuted(ctx, "HashInit", "HashNext", badh, "InvModal", "hash_modal")
    expect_refuted(ctx, "HashInit", "HashNext", badh, "InvSum", "hash_sum")


def attach_diag(ctx):
    """long diagnostics (`DIAG <id> ...` lines printed by Trace_Determinism) go into the replay files"""
    diag = {}
    for p in glob.glob(os.path.join(ctx.work, "Trace_Determinism*.out")):
        with open(p, errors="replace") as f:
            for l in f:
                m = re.match(r'^"DIAG (\d+) (.*)"$', l.strip())
                if m:
                    diag.setdefault(int(m.group(1)), m.group(2))
    for i, (cid, path, d) in enumerate(ctx.violations):
        if cid in diag:
            d = list(d) + [diag[cid]]
            ctx.violations[i] = (cid, path, d)
            if os.path.exists(path):
                with open(path) as f:
                    rep = json.load(f)
                rep["diagnostics"] = d
                with open(path, "w") as f:
                    json.dump(rep, f, indent=1)


def trace_constants(req_hook=True):
    c = dict(DUMMY)
    c["RequireHook"] = "TRUE"
    c["RequireVal"] = "TRUE"
    return c


def execute(ctx, binp, cases):
    env = {"C20_CHUNKS": "6" if ctx.quick else "12", "C20_PAR": "3", "C20_CHILD_TIMEOUT": "600" if ctx.quick else "1500"}
    return vlib.run_harness(ctx, binp, cases, env=env, timeout=1700)


def run(ctx):
    binp = vlib.cargo_build("c20")
    design_checks(ctx)
    cases = vlib.tlc_gen(ctx, "Gen_Determinism", {"constants": GEN[ctx.tier], "invariants": ["Emit"]}, workers=4)
    ctx.exhaustive = True
    if not ctx.quick:
        cases += random_cases(ctx, 6000)
    if not (hook_in_source() and val_hook_in_source()):
        raise vlib.ToolError("%s does not contain the kmeans.par / kmeans.red hooks (/repo ed41277, 98ba641): the schedule model "
                             "cannot be bound to this tree" % vlib.REPO)
    vlib.number(cases)
    ctx.cases = len(cases)
    traces = execute(ctx, binp, cases)
    req_hook = True
    nhook = sum(len(ev.get("par", [])) for t in traces for ev in t["ev"])
    nvals = sum(1 for t in traces for ev in t["ev"] for h in ev.get("par", []) if h[0] == 10)
    if nhook == 0 or nvals == 0:
        raise vlib.ToolError("no hook / value event was recorded although the tree contains the hooks (not compiled in?)")
    ctx.nontrivial = len({json.dumps([t["kind"], t["inp"]], sort_keys=True) for t in traces if nontrivial(t)})
    small = sorted((t for t in traces if t["kind"] == "tie" and nontrivial(t) and len(t["ev"][0]["obs"]) >= 6),
                   key=lambda t: len(json.dumps(t)))[:1]
    hooked = sorted((t for t in traces if t["kind"] == "hook"), key=lambda t: len(json.dumps(t)))[:1]
    vlib.sample(ctx, small + hooked)
    vlib.validate_with_findings(ctx, "Trace_Determinism", traces, constants=trace_constants(req_hook), chunk=1500)
    attach_diag(ctx)
    nruns = sum(len(t["ev"]) for t in traces)
    split = sum(1 for t in traces if t["kind"] == "hook" and nontrivial(t))
    ctx.extra.update({"value_events": nvals, "value_hook_bound": nvals > 0})
    ctx.extra.update({"runs_executed": nruns, "hook_events": nhook, "hook_bound": bool(req_hook and nhook > 0),
                      "hook_cases_with_loop_split_over_threads": split,
                      "families": {k: sum(1 for t in traces if t["kind"] == k) for k in ("tie", "frac", "ulp", "blob", "builder", "hook", "hookbig", "big")}})
    ctx.rule = ("cases = configurations (estimator variant x data x seed) enumerated by TLC (Gen_Determinism: all labelled lattice "
                "data sets up to the tier's size x tie-sensitive estimators; the whole catalogue x generated data; k-means family with "
                "hook on small data (row by row) and on >= 9000 rows (loops coarse, reductions + their values) / on large data up to 20000-40000 rows) [+ seeded random configurations in the thorough tier], each run under its plan of environments "
                "(pool sizes 1,2,3,8,16 + global pool for rayon users, repetitions, 2-3 fresh processes). Non-trivial: tie family = "
                "duplicate rows with different labels or tied class counts; hook family = some parallel loop observed on >= 2 threads; "
                "hookbig family = reductions of a >= 8192-row fit observed; big family = >= 1000 rows; frac and blob families = every configuration; distinct by (family, input)")
    ctx.trusted = ["TLC + CommunityModules Json", "harness digests (FNV-1a over exact bit patterns; canonical serde JSON of whole models)",
                   "harness data generator (integer LCG) -- its output is digested into every run, the premise 'same data' is checked by TLC",
                   "linfa::verif_hook event buffer (arrival order under a mutex)"]
    ctx.assumptions = ["equality of digests = equality of bit patterns up to a 2^-60 hash collision",
                       "schedules and hash seeds are sampled by repetition (pool sizes, processes), not enumerated; the exhaustive part is the "
                       "abstract schedule / hash-order model",
                       "text vocabularies are compared as word -> column-content maps (as the statement says)",
                       "an estimator panic is an outcome that has to be identical in every environment (not a C20 violation by itself)"]
    return vlib.finish(ctx)


def replay(ctx, case):
    binp = vlib.cargo_build("c20")
    traces = vlib.run_harness(ctx, binp, [case], env={"C20_CHUNKS": "1"})
    ctx.cases = 1
    vlib.validate_with_findings(ctx, "Trace_Determinism", traces, constants=trace_constants())
    attach_diag(ctx)
    return vlib.finish(ctx)
