"""C04 -- invalid hyper-parameters are rejected with an error before any training (DESIGN.md 8/C04).

specs/ParamsDoc.tla : documented ranges of every builder (transcribed documentation)
specs/Params.tla    : builder state machine (setters = last write wins, check_ref / check / blanket impls)
specs/Gen_Params.tla: TLC enumerates programs over the boundary grid of every parameter
specs/Trace_Params.tla: TLC validates what the real builders did
"""
import os, subprocess, sys
import vlib

ALGS = ["kmeans", "kmeans32", "dbscan", "dbscan32", "optics", "gmm", "enet", "mtenet", "logistic", "mlogistic", "tweedie", "svc", "svr", "tree", "tree32",
        "gnb", "mnb", "ftrl", "plsreg", "plscan", "plscca", "tsne", "ica", "diffmap", "rpgauss", "rpsparse", "platt",
        "hier", "countvec"]
ALGSET = vlib.tla_set(ALGS)
# design model: every builder, every history of up to MaxCalls setter calls over the boundary grid
HEAVY = ["svc", "svr", "countvec"]      # setters with 2-3 arguments: their two-call histories dominate the state space
MODEL = {"quick": [dict(AlgSet=ALGSET, MaxCalls=1)],
         "thorough": [dict(AlgSet=vlib.tla_set([a for a in ALGS if a not in HEAVY]), MaxCalls=2),
                      dict(AlgSet=vlib.tla_set(HEAVY), MaxCalls=1)]}
# cases: Level 2 = all single and pairwise deviations (+ same setter twice, both orders of overlapping setters),
#        Level 3 = + triples; MaxFull = full grid for builders whose grid has at most that many points
GEN = {"quick": dict(AlgSet=ALGSET, MaxCalls=0, Level=2, MaxFull=0),
       "thorough": dict(AlgSet=ALGSET, MaxCalls=0, Level=3, MaxFull=30000)}
INVS = ["InvReplay", "InvVerdict", "InvUse", "InvDefault", "InvTable"]
ACTIONS = ["New", "SetP", "CheckRef", "Use", "Check"]
TRACE_CONST = dict(AlgSet="{}", MaxCalls=0)


def nontrivial(case):
    """a case is non-trivial when at least one argument is not the plain typical value, i.e. the program
    has >= 2 calls or touches a boundary; measured simply as: program with >= 2 setter calls"""
    return len(case["inp"]["prog"]) >= 2


def random_programs(ctx, cases, count):
    """thorough tier: seeded random programs of the same schema -- 2..6 calls in *any* order (the constructor
    first), every call taken from the calls TLC generated for that builder (so no second copy of the table)."""
    calls, ctor = {}, {}
    for c in cases:
        for k, call in enumerate(c["inp"]["prog"]):
            key = vlib.json.dumps(call, sort_keys=True)
            if call["n"] == "new" and k == 0:
                ctor.setdefault(c["kind"], {})[key] = call
            else:
                calls.setdefault(c["kind"], {})[key] = call
    out, r = [], ctx.rng
    kinds = sorted(calls)
    for _ in range(count):
        a = r.choice(kinds)
        pool = [calls[a][k] for k in sorted(calls[a])]
        prog = [r.choice([ctor[a][k] for k in sorted(ctor[a])])] if a in ctor else []
        prog += [r.choice(pool) for _ in range(r.randint(2, 6))]
        out.append({"kind": a, "inp": {"alg": a, "prog": prog}})
    return out


def build_files_helper(ctx):
    """compile harness/src/c04_files.rs with rustc against the rlibs cargo built for the tree under test
    (the shared harness package has no direct dependency on `encoding`, which `fit_files` needs)"""
    hd = vlib.harness_dir()
    env = dict(os.environ)
    env["CARGO_NET_OFFLINE"] = "true"
    pr = subprocess.run(["cargo", "build", "--release", "--offline", "--bin", "c04", "--message-format=json"],
                        cwd=hd, env=env, stdout=subprocess.PIPE, stderr=subprocess.DEVNULL, text=True)
    if pr.returncode != 0:
        raise vlib.ToolError("cargo (artifact list) failed")
    want = {"encoding": None, "linfa": None, "linfa_preprocessing": None, "vh": None}
    for line in pr.stdout.splitlines():
        try:
            d = vlib.json.loads(line)
        except Exception:
            continue
        if d.get("reason") == "compiler-artifact" and "lib" in d["target"]["kind"]:
            nm = d["target"]["name"].replace("-", "_")
            if nm in want:
                rl = [f for f in d["filenames"] if f.endswith(".rlib")]
                if rl:
                    want[nm] = rl[0]
    if not all(want.values()):
        raise vlib.ToolError("rlib not found for %s" % [k for k, v in want.items() if not v])
    deps = os.path.dirname(want["vh"])
    outp = os.path.join(ctx.work, "c04_files")
    cmd = ["rustc", "--edition", "2021", "-C", "opt-level=1", "--cap-lints", "allow", "-L", "dependency=" + deps]
    for k, v in sorted(want.items()):
        cmd += ["--extern", "%s=%s" % (k, v)]
    cmd += [os.path.join(hd, "src", "c04_files.rs"), "-o", outp]
    pr = subprocess.run(cmd, stdout=subprocess.PIPE, stderr=subprocess.STDOUT, text=True)
    if pr.returncode != 0:
        sys.stderr.write(pr.stdout[-3000:])
        raise vlib.ToolError("rustc c04_files failed")
    return outp


def add_file_forms(ctx, helper, cases, traces, tag="files"):
    """run the fit_files helper on the count-vectoriser cases and splice its call events into their traces"""
    cv = [c for c in cases if c["kind"] == "countvec"]
    if not cv:
        return
    inp = os.path.join(ctx.work, tag + ".ndjson")
    outp = os.path.join(ctx.work, tag + ".out.ndjson")
    vlib.write_ndjson(inp, cv)
    pr = subprocess.run(["timeout", "600", helper, inp, outp, os.path.join(ctx.work, tag + "-docs")],
                        stdout=subprocess.PIPE, stderr=subprocess.PIPE, text=True)
    if pr.returncode != 0:
        sys.stderr.write(pr.stderr[-2000:])
        raise vlib.ToolError("c04_files rc=%d" % pr.returncode)
    extra = {o["id"]: o["ev"] for o in vlib.read_ndjson(outp)}
    if len(extra) != len(cv):
        raise vlib.ToolError("c04_files returned %d results for %d cases" % (len(extra), len(cv)))
    for t in traces:
        if t["kind"] == "countvec" and t["ev"] and t["ev"][-1].get("ev") == "done":
            t["ev"] = t["ev"][:-1] + extra[t["id"]] + t["ev"][-1:]


def run(ctx):
    binp = vlib.cargo_build("c04")
    helper = build_files_helper(ctx)
    for consts in MODEL[ctx.tier]:
        # the three HEAVY builders have no constructor argument, so `New` cannot occur in their run
        acts = [a for a in ACTIONS if a != "New"] if consts["AlgSet"] == vlib.tla_set(HEAVY) else ACTIONS
        vlib.tlc_mc(ctx, "Params", {"constants": consts, "invariants": INVS}, coverage_actions=acts)
    cases = vlib.tlc_gen(ctx, "Gen_Params", {"init": "GenInit", "next": "GenNext", "constants": GEN[ctx.tier],
                                            "invariants": ["Emit"]}, xmx="8g")
    ctx.exhaustive = True
    if not ctx.quick:
        cases += random_programs(ctx, cases, 4000)
    vlib.number(cases)
    ctx.cases = len(cases)
    ctx.nontrivial = len({vlib.json.dumps(c["inp"], sort_keys=True) for c in cases if nontrivial(c)})
    traces = vlib.run_harness(ctx, binp, cases)
    add_file_forms(ctx, helper, cases, traces)
    pick = [t for t in traces if t["kind"] == "svr" and len(t["inp"]["prog"]) == 2][:1] + \
           [t for t in traces if t["kind"] == "countvec" and len(t["inp"]["prog"]) == 1][:1]
    vlib.sample(ctx, pick)
    vlib.validate_with_findings(ctx, "Trace_Params", traces, constants=TRACE_CONST, chunk=5000)
    ctx.extra["cases_per_builder"] = {a: sum(1 for c in cases if c["kind"] == a) for a in ALGS}
    ctx.rule = ("cases = programs (constructor + setter calls) enumerated by TLC (Gen_Params) over the boundary grid of every "
                "documented bound of every parameter of 26 builders (+ 3 of them also instantiated with f32): all single and pairwise deviations from the default "
                "builder, both orders of setters that write a common field, the same setter twice [thorough: + triples, "
                "+ the full grid of every builder with <= 30000 grid points, + 4000 seeded random programs of 2..6 calls in any order]; non-trivial = program with >= 2 calls; "
                "distinct by program")
    ctx.trusted = ["TLC + CommunityModules Json", "transcription of the documented ranges (specs/ParamsDoc.tla)",
                   "harness encoders (micro-unit values, Debug/serde observation of builders, model digests)"]
    ctx.assumptions = ["real arguments are multiples of 1e-6 (boundary +- 1e-6, not the adjacent float)",
                       "documentation that contradicts itself or only says 'positive' leaves the boundary point unspecified",
                       "defaults are valid by definition (fields never written are not judged)",
                       "model equality is equality of FNV digests of the fitted quantities (collision ~2^-60)"]
    return vlib.finish(ctx)


def replay(ctx, case):
    binp = vlib.cargo_build("c04")
    helper = build_files_helper(ctx)
    case = {k: v for k, v in case.items() if k != "ev"}
    traces = vlib.run_harness(ctx, binp, [case])
    add_file_forms(ctx, helper, [case], traces)
    ctx.cases = 1
    vlib.validate_with_findings(ctx, "Trace_Params", traces, constants=TRACE_CONST)
    return vlib.finish(ctx)
