"""X08 -- more UNBOUNDED results for the design models (Apalache inductive invariants; continues X06).

Targets (each = an Apalache-typed module specs/<Name>Ind.tla with an inductive invariant IndInv, shown by TLC to be
the SAME machine as the TLC design model it abstracts):
  density  DensityInd.tla   the DBSCAN seed-loop / search-queue machine of Density.tla + the history variables of
                            X09Density.tla, over an abstract neighbourhood relation (any reflexive symmetric relation
                            on N points, any core set)
  dtree    DTreeIterInd.tla the level-order NodeIter queue machine of DTreeIntro.tla, over heap-numbered trees (any
                            prefix-closed set of heap numbers <= M, full or not)
  emidx    EmIdx.tla        pointwise version of EmInd (one probe history cell, all variables unbounded integers): ALL nruns, maxit
  lloydidx LloydIdx.tla     pointwise version of LloydInd: ALL nruns, maxit
  em       EmInd.tla        the EM outer loop / restart bookkeeping of X10Em.tla (any integer lower bounds / tolerance)
  lloyd    LloydInd.tla     the restart bookkeeping of X10Lloyd.tla (any stop decisions, any integer run inertias)

Obligations per target and instance size (every one is a separate `apalache-mc check` run under a timeout):
  <t>_init    Init => IndInv                 --init=Init   --inv=IndInv --length=0
  <t>_step    IndInv /\\ Next => IndInv'      --init=IndInv --inv=IndInv --length=1   (every symbolic transition must be
                                                                                       enabled from IndInv: vacuity guard)
  <t>_safety  IndInv => Safety               --init=IndInv --inv=Safety --length=0
TLAPS (tlapm, every run cold on a private copy): DensityIndProofs (arbitrary N), DTreeIterIndProofs (arbitrary M),
EmIdxProofs, LloydIdxProofs: Init => IndInv, IndInv /\\ [Next]_vars => IndInv', IndInv => Safety, Spec => []Safety.
TLC cross-checks (XC_*.tla): refinement of the Ind module by the original design model (PROPERTY Ind!Spec under the
abstraction mapping), equality of the reachable state sets, agreement of the recursion-free final relation with the
original one; the refinement property is shown to have teeth (a deliberately mismatched variant must fail it).
Sensitivity: every seeded design bug (constant Variant of the Ind modules) must (a) make the consecution obligation
fail (Apalache counterexample) and (b) violate Safety in a REACHABLE state (TLC), otherwise the run is a tool error.
`X08_VARIANT=<name> bin/check X08` (or a file `.x08-variant` in the tree given by --repo: mutants/X08/*.diff) runs the
MAIN obligations on the broken model and must end in VIOLATION.

There is no Rust harness: the binding of the design models to the code is C08 / X09 (Density), X11 (DTreeIntro),
X10 (X10Em / X10Lloyd).
"""
import os, re, json, shutil, subprocess, time
from concurrent.futures import ThreadPoolExecutor
import vlib


# ---------------------------------------------------------------------------------------------- tools
def variant_of(ctx):
    v = os.environ.get("X08_VARIANT", "").strip()
    marker = os.path.join(vlib.REPO, ".x08-variant")
    if not v and os.path.exists(marker):
        with open(marker) as f:
            v = f.read().strip()
    return v or "ok"


def q(s):
    return '"%s"' % s


def run_apalache(ctx, ob, timeout):
    """ob: dict(name, module, consts, init, inv, length). Adds status in {"discharged", "counterexample", "timeout",
    "error"}, secs, and for length-1 runs enabled/transitions (vacuity data). Same conventions as props/x06.py."""
    tag = ob["name"]
    cfgp = os.path.join(ctx.work, tag + ".cfg")
    with open(cfgp, "w") as f:
        for k, v in ob["consts"].items():
            f.write("CONSTANT %s = %s\n" % (k, v))
        f.write("INIT Init\nNEXT Next\n")
    outdir = os.path.join(ctx.work, "apa_" + tag)
    shutil.rmtree(outdir, ignore_errors=True)
    cmd = ["timeout", str(int(timeout) + 20), "apalache-mc", "check", "--config=" + cfgp, "--init=" + ob["init"],
           "--inv=" + ob["inv"], "--length=%d" % ob["length"], "--no-deadlock", "--out-dir=" + outdir,
           os.path.join(vlib.SPECS, ob["module"] + ".tla")]
    env = dict(os.environ)
    env.setdefault("JVM_ARGS", "-Xmx4g")
    env["TMPDIR"] = os.path.join(ctx.work, "tmp_" + tag)      # one SANY temp dir per run (concurrent runs)
    os.makedirs(env["TMPDIR"], exist_ok=True)
    t = time.time()
    ob["cmd"] = " ".join(cmd[2:])
    try:
        p = subprocess.run(cmd, cwd=ctx.work, env=env, stdout=subprocess.PIPE, stderr=subprocess.STDOUT, text=True,
                           timeout=timeout)
        out = p.stdout
    except subprocess.TimeoutExpired:
        subprocess.run(["pkill", "-f", "--", "--out-dir=" + outdir], stderr=subprocess.DEVNULL)
        ob.update(status="timeout", secs=round(time.time() - t, 1))
        shutil.rmtree(env["TMPDIR"], ignore_errors=True)
        vlib.log("apalache %-34s %-14s %6.1fs" % (tag, ob["status"], ob["secs"]))
        return ob
    ob["secs"] = round(time.time() - t, 1)
    with open(os.path.join(ctx.work, tag + ".apa.out"), "w") as f:
        f.write(out)
    if "EXITCODE: OK" in out and "The outcome is: NoError" in out:
        ob["status"] = "discharged"
    elif "EXITCODE: ERROR (12)" in out:
        ob["status"] = "counterexample"
        m = re.search(r"Check the trace in: (\S+?violation1\.tla)", out)
        ob["cex"] = m.group(1) if m else outdir
        m = re.search(r"State (\d+): state invariant (\d+) violated", out)
        ob["violated"] = "state %s, conjunct %s of %s" % (m.group(1), m.group(2), ob["inv"]) if m else ob["inv"]
    else:
        ob["status"] = "error"
        ob["tail"] = "\n".join(out.splitlines()[-15:])
    if ob["length"] == 1:
        logs = [os.path.join(dp, "detailed.log") for dp, _, fs in os.walk(outdir) if "detailed.log" in fs]
        if logs:
            with open(logs[0], errors="replace") as f:
                txt = f.read()
            m = re.search(r"Found (\d+) transitions", txt)
            ob["transitions"] = int(m.group(1)) if m else 0
            ob["enabled"] = len(set(re.findall(r"Step 1: Transition #(\d+) is enabled", txt)))
    if ob["status"] == "discharged":
        shutil.rmtree(outdir, ignore_errors=True)
    shutil.rmtree(env["TMPDIR"], ignore_errors=True)
    vlib.log("apalache %-34s %-14s %6.1fs" % (tag, ob["status"], ob["secs"]))
    return ob



def run_tlapm(ctx, module, deps, timeout=900, variant="ok"):
    """Run tlapm on a private copy (fingerprint cache stays in the work directory, always cold).  variant != "ok": the
    copy's assumption `Variant = "ok"` is replaced, i.e. the same proof script is run against the model with the seeded
    design bug; it must then fail.  Same conventions as props/x06.py."""
    d = os.path.join(ctx.work, "tlaps_%s_%s" % (module, variant))
    shutil.rmtree(d, ignore_errors=True)
    os.makedirs(d)
    for m in deps:
        shutil.copy(os.path.join(vlib.SPECS, m + ".tla"), d)
    if variant != "ok":
        pm = os.path.join(d, module + ".tla")
        with open(pm) as f:
            txt = f.read()
        if 'Variant = "ok"' not in txt:
            raise vlib.ToolError("proof module %s has no assumption Variant = \"ok\"" % module)
        with open(pm, "w") as f:
            f.write(txt.replace('Variant = "ok"', 'Variant = "%s"' % variant))
    t = time.time()
    res = dict(name="tlaps_%s_%s" % (module, variant), module=module, tool="tlapm", variant=variant, length=0,
               cmd="tlapm --cleanfp --stretch 3 specs/%s.tla" % module)
    # back-end time limits (z3 5 s, Zenon 10 s, Isabelle 30 s, times --stretch) can expire on a loaded machine although
    # the obligation is provable: the unproved ones are retried with longer limits (fingerprints keep the proved ones).
    attempts = [["tlapm", "--cleanfp", "--stretch", "3", module + ".tla"], ["tlapm", "--stretch", "12", module + ".tla"],
                ["tlapm", "--stretch", "40", module + ".tla"]]
    if variant != "ok":
        attempts = [["tlapm", "--cleanfp", module + ".tla"]]
    out, ai = "", 0
    for ai, cmd in enumerate(attempts):
        try:
            p = subprocess.run(["timeout", str(timeout + 20)] + cmd, cwd=d, stdout=subprocess.PIPE, stderr=subprocess.STDOUT, text=True, timeout=timeout)
            out = p.stdout
        except subprocess.TimeoutExpired:
            res.update(status="timeout", secs=round(time.time() - t, 1), total=0, proved=0)
            return res
        with open(os.path.join(ctx.work, "tlaps_%s_%s.%d.out" % (module, variant, ai + 1)), "w") as f:
            f.write(out)
        if re.search(r"All (\d+) obligations? proved", out):
            break
        if ai + 1 < len(attempts):
            vlib.log("tlapm %s: attempt %d left obligations unproved (back-end time limits?), retrying with longer limits" % (module, ai + 1))
    res["attempts"] = ai + 1
    res["secs"] = round(time.time() - t, 1)
    m = re.search(r"All (\d+) obligations? proved", out)
    if m:
        res.update(status="discharged", total=int(m.group(1)), proved=int(m.group(1)))
    else:
        m = re.search(r"(\d+)/(\d+) obligations failed", out)
        if m:
            # "unproved": the provers found no proof.  This is not a counterexample (tlapm cannot refute).
            res.update(status="unproved", total=int(m.group(2)), proved=int(m.group(2)) - int(m.group(1)),
                       violated="%s of %s proof obligations not proved" % (m.group(1), m.group(2)))
        else:
            res.update(status="error", total=0, proved=0, tail="\n".join(out.splitlines()[-15:]))
    with open(os.path.join(vlib.SPECS, module + ".tla")) as f:
        res["theorems"] = re.findall(r"^(?:THEOREM|LEMMA)\s+(\w+)\s*==", f.read(), re.M)
    shutil.rmtree(os.path.join(d, ".tlacache"), ignore_errors=True)
    vlib.log("tlapm    %-34s %-14s %6.1fs (%d/%d obligations)" % (module + "/" + variant, res["status"], res["secs"], res["proved"], res["total"]))
    return res


# proof modules: (module, files to copy, target whose variants it knows, scope)
PROOF_MODULES = [
    ("DensityIndProofs", ["DensityIndProofs", "DensityInd"], "density", "ARBITRARY N \\in Nat: every relation, core set, queue order"),
    ("DTreeIterIndProofs", ["DTreeIterIndProofs", "DTreeIterInd"], "dtree", "ARBITRARY M \\in Nat: every finite binary tree"),
    ("EmIdxProofs", ["EmIdxProofs", "EmIdx"], "emidx", "all integers (nruns, maxit, tol, lower bounds, probe)"),
    ("LloydIdxProofs", ["LloydIdxProofs", "LloydIdx"], "lloydidx", "all integers (nruns, maxit, inertias, probe)"),
]


def std_obs(prefix, module, variant, consts, tag, scope, only=None, extra=()):
    """The three standard obligations of an Ind module for one instance."""
    c = dict(consts)
    c["Variant"] = q(variant)
    obs = [dict(kind="init", init="Init", inv="IndInv", length=0),
           dict(kind="step", init="IndInv", inv="IndInv", length=1),
           dict(kind="safety", init="IndInv", inv="Safety", length=0)] + list(extra)
    return [dict(o, name="%s_%s_%s_%s" % (prefix, o["kind"], tag, variant), module=module, consts=c, scope=scope,
                 target=prefix, tool="apalache")
            for o in obs if only is None or o["kind"] in only]


def st_lines(lines):
    return {vlib._unquote(l)[3:] for l in lines if l.startswith('"ST ')}


class CrossMismatch(Exception):
    pass


def tlc_ok(ctx, module, cfg, tag, workers=2, what=""):
    rc, lines = vlib.tlc(ctx, module, cfg, workers=workers, tag=tag)
    if rc != 0:
        err = "; ".join(l for l in lines if l.startswith("Error") or "is violated" in l)[:400]
        if rc in (12, 13):
            raise CrossMismatch("%s (%s): TLC rc=%d: %s" % (tag, what or module, rc, err))
        raise vlib.ToolError("cross-check %s: TLC rc=%d: %s" % (tag, rc, err))
    g, d = vlib.parse_states(lines)
    ctx.states += d
    ctx.transitions += g
    return lines, d


def tlc_must_fail(ctx, module, cfg, tag, pattern, what, workers=2):
    rc, lines = vlib.tlc(ctx, module, cfg, workers=workers, tag=tag)
    hit = [l for l in lines if re.search(pattern, l)]
    if rc not in (12, 13) or not hit:
        raise vlib.ToolError("%s: expected TLC to reject (%s), got rc=%d %s" % (tag, what, rc, "; ".join(l for l in lines if l.startswith("Error"))[:300]))
    return hit[0]


# ---------------------------------------------------------------------------------------------- target: density
DENSITY_VARIANTS = ["noncore_extends", "seed_needs_free_neighbour", "steal_border", "no_increment"]
# variants that Density.tla / X09Density.tla know as well (same names): the refinement must hold for them too
DENSITY_SHARED = ["noncore_extends", "seed_needs_free_neighbour"]


# N = 6 (2^15 relations x 2^6 core sets in ONE consecution run) was discharged once by hand (1 749 s at load 60); its
# IndInv => Safety run was not decided within 27 min.  `X08_DENSITY_N6=1 bin/check X08 --tier thorough` adds the N = 6
# initiation and consecution runs to the thorough tier (the TLAPS module covers every N anyway).
def density_obs(variant, N, only=None):
    if N >= 6 and only is None:
        only = ["init", "step"]
    return std_obs("density", "DensityInd", variant, {"N": str(N)}, "N%d" % N,
                   "every reflexive symmetric relation and every core set on N = %d points, every queue order, any number of steps" % N,
                   only)


def density_ref_consts(c, variant="ok", indvariant=None):
    return dict(Variant=q(variant), IndVariant=q(indvariant or variant), Lattices=c["Lattices"], MinPts=str(c["N"]), MaxPts=str(c["N"]),
                MinPtsSet=c["MinPtsSet"], EpsSet=c["EpsSet"])


def density_cross(ctx, t):
    res = dict(refinement=[], state_sets=[])
    ref_states = {}
    for i, c in enumerate(t["density_ref"]):
        cfg = {"spec": "DbSpec", "constants": density_ref_consts(c), "view": "ProjView",
               "invariants": (["Emit"] if c.get("emit") else []) + ["IndInvHolds", "DoneAgrees"], "properties": ["RefinesInd"]}
        lines, d = tlc_ok(ctx, "XC_DensityRef", cfg, "XC_DensityRef_%d" % i, what="X09Density.tla (dbscan) refines DensityInd.tla")
        res["refinement"].append(dict(constants=c, distinct_states=d, refines=True, IndInv_and_Safety_hold=True, DoneOk_equals_DbscanOk=True))
        if c.get("emit"):
            ref_states.setdefault(c["N"], set()).update(st_lines(lines))
    for N in t["density_ind_tlc"]:
        emit = N in ref_states
        cfg = {"init": "TInit", "constants": {"N": str(N), "Variant": q("ok")},
               "invariants": (["Emit"] if emit else []) + ["TInitIsInit", "IndInv", "Safety"]}
        lines, d = tlc_ok(ctx, "XC_DensityInd", cfg, "XC_DensityInd_N%d" % N, what="DensityInd.tla: IndInv, Safety on all relations")
        entry = dict(N=N, typed_states_all_relations=d)
        if emit:
            a, b = ref_states[N], st_lines(lines)
            key = lambda s: json.dumps([json.loads(s)["nb"], json.loads(s)["core"]])
            ka = {key(s) for s in a}
            bb = {s for s in b if key(s) in ka}
            entry.update(relations_in_lattice_domain=len(ka), original_states_projected=len(a), typed_states_same_relations=len(bb),
                         identical=(a == bb and len(a) > 0))
            if a != bb or not a:
                raise CrossMismatch("Density.tla/X09Density.tla (dbscan) and DensityInd.tla differ for N=%d: %d vs %d states on the %d relations of the lattice domain, e.g. %s"
                                    % (N, len(a), len(bb), len(ka), sorted(a ^ bb)[:2]))
        res["state_sets"].append(entry)
    # teeth: the refinement property rejects a mismatched pair; the shared variants are still the same machine
    c = t["density_teeth"]
    hit = tlc_must_fail(ctx, "XC_DensityRef", {"spec": "DbSpec", "constants": density_ref_consts(c, "noncore_extends", "ok"),
                                                "view": "ProjView", "properties": ["RefinesInd"]},
                        "XC_DensityRef_teeth", r"Action property .* is violated", "Density noncore_extends does not refine DensityInd ok")
    res["teeth"] = hit.strip()
    for v in t.get("density_shared", []):
        # (DoneAgrees here compares the two final relations where they are FALSE as well)
        tlc_ok(ctx, "XC_DensityRef", {"spec": "DbSpec", "constants": density_ref_consts(c, v), "view": "ProjView", "invariants": ["DoneAgrees"],
                                      "properties": ["RefinesInd"]},
               "XC_DensityRef_same_" + v, what="Density %s refines DensityInd %s" % (v, v))
        res.setdefault("shared_variants_refine", []).append(v)
    return res


def density_reach(ctx, variant, t):
    """the seeded bug is REACHABLE in the typed model: TLC finds a Safety violation from TInit"""
    hit = tlc_must_fail(ctx, "XC_DensityInd", {"init": "TInit", "constants": {"N": "3", "Variant": q(variant)}, "invariants": ["Safety"]},
                        "XC_DensityInd_reach_" + variant, r"Invariant Safety is violated", "Safety violated with Variant=%s" % variant)
    return "tlc N=3: " + hit.strip()



# ---------------------------------------------------------------------------------------------- target: dtree
DTREE_VARIANTS = ["right_first", "children_of_back", "push_without_check"]


def dtree_obs(variant, M, only=None):
    return std_obs("dtree", "DTreeIterInd", variant, {"M": str(M)}, "M%d" % M,
                   "every binary tree (full or not) with heap numbers <= M = %d, any number of steps" % M, only)


def dtree_ref_consts(c, indvariant="ok"):
    d = {k: str(v) for k, v in c.items() if k != "emit"}
    d["IndVariant"] = q(indvariant)
    return d


def dtree_cross(ctx, t):
    res = dict(refinement=[], state_sets=[])
    ref_states = {}
    for i, c in enumerate(t["dtree_ref"]):
        cfg = {"spec": "XSpec", "constants": dtree_ref_consts(c),
               "invariants": ["Emit", "IndHolds", "IdOrderIsLevelOrder", "CanonAgrees"], "properties": ["RefinesInd"]}
        lines, d = tlc_ok(ctx, "XC_DTreeIterRef", cfg, "XC_DTreeIterRef_%d" % i, what="DTreeIntro.tla refines DTreeIterInd.tla")
        res["refinement"].append(dict(constants=c, distinct_states=d, refines=True, IndInv_and_Safety_hold=True, heap_order_is_level_order=True))
        ref_states.setdefault(2 ** c["MaxN"] - 1, set()).update(st_lines(lines))
    for M in sorted(ref_states):
        cfg = {"init": "Init", "next": "TNext", "constants": {"M": str(M), "Variant": q("ok")}, "invariants": ["Emit", "IndInv", "Safety"]}
        lines, d = tlc_ok(ctx, "XC_DTreeIterInd", cfg, "XC_DTreeIterInd_M%d" % M, what="DTreeIterInd.tla: IndInv, Safety on all trees")
        a, b = ref_states[M], st_lines(lines)
        key = lambda s: json.dumps(json.loads(s)["tree"])
        ka = {key(s) for s in a}
        bb = {s for s in b if key(s) in ka}
        res["state_sets"].append(dict(M=M, typed_states_all_trees=d, trees_in_model_domain=len(ka), original_states_projected=len(a),
                                      typed_states_same_trees=len(bb), identical=(a == bb and len(a) > 0)))
        if a != bb or not a:
            raise CrossMismatch("DTreeIntro.tla (NodeIter) and DTreeIterInd.tla differ for M=%d: %d vs %d iterator states on the %d trees of the model domain, e.g. %s"
                                % (M, len(a), len(bb), len(ka), sorted(a ^ bb)[:2]))
    c = t["dtree_ref"][0]
    hit = tlc_must_fail(ctx, "XC_DTreeIterRef", {"spec": "XSpec", "constants": dtree_ref_consts(c, "right_first"), "properties": ["RefinesInd"]},
                        "XC_DTreeIterRef_teeth", r"Action property .* is violated", "DTreeIntro does not refine DTreeIterInd right_first")
    res["teeth"] = hit.strip()
    return res


def dtree_reach(ctx, variant, t):
    hit = tlc_must_fail(ctx, "XC_DTreeIterInd", {"init": "Init", "next": "TNext", "constants": {"M": "7", "Variant": q(variant)}, "invariants": ["Safety"]},
                        "XC_DTreeIterInd_reach_" + variant, r"Invariant Safety is violated", "Safety violated with Variant=%s" % variant)
    return "tlc M=7: " + hit.strip()



# ---------------------------------------------------------------------------------------------- targets: em, lloyd
EM_VARIANTS = ["last_best", "first_iter_converges", "ok_if_any_converged", "conv_not_reset"]
LLOYD_VARIANTS = ["lloyd_last_best", "lloyd_publish_last", "lloyd_budget_off_by_one"]


def em_obs(variant, RI, only=None):
    return std_obs("em", "EmInd", variant, {"R": str(RI), "I": str(RI)}, "R%d" % RI,
                   "every nruns <= %d, maxit <= %d, every integer tolerance, every sequence of integer lower bounds" % (RI, RI), only)


def lloyd_obs(variant, RI, only=None):
    return std_obs("lloyd", "LloydInd", variant, {"R": str(RI), "I": str(RI)}, "R%d" % RI,
                   "every nruns <= %d, maxit <= %d, every sequence of stop decisions and integer run inertias" % (RI, RI), only)


def em_cross(ctx, t):
    res = dict(refinement=[], state_sets=[])
    for i, c in enumerate(t["em_ref"]):
        consts = {"MaxIt": str(c["MaxIt"]), "MaxRuns": str(c["MaxRuns"]), "IndVariant": q("ok")}
        lines, d = tlc_ok(ctx, "XC_EmRef", {"spec": "XSpec", "constants": consts, "view": "ProjView",
                                            "invariants": ["Emit", "IndHolds", "SameInvs"], "properties": ["RefinesInd"]},
                          "XC_EmRef_%d" % i, what="X10Em.tla refines EmInd.tla")
        res["refinement"].append(dict(constants=c, distinct_states=d, refines=True, IndInv_and_Safety_hold=True, invariants_agree=True))
        a = st_lines(lines)
        lines, d2 = tlc_ok(ctx, "XC_EmInd", {"init": "TInit", "next": "TNext", "constants": {"R": str(c["MaxRuns"]), "I": str(c["MaxIt"]), "Variant": q("ok")},
                                             "invariants": ["Emit", "IndInv", "Safety"]}, "XC_EmInd_%d" % i, what="EmInd.tla (lower bounds -2..2): IndInv, Safety")
        b = st_lines(lines)
        res["state_sets"].append(dict(constants=c, original_states=len(a), typed_states=len(b), identical=(a == b and len(a) > 0)))
        if a != b or not a:
            raise CrossMismatch("X10Em.tla and EmInd.tla (lower bounds -2..2, tol 2) differ for %s: %d vs %d states, e.g. %s" % (c, len(a), len(b), sorted(a ^ b)[:2]))
    c = t["em_ref"][0]
    consts = {"MaxIt": str(c["MaxIt"]), "MaxRuns": str(c["MaxRuns"]), "IndVariant": q("last_best")}
    res["teeth"] = tlc_must_fail(ctx, "XC_EmRef", {"spec": "XSpec", "constants": consts, "view": "ProjView", "properties": ["RefinesInd"]},
                                 "XC_EmRef_teeth", r"Action property .* is violated", "X10Em does not refine EmInd last_best").strip()
    return res


def em_reach(ctx, variant, t):
    hit = tlc_must_fail(ctx, "XC_EmInd", {"init": "TInit", "next": "TNext", "constants": {"R": "3", "I": "3", "Variant": q(variant)}, "invariants": ["Safety"]},
                        "XC_EmInd_reach_" + variant, r"Invariant Safety is violated", "Safety violated with Variant=%s" % variant)
    return "tlc R=I=3: " + hit.strip()


def lloyd_cross(ctx, t):
    res = dict(refinement=[], typed=[])
    for i, c in enumerate(t["lloyd_ref"]):
        consts = {k: str(v) for k, v in c.items()}
        consts["IndVariant"] = q("ok")
        lines, d = tlc_ok(ctx, "XC_LloydRef", {"spec": "XSpec", "constants": consts, "invariants": ["IndHolds", "SameInvs"], "properties": ["RefinesInd"]},
                          "XC_LloydRef_%d" % i, what="X10Lloyd.tla refines LloydInd.tla")
        res["refinement"].append(dict(constants=c, distinct_states=d, refines=True, IndInv_and_Safety_hold=True, invariants_agree=True))
    for RI in t["lloyd_ind_tlc"]:
        lines, d = tlc_ok(ctx, "XC_LloydInd", {"init": "Init", "next": "TNext", "constants": {"R": str(RI), "I": str(RI), "Variant": q("ok")},
                                               "invariants": ["IndInv", "Safety"]}, "XC_LloydInd_R%d" % RI, what="LloydInd.tla (inertias 0..2): IndInv, Safety")
        res["typed"].append(dict(R=RI, I=RI, distinct_states=d))
    consts = {k: str(v) for k, v in t["lloyd_ref"][0].items()}
    consts["IndVariant"] = q("lloyd_last_best")
    res["teeth"] = tlc_must_fail(ctx, "XC_LloydRef", {"spec": "XSpec", "constants": consts, "properties": ["RefinesInd"]},
                                 "XC_LloydRef_teeth", r"Action property .* is violated", "X10Lloyd does not refine LloydInd lloyd_last_best").strip()
    return res


def lloyd_reach(ctx, variant, t):
    hit = tlc_must_fail(ctx, "XC_LloydInd", {"init": "Init", "next": "TNext", "constants": {"R": "3", "I": "3", "Variant": q(variant)}, "invariants": ["Safety"]},
                        "XC_LloydInd_reach_" + variant, r"Invariant Safety is violated", "Safety violated with Variant=%s" % variant)
    return "tlc R=I=3: " + hit.strip()



# ---------------------------------------------------------------------------------------------- targets: emidx, lloydidx
# pointwise (one probe history cell) versions of EmInd / LloydInd: every variable an unbounded Int, no constant bounds
# the model => the consecution run holds for ALL nruns / maxit.  Same variant names as em / lloyd.
def emidx_obs(variant, _size, only=None):
    return std_obs("emidx", "EmIdx", variant, {}, "all",
                   "ALL nruns >= 1, maxit >= 1, every tolerance, every sequence of integer lower bounds, every probe run s >= 1 (unbounded integers)", only)


def lloydidx_obs(variant, _size, only=None):
    return std_obs("lloydidx", "LloydIdx", variant, {}, "all",
                   "ALL nruns >= 1, maxit >= 1, every sequence of stop decisions and integer run inertias, every probe run s >= 1 (unbounded integers)", only)


def idx_cross(module, init, teeth_variant):
    def cross(ctx, t):
        res = dict(projection=[])
        for RI in t["idx_tlc"]:
            consts = {"R": str(RI), "I": str(RI), "Variant": q("ok"), "IdxVariant": q("ok")}
            lines, d = tlc_ok(ctx, module, {"init": init, "next": "TNext", "constants": consts, "invariants": ["IdxInv", "IdxSaysInd"],
                                            "properties": ["IdxRefines"]}, "%s_R%d" % (module, RI),
                              what="the array model refines the pointwise model for every probe")
            res["projection"].append(dict(R=RI, I=RI, distinct_states=d, refines_for_every_probe=True, IndInv_and_Safety_hold=True,
                                          pointwise_gives_quantified=True))
        consts = {"R": "3", "I": "3", "Variant": q("ok"), "IdxVariant": q(teeth_variant)}
        res["teeth"] = tlc_must_fail(ctx, module, {"init": init, "next": "TNext", "constants": consts, "properties": ["IdxRefines"]},
                                     module + "_teeth", r"Action property .* is violated", "array model ok does not refine pointwise model " + teeth_variant).strip()
        return res
    return cross


# ---------------------------------------------------------------------------------------------- registry
TARGETS = {
    "density": dict(variants=DENSITY_VARIANTS, obs=density_obs, cross=density_cross, reach=density_reach,
                    sens_size=3, module="DensityInd"),
    "dtree": dict(variants=DTREE_VARIANTS, obs=dtree_obs, cross=dtree_cross, reach=dtree_reach,
                  sens_size=7, module="DTreeIterInd"),
    "em": dict(variants=EM_VARIANTS, obs=em_obs, cross=em_cross, reach=em_reach, sens_size=3, module="EmInd"),
    "lloyd": dict(variants=LLOYD_VARIANTS, obs=lloyd_obs, cross=lloyd_cross, reach=lloyd_reach, sens_size=3, module="LloydInd"),
    "emidx": dict(variants=EM_VARIANTS, obs=emidx_obs, cross=idx_cross("XC_EmIdx", "TInit", "last_best"), reach=None, sens_size=0, module="EmIdx"),
    "lloydidx": dict(variants=LLOYD_VARIANTS, obs=lloydidx_obs, cross=idx_cross("XC_LloydIdx", "Init", "lloyd_last_best"), reach=None,
                     sens_size=0, module="LloydIdx"),
}

TIER = {
    "quick": dict(
        density=[3, 4],
        density_ref=[dict(Lattices="{103}", N=4, MinPtsSet="{2, 3}", EpsSet="{11, 21, 32}", emit=True),
                     dict(Lattices="{103}", N=5, MinPtsSet="{3, 4}", EpsSet="{11, 32}")],
        density_ind_tlc=[3, 4],
        density_teeth=dict(Lattices="{103}", N=5, MinPtsSet="{3, 4}", EpsSet="{11, 32}"),
        density_shared=["noncore_extends"],
        dtree=[7],
        em=[3, 5], em_ref=[dict(MaxIt=3, MaxRuns=3)],
        emidx=[0], lloydidx=[0], idx_tlc=[3],
        lloyd=[3, 5], lloyd_ind_tlc=[3],
        lloyd_ref=[dict(ScaleKind=1, MGrid=2, MN=3, MK=2, MIt=3, MRuns=2, MTols="{101, 102, 130}")],
        dtree_ref=[dict(MaxN=3, MaxV=2, MaxK=2, MaxD=1, Mws="{8}", Mwl="{4}", Mid="{10}"),
                   dict(MaxN=3, MaxV=1, MaxK=2, MaxD=2, Mws="{8}", Mwl="{4}", Mid="{10}")],
        sens_tlaps=[("DensityIndProofs", "noncore_extends"), ("DTreeIterIndProofs", "right_first")],
        par=5, apa_timeout=240),
    "thorough": dict(
        density=[1, 2, 3, 4, 5],
        density_ref=[dict(Lattices="{103}", N=4, MinPtsSet="{2, 3}", EpsSet="{11, 21, 32}", emit=True),
                     dict(Lattices="{201}", N=4, MinPtsSet="{2, 3}", EpsSet="{11, 32}", emit=True),
                     dict(Lattices="{202}", N=4, MinPtsSet="{2, 3, 4}", EpsSet="{11, 32, 21, 52}", emit=True),
                     dict(Lattices="{104}", N=5, MinPtsSet="{2, 3, 4}", EpsSet="{11, 32, 21}", emit=True),
                     dict(Lattices="{201}", N=5, MinPtsSet="{2, 3, 4}", EpsSet="{11, 32}", emit=True),
                     dict(Lattices="{103}", N=6, MinPtsSet="{3, 4}", EpsSet="{11, 32}")],
        density_ind_tlc=[1, 2, 3, 4, 5],
        density_teeth=dict(Lattices="{103}", N=5, MinPtsSet="{3, 4}", EpsSet="{11, 32}"),
        density_shared=DENSITY_SHARED,
        dtree=[1, 3, 7, 15],
        emidx=[0], lloydidx=[0], idx_tlc=[3, 4],
        em=[1, 2, 3, 5, 8, 12], em_ref=[dict(MaxIt=3, MaxRuns=3), dict(MaxIt=4, MaxRuns=3)],
        lloyd=[1, 2, 3, 5, 8, 12], lloyd_ind_tlc=[3, 4],
        lloyd_ref=[dict(ScaleKind=1, MGrid=2, MN=3, MK=2, MIt=3, MRuns=2, MTols="{101, 102, 130}"),
                   dict(ScaleKind=1, MGrid=2, MN=3, MK=2, MIt=2, MRuns=3, MTols="{101, 130}")],
        dtree_ref=[dict(MaxN=3, MaxV=2, MaxK=2, MaxD=1, Mws="{8}", Mwl="{4}", Mid="{10}"),
                   dict(MaxN=3, MaxV=1, MaxK=2, MaxD=2, Mws="{8}", Mwl="{4}", Mid="{10}"),
                   dict(MaxN=4, MaxV=2, MaxK=2, MaxD=1, Mws="{8, 10}", Mwl="{4}", Mid="{10, 250000}"),
                   dict(MaxN=4, MaxV=1, MaxK=2, MaxD=2, Mws="{8}", Mwl="{4}", Mid="{10}")],
        sens_tlaps="all",
        par=6, apa_timeout=3000),
}


def targets_of_variant(v):
    return [name for name, tg in TARGETS.items() if v in tg["variants"]]


# ---------------------------------------------------------------------------------------------- run
def violation(ctx, ob):
    case = {"id": ob["name"], "kind": "obligation",
            "inp": {k: ob.get(k) for k in ("module", "tool", "target", "variant", "consts", "init", "inv", "length", "scope", "cmd")},
            "ev": [{"ev": ob["status"], "what": ob.get("violated", ""), "counterexample": ob.get("cex", ""),
                    "detail": ob.get("tail", "")}]}
    vlib.record_violation(ctx, case, ["obligation %s not discharged: %s %s" % (ob["name"], ob["status"], ob.get("violated", ""))])


def run(ctx):
    t = dict(TIER[ctx.tier])
    if ctx.tier == "thorough" and os.environ.get("X08_DENSITY_N6"):
        t["density"] = t["density"] + [6]
    variant = variant_of(ctx)
    vt = []
    if variant != "ok":
        vt = targets_of_variant(variant)
        if not vt:
            raise vlib.ToolError("unknown X08 variant %r" % variant)
        vlib.log("running the MAIN obligations of target(s) %s on the seeded design bug Variant = %s (expect VIOLATION)" % (vt, variant))
        # a run on a deliberately broken model never touches evidence/ or replays/
        vlib.EVID = ctx.work
        vlib.REPLAYS = os.path.join(ctx.work, "replays")

    main, sens = [], []
    for name, tg in TARGETS.items():
        if name not in t:
            continue
        if vt and name not in vt:
            continue
        for size in t[name]:
            main += tg["obs"](variant if name in vt else "ok", size)
        if variant == "ok":
            for v in tg["variants"]:
                sens += tg["obs"](v, tg["sens_size"], only=["step"])
    order = sorted(main + sens, key=lambda o: (-o["length"], -int(re.sub(r"\D", "", o["name"].split("_")[2]) or 0), o["name"]))
    xc, xc_err, reach = {}, None, {}
    with ThreadPoolExecutor(max_workers=t["par"] - 1) as ex:
        tfuts, tsfuts = [], []
        if variant == "ok":
            tfuts = [ex.submit(run_tlapm, ctx, mod, deps) for mod, deps, _tg, _sc in PROOF_MODULES]
            pairs = t["sens_tlaps"]
            if pairs == "all":
                pairs = [(mod, v) for mod, _d, tg, _sc in PROOF_MODULES for v in TARGETS[tg]["variants"]]
            tsfuts = [ex.submit(run_tlapm, ctx, mod, dict((m, d) for m, d, _t, _s in PROOF_MODULES)[mod], 900, v) for mod, v in pairs]
        else:
            tfuts = [ex.submit(run_tlapm, ctx, mod, deps, 900, variant) for mod, deps, tg, _sc in PROOF_MODULES if tg in vt]
        futs = [ex.submit(run_apalache, ctx, o, t["apa_timeout"]) for o in order]
        # the TLC cross-checks run in this thread meanwhile
        if variant == "ok":
            try:
                for name, tg in TARGETS.items():
                    if name in t:
                        xc[name] = tg["cross"](ctx, t)
                        for v in tg["variants"]:
                            if tg["reach"]:
                                reach[v] = tg["reach"](ctx, v, t)
            except CrossMismatch as e:
                xc_err = str(e)
        for f in futs:
            f.result()
        tl = [f.result() for f in tfuts]
        tl_sens = [f.result() for f in tsfuts]

    # ---- verdict
    bad_tool = [o for o in main + tl if o["status"] in ("timeout", "error")]
    if bad_tool:
        for o in bad_tool:
            vlib.log("NOT DECIDED %s: %s\n%s" % (o["name"], o["status"], o.get("tail", "")))
        raise vlib.ToolError("obligation(s) not decided (timeout / tool error): " + ", ".join(o["name"] for o in bad_tool))
    for o in main + tl:
        if o["status"] != "discharged":
            violation(ctx, o)
    if xc_err:
        violation(ctx, dict(name="cross_check", module="XC_*", tool="tlc", status="counterexample", violated=xc_err))
    # vacuity of the inductive steps: every symbolic transition must be enabled from IndInv (sizes >= the target's
    # sens_size; on tiny instances some action cannot fire at all)
    for o in main:
        if o["status"] == "discharged" and o["length"] == 1 and o.get("transitions"):
            size = int(re.sub(r"\D", "", o["name"].split("_")[2]) or 0)
            if o["enabled"] < o["transitions"] and size >= TARGETS[o["target"]]["sens_size"]:
                raise vlib.ToolError("inductive step %s is partly vacuous: %d of %d transitions enabled from IndInv"
                                     % (o["name"], o["enabled"], o["transitions"]))
    # sensitivity: each seeded design bug must break its consecution obligation (and be reachable: `reach`)
    sens_res = {}
    for o in sens:
        v = o["consts"]["Variant"].strip('"')
        if o["status"] in ("timeout", "error"):
            raise vlib.ToolError("sensitivity obligation %s not decided: %s\n%s" % (o["name"], o["status"], o.get("tail", "")))
        key = "%s/%s" % (o["module"], v)
        sens_res[key] = (["%s: %s" % (o["name"], o.get("violated", ""))] if o["status"] == "counterexample" else [])
        if v in reach and sens_res[key]:
            sens_res[key].append(reach[v])
    for o in tl_sens:
        if o["status"] in ("timeout", "error"):
            raise vlib.ToolError("sensitivity proof run %s not decided: %s\n%s" % (o["name"], o["status"], o.get("tail", "")))
        sens_res["%s/%s" % (o["module"], o["variant"])] = (["%s: %s" % (o["name"], o.get("violated", ""))] if o["status"] == "unproved" else [])
    missed = [k for k, v in sens_res.items() if not v]
    if missed:
        raise vlib.ToolError("seeded design bug(s) %s break no obligation: the inductive invariants are too weak" % missed)

    # ---- evidence
    n_tl = sum(o["total"] for o in tl)
    discharged = sum(1 for o in main if o["status"] == "discharged") + sum(o["proved"] for o in tl)
    ctx.cases = len(main) + len(sens) + len(tl) + len(tl_sens)
    ctx.nontrivial = len({(o["module"], o["init"], o["inv"], json.dumps(o["consts"], sort_keys=True)) for o in main if o["init"] != "Init"}) + len(tl)
    ctx.rule = ("one case = one proof obligation handed to apalache-mc check; non-trivial = inductive steps and IndInv => Safety "
                "(the Init => IndInv runs are the trivial ones); distinct by (module, init, inv, constants)")
    ctx.validated = 0
    ctx.exhaustive = False
    keys = ("name", "module", "scope", "init", "inv", "length", "status", "secs", "enabled", "transitions")
    for name in TARGETS:
        steps = [o for o in main if o["target"] == name and o["length"] == 1]
        for o in steps[-1:] + [o for o in main if o["target"] == name and o["inv"] == "Safety"][-1:]:
            ctx.samples.append(json.dumps({k: o.get(k) for k in keys}))
    ctx.extra.update({
        "obligations": len(main) + n_tl,
        "discharged": discharged,
        "tlaps_modules": [dict({k: o.get(k) for k in ("module", "status", "proved", "total", "attempts", "theorems", "secs")},
                               scope=dict((m, sc) for m, _d, _t, sc in PROOF_MODULES)[o["module"]]) for o in tl],
        "checker_cmd": "apalache-mc check --config=<constants>.cfg --init=IndInv --inv=IndInv --length=1 --no-deadlock specs/{%s}.tla "
                       "(and --init=Init --inv=IndInv --length=0, --init=IndInv --inv=Safety --length=0); tlapm --cleanfp --stretch 3 specs/{%s}.tla; "
                       "TLC cross-checks specs/XC_*.tla" % (",".join(sorted({o["module"] for o in main})), ",".join(o["module"] for o in tl)),
        "apalache_obligations": [{k: o.get(k) for k in keys} for o in main],
        "cross_check": xc,
        "sensitivity": sens_res,
        "variant": variant,
        "unbounded_means": "TLAPS modules and the pointwise models EmIdx / LloydIdx (Apalache, unbounded integers): no bound at all; Apalache array models: each listed instance size separately; within one size EVERY value of the rigid parameters (neighbourhood relation, core set, "
                           "tree shape, lower-bound sequences, ...), every nondeterministic choice and any number of steps",
    })
    for o in tl[:2]:
        ctx.samples.append(json.dumps({k: o.get(k) for k in ("name", "module", "status", "proved", "total", "theorems", "secs")}))
    ctx.trusted = ["Apalache 0.58.0 + z3 (symbolic transition executor)", "tlapm + z3/Zenon/Isabelle backends (NaturalsInduction!NatInduction for one step)",
                   "TLC + CommunityModules Json (cross-checks)"]
    ctx.assumptions = ["the TLC design models model the code (bound to the implementation by C08/X09, X11, X10, not here)",
                       "the Ind modules equal the original design models: checked by TLC (refinement property + state-set equality) on the small instances only"]
    return vlib.finish(ctx, level="proof")


def replay(ctx, case):
    """Re-run one obligation of a replay file."""
    inp = case["inp"]
    if inp.get("tool") == "tlapm":
        mod = inp["module"]
        o = run_tlapm(ctx, mod, dict((m, d) for m, d, _t, _s in PROOF_MODULES)[mod], 900, inp.get("variant") or "ok")
    elif inp.get("tool") == "tlc":
        t = TIER[ctx.tier]
        try:
            for name, tg in TARGETS.items():
                if name in t:
                    tg["cross"](ctx, t)
            o = dict(name="cross_check", status="discharged")
        except CrossMismatch as e:
            o = dict(name="cross_check", module="XC_*", tool="tlc", status="counterexample", violated=str(e))
    else:
        o = dict(name=str(case["id"]), module=inp["module"], consts=inp["consts"], init=inp["init"], inv=inp["inv"],
                 length=inp["length"], tool="apalache", scope=inp.get("scope"), target=inp.get("target"))
        o = run_apalache(ctx, o, 1500)
    ctx.cases = 1
    if o["status"] in ("timeout", "error"):
        raise vlib.ToolError("obligation %s not decided: %s" % (o["name"], o["status"]))
    if o["status"] != "discharged":
        violation(ctx, o)
    ctx.extra.update({"obligations": 1, "discharged": 1 if o["status"] == "discharged" else 0,
                      "checker_cmd": o.get("cmd", "")})
    ctx.nontrivial = 1
    ctx.samples.append(json.dumps({k: o.get(k) for k in ("name", "module", "status")}))
    return vlib.finish(ctx, level="proof")
