"""C07 -- Nearest-neighbour indices return the true neighbours and are interchangeable (DESIGN.md 8/C07).

(A) TLC model-checks   specs/NN.tla      the relations KnnOk / RangeOk / AgreeKey against a reference scan
                       specs/NNBall.tla  the ball tree (partition/build, best-first search, pruning) against them
(B) TLC generates      specs/Gen_NN.tla  point sequences on doubled lattices x query x metric, with ks, radii,
                                         sessions (index kind x float type x leaf size x layout x calling form)
(C) harness c07 runs every session against linfa-nn; TLC validates the traces with specs/Trace_NN.tla
"""
import vlib

M4 = '{"l1", "l2", "linf", "lp3"}'
MODEL_NN = {
    "quick": dict(MaxN=3, MaxN2=2, Coords1="{0, 2, 4}", Coords2="{0, 2}", QLo=0, QHi=3, MetricSet=M4),
    "thorough": dict(MaxN=4, MaxN2=3, Coords1="{0, 2, 4}", Coords2="{0, 2}", QLo=0, QHi=3,
                     MetricSet='{"l1", "l2", "linf", "lp3", "lp1", "lp2"}'),
}
NN_INVS = ["InvScan", "InvEquiv", "InvUnique", "InvReject", "InvRange", "InvRangeAdmit", "InvSide"]
MODEL_BALL = {
    "quick": dict(MaxN=3, MaxN2=2, Coords1="{0, 2, 4}", Coords2="{0, 2}", QLo=0, QHi=3, MetricSet='{"l1", "linf"}',
                  MaxLeaf=2, GuardK0="TRUE"),
    "thorough": dict(MaxN=4, MaxN2=3, Coords1="{0, 2, 4}", Coords2="{0, 2}", QLo=0, QHi=3, MetricSet='{"l1", "linf"}',
                     MaxLeaf=3, GuardK0="TRUE"),
}
BALL_INVS = ["InvTree", "NoPanic", "InvPruned", "InvAnswer"]
BALL_ACTIONS = ["Start", "Pop", "Exhausted", "ScanPoint"]
TRACE_CONST = dict(MaxN=0, MaxN2=0, Coords1="{}", Coords2="{}", QLo=0, QHi=0, MetricSet="{}")

METRICS = ["l1", "l2", "linf", "lp3", "lp1", "lp2"]


# ------------------------------------------------------------------------------------------------
# seeded random cases of the same schema (thorough tier): clustered / duplicated lattice clouds

def _isqrt(x):
    r = int(x ** 0.5)
    while r * r > x:
        r -= 1
    while (r + 1) * (r + 1) <= x:
        r += 1
    return r


def _icbrt(x):
    r = int(round(x ** (1.0 / 3)))
    while r * r * r > x:
        r -= 1
    while (r + 1) ** 3 <= x:
        r += 1
    return r


def _reduced(metric, p, q):
    d = [abs(a - b) for a, b in zip(p, q)]
    if metric in ("l1", "lp1"):
        return sum(d)
    if metric in ("l2", "lp2"):
        return sum(x * x for x in d)
    if metric == "linf":
        return max(d) if d else 0
    return sum(x * x * x for x in d)


def _root_floor(metric, D):
    """floor(8 * true distance): only used to *place* radii on / just above attained distances"""
    if metric in ("l1", "lp1", "linf"):
        return 8 * D
    if metric in ("l2", "lp2"):
        return _isqrt(64 * D)
    return _icbrt(512 * D)


def random_case(r):
    metric = r.choice(METRICS)
    # magnitudes keep every integer form inside 31 bits and every float evaluation exact (l1, l2, linf)
    # or well separated (root-taking lp metrics): see docs/reports/C07.md
    if metric in ("lp3",):
        dim, span = r.randint(1, 3), r.randint(2, 6)
    elif metric == "lp2":
        dim, span = r.randint(1, 8), r.randint(2, 16)
    else:
        dim, span = r.randint(1, 16), r.choice([1, 2, 3, 6, 12, 40])
    if metric == "l2":
        # f32 sessions: the ball tree's sphere bound (sqrt(d2) - radius)^2 carries a rounding error of about
        # 2.4e-7 * d2, while a point "strictly inside" a radius given in eighths can be as close as 1/64 (squared
        # units) to it; squared distances are kept below 6000 so that the error stays 10x below that gap
        while dim * (2 * span + 6) ** 2 > 6000:
            span -= 1
    n = r.choice([5, 6, 7, 8, 12, 17, 33, 40, 64, r.randint(5, 90)])
    style = r.choice(["uniform", "clustered", "dups", "allequal", "line", "unitcube", "unitcube"])
    pts = []
    unit = 0
    if style == "unitcube":
        # dyadic points of [0,1]^d: numerators 0..unit (all integers, not only the even ones) at scale sc = unit
        unit = r.choice([8, 16, 32])
        if metric == "l2":
            while dim * (unit + 6) ** 2 > 6000:
                dim -= 1
        if metric == "lp3":
            unit = 8
        span = unit // 2
        pts = [[r.randint(0, unit) for _ in range(dim)] for _ in range(n)]
    elif style == "uniform":
        pts = [[2 * r.randint(0, span) for _ in range(dim)] for _ in range(n)]
    elif style == "clustered":
        cs = [[2 * r.randint(0, span) for _ in range(dim)] for _ in range(r.randint(1, 4))]
        for _ in range(n):
            c = r.choice(cs)
            pts.append([min(2 * span, max(0, x + 2 * r.randint(-1, 1))) for x in c])
    elif style == "dups":
        base = [[2 * r.randint(0, span) for _ in range(dim)] for _ in range(r.randint(1, 4))]
        pts = [list(r.choice(base)) for _ in range(n)]
    elif style == "allequal":
        p = [2 * r.randint(0, span) for _ in range(dim)]
        pts = [list(p) for _ in range(n)]
    else:  # all points on one axis-parallel line: every other dimension has zero spread
        p = [2 * r.randint(0, span) for _ in range(dim)]
        ax = r.randrange(dim)
        for _ in range(n):
            v = list(p)
            v[ax] = 2 * r.randint(0, span)
            pts.append(v)
    how = r.random()
    if how < 0.35:
        q = list(r.choice(pts))
    elif how < 0.85:
        q = [r.randint(0, 2 * span) for _ in range(dim)]
    else:
        q = [r.randint(-3, 2 * span + 3) for _ in range(dim)]
    # translate everything (negative coordinates)
    off = 0 if unit else r.choice([0, 0, -span, -2 * span - 1])
    pts = [[x + off for x in p] for p in pts]
    q = [x + off for x in q]
    # scale: the real data are pts / sc (sc a power of two, exact): sub-unit clouds, e.g. span 8 at sc 16 is [0,1]^d
    sc = unit if unit else r.choice([1, 1, 4, 16, 64])
    ks = sorted({0, 1, 2, 3, n // 2, n - 1, n, n + 1, r.randint(1, n)})
    # k far beyond n (codes: -1 usize::MAX, -2 usize::MAX/2, -3 2^32, -4 10^12; <= -3 run in a child process)
    ks += [-1, -2, r.choice([-3, -4])]
    ds = [_reduced(metric, p, q) for p in pts]
    r8s = {0}
    for D in r.sample(ds, min(4, len(ds))) + [min(ds), max(ds)]:
        f = _root_floor(metric, D)
        r8s.add(f)          # on the sphere when the root is exact, else just below the point
        r8s.add(f + 1)      # just above
    r8s.add(_root_floor(metric, max(ds)) + 16)
    leafs = [1, 2, 3, 16]
    ft = r.choice(["f64", "f32"])
    oft = "f32" if ft == "f64" else "f64"
    sess = [{"ix": "lin", "ft": "f64", "leaf": 1, "lay": "std"}]
    sess += [{"ix": "kd", "ft": ft, "leaf": l, "lay": "std"} for l in leafs]
    sess += [{"ix": "ball", "ft": ft, "leaf": l, "lay": r.choice(["std", "std", "cols2", "fort", "rows2"])} for l in leafs]
    sess += [{"ix": r.choice(["lin", "lin_d", "lin_n"]), "ft": oft, "leaf": r.choice([-1, 1, 7]), "lay": r.choice(["std", "fort"])},
             {"ix": r.choice(["kd_d", "kd_n"]), "ft": oft, "leaf": r.choice([4, 5]), "lay": r.choice(["std", "rows2"])},
             {"ix": r.choice(["ball_d", "ball_n"]), "ft": oft, "leaf": r.choice([4, 5]), "lay": "std"}]
    if metric in ("l1", "l2", "linf", "lp1") and dim <= 8:
        sess += [{"ix": "tree", "ft": ft, "leaf": r.choice(leafs), "lay": "std"}]
    return {"kind": "nn", "inp": {"n": n, "dim": dim, "sc": sc, "pts": pts, "q": q, "metric": metric, "ks": ks,
                                  "r8s": sorted(r8s), "badq": [[], [1] * (dim + 1)], "sess": sess}}


def nontrivial(case):
    i = case["inp"]
    return i["n"] >= 2 and any(s["ix"] not in ("lin", "lin_d") and 1 <= s["leaf"] < i["n"] for s in i["sess"])


def run(ctx):
    import os
    binp = vlib.cargo_build("c07")
    if os.environ.get("C07_SKIP_MC") != "1":     # development only (mutant runs): the design models do not depend on the code
        vlib.tlc_mc(ctx, "NN", {"constants": MODEL_NN[ctx.tier], "invariants": NN_INVS}, workers=8)
        # (action coverage is read from the quick model only: TLC prints interim coverage reports on runs longer
        # than a minute and the shared parser reads the first one)
        vlib.tlc_mc(ctx, "NNBall", {"constants": MODEL_BALL[ctx.tier], "invariants": BALL_INVS}, workers=8,
                    coverage_actions=BALL_ACTIONS if ctx.quick else None)
    cases = vlib.tlc_gen(ctx, "Gen_NN", {"constants": {"Tier": '"%s"' % ctx.tier, "Phase": ctx.seed % 1000003},
                                         "invariants": ["Emit"]})
    ctx.exhaustive = False
    if not ctx.quick:
        cases += [random_case(ctx.rng) for _ in range(150)]
    vlib.number(cases)
    ctx.cases = len(cases)
    ctx.nontrivial = len({repr((c["inp"]["pts"], c["inp"]["q"], c["inp"]["metric"])) for c in cases if nontrivial(c)})
    traces = vlib.run_harness(ctx, binp, cases)
    vlib.sample(ctx, [t for t in traces if t["inp"]["n"] == 3 and t["inp"]["dim"] == 2][:1]
                + [t for t in traces if t["inp"]["dim"] == 0][:1])
    ctx.extra["sessions"] = sum(len(t["ev"]) for t in traces)
    ctx.extra["queries"] = sum(len(e.get("knn", [])) + len(e.get("rng", [])) + 2 * len(e.get("bad", []))
                               for t in traces for e in t["ev"])
    vlib.validate_with_findings(ctx, "Trace_NN", traces, constants=TRACE_CONST, chunk=1200)
    ctx.rule = ("case = (point sequence on a doubled lattice, query point on the full lattice incl. outside the hull, metric), "
                "enumerated by TLC (Gen_NN: 1-D {0,2,4,6} n<=6, 2-D 3x3 n<=4(5), 3-D 2x2x2 n<=4(5); the smallest family complete, "
                "the others a seeded 1/stride sample of the full product; plus the same lattices divided by 4 and 16 = sub-unit leaf "
                "spheres) [+ seeded random clustered/duplicated clouds and dyadic clouds in [0,1]^d, n<=90, dim<=16, scales 1..64, "
                "in the thorough tier]; every case is run on linear scan, k-d tree and ball tree at every leaf size, "
                "f32/f64, several layouts and calling forms, with all k in 0..n+1 plus k = usize::MAX, usize::MAX/2, 2^32 (codes -1, -2, -3) and radii on / between / beyond the attained "
                "distances; non-trivial = n >= 2 and at least one tree session whose leaf size is < n (tree with >= 2 nodes); "
                "distinct by (points, query, metric)")
    ctx.trusted = ["TLC + CommunityModules Json", "harness encoding of results and parsing of BallTreeIndex's Debug output "
                   "(harness/src/bin/c07.rs)",
                   "exactness of f32/f64 sums, squares and maxima of small integers and of dyadic radii"]
    ctx.assumptions = ["inputs are integer lattice points divided by a power of two and radii are multiples of 1/(8 sc), so L1/L2/Linf comparisons are exact in "
                       "f32 and f64; for LpDist (p-th root) a point exactly on the radius is left undecided",
                       "ties are never decided: any tied point may be returned, range results in any order"]
    return vlib.finish(ctx)


def replay(ctx, case):
    binp = vlib.cargo_build("c07")
    case = {"id": case.get("id", 1), "kind": case.get("kind", "nn"), "inp": case["inp"]}
    traces = vlib.run_harness(ctx, binp, [case])
    ctx.cases = 1
    vlib.validate_with_findings(ctx, "Trace_NN", traces, constants=TRACE_CONST)
    return vlib.finish(ctx)
