"""C15 -- incremental fitting replays to the same model as batch fitting / its recurrence (DESIGN.md 8/C15).

(A) Incremental.tla : bounded design model, one action per fit_with call; the state the code stores (count, mean,
    variance / feature counts / centroid, count) merged with the code's formulas equals the textbook estimate of the
    rows consumed, for every dataset and every ordered cut; FTRL step facts on a fixed-point grid.
(B) Gen_Incremental.tla enumerates histories (dataset x composition x smoothing; point sequences x cuts x tolerance;
    one-step FTRL grid); this file adds seeded random multi-feature / multi-batch histories of the same schema.
(C) harness/src/bin/c15.rs runs every history on the real API; Trace_Incremental.tla validates every call.
"""
import json
import os
import vlib

MODEL = {"quick": dict(MaxN=3, MaxV=3, MaxC=2), "thorough": dict(MaxN=5, MaxV=2, MaxC=2)}
MODEL3 = {"quick": None, "thorough": dict(MaxN=4, MaxV=2, MaxC=3)}
GEN = {"quick": dict(GnbN=4, MnbN=2, KmN=3, FtRows=1), "thorough": dict(GnbN=5, MnbN=3, KmN=4, FtRows=2)}
# per family: sizes up to COMPLETE are kept completely, every larger enumerated size is a seeded sample of KEEP cases
COMPLETE = {"quick": dict(gnb=3, mnb=1, kmeans=1, ftrl=1), "thorough": dict(gnb=3, mnb=2, kmeans=2, ftrl=2)}
KEEP = {"quick": dict(gnb=500, mnb=700, kmeans=600, ftrl=0), "thorough": dict(gnb=5000, mnb=6000, kmeans=4000, ftrl=0)}
RANDOM = {"quick": dict(gnb=300, mnb=250, kmeans=300, ftrl=300, gnb_off=200, ftrl_scaled=150), "thorough": dict(gnb=3000, mnb=2500, kmeans=3000, ftrl=3000, gnb_off=1500, ftrl_scaled=1000)}
INVS = ["InvGaussian", "InvPriors", "InvMultinomial", "InvKMeans", "InvKmCount", "InvRelations", "FtFactsOnce"]
TRACE_CONST = dict(MaxN=0, MaxV=0, MaxC=1)


def R(a, b=1):
    return {"num": a, "den": b}


def size_of(c):
    i = c["inp"]
    if c["kind"] in ("gnb", "mnb"):
        return len(i["rows"])
    if c["kind"] == "kmeans":
        return sum(len(b) for b in i["batches"])
    return sum(len(b["x"]) for b in i["batches"])


def compositions_random(r, n, maxparts):
    """a random ordered cut of n rows into 1..maxparts non-empty batches"""
    parts = r.randint(1, min(n, maxparts))
    cuts = sorted(r.sample(range(1, n), parts - 1)) if parts > 1 else []
    out, last = [], 0
    for x in cuts + [n]:
        out.append(x - last)
        last = x
    return out


def random_gnb(ctx, count, thorough):
    out, r = [], ctx.rng
    for _ in range(count):
        big = thorough and r.random() < 0.5
        n = r.randint(9, 40) if big else r.randint(4, 8)
        d = r.randint(1, 3)
        ncls = r.randint(2, 3)
        vmax = 4 if big else r.choice([3, 6])
        labels = [r.randrange(ncls) for _ in range(n)]
        if r.random() < 0.5:          # class-incomplete batches: sort a stretch by class
            k = r.randint(2, n)
            labels[:k] = sorted(labels[:k])
        rows = [[r.randint(0, vmax) + (3 if (labels[i] == 1 and r.random() < 0.6) else 0) for _ in range(d)] for i in range(n)]
        vs = r.choice([R(0), R(1, 1000000000), R(1, 1000000000)] + ([] if big else [R(1), R(1, 2), R(1, 10)]))
        queries = [[r.randint(-1, vmax + 4) for _ in range(d)] for _ in range(4)]
        out.append({"kind": "gnb", "inp": {"d": d, "rows": rows, "labels": labels, "cuts": compositions_random(r, n, 10),
                                           "vs": vs, "queries": queries}})
    return out


def random_mnb(ctx, count, thorough):
    out, r = [], ctx.rng
    for _ in range(count):
        big = thorough and r.random() < 0.5
        n = r.randint(9, 24) if big else r.randint(4, 8)      # Elem.LnRat is tabulated up to 1024
        d = r.randint(2, 3)
        ncls = r.randint(2, 3)
        labels = [r.randrange(ncls) for _ in range(n)]
        if r.random() < 0.5:
            k = r.randint(2, n)
            labels[:k] = sorted(labels[:k])
        rows = [[(0 if r.random() < 0.35 else r.randint(0, 4)) for _ in range(d)] for _ in range(n)]
        alpha = r.choice([R(0), R(1, 2), R(1), R(1), R(2)] + ([] if big else [R(1, 4)]))
        queries = [[r.randint(0, 3) for _ in range(d)] for _ in range(4)]
        out.append({"kind": "mnb", "inp": {"d": d, "rows": rows, "labels": labels, "cuts": compositions_random(r, n, 10),
                                           "alpha": alpha, "queries": queries}})
    return out


def random_kmeans(ctx, count, thorough):
    out, r = [], ctx.rng
    for _ in range(count):
        big = thorough and r.random() < 0.5
        n = r.randint(9, 40) if big else r.randint(3, 9)
        d = r.randint(1, 2)
        k = r.randint(1, 3)
        vmax = 8
        pts = [[r.randint(0, vmax) for _ in range(d)] for _ in range(n)]
        cuts = compositions_random(r, n, 10)
        init = r.choice(["pre", "pre", "random", "kpp", "para"])
        if init != "pre":
            # the initialisers need k distinct rows in the first batch
            need = max(k, 2)
            first = set()
            while len(first) < need + r.randint(0, 2):
                first.add(tuple(r.randint(0, vmax) for _ in range(d)))
            first = [list(p) for p in first]
            r.shuffle(first)
            pts = first + pts
            cuts = [len(first)] + cuts
        cent = []
        if init == "pre":       # distinct initial centroids (coinciding centroids tie every point: 2^m assignments)
            while len({tuple(cc) for cc in cent}) < k:
                cent = [[r.randint(0, vmax) for _ in range(d)] for _ in range(k)]
        batches, s = [], 0
        for cc in cuts:
            batches.append(pts[s:s + cc])
            s += cc
        tol = r.choice([R(1, 2), R(3, 4), R(1, 4), R(1, 10), R(3, 2), R(5, 2), R(7, 2), R(1), R(2), R(3), R(5), R(10)])
        metric = r.choice(["l2", "l2", "l1", "l1", "linf"])
        out.append({"kind": "kmeans", "inp": {"d": d, "k": k, "init": init, "cent": cent, "nruns": r.choice([1, 1, 2]),
                                              "seed": r.randint(0, 1000), "tol": tol, "metric": metric, "batches": batches}})
    return out


FT_HYPERS = [dict(alpha=R(1, 2), beta=R(1), l1=R(1, 2), l2=R(1, 2)), dict(alpha=R(1, 10), beta=R(1, 2), l1=R(1, 4), l2=R(1)),
             dict(alpha=R(1), beta=R(1, 2), l1=R(0), l2=R(0)), dict(alpha=R(1, 200), beta=R(1), l1=R(1, 200), l2=R(1)),
             dict(alpha=R(1, 20), beta=R(1, 10), l1=R(1, 10), l2=R(1, 10)), dict(alpha=R(2), beta=R(1), l1=R(1), l2=R(1))]
# the crate's default hyper-parameters (alpha 0.005, beta 0): z grows by ~|g|/alpha per update, so these
# histories use the seeded start (z in [0,1)), single-row batches with |x| <= 1 and at most 3 updates to
# stay inside the fixed-point range
FT_DEFAULT = dict(alpha=R(1, 200), beta=R(0), l1=R(1, 2), l2=R(1, 2))


def random_ftrl(ctx, count, thorough):
    out, r = [], ctx.rng
    for _ in range(count):
        d = r.randint(1, 3)
        if r.random() < 0.2:
            batches = [{"x": [[r.randint(-1, 1) for _ in range(d)]], "y": [r.random() < 0.5]} for _ in range(r.randint(1, 3))]
            out.append({"kind": "ftrl", "inp": {"d": d, "hyper": FT_DEFAULT, "seed": r.randint(0, 1000), "init": "seed",
                                                "z0": [], "n0": [], "batches": batches}})
            continue
        nb = r.randint(1, 6 if thorough else 4)
        batches = []
        for _ in range(nb):
            m = r.randint(1, 3)
            batches.append({"x": [[r.randint(-2, 2) for _ in range(d)] for _ in range(m)], "y": [r.random() < 0.5 for _ in range(m)]})
        init = r.choice(["seed", "given", "given"])
        z0 = [R(r.randint(-8, 8), 4) for _ in range(d)] if init == "given" else []
        n0 = [R(r.choice([0, 0, 1, 4, 9]), 4) for _ in range(d)] if init == "given" else []
        inp = {"d": d, "hyper": r.choice(FT_HYPERS), "seed": r.randint(0, 1000), "init": init,
               "ft": r.choice(["f64", "f64", "f32"]), "z0": z0, "n0": n0, "batches": batches}
        if init == "given" and r.random() < 0.5:
            # continuation with ANOTHER parameter object: the model keeps the hyper-parameters it was built with
            # (the recurrence, the weights and Ftrl::update all read the model's), fit_with is called on params that
            # differ in one or all of alpha, beta, l1, l2
            h2 = dict(inp["hyper"])
            other = r.choice([hh for hh in FT_HYPERS + [FT_DEFAULT] if hh != inp["hyper"]])
            for key in r.choice([["alpha"], ["alpha"], ["beta"], ["l1"], ["l2"], ["alpha", "beta", "l1", "l2"]]):
                h2[key] = other[key]
            if h2 == inp["hyper"]:
                h2["alpha"] = R(3, 10) if inp["hyper"]["alpha"] != R(3, 10) else R(3, 4)
            inp["hyper2"] = h2
        out.append({"kind": "ftrl", "inp": inp})
    return out


def random_gnb_offset(ctx, count):
    """large-offset small-spread features (timestamps): every feature is shifted by the exactly representable 2^offk;
    2..4 batches in which the classes recur, so that the pooled mean/variance merge really runs"""
    out, r = [], ctx.rng
    for _ in range(count):
        n = r.randint(6, 12)
        d = r.randint(1, 2)
        ncls = 2
        labels = [i % ncls for i in range(n)]
        r.shuffle(labels)
        rows = [[r.randint(0, 6) + (2 if labels[i] == 1 else 0) for _ in range(d)] for i in range(n)]
        nb = r.randint(2, 4)
        cuts = compositions_random(r, n, nb)
        while len(cuts) < 2:
            cuts = compositions_random(r, n, nb)
        queries = [[r.randint(0, 8) for _ in range(d)] for _ in range(4)]
        # var_smoothing 0 keeps these histories about the mean/variance merge alone. With the default 1e-9 the unchanged
        # tree is itself rejected at 2^30 / 2^40 (max_pooled_variance subtracts raw second moments: proposed fix
        # docs/reports/C15-fix-gnb-pooled-variance-centred.diff); C15_OFFSET_SMOOTHING=1 generates that variant.
        vs = R(0) if os.environ.get("C15_OFFSET_SMOOTHING") == "0" else R(1, 1000000000)   # default smoothing since fix 1963b3d
        out.append({"kind": "gnb", "inp": {"d": d, "rows": rows, "labels": labels, "cuts": cuts, "vs": vs,
                                           "queries": queries, "offk": r.choice([20, 30, 30, 40])}})
    return out


def random_ftrl_scaled(ctx, count):
    """badly scaled feature: a few batches with feature values 2^10..2^11 (large gradients, n ~ 10^7), then ordinary
    values (gradients ~ 10^-3 of the accumulated scale: in f32 g^2 is absorbed by n). The recurrence is homogeneous for
    l1 = l2 = 0 and beta proportional to the unit, so the state is logged in units of 2^10 (harness) and the
    specification runs the ordinary-magnitude recurrence with x / unit."""
    out, r = [], ctx.rng
    for _ in range(count):
        d = r.randint(1, 2)
        unit = 1024
        batches = []
        for _ in range(r.randint(2, 3)):
            m = r.randint(1, 2)
            batches.append({"x": [[unit * r.choice([-2, -1, 1, 2]) for _ in range(d)] for _ in range(m)], "y": [r.random() < 0.5 for _ in range(m)]})
        for _ in range(r.randint(2, 3)):
            batches.append({"x": [[r.choice([-2, -1, 1, 2, 3]) for _ in range(d)]], "y": [r.random() < 0.5]})
        hyper = dict(alpha=r.choice([R(1, 2), R(1), R(1, 10)]), beta=r.choice([R(1, 2), R(1)]), l1=R(0), l2=R(0))
        out.append({"kind": "ftrl", "inp": {"d": d, "hyper": hyper, "seed": r.randint(0, 1000), "init": "given", "unit": unit,
                                            "ft": r.choice(["f32", "f32", "f64"]),
                                            "z0": [R(r.randint(-8, 8), 4) for _ in range(d)], "n0": [R(r.choice([0, 0, 1]), 4) for _ in range(d)],
                                            "batches": batches}})
    return out


def nontrivial(c):
    """a history is non-trivial when it really is incremental and stresses the clause the tests never reach"""
    i = c["inp"]
    if c["kind"] in ("gnb", "mnb"):
        if len(i["cuts"]) < 2:
            return False
        s, incomplete = 0, False
        allc = set(i["labels"])
        for cc in i["cuts"]:
            if set(i["labels"][s:s + cc]) != allc:
                incomplete = True
            s += cc
        return incomplete or len(set(i["cuts"])) > 1      # class-incomplete or unequal batches
    if c["kind"] == "kmeans":
        return len(i["batches"]) >= 2
    return len(i["batches"]) >= 2 or len(i["batches"][0]["x"]) >= 2


def build_cases(ctx):
    allc = vlib.tlc_gen(ctx, "Gen_Incremental", {"constants": GEN[ctx.tier], "invariants": ["Emit"]})
    cases, exhaustive_parts = [], []
    for kind in ("gnb", "mnb", "kmeans", "ftrl"):
        mine = [c for c in allc if c["kind"] == kind]
        upto = COMPLETE[ctx.tier][kind]
        cases += [c for c in mine if size_of(c) <= upto]
        part = "%s: complete up to size %d" % (kind, upto)
        for sz in sorted({size_of(c) for c in mine if size_of(c) > upto}):
            lvl = [c for c in mine if size_of(c) == sz]
            if len(lvl) > KEEP[ctx.tier][kind]:
                lvl = ctx.rng.sample(lvl, KEEP[ctx.tier][kind])
                part += ", %d sampled of size %d" % (len(lvl), sz)
            else:
                part += ", complete at size %d" % sz
            cases += lvl
        exhaustive_parts.append(part)
    rn = RANDOM[ctx.tier]
    th = not ctx.quick
    cases += random_gnb(ctx, rn["gnb"], th) + random_mnb(ctx, rn["mnb"], th) + random_kmeans(ctx, rn["kmeans"], th) + random_ftrl(ctx, rn["ftrl"], th)
    cases += random_gnb_offset(ctx, rn["gnb_off"]) + random_ftrl_scaled(ctx, rn["ftrl_scaled"])
    ctx.extra["enumerated_domain"] = exhaustive_parts
    return cases


def run(ctx):
    binp = vlib.cargo_build("c15")
    only = os.environ.get("C15_ONLY")      # development aid (mutant runs): restrict to some kinds, skip layer (A)
    if not only:
        vlib.mc_elem(ctx)
        vlib.tlc_mc(ctx, "Incremental", {"init": "DInit", "next": "DNext", "constants": MODEL[ctx.tier], "invariants": INVS},
                    coverage_actions=["Batch"])
        if MODEL3[ctx.tier]:
            vlib.tlc_mc(ctx, "Incremental", {"init": "DInit", "next": "DNext", "constants": MODEL3[ctx.tier], "invariants": INVS})
    cases = build_cases(ctx)
    if only:
        cases = [c for c in cases if c["kind"] in only.split(",")]
    vlib.number(cases)
    ctx.cases = len(cases)
    ctx.nontrivial = len({json.dumps(c["inp"], sort_keys=True) + c["kind"] for c in cases if nontrivial(c)})
    traces = vlib.run_harness(ctx, binp, cases)
    for kind in ("gnb", "kmeans"):
        vlib.sample(ctx, [t for t in traces if t["kind"] == kind and nontrivial(t)][:1])
    vlib.validate_with_findings(ctx, "Trace_Incremental", traces, constants=TRACE_CONST, chunk=6000)
    ctx.exhaustive = False
    ctx.rule = ("cases = histories: (dataset x every ordered cut into non-empty batches x smoothing) for Gaussian / multinomial "
                "naive Bayes, (point sequence x every cut x tolerance x initial centroids) for mini-batch k-means, one-step FTRL "
                "grid, enumerated by TLC (Gen_Incremental; complete below the largest size, seeded sample of the largest size) + "
                "seeded random multi-feature / multi-batch histories; non-trivial = naive Bayes: >= 2 batches that are "
                "class-incomplete or of unequal size; k-means: >= 2 batches; FTRL: >= 2 updates or a multi-row batch; "
                "distinct by (kind, input)")
    ctx.trusted = ["TLC + CommunityModules Json", "harness encoders (fixed point 10^-6 / 10^-4, order keys, digests; harness/src/bin/c15.rs)",
                   "serde form of the naive-Bayes models (private statistics are read from it)",
                   "Elem tables (self-checked by MC_Elem in this run)"]
    ctx.assumptions = ["lattice inputs; statistics compared at 10^-6 (slack 2-6 units), log-probabilities and posteriors at 10^-4",
                       "classes whose posterior scores differ by less than the stated table error are treated as tied",
                       "Gaussian predictions: smoothing 0 or >= 1e-3 judged when every smoothed variance is >= 1/16; default smoothing "
                       "1e-9 judged when every class feature is constant (sigma = eps, handled exactly through the leading term "
                       "-(q-theta)^2/(2 eps)) or has variance >= 1/16; other cases only the statistics are judged",
                       "k-means: shift = tolerance exactly (or within the fixed-point window) admits either flag (docs say both 'below' and 'lower or equal')",
                       "FTRL: each update is judged against the recurrence applied to the previous observed state, first-order error bound"]
    return vlib.finish(ctx)


def replay(ctx, case):
    binp = vlib.cargo_build("c15")
    case = dict(case)
    case.pop("ev", None)
    traces = vlib.run_harness(ctx, binp, [case])
    ctx.cases = 1
    vlib.validate_with_findings(ctx, "Trace_Incremental", traces, constants=TRACE_CONST)
    return vlib.finish(ctx)
