"""C03 -- Prediction is a per-sample function, identical through every calling form (DESIGN.md 8/C03)."""
import json
import vlib

BASE = ["kmeans", "gmm", "ols", "isotonic", "tweedie", "enet", "mtenet", "logit", "mlogit", "svc", "svr", "svo", "svp",
        "tree", "gnb", "mnb", "ftrl", "pca", "pls", "ica"]
WRAPPERS = ["mt", "mc", "platt"]

# design-model bounds: (pool, longest batch, most members, member values 0..MaxV); the thorough tier runs two shapes
MODEL = {"quick": [dict(P=2, MaxLen=2, NM=2, MaxV=1)],
         "thorough": [dict(P=2, MaxLen=3, NM=3, MaxV=1), dict(P=2, MaxLen=2, NM=2, MaxV=2)]}
GEN = {"quick": dict(Models=vlib.tla_set(BASE), Insts="{1, 2, 3}", P=4, NX=1, MaxLen=2, MaxLen32=2, Wrappers=vlib.tla_set(WRAPPERS), MockP=2,
                     Fts='{"f64"}', FullTabs="FALSE"),
       "thorough": dict(Models=vlib.tla_set(BASE), Insts="{1, 2, 3}", P=5, NX=2, MaxLen=3, MaxLen32=2, Wrappers=vlib.tla_set(WRAPPERS), MockP=2,
                        Fts='{"f64", "f32"}', FullTabs="TRUE")}
INVS = ["InvOnePerRow", "InvPerSample", "InvBack", "InvMT", "InvMC", "InvPlatt", "InvRowwise", "InvMCSet"]
ACTIONS = ["Begin", "DefaultTarget", "FillRow", "MTMember", "MTReshape", "MCMember", "MCStrip", "PlattMap", "Return"]
TRACE_CONST = dict(P=0, MaxLen=0, NM=0, MaxV=0)

FORMS = ["ref_arr", "own_arr", "ref_ds", "own_ds", "inplace", "dirty"]
LAYOUTS = ["c", "f", "rs", "rev", "cs"]
INFO = {  # model -> (nf, ot, views, row1, nonneg)
    "kmeans": (2, "lab", 1, 1, 0), "gmm": (2, "lab", 1, 0, 0), "ols": (2, "fx", 1, 0, 0), "isotonic": (1, "fx", 1, 0, 0),
    "tweedie": (2, "fx", 1, 0, 0), "enet": (2, "fx", 1, 0, 0), "mtenet": (2, "fx", 1, 0, 0), "logit": (2, "lab", 1, 0, 0),
    "mlogit": (2, "lab", 1, 0, 0), "svc": (2, "lab", 1, 1, 0), "svr": (2, "fx", 1, 1, 0), "svo": (2, "lab", 1, 1, 0),
    "svp": (2, "pr", 1, 1, 0), "tree": (2, "lab", 1, 0, 0), "gnb": (2, "lab", 1, 0, 0), "mnb": (2, "lab", 1, 0, 1),
    "ftrl": (2, "pr", 1, 0, 0), "pca": (3, "fx", 1, 0, 0), "pls": (3, "fx", 1, 0, 0), "ica": (2, "fx", 0, 0, 0)}


def width(m, inst):
    return 2 + inst % 2 if m == "mtenet" else 2 if m in ("pca", "ica", "pls") else 1


WIDE = ["ols", "enet", "mtenet", "svr", "tweedie", "pca", "pls", "ica"]   # types whose harness fit takes the feature count from the case


def random_cases(ctx, per_model, maxlen=64, npool=12):
    """Seeded larger batches of the same schema: pool of `npool` random quarter-unit rows (some duplicated),
    batches of up to `maxlen` ids, a random selection of store x form x layout calls, the batch permuted and halved.
    Regression / projection types also get wider records (5 or 9 features: unrolled dot-product kernels)."""
    r = ctx.rng
    out = []

    def prog_for(ids, views, row1):
        prog = [{"st": "own", "fm": "ref_arr", "ly": "c", "ids": [i]} for i in sorted(set(ids))]
        for _ in range(8):
            prog.append({"st": r.choice(["own", "view"] if views else ["own"]), "fm": r.choice(FORMS),
                         "ly": r.choice(LAYOUTS), "ids": ids})
        perm = list(ids)
        r.shuffle(perm)
        prog.append({"st": "own", "fm": "ref_arr", "ly": r.choice(LAYOUTS), "ids": perm})
        prog.append({"st": "own", "fm": "own_ds", "ly": r.choice(LAYOUTS), "ids": ids[: len(ids) // 2]})
        if row1:
            prog.append({"st": "view", "fm": "row1", "ly": r.choice(["c", "cs"]), "ids": ids})
        return prog

    def pool_for(nf, nonneg):
        lo = 0 if nonneg else -8      # -2.0 .. 4.5: rows below, inside and above the training range
        pool = [[r.randint(lo, 18) for _ in range(nf)] for _ in range(npool)]
        for _ in range(2):
            pool[r.randrange(npool)] = list(pool[r.randrange(npool)])
        # two extreme rows (1e2 .. 1e4 times the data scale, random signs per coordinate / per row)
        for _ in range(2):
            mag = r.choice([1200, 12000, 48000])
            sgn = r.choice([[1] * nf, [-1] * nf, [(-1) ** c for c in range(nf)]])
            row = [sg * (mag + r.randint(0, 40)) for sg in sgn]
            pool[r.randrange(npool)] = [abs(x) for x in row] if nonneg else row
        return pool

    def ids_for():
        n = r.choice([0, 1, 2, 5, 17, r.randint(3, maxlen), r.randint(3, maxlen)])
        return [r.randint(1, npool) for _ in range(n)]

    for m in BASE:
        nf0, ot, views, row1, nonneg = INFO[m]
        for _ in range(per_model):
            inst = r.randint(1, 3)
            nf = r.choice([nf0, 5, 9]) if m in WIDE else nf0
            out.append({"kind": "platt" if m == "svp" else "plain",
                        "inp": {"model": m, "inst": inst, "ft": "f64", "ot": ot, "mot": "fx", "nf": nf, "w": width(m, inst),
                                "nm": 1 if m == "svp" else 0, "mem": "self", "labels": [], "tab": [],
                                "pool": pool_for(nf, nonneg), "prog": prog_for(ids_for(), views, row1)}})
    for _ in range(per_model):
        inst = r.randint(1, 3)
        for kind, mem, nm, ot, mot, labels in [("mt", "real", 3, "fx", "fx", []), ("mt", "tree", 2, "lab", "lab", []),
                                               ("mc", "real", 3, "lab", "pr", [5, 6, 7]),
                                               ("platt", r.choice(["ols", "svr", "enet", "mock"]), 1, "pr", "fx", [])]:
            out.append({"kind": kind,
                        "inp": {"model": kind, "inst": inst, "ft": "f64", "ot": ot, "mot": mot, "nf": 2,
                                "w": nm if kind == "mt" else 1, "nm": nm, "mem": mem, "labels": labels, "tab": [],
                                "pool": pool_for(2, False), "prog": prog_for(ids_for(), 0, 0)}})
    return out


def order_random(ctx, cases):
    """one seeded random permutation of the 8-row order pool per (type, instance): a copy of the TLC-generated
    ascending case whose long batch is shuffled with ctx.rng (VERIF_SEED)"""
    out = []
    for c in cases:
        if c["inp"].get("fam") != "asc":
            continue
        perm = list(range(1, 9))
        ctx.rng.shuffle(perm)
        d = json.loads(json.dumps(c))
        d["inp"]["fam"] = "rand"
        for e in d["inp"]["prog"]:
            if len(e["ids"]) == 8:
                e["ids"] = perm
        out.append(d)
    return out


def nontrivial(case):
    """a case is non-trivial when its batch has >= 2 rows (order / duplicates / layout can matter)"""
    prog = case["inp"]["prog"]
    return max(len(c["ids"]) for c in prog) >= 2


def key(case):
    i = case["inp"]
    longest = max((c["ids"] for c in i["prog"]), key=len)
    return json.dumps([i["model"], i["inst"], i["ft"], i["mem"], i["nm"], i["tab"], i["pool"], longest])


def run(ctx):
    binp = vlib.cargo_build("c03")
    vlib.mc_elem(ctx)
    for consts in MODEL[ctx.tier]:
        vlib.tlc_mc(ctx, "Predict", {"constants": consts, "invariants": INVS}, coverage_actions=ACTIONS)
    cases = vlib.tlc_gen(ctx, "Gen_Predict", {"constants": GEN[ctx.tier], "invariants": ["Emit"]})
    ctx.exhaustive = True
    cases += order_random(ctx, cases)
    if not ctx.quick:
        cases += random_cases(ctx, 10)
    vlib.number(cases)
    ctx.cases = len(cases)
    ctx.nontrivial = len({key(c) for c in cases if nontrivial(c)})
    traces = vlib.run_harness(ctx, binp, cases)
    pick = lambda m, n: [t for t in traces if t["inp"]["model"] == m and max(len(c["ids"]) for c in t["inp"]["prog"]) == n][:1]
    smp = []
    for t in pick("mc", 2) + pick("svp", 1):
        t = dict(t)
        t["inp"] = dict(t["inp"], prog=t["inp"]["prog"][:3] + ["..."])
        t["ev"] = t["ev"][:8] + ["..."]
        smp.append(t)
    vlib.sample(ctx, smp)
    vlib.validate_with_findings(ctx, "Trace_Predict", traces, constants=TRACE_CONST, chunk=1500)
    ctx.rule = ("cases = predictor type (20 base types + multi-target / multi-class / Platt wrappers with real and mock members) "
                "x fitted instance (3) x every batch of pool ids up to the tier's length (empty, single, duplicates, all orders), "
                "enumerated by TLC (Gen_Predict); each case = the rows alone + the batch through every store x calling form x "
                "memory layout (up to 60 calls) + the single-observation API; plus, per type x instance, 7 orderings (ascending, "
                "descending, 3 zig-zags, a formula permutation, a seeded random permutation) of an 8-row pool with rows below / "
                "inside (5 segments) / above the training range and an extreme row, through 3-6 calls [+ seeded random batches <= 64 rows in the thorough "
                "tier]; non-trivial = batch of >= 2 rows; distinct by (type, instance, float type, members, pool, batch)")
    ctx.trusted = ["TLC + CommunityModules Json", "Elem tables (self-checked by MC_Elem in this run)",
                   "harness encoders and mock members (harness/src/bin/c03.rs)"]
    ctx.assumptions = ["float outputs are compared at 1e-6 absolute (f32: 2e-4) against the first value recorded for the row; unbounded "
                       "outputs of extreme rows (a coordinate beyond +-16) at 2e-3 absolute (f32: 2.0) because they are 1e2..1e4 times larger",
                       "training data are deterministic functions of (type, instance); the fitted model is a black box",
                       "Platt parameters are read from the model's Debug / serde rendering",
                       "ordinary query rows stay inside the training range, every pool also holds extreme rows (+-300 .. +-12000); an exact score tie between classes is generated only for "
                       "instance 4 of the two naive-Bayes types (mirror-image classes), where the statement still demands one label per sample"]
    return vlib.finish(ctx)


def replay(ctx, case):
    binp = vlib.cargo_build("c03")
    case = {k: v for k, v in case.items() if k != "ev"}
    traces = vlib.run_harness(ctx, binp, [case])
    ctx.cases = 1
    vlib.validate_with_findings(ctx, "Trace_Predict", traces, constants=TRACE_CONST)
    return vlib.finish(ctx)
