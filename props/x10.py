"""X10 -- step-level trace validation of the iterative clustering fits (extension; DESIGN.md section 12.4).

C09 / C10 judge the published result of k-means / Gaussian-mixture fits.  X10 binds the ITERATION to explicit
state machines through the verification hooks of docs/reports/X10-hook.diff (kmeans.init / .iter / .run_end /
.result, gmm.init / .iter / .run_end / .result; opt-in through the environment variable LINFA_VERIF_STEPS so that
the consumers of the kmeans.par / kmeans.red events see no new events):

(A) TLC model-checks the design models specs/X10Lloyd.tla (Lloyd / m_k-means with restarts, exact rational
    centroids: nearest assignment, update, stop rule, inertia never increases, termination inside the budgets,
    kept run = first arg-min) and specs/X10Em.tla (EM outer loop: convergence rule, budget, best-of-n_runs,
    Ok iff the kept run converged);
(B) TLC generates the cases (Gen_X10Lloyd: the C09 lattice families; Gen_X10Em: the C10 blob families);
(C) harness x10 runs each fit with the hooks on; Trace_X10Lloyd / Trace_X10Em replay every recorded event as
    an action of the design model.

On a tree without the hooks (detected from the sources) the cases carry hook = 0: no step events exist, the step
clauses are skipped (the evidence says so); k-means fits from precomputed centroids are then still judged by
letting the model run on its own and comparing what it publishes with the public result.
"""
import json
import os
import vlib

HOOKS = {
    "kmeans.iter": "algorithms/linfa-clustering/src/k_means/algorithm.rs",
    "gmm.run_end": "algorithms/linfa-clustering/src/gaussian_mixture/algorithm.rs",
}


def hooks_present():
    out = {}
    for name, rel in HOOKS.items():
        try:
            with open(os.path.join(vlib.REPO, rel)) as f:
                out[name] = ('\\"%s\\"' % name) in f.read()
        except OSError:
            out[name] = False
    return out


# (A) design models
L_MC = {"quick": dict(ScaleKind=1, MGrid=2, MN=3, MK=2, MIt=3, MRuns=2, MTols="{101, 102, 130}"),
        "thorough": dict(ScaleKind=1, MGrid=3, MN=3, MK=2, MIt=3, MRuns=3, MTols="{101, 102, 302, 130}")}
L_INVS = ["InvBudget", "InvExact", "InvNearest", "InvNearestEnd", "InvUpdate", "InvMonotone", "InvStop", "InvBest",
          "InvPublish"]
E_MC = {"quick": dict(MaxIt=3, MaxRuns=3), "thorough": dict(MaxIt=4, MaxRuns=3)}
E_INVS = ["InvBudget", "InvConverged", "InvBest", "InvResult"]

# (B) generators
L_GEN = {"quick": dict(Grid1=4, MaxN1=4, Grid2=2, MaxN2=3, MaxK=3, Variants=1, Seeds="{1, 2, 3}", LGrid=4, LMaxN=3),
         "thorough": dict(Grid1=4, MaxN1=5, Grid2=2, MaxN2=4, MaxK=3, Variants=2, Seeds="{1, 2, 3}", LGrid=4, LMaxN=4)}
# sample sizes per (family, initialiser)
L_SAMPLE = {"quick": {("short", "pre"): 650, ("short", "random"): 350, ("short", "kmpp"): 350, ("long", "pre"): 400},
            "thorough": {("short", "pre"): 9000, ("short", "random"): 4500, ("short", "kmpp"): 4500, ("long", "pre"): 4000}}
L_FULL_N = {"quick": 1, "thorough": 2}
E_GEN = {"quick": dict(Tier='"quick"', Thin=7), "thorough": dict(Tier='"thorough"', Thin=3)}
E_SAMPLE = {"quick": 400, "thorough": 4000}

L_CONST = dict(ScaleKind=2, MGrid=0, MN=0, MK=0, MIt=0, MRuns=0, MTols="{}")
E_CONST = dict(MaxIt=0, MaxRuns=0)


def select_km(ctx, cases):
    """all cases with n <= L_FULL_N, a seeded sample of the rest per (family, initialiser)"""
    keep, rest = [], {}
    for c in cases:
        i = c["inp"]
        if len(i["pts"]) <= L_FULL_N[ctx.tier]:
            keep.append(c)
        else:
            rest.setdefault((i["fam"], i["init"]), []).append(c)
    for fam in sorted(rest):
        lst = rest[fam]
        m = L_SAMPLE[ctx.tier].get(fam, 0)
        if len(lst) > m:
            lst = ctx.rng.sample(lst, m)
        keep += lst
    return keep


def random_km(ctx, count):
    """larger seeded cases of the same schema (thorough tier): n <= 7 on 0..8, short budgets (the exact centroids'
    denominators stay <= 8^3), or one-member / three-member clusters with long budgets"""
    r = ctx.rng
    out = []
    for _ in range(count):
        f = r.choice([1, 1, 2])
        n = r.randint(3, 7)
        k = r.randint(1, min(n, 3))
        g = 8 if f == 1 else 4
        pts = sorted([r.randint(0, g) for _ in range(f)] for _ in range(n))
        init = r.choice(["pre", "pre", "random", "kmpp"])
        c0 = [[r.randint(0, g) for _ in range(f)] for _ in range(k)] if init == "pre" else []
        tn, te = r.choice([(1, 30), (1, 1), (1, 2), (3, 2), (1, 3), (1, 4), (3, 4)])
        out.append({"kind": "km", "inp": {"fam": "random", "f": f, "pts": pts, "k": k, "init": init, "c0": c0,
                                          "seed": r.randint(1, 1000), "nruns": r.randint(1, 3), "maxit": r.randint(1, 3),
                                          "tn": tn, "te": te}})
    return out


def km_nontrivial(t, ok):
    """measured on the recorded events: the run made a real decision or met a boundary: a restart was discarded or
    replaced the best one, an iteration re-assigned an observation, a cluster was empty, the tolerance ended a run
    before its budget, or (no hooks) more than one centroid / restart was asked for"""
    if t["id"] not in ok:
        return False
    evs = t["ev"]
    if not t["inp"]["hook"]:
        return t["inp"]["k"] > 1 or t["inp"]["nruns"] > 1
    prev = None
    for e in evs:
        if e["ev"] == "kmeans.run_end" and (not e["kept"] or e["run"] > 1):
            return True
        if e["ev"] == "kmeans.iter":
            if e["dec"] == "converged" and e["it"] < e["maxit"]:
                return True
            if len(set(e["mem"])) < t["inp"]["k"]:
                return True
            if prev is not None and e["it"] > 1 and prev != e["mem"]:
                return True
            prev = e["mem"]
    return False


def attach_diag(ctx, module, traces, rejected, consts, tag):
    """rejected cases are re-run with the Stuck action for a diagnostic line"""
    if not rejected:
        return
    byid = {t["id"]: t for t in traces}
    devs = sorted({k["deviation"] for k in vlib.load_known(ctx.id)})
    _, fails = vlib.tlc_validate(ctx, module, [byid[i] for i in rejected[:200]], constants=consts,
                                 devs=devs, tag=tag, spec_next="TraceNext")
    new = []
    for (cid, path, diag) in ctx.violations:
        d = fails.get(cid, diag) if cid in byid else diag
        if d and d != diag:
            try:
                with open(path) as f:
                    rep = json.load(f)
                rep["diagnostics"] = d
                with open(path, "w") as f:
                    json.dump(rep, f, indent=1)
            except OSError:
                pass
        new.append((cid, path, d))
    ctx.violations = new


def validate_km(ctx, traces):
    ok, rejected = vlib.validate_with_findings(ctx, "Trace_X10Lloyd", traces, constants=L_CONST, chunk=4000,
                                               spec_next="TraceNextFast", tag="Trace_X10Lloyd")
    info = dict(getattr(ctx, "okinfo", {}))
    attach_diag(ctx, "Trace_X10Lloyd", traces, rejected, L_CONST, "Trace_X10Lloyd_diag")
    return ok, rejected, info


def validate_gm(ctx, traces):
    ok, rejected = vlib.validate_with_findings(ctx, "Trace_X10Em", traces, constants=E_CONST, chunk=4000,
                                               spec_next="TraceNextFast", tag="Trace_X10Em")
    info = dict(getattr(ctx, "okinfo", {}))
    attach_diag(ctx, "Trace_X10Em", traces, rejected, E_CONST, "Trace_X10Em_diag")
    return ok, rejected, info


def tagged(info, ok, name):
    return sum(1 for i in ok if any(name in s for s in info.get(i, ())))


def corrupt_km(ctx, traces, ok, info):
    """corrupted-trace self-test: one logged field of one event of accepted hooked traces is perturbed; every
    perturbed trace must be rejected (a field nobody reads is unbound).  Tool error otherwise."""
    cands = [t for t in traces if t["id"] in ok and t["inp"]["hook"] and not info.get(t["id"]) and len(t["ev"]) >= 5][:60]
    bad = []
    muts = ["mem", "cen", "inertia", "shift2", "dec", "kept", "it", "iters", "counts", "pub", "run", "bkey", "drop"]
    for q, t in enumerate(cands):
        t2 = json.loads(json.dumps(t))
        m = muts[q % len(muts)]
        evs = t2["ev"]

        def first(name, pred=lambda e: True):
            for e in evs:
                if e["ev"] == name and pred(e):
                    return e
            return None
        done = False
        if m == "mem":
            e = first("kmeans.iter", lambda e: t2["inp"]["k"] > 1)
            if e:
                e["mem"][0] = (e["mem"][0] + 1) % t2["inp"]["k"]
                done = True
        elif m == "cen":
            e = first("kmeans.iter")
            e["cen"][0][0] += 3
            done = True
        elif m == "inertia":
            e = first("kmeans.run_end")
            e["inertia"] += 40
            done = True
        elif m == "shift2":
            e = first("kmeans.iter", lambda e: t2["inp"]["te"] <= 10)
            if e:
                e["shift2"] += 40
                done = True
        elif m == "dec":
            e = first("kmeans.iter")
            e["dec"] = "continue" if e["dec"] != "continue" else "converged"
            done = True
        elif m == "kept":
            e = first("kmeans.run_end")
            e["kept"] = not e["kept"]
            done = True
        elif m == "it":
            e = first("kmeans.iter")
            e["it"] += 1
            done = True
        elif m == "iters":
            e = first("kmeans.run_end")
            e["iters"] += 1
            done = True
        elif m == "counts":
            e = first("kmeans.result")
            e["counts"][0]["i"] += 1
            done = True
        elif m == "pub":
            e = first("kmeans.result")
            e["pub"] += 40
            done = True
        elif m == "run":
            e = first("kmeans.init")
            e["run"] += 1
            done = True
        elif m == "bkey":
            e = first("kmeans.run_end")
            e["bkey"] = [e["bkey"][0], e["bkey"][1], e["bkey"][2] + 1]
            done = True
        elif m == "drop":
            for qi, e in enumerate(evs):
                if e["ev"] == "kmeans.iter":
                    del evs[qi]
                    done = True
                    break
        if done:
            t2["id"] = 900000 + q
            t2["_mut"] = m
            bad.append(t2)
    if not bad:
        return 0
    clean = [{k: v for k, v in t.items() if k != "_mut"} for t in bad]
    okb, _ = vlib.tlc_validate(ctx, "Trace_X10Lloyd", clean, constants=L_CONST, devs=[], tag="Trace_X10Lloyd_corrupt",
                               spec_next="TraceNextFast")
    slipped = [t["_mut"] for t in bad if t["id"] in okb]
    if slipped:
        raise vlib.ToolError("corrupted k-means traces were accepted (unbound fields: %s)" % sorted(set(slipped)))
    return len(bad)


def corrupt_gm(ctx, traces, ok, info):
    """the same self-test for the Gaussian-mixture traces"""
    cands = [t for t in traces if t["id"] in ok and t["inp"]["hook"] and not any("unjudged" in s for s in info.get(t["id"], ()))
             and t["ev"][-1].get("ok") and len(t["ev"]) >= 6][:40]
    muts = ["dec", "lb", "kept", "conv", "it", "run", "abskey", "bkey", "drop", "ok", "resconv", "ch"]
    bad = []
    for q, t in enumerate(cands):
        t2 = json.loads(json.dumps(t))
        m = muts[q % len(muts)]
        evs = t2["ev"]
        its = [e for e in evs if e["ev"] == "gmm.iter"]
        ends = [e for e in evs if e["ev"] == "gmm.run_end"]
        if m == "dec":
            its[-1]["dec"] = "continue" if its[-1]["dec"] == "converged" else "converged"
        elif m == "lb":
            if len(its) < 2:
                continue
            its[0]["lb"] += 5
        elif m == "kept":
            ends[0]["kept"] = not ends[0]["kept"]
        elif m == "conv":
            ends[0]["conv"] += 1
        elif m == "it":
            its[0]["it"] += 1
        elif m == "run":
            its[0]["run"] += 1
        elif m == "abskey":
            its[-1]["abskey"] = [4193280, 0, 0] if its[-1]["dec"] == "converged" else [2097152, 0, 0]
        elif m == "bkey":
            ends[0]["bkey"] = [ends[0]["bkey"][0], ends[0]["bkey"][1], ends[0]["bkey"][2] + 1]
        elif m == "drop":
            evs.remove(its[0])
        elif m == "ok":
            evs[-1]["ok"] = False
            evs[-1]["err"] = "NotConverged"
        elif m == "resconv":
            r = [e for e in evs if e["ev"] == "gmm.result"][0]
            r["conv"] = not r["conv"]
        elif m == "ch":
            e = [e for e in its if e["dnum"] and e["prevfin"]]
            if not e:
                continue
            e[0]["ch"] += 3
        t2["id"] = 950000 + q
        t2["_mut"] = m
        bad.append(t2)
    if not bad:
        return 0
    clean = [{k: v for k, v in t.items() if k != "_mut"} for t in bad]
    devs = sorted({k["deviation"] for k in vlib.load_known(ctx.id)})
    okb, _ = vlib.tlc_validate(ctx, "Trace_X10Em", clean, constants=E_CONST, devs=devs, tag="Trace_X10Em_corrupt",
                               spec_next="TraceNextFast")
    slipped = [t["_mut"] for t in bad if t["id"] in okb]
    if slipped:
        raise vlib.ToolError("corrupted Gaussian-mixture traces were accepted (unbound fields: %s)" % sorted(set(slipped)))
    return len(bad)


def run(ctx):
    binp = vlib.cargo_build("x10")
    hooks = hooks_present()
    ctx.extra["hooks_present_in_tree"] = hooks
    missing = sorted(h for h, v in hooks.items() if not v)
    if missing:
        vlib.log("hooks not in this tree: %s -> their step clauses are skipped" % ", ".join(missing))

    # (A)
    # (liveness `Terminates` in the thorough tier only: it triples the run time; the quick tier checks progress by the
    # deadlock check -- every state but "done" has a successor -- and the bounded counters of InvBudget)
    lcfg = {"constants": L_MC[ctx.tier], "invariants": L_INVS, "check_deadlock": True}
    if not ctx.quick:
        lcfg.update({"spec": "Spec", "properties": ["Terminates"]})
    vlib.tlc_mc(ctx, "X10Lloyd", lcfg, coverage_actions=["DStart", "DIterate", "DEndRun", "Publish"])
    have_em = os.path.exists(os.path.join(vlib.SPECS, "Trace_X10Em.tla"))
    if have_em:
        vlib.tlc_mc(ctx, "X10Em", {"spec": "Spec", "constants": E_MC[ctx.tier], "invariants": E_INVS,
                                   "properties": ["Terminates"], "check_deadlock": True},
                    coverage_actions=["DInit", "DNextRun", "EmIter", "EmRunEnd", "EmResult"])

    # (B)
    allkm = vlib.tlc_gen(ctx, "Gen_X10Lloyd", {"constants": L_GEN[ctx.tier], "invariants": ["Emit"]})
    km = select_km(ctx, allkm)
    ctx.extra["kmeans_cases_enumerated_by_tlc"] = len(allkm)
    if not ctx.quick:
        km += random_km(ctx, 3000)
    for c in km:
        c["inp"]["hook"] = 1 if hooks["kmeans.iter"] else 0
    gm = []
    if have_em:
        allgm = [c for c in vlib.tlc_gen(ctx, "Gen_X10Em", {"constants": E_GEN[ctx.tier], "invariants": ["XEmit"]})]
        gm = allgm if len(allgm) <= E_SAMPLE[ctx.tier] else ctx.rng.sample(allgm, E_SAMPLE[ctx.tier])
        ctx.extra["gmm_cases_enumerated_by_tlc"] = len(allgm)
        for c in gm:
            c["inp"]["hook"] = 1 if hooks["gmm.run_end"] else 0
    vlib.number(km)
    vlib.number(gm, start=len(km) + 1)
    ctx.cases = len(km) + len(gm)
    ctx.exhaustive = False

    # (C)
    ktr = vlib.run_harness(ctx, binp, km, tag="km", env={"LINFA_VERIF_STEPS": "1"})
    okk, rejk, infok = validate_km(ctx, ktr)
    okg, infog, gtr = set(), {}, []
    if gm:
        gtr = vlib.run_harness(ctx, binp, gm, tag="gm", env={"LINFA_VERIF_STEPS": "1"})
        okg, rejg, infog = validate_gm(ctx, gtr)

    # a hooked tree must deliver step events (hook removed or silent = tool error, never a verdict)
    if hooks["kmeans.iter"] and not any(len(t["ev"]) > 1 for t in ktr):
        raise vlib.ToolError("the tree contains the kmeans.iter hook but no step event was recorded")
    if gm and hooks["gmm.run_end"] and not any(len(t["ev"]) > 1 for t in gtr):
        raise vlib.ToolError("the tree contains the gmm.run_end hook but no step event was recorded")

    unj = tagged(infok, okk, "unjudged")
    nohook = tagged(infok, okk, "nohook") + tagged(infog, okg, "nohook")
    ctx.extra["kmeans_cases_left_unjudged_outside_the_exact_domain"] = unj
    ctx.extra["cases_validated_without_step_events"] = nohook
    if okk and unj * 2 > len(okk):
        raise vlib.ToolError("more than half of the k-means cases left the exact domain of the model (%d of %d)" % (unj, len(okk)))
    ctx.extra["step_events_replayed"] = sum(len(t["ev"]) - 1 for t in ktr + gtr
                                            if (t["id"] in okk or t["id"] in okg) and t["inp"]["hook"])
    ctx.extra["step_clauses"] = ("replayed" if all(hooks.values()) else
                                 "SKIPPED for " + ", ".join(missing) + " (hook not in this tree: no step events exist; "
                                 "k-means fits from precomputed centroids are judged by running the model silently, all "
                                 "other cases by the shape of the result only)")
    ncor = 0
    if hooks["kmeans.iter"] and not ctx.violations:
        ncor = corrupt_km(ctx, ktr, okk, infok)
    if gm and hooks["gmm.run_end"] and not ctx.violations:
        ncor += corrupt_gm(ctx, gtr, okg | set(ctx.known and [t["id"] for t in gtr if t["id"] not in okg and t["id"] not in {v[0] for v in ctx.violations}] or []), infog)
    ctx.extra["corrupted_traces_rejected"] = ncor

    judged = [t for t in ktr if t["id"] in okk and not any("unjudged" in s for s in infok.get(t["id"], ()))]
    ctx.nontrivial = len({json.dumps(t["inp"], sort_keys=True) for t in judged if km_nontrivial(t, okk)}) + \
        len({json.dumps(t["inp"], sort_keys=True) for t in gtr if t["id"] in okg and t["inp"]["runs"] > 1})
    vlib.sample(ctx, [t for t in ktr if t["id"] in okk and len(t["inp"]["pts"]) == 3 and t["inp"]["k"] == 2 and t["inp"]["nruns"] == 2][:1]
                + [t for t in gtr if t["id"] in okg][:1])
    ctx.rule = ("cases = single fits with the step hooks on: k-means on the C09 lattice families (Gen_X10Lloyd: sorted multisets of "
                "lattice points x k x initialiser (precomputed lattice centroids / random / k-means++) x n_runs 1..3 x budget x "
                "power-of-two tolerance; complete for n <= %d, seeded sample above) [+ seeded random n <= 7 in the thorough tier]"
                "%s; non-trivial (measured on the recorded events) = a restart was discarded or replaced the best one, an "
                "iteration re-assigned an observation, a cluster was empty, or the tolerance ended a run before its budget "
                "(no hooks: k > 1 or n_runs > 1); Gaussian mixture: n_runs > 1; distinct by input"
                % (L_FULL_N[ctx.tier], "; Gaussian mixtures on the C10 blob families (Gen_X10Em)" if gm else ""))
    ctx.trusted = ["TLC + CommunityModules Json", "hook call sites (docs/reports/X10-hook.diff: add-only, behind cfg(linfa_verif))",
                   "harness encoders (harness/src/bin/x10.rs: hook floats (bit patterns) -> fixed point 2^-16 / 2^-20 / 10^-6 and order keys)"]
    ctx.assumptions = [
        "k-means: f64, squared euclidean distance; exact rational centroids with denominators <= 512 (<= 4096 if powers of two): "
        "two different reduced distances then differ by >= 2^-36, far above f64 rounding, so the float comparison agrees with the "
        "exact one unless they tie; cases leaving that domain are accepted unjudged and counted",
        "exact ties: the code's tie-break (first centroid attaining the minimum) is demanded only where the float arithmetic is "
        "exact (all centroid denominators powers of two); any nearest centroid is accepted otherwise",
        "comparisons the fixed-point intervals do not decide (within 2^-20 * number of terms of a tie) are bound to the order keys of "
        "the values the code compared; the key rule (converged <=> shift < tolerance, kept <=> inertia < best) is demanded always",
        "Gaussian mixture: the lower-bound sequence is taken from the log (the model does not recompute likelihoods); what is bound "
        "is the control of the EM loop: change = lb - prev, converged <=> |change| < tolerance on the compared values, budget, "
        "best-of-n_runs (strictly greater, first-best), Ok <=> the kept run converged"]
    return vlib.finish(ctx)


def replay(ctx, case):
    binp = vlib.cargo_build("x10")
    hooks = hooks_present()
    case = dict(case)
    case.pop("ev", None)
    case["inp"] = dict(case["inp"])
    if case["kind"] == "km":
        case["inp"]["hook"] = 1 if hooks["kmeans.iter"] else 0
        traces = vlib.run_harness(ctx, binp, [case], env={"LINFA_VERIF_STEPS": "1"})
        ctx.cases = 1
        validate_km(ctx, traces)
    else:
        case["inp"]["hook"] = 1 if hooks["gmm.run_end"] else 0
        traces = vlib.run_harness(ctx, binp, [case], env={"LINFA_VERIF_STEPS": "1"})
        ctx.cases = 1
        validate_gm(ctx, traces)
    return vlib.finish(ctx)
