"""X12 -- step-level trace validation of the SMO solver (linfa-svm/src/solver_smo.rs), extension of C13 / X06.

C13 validates the published model (KKT conditions), X06 proves invariants of the shrinking bookkeeping.  X12 binds the
optimisation STEPS to an explicit state machine:

(A) specs/SmoStep.tla: one SMO iteration on EXACT rational arithmetic (integers over a common denominator that is reduced
    after every step; comparisons of second-order gains and objectives through big-number limbs) in the WSS2 form of the
    LIBSVM paper that the code documents.  TLC checks on all tiny instances and every tie resolution: feasibility after
    every step, gradient bookkeeping = Q a + p, selected pair is violating, every step moves and strictly decreases the
    objective, stop only when no violating pair beyond eps exists.  Seeded design bugs must each violate an invariant.
(B) specs/Gen_SmoStep.tla emits the very same instances as cases (the small lattice families of C13's Gen_Smo restricted
    to few points, dyadic C / nu / epsilon, integer kernel matrices).
(C) harness x12 fits them with the step hook on (docs/reports/X12-hook.diff: smo.select / smo.update / smo.skip / smo.stop
    / smo.rho); specs/Trace_SmoStep.tla replays every recorded step against the model: admissible selection (ties free),
    analytic update with clipping within the fixed-point slack, enabled stop, rho from the free variables, final state =
    written-back = published solution.
On a tree without the hook (detected from the sources) the cases carry hook = 0, the step clauses are skipped (the final
point must be feasible and a state in which the model's Stop is enabled) and the evidence says so.
"""
import copy
import json
import os
import vlib

INVS = ["InvFeas", "InvGrad", "InvViolating", "InvDecr", "InvStop"]
ACTIONS = ["Step", "Stop"]
ALLKINDS = ["csvc", "esvr", "oneclass", "nusvr", "nusvc"]
# seeded design bugs and the invariant each must violate (any of the listed ones: TLC reports the first it meets)
DESIGN_BUGS = {"noclip": ["InvFeas"], "ascent": ["InvFeas", "InvDecr"], "overshoot": ["InvDecr"], "gradstale": ["InvGrad"],
               "anypair": ["InvViolating", "InvDecr"], "stopearly": ["InvStop"]}
EPSK = 10
TRACE_CONST = {"Kinds": "{}", "MinN": 0, "MaxN": 0, "Lite": "TRUE", "EpsK": EPSK, "MedSeeds": "{}", "MedSizes": "{}",
               "MaxSteps": 0, "MaxE": 0, "Variant": '"ok"'}

TIER = {
    # design model: (kinds, MinN, MaxN) runs; generator: MinN, MaxN, Lite
    "quick": dict(mc=[(["csvc", "nusvc"], 2, 4), (["esvr", "oneclass", "nusvr"], 2, 4)],
                  gen=dict(MinN=2, MaxN=4, Lite="TRUE", med=("{1, 2, 3, 4}", "{6, 8}")), max_steps=24, max_e=256),
    "thorough": dict(mc=[(["csvc"], 2, 5), (["esvr", "oneclass", "nusvr", "nusvc"], 2, 5)],
                     gen=dict(MinN=2, MaxN=5, Lite="FALSE", med=("{1, 2, 3, 4, 5, 6, 7, 8}", "{6, 8, 10}")), max_steps=40, max_e=256),
}


def hook_present():
    try:
        with open(os.path.join(vlib.REPO, "algorithms/linfa-svm/src/solver_smo.rs")) as f:
            return '\\"smo.select\\"' in f.read()
    except OSError:
        return False


def consts(kinds, minn, maxn, lite, t, variant="ok", med=("{}", "{}")):
    return {"Kinds": vlib.tla_set(kinds), "MinN": minn, "MaxN": maxn, "Lite": lite, "EpsK": EPSK, "MedSeeds": med[0], "MedSizes": med[1],
            "MaxSteps": t["max_steps"], "MaxE": t["max_e"], "Variant": '"%s"' % variant}


def design_models(ctx):
    t = TIER[ctx.tier]
    for k, (kinds, lo, hi) in enumerate(t["mc"]):
        vlib.tlc_mc(ctx, "SmoStep", {"constants": consts(kinds, lo, hi, "TRUE" if ctx.quick else "FALSE", t),
                                     "invariants": INVS, "constraints": ["Bounded"]},
                    coverage_actions=ACTIONS if k == 0 else None, tag="SmoStep_mc%d" % k)
    # the invariants are not vacuous: every seeded design bug violates one of them
    rej = {}
    for variant, expect in DESIGN_BUGS.items():
        rc, lines = vlib.tlc(ctx, "SmoStep", {"constants": consts(["csvc"], 2, 3, "TRUE", t, variant), "invariants": INVS,
                                              "constraints": ["Bounded"]}, workers=4, tag="SmoStep_bug_" + variant)
        hit = [i for i in INVS if any(("Invariant %s is violated" % i) in l for l in lines)]
        if rc == 0 or not hit or hit[0] not in expect:
            raise vlib.ToolError("design model SmoStep: seeded design bug %s: expected a violation of %s, got rc=%d %s"
                                 % (variant, expect, rc, hit))
        rej[variant] = hit[0]
    ctx.extra["design_bugs_rejected_by_model"] = rej


def features(t):
    """measured on the recorded step events of a run"""
    tags = set()
    ups = [e for e in t["ev"] if e["ev"] == "smo.update"]
    if len(ups) >= 2:
        tags.add("several_steps")
    for u in ups:
        last = u["br"][1] or u["br"][0]
        if last:
            tags.add("clipped_step")
            tags.add("clip_%s_%d" % ("diff" if u["yi"] != u["yj"] else "same", last))
            if u["ci"] != u["cj"]:
                tags.add("clip_with_unequal_bounds_%d" % last)
        else:
            tags.add("newton_step")
        if u["qc"][0] == 0:
            tags.add("zero_curvature_pair")
        if u["yi"] != u["yj"]:
            tags.add("pair_of_different_sign")
        else:
            tags.add("pair_of_same_sign")
    sel = [e for e in t["ev"] if e["ev"] == "smo.select"]
    for s, nxt in zip(t["ev"], t["ev"][1:]):
        if s["ev"] == "smo.select" and nxt["ev"] == "smo.update" and not s["coarse"]:
            # at least two candidates j (I_low members other than i) -> the second-order choice was a choice
            y, st, i = s["y"], s["st"], s["i"]
            low = [q for q in range(s["nactive"]) if (st[q] != 0 if y[q] else st[q] != 2) and q != i]
            if len(low) >= 2:
                tags.add("second_order_choice_among_several")
    if any(e["ev"] == "smo.select" and e["nactive"] < e["n"] for e in t["ev"]):
        tags.add("active_set_shrunk")
    for r in (e for e in t["ev"] if e["ev"] == "smo.rho"):
        tags.add("rho_from_free_variables" if sum(r["nfree"]) else "rho_from_bound_midpoint")
    if sel and not ups:
        tags.add("optimal_at_start")
    return tags


NEED = ["several_steps", "clipped_step", "newton_step", "zero_curvature_pair", "pair_of_different_sign", "pair_of_same_sign",
        "second_order_choice_among_several", "rho_from_free_variables", "rho_from_bound_midpoint",
        # every reachable clipping branch of update(): pair of different / same sign x bound hit
        "clip_diff_1", "clip_diff_2", "clip_diff_3", "clip_diff_4", "clip_same_1", "clip_same_2", "clip_same_3", "clip_same_4",
        "clip_with_unequal_bounds_3", "clip_with_unequal_bounds_4", "active_set_shrunk"]


# ---------------------------------------------------------------------------------------------
# trace corruption self-test (development / selftest: VERIF_X12_CORRUPT=1): one logged field of one event of an accepted
# hooked trace is perturbed; the case must be rejected (a field nobody reads is unbound)

def _corruptions():
    def pair(f, d):
        def m(e):
            e[f][0] += d
        return m

    def plain(f, d):
        def m(e):
            e[f] += d
        return m

    def arr(f, k, d):
        def m(e):
            e[f][k] += d
        return m
    sel_go = lambda t, k: t["ev"][k]["ev"] == "smo.select" and t["ev"][k + 1]["ev"] == "smo.update"
    sel_opt = lambda t, k: t["ev"][k]["ev"] == "smo.select" and t["ev"][k + 1]["ev"] == "smo.stop"
    upd = lambda t, k: t["ev"][k]["ev"] == "smo.update"
    upd_q = lambda t, k: upd(t, k) and t["ev"][k]["qc"][0] > 0
    upd_clip = lambda t, k: upd(t, k) and (t["ev"][k]["br"][0] or t["ev"][k]["br"][1])
    upd_free = lambda t, k: upd(t, k) and not (t["ev"][k]["br"][0] or t["ev"][k]["br"][1]) and t["ev"][k]["qc"][0] > 0
    name = lambda n: (lambda t, k: t["ev"][k]["ev"] == n)

    def swap_ij(e):
        e["i"], e["j"], e["si"], e["sj"] = e["j"], e["i"], e["sj"], e["si"]
    return [
        ("select.pair_swapped", sel_go, swap_ij),
        ("select.gap", sel_go, pair("gap", 40)),
        ("select.gm1", sel_go, lambda e: e["gm"][0].__setitem__(0, e["gm"][0][0] + 40)),
        ("select.gm2", sel_go, lambda e: e["gm"][1].__setitem__(0, e["gm"][1][0] + 40)),
        ("select.gain", lambda t, k: sel_go(t, k) and t["ev"][k]["gain"][1] == 0 and t["ev"][k + 1]["qc"][0] > 0, pair("gain", -4000)),
        ("select.eps", sel_go, pair("eps", 5)),
        ("select.a", sel_go, arr("a", 0, 7)),
        ("select.g", sel_go, arr("g", 0, 40)),
        ("select.st", sel_go, lambda e: e["st"].__setitem__(0, (e["st"][0] + 1) % 3)),
        ("select.y", sel_go, lambda e: e["y"].__setitem__(0, 1 - e["y"][0])),
        ("select.as", sel_go, lambda e: e["as"].__setitem__(0, e["as"][1])),
        ("select.optimal.gap_dropped_update", lambda t, k: sel_go(t, k) and k + 2 < len(t["ev"]), None),   # drop the update that follows
        ("update.oi", upd, pair("oi", 9)),
        ("update.ni", upd, pair("ni", 9)),
        ("update.nj", upd, pair("nj", -9)),
        ("update.ci", upd, pair("ci", 1000)),
        ("update.gi", upd, pair("gi", 40)),
        ("update.gj", upd, pair("gj", 40)),
        ("update.qc", upd_q, pair("qc", 1000000)),
        ("update.delta", upd_q, pair("delta", 4000)),
        ("update.yi", upd, plain("yi", 0) if False else (lambda e: e.__setitem__("yi", 1 - e["yi"]))),
        ("update.si", upd, plain("si", 1)),
        ("update.br_cleared", upd_clip, lambda e: e.__setitem__("br", [0, 0])),
        ("update.br_set", upd_free, lambda e: e.__setitem__("br", [0, 3])),
        ("update.sti", upd, lambda e: e.__setitem__("sti", (e["sti"] + 1) % 3)),
        ("stop.why", name("smo.stop"), plain("why", 1)),
        ("stop.iter", name("smo.stop"), plain("iter", 1)),
        ("stop.a", name("smo.stop"), arr("a", 0, 7)),
        ("rho.rho", name("smo.rho"), pair("rho", 40)),
        ("rho.nfree", name("smo.rho"), arr("nfree", 0, 1)),
        ("writeback.out", name("smo.writeback"), arr("out", 0, 7)),
        # (the published coefficients / rho of nu-classification are rescaled by 1/r and left to C13)
        ("fit.alpha", lambda t, k: t["kind"] != "nusvc" and t["ev"][k]["ev"] == "fit" and t["ev"][k]["alpha"], arr("alpha", 0, 7)),
        ("fit.rho", lambda t, k: t["kind"] != "nusvc" and t["ev"][k]["ev"] == "fit", pair("rho", 3)),
        ("fit.r", lambda t, k: t["kind"] == "nusvc" and t["ev"][k]["ev"] == "fit", pair("r", 3)),
        ("fit.iters", name("fit"), plain("iters", 1)),
    ]


def corrupt_selftest(ctx, traces, ok, per=3):
    out, jobs, nid = {}, [], 10 ** 6
    pool0 = [t for t in traces if t["inp"]["hook"] and t["id"] in ok]
    for tag, pred, mut in _corruptions():
        cand = []
        for t in pool0:
            ks = [k for k in range(len(t["ev"]) - 1) if pred(t, k)]
            if ks:
                cand.append((t, ks[len(ks) // 2]))
        cand.sort(key=lambda x: (len(x[0]["ev"]), x[0]["id"]))
        chosen = cand[:: max(1, len(cand) // per)][:per]
        for t, k in chosen:
            t2 = copy.deepcopy(t)
            if mut is None:
                del t2["ev"][k + 1]
            else:
                mut(t2["ev"][k])
            nid += 1
            t2["id"] = nid
            jobs.append((tag, t2))
        out[tag] = {"tried": len(chosen), "rejected": 0}
    ctl = []
    for _, t in jobs[::9]:
        o = copy.deepcopy([x for x in pool0 if x["inp"] == t["inp"] and x["kind"] == t["kind"]][0])
        nid += 1
        o["id"] = nid
        ctl.append(o)
    okc, _ = vlib.tlc_validate(ctx, "Trace_SmoStep", ctl, constants=TRACE_CONST, tag="Trace_SmoStep_corrupt_control", devs=[])
    if len(okc) != len(ctl):
        raise vlib.ToolError("trace corruption self-test: an unmodified control copy was rejected")
    okx, _ = vlib.tlc_validate(ctx, "Trace_SmoStep", [t for _, t in jobs], constants=TRACE_CONST, tag="Trace_SmoStep_corrupt", devs=[])
    for tag, t in jobs:
        if t["id"] not in okx:
            out[tag]["rejected"] += 1
    unbound = sorted(tag for tag, v in out.items() if v["tried"] and v["rejected"] < v["tried"])
    untried = sorted(tag for tag, v in out.items() if not v["tried"])
    ctx.extra["trace_corruption"] = {"fields": len(out), "corrupted_traces": sum(v["tried"] for v in out.values()),
                                     "rejected": sum(v["rejected"] for v in out.values()), "accepted_although_corrupted": unbound,
                                     "unmodified_control_copies_accepted": len(ctl), "no_trace_with_event": untried}
    vlib.log("trace corruption: %d corrupted traces, %d rejected; accepted: %s; untried: %s"
             % (sum(v["tried"] for v in out.values()), sum(v["rejected"] for v in out.values()), unbound, untried))
    return unbound


def random_cases(ctx, count):
    """seeded larger cases of the same schema (thorough tier): overlapping 2-D lattice sets on -2..2 with label / target noise
    and duplicates, 6..12 solver variables, dyadic box parameters, eps = 2^-10 / 2^-14 / 2^-19, shrinking on and off.  Long runs
    exceed the 192-iteration cap of the hook (coarse logging: smo.skip).  Magnitudes keep every product of Trace_SmoStep
    inside 31 bits (C <= 4, |K| <= 9, <= 12 variables)."""
    r = ctx.rng
    out = []
    one = [1, 1]
    while len(out) < count:
        kind = r.choice(["csvc", "csvc", "csvc", "esvr", "esvr", "oneclass", "nusvr", "nusvc"])
        nv = r.choice([6, 8, 10, 12])
        n = nv // 2 if kind in ("esvr", "nusvr") else nv
        x = [[r.randint(-2, 2), r.randint(-2, 2)] for _ in range(n)]
        if r.random() < 0.3:
            for _ in range(max(1, n // 4)):
                x[r.randrange(n)] = list(x[r.randrange(n)])
        kern = r.choice([{"k": "lin", "c": 0, "d": 1}, {"k": "poly", "c": 1, "d": 1}])
        cp, cn, nu, c, le = one, one, [1, 2], one, [1, 2]
        cs = [[1, 4], [1, 2], [1, 1], [2, 1], [4, 1]]
        if kind in ("csvc", "nusvc"):
            flip = r.choice([0.0, 0.15, 0.3])
            y = [1 if (p[0] + p[1] > r.choice([0, 0, 1])) != (r.random() < flip) else 0 for p in x]
            if sum(y) in (0, n):
                y[0] = 1 - y[0]
            if kind == "csvc":
                cp, cn = r.choice(cs), r.choice(cs)
            else:
                feas = [v for v in ([1, 4], [1, 2], [3, 4]) if v[0] * n < 2 * v[1] * min(sum(y), n - sum(y))]
                if not feas:
                    continue
                nu = r.choice(feas)
        elif kind == "oneclass":
            y = [1] * n
            nu = r.choice([[1, 4], [1, 2], [3, 4]])
        else:
            y = [p[0] - p[1] + r.randint(-1, 1) for p in x]
            c = r.choice([[1, 2], [1, 1], [2, 1], [4, 1]])
            le = r.choice([[1, 4], [1, 2]])
            nu = r.choice([[1, 4], [1, 2]])
        out.append({"kind": kind, "inp": {"x": x, "y": y, "dim": 2, "kern": kern, "cp": cp, "cn": cn, "nu": nu, "c": c, "le": le,
                                          "shr": r.random() < 0.5, "epsk": r.choice([10, 14, 19])}})
    return out


def prepare(case, hook):
    case["inp"]["hook"] = 1 if hook else 0
    return case


def run(ctx):
    binp = vlib.cargo_build("x12")
    t = TIER[ctx.tier]
    hook = hook_present()
    ctx.extra["hook_in_source"] = hook
    if not hook:
        vlib.log("linfa-svm of this tree does not carry the X12 step hook: the step clauses are skipped")
    skip_mc = os.environ.get("VERIF_X12_SKIP_MC") == "1" and vlib.REPO != "/repo"     # development knob (mutant runs)
    if not skip_mc:
        design_models(ctx)
    g = t["gen"]
    cases = vlib.tlc_gen(ctx, "Gen_SmoStep", {"init": "GInit", "next": "GNext",
                                              "constants": consts(ALLKINDS, g["MinN"], g["MaxN"], g["Lite"], t, med=g["med"]),
                                              "invariants": ["Emit"]})
    ctx.exhaustive = ctx.quick      # quick: every instance of the bounded domain is executed (thorough adds seeded samples)
    ctx.extra["cases_enumerated_by_tlc"] = len(cases)
    if not ctx.quick:
        cases += random_cases(ctx, 600)
    for c in cases:
        prepare(c, hook)
    vlib.number(cases)
    ctx.cases = len(cases)
    traces = vlib.run_harness(ctx, binp, cases, timeout=1200)
    nstep = sum(1 for tr in traces for e in tr["ev"] if e["ev"] in ("smo.select", "smo.update"))
    if hook and nstep == 0:
        raise vlib.ToolError("linfa-svm carries the X12 step hook but no step event was recorded (guard off / switch not read)")
    ok, rejected = vlib.validate_with_findings(ctx, "Trace_SmoStep", traces, constants=TRACE_CONST, chunk=4000)
    info = getattr(ctx, "okinfo", {})
    feats, nontriv = {}, set()
    for tr in traces:
        if tr["id"] not in ok:
            continue
        if hook:
            tg = features(tr)
            for x in tg:
                feats[x] = feats.get(x, 0) + 1
            if "several_steps" in tg:
                nontriv.add(json.dumps([tr["kind"], tr["inp"]], sort_keys=True))
        elif any(e["ev"] == "fit" and e.get("ok") and e["iters"] >= 2 for e in tr["ev"]):
            nontriv.add(json.dumps([tr["kind"], tr["inp"]], sort_keys=True))
    ctx.nontrivial = len(nontriv)
    ctx.extra.update({
        "by_kind": {k: sum(1 for tr in traces if tr["kind"] == k) for k in sorted({tr["kind"] for tr in traces})},
        "step_events_recorded": nstep,
        "step_events_replayed": sum(1 for tr in traces if tr["id"] in ok for e in tr["ev"] if e["ev"].startswith("smo.")) if hook else 0,
        "cases_validated_without_step_events": sum(1 for i in ok if any("nosteps" in s for s in info.get(i, ()))),
        "cases_with_coarse_logging_beyond_cap": sum(1 for tr in traces if any(e["ev"] == "smo.skip" for e in tr["ev"])),
        "max_iterations": max([e["iters"] for tr in traces for e in tr["ev"] if e["ev"] == "fit" and e.get("ok")] or [0]),
        "accepted_case_features": feats,
        "step_clauses": ("replayed" if hook else
                         "SKIPPED: linfa-svm of this tree emits no smo.select/update/stop/rho events (docs/reports/X12-hook.diff "
                         "not applied); only feasibility of the final point and enabledness of the model's Stop were checked"),
    })
    if hook and not rejected:
        for n in NEED:
            if feats.get(n, 0) == 0:
                raise vlib.ToolError("vacuity: no accepted case with feature %s" % n)
    if hook and not rejected and (os.environ.get("VERIF_X12_CORRUPT") == "1" or (not ctx.quick and vlib.REPO == "/repo")):
        v0 = ctx.validated
        unbound = corrupt_selftest(ctx, traces, ok)
        ctx.validated = v0
        if unbound:
            raise vlib.ToolError("trace corruption accepted (unbound fields): %s" % ", ".join(unbound))
    vlib.sample(ctx, [tr for tr in traces if tr["kind"] == "csvc" and len(tr["inp"]["x"]) == 3 and len(tr["ev"]) > 8][:1]
                + [tr for tr in traces if tr["kind"] == "esvr"][:1])
    ctx.rule = ("cases = every instance of the bounded domain SmoStep!Inputs (the domain on which the design model is model-checked): "
                "all sorted multisets of labelled 1-D lattice points {-1,0,1} x {0,1} of the tier's sizes (both labels present) x kernel "
                "(linear, <x,x'>+1[, (<x,x'>+1)^2]) x dyadic (C+, C-) incl. unequal weights; epsilon-/nu-regression on 1..n-1 points "
                "(2 variables per point), one-class on {-1,0,2}, nu-classification (feasible nu); eps = 2^-10, shrinking off; "
                "non-trivial = an accepted run with at least two logged update steps (hooked tree) resp. at least two iterations "
                "(tree without the hook); distinct by input")
    ctx.trusted = ["TLC + CommunityModules Json", "hook call sites (docs/reports/X12-hook.diff: add-only, behind cfg(linfa_verif), opt-in at run time)",
                   "harness encoders (harness/src/bin/x12.rs: fixed point 1e6 with finiteness flag)",
                   "big-number limb arithmetic of SmoStep.tla (BMul/BCmp; exercised by the design model's InvDecr on every step)"]
    ctx.assumptions = [
        "alphas are observed in fixed point 1e-6; the model adopts the logged alphas after each checked step, so its gradient differs from "
        "the solver's by at most Dl = max_t sum_s |Q_ts| / 2 + 2 units; every comparison is widened by that interval, a near-tie inside it is a tie",
        "ties between maximal violators / equal second-order gains / simultaneous clipping bounds are not prescribed",
        "a non-positive curvature is replaced by tau = 1e-10 as in the LIBSVM paper; in the exact design model such a step runs into the box",
        "shrinking is off in the generated cases (the bookkeeping layer is C13 / X06); eps = 2^-10, far above the fixed-point slack",
        "at most 192 iterations of a run are logged step by step (coarse logging beyond: smo.skip, the model re-synchronises on the next "
        "snapshot); no generated case reaches the cap",
        "termination is not decided; a harness timeout is a tool error",
    ]
    return vlib.finish(ctx)


def replay(ctx, case):
    binp = vlib.cargo_build("x12")
    case = {"id": case.get("id", 1), "kind": case["kind"], "inp": dict(case["inp"])}
    prepare(case, hook_present())
    traces = vlib.run_harness(ctx, binp, [case])
    ctx.cases = 1
    vlib.validate_with_findings(ctx, "Trace_SmoStep", traces, constants=TRACE_CONST)
    return vlib.finish(ctx)
