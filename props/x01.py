"""X01 -- isotonic regression is the monotone least-squares fit (extension; algorithms/linfa-linear/src/isotonic.rs).

(A) TLC model-checks specs/Isotonic.tla: pool-adjacent-violators as a state machine over a list of blocks, once with
    an arbitrary merge order (confluence) and once in the schedule of Best & Chakravarti that linfa implements
    (Advance / MergeNext / MergeBack); every terminal state is the max-min solution, the number of steps is bounded,
    the run always reaches "done" (temporal property), and the max-min formula has the consequences of its definition
    (monotone, = min-max, KKT of the cone projection, brute-force optimal on a half-integer grid, mirror image).
(B) TLC (specs/Gen_Isotonic.tla) enumerates the data sets (all orders of x, duplicates, weights, both directions,
    shape mismatches); the thorough tier adds seeded random data sets of the same schema.
(C) harness/src/bin/x01.rs runs IsotonicRegression on them; specs/Trace_Isotonic.tla validates knots and predictions
    against the same relation.
"""
import copy, os
import vlib

MODEL = {"quick": [dict(MaxN=4, MaxY=2, MaxW=2)],
         "thorough": [dict(MaxN=5, MaxY=2, MaxW=2), dict(MaxN=4, MaxY=3, MaxW=2), dict(MaxN=7, MaxY=2, MaxW=1)]}
GEN = {"quick": dict(NA=3, XA=3, YA=3, NP=4, YP=2, NT=4, YT=2, NW=4, YW=2, WS="{1, 3}", NL=5, YL=2, NF=3),
       "thorough": dict(NA=4, XA=3, YA=3, NP=4, YP=3, NT=5, YT=2, NW=4, YW=3, WS="{1, 3}", NL=6, YL=3, NF=3)}
INVS = ["InvPartition", "InvSteps", "InvBestPrefix", "InvHull", "InvTerminal", "InvProgress", "InvMonotone",
        "InvMaxMinMinMax", "InvMirror", "InvKKT", "InvBrute", "InvKnots"]
ACTIONS = ["PickN", "PickY", "PickW", "Start", "MergeAny", "FinishAny", "Advance", "MergeNext", "MergeBack", "BackDone", "FinishBest"]
TRACE_CONST = dict(MaxN=0, MaxY=0, MaxW=0)
TRACE_MODULE = "Trace_Isotonic"


def random_cases(ctx, count):
    """seeded random data sets of the same schema: n <= 8, abscissae 1..6 in any order with duplicates,
    targets 0..5, weights 1..3 or none (all sums stay far inside TLC's 32-bit integers)"""
    r = ctx.rng
    out = []
    for _ in range(count):
        n = r.randint(2, 8)
        style = r.random()
        if style < 0.35:                                   # distinct abscissae, any order
            x = r.sample(range(1, 9), n)
        elif style < 0.5:                                  # distinct and sorted (either way)
            x = sorted(r.sample(range(1, 9), n), reverse=r.random() < 0.5)
        else:                                              # duplicates
            x = [r.randint(1, 6) for _ in range(n)]
        trend = r.choice([-1, 0, 1])                       # noisy trend so that long chains of poolings occur
        if trend == 0:
            y = [r.randint(0, 5) for _ in x]
        else:
            y = [min(5, max(0, (xi if trend > 0 else 9 - xi) // 2 + r.randint(-2, 2))) for xi in x]
        w = [r.randint(1, 3) for _ in range(n)] if r.random() < 0.5 else []
        out.append({"kind": "fit", "inp": {"x": x, "y": y, "w": w, "q": list(range(1, 2 * max(x) + 2, 2)) + list(range(2 * max(x) + 2, 0, -2)),
                                          "ty": "f32" if r.random() < 0.15 else "f64"}})
    return out


def _cov_sign(c):
    x, y = c["inp"]["x"], c["inp"]["y"]
    n = len(x)
    v = n * sum(a * b for a, b in zip(x, y)) - sum(x) * sum(y)
    return (v > 0) - (v < 0)


def nontrivial(c):
    """a data set on which something has to be pooled: it is not already monotone in its direction along sorted x"""
    if c["kind"] != "fit":
        return False
    x, y = c["inp"]["x"], c["inp"]["y"]
    s = _cov_sign(c)
    pairs = sorted(zip(x, y))
    ys = [p[1] for p in pairs]
    if s >= 0 and all(a <= b for a, b in zip(ys, ys[1:])):
        return False
    if s <= 0 and all(a >= b for a, b in zip(ys, ys[1:])):
        return False
    return True


def corrupted_traces(traces, ok):
    """binding self-test (X01_CORRUPT=1): one logged field of an accepted trace is perturbed at a time; the trace
    specification has to reject every one of them (a field whose corruption goes unnoticed is unbound)"""
    base = next(t for t in traces if t["id"] in ok and t["kind"] == "fit" and t["inp"]["ty"] == "f64"
                and len(t["ev"]) == 2 and len(t["ev"][0]["r"]) >= 3 and t["ev"][0]["r"] == sorted(t["ev"][0]["r"]))
    sh_pred = next(t for t in traces if t["id"] in ok and t["kind"] == "shape" and t["inp"]["what"] == "pred_len")
    sh_fit = next(t for t in traces if t["id"] in ok and t["kind"] == "shape" and t["inp"]["what"] == "fit_len")
    out = []

    def add(t, name, f):
        t = copy.deepcopy(t)
        f(t)
        t["id"] = 900000 + len(out)
        out.append((name, t))

    def bump(ev, field, pos, d):
        return lambda t: t["ev"][ev][field].__setitem__(pos, t["ev"][ev][field][pos] + d)
    add(base, "first knot value + 5e-6", bump(0, "v", 0, 5))
    add(base, "middle knot value - 5e-6", bump(0, "v", 1, -5))
    add(base, "last knot value + 5e-6", bump(0, "v", -1, 5))
    add(base, "middle knot abscissa - 1", bump(0, "r", 1, -1))
    add(base, "last knot dropped", lambda t: (t["ev"][0]["r"].pop(), t["ev"][0]["v"].pop()))
    add(base, "knot abscissae not exact", lambda t: t["ev"][0].__setitem__("rexact", False))
    for pos in range(len(base["ev"][1]["p"])):
        add(base, "prediction %d + 5e-6" % pos, bump(1, "p", pos, 5))
    add(base, "one prediction missing", lambda t: t["ev"][1]["p"].pop())
    add(base, "no prediction event", lambda t: t["ev"].pop())
    add(base, "fit reported as error", lambda t: t["ev"][0].__setitem__("res", "err"))
    add(base, "prediction reported as panic", lambda t: t["ev"][1].__setitem__("res", "panic"))
    add(sh_pred, "mismatching predict buffer accepted", lambda t: t["ev"][1].__setitem__("res", "ok"))
    add(sh_fit, "mismatching targets accepted", lambda t: t["ev"][0].__setitem__("res", "ok"))
    return out


def run(ctx):
    binp = vlib.cargo_build("x01")
    for consts in MODEL[ctx.tier]:
        vlib.tlc_mc(ctx, "Isotonic", {"spec": "Spec", "constants": consts, "invariants": INVS,
                                      "properties": ["Termination"]}, coverage_actions=ACTIONS)
    cases = vlib.tlc_gen(ctx, "Gen_Isotonic", {"constants": GEN[ctx.tier], "invariants": ["Emit"]})
    ctx.exhaustive = True
    if not ctx.quick:
        cases += random_cases(ctx, 6000)
    vlib.number(cases)
    ctx.cases = len(cases)
    ctx.nontrivial = len({vlib.json.dumps(c["inp"], sort_keys=True) for c in cases if nontrivial(c)})
    traces = vlib.run_harness(ctx, binp, cases)
    vlib.sample(ctx, [t for t in traces if t["kind"] == "fit" and t["inp"]["x"] == [1, 2, 3, 4] and t["inp"]["y"] == [0, 2, 2, 1]][:1]
                + [t for t in traces if t["kind"] == "fit" and t["inp"]["w"] and nontrivial(t)][:1]
                + [t for t in traces if t["kind"] == "shape"][:1])
    ok, _rej = vlib.validate_with_findings(ctx, TRACE_MODULE, traces, constants=TRACE_CONST, chunk=20000)
    if os.environ.get("X01_CORRUPT"):
        cor = corrupted_traces(traces, ok)
        devs = sorted({k["deviation"] for k in vlib.load_known(ctx.id)})
        ok2, _f = vlib.tlc_validate(ctx, TRACE_MODULE, [t for _, t in cor], constants=TRACE_CONST, devs=devs, tag="corrupt")
        unbound = [name for name, t in cor if t["id"] in ok2]
        vlib.log("corrupted traces: %d, accepted: %s" % (len(cor), unbound or "none"))
        ctx.extra["corrupted_traces_rejected"] = "%d of %d" % (len(cor) - len(unbound), len(cor))
        if unbound:
            raise vlib.ToolError("corrupted trace accepted (unbound field): %s" % unbound)
    ctx.extra["by_direction"] = {"increasing": sum(1 for c in cases if c["kind"] == "fit" and _cov_sign(c) > 0),
                                 "decreasing": sum(1 for c in cases if c["kind"] == "fit" and _cov_sign(c) < 0),
                                 "open (zero covariance)": sum(1 for c in cases if c["kind"] == "fit" and _cov_sign(c) == 0)}
    ctx.rule = ("cases = every data set of the bounded families of Gen_Isotonic (all x in 1..3 with n <= 3/4, all "
                "permutations of 1..4 as x, monotone x with duplicates, weighted chains, chains of 5/6, f32), each with all "
                "targets over a small range, enumerated by TLC, plus the shape mismatches [+ seeded random n <= 8 in the "
                "thorough tier]; non-trivial = the targets are not already monotone in the fit's direction along sorted x "
                "(something has to be pooled); distinct by input")
    ctx.trusted = ["TLC + CommunityModules Json", "harness encoders (harness/src/bin/x01.rs: fixed point 1e6, serde view of the private knots)",
                   "lemma: pooling samples of equal abscissa by their weighted mean does not change the minimiser over functions of x"]
    ctx.assumptions = ["direction = sign of the unweighted covariance of x and y (as coded); zero covariance accepts either direction",
                       "numerical slack 2e-6 (f64) / 4e-5 (f32) on knot values and predictions; distinct candidate values differ by >= 2e-3 on the generated domain",
                       "a rejection may be an Err or a panic (the crate's tests pin panics for shape mismatches)",
                       "how many knots a level set of the fit gets and whether the knot list ascends or descends are not prescribed"]
    return vlib.finish(ctx)


def replay(ctx, case):
    binp = vlib.cargo_build("x01")
    traces = vlib.run_harness(ctx, binp, [case])
    ctx.cases = 1
    vlib.validate_with_findings(ctx, TRACE_MODULE, traces, constants=TRACE_CONST)
    return vlib.finish(ctx)
