"""C19 -- Serialised models and parameters deserialise to behaviourally identical values (DESIGN.md 8/C19)."""
import vlib

MODEL = {"quick": dict(Vals="{0, 1, 2}", MaxH=3, Scenario='"faithful"'),
         "thorough": dict(Vals="{0, 1, 2}", MaxH=4, Scenario='"faithful"')}
# unfaithful codecs: each must violate the property predicates (the predicates are not vacuous)
NEGATIVE = ["skipfield", "rename", "noguard", "skipmiddle"]
GEN = {"quick": dict(MaxData=1, MaxChain=2, MaxWideChain=2), "thorough": dict(MaxData=3, MaxChain=3, MaxWideChain=2)}
INVS = ["InvTwins", "InvDecodes", "InvSameVal", "InvVerdict", "InvGuard", "InvIncremental"]
ACTIONS = ["Observe", "RoundTrip", "Rearm"]
TRACE_CONST = dict(Vals="{}", MaxH=0, Scenario='"trace"')


def negative_runs(ctx):
    """The design model with an unfaithful schema must violate TwinsAgree / decodability: TLC has to
    find the counterexample (rc 12). A run that passes means the predicates cannot see that change."""
    for sc in NEGATIVE:
        cfg = {"constants": dict(Vals="{0, 1, 2}", MaxH=3, Scenario='"%s"' % sc), "invariants": ["InvTwins", "InvDecodes"]}
        rc, lines = vlib.tlc(ctx, "Persist", cfg, workers=2, tag="Persist_neg_" + sc)
        viol = [l for l in lines if l.startswith("Error: Invariant")]
        if rc != 12 or not viol:
            raise vlib.ToolError("design model Persist: unfaithful schema %s is not rejected (rc=%d)" % (sc, rc))
        ctx.extra.setdefault("negative_design_runs", {})[sc] = viol[0].replace("Error: ", "")
        vlib.log("MC Persist[%s]: %s (expected)" % (sc, viol[0]))


def random_cases(ctx, count):
    """seeded cases of the same schema: larger data seeds, longer alternating chains"""
    import json, os
    base = vlib.tlc_gen(ctx, "Gen_Persist", {"constants": dict(MaxData=1, MaxChain=1, MaxWideChain=1), "invariants": ["Emit"]}, tag="Gen_Persist_base")
    heads = {}
    for c in base:
        i = c["inp"]
        heads[(c["kind"], i["type"], i["ft"], i["var"], i["wide"])] = 1
    heads = sorted(heads)
    out = []
    r = ctx.rng
    for _ in range(count):
        kind, ty, ft, var, wide = r.choice(heads)
        n = r.randint(1, 4)
        first = r.choice(["bincode", "json"])
        fm = [first if k % 2 == 0 else ("json" if first == "bincode" else "bincode") for k in range(n)]
        if r.random() < 0.3:
            fm = [r.choice(["bincode", "json"]) for _ in range(n)]
        out.append({"kind": kind, "inp": {"type": ty, "ft": ft, "var": var, "data": r.randint(4, 400), "wide": wide, "fmts": fm}})
    return out


# ---------------------------------------------------------------------------------------------
# isolated-feature probe (thorough tier): does every catalogue type implement Serialize and
# DeserializeOwned when *only its own crate's* `serde` feature is switched on?  (In the harness all
# crates are built together, so a dependency feature that one crate forgets to forward -- e.g.
# rand_xoshiro/serde1 -- is switched on by another crate and the omission is invisible.)
# One tiny probe crate per linfa crate, built one at a time (resolver 2: features are only unified
# inside one build), prints for each type whether the impls exist (inherent-const-beats-trait-const
# probe, no linfa code is executed).  TLC judges the recorded `offer` events (Trace_Persist.TOffer).

X = "rand_xoshiro::Xoshiro256Plus"
ISO = {
    "linfa": ("", ["linfa"], {
        "Error": ["linfa::Error"], "Error.NdShape": ["linfa::Error"], "Error.api": ["linfa::Error"], "Error.sweep": ["linfa::Error"],
        "PlattError.sweep": ["linfa::composing::platt_scaling::PlattError"],
        "PlattError": ["linfa::composing::platt_scaling::PlattError"]}),
    "linfa-nn": ("algorithms/linfa-nn", [], {
        "L1Dist": ["linfa_nn::distance::L1Dist"], "L2Dist": ["linfa_nn::distance::L2Dist"],
        "LInfDist": ["linfa_nn::distance::LInfDist"], "LpDist": ["linfa_nn::distance::LpDist<f32>", "linfa_nn::distance::LpDist<f64>"],
        "KdTree": ["linfa_nn::KdTree"], "BallTree": ["linfa_nn::BallTree"], "LinearSearch": ["linfa_nn::LinearSearch"],
        "CommonNearestNeighbour": ["linfa_nn::CommonNearestNeighbour"]}),
    "linfa-clustering": ("algorithms/linfa-clustering", ["linfa-nn", "rand_xoshiro"], {
        "Dbscan": ["linfa_clustering::Dbscan"], "Optics": ["linfa_clustering::Optics"],
        "GmmCovarType": ["linfa_clustering::GmmCovarType"], "GmmInitMethod": ["linfa_clustering::GmmInitMethod"],
        "KMeansInit": ["linfa_clustering::KMeansInit<f32>", "linfa_clustering::KMeansInit<f64>"],
        "KMeansParams": ["linfa_clustering::KMeansParams<f32, %s, linfa_nn::distance::L2Dist>" % X, "linfa_clustering::KMeansParams<f64, %s, linfa_nn::distance::L2Dist>" % X],
        "KMeansValidParams": ["linfa_clustering::KMeansValidParams<f64, %s, linfa_nn::distance::L2Dist>" % X],
        "KMeans": ["linfa_clustering::KMeans<f32, linfa_nn::distance::L2Dist>", "linfa_clustering::KMeans<f64, linfa_nn::distance::L1Dist>"],
        "GmmParams": ["linfa_clustering::GmmParams<f32, %s>" % X, "linfa_clustering::GmmParams<f64, %s>" % X],
        "GmmValidParams": ["linfa_clustering::GmmValidParams<f64, %s>" % X],
        "GaussianMixtureModel": ["linfa_clustering::GaussianMixtureModel<f32>", "linfa_clustering::GaussianMixtureModel<f64>"],
        "DbscanValidParams": ["linfa_clustering::DbscanValidParams<f64, linfa_nn::distance::L2Dist, linfa_nn::CommonNearestNeighbour>",
                              "linfa_clustering::DbscanValidParams<f32, linfa_nn::distance::LpDist<f32>, linfa_nn::BallTree>"],
        "OpticsParams": ["linfa_clustering::OpticsParams<f64, linfa_nn::distance::L2Dist, linfa_nn::CommonNearestNeighbour>"],
        "OpticsValidParams": ["linfa_clustering::OpticsValidParams<f32, linfa_nn::distance::L1Dist, linfa_nn::LinearSearch>"],
        "OpticsAnalysis": ["linfa_clustering::OpticsAnalysis<f32>", "linfa_clustering::OpticsAnalysis<f64>"],
        "OpticsSample": ["linfa_clustering::Sample<f64>"]}),
    "linfa-linear": ("algorithms/linfa-linear", [], {
        "Link": ["linfa_linear::Link"], "LinearRegression": ["linfa_linear::LinearRegression"],
        "FittedLinearRegression": ["linfa_linear::FittedLinearRegression<f32>", "linfa_linear::FittedLinearRegression<f64>"],
        "FittedIsotonicRegression": ["linfa_linear::FittedIsotonicRegression<f64>"],
        "TweedieRegressorValidParams": ["linfa_linear::TweedieRegressorValidParams<f64>"],
        "TweedieRegressor": ["linfa_linear::TweedieRegressor<f32>", "linfa_linear::TweedieRegressor<f64>"]}),
    "linfa-elasticnet": ("algorithms/linfa-elasticnet", [], {
        "ElasticNetError": ["linfa_elasticnet::ElasticNetError"], "ElasticNetError.sweep": ["linfa_elasticnet::ElasticNetError"],
        "ElasticNetValidParams": ["linfa_elasticnet::ElasticNetValidParams<f64>"],
        "ElasticNet": ["linfa_elasticnet::ElasticNet<f32>", "linfa_elasticnet::ElasticNet<f64>"],
        "MultiTaskElasticNetValidParams": ["linfa_elasticnet::MultiTaskElasticNetValidParams<f32>"],
        "MultiTaskElasticNet": ["linfa_elasticnet::MultiTaskElasticNet<f64>"]}),
    "linfa-logistic": ("algorithms/linfa-logistic", [], {
        "LogisticRegressionParams": ["linfa_logistic::LogisticRegression<f32>", "linfa_logistic::LogisticRegression<f64>"],
        "LogisticRegressionValidParams": ["linfa_logistic::ValidLogisticRegression<f64>"],
        "FittedLogisticRegression": ["linfa_logistic::FittedLogisticRegression<f64, usize>", "linfa_logistic::FittedLogisticRegression<f32, String>"],
        "BinaryClassLabels": ["linfa_logistic::BinaryClassLabels<f64, String>"], "ClassLabel": ["linfa_logistic::ClassLabel<f32, usize>"],
        "MultiLogisticRegressionParams": ["linfa_logistic::MultiLogisticRegression<f64>"],
        "MultiLogisticRegressionValidParams": ["linfa_logistic::ValidMultiLogisticRegression<f32>"],
        "MultiFittedLogisticRegression": ["linfa_logistic::MultiFittedLogisticRegression<f64, usize>"]}),
    "linfa-kernel": ("algorithms/linfa-kernel", [], {
        "KernelMethod": ["linfa_kernel::KernelMethod<f32>", "linfa_kernel::KernelMethod<f64>"],
        "Kernel": ["linfa_kernel::Kernel<f32>", "linfa_kernel::Kernel<f64>"]}),
    "linfa-svm": ("algorithms/linfa-svm", ["linfa"], {
        "ExitReason": ["linfa_svm::ExitReason"], "SeparatingHyperplane": ["linfa_svm::SeparatingHyperplane<f64>"],
        "Svm.bool": ["linfa_svm::Svm<f32, bool>", "linfa_svm::Svm<f64, bool>"], "Svm.Pr": ["linfa_svm::Svm<f64, linfa::dataset::Pr>"],
        "Svm.reg": ["linfa_svm::Svm<f32, f32>", "linfa_svm::Svm<f64, f64>"], "Svm.oneclass": ["linfa_svm::Svm<f64, bool>"]}),
    "linfa-trees": ("algorithms/linfa-trees", [], {
        "SplitQuality": ["linfa_trees::SplitQuality"], "DecisionTreeParams": ["linfa_trees::DecisionTreeParams<f64, usize>"],
        "DecisionTreeValidParams": ["linfa_trees::DecisionTreeValidParams<f32, usize>"],
        "DecisionTree": ["linfa_trees::DecisionTree<f32, usize>", "linfa_trees::DecisionTree<f64, String>"],
        "TreeNode": ["linfa_trees::TreeNode<f64, usize>"]}),
    "linfa-bayes": ("algorithms/linfa-bayes", [], {
        "GaussianNbValidParams": ["linfa_bayes::GaussianNbValidParams<f64, usize>"], "GaussianNb": ["linfa_bayes::GaussianNb<f32, usize>", "linfa_bayes::GaussianNb<f64, String>"],
        "MultinomialNbValidParams": ["linfa_bayes::MultinomialNbValidParams<f32, usize>"], "MultinomialNb": ["linfa_bayes::MultinomialNb<f64, usize>"]}),
    "linfa-ftrl": ("algorithms/linfa-ftrl", ["linfa", "rand_xoshiro"], {
        "FtrlError": ["linfa_ftrl::FtrlError"], "FtrlError.sweep": ["linfa_ftrl::FtrlError"], "FtrlParams": ["linfa_ftrl::FtrlParams<f32, %s>" % X, "linfa_ftrl::FtrlParams<f64, %s>" % X],
        "FtrlValidParams": ["<linfa_ftrl::FtrlParams<f64, %s> as linfa::ParamGuard>::Checked" % X],
        "Ftrl": ["linfa_ftrl::Ftrl<f32>", "linfa_ftrl::Ftrl<f64>"]}),
    "linfa-pls": ("algorithms/linfa-pls", [], {
        "PlsRegression": ["linfa_pls::PlsRegression<f64>"], "PlsCanonical": ["linfa_pls::PlsCanonical<f32>"], "PlsCca": ["linfa_pls::PlsCca<f64>"],
        "PlsSvdParams": ["linfa_pls::PlsSvdParams"]}),
    "linfa-reduction": ("algorithms/linfa-reduction", [], {
        "PcaParams": ["linfa_reduction::PcaParams"], "Pca": ["linfa_reduction::Pca<f64>"]}),
    "linfa-ica": ("algorithms/linfa-ica", [], {
        "GFunc": ["linfa_ica::fast_ica::GFunc"], "FastIcaValidParams": ["linfa_ica::hyperparams::FastIcaValidParams<f64>"],
        "FastIca": ["linfa_ica::fast_ica::FastIca<f32>", "linfa_ica::fast_ica::FastIca<f64>"]}),
    "linfa-preprocessing": ("algorithms/linfa-preprocessing", [], {
        "TfIdfMethod": ["linfa_preprocessing::tf_idf_vectorization::TfIdfMethod"], "WhiteningMethod": ["linfa_preprocessing::whitening::WhiteningMethod"],
        "ScalingMethod": ["linfa_preprocessing::linear_scaling::ScalingMethod<f64>"], "NormScaler": ["linfa_preprocessing::norm_scaling::NormScaler"],
        "LinearScalerParams": ["linfa_preprocessing::linear_scaling::LinearScalerParams<f32>"],
        "LinearScaler": ["linfa_preprocessing::linear_scaling::LinearScaler<f32>", "linfa_preprocessing::linear_scaling::LinearScaler<f64>"],
        "Whitener": ["linfa_preprocessing::whitening::Whitener"], "FittedWhitener": ["linfa_preprocessing::whitening::FittedWhitener<f64>"],
        "CountVectorizerParams": ["linfa_preprocessing::CountVectorizerParams"], "CountVectorizerValidParams": ["linfa_preprocessing::CountVectorizerValidParams"],
        "CountVectorizer": ["linfa_preprocessing::CountVectorizer"], "TfIdfVectorizer": ["linfa_preprocessing::tf_idf_vectorization::TfIdfVectorizer"],
        "FittedTfIdfVectorizer": ["linfa_preprocessing::tf_idf_vectorization::FittedTfIdfVectorizer"]}),
}
EXTRA_DEP_PATH = {"linfa": "", "linfa-nn": "algorithms/linfa-nn"}

PROBE_RS = r"""// generated by props/c19.py -- prints which types implement the serde traits in this feature set
use std::marker::PhantomData;
struct W<T>(PhantomData<T>);
trait NoSer { const SER: bool = false; }
impl<T> NoSer for W<T> {}
impl<T: serde::Serialize> W<T> { const SER: bool = true; }
trait NoDe { const DE: bool = false; }
impl<T> NoDe for W<T> {}
impl<T: serde::de::DeserializeOwned> W<T> { const DE: bool = true; }
macro_rules! probe {
    ($name:expr, $T:ty) => {
        println!("{{\"type\":\"{}\",\"rust\":\"{}\",\"ser\":{},\"de\":{}}}", $name, stringify!($T).split_whitespace().collect::<Vec<_>>().join(""), <W<$T>>::SER, <W<$T>>::DE);
    };
}
fn main() {
%s
}
"""


def iso_probe(ctx):
    """build + run the per-crate probes; returns {type: [ {rust, ser, de, crate}, ... ]}"""
    import os, re, shutil, subprocess, json, time
    repo = vlib.REPO
    tag = re.sub(r"[^A-Za-z0-9]", "_", repo)
    root = os.path.join(vlib.WORK, "c19iso-" + tag)       # persistent: the dependency builds are cached between runs
    os.makedirs(os.path.join(root, ".cargo"), exist_ok=True)
    with open(os.path.join(vlib.HARNESS, ".cargo", "config.toml")) as f:
        cfgtxt = f.read()
    with open(os.path.join(root, ".cargo", "config.toml"), "w") as f:
        f.write(cfgtxt)
    shutil.copy(os.path.join(vlib.HARNESS, "Cargo.lock"), os.path.join(root, "Cargo.lock"))
    members = []
    for crate, (path, extra, types) in ISO.items():
        name = "probe_" + crate.replace("-", "_")
        members.append(name)
        d = os.path.join(root, name)
        os.makedirs(os.path.join(d, "src"), exist_ok=True)
        deps = ['%s = { path = "%s", features = ["serde"] }' % (crate, os.path.join(repo, path).rstrip("/")), 'serde = "1"']
        for e in extra:
            if e == crate:
                continue
            if e in EXTRA_DEP_PATH:
                deps.append('%s = { path = "%s" }' % (e, os.path.join(repo, EXTRA_DEP_PATH[e]).rstrip("/")))
            else:
                deps.append('%s = "0.6"' % e)
        with open(os.path.join(d, "Cargo.toml"), "w") as f:
            f.write('[package]\nname = "%s"\nversion = "0.1.0"\nedition = "2021"\npublish = false\n\n[dependencies]\n%s\n' % (name, "\n".join(deps)))
        body = "\n".join('    probe!("%s", %s);' % (t, r) for t, rs in sorted(types.items()) for r in rs)
        with open(os.path.join(d, "src", "main.rs"), "w") as f:
            f.write(PROBE_RS % body)
    with open(os.path.join(root, "Cargo.toml"), "w") as f:
        f.write('[workspace]\nresolver = "2"\nmembers = [%s]\n\n[profile.dev]\nopt-level = 0\ndebug = false\nincremental = false\n'
                % ", ".join('"%s"' % m for m in members))
    env = dict(os.environ)
    env["CARGO_NET_OFFLINE"] = "true"
    out = {}
    t0 = time.time()
    for crate in ISO:
        name = "probe_" + crate.replace("-", "_")
        p = subprocess.run(["cargo", "run", "--offline", "-q", "-p", name], cwd=root, env=env,
                           stdout=subprocess.PIPE, stderr=subprocess.PIPE, text=True)
        if p.returncode != 0:
            import sys
            sys.stderr.write(p.stderr[-3000:])
            raise vlib.ToolError("isolated-feature probe for %s did not build" % crate)
        for l in p.stdout.splitlines():
            if l.startswith("{"):
                r = json.loads(l)
                r["crate"] = crate
                out.setdefault(r["type"], []).append(r)
    vlib.log("isolated-feature probes: %d crates, %d types in %.1fs" % (len(ISO), len(out), time.time() - t0))
    return out


def offer_cases(ctx, probes, start):
    """one case per catalogue type: the harness side here is the compile-time probe output"""
    names = vlib.tlc_gen(ctx, "Gen_Persist", {"init": "InitOffer", "constants": dict(MaxData=1, MaxChain=1, MaxWideChain=1), "invariants": ["Emit"]},
                         tag="Gen_Persist_offer")
    traces = []
    for i, c in enumerate(names):
        ty = c["inp"]["type"]
        evs = [{"ev": "offer", "type": ty, "crate": r["crate"], "rust": r["rust"], "ser": r["ser"], "de": r["de"]} for r in probes.get(ty, [])]
        traces.append({"id": start + i, "kind": "offer", "inp": c["inp"], "ev": evs})
    return traces


def nontrivial(case):
    return case["kind"] in ("model", "params")


def run(ctx):
    binp = vlib.cargo_build("c19")
    vlib.tlc_mc(ctx, "Persist", {"constants": MODEL[ctx.tier], "invariants": INVS}, coverage_actions=ACTIONS)
    negative_runs(ctx)
    cases = vlib.tlc_gen(ctx, "Gen_Persist", {"constants": GEN[ctx.tier], "invariants": ["Emit"]})
    ctx.exhaustive = True
    if not ctx.quick:
        cases += random_cases(ctx, 3000)
    vlib.number(cases)
    ctx.cases = len(cases)
    ctx.nontrivial = len({(c["inp"]["type"], c["inp"]["ft"], c["inp"]["var"], c["inp"]["data"], c["inp"]["wide"], tuple(c["inp"]["fmts"]))
                          for c in cases if nontrivial(c)})
    traces = vlib.run_harness(ctx, binp, cases)
    types = sorted({c["inp"]["type"] for c in cases})
    lossy = sum(1 for t in traces for e in t["ev"] if e.get("ev") == "rt" and not e.get("lossless", True))
    rts = sum(1 for t in traces for e in t["ev"] if e.get("ev") == "rt")
    # vacuity guard for the layout-dependent code paths: the domain must contain values whose matrix parameters
    # change their memory layout in a round trip (only those can expose layout-dependent arithmetic)
    relaid = 0
    for t in traces:
        lay = {}
        diff = False
        for e in t["ev"]:
            if e.get("ev") == "obs" and e.get("cls") == "l":
                if e["h"] == 0:
                    lay[e["key"]] = e["d"]
                elif lay.get(e["key"]) != e["d"]:
                    diff = True
        relaid += diff
    # vacuity guard for the structural sweep of the error enums: the number of variant indices that produced a
    # value must at least be the number of serialisable variants known when the check was written
    present = {}
    for t in traces:
        if t["kind"] == "sweep" and not any(e.get("ev") == "absent" for e in t["ev"]):
            present.setdefault(t["inp"]["type"], set()).add(t["inp"]["var"])
    need = {"Error.sweep": 5, "PlattError.sweep": 11, "ElasticNetError.sweep": 13, "FtrlError.sweep": 11}
    ctx.extra["error_variants_reached_by_the_sweep"] = {k: len(v) for k, v in sorted(present.items())}
    if not getattr(ctx, "replaying", False):
        for k, n in need.items():
            if len(present.get(k, ())) < n:
                raise vlib.ToolError("structural sweep of %s reached only %d variants (expected >= %d)" % (k, len(present.get(k, ())), n))
    wide = sum(1 for c in cases if c["inp"].get("wide", 0) >= 1)
    ctx.extra["wide_cases_8_to_12_features"] = wide
    ctx.extra["cases_whose_matrix_layout_changes_in_a_round_trip"] = relaid
    if wide == 0 or relaid == 0:
        raise vlib.ToolError("no wide case / no case whose matrix layout changes in a round trip (vacuous for layout-dependent code)")
    ctx.extra["catalogue_types"] = len(types)
    ctx.extra["round_trips_recorded"] = rts
    ctx.extra["json_documents_not_lossless_in_serde_json"] = lossy
    vlib.sample(ctx, [t for t in traces if t["inp"]["type"] == "KMeans" and t["inp"]["fmts"] == ["json", "bincode"]][:1]
                + [t for t in traces if t["inp"]["type"] == "CountVectorizer" and t["inp"]["var"] == 2][:1])
    if not ctx.quick:
        probes = iso_probe(ctx)
        offers = offer_cases(ctx, probes, len(cases) + 1)
        ctx.cases += len(offers)
        ctx.extra["isolated_feature_probe_types"] = len(offers)
        traces = traces + offers
    vlib.validate_with_findings(ctx, "Trace_Persist", traces, constants=TRACE_CONST, chunk=4000)
    ctx.rule = ("cases = every type of the catalogue specs/PersistTypes.tla (every type deriving serde in the pinned tree that "
                "is reachable from outside its crate) x float type x configuration (enum variants, default / custom / invalid "
                "hyper-parameters, fitted instances) x data seed x chain of formats (all chains of bincode/json up to length 2, "
                "alternating chains beyond), enumerated by TLC (Gen_Persist) [+ seeded random chains and data seeds in the thorough "
                "tier]; non-trivial = fitted model or parameter set (learned / configured state, re-fit observed); distinct by "
                "(type, float, configuration, data, chain)")
    ctx.trusted = ["TLC + CommunityModules Json", "bincode 1.3 and serde_json as the lossless formats",
                   "harness digests/encoders (harness/src/bin/c19.rs): FNV-1a of exact bit patterns, 2x30 bit"]
    ctx.assumptions = ["equal digests = equal bit patterns (collision probability ~2^-60 per comparison)",
                       "float-valued observations are not compared across a JSON document that serde_json (without its "
                       "float_roundtrip feature) does not parse back to the float the standard library parses; the harness tests "
                       "every float token of the document for this and logs the flag (%d of %d round trips this run)" % (lossy, rts),
                       "JSON chains avoid non-finite hyper-parameters (OPTICS default tolerance = +inf is given a finite value); "
                       "bincode chains keep them",
                       "queries avoid exact posterior ties of naive Bayes (tie-breaks by hash-map order belong to C14/C20)"]
    return vlib.finish(ctx)


def replay(ctx, case):
    binp = vlib.cargo_build("c19")
    traces = vlib.run_harness(ctx, binp, [case])
    ctx.cases = 1
    vlib.validate_with_findings(ctx, "Trace_Persist", traces, constants=TRACE_CONST)
    return vlib.finish(ctx)
