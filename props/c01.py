"""C01 -- K-fold splitting partitions the samples and leaves the dataset intact (DESIGN.md 8/C01)."""
import vlib

MODEL = {"quick": dict(MaxN=8, MaxF=2, MaxT=2, MaxM=2), "thorough": dict(MaxN=12, MaxF=3, MaxT=2, MaxM=3)}
GEN = {"quick": dict(MinN=2, MaxN=9, MaxF=2, MaxT=2, MaxM=2), "thorough": dict(MinN=2, MaxN=12, MaxF=3, MaxT=2, MaxM=3)}
INVS = ["InvPerm", "InvRowsIntact", "InvTrain", "InvValid", "InvDone", "InvBoundary"]
ACTIONS = ["SwapIn", "Fit", "SwapOut", "Yield", "Eval", "FoldCopy"]
TRACE_CONST = dict(MaxN=0, MaxF=0, MaxT=0, MaxM=0)


def random_cases(ctx, count, maxn):
    out = []
    r = ctx.rng
    for _ in range(count):
        n = r.randint(13, maxn)
        k = r.choice([2, 3, n, n - 1, r.randint(2, n), r.randint(2, n)])
        f = r.randint(1, 8)
        t = r.randint(0, 3)
        kind = r.choice(["iter_fold", "fold", "cv"] + (["cv_single"] if t == 0 else []))
        store = {"iter_fold": ["owned", "viewmut"], "fold": ["owned", "view"]}.get(kind, ["owned"])
        nm = r.randint(1, 3) if kind.startswith("cv") else 1
        cols = max(t, 1)
        tab = [[[r.randint(0, 9) for _ in range(cols)] for _ in range(k)] for _ in range(nm)]
        fail = {"at": "none", "m": 0, "i": 0}
        if kind.startswith("cv") and r.random() < 0.3:
            fail = {"at": r.choice(["fit", "eval"]), "m": r.randrange(nm), "i": r.randrange(k)}
        out.append({"kind": kind, "inp": {"n": n, "k": k, "f": f, "t": t, "store": r.choice(store), "nm": nm,
                                          "tab": tab, "fail": fail}})
    return out


def nontrivial(case):
    i = case["inp"]
    return i["n"] % i["k"] != 0 or i["f"] > 1 or i["t"] > 0


def run(ctx):
    binp = vlib.cargo_build("c01")
    vlib.tlc_mc(ctx, "KFold", {"constants": MODEL[ctx.tier], "invariants": INVS}, coverage_actions=ACTIONS)
    cases = vlib.tlc_gen(ctx, "Gen_KFold", {"constants": GEN[ctx.tier], "invariants": ["Emit"]})
    ctx.exhaustive = True
    if not ctx.quick:
        cases += random_cases(ctx, 1500, 60)
    vlib.number(cases)
    ctx.cases = len(cases)
    ctx.nontrivial = len({repr(sorted(c["inp"].items(), key=str)) + c["kind"] for c in cases if nontrivial(c)})
    traces = vlib.run_harness(ctx, binp, cases)
    vlib.sample(ctx, [t for t in traces if t["kind"] == "cv" and t["inp"]["n"] == 5 and t["inp"]["k"] == 2][:1]
                + [t for t in traces if t["kind"] == "iter_fold" and t["inp"]["n"] == 5][:1])
    vlib.validate_with_findings(ctx, "Trace_KFold", traces, constants=TRACE_CONST, chunk=4000)
    ctx.rule = ("cases = every (n,k,f,t) of the bounded model x calling form (fold owned/view, iter_fold owned/view-mut, "
                "cross_validate, cross_validate_single) x #models x single injected fit/eval failure, enumerated by TLC "
                "(Gen_KFold) [+ seeded random n<=60 in the thorough tier]; non-trivial = n mod k != 0 or f > 1 or multi-column targets; "
                "distinct by (kind, input)")
    ctx.trusted = ["TLC + CommunityModules Json", "harness tagging/mocks (harness/src/bin/c01.rs)"]
    ctx.assumptions = ["row tags identify samples (cell (r,c) -> 16r+c, target (r,c) -> 1000+4r+c)",
                       "closure call order is not prescribed; any order is accepted"]
    return vlib.finish(ctx)


def replay(ctx, case):
    binp = vlib.cargo_build("c01")
    traces = vlib.run_harness(ctx, binp, [case])
    ctx.cases = 1
    vlib.validate_with_findings(ctx, "Trace_KFold", traces, constants=TRACE_CONST)
    return vlib.finish(ctx)
