"""C13 -- SVM solutions satisfy the dual feasibility and KKT conditions they publish (DESIGN.md 8/C13).

(A) design models: Smo (bookkeeping of shrinking: permutation, arrays follow it, scatter write-back; the
    seeded design bugs of the pinned code must violate the invariants) and MC_SmoKkt (on a grid of candidate
    solutions the KKT relation accepts only minimisers of the dual: convex QP, KKT => optimal).
(B) Gen_Smo enumerates training problems on lattice data (all kinds, kernels, box parameters, shrinking on/off).
(C) harness c13 fits the real models (hook events of the solver when linfa-svm carries the hook), Trace_Smo
    validates bookkeeping, feasibility + KKT, decision values / labels / probabilities, nsupport.
"""
import json
import vlib

SMO_INVS = ["InvPerm", "InvFollow", "InvActive", "InvInactive", "InvWriteBack"]
SMO_ACTIONS = ["Update", "Shrink", "Unshrink", "WriteBack"]
SEEDED_DESIGN_BUGS = {"nobounds": "InvFollow", "inverse": "InvWriteBack", "staticloop": "InvInactive"}
TRACE_CONST = {"L": "0", "Variant": '"ok"'}

TIER = {
    "quick": dict(L=4, kkt=[("csvc", 2, 3), ("oneclass", 2, 3), ("esvr", 2, 2)],
                  gen=dict(MinSmall=3, MaxSmall=4, Seeds="{1, 2, 3}", MedSizes="{12, 24}", Lite="TRUE"),
                  stride=dict(csvc=2, nusvc=1, oneclass=1, esvr=2, nusvr=2, f32=1)),
    "thorough": dict(L=5, kkt=[("csvc", 4, 3), ("oneclass", 4, 3), ("esvr", 2, 3)],
                     gen=dict(MinSmall=3, MaxSmall=5, Seeds="{1, 2, 3, 4}", MedSizes="{12, 24, 40, 60}", Lite="FALSE"),
                     stride=dict(csvc=1, nusvc=1, oneclass=1, esvr=1, nusvr=2, f32=1)),
}
FAMS = '{"csvc", "nusvc", "oneclass", "esvr", "nusvr", "f32", "offset", "poly1", "f32nl", "ocfrac"}'


def design_models(ctx):
    t = TIER[ctx.tier]
    vlib.mc_elem(ctx)
    # (action coverage is asserted in the quick tier; the larger model runs without the coverage statistics)
    vlib.tlc_mc(ctx, "Smo", {"constants": {"L": str(t["L"]), "Variant": '"ok"'}, "invariants": SMO_INVS},
                coverage_actions=SMO_ACTIONS if ctx.quick else None)
    # the invariants are not vacuous: each seeded design bug of the pinned code violates one of them
    for variant, inv in SEEDED_DESIGN_BUGS.items():
        rc, lines = vlib.tlc(ctx, "Smo", {"constants": {"L": "3", "Variant": '"%s"' % variant}, "invariants": SMO_INVS},
                             workers=4, tag="Smo_bug_" + variant)
        # (with several workers TLC may report another violated invariant first, e.g. InvActive for "staticloop")
        hit = [i for i in SMO_INVS if any(("Invariant %s is violated" % i) in l for l in lines)]
        if rc == 0 or not hit:
            raise vlib.ToolError("design model Smo: seeded design bug %s violates no invariant (expected %s)" % (variant, inv))
        ctx.extra.setdefault("design_bugs_rejected_by_model", {})[variant] = hit[0]
    for mode, g, maxsize in t["kkt"]:
        consts = {"Mode": '"%s"' % mode, "G": str(g), "MaxSize": str(maxsize)}
        vlib.tlc_mc(ctx, "MC_SmoKkt", {"constants": consts, "invariants": ["KktImpliesOptimal"]}, tag="MC_SmoKkt_" + mode)
        with open("%s/MC_SmoKkt_%s.out" % (ctx.work, mode)) as f:
            acc = sum(1 for l in f if "KKT-ACCEPTED" in l)
        if acc == 0:
            raise vlib.ToolError("MC_SmoKkt(%s): the KKT relation accepts no grid candidate (vacuous)" % mode)
        ctx.extra.setdefault("kkt_grid_candidates_accepted", {})[mode] = acc


def _rat(r, lo, hi):
    return [r.randint(lo, hi), 1]


def random_cases(ctx, count):
    """seeded larger cases of the same schema (thorough tier): overlapping / imbalanced / duplicated 2-D lattice
    sets, n <= 80, C up to 1000, unequal class weights, all kernels, shrinking on/off."""
    r = ctx.rng
    out = []
    kerns = [{"k": "lin", "c": 0, "d": 1, "w": [1, 1]}, {"k": "poly", "c": 1, "d": 2, "w": [1, 1]},
             {"k": "poly", "c": 0, "d": 3, "w": [1, 1]}, {"k": "rbf", "c": 0, "d": 1, "w": [2, 1]},
             {"k": "rbf", "c": 0, "d": 1, "w": [10, 1]},
             {"k": "poly", "c": 0, "d": 1, "w": [1, 1]}, {"k": "poly", "c": 3, "d": 1, "w": [1, 1]}]
    q = [[0, 0], [2, -1], [-3, 3], [1, 1]]
    # extreme query points for the Platt-calibrated model (validity clauses only): +-(1,1), +-(1,-1) scaled
    eq = [[sx * k, sy * k] for (sx, sy) in ((1, 1), (-1, -1), (1, -1), (-1, 1)) for k in (10, 100, 1000)]
    for _ in range(count):
        kind = r.choice(["csvc", "csvc", "csvc", "nusvc", "oneclass", "esvr", "esvr", "nusvr"])
        n = r.choice([8, 12, 20, 30, 40, 60, 80])
        span = r.choice([2, 3])
        x = [[r.randint(-span, span), r.randint(-span, span)] for _ in range(n)]
        if r.random() < 0.3:       # duplicated points
            for i in range(n // 4):
                x[r.randrange(n)] = list(x[r.randrange(n)])
        thr = r.choice([0, 0, 1, 2])
        flip = r.choice([0.0, 0.1, 0.25])
        kern = r.choice(kerns)
        one = [1, 1]
        cp, cn, nu, c, le = one, one, [1, 2], one, [1, 10]
        if kind in ("csvc", "nusvc"):
            y = [1 if (p[0] + p[1] > thr) != (r.random() < flip) else 0 for p in x]
            if sum(y) == 0:
                y[0] = 1
            if sum(y) == n:
                y[0] = 0
        elif kind == "oneclass":
            y = [1] * n
        else:
            y = [p[0] - p[1] + r.randint(-1, 1) for p in x]
        # magnitude limits of the specification (SmoKkt): rbf: sum|a| <= 200 ; lin/poly: sum|a| * Kmax <= 10^6
        # (nv = number of solver variables: 2n for regression)
        kmax = {"lin": 2 * span * span, "rbf": 1}.get(kern["k"], (2 * span * span + kern["c"]) ** kern["d"])
        nv = 2 * n if kind in ("esvr", "nusvr") else n
        cmax = min(1000, (200 / nv) if kern["k"] == "rbf" else 1000000 / (nv * kmax))
        cs = [cc for cc in ([1, 100], [1, 10], [1, 1], [5, 1], [10, 1], [100, 1], [1000, 1]) if cc[0] / cc[1] <= cmax]
        if not cs:
            continue
        if kind == "csvc":
            cp, cn = r.choice(cs), r.choice(cs)
        elif kind == "nusvc":
            feas = [v for v in ([1, 10], [1, 4], [1, 2], [3, 4]) if v[0] * n < 2 * v[1] * min(sum(y), n - sum(y))]
            if not feas:
                continue
            nu = r.choice(feas)
        elif kind == "oneclass":
            nu = r.choice([[1, 10], [1, 4], [1, 2], [1, 1]])
        elif kind == "esvr":
            c, le = r.choice(cs), r.choice([[1, 10], [1, 2], [1, 1]])
        else:
            c, nu = r.choice([cc for cc in cs if cc[0] / cc[1] <= 10]), r.choice([[1, 10], [1, 4], [1, 2]])
        if kind == "oneclass" and nv * kmax > 1000000:
            continue
        shr = r.random() < 0.6
        ft = "f32" if (r.random() < 0.1 and kern["k"] == "lin" and max(cp[0] / cp[1], cn[0] / cn[1], c[0] / c[1]) <= 1) else "f64"
        # Gaussian kernel: records shifted by an exactly representable offset (the kernel is shift-invariant)
        off, ue = 0, 0
        if kern["k"] == "rbf" and r.random() < 0.4:
            off, ue = r.choice([(1000, 20), (1000000, 10), (10000000, 10), (10000000, 0), (1 << 30, 0), (999999937, 4)])
        out.append({"kind": kind, "inp": {"off": off, "ue": ue, "x": x, "y": y, "dim": 2, "kern": kern, "cp": cp, "cn": cn, "nu": nu, "c": c, "le": le,
                                          "shr": shr, "ft": ft, "tolx": 3 if ft == "f32" else 7, "q": q,
                                          "eq": eq if (kind in ("csvc", "nusvc") and not shr) else [],
                                          "pr": kind in ("csvc", "nusvc") and not shr}})
    return out


def thin(cases, stride):
    """the quick tier keeps the complete medium families and every stride-th small case per kind (deterministic)"""
    out, cnt = [], {}
    for c in cases:
        # the shifted-record families and the degree-one polynomial kernels are kept whole
        p1 = c["inp"]["kern"]["k"] == "poly" and c["inp"]["kern"]["d"] == 1
        small = c["inp"]["dim"] == 1 and c["inp"].get("off", 0) == 0 and not p1
        k = c["kind"] if c["inp"]["ft"] == "f64" else "f32"
        st = stride.get(k, 2)
        cnt[k] = cnt.get(k, 0) + 1
        if not small or st <= 1 or cnt[k] % st == 0:
            out.append(c)
    return out


def summarize(ctx, traces):
    nsh = sum(1 for t in traces if any(e["ev"] == "smo.shrink" for e in t["ev"]))
    hooks = sum(1 for t in traces if any(e["ev"].startswith("smo.") for e in t["ev"]))
    shr_cases = sum(1 for t in traces if t["inp"]["shr"])
    degen = sum(1 for t in traces for e in t["ev"]
                if e["ev"] == "fit" and e.get("ok") and t["kind"] == "nusvc"
                and ((e.get("hasr") and e.get("rfin") and abs(e["r"]) < 50000)
                     or (e.get("afin") and sum(abs(a) // 1000 for a in e["alpha"]) > 200000)))
    platt_err = sum(1 for t in traces for e in t["ev"] if e["ev"] == "prob" and not e.get("ok"))
    iters = [e["iters"] for t in traces for e in t["ev"] if e["ev"] == "fit" and e.get("ok")]
    many = sum(1 for t in traces for e in t["ev"] if e["ev"] == "fit" and e.get("ok") and e["iters"] > (2 if t["kind"] in ("esvr", "nusvr") else 1) * len(t["inp"]["x"]))
    ctx.extra.update({
        "cases_with_shrinking_on": shr_cases,
        "cases_with_hook_events": hooks,
        "cases_with_shrink_events": nsh,
        "hook_present": hooks > 0,
        "bookkeeping_clauses": "checked on %d cases" % hooks if hooks else
                               "SKIPPED: linfa-svm of this tree emits no smo.* hook events (hook patch not applied); only the published-model layer was checked",
        "nu_svc_zero_margin_cases_unspecified": degen,
        "platt_calibration_errors_unspecified": platt_err,
        "max_iterations": max(iters) if iters else 0,
        "by_kind": {k: sum(1 for t in traces if t["kind"] == k) for k in sorted({t["kind"] for t in traces})},
    })
    # binding of the hook: a tree whose solver source carries the hook must produce the events (the write-back
    # event is emitted by every fit); otherwise the instrumented code is not the code that ran
    try:
        with open(vlib.REPO + "/algorithms/linfa-svm/src/solver_smo.rs") as f:
            hooked_source = "smo.writeback" in f.read()
    except OSError:
        hooked_source = False
    ctx.extra["hook_in_source"] = hooked_source
    if hooked_source and hooks == 0:
        raise vlib.ToolError("linfa-svm carries the smo.* hook but no hook event was recorded (guard off / hook not reached)")
    # non-trivial: the solver needed more iterations than variables (so the shrinking heuristic ran when enabled)
    return many


def run(ctx):
    binp = vlib.cargo_build("c13")
    t = TIER[ctx.tier]
    design_models(ctx)
    consts = dict(t["gen"])
    consts["Fams"] = FAMS
    cases = vlib.tlc_gen(ctx, "Gen_Smo", {"constants": consts, "invariants": ["Emit"]})
    ctx.exhaustive = False
    cases = thin(cases, t["stride"])
    if not ctx.quick:
        cases += random_cases(ctx, 2000)
    vlib.number(cases)
    ctx.cases = len(cases)
    traces = vlib.run_harness(ctx, binp, cases, timeout=1200)
    ctx.nontrivial = summarize(ctx, traces)
    vlib.sample(ctx, [tr for tr in traces if tr["kind"] == "csvc" and len(tr["inp"]["x"]) == 4 and tr["inp"]["shr"]][:1]
                + [tr for tr in traces if tr["kind"] == "esvr" and len(tr["inp"]["x"]) == 3][:1])
    vlib.validate_with_findings(ctx, "Trace_Smo", traces, constants=TRACE_CONST, chunk=6000)
    ctx.rule = ("cases = TLC-enumerated training problems (Gen_Smo): all sorted multisets of labelled 1-D lattice points of the tier's sizes "
                "(every stride-th per kind, stride per tier) x kernel x box parameters x shrinking, plus deterministic pseudo-random 2-D sets "
                "(12..60 points) [+ seeded random sets n<=80 in the thorough tier]; non-trivial = the solver needed more iterations than it has "
                "variables, i.e. the shrinking heuristic (every min(n,1000) iterations) ran in the cases with shrinking on")
    ctx.trusted = ["TLC + CommunityModules Json", "Elem tables (self-checked by MC_Elem)",
                   "harness encoders fx / exact-zero flags (harness/src/bin/c13.rs)",
                   "lemma: KKT point of a convex QP is a minimiser (checked on a grid by MC_SmoKkt)"]
    ctx.assumptions = [
        "numerical allowance 5e-3 (f64, solver eps 1e-7) / 5e-2 (f32, solver eps 1e-3) on margins and residuals, plus propagated quantisation of the 1e-6 fixed-point log",
        "Gaussian kernel values from the Elem table (error <= 3e-4 per entry, propagated into the slack)",
        "a coefficient within one unit (1e-6) of 0 or of its bound may be read either way",
        "nu-classification whose optimum has margin parameter |r| < 0.05 (reduced hulls intersect; published a/r not finite) is unspecified and accepted",
        "nu must be strictly feasible for nu-classification (nu*n/2 < min(#pos,#neg))",
        "a Platt calibration that returns an error is unspecified; probabilities are only required to be order-monotone in the decision value",
        "termination is not decided: a fit that reaches the iteration limit is reported as a violation of 'KKT up to the solver tolerance' only through its KKT residuals; a harness timeout is a tool error",
        "magnitudes: sum|a| <= 200 for Gaussian kernels, sum|a|*max|K| <= 10^6 otherwise, |y| <= 100 (32-bit TLC integers); decision values beyond 2000 are compared in 10^-3 units / by sign (saturated arithmetic)",
    ]
    return vlib.finish(ctx)


def replay(ctx, case):
    binp = vlib.cargo_build("c13")
    case = {k: case[k] for k in ("id", "kind", "inp") if k in case}
    traces = vlib.run_harness(ctx, binp, [case])
    ctx.cases = 1
    vlib.validate_with_findings(ctx, "Trace_Smo", traces, constants=TRACE_CONST)
    return vlib.finish(ctx)
