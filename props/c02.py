"""C02 -- Dataset operations keep record, target and weight of a sample together (DESIGN.md 8/C02).

(A) DatasetOps.tla: design model (five parallel containers of original identities, one action per public
    operation, all outcomes of the random ones) with the alignment invariants.
(B) Gen_DatasetOps.tla: TLC enumerates initial datasets x programs (operation sequences with arguments) along the
    static Rust type of the dataset; thorough adds seeded random programs of the same schema.
(C) harness/src/bin/c02.rs runs each program on tagged data through the real API and logs the projection of every
    returned dataset; Trace_DatasetOps.tla replays the design model against the log.
"""
import collections
import vlib

MODEL = {"quick": dict(MaxN=3, MaxF=2, MaxDepth=2), "thorough": dict(MaxN=3, MaxF=2, MaxDepth=3)}
INVS = ["InvAligned", "InvExisting", "InvTyped", "InvProjection", "InvSplitPartition", "InvOvaPartition", "InvChunks",
        "InvWithLabels"]
ACTIONS = ["View", "Split", "Shuffle", "BootS", "BootF", "Boot", "WithLabels", "Ova", "Chunk", "TargetIter", "FeatureIter",
           "MapT", "ToOwned", "Single"]
TRACE_CONST = dict(MaxN=0, MaxF=0, MaxDepth=0)
ALL_OPS = ["view", "split", "shuffle", "boot", "boots", "bootf", "wl", "ova", "chunk", "siter", "titer", "fiter", "map",
           "toowned", "single", "iterp"]


def S(xs):
    return vlib.tla_set(xs)


def gen_cfg(depth, level, ns, fs, ts, metas, stores, pats):
    c = dict(TRACE_CONST)
    c.update(Ns=S(ns), Fs=S(fs), Ts=S(ts), Metas=S(metas), Stores=S(stores), Pats=S(pats), Depth=depth, Level='"%s"' % level)
    return {"init": "GenInit", "next": "GenNext", "constants": c, "invariants": ["Emit"]}


# (depth, alphabet level, Ns, Fs, Ts, Metas, Stores, Pats, sample): each line is one TLC enumeration, complete for its
# bounds; sample = None keeps every enumerated case, an integer keeps a seeded sample of that size (VERIF_SEED)
ALLSTORES = ["owned", "view", "ownedoff", "woff", "ownedf", "views2"]
GEN = {
    "quick": [
        (1, "full", [1, 2, 3], [1, 2], [0, 1, 2], ["all", "none"], ["owned", "view"], ["mod3"], None),
        (1, "full", [3], [2], [0, 2], ["all"], ["ownedoff", "woff", "ownedf", "views2"], ["mod2"], None),
        (1, "full", [3], [2], [0, 2], ["all"], ["owned", "view"], ["desc", "mod2"], None),
        (1, "proto", [3], [3], [2], ["all"], ["owned", "view"], ["mod2"], None),      # iterator protocols, all four iterators
        (2, "mid", [3], [2], [0, 2], ["all"], ["owned", "view"], ["mod2"], None),
        (3, "min", [3], [2], [0], ["all"], ["owned"], ["mod2"], 1200),
        (3, "min", [3], [2], [2], ["all"], ["view"], ["mod2"], 1200),
    ],
    "thorough": [
        (1, "full", [1, 2, 3, 4], [1, 2, 3], [0, 1, 2], ["all", "none", "w", "names"], ["owned", "view"], ["mod3", "desc"], None),
        (1, "full", [3, 4], [2], [0, 2], ["all"], ["owned", "view"], ["mod2"], None),
        (1, "full", [2, 3, 4], [2], [0, 2], ["all"], ["ownedoff", "woff", "ownedf", "views2"], ["mod2", "const"], None),
        (1, "proto", [2, 4], [3], [0, 2], ["all"], ["owned", "view"], ["desc"], None),
        (2, "full", [3], [2], [0, 2], ["all"], ["owned", "view"], ["mod2"], None),
        (2, "mid", [4], [2], [0, 1, 2], ["all"], ["owned", "view", "woff", "ownedf", "views2"], ["desc"], None),
        (3, "mid", [3], [2], [0, 2], ["all"], ["owned", "view"], ["mod2"], 12000),
        (4, "min", [4], [2], [0], ["all"], ["owned"], ["mod2"], 6000),
        (4, "min", [4], [2], [2], ["all"], ["view"], ["mod2"], 6000),
    ],
}

# ---------------------------------------------------------------------------------------------------------------
# seeded random programs (thorough tier).  The type bookkeeping below only serves to draw operations that exist for
# the current Rust type (an inapplicable one is logged as "na" by the harness and checked by the spec anyway).

def view_of(k):
    return "AV" if k in ("A", "AV") else "CAV"


def owned_of(k):
    return "A" if k in ("A", "AV") else "CA"


def res_ty(op, ty):
    r, k, l, d = ty
    if op in ("view", "chunk"):
        return ("V", view_of(k), l, d)
    if op == "split":
        return ("V", view_of(k), l, d) if r == "V" else ty
    if op in ("shuffle", "boot", "boots", "bootf", "toowned"):
        return ("O", owned_of(k), l, d)
    if op == "wl":
        return ("O", "CA", l, d)
    if op == "ova":
        return ("V", "CA", "B", 1)
    if op in ("titer", "fiter"):
        return ("V", "AV", l, d)
    if op == "map":
        return (r, "A", "U", d)
    if op == "single":
        return ("O", "A", l, 1)
    return ty


def applicable(op, ty, nt):
    r, k, l, d = ty
    if op == "split":
        return r == "V" or k == "A"
    if op == "ova":
        return d == 1
    if op == "single":
        return r == "O" and k == "A" and d == 2 and l == "U"
    return True


def f32_ab(x):
    """the f32 nearest to x (0 <= x <= 1) as (a, b) with value a / 2^b, a < 2^24"""
    import struct
    bits = struct.unpack(">I", struct.pack(">f", x))[0]
    if bits == 0:
        return (0, 0)
    m, b = (bits & 0x7FFFFF) | 0x800000, 150 - ((bits >> 23) & 0xFF)
    while m % 2 == 0 and b > 0:
        m, b = m // 2, b - 1
    assert 0 <= b <= 30 and m < (1 << 24)
    return (m, b)


F32_RATIOS = [f32_ab(x) for x in (0.0, 1.0, 0.5, 0.25, 0.75, 0.125, 0.625, 0.1, 0.2, 0.3, 0.4, 1 / 3, 2 / 3, 0.7, 0.9, 0.6, 0.8,
                                  0.05, 0.15, 0.35, 0.45, 0.55, 0.65, 0.85, 0.95)]


def random_cases(ctx, count, maxn, maxdepth):
    r = ctx.rng
    out = []
    for _ in range(count):
        n = r.randint(1, maxn)
        f = r.randint(1, 4)
        t = r.choice([0, 0, 1, 2, 3])
        nt = max(t, 1)
        store = r.choice(["owned", "owned", "view", "view", "ownedoff", "woff", "ownedf", "views2"])
        nlab = r.choice([2, 3, 4])
        lab = [[r.randrange(nlab) for _ in range(nt)] for _ in range(n)]
        ty = ("V", "AV", "U", 1 if t == 0 else 2) if store in ("view", "views2") else ("O", "A", "U", 1 if t == 0 else 2)
        nf = f
        prog = []
        for _ in range(r.randint(2, maxdepth)):
            ops = [o for o in ALL_OPS if applicable(o, ty, nt)]
            op = r.choice(ops)
            o = {"op": op, "a": 0, "b": 0, "pick": r.randrange(6), "ls": []}
            if op == "split":
                o["a"], o["b"] = r.choice(F32_RATIOS) if r.random() < 0.7 else (r.randrange(1 << 24), 24)
            elif op == "shuffle":
                o["a"] = r.randrange(1000)
            elif op == "boot":
                o["a"], o["b"] = r.randint(1, 6), r.randint(1, 4)
            elif op in ("boots", "bootf"):
                o["a"] = r.randint(1, 6)
            elif op == "wl":
                o["ls"] = [r.choice([0, 1, 2, 3, 4, 5, 9]) for _ in range(r.randint(0, 4))]   # any order, repeats, absent labels
            elif op == "chunk":
                o["a"] = r.randint(0, 5) if r.random() < 0.2 else r.randint(1, 5)
            elif op == "iterp":
                o["a"], o["b"] = r.randrange(4), r.randint(1, 4)
                pre = [r.choice([100, 400, 200 + r.randrange(4), 300 + r.randrange(4)]) for _ in range(r.randint(0, 4))]
                o["ls"] = pre + [r.choice([500, 800, 900, 600 + r.randrange(5), 701 + r.randrange(4)])]
            elif op == "map":
                o["a"] = r.randrange(3)
            prog.append(o)
            if op == "boot":
                nf = o["b"]
            elif op == "bootf":
                nf = o["a"]
            elif op == "fiter":
                nf = 1
            elif op == "titer":
                nt = 1
            ty = res_ty(op, ty)
        out.append({"kind": "prog", "inp": {"n": n, "f": f, "t": t, "w": r.random() < 0.7, "names": r.random() < 0.7,
                                            "store": store, "lab": lab, "prog": prog}})
    return out


SELECTING = {"split", "shuffle", "boot", "boots", "bootf", "wl", "ova", "chunk", "titer", "fiter"}


def nontrivial(case):
    i = case["inp"]
    return i["n"] >= 2 and any(o["op"] in SELECTING for o in i["prog"])


def key(case):
    return vlib.json.dumps(case["inp"], sort_keys=True)


def run(ctx):
    binp = vlib.cargo_build("c02")
    vlib.tlc_mc(ctx, "DatasetOps", {"spec": "Spec", "constants": MODEL[ctx.tier], "invariants": INVS},
                coverage_actions=ACTIONS, workers=8)
    cases = []
    seen = set()
    ctx.exhaustive = True
    for g in GEN[ctx.tier]:
        got = vlib.tlc_gen(ctx, "Gen_DatasetOps", gen_cfg(*g[:8]), workers=4)
        if g[8] is not None and len(got) > g[8]:
            got = ctx.rng.sample(got, g[8])
            ctx.exhaustive = False       # this line of GEN is a seeded sample of TLC's enumeration
        for c in got:
            k = key(c)
            if k not in seen:
                seen.add(k)
                cases.append(c)
    if not ctx.quick:
        cases += random_cases(ctx, 6000, 12, 8)
    vlib.number(cases)
    ctx.cases = len(cases)
    ctx.nontrivial = len({key(c) for c in cases if nontrivial(c)})
    traces = vlib.run_harness(ctx, binp, cases)
    # vacuity: every operation was really executed (an "op" event) on every family of Rust types it exists for
    opcount = collections.Counter()
    refused = collections.Counter()
    for t in traces:
        for ev in t["ev"]:
            if ev["ev"] == "op":
                opcount[ev["op"]] += 1
            elif ev["ev"] == "panic":
                refused[ev["op"]] += 1
    ctx.extra["panics_by_operation"] = dict(refused)
    missing = [o for o in ALL_OPS if opcount[o] == 0]
    if missing:
        raise vlib.ToolError("operations never executed by any case: %s" % missing)
    ctx.extra["operations_executed"] = dict(opcount)
    vlib.sample(ctx, [t for t in traces if len(t["inp"]["prog"]) == 2 and t["inp"]["prog"][0]["op"] == "split"
                      and t["inp"]["prog"][1]["op"] == "wl"][:1]
                + [t for t in traces if len(t["inp"]["prog"]) == 3][:1])
    vlib.validate_with_findings(ctx, "Trace_DatasetOps", traces, constants=TRACE_CONST, chunk=6000)
    ctx.rule = ("cases = initial dataset (n, f, 1-D / 2-D targets with t columns, with/without weights and names, owned / view / "
                "owned-with-offset storage, label pattern) x program (sequence of dataset operations with arguments, built along "
                "the static Rust type), enumerated by TLC (Gen_DatasetOps) per (depth, argument alphabet) line of GEN "
                "[+ seeded random programs, n<=12, depth<=8, in the thorough tier]; non-trivial = n >= 2 and the program contains "
                "a row/column selecting operation; distinct by input")
    ctx.trusted = ["TLC + CommunityModules Json", "harness tagging/projection (harness/src/bin/c02.rs)",
                   "derive(Clone) of DatasetBase (consuming operations are applied to a clone)"]
    ctx.assumptions = ["row/column tags identify samples/columns (cell (r,c) -> 16r+c, weight r -> r+0.5, names f<c>/t<c>); "
                       "targets are labels, so two samples with equal labels are interchangeable in the target container",
                       "a result may drop weights/names (statement: 'whenever the result carries'), never carry them misaligned",
                       "number of chunks of sample_chunks is undocumented: floor(n/c) or ceil(n/c) accepted",
                       "split ratios are a/2^b (every f32 in [0,1]); the single-precision product is modelled exactly"]
    return vlib.finish(ctx)


def replay(ctx, case):
    binp = vlib.cargo_build("c02")
    traces = vlib.run_harness(ctx, binp, [case])
    ctx.cases = 1
    vlib.validate_with_findings(ctx, "Trace_DatasetOps", traces, constants=TRACE_CONST)
    return vlib.finish(ctx)
