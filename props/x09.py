"""X09 -- step-level trace validation of DBSCAN, OPTICS and the ball-tree search (extension of C07/C08).

C07/C08 validate input/output relations only; their design models specs/Density.tla (DBSCAN seed loop + search
queue, OPTICS seed list) and specs/NNBall.tla (ball-tree build, best-first search) are model-checked but not
bound to the code.  X09 binds them step by step through the verification hooks `dbscan.step`, `optics.step`,
`balltree.search` (docs/reports/X09-hook.diff):

(A) specs/X09Density.tla = Density + history variables and step invariants (label once, queue once, only cores
    extend, seed reachability is the minimum offer, listed reachability minimal); specs/X09Ball.tla = NNBall
    generalised to L2 and to interval-valued sphere bounds (floating-point centres), checked equivalent to NNBall
    where NNBall applies and correct under every resolution of an undecidable bound comparison.
(B) specs/Gen_X09Density.tla / Gen_X09Ball.tla re-use the lattice case families of C08 / C07 (Gen_Density, Gen_NN),
    expanded into single runs (algorithm x index) resp. single queries (ball-tree session x k / radius).
(C) harness x09 executes each run with the hooks on; specs/Trace_X09Density.tla / Trace_X09Ball.tla replay the
    recorded events against the ACTIONS of the design models: every event must be an enabled action in the current
    abstract state, with the field values the model gives, and the API's result must be the model's final state.
On a tree without the hooks (detected from the sources) the cases carry hook = 0, only the results are recorded,
the step clauses are skipped (input/output relations only) and the evidence says so.
"""
import json
import os
import vlib

# ---------------------------------------------------------------------------------------------
# hooks

HOOKS = {
    "dbscan.step": "algorithms/linfa-clustering/src/dbscan/algorithm.rs",
    "optics.step": "algorithms/linfa-clustering/src/optics/algorithm.rs",
    "balltree.search": "algorithms/linfa-nn/src/balltree.rs",
}


def hooks_present():
    out = {}
    for name, rel in HOOKS.items():
        try:
            with open(os.path.join(vlib.REPO, rel)) as f:
                out[name] = ('\\"%s\\"' % name) in f.read()
        except OSError:
            out[name] = False
    return out


# ---------------------------------------------------------------------------------------------
# (A) design-model runs

def _dmc(variant, lattices, minn, maxn, mps, eps):
    return dict(Variant='"%s"' % variant, Lattices=vlib.tla_set(lattices), MinPts=minn, MaxPts=maxn,
                MinPtsSet=vlib.tla_set(mps), EpsSet=vlib.tla_set(eps))


D_MC = {
    "quick": [_dmc("ok", [103], 0, 4, [2, 3], [11, 32])],
    "thorough": [_dmc("ok", [104], 0, 4, [2, 3], [11, 32, 21]),
                 _dmc("ok", [103], 5, 5, [4], [11, 32]),
                 _dmc("ok", [202], 0, 3, [2, 3], [11, 32, 21]),
                 _dmc("ok", [103], 0, 4, [2, 3], [0]),
                 _dmc("ok", [999], 0, 0, [4], [52])],
}
D_INVS = ["InvLabelOnce", "InvQueueUnlabelled", "InvPushOnce", "InvOnlyCoresExtend", "InvSeedReach", "InvReachMin",
          "InvDbscanDone", "InvOpticsDone", "InvGrow", "InvLabels", "InvSeeds"]
D_ACTIONS = ["XDSkip", "XDSeed", "XDPop", "XDClose", "XOSkip", "XOStart", "XOPop", "XOEnd", "XDone"]
# a broken design that the new step invariants must reject (non-vacuity)
D_NEG = [("noncore_extends", _dmc("noncore_extends", [103], 5, 5, [4], [32]), "InvOnlyCoresExtend")]
D_TRACE_CONST = dict(Variant='"ok"', Lattices="{}", MinPts=0, MaxPts=0, MinPtsSet="{}", EpsSet="{}")

# (B) generator domains (those of C08)
D_GEN = {
    "quick": [
        dict(Lattices="{101}", MinPts=0, MaxPts=2, MinPtsSet="{2}", EpsSet="{11}", Specials=1, Hubs=1),
        dict(Lattices="{104}", MinPts=0, MaxPts=4, MinPtsSet="{2, 3}", EpsSet="{12, 11, 32, 21, 52, 0}", Specials=0, Hubs=0),
        dict(Lattices="{202}", MinPts=0, MaxPts=3, MinPtsSet="{2, 3}", EpsSet="{11, 32, 21, 0}", Specials=0, Hubs=0),
        dict(Lattices="{103}", MinPts=5, MaxPts=5, MinPtsSet="{4}", EpsSet="{32}", Specials=0, Hubs=0),
    ],
    "thorough": [
        dict(Lattices="{101}", MinPts=0, MaxPts=2, MinPtsSet="{2}", EpsSet="{11}", Specials=1, Hubs=2),
        dict(Lattices="{105}", MinPts=0, MaxPts=4, MinPtsSet="{2, 3, 4}", EpsSet="{12, 11, 32, 21, 52, 31, 0}", Specials=0, Hubs=0),
        dict(Lattices="{104}", MinPts=5, MaxPts=5, MinPtsSet="{2, 3, 4}", EpsSet="{32, 21}", Specials=0, Hubs=0),
        dict(Lattices="{202}", MinPts=0, MaxPts=3, MinPtsSet="{2, 3, 4}", EpsSet="{12, 11, 32, 21, 52, 94, 0}", Specials=0, Hubs=0),
        dict(Lattices="{202}", MinPts=4, MaxPts=4, MinPtsSet="{3}", EpsSet="{32}", Specials=0, Hubs=0),
        dict(Lattices="{301}", MinPts=0, MaxPts=3, MinPtsSet="{2, 3}", EpsSet="{11, 32, 21}", Specials=0, Hubs=0),
    ],
}
D_QUOTA = {"quick": {"structured": 900, "n5": 700, "rest": 1800}, "thorough": None}     # runs (= input x algorithm x index) per family
D_RANDOM = {"quick": 8, "thorough": 300}           # seeded structured inputs of C08's schema (n <= 40), x 6 runs


# ---- ball tree (X09Ball = generalisation of NNBall) -------------------------------------------------------------
def _bmc(maxn, maxn2, c1, c2, qhi, metrics, maxleaf):
    return dict(MaxN=maxn, MaxN2=maxn2, Coords1=c1, Coords2=c2, QLo=0, QHi=qhi, MetricSet=metrics, MaxLeaf=maxleaf, GuardK0="TRUE")


L12 = '{"l1", "linf"}'
L123 = '{"l1", "linf", "l2"}'
# (tag, next, constants, invariants, properties)
B_MC = {
    "quick": [
        # every step of NNBall is a step of the generalisation (leaves of 3 points: rounded bounds occur)
        ("steps_of_nnball", "Next", _bmc(3, 0, "{0, 2}", "{}", 3, L12, 3), ["InvBuildRule"], ["StepsOfNNBall"]),
        # the generalised search is correct whichever way an undecided comparison goes (incl. L2)
        ("generalised", "GNext", _bmc(3, 0, "{0, 2}", "{}", 3, '{"l1", "l2"}', 3),
         ["InvPrunedM", "InvStopSound", "InvAnswer", "NoPanic", "InvFrontier"], []),
        # where every bound is exact the generalisation adds nothing
        ("steps_are_nnball", "GNext", _bmc(3, 0, "{0, 2}", "{}", 3, L12, 2), [], ["StepsAreNNBall"]),
    ],
    "thorough": [
        ("steps_of_nnball", "Next", _bmc(3, 2, "{0, 2, 4}", "{0, 2}", 3, L12, 3), ["InvBuildRule"], ["StepsOfNNBall"]),
        ("generalised", "GNext", _bmc(3, 2, "{0, 2, 4}", "{0, 2}", 3, L123, 3),
         ["InvPrunedM", "InvStopSound", "InvAnswer", "NoPanic", "InvFrontier"], []),
        ("generalised_n4", "GNext", _bmc(4, 0, "{0, 2, 4}", "{}", 3, '{"l1", "l2"}', 3),
         ["InvPrunedM", "InvStopSound", "InvAnswer", "NoPanic", "InvFrontier"], []),
        ("steps_are_nnball", "GNext", _bmc(3, 2, "{0, 2, 4}", "{0, 2}", 3, L12, 2), [], ["StepsAreNNBall"]),
    ],
}
B_ACTIONS = ["Start", "GPop", "Exhausted", "GScan"]
B_TRACE_CONST = dict(MaxN=0, MaxN2=0, Coords1="{}", Coords2="{}", QLo=0, QHi=0, MetricSet="{}", MaxLeaf=0, GuardK0="TRUE")
B_STRIDE = {"quick": 31, "thorough": 3}         # 1/stride sample of (C07 case x ball session x k / radius)
B_RANDOM = {"quick": 6, "thorough": 60}         # seeded random clouds of C07's schema (n <= 40), a few queries each


def ball_queries(ctx):
    qs = vlib.tlc_gen(ctx, "Gen_X09Ball", {"constants": {"Tier": '"%s"' % ctx.tier, "Phase": ctx.seed % 1000003,
                                                          "QStride": B_STRIDE[ctx.tier], "QPhase": ctx.seed % 1000003},
                                           "invariants": ["XEmit"]}, workers=4)
    enumerated = len(qs)
    # seeded larger clouds (the trees really branch): C07's random generator, bounded so that every integer form stays
    # inside 31 bits in the interval arithmetic of X09Ball (n <= 40, dim <= 3, |coordinate| <= 24)
    import c07
    r = ctx.rng
    made = 0
    guard = 0
    while made < B_RANDOM[ctx.tier] and guard < 100000:
        guard += 1
        c = c07.random_case(r)["inp"]
        if c["metric"] not in ("l1", "l2", "linf") or c["dim"] > 3 or c["n"] > 40 or c["sc"] > 16:
            continue
        if max([abs(x) for p in c["pts"] for x in p] + [abs(x) for x in c["q"]]) > 24:
            continue
        made += 1
        sess = [s for s in c["sess"] if s["ix"] in ("ball", "ball_d", "ball_n") and s["leaf"] != 0]
        for s in r.sample(sess, min(2, len(sess))):
            for k in r.sample(c["ks"], min(2, len(c["ks"]))):
                qs.append({"kind": "ballq", "inp": {"n": c["n"], "dim": c["dim"], "sc": c["sc"], "pts": c["pts"], "q": c["q"],
                                                    "metric": c["metric"], "ix": s["ix"], "ft": s["ft"], "leaf": s["leaf"],
                                                    "lay": s["lay"], "mode": "knn", "k": k, "r8": -1}})
            for r8 in r.sample(c["r8s"], min(2, len(c["r8s"]))):
                qs.append({"kind": "ballq", "inp": {"n": c["n"], "dim": c["dim"], "sc": c["sc"], "pts": c["pts"], "q": c["q"],
                                                    "metric": c["metric"], "ix": s["ix"], "ft": s["ft"], "leaf": s["leaf"],
                                                    "lay": s["lay"], "mode": "range", "k": -1, "r8": r8}})
    return qs, enumerated


def b_features(t):
    tags = set()
    for e in t["ev"]:
        if e["ev"] == "pop":
            if e["act"] == "break":
                tags.add("bt_stop_with_pending_nodes")
            if e["act"] == "kids" and any(not k["pushed"] for k in e["kids"]):
                tags.add("bt_child_pruned")
            if e["act"] == "kids":
                tags.add("bt_branch_expanded")
        if e["ev"] == "point" and not e["kept"]:
            tags.add("bt_point_rejected")
        if e["ev"] == "point" and e["kept"] and e["outlen"] == t["inp"]["k"] and t["inp"]["mode"] == "knn":
            tags.add("bt_candidate_set_full")
    return tags


def density_runs(ctx):
    runs = []
    for k, consts in enumerate(D_GEN[ctx.tier]):
        runs += vlib.tlc_gen(ctx, "Gen_X09Density", {"constants": consts, "invariants": ["XEmit"]}, workers=4,
                             tag="Gen_X09Density_%d" % k)
    seen, uniq = set(), []
    for c in runs:
        s = json.dumps(c, sort_keys=True)
        if s not in seen:
            seen.add(s)
            uniq.append(c)
    runs = uniq
    enumerated = len(runs)
    exhaustive = True
    quota = D_QUOTA[ctx.tier]
    if quota:
        # seeded sample with a quota per family: structured inputs (3-4-5, hub), the n = 5 domain, the rest
        fam = lambda c: "structured" if c["inp"]["src"] in ("special", "hub") else ("n5" if len(c["inp"]["pts"]) >= 5 else "rest")
        groups = {"structured": [], "n5": [], "rest": []}
        for c in runs:
            groups[fam(c)].append(c)
        runs = []
        for g in ("structured", "n5", "rest"):
            ctx.rng.shuffle(groups[g])
            runs += groups[g][:quota[g]]
        exhaustive = False
    # seeded larger inputs of the same schema (chains, rings, blobs, duplicates, noise, random hub embeddings)
    import c08
    big = c08.random_cases(ctx, D_RANDOM[ctx.tier]) + [c08.hub_case(ctx.rng) for _ in range(D_RANDOM[ctx.tier] // 2)]
    for c in big:
        i = c["inp"]
        for a in ("dbscan", "optics"):
            for ix in ("linear", "kdtree", "balltree"):
                runs.append({"kind": "dstep", "inp": {"alg": a, "index": ix, "src": "random", "dim": i["dim"], "pts": i["pts"],
                                                      "minpts": i["minpts"], "eps": i["eps"], "metric": i["metric"],
                                                      "ft": i["ft"], "leaf": i["leaf"]}})
    return runs, enumerated, exhaustive


def d_features(t):
    """measured on the recorded events of an accepted run"""
    tags = set()
    evs = t["ev"]
    if t["inp"]["alg"] == "dbscan":
        if any(e["ev"] == "pop" and e["push"] for e in evs):
            tags.add("db_core_candidate_extends_queue")
        for e in evs:
            if e["ev"] == "pop" and not e["push"] and e["cnt"] < t["inp"]["minpts"]:
                tags.add("db_border_candidate")
        if sum(1 for e in evs if e["ev"] == "close") >= 2:
            tags.add("db_two_clusters")
        if any(e["ev"] == "skip" and e["why"] == 0 for e in evs) and any(e["ev"] == "skip" and e["why"] == 1 for e in evs):
            tags.add("db_both_skips")
    else:
        if any(e["ev"] in ("start", "pop") and any(not u["isnew"] for u in e["upd"]) for e in evs):
            tags.add("op_reachability_lowered")
        if any(e["ev"] == "pop" and e["nseeds"] >= 2 for e in evs):
            tags.add("op_pop_among_several_seeds")
        if sum(1 for e in evs if e["ev"] == "endwalk") >= 2:
            tags.add("op_two_walks")
        if any(e["ev"] == "pop" and not e["core"]["def"] for e in evs):
            tags.add("op_noncore_seed_listed")
    return tags


# ---------------------------------------------------------------------------------------------
# validation: acceptance pass without the diagnostic action (its ENABLED evaluates every action twice); the rejected
# cases are validated again with it to obtain the FAIL diagnostics

def validate(ctx, module, traces, constants, tag, chunk):
    if not traces:
        return set(), []
    if vlib.load_known(ctx.id):          # named deviations under review: the shared two-pass procedure
        return vlib.validate_with_findings(ctx, module, traces, constants=constants, chunk=chunk, tag=tag)
    ok, _ = vlib.tlc_validate(ctx, module, traces, constants=constants, chunk=chunk, tag=tag, devs=[], spec_next="TraceNextFast")
    info = dict(getattr(ctx, "okinfo", {}))
    ctx.validated += len(ok)
    rej = [t for t in traces if t["id"] not in ok]
    if rej:
        ok2, fails = vlib.tlc_validate(ctx, module, rej[:400], constants=constants, tag=tag + "_diag", devs=[], spec_next="TraceNext")
        if ok2:
            raise vlib.ToolError("%s: acceptance differs between TraceNextFast and TraceNext" % module)
        for t in rej:
            vlib.record_violation(ctx, t, fails.get(t["id"], []))
    ctx.okinfo = info
    return ok, [t["id"] for t in rej]


def run(ctx):
    binp = vlib.cargo_build("x09")
    hooks = hooks_present()
    ctx.extra["hooks_present_in_tree"] = hooks
    skip_mc = os.environ.get("VERIF_X09_SKIP_MC") == "1" and vlib.REPO != "/repo"     # development knob (mutant runs)
    # (A) design models
    for k, consts in enumerate([] if skip_mc else D_MC[ctx.tier]):
        vlib.tlc_mc(ctx, "X09Density", {"init": "XInit", "next": "XNext", "constants": consts, "invariants": D_INVS},
                    workers=6, coverage_actions=D_ACTIONS if k == 0 else None, tag="X09Density_mc%d" % k)
    neg = []
    for name, consts, inv in ([] if skip_mc else D_NEG):
        rc, lines = vlib.tlc(ctx, "X09Density", {"init": "XInit", "next": "XNext", "constants": consts, "invariants": [inv]},
                             workers=2, tag="X09Density_neg_" + name)
        viol = [l for l in lines if l.startswith("Error: Invariant %s is violated" % inv)]
        if rc != 12 or not viol:
            raise vlib.ToolError("design variant %s is not rejected by %s (rc=%d): the step invariant is vacuous" % (name, inv, rc))
        neg.append("%s -> %s" % (name, viol[0][len("Error: "):]))
    ctx.extra["broken_design_variants_rejected"] = neg
    for tag, nxt, consts, invs, props in ([] if skip_mc else B_MC[ctx.tier]):
        vlib.tlc_mc(ctx, "X09Ball", {"init": "Init", "next": nxt, "constants": consts, "invariants": invs, "properties": props},
                    workers=6, coverage_actions=B_ACTIONS if (nxt == "GNext" and invs and ctx.quick) else None, tag="X09Ball_" + tag)
    # (B) cases
    druns, d_enum, d_exh = density_runs(ctx)
    for c in druns:
        c["inp"]["hook"] = 1 if hooks["dbscan.step" if c["inp"]["alg"] == "dbscan" else "optics.step"] else 0
    bqs, b_enum = ball_queries(ctx)
    for c in bqs:
        c["inp"]["hook"] = 1 if hooks["balltree.search"] else 0
    vlib.number(druns + bqs)
    ctx.cases = len(druns) + len(bqs)
    ctx.exhaustive = False
    ctx.extra["density_runs"] = len(druns)
    ctx.extra["density_runs_enumerated_by_tlc"] = d_enum
    ctx.extra["ball_queries"] = len(bqs)
    ctx.extra["ball_queries_enumerated_by_tlc"] = b_enum
    # (C) execution with the hooks on, replay against the design models
    dtr = vlib.run_harness(ctx, binp, druns, tag="dcases")
    btr = vlib.run_harness(ctx, binp, bqs, tag="bcases")
    okd, rejd = validate(ctx, "Trace_X09Density", dtr, D_TRACE_CONST, "Trace_X09Density", 4000)
    infod = dict(getattr(ctx, "okinfo", {}))
    okb, rejb = validate(ctx, "Trace_X09Ball", btr, B_TRACE_CONST, "Trace_X09Ball", 4000)
    infob = dict(getattr(ctx, "okinfo", {}))
    nohook = sum(1 for i in okd if any("nohook" in s for s in infod.get(i, ()))) + \
        sum(1 for i in okb if any("nohook" in s for s in infob.get(i, ())))
    # measured non-triviality / vacuity
    feats = {}
    nontriv = set()
    for t, okset, ff in [(t, okd, d_features) for t in dtr] + [(t, okb, b_features) for t in btr]:
        if t["id"] not in okset or not t["inp"]["hook"]:
            continue
        tg = ff(t)
        for x in tg:
            feats[x] = feats.get(x, 0) + 1
        if tg:
            nontriv.add(json.dumps(t["inp"], sort_keys=True))
    ctx.nontrivial = len(nontriv)
    ctx.extra["accepted_case_features"] = feats
    ctx.extra["cases_validated_without_step_events"] = nohook
    ctx.extra["step_events_replayed"] = sum(len(t["ev"]) - 1 for t in dtr + btr if (t["id"] in okd or t["id"] in okb) and t["inp"]["hook"])
    ctx.extra["step_clauses"] = ("replayed" if all(hooks.values()) else
                                 "SKIPPED for " + ", ".join(sorted(h for h, v in hooks.items() if not v)) +
                                 " (hook not in this tree: only the input/output relations of the result were checked)")
    # a hooked tree must deliver step events (hook removed or silent = tool error, never a verdict)
    for name, trs, sel in (("dbscan.step", dtr, lambda t: t["inp"]["alg"] == "dbscan"),
                           ("optics.step", dtr, lambda t: t["inp"]["alg"] == "optics"),
                           ("balltree.search", btr, lambda t: True)):
        if hooks[name] and not any(len(t["ev"]) > 1 for t in trs if sel(t)):
            raise vlib.ToolError("the tree contains the %s hook but no step event was recorded" % name)
    if not rejd and not rejb:
        need = []
        if hooks["dbscan.step"]:
            need += ["db_core_candidate_extends_queue", "db_border_candidate", "db_two_clusters", "db_both_skips"]
        if hooks["optics.step"]:
            need += ["op_reachability_lowered", "op_pop_among_several_seeds", "op_two_walks", "op_noncore_seed_listed"]
        if hooks["balltree.search"]:
            need += ["bt_stop_with_pending_nodes", "bt_child_pruned", "bt_branch_expanded", "bt_point_rejected", "bt_candidate_set_full"]
        for n in need:
            if feats.get(n, 0) == 0:
                raise vlib.ToolError("vacuity: no accepted case with feature %s" % n)
    vlib.sample(ctx, [t for t in dtr if t["inp"]["alg"] == "dbscan" and len(t["inp"]["pts"]) == 4 and len(t["ev"]) > 6][:1]
                + [t for t in dtr if t["inp"]["alg"] == "optics" and len(t["inp"]["pts"]) == 4 and len(t["ev"]) > 6][:1]
                + [t for t in btr if t["inp"]["n"] == 3 and t["inp"]["leaf"] == 1 and len(t["ev"]) > 5][:1])
    ctx.rule = ("cases = single runs with the step hooks on: (a) the lattice inputs of C08 (Gen_Density families: all point sequences of the "
                "bounded domains x min_points x tolerance x metric, 3-4-5 inputs, hub family; n=5 domain and structured families whole, "
                "seeded sample of the rest) + seeded structured inputs n<=40, each x {DBSCAN, OPTICS} x {linear, k-d tree, ball tree}; "
                "(b) the lattice cases of C07 (Gen_NN families, metrics l1/l2/linf, scales 1/4/16) x ball-tree session (constructor, "
                "f32/f64, every leaf size, layout) x k in 0..n+1 / radius on, between and beyond the attained distances, a seeded "
                "1/%d sample of that product + seeded clouds n<=40; every event of a run is one TLC step; non-trivial = an accepted run "
                "in which a core candidate extended the queue, a border candidate was labelled, two clusters/walks occurred, a "
                "reachability was lowered, a seed was popped among several, a search stopped with pending nodes, a child was pruned, "
                "a point was rejected or the candidate set was full (measured on the recorded events); distinct by input"
                % B_STRIDE[ctx.tier])
    ctx.trusted = ["TLC + CommunityModules Json", "hook call sites (docs/reports/X09-hook.diff: add-only, behind cfg(linfa_verif))",
                   "harness encoders (harness/src/bin/x09.rs: hook floats -> exact-integer observations / fixed point 1/6400, "
                   "grouping of seed / kids / break events with the step they belong to)",
                   "Geo.tla / NNRel.tla integer distance forms"]
    ctx.assumptions = ["lattice inputs (small integers divided by a power of two), dyadic tolerances / radii in eighths: every point distance "
                       "and every comparison between point distances is exact in f32/f64",
                       "sphere bounds are exact only for dyadic centres; otherwise the model carries an interval (width <= 4/6400 for L1/Linf, "
                       "square-root bracket for L2) and a comparison the interval does not decide may go either way",
                       "queue service order, push order within a step and ties between equal reachabilities / equal bounds / equal "
                       "distances are not prescribed",
                       "boundary convention (point exactly on the tolerance) inferred once per run"]
    return vlib.finish(ctx)


def replay(ctx, case):
    binp = vlib.cargo_build("x09")
    hooks = hooks_present()
    case = {"id": case.get("id", 1), "kind": case["kind"], "inp": dict(case["inp"])}
    if case["kind"] == "dstep":
        case["inp"]["hook"] = 1 if hooks["dbscan.step" if case["inp"]["alg"] == "dbscan" else "optics.step"] else 0
    else:
        case["inp"]["hook"] = 1 if hooks["balltree.search"] else 0
    traces = vlib.run_harness(ctx, binp, [case])
    ctx.cases = 1
    if case["kind"] == "dstep":
        validate(ctx, "Trace_X09Density", traces, D_TRACE_CONST, "Trace_X09Density", None)
    else:
        validate(ctx, "Trace_X09Ball", traces, B_TRACE_CONST, "Trace_X09Ball", None)
    return vlib.finish(ctx)
