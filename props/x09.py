"""X09 -- step-level trace validation of DBSCAN, OPTICS and the ball-tree search (extension of C07/C08).

C07/C08 validate input/output relations only; their design models specs/Density.tla (DBSCAN seed loop + search
queue, OPTICS seed list) and specs/NNBall.tla (ball-tree build, best-first search) are model-checked but not
bound to the code.  X09 binds them step by step through the verification hooks `dbscan.step`, `optics.step`,
`balltree.search` (docs/reports/X09-hook.diff):

(A) specs/X09Density.tla = Density + history variables and step invariants (label once, queue once, only cores
    extend, seed reachability is the minimum offer, listed reachability minimal); specs/X09Ball.tla = NNBall
    generalised to L2 and to interval-valued sphere bounds (floating-point centres), checked equivalent to NNBall
    where NNBall applies and correct under every resolution of an undecidable bound comparison.
(B) specs/Gen_X09Density.tla / Gen_X09Ball.tla re-use the lattice case families of C08 / C07 (Gen_Density, Gen_NN),
    expanded into single runs (algorithm x index) resp. single queries (ball-tree session x k / radius).
(C) harness x09 executes each run with the hooks on; specs/Trace_X09Density.tla / Trace_X09Ball.tla replay the
    recorded events against the ACTIONS of the design models: every event must be an enabled action in the current
    abstract state, with the field values the model gives, and the API's result must be the model's final state.
On a tree without the hooks (detected from the sources) the cases carry hook = 0, only the results are recorded,
the step clauses are skipped (input/output relations only) and the evidence says so.
"""
import json
import os
import vlib

# ---------------------------------------------------------------------------------------------
# hooks

HOOKS = {
    "dbscan.step": "algorithms/linfa-clustering/src/dbscan/algorithm.rs",
    "optics.step": "algorithms/linfa-clustering/src/optics/algorithm.rs",
    "balltree.search": "algorithms/linfa-nn/src/balltree.rs",
}


def hooks_present():
    out = {}
    for name, rel in HOOKS.items():
        try:
            with open(os.path.join(vlib.REPO, rel)) as f:
                out[name] = ('\\"%s\\"' % name) in f.read()
        except OSError:
            out[name] = False
    return out


# ---------------------------------------------------------------------------------------------
# (A) design-model runs

def _dmc(variant, lattices, minn, maxn, mps, eps):
    return dict(Variant='"%s"' % variant, Lattices=vlib.tla_set(lattices), MinPts=minn, MaxPts=maxn,
                MinPtsSet=vlib.tla_set(mps), EpsSet=vlib.tla_set(eps))


D_MC = {
    "quick": [_dmc("ok", [103], 0, 4, [2, 3], [11, 32])],
    "thorough": [_dmc("ok", [104], 0, 4, [2, 3], [11, 32, 21]),
                 _dmc("ok", [103], 5, 5, [4], [11, 32]),
                 _dmc("ok", [202], 0, 3, [2, 3], [11, 32, 21]),
                 _dmc("ok", [103], 0, 4, [2, 3], [0]),
                 _dmc("ok", [999], 0, 0, [4], [52])],
}
D_INVS = ["InvLabelOnce", "InvQueueUnlabelled", "InvPushOnce", "InvOnlyCoresExtend", "InvSeedReach", "InvReachMin",
          "InvDbscanDone", "InvOpticsDone", "InvGrow", "InvLabels", "InvSeeds"]
D_ACTIONS = ["XDSkip", "XDSeed", "XDPop", "XDClose", "XOSkip", "XOStart", "XOPop", "XOEnd", "XDone"]
# a broken design that the new step invariants must reject (non-vacuity)
D_NEG = [("noncore_extends", _dmc("noncore_extends", [103], 5, 5, [4], [32]), "InvOnlyCoresExtend")]
D_TRACE_CONST = dict(Variant='"ok"', Lattices="{}", MinPts=0, MaxPts=0, MinPtsSet="{}", EpsSet="{}")

# (B) generator domains (those of C08)
D_GEN = {
    "quick": [
        dict(Lattices="{101}", MinPts=0, MaxPts=2, MinPtsSet="{2}", EpsSet="{11}", Specials=1, Hubs=1),
        dict(Lattices="{104}", MinPts=0, MaxPts=4, MinPtsSet="{2, 3}", EpsSet="{12, 11, 32, 21, 52, 0}", Specials=0, Hubs=0),
        dict(Lattices="{202}", MinPts=0, MaxPts=3, MinPtsSet="{2, 3}", EpsSet="{11, 32, 21, 0}", Specials=0, Hubs=0),
        dict(Lattices="{103}", MinPts=5, MaxPts=5, MinPtsSet="{4}", EpsSet="{32}", Specials=0, Hubs=0),
    ],
    "thorough": [
        dict(Lattices="{101}", MinPts=0, MaxPts=2, MinPtsSet="{2}", EpsSet="{11}", Specials=1, Hubs=2),
        dict(Lattices="{105}", MinPts=0, MaxPts=4, MinPtsSet="{2, 3, 4}", EpsSet="{12, 11, 32, 21, 52, 31, 0}", Specials=0, Hubs=0),
        dict(Lattices="{104}", MinPts=5, MaxPts=5, MinPtsSet="{2, 3, 4}", EpsSet="{32, 21}", Specials=0, Hubs=0),
        dict(Lattices="{202}", MinPts=0, MaxPts=3, MinPtsSet="{2, 3, 4}", EpsSet="{12, 11, 32, 21, 52, 94, 0}", Specials=0, Hubs=0),
        dict(Lattices="{202}", MinPts=4, MaxPts=4, MinPtsSet="{3}", EpsSet="{32}", Specials=0, Hubs=0),
        dict(Lattices="{301}", MinPts=0, MaxPts=3, MinPtsSet="{2, 3}", EpsSet="{11, 32, 21}", Specials=0, Hubs=0),
    ],
}
D_QUOTA = {"quick": {"structured": 900, "n5": 700, "rest": 1800}, "thorough": {"structured": 6000, "n5": 8000, "rest": 26000}}     # runs (= input x algorithm x index) per family
D_RANDOM = {"quick": 8, "thorough": 300}           # seeded structured inputs of C08's schema (n <= 40), x 6 runs


# ---- ball tree (X09Ball = generalisation of NNBall) -------------------------------------------------------------
def _bmc(maxn, maxn2, c1, c2, qhi, metrics, maxleaf):
    return dict(MaxN=maxn, MaxN2=maxn2, Coords1=c1, Coords2=c2, QLo=0, QHi=qhi, MetricSet=metrics, MaxLeaf=maxleaf, GuardK0="TRUE")


L12 = '{"l1", "linf"}'
L123 = '{"l1", "linf", "l2"}'
# (tag, next, constants, invariants, properties)
B_MC = {
    "quick": [
        # every step of NNBall is a step of the generalisation (leaves of 3 points: rounded bounds occur)
        ("steps_of_nnball", "Next", _bmc(3, 0, "{0, 2}", "{}", 3, L12, 3), ["InvBuildRule"], ["StepsOfNNBall"]),
        # the generalised search is correct whichever way an undecided comparison goes (incl. L2)
        ("generalised", "GNext", _bmc(3, 0, "{0, 2}", "{}", 3, '{"l1", "l2"}', 3),
         ["InvPrunedM", "InvStopSound", "InvAnswer", "NoPanic", "InvFrontier"], []),
        # where every bound is exact the generalisation adds nothing
        ("steps_are_nnball", "GNext", _bmc(3, 0, "{0, 2}", "{}", 3, L12, 2), [], ["StepsAreNNBall"]),
    ],
    "thorough": [
        ("steps_of_nnball", "Next", _bmc(3, 2, "{0, 2, 4}", "{0, 2}", 3, L12, 3), ["InvBuildRule"], ["StepsOfNNBall"]),
        ("generalised", "GNext", _bmc(3, 2, "{0, 2, 4}", "{0, 2}", 3, L123, 3),
         ["InvPrunedM", "InvStopSound", "InvAnswer", "NoPanic", "InvFrontier"], []),
        ("generalised_n4", "GNext", _bmc(4, 0, "{0, 2, 4}", "{}", 3, '{"l2"}', 3),
         ["InvPrunedM", "InvStopSound", "InvAnswer", "NoPanic", "InvFrontier"], []),
        ("steps_are_nnball", "GNext", _bmc(3, 2, "{0, 2, 4}", "{0, 2}", 3, L12, 2), [], ["StepsAreNNBall"]),
    ],
}
B_ACTIONS = ["Start", "GPop", "Exhausted", "GScan"]
B_TRACE_CONST = dict(MaxN=0, MaxN2=0, Coords1="{}", Coords2="{}", QLo=0, QHi=0, MetricSet="{}", MaxLeaf=0, GuardK0="TRUE")
B_STRIDE = {"quick": 31, "thorough": 23}        # 1/stride sample of (C07 case x ball session x k / radius)
B_RANDOM = {"quick": 6, "thorough": 60}         # seeded random clouds of C07's schema (n <= 40), a few queries each


def ball_queries(ctx):
    qs = vlib.tlc_gen(ctx, "Gen_X09Ball", {"constants": {"Tier": '"%s"' % ctx.tier, "Phase": ctx.seed % 1000003,
                                                          "QStride": B_STRIDE[ctx.tier], "QPhase": ctx.seed % 1000003},
                                           "invariants": ["XEmit"]}, workers=4)
    enumerated = len(qs)
    # seeded larger clouds (the trees really branch): C07's random generator, bounded so that every integer form stays
    # inside 31 bits in the interval arithmetic of X09Ball (n <= 40, dim <= 3, |coordinate| <= 24)
    import c07
    r = ctx.rng
    made = 0
    guard = 0
    while made < B_RANDOM[ctx.tier] and guard < 100000:
        guard += 1
        c = c07.random_case(r)["inp"]
        if c["metric"] not in ("l1", "l2", "linf") or c["dim"] > 3 or c["n"] > 40 or c["sc"] > 16:
            continue
        if max([abs(x) for p in c["pts"] for x in p] + [abs(x) for x in c["q"]]) > 24:
            continue
        made += 1
        sess = [s for s in c["sess"] if s["ix"] in ("ball", "ball_d", "ball_n") and s["leaf"] != 0]
        for s in r.sample(sess, min(2, len(sess))):
            # C07 encodes huge k (usize::MAX, 2^32, ...) as negative codes since its round 5; X09Ball models k in 0..n+1 only
            ks = [k for k in c["ks"] if k >= 0]
            for k in r.sample(ks, min(2, len(ks))):
                qs.append({"kind": "ballq", "inp": {"n": c["n"], "dim": c["dim"], "sc": c["sc"], "pts": c["pts"], "q": c["q"],
                                                    "metric": c["metric"], "ix": s["ix"], "ft": s["ft"], "leaf": s["leaf"],
                                                    "lay": s["lay"], "mode": "knn", "k": k, "r8": -1}})
            for r8 in r.sample(c["r8s"], min(2, len(c["r8s"]))):
                qs.append({"kind": "ballq", "inp": {"n": c["n"], "dim": c["dim"], "sc": c["sc"], "pts": c["pts"], "q": c["q"],
                                                    "metric": c["metric"], "ix": s["ix"], "ft": s["ft"], "leaf": s["leaf"],
                                                    "lay": s["lay"], "mode": "range", "k": -1, "r8": r8}})
    return qs, enumerated


def b_features(t):
    tags = set()
    for e in t["ev"]:
        if e["ev"] == "pop":
            if e["act"] == "break":
                tags.add("bt_stop_with_pending_nodes")
            if e["act"] == "kids" and any(not k["pushed"] for k in e["kids"]):
                tags.add("bt_child_pruned")
            if e["act"] == "kids":
                tags.add("bt_branch_expanded")
        if e["ev"] == "point" and not e["kept"]:
            tags.add("bt_point_rejected")
        if e["ev"] == "point" and e["kept"] and e["outlen"] == t["inp"]["k"] and t["inp"]["mode"] == "knn":
            tags.add("bt_candidate_set_full")
    return tags


def density_runs(ctx):
    runs = []
    for k, consts in enumerate(D_GEN[ctx.tier]):
        runs += vlib.tlc_gen(ctx, "Gen_X09Density", {"constants": consts, "invariants": ["XEmit"]}, workers=4,
                             tag="Gen_X09Density_%d" % k)
    seen, uniq = set(), []
    for c in runs:
        s = json.dumps(c, sort_keys=True)
        if s not in seen:
            seen.add(s)
            uniq.append(c)
    runs = uniq
    enumerated = len(runs)
    exhaustive = True
    quota = D_QUOTA[ctx.tier]
    if quota:
        # seeded sample with a quota per family: structured inputs (3-4-5, hub), the n = 5 domain, the rest
        fam = lambda c: "structured" if c["inp"]["src"] in ("special", "hub") else ("n5" if len(c["inp"]["pts"]) >= 5 else "rest")
        groups = {"structured": [], "n5": [], "rest": []}
        for c in runs:
            groups[fam(c)].append(c)
        runs = []
        for g in ("structured", "n5", "rest"):
            ctx.rng.shuffle(groups[g])
            runs += groups[g][:quota[g]]
        exhaustive = False
    # seeded larger inputs of the same schema (chains, rings, blobs, duplicates, noise, random hub embeddings)
    import c08
    big = c08.random_cases(ctx, D_RANDOM[ctx.tier]) + [c08.hub_case(ctx.rng) for _ in range(D_RANDOM[ctx.tier] // 2)]
    for c in big:
        i = c["inp"]
        for a in ("dbscan", "optics"):
            for ix in ("linear", "kdtree", "balltree"):
                runs.append({"kind": "dstep", "inp": {"alg": a, "index": ix, "src": "random", "dim": i["dim"], "pts": i["pts"],
                                                      "minpts": i["minpts"], "eps": i["eps"], "metric": i["metric"],
                                                      "ft": i["ft"], "leaf": i["leaf"]}})
    return runs, enumerated, exhaustive


def d_features(t):
    """measured on the recorded events of an accepted run"""
    tags = set()
    evs = t["ev"]
    if t["inp"]["alg"] == "dbscan":
        if any(e["ev"] == "pop" and e["push"] for e in evs):
            tags.add("db_core_candidate_extends_queue")
        for e in evs:
            if e["ev"] == "pop" and not e["push"] and e["cnt"] < t["inp"]["minpts"]:
                tags.add("db_border_candidate")
        if sum(1 for e in evs if e["ev"] == "close") >= 2:
            tags.add("db_two_clusters")
        if any(e["ev"] == "skip" and e["why"] == 0 for e in evs) and any(e["ev"] == "skip" and e["why"] == 1 for e in evs):
            tags.add("db_both_skips")
    else:
        if any(e["ev"] in ("start", "pop") and any(not u["isnew"] for u in e["upd"]) for e in evs):
            tags.add("op_reachability_lowered")
        if any(e["ev"] == "pop" and e["nseeds"] >= 2 for e in evs):
            tags.add("op_pop_among_several_seeds")
        if sum(1 for e in evs if e["ev"] == "endwalk") >= 2:
            tags.add("op_two_walks")
        if any(e["ev"] == "pop" and not e["core"]["def"] for e in evs):
            tags.add("op_noncore_seed_listed")
    return tags


# ---------------------------------------------------------------------------------------------
# validation: acceptance pass without the diagnostic action (its ENABLED evaluates every action twice); the rejected
# cases are validated again with it to obtain the FAIL diagnostics

def validate(ctx, module, traces, constants, tag, chunk):
    if not traces:
        return set(), []
    if vlib.load_known(ctx.id):          # named deviations under review: the shared two-pass procedure
        return vlib.validate_with_findings(ctx, module, traces, constants=constants, chunk=chunk, tag=tag)
    ok, _ = vlib.tlc_validate(ctx, module, traces, constants=constants, chunk=chunk, tag=tag, devs=[], spec_next="TraceNextFast")
    info = dict(getattr(ctx, "okinfo", {}))
    ctx.validated += len(ok)
    rej = [t for t in traces if t["id"] not in ok]
    if rej:
        ok2, fails = vlib.tlc_validate(ctx, module, rej[:400], constants=constants, tag=tag + "_diag", devs=[], spec_next="TraceNext")
        if ok2:
            raise vlib.ToolError("%s: acceptance differs between TraceNextFast and TraceNext" % module)
        for t in rej:
            vlib.record_violation(ctx, t, fails.get(t["id"], []))
    ctx.okinfo = info
    return ok, [t["id"] for t in rej]


# ---------------------------------------------------------------------------------------------
# trace corruption self-test (DESIGN.md 10a.1; development only: VERIF_X09_CORRUPT=1): one logged field of one
# event of an accepted hooked trace is perturbed; the case must be rejected (a field nobody reads is unbound)

def _first(evs, name, pred=lambda e: True):
    for k, e in enumerate(evs):
        if e["ev"] == name and pred(e):
            return k
    return None


def _corruptions():
    """(tag, kind/alg selector, event name, event predicate, mutator)"""
    def setf(f, delta):
        def m(e):
            e[f] = e[f] + delta
        return m
    def obsf(f, delta):
        def m(e):
            e[f]["i"] += delta
        return m
    def fxf(f, delta):
        def m(e):
            e[f]["fx"] += delta
        return m
    def droplast(f):
        def m(e):
            e[f] = e[f][:-1]
        return m
    def flip(f):
        def m(e):
            e[f] = not e[f]
        return m
    db, op, bt = ("dstep", "dbscan"), ("dstep", "optics"), ("ballq", None)
    any_ = lambda e: True
    C = [
        ("db.skip.i", db, "skip", any_, setf("i", 1)),
        ("db.skip.why", db, "skip", any_, lambda e: e.update(why=1 - e["why"], cnt=max(e["cnt"], 0))),
        ("db.skip.cnt", db, "skip", lambda e: e["why"] == 1, setf("cnt", 1)),
        ("db.seed.i", db, "seed", any_, setf("i", 1)),
        ("db.seed.cid", db, "seed", any_, setf("cid", 1)),
        ("db.seed.cnt", db, "seed", any_, setf("cnt", 1)),
        ("db.seed.push-", db, "seed", lambda e: e["push"], droplast("push")),
        ("db.seed.push+", db, "seed", any_, lambda e: e["push"].append(e["i"])),
        ("db.pop.i", db, "pop", any_, setf("i", 1)),
        ("db.pop.cid", db, "pop", any_, setf("cid", 1)),
        ("db.pop.cnt", db, "pop", any_, setf("cnt", 1)),
        ("db.pop.push-", db, "pop", lambda e: e["push"], droplast("push")),
        ("db.pop.push+", db, "pop", any_, lambda e: e["push"].append(e["i"])),
        ("db.close.cid", db, "close", any_, setf("cid", 1)),
        ("db.end.n", db, "end", any_, setf("n", 1)),
        ("db.labels", db, "labels", lambda e: e["labels"], lambda e: e["labels"].__setitem__(0, e["labels"][0] + 1)),
        ("op.skip.i", op, "skip", any_, setf("i", 1)),
        ("op.start.i", op, "start", any_, setf("i", 1)),
        ("op.start.nn", op, "start", any_, setf("nn", 1)),
        ("op.start.nseeds", op, "start", any_, setf("nseeds", 1)),
        ("op.start.core", op, "start", lambda e: e["core"]["def"], obsf("core", 1)),
        ("op.start.reach", op, "start", any_, lambda e: e["reach"].update({"def": True, "i": 1})),
        ("op.start.upd.j", op, "start", lambda e: e["upd"], lambda e: e["upd"][0].update(j=e["i"])),
        ("op.start.upd.r", op, "start", lambda e: e["upd"], lambda e: e["upd"][0]["r"].update(i=e["upd"][0]["r"]["i"] + 1)),
        ("op.start.upd.isnew", op, "start", lambda e: e["upd"], lambda e: e["upd"][0].update(isnew=False)),
        ("op.start.upd.nseeds", op, "start", lambda e: e["upd"], lambda e: e["upd"][0].update(nseeds=e["upd"][0]["nseeds"] + 1)),
        ("op.start.upd-", op, "start", lambda e: e["upd"], droplast("upd")),
        ("op.pop.i", op, "pop", any_, setf("i", 1)),
        ("op.pop.nn", op, "pop", any_, setf("nn", 1)),
        ("op.pop.nseeds", op, "pop", any_, setf("nseeds", 1)),
        ("op.pop.core", op, "pop", lambda e: e["core"]["def"], obsf("core", 1)),
        ("op.pop.reach", op, "pop", any_, obsf("reach", 1)),
        ("op.pop.upd.r", op, "pop", lambda e: e["upd"], lambda e: e["upd"][0]["r"].update(i=e["upd"][0]["r"]["i"] + 1)),
        ("op.pop.upd.isnew", op, "pop", lambda e: e["upd"], lambda e: e["upd"][0].update(isnew=not e["upd"][0]["isnew"])),
        ("op.pop.upd-", op, "pop", lambda e: e["upd"], droplast("upd")),
        ("op.endwalk.n", op, "endwalk", any_, setf("n", 1)),
        ("op.end.n", op, "end", any_, setf("n", 1)),
        ("op.order.reach", op, "order", lambda e: any(o["reach"]["def"] for o in e["order"]),
         lambda e: [o for o in e["order"] if o["reach"]["def"]][0]["reach"].update(i=[o for o in e["order"] if o["reach"]["def"]][0]["reach"]["i"] + 1)),
        ("op.order.swap", op, "order", lambda e: len(e["order"]) >= 2, lambda e: e["order"].__setitem__(slice(0, 2), [e["order"][1], e["order"][0]])),
        ("bt.start.k", bt, "start", any_, setf("k", 1)),
        ("bt.start.maxr", bt, "start", lambda e: not e["maxr"]["inf"], obsf("maxr", 1)),
        ("bt.start.lb", bt, "start", any_, fxf("lb", 64)),
        ("bt.start.tree.centre", bt, "start", lambda e: e["tree"]["c"], lambda e: e["tree"]["c"][0].update(fx=e["tree"]["c"][0]["fx"] + 6400)),
        ("bt.start.tree.radius", bt, "start", any_, lambda e: e["tree"]["r"].update(fx=e["tree"]["r"]["fx"] + 6400)),
        ("bt.start.tree.split", bt, "start", lambda e: not e["tree"]["leaf"] and e["tree"]["l"]["leaf"] and e["tree"]["rt"]["leaf"]
         and len(e["tree"]["rt"]["pts"]) >= 2,
         lambda e: e["tree"]["l"]["pts"].append(e["tree"]["rt"]["pts"].pop())),
        ("bt.pop.node", bt, "pop", lambda e: len(e["node"]) >= 2, droplast("node")),
        ("bt.pop.lb", bt, "pop", any_, fxf("lb", 64)),
        ("bt.pop.outlen", bt, "pop", any_, setf("outlen", 1)),
        ("bt.pop.worst", bt, "pop", lambda e: e["worst"]["def"], obsf("worst", 64)),
        ("bt.pop.act", bt, "pop", lambda e: e["act"] == "leaf", lambda e: e.update(act="break")),
        ("bt.pop.kids.pushed", bt, "pop", lambda e: e["act"] == "kids", lambda e: e["kids"][0].update(pushed=not e["kids"][0]["pushed"])),
        ("bt.pop.kids.lb", bt, "pop", lambda e: e["act"] == "kids", lambda e: e["kids"][1]["lb"].update(fx=e["kids"][1]["lb"]["fx"] + 64)),
        ("bt.pop.kids.node", bt, "pop", lambda e: e["act"] == "kids", lambda e: e["kids"].reverse()),
        ("bt.point.idx", bt, "point", any_, setf("idx", 1)),
        ("bt.point.d", bt, "point", any_, obsf("d", 64)),
        ("bt.point.kept", bt, "point", any_, flip("kept")),
        ("bt.point.outlen", bt, "point", any_, setf("outlen", 1)),
        ("bt.point.worst", bt, "point", lambda e: e["worst"]["def"], obsf("worst", 64)),
        ("bt.done.n", bt, "done", any_, setf("n", 1)),
        ("bt.result.pos", bt, "result", lambda e: e["pos"], droplast("pos")),
        ("bt.drop_event", bt, "pop", any_, None),
        ("db.drop_event", db, "pop", any_, None),
        ("op.drop_event", op, "pop", any_, None),
    ]
    return C


def corrupt_selftest(ctx, dtr, btr, okd, okb, per=3):
    import copy
    out = {}
    jobs = {"dstep": [], "ballq": []}
    nid = 10 ** 6
    for tag, (kind, alg), evn, pred, mut in _corruptions():
        pool = [t for t in (dtr if kind == "dstep" else btr)
                if t["inp"]["hook"] and (t["id"] in okd or t["id"] in okb) and (alg is None or t["inp"]["alg"] == alg)
                and _first(t["ev"], evn, pred) is not None]
        # prefer small cases whose bounds are exact (a perturbation inside an undecided interval is legitimately accepted)
        pool.sort(key=lambda t: (len(json.dumps(t["inp"])), t["id"]))
        chosen = pool[:: max(1, len(pool) // per)][:per]
        for t in chosen:
            t2 = copy.deepcopy(t)
            k = _first(t2["ev"], evn, pred)
            if mut is None:
                del t2["ev"][k]
            else:
                mut(t2["ev"][k])
            nid += 1
            t2["id"] = nid
            jobs[kind].append((tag, t2))
        out[tag] = {"tried": len(chosen), "rejected": 0}
    controls = 0
    for kind, module, consts in (("dstep", "Trace_X09Density", D_TRACE_CONST), ("ballq", "Trace_X09Ball", B_TRACE_CONST)):
        if not jobs[kind]:
            continue
        # unmodified copies of the same traces under new ids must still be accepted (the test itself is not vacuous)
        ctl = []
        for _, t in jobs[kind][::7]:
            orig = copy.deepcopy([x for x in (dtr if kind == "dstep" else btr) if x["inp"] == t["inp"]][0])
            nid += 1
            orig["id"] = nid
            ctl.append(orig)
        okc, _ = vlib.tlc_validate(ctx, module, ctl, constants=consts, tag=module + "_corrupt_control", devs=[], spec_next="TraceNextFast")
        if len(okc) != len(ctl):
            raise vlib.ToolError("trace corruption self-test: an unmodified control copy was rejected")
        controls += len(ctl)
        ok, _ = vlib.tlc_validate(ctx, module, [t for _, t in jobs[kind]], constants=consts, tag=module + "_corrupt", devs=[],
                                  spec_next="TraceNextFast")
        for tag, t in jobs[kind]:
            if t["id"] not in ok:
                out[tag]["rejected"] += 1
    unbound = sorted(tag for tag, v in out.items() if v["tried"] and v["rejected"] < v["tried"])
    untried = sorted(tag for tag, v in out.items() if not v["tried"])
    ctx.extra["trace_corruption"] = {"fields": len(out), "corrupted_traces": sum(v["tried"] for v in out.values()),
                                     "rejected": sum(v["rejected"] for v in out.values()), "accepted_although_corrupted": unbound,
                                     "unmodified_control_copies_accepted": controls,
                                     "no_trace_with_event": untried}
    vlib.log("trace corruption: %d corrupted traces, %d rejected; accepted: %s; untried: %s"
             % (sum(v["tried"] for v in out.values()), sum(v["rejected"] for v in out.values()), unbound, untried))
    return unbound


def run(ctx):
    binp = vlib.cargo_build("x09")
    hooks = hooks_present()
    ctx.extra["hooks_present_in_tree"] = hooks
    missing = sorted(h for h, v in hooks.items() if not v)
    if missing:
        vlib.log("hooks not in this tree: %s -> their step clauses are skipped (results judged by the input/output relations only)"
                 % ", ".join(missing))
    skip_mc = os.environ.get("VERIF_X09_SKIP_MC") == "1" and vlib.REPO != "/repo"     # development knob (mutant runs)
    # (A) design models
    for k, consts in enumerate([] if skip_mc else D_MC[ctx.tier]):
        vlib.tlc_mc(ctx, "X09Density", {"init": "XInit", "next": "XNext", "constants": consts, "invariants": D_INVS},
                    workers=6, coverage_actions=D_ACTIONS if k == 0 else None, tag="X09Density_mc%d" % k)
    neg = []
    for name, consts, inv in ([] if skip_mc else D_NEG):
        rc, lines = vlib.tlc(ctx, "X09Density", {"init": "XInit", "next": "XNext", "constants": consts, "invariants": [inv]},
                             workers=2, tag="X09Density_neg_" + name)
        viol = [l for l in lines if l.startswith("Error: Invariant %s is violated" % inv)]
        if rc != 12 or not viol:
            raise vlib.ToolError("design variant %s is not rejected by %s (rc=%d): the step invariant is vacuous" % (name, inv, rc))
        neg.append("%s -> %s" % (name, viol[0][len("Error: "):]))
    ctx.extra["broken_design_variants_rejected"] = neg
    for tag, nxt, consts, invs, props in ([] if skip_mc else B_MC[ctx.tier]):
        vlib.tlc_mc(ctx, "X09Ball", {"init": "Init", "next": nxt, "constants": consts, "invariants": invs, "properties": props},
                    workers=6, coverage_actions=B_ACTIONS if (nxt == "GNext" and invs and ctx.quick) else None, tag="X09Ball_" + tag)
    # (B) cases
    druns, d_enum, d_exh = density_runs(ctx)
    for c in druns:
        c["inp"]["hook"] = 1 if hooks["dbscan.step" if c["inp"]["alg"] == "dbscan" else "optics.step"] else 0
    bqs, b_enum = ball_queries(ctx)
    for c in bqs:
        c["inp"]["hook"] = 1 if hooks["balltree.search"] else 0
    vlib.number(druns + bqs)
    ctx.cases = len(druns) + len(bqs)
    ctx.exhaustive = False
    ctx.extra["density_runs"] = len(druns)
    ctx.extra["density_runs_enumerated_by_tlc"] = d_enum
    ctx.extra["ball_queries"] = len(bqs)
    ctx.extra["ball_queries_enumerated_by_tlc"] = b_enum
    # (C) execution with the hooks on, replay against the design models
    dtr = vlib.run_harness(ctx, binp, druns, tag="dcases")
    btr = vlib.run_harness(ctx, binp, bqs, tag="bcases")
    okd, rejd = validate(ctx, "Trace_X09Density", dtr, D_TRACE_CONST, "Trace_X09Density", 4000)
    infod = dict(getattr(ctx, "okinfo", {}))
    okb, rejb = validate(ctx, "Trace_X09Ball", btr, B_TRACE_CONST, "Trace_X09Ball", 4000)
    infob = dict(getattr(ctx, "okinfo", {}))
    nohook = sum(1 for i in okd if any("nohook" in s for s in infod.get(i, ()))) + \
        sum(1 for i in okb if any("nohook" in s for s in infob.get(i, ())))
    # measured non-triviality / vacuity
    feats = {}
    nontriv = set()
    for t, okset, ff in [(t, okd, d_features) for t in dtr] + [(t, okb, b_features) for t in btr]:
        if t["id"] not in okset or not t["inp"]["hook"]:
            continue
        tg = ff(t)
        for x in tg:
            feats[x] = feats.get(x, 0) + 1
        if tg:
            nontriv.add(json.dumps(t["inp"], sort_keys=True))
    # without hooks there are no step events to measure on: count the accepted inputs that can branch at all
    for t in dtr:
        if t["id"] in okd and not t["inp"]["hook"] and len(t["inp"]["pts"]) >= 3:
            nontriv.add(json.dumps(t["inp"], sort_keys=True))
    for t in btr:
        if t["id"] in okb and not t["inp"]["hook"] and 1 <= t["inp"]["leaf"] < t["inp"]["n"]:
            nontriv.add(json.dumps(t["inp"], sort_keys=True))
    ctx.nontrivial = len(nontriv)
    ctx.extra["accepted_case_features"] = feats
    ctx.extra["cases_validated_without_step_events"] = nohook
    ctx.extra["step_events_replayed"] = sum(len(t["ev"]) - 1 for t in dtr + btr if (t["id"] in okd or t["id"] in okb) and t["inp"]["hook"])
    ctx.extra["step_clauses"] = ("replayed" if all(hooks.values()) else
                                 "SKIPPED for " + ", ".join(sorted(h for h, v in hooks.items() if not v)) +
                                 " (hook not in this tree: only the input/output relations of the result were checked)")
    # a hooked tree must deliver step events (hook removed or silent = tool error, never a verdict)
    for name, trs, sel in (("dbscan.step", dtr, lambda t: t["inp"]["alg"] == "dbscan"),
                           ("optics.step", dtr, lambda t: t["inp"]["alg"] == "optics"),
                           ("balltree.search", btr, lambda t: True)):
        if hooks[name] and not any(len(t["ev"]) > 1 for t in trs if sel(t)):
            raise vlib.ToolError("the tree contains the %s hook but no step event was recorded" % name)
    if not rejd and not rejb:
        need = []
        if hooks["dbscan.step"]:
            need += ["db_core_candidate_extends_queue", "db_border_candidate", "db_two_clusters", "db_both_skips"]
        if hooks["optics.step"]:
            need += ["op_reachability_lowered", "op_pop_among_several_seeds", "op_two_walks", "op_noncore_seed_listed"]
        if hooks["balltree.search"]:
            need += ["bt_stop_with_pending_nodes", "bt_child_pruned", "bt_branch_expanded", "bt_point_rejected", "bt_candidate_set_full"]
        for n in need:
            if feats.get(n, 0) == 0:
                raise vlib.ToolError("vacuity: no accepted case with feature %s" % n)
    if os.environ.get("VERIF_X09_CORRUPT") == "1" and not rejd and not rejb:
        v0 = ctx.validated
        unbound = corrupt_selftest(ctx, dtr, btr, okd, okb)
        ctx.validated = v0
        if unbound:
            raise vlib.ToolError("trace corruption accepted (unbound fields): %s" % ", ".join(unbound))
    vlib.sample(ctx, [t for t in dtr if t["inp"]["alg"] == "dbscan" and len(t["inp"]["pts"]) == 4 and len(t["ev"]) > 6][:1]
                + [t for t in dtr if t["inp"]["alg"] == "optics" and len(t["inp"]["pts"]) == 4 and len(t["ev"]) > 6][:1]
                + [t for t in btr if t["inp"]["n"] == 3 and t["inp"]["leaf"] == 1 and len(t["ev"]) > 5][:1])
    ctx.rule = ("cases = single runs with the step hooks on: (a) the lattice inputs of C08 (Gen_Density families: all point sequences of the "
                "bounded domains x min_points x tolerance x metric, 3-4-5 inputs, hub family; n=5 domain and structured families whole, "
                "seeded sample of the rest) + seeded structured inputs n<=40, each x {DBSCAN, OPTICS} x {linear, k-d tree, ball tree}; "
                "(b) the lattice cases of C07 (Gen_NN families, metrics l1/l2/linf, scales 1/4/16) x ball-tree session (constructor, "
                "f32/f64, every leaf size, layout) x k in 0..n+1 / radius on, between and beyond the attained distances, a seeded "
                "1/%d sample of that product + seeded clouds n<=40; every event of a run is one TLC step; non-trivial = an accepted run "
                "in which a core candidate extended the queue, a border candidate was labelled, two clusters/walks occurred, a "
                "reachability was lowered, a seed was popped among several, a search stopped with pending nodes, a child was pruned, "
                "a point was rejected or the candidate set was full (measured on the recorded events; on a tree without the hooks: "
                "an accepted run with >= 3 points resp. a query on a tree with >= 2 nodes); distinct by input"
                % B_STRIDE[ctx.tier])
    ctx.trusted = ["TLC + CommunityModules Json", "hook call sites (docs/reports/X09-hook.diff: add-only, behind cfg(linfa_verif))",
                   "harness encoders (harness/src/bin/x09.rs: hook floats -> exact-integer observations / fixed point 1/6400, "
                   "grouping of seed / kids / break events with the step they belong to)",
                   "Geo.tla / NNRel.tla integer distance forms"]
    ctx.assumptions = ["lattice inputs (small integers divided by a power of two), dyadic tolerances / radii in eighths: every point distance "
                       "and every comparison between point distances is exact in f32/f64",
                       "sphere bounds are exact only for dyadic centres; otherwise the model carries an interval (width <= 4/6400 for L1/Linf, "
                       "square-root bracket for L2) and a comparison the interval does not decide may go either way",
                       "queue service order, push order within a step and ties between equal reachabilities / equal bounds / equal "
                       "distances are not prescribed",
                       "boundary convention (point exactly on the tolerance) inferred once per run"]
    return vlib.finish(ctx)


def replay(ctx, case):
    binp = vlib.cargo_build("x09")
    hooks = hooks_present()
    case = {"id": case.get("id", 1), "kind": case["kind"], "inp": dict(case["inp"])}
    if case["kind"] == "dstep":
        case["inp"]["hook"] = 1 if hooks["dbscan.step" if case["inp"]["alg"] == "dbscan" else "optics.step"] else 0
    else:
        case["inp"]["hook"] = 1 if hooks["balltree.search"] else 0
    traces = vlib.run_harness(ctx, binp, [case])
    ctx.cases = 1
    if case["kind"] == "dstep":
        validate(ctx, "Trace_X09Density", traces, D_TRACE_CONST, "Trace_X09Density", None)
    else:
        validate(ctx, "Trace_X09Ball", traces, B_TRACE_CONST, "Trace_X09Ball", None)
    return vlib.finish(ctx)
